(* C11 - every history of the Observe model is accepted by the acceptor of Accept.v
   (the for-all part: for all op sequences, all con_active inputs, all initial counters).
   Proof: lock-step simulation; the relation ties each model subscription to the acceptor's
   observer entry: (acao_val + acao_chg) mod 2^24 is the resource's counter, acao_chg > 0 implies that
   the resource or the subscription is flagged dirty, acao_run is non_cnt, acao_lastk is the last
   notification's ordinal. *)
From LibcoapV Require Import Base.Tactics Observe.Observe Observe.Accept Observe.ObserveProofs.
Local Open Scope Z_scope.

(* ------------------------------------------------------------------ Forall2 and the list helpers *)

Section F2.
  Context {A B : Type} (R : A -> B -> Prop).

  Lemma f2_find : forall (f : A -> bool) (g : B -> bool) l1 l2,
    Forall2 R l1 l2 -> (forall x y, R x y -> f x = g y) ->
    match ob_find f l1, ob_find g l2 with
    | Some x, Some y => R x y
    | None, None => True
    | _, _ => False
    end.
  Proof.
    intros f g l1 l2 H Hfg. induction H as [|x y l1 l2 Hxy H IH]; cbn [ob_find]; [exact I|].
    rewrite (Hfg x y Hxy). destruct (g y); [exact Hxy | exact IH].
  Qed.

  Lemma f2_remove1 : forall (f : A -> bool) (g : B -> bool) l1 l2,
    Forall2 R l1 l2 -> (forall x y, R x y -> f x = g y) ->
    Forall2 R (fst (ob_remove1 f l1)) (fst (ob_remove1 g l2)) /\
    snd (ob_remove1 f l1) = snd (ob_remove1 g l2).
  Proof.
    intros f g l1 l2 H Hfg. induction H as [|x y l1 l2 Hxy H IH]; cbn [ob_remove1].
    - split; [constructor | reflexivity].
    - rewrite (Hfg x y Hxy). destruct (g y); [split; [exact H | reflexivity]|].
      destruct IH as [I1 I2]. destruct (ob_remove1 f l1) as [a1 b1], (ob_remove1 g l2) as [a2 b2].
      cbn [fst snd] in *. split; [constructor; assumption | assumption].
  Qed.

  Lemma f2_filter : forall (f : A -> bool) (g : B -> bool) l1 l2,
    Forall2 R l1 l2 -> (forall x y, R x y -> f x = g y) ->
    Forall2 R (filter f l1) (filter g l2).
  Proof.
    intros f g l1 l2 H Hfg. induction H as [|x y l1 l2 Hxy H IH]; cbn [filter]; [constructor|].
    rewrite (Hfg x y Hxy). destruct (g y); [constructor; assumption | assumption].
  Qed.
End F2.

Lemma f2_map : forall {A B A' B'} (R : A -> B -> Prop) (R' : A' -> B' -> Prop) (h1 : A -> A')
                      (h2 : B -> B') l1 l2,
  Forall2 R l1 l2 -> (forall x y, R x y -> R' (h1 x) (h2 y)) -> Forall2 R' (map h1 l1) (map h2 l2).
Proof.
  intros A B A' B' R R' h1 h2 l1 l2 H Hh. induction H; cbn [map]; constructor; auto.
Qed.

Lemma f2_in_right : forall {A B} (R : A -> B -> Prop) l1 l2 o,
  Forall2 R l1 l2 -> In o l2 -> exists x, In x l1 /\ R x o.
Proof.
  intros A B R l1 l2 o H. induction H as [|x y l1 l2 Hxy H IH]; intro Ho; [destruct Ho|].
  destruct Ho as [<-|Ho]; [exists x; split; [left; reflexivity | assumption]|].
  destruct (IH Ho) as [z [Hz Hr]]. exists z. split; [right; assumption | assumption].
Qed.

Lemma f2_impl : forall {A B} (R R' : A -> B -> Prop) l1 l2,
  Forall2 R l1 l2 -> (forall x y, R x y -> R' x y) -> Forall2 R' l1 l2.
Proof. intros A B R R' l1 l2 H Hh. induction H; constructor; auto. Qed.

(* ------------------------------------------------------------------ acceptor resources by id *)

Lemma ac_get_app : forall r a x b,
  acar_id x = r -> (forall y, In y a -> acar_id y <> r) -> ac_get r (a ++ x :: b) = Some x.
Proof.
  induction a as [|y a IH]; cbn [ac_get app]; intros x b Hx Ha.
  - rewrite Hx, Z.eqb_refl. reflexivity.
  - assert (acar_id y =? r = false) as -> by (apply Z.eqb_neq; apply Ha; left; reflexivity).
    apply IH; [assumption|]. intros z Hz. apply Ha. right. assumption.
Qed.

Lemma ac_upd_app : forall r f a x b,
  acar_id x = r -> (forall y, In y a -> acar_id y <> r) ->
  ac_upd r f (a ++ x :: b) = a ++ ac_mk_ar (acar_id x) (f (acar_obs x)) :: b.
Proof.
  induction a as [|y a IH]; cbn [ac_upd app]; intros x b Hx Ha.
  - rewrite Hx, Z.eqb_refl. reflexivity.
  - assert (acar_id y =? r = false) as -> by (apply Z.eqb_neq; apply Ha; left; reflexivity).
    f_equal. apply IH; [assumption|]. intros z Hz. apply Ha. right. assumption.
Qed.

Lemma ac_drop_app : forall r a x b,
  acar_id x = r -> (forall y, In y a -> acar_id y <> r) -> ac_drop r (a ++ x :: b) = a ++ b.
Proof.
  induction a as [|y a IH]; cbn [ac_drop app]; intros x b Hx Ha.
  - rewrite Hx, Z.eqb_refl. reflexivity.
  - assert (acar_id y =? r = false) as -> by (apply Z.eqb_neq; apply Ha; left; reflexivity).
    f_equal. apply IH; [assumption|]. intros z Hz. apply Ha. right. assumption.
Qed.

Lemma ac_get_none_upd : forall r f rs, ac_get r rs = None -> ac_upd r f rs = rs.
Proof.
  induction rs as [|y rs IH]; cbn [ac_get ac_upd]; intro H; [reflexivity|].
  destruct (acar_id y =? r); [discriminate|]. f_equal. apply IH. assumption.
Qed.

(* ------------------------------------------------------------------ the simulation relation *)

Section Sim.
  Variable p : ob_params.
  Variable c : ac_cfg.
  Hypothesis Hns : accf_nstart c = obpr_nstart p.
  Hypothesis Hmn : accf_max_non c = obpr_max_non p.
  Hypothesis Hmn0 : 0 <= obpr_max_non p.
  Hypothesis Hmf : obpr_max_fail p <= 1.
  Hypothesis Hlen : accf_strict c = false.

  Definition sim_sub (mode obs : Z) (d : bool) (x : ob_sub) (o : ac_obs) : Prop :=
    obsb_sess x = acao_s o /\ obsb_tok x = acao_t o /\ obsb_key x = acao_key o /\ obsb_last x = acao_lastk o /\
    obsb_fail x = 0 /\ (mode <> 2 -> obsb_non x = acao_run o) /\
    0 <= acao_chg o /\ (acao_val o + acao_chg o) mod ob_M = obs /\
    (0 < acao_chg o -> d = true \/ obsb_dirty x = true) /\
    (acao_weak o = false -> d = true \/ obsb_dirty x = true -> 1 <= acao_chg o).

  Definition sim_res (r : ob_res) (a : ac_res) : Prop :=
    obrs_id r = acar_id a /\ obrs_mode r = ac_mode c (obrs_id r) /\
    Forall2 (sim_sub (obrs_mode r) (obrs_obs r) (obrs_dirty r)) (obrs_subs r) (acar_obs a).

  Definition sim (st : ob_state) (a : ac_state) : Prop :=
    ob_ok st /\ Forall2 sim_res (obst_res st) (acas_res a) /\ obst_fl st = acas_fl a /\ obst_nk st = acas_nk a.

  (* after a step: up to date, or behind a full NSTART window, or behind an unfinished large
     transmission to its session *)
  Definition sim_settled (cnt : list (Z * Z)) (o : ac_obs) : Prop :=
    acao_chg o = 0 \/ obpr_nstart p <= ob_ca_get cnt (acao_s o) \/
    0 < ob_ca_get cnt (acao_s o + ob_lg_off).

  Lemma sim_sub_is : forall mode obs d x o s t,
    sim_sub mode obs d x o -> ob_sub_is s t x = ac_obs_is s t o.
  Proof.
    intros mode obs d x o s t [A [B _]]. unfold ob_sub_is, ac_obs_is. rewrite A, B. reflexivity.
  Qed.

  Lemma sim_sub_keyis : forall mode obs d x o s k,
    sim_sub mode obs d x o -> ob_sub_keyis s k x = ac_obs_keyis s k o.
  Proof.
    intros mode obs d x o s k [A [_ [B _]]]. unfold ob_sub_keyis, ac_obs_keyis. rewrite A, B.
    reflexivity.
  Qed.

  (* resources line up by id *)
  Lemma sim_get : forall r rs ars,
    Forall2 sim_res rs ars ->
    match ob_get_res r rs, ac_get r ars with
    | Some x, Some y => sim_res x y /\
        exists a b a' b', rs = a ++ x :: b /\ ars = a' ++ y :: b' /\
          Forall2 sim_res a a' /\ Forall2 sim_res b b' /\ obrs_id x = r /\ acar_id y = r /\
          (forall z, In z a -> obrs_id z <> r) /\ (forall z, In z a' -> acar_id z <> r)
    | None, None => True
    | _, _ => False
    end.
  Proof.
    intros r rs ars H. induction H as [|x y rs ars Hxy H IH]; cbn [ob_get_res ac_get]; [exact I|].
    destruct Hxy as [Hid Hrest]. rewrite <- Hid. destruct (obrs_id x =? r) eqn:E.
    - split; [split; assumption|]. apply Z.eqb_eq in E.
      exists [], rs, [], ars. repeat split; try assumption; try constructor; try congruence;
        intros ? [].
    - destruct (ob_get_res r rs) as [x0|], (ac_get r ars) as [y0|]; try exact IH.
      destruct IH as [S [a [b [a' [b' [E1 [E2 [Fa [Fb [I1 [I2 [N1 N2]]]]]]]]]]]].
      split; [assumption|]. exists (x :: a), b, (y :: a'), b'. subst rs ars.
      repeat split; try assumption.
      + constructor; [split; assumption | assumption].
      + intros z [<-|Hz]; [apply Z.eqb_neq; assumption | apply N1; assumption].
      + intros z [<-|Hz]; [rewrite <- Hid; apply Z.eqb_neq; assumption | apply N2; assumption].
  Qed.

  Lemma sim_upd : forall r rs ars f g,
    Forall2 sim_res rs ars ->
    (forall x y, sim_res x y -> obrs_id x = r -> sim_res (f x) (ac_mk_ar (acar_id y) (g (acar_obs y)))) ->
    Forall2 sim_res (ob_upd_res r f rs) (ac_upd r g ars).
  Proof.
    intros r rs ars f g H Hfg. induction H as [|x y rs ars Hxy H IH]; cbn [ob_upd_res ac_upd];
      [constructor|].
    pose proof Hxy as [Hid _]. rewrite <- Hid. destruct (obrs_id x =? r) eqn:E.
    - constructor; [|assumption]. rewrite Hid. apply Hfg; [assumption | apply Z.eqb_eq; assumption].
    - constructor; assumption.
  Qed.

  Lemma sim_res_subs : forall x y l l',
    sim_res x y -> Forall2 (sim_sub (obrs_mode x) (obrs_obs x) (obrs_dirty x)) l l' ->
    sim_res (ob_set_subs x l) (ac_mk_ar (acar_id y) l').
  Proof. intros x y l l' [A [B C]] H. unfold sim_res, ob_set_subs. cbn. auto. Qed.

  Lemma sim_sub_touch : forall m ob d s t x o,
    sim_sub m ob d x o -> sim_sub m ob d (ob_touch_sub s t x) o.
  Proof.
    intros m ob d s t x o H. unfold ob_touch_sub. destruct (ob_sub_is s t x); [|exact H].
    unfold sim_sub in *. cbn. tauto.
  Qed.

  Lemma sim_touch : forall s t rs ars, Forall2 sim_res rs ars -> Forall2 sim_res (ob_touch s t rs) ars.
  Proof.
    intros s t rs ars H. unfold ob_touch. induction H as [|x y rs ars Hxy H IH]; cbn [map];
      constructor; [|assumption].
    destruct Hxy as [A [B C]]. unfold sim_res, ob_set_subs. cbn. split; [assumption|].
    split; [assumption|]. clear - C. induction C; cbn [map]; constructor;
      [apply sim_sub_touch; assumption | assumption].
  Qed.

  Lemma sim_del : forall m ob d s t l l',
    Forall2 (sim_sub m ob d) l l' ->
    Forall2 (sim_sub m ob d) (fst (ob_remove1 (ob_sub_is s t) l)) (ac_del s t l') /\
    snd (ob_remove1 (ob_sub_is s t) l) = snd (ob_remove1 (ac_obs_is s t) l').
  Proof.
    intros m ob d s t l l' H. unfold ac_del. apply f2_remove1; [assumption|].
    intros x y Hxy. eapply sim_sub_is. eassumption.
  Qed.

  Lemma sim_del_in_res : forall s t x y,
    sim_res x y -> sim_res (fst (ob_del_in_res s t x)) (ac_mk_ar (acar_id y) (ac_del s t (acar_obs y))).
  Proof.
    intros s t x y H. unfold ob_del_in_res.
    pose proof H as [_ [_ C]]. destruct (sim_del _ _ _ s t _ _ C) as [D _].
    destruct (ob_remove1 (ob_sub_is s t) (obrs_subs x)) as [l b]. cbn [fst] in *.
    apply sim_res_subs; assumption.
  Qed.

  Lemma sim_replace_key : forall m ob d s key l l',
    Forall2 (sim_sub m ob d) l l' ->
    Forall2 (sim_sub m ob d)
      (match ob_find (ob_sub_keyis s key) l with
       | Some old => fst (ob_remove1 (ob_sub_is s (obsb_tok old)) l)
       | None => l
       end) (ac_replace_key s key l') /\
    (match ob_find (ob_sub_keyis s key) l with Some _ => true | None => false end =
     match ob_find (ac_obs_keyis s key) l' with Some _ => true | None => false end).
  Proof.
    intros m ob d s key l l' H. unfold ac_replace_key.
    pose proof (f2_find _ (ob_sub_keyis s key) (ac_obs_keyis s key) l l' H
                  (fun x y Hxy => sim_sub_keyis _ _ _ x y s key Hxy)) as F.
    destruct (ob_find (ob_sub_keyis s key) l) as [old|], (ob_find (ac_obs_keyis s key) l') as [old'|];
      try contradiction.
    - split; [|reflexivity]. destruct F as [_ [Et _]]. rewrite Et. apply sim_del. assumption.
    - split; [assumption | reflexivity].
  Qed.

  Lemma ob_fl_remove_none : forall s k fl, ob_fl_find s k fl = None -> ob_fl_remove s k fl = fl.
  Proof.
    unfold ob_fl_remove. induction fl as [|f fl IH]; cbn [ob_fl_find filter]; intro H; [reflexivity|].
    destruct (ob_fl_is s k f); [discriminate|]. cbn [negb]. f_equal. apply IH. assumption.
  Qed.

  (* ---------------------------------------------------------------- the quiet ops *)

  Lemma ob_set_subs_same : forall x, ob_set_subs x (obrs_subs x) = x.
  Proof. destruct x; reflexivity. Qed.

  Lemma ac_upd_upd : forall r f g ars,
    ac_upd r g (ac_upd r f ars) = ac_upd r (fun l => g (f l)) ars.
  Proof.
    induction ars as [|y ars IH]; cbn [ac_upd]; [reflexivity|].
    destruct (acar_id y =? r) eqn:E; cbn [ac_upd acar_id acar_obs]; rewrite E; [reflexivity|].
    f_equal. assumption.
  Qed.

  (* updating the resource with id r on both sides, knowing where it sits *)
  Lemma sim_upd_at : forall r f g a x b a' y b',
    Forall2 sim_res a a' -> Forall2 sim_res b b' ->
    obrs_id x = r -> acar_id y = r ->
    (forall z, In z a -> obrs_id z <> r) -> (forall z, In z a' -> acar_id z <> r) ->
    sim_res (f x) (ac_mk_ar (acar_id y) (g (acar_obs y))) ->
    Forall2 sim_res (ob_upd_res r f (a ++ x :: b)) (ac_upd r g (a' ++ y :: b')).
  Proof.
    intros r f g a x b a' y b' Fa Fb Ix Iy Na Na' S.
    rewrite (ob_upd_res_split r f a x b Ix Na), (ac_upd_app r g a' y b' Iy Na').
    apply Forall2_app; [assumption|]. constructor; assumption.
  Qed.

  Lemma sim_refresh : forall m ob d s t l l',
    0 <= ob < ob_M -> Forall2 (sim_sub m ob d) l l' ->
    Forall2 (sim_sub m ob d) l (map (ac_refresh s t ob) l').
  Proof.
    intros m ob d s t l l' Hr H. induction H as [|x o l l' Hxo H IH]; cbn [map]; constructor;
      [|assumption].
    unfold ac_refresh. destruct (ac_obs_is s t o); [|assumption].
    unfold sim_sub in *. cbn. destruct Hxo as [A [B [C [D [E [F [G [I [J K]]]]]]]]].
    repeat split; try assumption; try lia; try discriminate;
      try (rewrite Z.add_0_r; apply Z.mod_small; assumption).
  Qed.

  Lemma sim_register : forall st a r s t o st' outs,
    sim st a -> ob_register st r s t o = (st', outs) ->
    exists a', ac_register a r s t o outs = AcOk a' /\
               Forall2 sim_res (obst_res st') (acas_res a') /\ obst_fl st' = acas_fl a' /\ obst_nk st' = acas_nk a'.
  Proof.
    intros st a r s t o st' outs [Hok [HR [Hfl Hnk]]] H. unfold ob_register in H. unfold ac_register.
    pose proof (sim_get r _ _ HR) as G.
    destruct (ob_get_res r (obst_res st)) as [res|] eqn:G1, (ac_get r (acas_res a)) as [ares|] eqn:G2;
      try contradiction.
    2:{ inversion H; subst. exists a. auto. }
    destruct G as [Sres [ra [rb [ra' [rb' [E1 [E2 [Fa [Fb [Ix [Iy [Na Na']]]]]]]]]]]].
    pose proof Sres as [Sid [Smode Ssubs]].
    pose proof (f2_find _ (ob_sub_is s t) (ac_obs_is s t) _ _ Ssubs
                  (fun x y Hxy => sim_sub_is _ _ _ x y s t Hxy)) as F.
    assert (Hrange : 0 <= obrs_obs res < ob_M).
    { destruct Hok as [_ [B _]]. rewrite Forall_forall in B.
      assert (In res (obst_res st)) by (rewrite E1; apply in_app_iff; right; left; reflexivity).
      apply (B res H0). }
    unfold ob_add_observer in H.
    destruct (ob_find (ob_sub_is s t) (obrs_subs res)) as [e|] eqn:F1,
             (ob_find (ac_obs_is s t) (acar_obs ares)) as [e'|] eqn:F2; try contradiction.
    - (* the token is known: the entry stays *)
      rewrite E1 in H. rewrite (ob_upd_res_split r _ ra res rb Ix Na) in H.
      rewrite ob_set_subs_same, <- E1 in H.
      destruct (obrs_err res) eqn:Err; inversion H; subst st' outs; cbn [obst_res obst_fl obst_nk];
        rewrite !Z.eqb_refl, ob_bytes_eqb_refl; cbn [andb].
      + eexists. split; [reflexivity|]. cbn [acas_res acas_fl acas_nk ac_set_res]. split; [|auto].
        apply sim_upd; [apply sim_touch; assumption|].
        intros x y Hxy _. apply sim_del_in_res. assumption.
      + destruct F as [_ [_ [_ [_ [_ [_ [_ [Hv _]]]]]]]]. rewrite Hv, Z.eqb_refl.
        eexists. split; [reflexivity|]. cbn [acas_res acas_fl acas_nk ac_set_res]. split; [|auto].
        apply sim_touch. rewrite E1, E2.
        replace (ra ++ res :: rb) with (ob_upd_res r (fun x => x) (ra ++ res :: rb))
          by (apply ob_upd_res_split; assumption).
        apply sim_upd_at; try assumption.
        destruct ares as [aid aobs]. cbn [acar_id acar_obs] in *.
        split; [assumption|]. split; [assumption|]. cbn [acar_obs].
        apply sim_refresh; assumption.
    - (* a new token: an entry with the same cache key is replaced *)
      pose proof (sim_replace_key _ _ _ s (ob_key o) _ _ Ssubs) as [RK _].
      set (fresh := ob_mk_sub s t (ob_key o) 0 0 false (-1)) in *.
      set (l0 := match ob_find (ob_sub_keyis s (ob_key o)) (obrs_subs res) with
                 | Some old => fst (ob_remove1 (ob_sub_is s (obsb_tok old)) (obrs_subs res))
                 | None => obrs_subs res
                 end) in *.
      assert (HL : exists dd, (match ob_find (ob_sub_keyis s (ob_key o)) (obrs_subs res) with
                    | Some old => let '(l', _) := ob_remove1 (ob_sub_is s (obsb_tok old)) (obrs_subs res) in
                                  (fresh :: l', 0)
                    | None => (fresh :: obrs_subs res, 1)
                    end) = (fresh :: l0, dd)).
      { subst l0. destruct (ob_find (ob_sub_keyis s (ob_key o)) (obrs_subs res)) as [old|].
        - destruct (ob_remove1 (ob_sub_is s (obsb_tok old)) (obrs_subs res)) as [l' b0]. cbn [fst].
          exists 0. reflexivity.
        - exists 1. reflexivity. }
      destruct HL as [dd HL]. rewrite HL in H. clear HL.
      (* what the acceptor holds after a successful registration *)
      set (ars1 := ac_upd r (fun l => ac_mk_ao s t (ob_key o) (obrs_obs res) 0 true 0 (-1) (acas_nk a)
                                       :: ac_replace_key s (ob_key o) l) (acas_res a)).
      assert (S1 : Forall2 sim_res
                     (ob_touch s t (ob_upd_res r (fun x => ob_set_subs x (fresh :: l0)) (obst_res st)))
                     ars1).
      { apply sim_touch. subst ars1. rewrite E1, E2. apply sim_upd_at; try assumption.
        destruct ares as [aid aobs]. cbn [acar_id acar_obs] in *.
        unfold sim_res, ob_set_subs. cbn. split; [assumption|]. split; [assumption|].
        constructor; [|assumption]. unfold sim_sub, fresh. cbn.
        repeat split; try reflexivity; try lia; try discriminate;
          try (rewrite Z.add_0_r; apply Z.mod_small; assumption). }
      destruct (obrs_err res) eqn:Err; inversion H; subst st' outs; cbn [obst_res obst_fl obst_nk];
        rewrite !Z.eqb_refl, ob_bytes_eqb_refl; cbn [andb].
      + eexists. split; [reflexivity|]. cbn [acas_res acas_fl acas_nk ac_set_res]. split; [|auto].
        assert (E3 : ac_upd r (ac_replace_key s (ob_key o)) (acas_res a) = ac_upd r (ac_del s t) ars1).
        { subst ars1. rewrite ac_upd_upd. f_equal. unfold ac_del. cbn [ob_remove1].
          unfold ac_obs_is at 1. cbn [acao_s acao_t]. rewrite Z.eqb_refl, ob_bytes_eqb_refl. reflexivity. }
        rewrite E3. apply sim_upd; [assumption|].
        intros x y Hxy _. apply sim_del_in_res. assumption.
      + assert (Hr2 : (0 <=? obrs_obs res) && (obrs_obs res <? ob_M) = true).
        { apply andb_true_iff. split; [apply Z.leb_le | apply Z.ltb_lt]; lia. }
        rewrite Hr2. eexists. split; [reflexivity|]. cbn [acas_res acas_fl acas_nk ac_set_res].
        split; [exact S1 | auto].
  Qed.


  Lemma sim_cancel : forall st a r s t o,
    sim st a ->
    Forall2 sim_res (obst_res (ob_cancel st r s t o)) (ac_upd r (ac_cancel_obs s t o) (acas_res a)) /\
    obst_fl (ob_cancel st r s t o) = acas_fl a /\ obst_nk (ob_cancel st r s t o) = acas_nk a.
  Proof.
    intros st a r s t o [Hok [HR [Hfl Hnk]]]. unfold ob_cancel.
    pose proof (sim_get r _ _ HR) as G.
    destruct (ob_get_res r (obst_res st)) as [res|] eqn:G1, (ac_get r (acas_res a)) as [ares|] eqn:G2;
      try contradiction.
    2:{ rewrite (ac_get_none_upd _ _ _ G2). auto. }
    destruct G as [Sres [ra [rb [ra' [rb' [E1 [E2 [Fa [Fb [Ix [Iy [Na Na']]]]]]]]]]]].
    pose proof Sres as [Sid [Smode Ssubs]].
    destruct (ob_cancel_subs s t o (obrs_subs res)) as [l b] eqn:EC. cbn [obst_res obst_fl obst_nk].
    split; [|auto]. rewrite E1, E2. apply sim_upd_at; try assumption.
    apply sim_res_subs; [assumption|].
    assert (El : l = fst (ob_cancel_subs s t o (obrs_subs res))) by (rewrite EC; reflexivity).
    rewrite El. unfold ob_cancel_subs, ac_cancel_obs.
    pose proof (f2_find _ (ob_sub_is s t) (ac_obs_is s t) _ _ Ssubs
                  (fun x y Hxy => sim_sub_is _ _ _ x y s t Hxy)) as F.
    destruct (ob_find (ob_sub_is s t) (obrs_subs res)) as [e|],
             (ob_find (ac_obs_is s t) (acar_obs ares)) as [e'|]; try contradiction.
    - apply sim_del. assumption.
    - pose proof (sim_replace_key _ _ _ s (ob_key o) _ _ Ssubs) as [RK _].
      destruct (ob_find (ob_sub_keyis s (ob_key o)) (obrs_subs res)) as [old|]; exact RK.
  Qed.

  Lemma sim_change : forall st a r,
    sim st a ->
    Forall2 sim_res (obst_res (ob_change st r)) (ac_upd r (map ac_bump) (acas_res a)).
  Proof.
    intros st a r [Hok [HR _]]. unfold ob_change. cbn [obst_res]. apply sim_upd; [assumption|].
    intros x y [A [B C]] _. unfold ob_change_res. destruct (obrs_subs x) as [|x0 l] eqn:Es.
    - inversion C; subst. cbn [map]. destruct y as [yid yobs]. cbn in *. subst yobs.
      unfold sim_res. cbn. rewrite Es. auto.
    - rewrite <- Es in *. unfold sim_res. cbn. split; [assumption|]. split; [assumption|].
      clear Es. revert C. generalize (obrs_subs x) as l1. generalize (acar_obs y) as l2.
      intros l2 l1 C. induction C as [|x1 o1 l1 l2 H1 H2 IH]; cbn [map]; constructor; [|assumption].
      unfold sim_sub, ac_bump in *. cbn. destruct H1 as [A1 [A2 [A3 [A4 [A5 [A6 [A7 [A8 [A9 A10]]]]]]]]].
      repeat split; try assumption; try lia; auto.
      rewrite <- A8. unfold ob_M. rewrite Z.add_assoc. rewrite Z.add_mod_idemp_l by lia. reflexivity.
  Qed.

  Lemma sim_del_all : forall s t rs ars,
    Forall2 sim_res rs ars ->
    Forall2 sim_res (fst (ob_del_all_res s t rs)) (ac_del_everywhere s t ars) /\
    (0 <? snd (ob_del_all_res s t rs)) = ac_has s t ars /\ 0 <= snd (ob_del_all_res s t rs).
  Proof.
    intros s t rs ars H. unfold ac_del_everywhere, ac_has.
    induction H as [|x y rs ars Hxy H IH]; cbn [ob_del_all_res map existsb].
    - cbn. split; [constructor|]. split; [reflexivity | lia].
    - destruct IH as [I1 [I2 I3]].
      pose proof (sim_del_in_res s t x y Hxy) as D. pose proof Hxy as [_ [_ C]].
      destruct (sim_del _ _ _ s t _ _ C) as [_ Db].
      rewrite (ob_remove1_flag (ac_obs_is s t)) in Db.
      unfold ob_del_in_res in *.
      destruct (ob_remove1 (ob_sub_is s t) (obrs_subs x)) as [l b] eqn:R1. cbn [fst snd] in *.
      destruct (ob_del_all_res s t rs) as [tl' n]. cbn [fst snd] in *.
      split; [constructor; assumption|]. rewrite Db.
      destruct (ob_find (ac_obs_is s t) (acar_obs y)); cbn [orb].
      + split; [apply Z.ltb_lt; lia | lia].
      + split; assumption.
  Qed.

  Lemma sim_rst_by_last : forall s k rs ars,
    Forall2 sim_res rs ars ->
    Forall2 sim_res (fst (ob_rst_by_last s k rs)) (ac_rst_by_last s k ars).
  Proof.
    intros s k rs ars H. induction H as [|x y rs ars Hxy H IH]; cbn [ob_rst_by_last ac_rst_by_last];
      [constructor|].
    pose proof Hxy as [_ [_ C]].
    pose proof (f2_find _ (fun x => (obsb_last x =? k) && (obsb_sess x =? s))
                  (fun o => (acao_lastk o =? k) && (acao_s o =? s)) _ _ C) as F.
    assert (Hag : forall x0 o0, sim_sub (obrs_mode x) (obrs_obs x) (obrs_dirty x) x0 o0 ->
              (obsb_last x0 =? k) && (obsb_sess x0 =? s) = (acao_lastk o0 =? k) && (acao_s o0 =? s)).
    { intros x0 o0 [A1 [_ [_ [A4 _]]]]. rewrite A1, A4. reflexivity. }
    specialize (F Hag).
    destruct (ob_find (fun x0 => (obsb_last x0 =? k) && (obsb_sess x0 =? s)) (obrs_subs x)) as [x0|],
             (ob_find (fun o => (acao_lastk o =? k) && (acao_s o =? s)) (acar_obs y)) as [o0|];
      try contradiction.
    - cbn [fst]. constructor; [|assumption]. destruct F as [_ [Et _]]. rewrite Et.
      replace (acar_id y) with (acar_id y) by reflexivity. apply sim_del_in_res. assumption.
    - destruct (ob_rst_by_last s k rs) as [tl' b]. cbn [fst] in *. constructor; assumption.
  Qed.

  Lemma ob_failed_subs_remove1 : forall s t l,
    (forall x, In x l -> obsb_fail x = 0) ->
    ob_failed_subs p s t l = ob_remove1 (ob_sub_is s t) l.
  Proof.
    intros s t. induction l as [|x tl IH]; intro H; cbn [ob_failed_subs ob_remove1]; [reflexivity|].
    destruct (ob_sub_is s t x).
    - rewrite (H x (or_introl eq_refl)).
      assert (obpr_max_fail p <=? 0 + 1 = true) as -> by (apply Z.leb_le; lia). reflexivity.
    - rewrite IH; [reflexivity|]. intros z Hz. apply H. right. assumption.
  Qed.

  Lemma ob_failed_all_del : forall s t rs ars,
    Forall2 sim_res rs ars -> ob_failed_all p s t rs = ob_del_all_res s t rs.
  Proof.
    intros s t rs ars H. induction H as [|x y rs ars Hxy H IH]; cbn [ob_failed_all ob_del_all_res];
      [reflexivity|].
    rewrite IH. unfold ob_del_in_res. rewrite ob_failed_subs_remove1;
      [destruct (ob_remove1 (ob_sub_is s t) (obrs_subs x)); reflexivity|].
    destruct Hxy as [_ [_ C]]. clear - C. induction C as [|x0 o0 l l' H0 C IH]; intros z Hz;
      [destruct Hz|].
    destruct Hz as [<-|Hz]; [apply H0 | apply IH; assumption].
  Qed.

  Lemma sim_keep_right : forall f rs ars,
    Forall2 sim_res rs ars -> (forall x y, sim_res x y -> sim_res (f x) y) ->
    forall r, Forall2 sim_res (ob_upd_res r f rs) ars.
  Proof.
    intros f rs ars H Hf r. induction H as [|x y rs ars Hxy H IH]; cbn [ob_upd_res]; [constructor|].
    destruct (obrs_id x =? r); constructor; auto.
  Qed.

  Lemma sim_lost : forall s rs ars,
    Forall2 sim_res rs ars ->
    Forall2 sim_res (map (ob_lost_res s) rs)
      (map (fun r => ac_mk_ar (acar_id r) (filter (fun o => negb (acao_s o =? s)) (acar_obs r))) ars).
  Proof.
    intros s rs ars H. eapply f2_map; [exact H|]. intros x y Hxy. unfold ob_lost_res.
    apply sim_res_subs; [assumption|]. destruct Hxy as [_ [_ C]].
    apply f2_filter; [assumption|]. intros x0 o0 [A1 _]. rewrite A1. reflexivity.
  Qed.

  Lemma sim_gone_ok : forall res ca obs subs rf,
    (forall x, In x subs -> exists o, In o obs /\ ac_obs_is (obsb_sess x) (obsb_tok x) o = true) ->
    ac_gone_ok (obrs_id res) obs (fst (ob_gone_subs p res ca subs rf)) = true.
  Proof.
    intros res ca obs. induction subs as [|x tl IH]; intros rf H; cbn [ob_gone_subs]; [reflexivity|].
    specialize (IH (ob_ref_add rf (obsb_sess x) (-1)) (fun z Hz => H z (or_intror Hz))).
    destruct (ob_gone_subs p res ca tl (ob_ref_add rf (obsb_sess x) (-1))) as [outs rf'].
    cbn [fst] in *. destruct (ob_blocked p (obrs_mode res) ca x || ob_in_transfer ca (obsb_sess x));
      cbn [fst]; [assumption|].
    cbn [ac_gone_ok]. rewrite Z.eqb_refl, IH. cbn [andb].
    destruct (H x (or_introl eq_refl)) as [o [Ho Hm]].
    destruct (ob_find (ac_obs_is (obsb_sess x) (obsb_tok x)) obs) eqn:F; [reflexivity|].
    rewrite (ob_find_none _ _ F o Ho) in Hm. discriminate.
  Qed.

  Lemma sim_step_quiet : forall st a op st' outs,
    (forall ca, op <> ObOpIoStep ca) ->
    sim st a -> ob_step p st op = (st', outs) ->
    exists a', ac_step c a (op, outs) = AcOk a' /\
               Forall2 sim_res (obst_res st') (acas_res a') /\ obst_fl st' = acas_fl a' /\ obst_nk st' = acas_nk a'.
  Proof.
    intros st a op st' outs Hnio S H. pose proof S as [Hok [HR [Hfl Hnk]]].
    destruct op; cbn [ob_step] in H; cbn [ac_step].
    - eapply sim_register; eassumption.
    - inversion H; subst. destruct (sim_cancel st a r s t o S) as [C1 [C2 C3]].
      eexists. split; [reflexivity|]. cbn. auto.
    - inversion H; subst. eexists. split; [reflexivity|]. cbn.
      split; [apply sim_change; assumption | auto].
    - exfalso. eapply Hnio. reflexivity.
    - inversion H; subst. eexists. split; [reflexivity|]. cbn [acas_res acas_fl acas_nk]. unfold ob_ack.
      destruct (ob_fl_find s k (obst_fl st)) as [f|] eqn:Ff; cbn [obst_res obst_fl obst_nk].
      + split; [destruct (obfl_ok f); [apply sim_touch|]; assumption|]. rewrite Hfl. auto.
      + rewrite <- Hfl, (ob_fl_remove_none _ _ _ Ff). auto.
    - inversion H; subst. eexists. split; [reflexivity|]. unfold ac_rst, ob_rst. rewrite Hlen, <- Hfl.
      destruct (ob_fl_find s k (obst_fl st)) as [f|].
      + destruct (sim_del_all s (obfl_tok f) _ _ HR) as [D1 _].
        destruct (ob_del_all_res s (obfl_tok f) (obst_res st)) as [rs n]. cbn in *. auto.
      + pose proof (sim_rst_by_last s k _ _ HR) as D1.
        destruct (ob_rst_by_last s k (obst_res st)) as [rs b]. cbn in *. auto.
    - inversion H; subst. eexists. split; [reflexivity|]. unfold ac_confailed, ob_confailed.
      rewrite <- Hfl. destruct (ob_fl_find s k (obst_fl st)) as [f|]; [|auto].
      rewrite (ob_failed_all_del s (obfl_tok f) _ _ HR).
      destruct (sim_del_all s (obfl_tok f) _ _ HR) as [D1 [D2 _]].
      destruct (ob_del_all_res s (obfl_tok f) (obst_res st)) as [rs n]. cbn in *.
      rewrite D2. auto.
    - inversion H; subst. eexists. split; [reflexivity|]. unfold ob_set_err. cbn.
      split; [|auto]. apply sim_keep_right; [assumption|].
      intros x y [A [B C]]. unfold sim_res. cbn. auto.
    - inversion H; subst. eexists. split; [reflexivity|]. unfold ob_session_lost, ac_lost. cbn.
      split; [apply sim_lost; assumption|]. rewrite Hfl. auto.
    - unfold ob_delete_resource in H. unfold ac_delete.
      pose proof (sim_get r _ _ HR) as G.
      destruct (ob_get_res r (obst_res st)) as [res|] eqn:G1, (ac_get r (acas_res a)) as [ares|] eqn:G2;
        try contradiction.
      2:{ inversion H; subst. exists a. auto. }
      destruct G as [Sres [ra [rb [ra' [rb' [E1 [E2 [Fa [Fb [Ix [Iy [Na Na']]]]]]]]]]]].
      pose proof Sres as [Sid [Smode Ssubs]].
      assert (GO : ac_gone_ok r (acar_obs ares) (fst (ob_gone_subs p res ca (obrs_subs res) (obst_ref st))) = true).
      { rewrite <- Ix. apply sim_gone_ok. clear - Ssubs.
        induction Ssubs as [|x0 o0 l l' H0 C IH]; intros z Hz; [destruct Hz|].
        destruct Hz as [<-|Hz].
        - exists o0. split; [left; reflexivity|]. destruct H0 as [A1 [A2 _]].
          unfold ac_obs_is. rewrite A1, A2, Z.eqb_refl. apply ob_bytes_eqb_refl.
        - destruct (IH z Hz) as [o [Ho Hm]]. exists o. split; [right; assumption | assumption]. }
      destruct (ob_gone_subs p res ca (obrs_subs res) (obst_ref st)) as [gouts rf]. cbn [fst] in GO.
      inversion H; subst st' outs. rewrite GO. eexists. split; [reflexivity|].
      cbn [acas_res acas_fl acas_nk ac_set_res obst_res obst_fl obst_nk]. split; [|auto].
      rewrite E1, E2, (ob_drop_res_split r ra res rb Ix Na), (ac_drop_app r ra' ares rb' Iy Na').
      apply Forall2_app; [apply Forall2_app; assumption|]. constructor; [|constructor].
      unfold sim_res, ob_fresh_res. cbn. split; [reflexivity|]. split; [|constructor].
      rewrite Smode, Ix. reflexivity.
  Qed.


  (* ---------------------------------------------------------------- the I/O step *)

  Lemma find_app_skip : forall {A} (f : A -> bool) pre l,
    (forall o, In o pre -> f o = false) -> ob_find f (pre ++ l) = ob_find f l.
  Proof.
    intros A f. induction pre as [|o pre IH]; intros l H; cbn [app ob_find]; [reflexivity|].
    rewrite (H o (or_introl eq_refl)). apply IH. intros z Hz. apply H. right. assumption.
  Qed.

  Lemma remove1_app_skip : forall {A} (f : A -> bool) pre l,
    (forall o, In o pre -> f o = false) ->
    fst (ob_remove1 f (pre ++ l)) = pre ++ fst (ob_remove1 f l).
  Proof.
    intros A f. induction pre as [|o pre IH]; intros l H; cbn [app ob_remove1]; [reflexivity|].
    rewrite (H o (or_introl eq_refl)).
    specialize (IH l (fun z Hz => H z (or_intror Hz))).
    destruct (ob_remove1 f (pre ++ l)) as [l1 b1]. cbn [fst] in *. f_equal. assumption.
  Qed.

  Lemma map_id_on : forall {A} (f : A -> A) l, (forall o, In o l -> f o = o) -> map f l = l.
  Proof.
    intros A f. induction l as [|o l IH]; intro H; cbn [map]; [reflexivity|].
    rewrite (H o (or_introl eq_refl)). f_equal. apply IH. intros z Hz. apply H. right. assumption.
  Qed.

  Lemma ac_outs_app : forall w o1 o2,
    ac_outs c w (o1 ++ o2) =
    match ac_outs c w o1 with inl w1 => ac_outs c w1 o2 | inr e => inr e end.
  Proof.
    intros w o1. revert w. induction o1 as [|o o1 IH]; intros w o2; cbn [app ac_outs]; [reflexivity|].
    destruct (ac_out_step c w o); [apply IH | reflexivity].
  Qed.

  Lemma ob_ca_inc_mono : forall ca s' s, ob_ca_get ca s <= ob_ca_get (ob_ca_inc ca s') s.
  Proof.
    intros ca s' s. unfold ob_ca_inc. cbn [ob_ca_get]. destruct (s' =? s) eqn:E; [|lia].
    apply Z.eqb_eq in E. subst. lia.
  Qed.

  (* the acceptor entries of the subscriptions behind x carry other (session, token) pairs *)
  Lemma sim_tail_other : forall m ob d x tl otl,
    Forall2 (sim_sub m ob d) tl otl -> ~ In (ob_kt x) (map ob_kt tl) ->
    forall o, In o otl -> ac_obs_is (obsb_sess x) (obsb_tok x) o = false.
  Proof.
    intros m ob d x tl otl H. induction H as [|x1 o1 tl otl H1 H IH]; intros Hn o Ho; [destruct Ho|].
    cbn [map] in Hn. destruct Ho as [<-|Ho].
    - destruct (ac_obs_is (obsb_sess x) (obsb_tok x) o1) eqn:E; [|reflexivity]. exfalso. apply Hn. left.
      destruct H1 as [A1 [A2 _]]. unfold ac_obs_is in E. apply andb_true_iff in E.
      destruct E as [E1 E2]. apply Z.eqb_eq in E1. apply ob_bytes_eqb_eq in E2.
      unfold ob_kt. congruence.
    - apply IH; [|assumption]. intro Hin. apply Hn. right. assumption.
  Qed.

  Lemma sim_notify_subs : forall (r : ob_res) RA RB subs pre obs l w subs' pd l' outs,
    ob_notify_subs p r subs l = (subs', pd, l', outs) ->
    obrs_mode r = ac_mode c (obrs_id r) -> 0 <= obrs_obs r < ob_M ->
    Forall2 (sim_sub (obrs_mode r) (obrs_obs r) (obrs_dirty r)) subs obs ->
    NoDup (map ob_kt subs) ->
    (forall o, In o pre -> forall x, In x subs -> ac_obs_is (obsb_sess x) (obsb_tok x) o = false) ->
    acaw_res w = RA ++ ac_mk_ar (obrs_id r) (pre ++ obs) :: RB ->
    (forall z, In z RA -> acar_id z <> obrs_id r) ->
    acaw_fl w = oblp_fl l -> acaw_nk w = oblp_nk l -> acaw_cnt w = oblp_ca l ->
    exists w' obs',
      ac_outs c w outs = inl w' /\
      acaw_res w' = RA ++ ac_mk_ar (obrs_id r) (pre ++ obs') :: RB /\
      acaw_fl w' = oblp_fl l' /\ acaw_nk w' = oblp_nk l' /\ acaw_cnt w' = oblp_ca l' /\
      Forall2 (sim_sub (obrs_mode r) (obrs_obs r) false) subs' obs' /\
      (forall o, In o obs' -> sim_settled (oblp_ca l') o) /\
      (forall s, ob_ca_get (oblp_ca l) s <= ob_ca_get (oblp_ca l') s).
  Proof.
    intros r RA RB. induction subs as [|x tl IH];
      intros pre obs l w subs' pd l' outs H Hmode Hrange HF Hnd Hpre Hres HRA Hfl Hnk Hcnt;
      cbn [ob_notify_subs] in H.
    { inversion H; subst. inversion HF; subst. exists w, []. cbn [ac_outs].
      split; [reflexivity|]. split; [assumption|]. split; [assumption|]. split; [assumption|].
      split; [assumption|]. split; [constructor|]. split; [intros ? [] | intro; lia]. }
    inversion HF as [|x0 o tl0 otl Hxo HFtl]; subst x0 tl0 obs.
    inversion Hnd as [|? ? Hnotin Hnd']; subst.
    pose proof (sim_tail_other _ _ _ x tl otl HFtl Hnotin) as Hother.
    pose proof Hxo as [A1 [A2 [A3 [A4 [A5 [A6 [A7 [A8 [A9 A10]]]]]]]]].
    assert (Hmatch : ac_obs_is (obsb_sess x) (obsb_tok x) o = true).
    { unfold ac_obs_is. rewrite A1, A2, Z.eqb_refl. apply ob_bytes_eqb_refl. }
    (* what to tell the induction hypothesis about a prefix extended by one entry *)
    assert (Hpre' : forall o', ac_obs_is (obsb_sess x) (obsb_tok x) o' = true ->
              acao_s o' = acao_s o -> acao_t o' = acao_t o ->
              forall o0, In o0 (pre ++ [o']) -> forall x0, In x0 tl ->
              ac_obs_is (obsb_sess x0) (obsb_tok x0) o0 = false).
    { intros o' _ Es Et o0 Ho0 x0 Hx0. apply in_app_iff in Ho0. destruct Ho0 as [Ho0|[<-|[]]].
      - apply Hpre; [assumption | right; assumption].
      - destruct (ac_obs_is (obsb_sess x0) (obsb_tok x0) o') eqn:E; [|reflexivity]. exfalso.
        apply Hnotin. unfold ac_obs_is in E. apply andb_true_iff in E. destruct E as [E1 E2].
        apply Z.eqb_eq in E1. apply ob_bytes_eqb_eq in E2.
        apply in_map_iff. exists x0. split; [|assumption]. unfold ob_kt. congruence. }
    destruct (negb (obrs_dirty r) && negb (obsb_dirty x)) eqn:C1.
    { (* nothing new for this observer *)
      destruct (ob_notify_subs p r tl (ob_lp_pend l)) as [[[tl' pd0] l0] outs0] eqn:E.
      inversion H; subst subs' pd l' outs. clear H.
      apply andb_true_iff in C1. destruct C1 as [C1a C1b].
      apply negb_true_iff in C1a, C1b.
      destruct (IH (pre ++ [o]) otl (ob_lp_pend l) w tl' pd0 l0 outs0 E Hmode Hrange HFtl Hnd')
        as [w' [obs' [K1 [K2 [K3 [K4 [K5 [K6 [K7 K8]]]]]]]]]; try assumption.
      - apply Hpre'; auto.
      - rewrite <- app_assoc. exact Hres.
      - exists w', (o :: obs'). rewrite <- app_assoc in K2. cbn [app] in K2.
        repeat split; try assumption.
        + constructor; [|assumption]. rewrite C1a in Hxo. exact Hxo.
        + intros o0 [<-|Ho0]; [|apply K7; assumption]. left.
          destruct (Z.eq_dec (acao_chg o) 0) as [|Hne]; [assumption|]. exfalso.
          assert (0 < acao_chg o) as Hpos by lia. destruct (A9 Hpos); congruence. }
    destruct (ob_blocked p (obrs_mode r) (oblp_ca l) x) eqn:C2.
    { (* held back by NSTART *)
      destruct (ob_notify_subs p r tl (ob_lp_pend l)) as [[[tl' pd0] l0] outs0] eqn:E.
      inversion H; subst subs' pd l' outs. clear H.
      destruct (IH (pre ++ [o]) otl (ob_lp_pend l) w tl' pd0 l0 outs0 E Hmode Hrange HFtl Hnd')
        as [w' [obs' [K1 [K2 [K3 [K4 [K5 [K6 [K7 K8]]]]]]]]]; try assumption.
      - apply Hpre'; auto.
      - rewrite <- app_assoc. exact Hres.
      - exists w', (o :: obs'). rewrite <- app_assoc in K2. cbn [app] in K2.
        assert (Hd : obrs_dirty r = true \/ obsb_dirty x = true).
        { apply andb_false_iff in C1. destruct C1 as [C1|C1]; apply negb_false_iff in C1; auto. }
        repeat split; try assumption.
        + constructor; [|assumption]. unfold sim_sub. cbn.
          repeat split; try assumption; auto.
        + intros o0 [<-|Ho0]; [|apply K7; assumption]. right. left.
          unfold ob_blocked in C2. apply andb_true_iff in C2. destruct C2 as [C2 _].
          apply Z.leb_le in C2. rewrite <- A1. specialize (K8 (obsb_sess x)). cbn in K8. lia. }
    destruct (ob_in_transfer (oblp_ca l) (obsb_sess x)) eqn:C3.
    { (* held back by an unfinished large transmission *)
      destruct (ob_notify_subs p r tl (ob_lp_pend l)) as [[[tl' pd0] l0] outs0] eqn:E.
      inversion H; subst subs' pd l' outs. clear H.
      destruct (IH (pre ++ [o]) otl (ob_lp_pend l) w tl' pd0 l0 outs0 E Hmode Hrange HFtl Hnd')
        as [w' [obs' [K1 [K2 [K3 [K4 [K5 [K6 [K7 K8]]]]]]]]]; try assumption.
      - apply Hpre'; auto.
      - rewrite <- app_assoc. exact Hres.
      - exists w', (o :: obs'). rewrite <- app_assoc in K2. cbn [app] in K2.
        assert (Hd : obrs_dirty r = true \/ obsb_dirty x = true).
        { apply andb_false_iff in C1. destruct C1 as [C1|C1]; apply negb_false_iff in C1; auto. }
        repeat split; try assumption.
        + constructor; [|assumption]. unfold sim_sub. cbn.
          repeat split; try assumption; auto.
        + intros o0 [<-|Ho0]; [|apply K7; assumption]. right. right.
          unfold ob_in_transfer in C3. apply Z.ltb_lt in C3. rewrite <- A1.
          specialize (K8 (obsb_sess x + ob_lg_off)). cbn in K8. lia. }
    (* a message goes out *)
    assert (Hd : obrs_dirty r = true \/ obsb_dirty x = true).
    { apply andb_false_iff in C1. destruct C1 as [C1|C1]; apply negb_false_iff in C1; auto. }
    assert (Hget : ac_get (obrs_id r) (acaw_res w) = Some (ac_mk_ar (obrs_id r) (pre ++ o :: otl))).
    { rewrite Hres. apply ac_get_app; [reflexivity | assumption]. }
    assert (Hfind : ob_find (ac_obs_is (obsb_sess x) (obsb_tok x)) (pre ++ o :: otl) = Some o).
    { rewrite find_app_skip; [cbn [ob_find]; rewrite Hmatch; reflexivity|].
      intros o0 Ho0. apply Hpre; [assumption | left; reflexivity]. }
    set (con := ob_is_con p (obrs_mode r) x) in *.
    destruct (obrs_err r) eqn:Cerr.
    { match type of H with context [ob_notify_subs p r tl ?L] =>
        destruct (ob_notify_subs p r tl L) as [[[tl' pd0] l0] outs0] eqn:E end.
      inversion H; subst subs' pd l' outs. clear H.
      set (w1 := ac_note w (ac_upd (obrs_id r) (ac_del (obsb_sess x) (obsb_tok x)) (acaw_res w))
                         (oblp_nk l) (obrs_id r) (obsb_sess x) (obsb_tok x) con false).
      assert (Hstep : ac_out_step c w (ObErr (oblp_nk l) (obrs_id r) (obsb_sess x) (obsb_tok x) con) = inl w1).
      { cbn [ac_out_step]. rewrite <- Hnk, Z.eqb_refl. cbn [negb]. rewrite Hget. cbn [acar_obs].
        rewrite Hfind. rewrite Hnk. reflexivity. }
      assert (Hres1 : acaw_res w1 = RA ++ ac_mk_ar (obrs_id r) (pre ++ otl) :: RB).
      { subst w1. unfold ac_note. cbn [acaw_res]. rewrite Hres.
        rewrite ac_upd_app; [|reflexivity | assumption]. cbn [acar_id acar_obs]. unfold ac_del.
        rewrite remove1_app_skip;
          [|intros o0 Ho0; apply Hpre; [assumption | left; reflexivity]].
        cbn [ob_remove1]. rewrite Hmatch. reflexivity. }
      destruct (IH pre otl _ w1 tl' pd0 l0 outs0 E Hmode Hrange HFtl Hnd')
        as [w' [obs' [K1 [K2 [K3 [K4 [K5 [K6 [K7 K8]]]]]]]]]; try assumption.
      - intros o0 Ho0 x0 Hx0. apply Hpre; [assumption | right; assumption].
      - subst w1. unfold ac_note, ob_lp_release, ob_lp_sent. cbn. rewrite ?Hfl, ?Hnk, ?Hcnt. reflexivity.
      - subst w1. unfold ac_note, ob_lp_release, ob_lp_sent. cbn. rewrite ?Hfl, ?Hnk, ?Hcnt. reflexivity.
      - subst w1. unfold ac_note, ob_lp_release, ob_lp_sent. cbn. rewrite ?Hfl, ?Hnk, ?Hcnt. reflexivity.
      - exists w', obs'. cbn [ac_outs]. rewrite Hstep. repeat split; try assumption.
        intro s0. specialize (K8 s0). unfold ob_lp_release, ob_lp_sent in K8. cbn in K8.
        destruct con; [|assumption]. pose proof (ob_ca_inc_mono (oblp_ca l) (obsb_sess x) s0). lia. }
    match type of H with context [ob_notify_subs p r tl ?L] =>
      destruct (ob_notify_subs p r tl L) as [[[tl' pd0] l0] outs0] eqn:E end.
    inversion H; subst subs' pd l' outs. clear H.
    set (run := if con then 0 else acao_run o + 1).
    set (o' := ac_mk_ao (acao_s o) (acao_t o) (acao_key o) (obrs_obs r) 0 false run (oblp_nk l) (acao_since o)).
    set (w1 := ac_note w (ac_upd (obrs_id r)
                            (map (ac_notified (obsb_sess x) (obsb_tok x) (obrs_obs r) run (oblp_nk l)))
                            (acaw_res w))
                       (oblp_nk l) (obrs_id r) (obsb_sess x) (obsb_tok x) con true).
    assert (Hrun : negb (ac_mode c (obrs_id r) =? 2) && (accf_max_non c <? run) = false).
    { rewrite <- Hmode, Hmn. subst run con. unfold ob_is_con.
      destruct (obrs_mode r =? 2) eqn:M2; [reflexivity|]. cbn [negb andb].
      apply Z.ltb_ge. destruct (obrs_mode r =? 1) eqn:M1; cbn [negb andb orb]; [lia|].
      destruct (obsb_non x <? obpr_max_non p) eqn:Lt; cbn [negb]; [|lia].
      apply Z.ltb_lt in Lt. apply Z.eqb_neq in M2. rewrite <- (A6 M2). lia. }
    assert (Hstep : ac_out_step c w (ObNotify (oblp_nk l) (obrs_id r) (obsb_sess x) (obsb_tok x) (obrs_obs r) con)
                    = inl w1).
    { cbn [ac_out_step]. rewrite <- Hnk, Z.eqb_refl. cbn [negb]. rewrite Hget. cbn [acar_obs].
      rewrite Hfind, A8, Z.eqb_refl. cbn [negb].
      assert ((1 <=? acao_chg o) || acao_weak o = true) as ->.
      { destruct (acao_weak o) eqn:W; [apply orb_true_r|]. rewrite orb_false_r. apply Z.leb_le.
        apply A10; [reflexivity | assumption]. }
      cbn [negb]. fold run. rewrite Hrun. rewrite Hnk. reflexivity. }
    assert (Hres1 : acaw_res w1 = RA ++ ac_mk_ar (obrs_id r) ((pre ++ [o']) ++ otl) :: RB).
    { subst w1. unfold ac_note. cbn [acaw_res]. rewrite Hres.
      rewrite ac_upd_app; [|reflexivity | assumption]. cbn [acar_id acar_obs].
      rewrite map_app. cbn [map]. rewrite <- app_assoc. cbn [app]. f_equal. f_equal.
      rewrite map_id_on.
      2:{ intros o0 Ho0. unfold ac_notified. rewrite (Hpre o0 Ho0 x (or_introl eq_refl)). reflexivity. }
      f_equal. rewrite (map_id_on _ otl).
      2:{ intros o0 Ho0. unfold ac_notified. rewrite (Hother o0 Ho0). reflexivity. }
      unfold ac_notified. rewrite Hmatch. reflexivity. }
    destruct (IH (pre ++ [o']) otl _ w1 tl' pd0 l0 outs0 E Hmode Hrange HFtl Hnd')
      as [w' [obs' [K1 [K2 [K3 [K4 [K5 [K6 [K7 K8]]]]]]]]]; try assumption.
    - apply Hpre'; subst o'; cbn; auto; unfold ac_obs_is; cbn;
        rewrite <- A1, <- A2, Z.eqb_refl; apply ob_bytes_eqb_refl.
    - subst w1. unfold ac_note, ob_lp_sent. cbn. rewrite ?Hfl, ?Hnk, ?Hcnt. reflexivity.
    - subst w1. unfold ac_note, ob_lp_sent. cbn. rewrite ?Hfl, ?Hnk, ?Hcnt. reflexivity.
    - subst w1. unfold ac_note, ob_lp_sent. cbn. rewrite ?Hfl, ?Hnk, ?Hcnt. reflexivity.
    - exists w', (o' :: obs'). cbn [ac_outs]. rewrite Hstep.
      rewrite <- app_assoc in K2. cbn [app] in K2. repeat split; try assumption.
      + constructor; [|assumption]. subst o'. unfold sim_sub. cbn.
        repeat split; try assumption; try lia; try discriminate.
        * intro M2. subst run con. unfold ob_is_con.
          assert (obrs_mode r =? 2 = false) as -> by (apply Z.eqb_neq; assumption).
          rewrite orb_false_r. cbn [orb].
          destruct (negb (negb (obrs_mode r =? 1) && (obsb_non x <? obpr_max_non p))); [reflexivity|].
          rewrite (A6 M2). reflexivity.
        * rewrite Z.add_0_r. apply Z.mod_small. assumption.
      + intros o0 [<-|Ho0]; [left; reflexivity | apply K7; assumption].
      + intro s0. specialize (K8 s0). unfold ob_lp_sent in K8. cbn in K8.
        destruct con; [|assumption]. pose proof (ob_ca_inc_mono (oblp_ca l) (obsb_sess x) s0). lia.
  Qed.


  Lemma sim_notify_res : forall r y RA RB l w r' l' outs,
    ob_notify_res p r l = (r', l', outs) ->
    sim_res r y -> ob_res_ok r ->
    acaw_res w = RA ++ y :: RB -> (forall z, In z RA -> acar_id z <> acar_id y) ->
    acaw_fl w = oblp_fl l -> acaw_nk w = oblp_nk l -> acaw_cnt w = oblp_ca l ->
    exists w' y',
      ac_outs c w outs = inl w' /\ acaw_res w' = RA ++ y' :: RB /\ acar_id y' = acar_id y /\
      acaw_fl w' = oblp_fl l' /\ acaw_nk w' = oblp_nk l' /\ acaw_cnt w' = oblp_ca l' /\
      sim_res r' y' /\
      (forall o, In o (acar_obs y') -> sim_settled (oblp_ca l') o) /\
      (forall s, ob_ca_get (oblp_ca l) s <= ob_ca_get (oblp_ca l') s).
  Proof.
    intros r y RA RB l w r' l' outs H [Sid [Smode Ssubs]] [U [R D]] Hres HRA Hfl Hnk Hcnt.
    unfold ob_notify_res in H. destruct y as [yid yobs]. cbn [acar_id acar_obs] in *. subst yid.
    destruct (obrs_dirty r || obrs_pdirty r) eqn:C.
    - destruct (ob_notify_subs p r (obrs_subs r) l) as [[[subs' pd] l0] outs0] eqn:E.
      inversion H; subst r' l' outs. clear H.
      destruct (sim_notify_subs r RA RB (obrs_subs r) [] yobs l w subs' pd l0 outs0 E Smode R Ssubs
                  (proj1 U)) as [w' [obs' [K1 [K2 [K3 [K4 [K5 [K6 [K7 K8]]]]]]]]]; try assumption.
      + intros ? [].
      + exists w', (ac_mk_ar (obrs_id r) obs'). cbn [app] in K2. cbn [acar_id acar_obs].
        repeat split; try assumption; unfold sim_res; cbn; auto.
    - inversion H; subst r' l' outs. clear H. apply orb_false_iff in C. destruct C as [C1 C2].
      exists w, (ac_mk_ar (obrs_id r) yobs). cbn [ac_outs acar_id acar_obs].
      repeat split; try assumption; try lia.
      + cbn. rewrite <- C1. exact Ssubs.
      + intros o Ho. left.
        assert (Hx : exists x, In x (obrs_subs r) /\ sim_sub (obrs_mode r) (obrs_obs r) (obrs_dirty r) x o).
        { exact (f2_in_right _ _ _ o Ssubs Ho). }
        destruct Hx as [x [Hx [_ [_ [_ [_ [_ [_ [A7 [_ [A9 _]]]]]]]]]]].
        destruct (Z.eq_dec (acao_chg o) 0) as [|Hne]; [assumption|]. exfalso.
        assert (0 < acao_chg o) as Hpos by lia. destruct (A9 Hpos) as [Hd|Hd]; [congruence|].
        rewrite (D x Hx Hd) in C2. discriminate.
  Qed.

  Lemma sim_ids : forall rs ars, Forall2 sim_res rs ars -> map obrs_id rs = map acar_id ars.
  Proof.
    intros rs ars H. induction H as [|x y rs ars [Hid _] H IH]; cbn [map]; [reflexivity|].
    f_equal; assumption.
  Qed.

  Lemma sim_notify_all : forall rs ars RA l w rs' l' outs,
    ob_notify_all p rs l = (rs', l', outs) ->
    Forall2 sim_res rs ars -> Forall ob_res_ok rs -> NoDup (map acar_id (RA ++ ars)) ->
    acaw_res w = RA ++ ars -> acaw_fl w = oblp_fl l -> acaw_nk w = oblp_nk l -> acaw_cnt w = oblp_ca l ->
    exists w' ars',
      ac_outs c w outs = inl w' /\ acaw_res w' = RA ++ ars' /\
      acaw_fl w' = oblp_fl l' /\ acaw_nk w' = oblp_nk l' /\ acaw_cnt w' = oblp_ca l' /\
      Forall2 sim_res rs' ars' /\
      (forall y o, In y ars' -> In o (acar_obs y) ->
                   sim_settled (oblp_ca l') o) /\
      (forall s, ob_ca_get (oblp_ca l) s <= ob_ca_get (oblp_ca l') s).
  Proof.
    induction rs as [|r tl IH]; intros ars RA l w rs' l' outs H HF Hok Hnd Hres Hfl Hnk Hcnt;
      cbn [ob_notify_all] in H.
    - inversion H; subst. inversion HF; subst. exists w, []. cbn [ac_outs].
      split; [reflexivity|]. split; [assumption|]. split; [assumption|]. split; [assumption|].
      split; [assumption|]. split; [constructor|]. split; [intros ? ? [] | intro; lia].
    - destruct (ob_notify_res p r l) as [[r1 l1] o1] eqn:E1.
      destruct (ob_notify_all p tl l1) as [[tl' l2] o2] eqn:E2. inversion H; subst rs' l' outs. clear H.
      inversion HF as [|r0 y tl0 atl Hry HFtl]; subst r0 tl0 ars. inversion Hok; subst.
      assert (HRA : forall z, In z RA -> acar_id z <> acar_id y).
      { intros z Hz Heq. rewrite map_app in Hnd. cbn [map] in Hnd. apply NoDup_remove_2 in Hnd.
        apply Hnd. apply in_app_iff. left. rewrite <- Heq. apply in_map. assumption. }
      destruct (sim_notify_res r y RA atl l w r1 l1 o1 E1 Hry H1 Hres HRA Hfl Hnk Hcnt)
        as [w1 [y' [K1 [K2 [K3 [K4 [K5 [K6 [K7 [K8 K9]]]]]]]]]].
      destruct (IH atl (RA ++ [y']) l1 w1 tl' l2 o2 E2 HFtl H2)
        as [w2 [atl' [J1 [J2 [J3 [J4 [J5 [J6 [J7 J8]]]]]]]]]; try assumption.
      + rewrite <- app_assoc. cbn [app]. rewrite map_app in *. cbn [map] in *. rewrite K3. assumption.
      + rewrite <- app_assoc. exact K2.
      + exists w2, (y' :: atl'). rewrite ac_outs_app, K1. rewrite <- app_assoc in J2. cbn [app] in J2.
        repeat split; try assumption.
        * constructor; assumption.
        * intros y0 o [<-|Hy0] Ho; [|eapply J7; eassumption].
          destruct (K8 o Ho) as [Hz|[Hb|Hb]]; [left; assumption | right; left | right; right].
          -- specialize (J8 (acao_s o)). lia.
          -- specialize (J8 (acao_s o + ob_lg_off)). lia.
        * intro s0. specialize (K9 s0). specialize (J8 s0). lia.
  Qed.

  Lemma sim_iostep : forall st a ca st' outs,
    sim st a -> ob_iostep p st ca = (st', outs) ->
    exists a', ac_iostep c a ca outs = AcOk a' /\
               Forall2 sim_res (obst_res st') (acas_res a') /\ obst_fl st' = acas_fl a' /\ obst_nk st' = acas_nk a'.
  Proof.
    intros st a ca st' outs [Hok [HR [Hfl Hnk]]] H. unfold ob_iostep in H. unfold ac_iostep.
    pose proof Hok as [A [B C]].
    assert (Hsettle : forall ars cnt,
              (forall y o, In y ars -> In o (acar_obs y) ->
                           sim_settled cnt o) ->
              ac_all_settled c cnt ars = true).
    { intros ars cnt Hs. unfold ac_all_settled. apply forallb_forall. intros y Hy.
      apply forallb_forall. intros o Ho. unfold ac_settled. rewrite Hns.
      destruct (Hs y o Hy Ho) as [Hz|[Hb|Hb]]; [rewrite Hz; reflexivity| |].
      - apply orb_true_iff. left. apply orb_true_iff. right. apply Z.leb_le. assumption.
      - apply orb_true_iff. right. unfold ob_in_transfer. apply Z.ltb_lt. assumption. }
    destruct (obst_pending st) eqn:P.
    - destruct (ob_notify_all p (obst_res st) (ob_mk_lp ca false (obst_nk st) (obst_fl st) (obst_ref st)))
        as [[rs l] outs0] eqn:E. inversion H; subst st' outs. clear H.
      destruct (sim_notify_all (obst_res st) (acas_res a) [] _
                  (ac_mk_aw (acas_res a) (acas_fl a) (acas_nk a) (acas_sent a) ca) rs l outs0 E HR B)
        as [w' [ars' [K1 [K2 [K3 [K4 [K5 [K6 [K7 K8]]]]]]]]]; cbn; try congruence.
      + rewrite <- (sim_ids _ _ HR). assumption.
      + rewrite K1. cbn [app] in K2. rewrite K2, K5, (Hsettle ars' (oblp_ca l) K7).
        eexists. split; [reflexivity|]. cbn. auto.
    - inversion H; subst st' outs. clear H. cbn [ac_outs acaw_res acaw_cnt].
      rewrite Hsettle.
      + eexists. split; [reflexivity|]. cbn. auto.
      + intros y o Hy Ho. left.
        (* nothing is pending: no resource and no subscription is flagged *)
        assert (Hx : exists r x, In r (obst_res st) /\ In x (obrs_subs r) /\
                       sim_sub (obrs_mode r) (obrs_obs r) (obrs_dirty r) x o).
        { destruct (f2_in_right _ _ _ y HR Hy) as [r [Hr [_ [_ Cs]]]].
          destruct (f2_in_right _ _ _ o Cs Ho) as [x [Hx Hs]].
          exists r, x. auto. }
        destruct Hx as [r [x [Hr [Hx [_ [_ [_ [_ [_ [_ [A7 [_ [A9 _]]]]]]]]]]]]].
        destruct (Z.eq_dec (acao_chg o) 0) as [|Hne]; [assumption|]. exfalso.
        assert (0 < acao_chg o) as Hpos by lia.
        rewrite Forall_forall in B. destruct (B r Hr) as [_ [_ D]].
        destruct (A9 Hpos) as [Hd|Hd].
        * discriminate (C r Hr (or_introl Hd)).
        * discriminate (C r Hr (or_intror (D x Hx Hd))).
  Qed.

  Lemma sim_step : forall st a op st' outs,
    sim st a -> ob_step p st op = (st', outs) ->
    exists a', ac_step c a (op, outs) = AcOk a' /\ sim st' a'.
  Proof.
    intros st a op st' outs S H.
    assert (Hok' : ob_ok st').
    { pose proof (ob_step_ok p st op (proj1 S)) as K. rewrite H in K. exact K. }
    assert (Hcase : (exists ca, op = ObOpIoStep ca) \/ (forall ca, op <> ObOpIoStep ca)).
    { destruct op; try (right; intros; discriminate). left. eexists. reflexivity. }
    destruct Hcase as [[ca ->]|Hq].
    - cbn [ob_step] in H. destruct (sim_iostep st a ca st' outs S H) as [a' [E1 [E2 [E3 E4]]]].
      exists a'. split; [exact E1|]. unfold sim. auto.
    - destruct (sim_step_quiet st a op st' outs Hq S H) as [a' [E1 [E2 [E3 E4]]]].
      exists a'. split; [exact E1|]. unfold sim. auto.
  Qed.

  Lemma sim_run : forall ops st a i,
    sim st a -> exists a', ac_run c a i (snd (ob_run p st ops)) = inl a'.
  Proof.
    induction ops as [|op tl IH]; intros st a i S; cbn [ob_run].
    - exists a. reflexivity.
    - destruct (ob_step p st op) as [st1 outs] eqn:E.
      destruct (sim_step st a op st1 outs S E) as [a1 [E1 S1]].
      specialize (IH st1 a1 (i + 1) S1). destruct (ob_run p st1 tl) as [st2 tr]. cbn [snd] in *.
      cbn [ac_run]. rewrite E1. exact IH.
  Qed.

End Sim.

(* ------------------------------------------------------------------ the initial states correspond *)

Lemma sim_init_res : forall c0 modes id0,
  (forall y, In y (ob_init_res id0 modes) -> obrs_mode y = ac_mode c0 (obrs_id y)) ->
  Forall2 (sim_res c0) (ob_init_res id0 modes) (ac_init_res id0 (map fst modes)).
Proof.
  intros c0. induction modes as [|[m v] tl IH]; intros id0 H; cbn [ob_init_res ac_init_res map];
    constructor.
  - unfold sim_res. cbn. split; [reflexivity|]. split; [|constructor].
    apply (H (ob_mk_res id0 m false (v mod 16777216) false false [])). left. reflexivity.
  - apply IH. intros y Hy. apply H. right. assumption.
Qed.

Lemma ac_mode_init : forall modes id0 y,
  In y (ob_init_res id0 modes) -> obrs_mode y = ac_mode_from id0 (map fst modes) (obrs_id y).
Proof.
  induction modes as [|[m v] tl IH]; intros id0 y H; cbn [ob_init_res map ac_mode_from] in *;
    [destruct H|].
  destruct H as [<-|H].
  - cbn. rewrite Z.eqb_refl. reflexivity.
  - pose proof (ob_init_res_ids _ _ _ H) as Hge.
    assert (id0 =? obrs_id y = false) as -> by (apply Z.eqb_neq; lia). apply IH. assumption.
Qed.

(* C11, the for-all part: whatever the clients, the application, the network and the NSTART
   accounting do (any op sequence, any con_active values, any initial Observe counters, any
   NSTART and any COAP_OBS_MAX_NON >= 0), the history the model produces is accepted *)
Theorem ob_model_accepted : forall p modes ops,
  0 <= obpr_max_non p -> obpr_max_fail p <= 1 ->
  ac_accepts (ac_mk_cf (map fst modes) (obpr_nstart p) (obpr_max_non p) false)
             (snd (ob_run p (ob_init modes) ops)) = true.
Proof.
  intros p modes ops H1 H2. unfold ac_accepts.
  set (c0 := ac_mk_cf (map fst modes) (obpr_nstart p) (obpr_max_non p) false).
  assert (S : sim c0 (ob_init modes) (ac_init c0)).
  { unfold sim. split; [apply ob_init_ok|]. split; [|split; reflexivity].
    unfold ob_init, ac_init. cbn. apply sim_init_res. intros y Hy. unfold ac_mode. cbn.
    apply ac_mode_init. assumption. }
  destruct (sim_run p c0 eq_refl eq_refl H1 H2 eq_refl ops _ _ 0 S) as [a' E].
  rewrite E. reflexivity.
Qed.

(* C11 - consequences for the model, stated without reference to the acceptor's state:
   combine SimProofs.ob_model_accepted with the soundness theorems of AcceptProofs. *)
From LibcoapV Require Import Base.Tactics Observe.Observe Observe.Accept Observe.ObserveProofs
  Observe.SimProofs Observe.AcceptProofs.
Local Open Scope Z_scope.

Lemma ob_run_app : forall p l1 l2 st,
  ob_run p st (l1 ++ l2) =
  let '(st1, t1) := ob_run p st l1 in
  let '(st2, t2) := ob_run p st1 l2 in (st2, t1 ++ t2).
Proof.
  intros p. induction l1 as [|op l1 IH]; intros l2 st; cbn [app ob_run].
  - destruct (ob_run p st l2). reflexivity.
  - destruct (ob_step p st op) as [st1 outs]. rewrite IH.
    destruct (ob_run p st1 l1) as [sta ta]. destruct (ob_run p sta l2) as [stb tb]. reflexivity.
Qed.

Lemma ob_run_ops : forall p l st, map fst (snd (ob_run p st l)) = l.
Proof.
  intros p. induction l as [|op l IH]; intro st; cbn [ob_run]; [reflexivity|].
  destruct (ob_step p st op) as [st1 outs]. specialize (IH st1).
  destruct (ob_run p st1 l) as [st2 tr]. cbn [snd map fst] in *. f_equal. assumption.
Qed.

Definition ob_is_register (r s : Z) (t : ob_tok) (op : ob_op) : Prop :=
  exists o, op = ObOpRegister r s t o.

(* the de-registering op, then anything but a registration of (r, s, t): nothing for (r, s, t) *)
Lemma ob_silent_after : forall p modes pre dereg mid r s t,
  0 <= obpr_max_non p -> obpr_max_fail p <= 1 ->
  (forall c st outs st', ac_wf (acas_res st) -> ac_step c st (dereg, outs) = AcOk st' ->
                         ac_reg st' r s t = false) ->
  (forall op, In op mid -> ~ ob_is_register r s t op) ->
  forall e out,
    In e (snd (ob_run p (fst (ob_run p (ob_init modes) (pre ++ [dereg]))) mid)) -> In out (snd e) ->
    ac_out_key out <> Some (r, s, t).
Proof.
  intros p modes pre dereg mid r s t Hmn Hmf Hd Hmid e out He Hout.
  set (c := ac_mk_cf (map fst modes) (obpr_nstart p) (obpr_max_non p) false).
  pose proof (ob_model_accepted p modes ((pre ++ [dereg]) ++ mid) Hmn Hmf) as Hacc.
  fold c in Hacc. unfold ac_accepts in Hacc.
  destruct (ac_run c (ac_init c) 0 (snd (ob_run p (ob_init modes) ((pre ++ [dereg]) ++ mid))))
    as [stf|] eqn:R; [|discriminate].
  apply ac_run_go in R. rewrite ob_run_app in R.
  destruct (ob_run p (ob_init modes) (pre ++ [dereg])) as [sta ta] eqn:Ea. cbn [fst] in He.
  destruct (ob_run p sta mid) as [stb tb] eqn:Eb. cbn [snd] in R, He.
  rewrite ac_go_app in R. destruct (ac_go c (ac_init c) ta) as [a1|] eqn:G1; [|discriminate].
  (* the last entry of ta is the de-registering op *)
  rewrite ob_run_app in Ea. destruct (ob_run p (ob_init modes) pre) as [st0 t0] eqn:E0.
  cbn [ob_run] in Ea. destruct (ob_step p st0 dereg) as [st0' douts] eqn:Ed.
  inversion Ea; subst sta ta. rewrite ac_go_app in G1.
  destruct (ac_go c (ac_init c) t0) as [a0|] eqn:G0; [|discriminate]. cbn [ac_go] in G1.
  destruct (ac_step c a0 (dereg, douts)) as [a1'|] eqn:S1; [|discriminate]. inversion G1; subst a1'.
  pose proof (ac_go_wf c t0 _ a0 (ac_init_wf c) G0) as W0.
  pose proof (Hd c a0 douts a1 W0 S1) as Hunreg.
  pose proof (ac_step_wf _ _ _ _ W0 S1) as W1.
  assert (Hnoreg : forall e0, In e0 tb -> ~ ac_registers e0 r s t).
  { intros e0 He0 [o [v Heq]]. pose proof (ob_run_ops p mid st0') as Hops. rewrite Eb in Hops.
    cbn [snd] in Hops. apply (Hmid (fst e0)).
    - rewrite <- Hops. apply in_map. assumption.
    - subst e0. exists o. reflexivity. }
  destruct (ac_none_while_unregistered c r s t tb a1 stf W1 R Hunreg Hnoreg) as [Hsil _].
  eapply Hsil; eassumption.
Qed.

(* C11 for the model, in its own terms: after an Observe:1 request with the observer's token no
   notification, error response or 4.04 is sent to it until it registers again *)
Theorem ob_model_silent_after_cancel : forall p modes pre mid r s t o,
  0 <= obpr_max_non p -> obpr_max_fail p <= 1 ->
  (forall op, In op mid -> ~ ob_is_register r s t op) ->
  forall e out,
    In e (snd (ob_run p (fst (ob_run p (ob_init modes) (pre ++ [ObOpCancel r s t o]))) mid)) -> In out (snd e) ->
    ac_out_key out <> Some (r, s, t).
Proof.
  intros p modes pre mid r s t o Hmn Hmf Hmid. apply ob_silent_after; try assumption.
  intros c st outs st' Hwf H. eapply ac_dereg_cancel; eassumption.
Qed.

(* ... after the session is lost: nothing to any observer of that session *)
Theorem ob_model_silent_after_session_lost : forall p modes pre mid r s t,
  0 <= obpr_max_non p -> obpr_max_fail p <= 1 ->
  (forall op, In op mid -> ~ ob_is_register r s t op) ->
  forall e out,
    In e (snd (ob_run p (fst (ob_run p (ob_init modes) (pre ++ [ObOpSessionLost s]))) mid)) -> In out (snd e) ->
    ac_out_key out <> Some (r, s, t).
Proof.
  intros p modes pre mid r s t Hmn Hmf Hmid. apply ob_silent_after; try assumption.
  intros c st outs st' Hwf H. eapply ac_dereg_lost; eassumption.
Qed.

(* ... after the resource was deleted (and created again): nothing to its former observers *)
Theorem ob_model_silent_after_delete : forall p modes pre mid r s t ca,
  0 <= obpr_max_non p -> obpr_max_fail p <= 1 ->
  (forall op, In op mid -> ~ ob_is_register r s t op) ->
  forall e out,
    In e (snd (ob_run p (fst (ob_run p (ob_init modes) (pre ++ [ObOpDeleteResource r ca]))) mid)) -> In out (snd e) ->
    ac_out_key out <> Some (r, s, t).
Proof.
  intros p modes pre mid r s t ca Hmn Hmf Hmid. apply ob_silent_after; try assumption.
  intros c st outs st' Hwf H. eapply ac_dereg_deleted; eassumption.
Qed.

(* C11 - Observe (RFC 7641) bookkeeping of a libcoap server: executable model.

   Transcribed from src/coap_resource.c (coap_add_observer, coap_delete_observer(_request),
   coap_delete_observers, coap_resource_notify_observers_lkd, coap_check_notify_lkd ->
   coap_notify_observers, coap_handle_failed_notify, coap_free_resource), src/coap_cache.c
   (is_cache_key) and the Observe / RST / ACK paths of src/coap_net.c (handle_request,
   coap_dispatch, coap_cancel, coap_cancel_all_messages, coap_retransmit give-up).

   What is abstracted:
   - a session is an integer (the peer); a token is its byte list;
   - the cache key is the tuple of options that enter the digest (the preimage), not the digest;
   - message ids: every notification the server emits gets the next ordinal [obst_nk]; an ACK / RST /
     give-up names the notification it answers by that ordinal (the harness translates ordinals
     to the 16-bit mids on the wire; mids do not wrap within a history);
   - con_active of the sessions (NSTART accounting, property C08) is an INPUT of every step of
     the I/O loop ([ObOpIoStep ca], [ObOpDeleteResource r ca]): the theorems hold for every value
     the rest of the library may have left there; inside one step the model counts the
     confirmable notifications it sends itself, as coap_send_pdu does;
   - the handler's answer is the resource's [obrs_err] flag (true: an error-class response).
   All definitions carry the prefix ob_ (one flat extracted module). *)
From Coq Require Import ZArith List Bool.
Import ListNotations.
Local Open Scope Z_scope.

Definition ob_tok := list Z.
Definition ob_opts := list (Z * list Z).

Fixpoint ob_bytes_eqb (a b : list Z) : bool :=
  match a, b with
  | [], [] => true
  | x :: a', y :: b' => (x =? y) && ob_bytes_eqb a' b'
  | _, _ => false
  end.

Fixpoint ob_opts_eqb (a b : ob_opts) : bool :=
  match a, b with
  | [], [] => true
  | (n, v) :: a', (m, w) :: b' => (n =? m) && ob_bytes_eqb v w && ob_opts_eqb a' b'
  | _, _ => false
  end.

(* coap_cache.c is_cache_key with the ignore list {ETag 4, OSCORE 9} of coap_add_observer:
   NoCacheKey options ((n & 0x1e) == 0x1c), Observe (6) and the ignored ones do not count *)
Definition ob_is_cache_key (n : Z) : bool :=
  negb (Z.land n 30 =? 28) && negb (n =? 6) && negb (n =? 4) && negb (n =? 9).

Definition ob_key (o : ob_opts) : ob_opts := filter (fun p => ob_is_cache_key (fst p)) o.

Record ob_sub := ob_mk_sub {
  obsb_sess : Z;
  obsb_tok : ob_tok;
  obsb_key : ob_opts;
  obsb_non : Z;          (* non_cnt *)
  obsb_fail : Z;         (* fail_cnt *)
  obsb_dirty : bool;
  obsb_last : Z          (* ordinal of the last notification made for it (obs->pdu->mid); -1: none *)
}.

Record ob_res := ob_mk_res {
  obrs_id : Z;
  obrs_mode : Z;         (* 0: NOTIFY_NON (default), 1: NOTIFY_CON, 2: NOTIFY_NON_ALWAYS *)
  obrs_err : bool;       (* the application's handler answers with an error-class code *)
  obrs_obs : Z;          (* resource->observe *)
  obrs_dirty : bool;
  obrs_pdirty : bool;
  obrs_subs : list ob_sub
}.

(* a confirmable notification waiting in the send queue *)
Record ob_flight := ob_mk_fl { obfl_sess : Z; obfl_k : Z; obfl_tok : ob_tok; obfl_ok : bool (* class 2 *) }.

Record ob_state := ob_mk_st {
  obst_res : list ob_res;          (* in hash iteration order = order of coap_add_resource *)
  obst_pending : bool;             (* context->observe_pending *)
  obst_fl : list ob_flight;
  obst_nk : Z;                     (* ordinal of the next notification *)
  obst_ref : list (Z * Z)          (* session -> references held by subscriptions *)
}.

Record ob_params := ob_mk_pr { obpr_nstart : Z; obpr_max_non : Z; obpr_max_fail : Z }.

Inductive ob_op :=
| ObOpRegister (r s : Z) (t : ob_tok) (o : ob_opts)     (* GET/Observe:0 reaches handle_request *)
| ObOpCancel (r s : Z) (t : ob_tok) (o : ob_opts)       (* GET/Observe:1 *)
| ObOpChange (r : Z)                                    (* coap_resource_notify_observers *)
| ObOpIoStep (ca : list (Z * Z))                        (* coap_check_notify_lkd; ca: con_active *)
| ObOpAck (s k : Z)                                     (* ACK for notification k *)
| ObOpRst (s k : Z)                                     (* RST for notification k *)
| ObOpConFailed (s k : Z)                               (* confirmable notification k was given up *)
| ObOpSetErr (r : Z) (b : bool)                         (* the handler's answer changes *)
| ObOpSessionLost (s : Z)                               (* coap_session_disconnected *)
| ObOpDeleteResource (r : Z) (ca : list (Z * Z)).       (* coap_delete_resource, then created anew *)

Inductive ob_out :=
| ObNotify (k r s : Z) (t : ob_tok) (v : Z) (con : bool)   (* 2.xx with Observe: v *)
| ObErr (k r s : Z) (t : ob_tok) (con : bool)              (* error-class response, no Observe *)
| ObGone (r s : Z) (t : ob_tok)                            (* 4.04 NON when the resource is deleted *)
| ObRegResp (r s : Z) (t : ob_tok) (v : option Z).         (* response to a registration request *)

(* ------------------------------------------------------------------ small helpers *)

Fixpoint ob_ca_get (ca : list (Z * Z)) (s : Z) : Z :=
  match ca with
  | [] => 0
  | (s', n) :: tl => if s' =? s then n else ob_ca_get tl s
  end.

Definition ob_ca_inc (ca : list (Z * Z)) (s : Z) : list (Z * Z) := (s, ob_ca_get ca s + 1) :: ca.

Definition ob_ref_get := ob_ca_get.
Definition ob_ref_add (rf : list (Z * Z)) (s d : Z) : list (Z * Z) := (s, ob_ca_get rf s + d) :: rf.

Definition ob_sub_is (s : Z) (t : ob_tok) (x : ob_sub) : bool :=
  (obsb_sess x =? s) && ob_bytes_eqb (obsb_tok x) t.
Definition ob_sub_keyis (s : Z) (key : ob_opts) (x : ob_sub) : bool :=
  (obsb_sess x =? s) && ob_opts_eqb (obsb_key x) key.

(* coap_find_observer / coap_find_observer_cache_key *)
Fixpoint ob_find {A : Type} (f : A -> bool) (l : list A) : option A :=
  match l with
  | [] => None
  | x :: tl => if f x then Some x else ob_find f tl
  end.

(* LL_DELETE of the first match; the bool tells whether one was removed *)
Fixpoint ob_remove1 {A : Type} (f : A -> bool) (l : list A) : list A * bool :=
  match l with
  | [] => ([], false)
  | x :: tl => if f x then (tl, true)
               else let '(tl', b) := ob_remove1 f tl in (x :: tl', b)
  end.

Definition ob_set_subs (r : ob_res) (l : list ob_sub) : ob_res :=
  ob_mk_res (obrs_id r) (obrs_mode r) (obrs_err r) (obrs_obs r) (obrs_dirty r) (obrs_pdirty r) l.

(* coap_delete_observer(resource, session, token): removes the entry, releases the session *)
Definition ob_del_in_res (s : Z) (t : ob_tok) (r : ob_res) : ob_res * bool :=
  let '(l, b) := ob_remove1 (ob_sub_is s t) (obrs_subs r) in (ob_set_subs r l, b).

Fixpoint ob_del_all_res (s : Z) (t : ob_tok) (rs : list ob_res) : list ob_res * Z :=
  match rs with
  | [] => ([], 0)
  | r :: tl => let '(r', b) := ob_del_in_res s t r in
               let '(tl', n) := ob_del_all_res s t tl in
               (r' :: tl', if b then n + 1 else n)
  end.

(* apply f to the resource with id r (ids are unique in a state) *)
Fixpoint ob_upd_res (r : Z) (f : ob_res -> ob_res) (rs : list ob_res) : list ob_res :=
  match rs with
  | [] => []
  | x :: tl => if obrs_id x =? r then f x :: tl else x :: ob_upd_res r f tl
  end.

Fixpoint ob_get_res (r : Z) (rs : list ob_res) : option ob_res :=
  match rs with
  | [] => None
  | x :: tl => if obrs_id x =? r then Some x else ob_get_res r tl
  end.

(* coap_touch_observer: fail_cnt := 0 for (session, token) in every resource *)
Definition ob_touch_sub (s : Z) (t : ob_tok) (x : ob_sub) : ob_sub :=
  if ob_sub_is s t x
  then ob_mk_sub (obsb_sess x) (obsb_tok x) (obsb_key x) (obsb_non x) 0 (obsb_dirty x) (obsb_last x)
  else x.
Definition ob_touch (s : Z) (t : ob_tok) (rs : list ob_res) : list ob_res :=
  map (fun r => ob_set_subs r (map (ob_touch_sub s t) (obrs_subs r))) rs.

(* coap_cancel_all_messages(session, token) on the send queue *)
Definition ob_fl_cancel (s : Z) (t : ob_tok) (fl : list ob_flight) : list ob_flight :=
  filter (fun f => negb ((obfl_sess f =? s) && ob_bytes_eqb (obfl_tok f) t)) fl.

Definition ob_fl_is (s k : Z) (f : ob_flight) : bool := (obfl_sess f =? s) && (obfl_k f =? k).

Fixpoint ob_fl_find (s k : Z) (fl : list ob_flight) : option ob_flight :=
  match fl with
  | [] => None
  | f :: tl => if ob_fl_is s k f then Some f else ob_fl_find s k tl
  end.

Definition ob_fl_remove (s k : Z) (fl : list ob_flight) : list ob_flight :=
  filter (fun f => negb (ob_fl_is s k f)) fl.

(* ------------------------------------------------------------------ registration *)

(* coap_add_observer; returns the new subscriber list and the change of the session's references *)
Definition ob_add_observer (s : Z) (t : ob_tok) (o : ob_opts) (l : list ob_sub)
  : list ob_sub * Z :=
  match ob_find (ob_sub_is s t) l with
  | Some _ => (l, 0)
  | None =>
      let key := ob_key o in
      let fresh := ob_mk_sub s t key 0 0 false (-1) in
      match ob_find (ob_sub_keyis s key) l with
      | Some old => let '(l', _) := ob_remove1 (ob_sub_is s (obsb_tok old)) l in (fresh :: l', 0)
      | None => (fresh :: l, 1)
      end
  end.

(* handle_request, Observe:0 on an observable resource *)
Definition ob_register (st : ob_state) (r s : Z) (t : ob_tok) (o : ob_opts)
  : ob_state * list ob_out :=
  match ob_get_res r (obst_res st) with
  | None => (st, [])
  | Some res =>
      let '(l, d) := ob_add_observer s t o (obrs_subs res) in
      let rs1 := ob_upd_res r (fun x => ob_set_subs x l) (obst_res st) in
      let rs2 := ob_touch s t rs1 in
      let rf1 := ob_ref_add (obst_ref st) s d in
      if obrs_err res then
        (* error-class answer: Observe removed, coap_delete_observer(resource, session, token) *)
        let rs3 := ob_upd_res r (fun x => fst (ob_del_in_res s t x)) rs2 in
        let gone := match ob_get_res r rs2 with
                    | Some x => snd (ob_del_in_res s t x)
                    | None => false
                    end in
        (ob_mk_st rs3 (obst_pending st) (obst_fl st) (obst_nk st)
               (ob_ref_add rf1 s (if gone then -1 else 0)),
         [ObRegResp r s t None])
      else
        (ob_mk_st rs2 (obst_pending st) (obst_fl st) (obst_nk st) rf1,
         [ObRegResp r s t (Some (obrs_obs res))])
  end.

(* coap_delete_observer_request *)
Definition ob_cancel_subs (s : Z) (t : ob_tok) (o : ob_opts) (l : list ob_sub)
  : list ob_sub * bool :=
  match ob_find (ob_sub_is s t) l with
  | Some _ => ob_remove1 (ob_sub_is s t) l
  | None =>
      match ob_find (ob_sub_keyis s (ob_key o)) l with
      | Some old => ob_remove1 (ob_sub_is s (obsb_tok old)) l
      | None => (l, false)
      end
  end.

Definition ob_cancel (st : ob_state) (r s : Z) (t : ob_tok) (o : ob_opts) : ob_state :=
  match ob_get_res r (obst_res st) with
  | None => st
  | Some res =>
      let '(l, b) := ob_cancel_subs s t o (obrs_subs res) in
      ob_mk_st (ob_upd_res r (fun x => ob_set_subs x l) (obst_res st)) (obst_pending st) (obst_fl st)
            (obst_nk st) (if b then ob_ref_add (obst_ref st) s (-1) else obst_ref st)
  end.

(* coap_resource_notify_observers_lkd *)
Definition ob_change_res (x : ob_res) : ob_res :=
  match obrs_subs x with
  | [] => x
  | _ => ob_mk_res (obrs_id x) (obrs_mode x) (obrs_err x) ((obrs_obs x + 1) mod 16777216) true
                (obrs_pdirty x) (obrs_subs x)
  end.

Definition ob_has_subs (r : Z) (rs : list ob_res) : bool :=
  match ob_get_res r rs with
  | Some x => match obrs_subs x with [] => false | _ => true end
  | None => false
  end.

Definition ob_change (st : ob_state) (r : Z) : ob_state :=
  ob_mk_st (ob_upd_res r ob_change_res (obst_res st))
        (obst_pending st || ob_has_subs r (obst_res st)) (obst_fl st) (obst_nk st) (obst_ref st).

(* ------------------------------------------------------------------ coap_notify_observers *)

(* what the loop over the subscribers of all resources carries along *)
Record ob_loop := ob_mk_lp {
  oblp_ca : list (Z * Z);
  oblp_pend : bool;
  oblp_nk : Z;
  oblp_fl : list ob_flight;
  oblp_ref : list (Z * Z)
}.

Definition ob_blocked (p : ob_params) (mode : Z) (ca : list (Z * Z)) (x : ob_sub) : bool :=
  (obpr_nstart p <=? ob_ca_get ca (obsb_sess x)) &&
  ((mode =? 1) || (obpr_max_non p <=? obsb_non x)).

(* a large (Block2) transmission to the session is unfinished and younger than 2 s
   (lg_xmit->last_all_sent == 0 && last_obs + 2 s > now): like con_active this is an input of the
   step; it travels in the same list under the key  session + ob_lg_off *)
Definition ob_lg_off : Z := 1048576.
Definition ob_in_transfer (ca : list (Z * Z)) (s : Z) : bool := 0 <? ob_ca_get ca (s + ob_lg_off).

(* the type of the notification: NON unless NOTIFY_CON or the NON budget is used up *)
Definition ob_is_con (p : ob_params) (mode : Z) (x : ob_sub) : bool :=
  negb (negb (mode =? 1) && ((mode =? 2) || (obsb_non x <? obpr_max_non p))).

Definition ob_lp_sent (l : ob_loop) (x : ob_sub) (con ok : bool) : ob_loop :=
  ob_mk_lp (if con then ob_ca_inc (oblp_ca l) (obsb_sess x) else oblp_ca l)
        (oblp_pend l) (oblp_nk l + 1)
        (if con then oblp_fl l ++ [ob_mk_fl (obsb_sess x) (oblp_nk l) (obsb_tok x) ok] else oblp_fl l)
        (oblp_ref l).

Definition ob_lp_pend (l : ob_loop) : ob_loop :=
  ob_mk_lp (oblp_ca l) true (oblp_nk l) (oblp_fl l) (oblp_ref l).

Definition ob_lp_release (l : ob_loop) (s : Z) : ob_loop :=
  ob_mk_lp (oblp_ca l) (oblp_pend l) (oblp_nk l) (oblp_fl l) (ob_ref_add (oblp_ref l) s (-1)).

(* LL_FOREACH_SAFE(r->subscribers, obs, otmp) of coap_notify_observers,
   COAP_NOT_DELETING_RESOURCE; returns the list, the new partiallydirty, the loop state, outputs *)
Fixpoint ob_notify_subs (p : ob_params) (r : ob_res) (subs : list ob_sub) (l : ob_loop)
  : list ob_sub * bool * ob_loop * list ob_out :=
  match subs with
  | [] => ([], false, l, [])
  | x :: tl =>
      if negb (obrs_dirty r) && negb (obsb_dirty x) then
        (* already notified; runs only because of partiallydirty *)
        let '(tl', pd, l', outs) := ob_notify_subs p r tl (ob_lp_pend l) in
        (x :: tl', pd, l', outs)
      else if ob_blocked p (obrs_mode r) (oblp_ca l) x then
        let x' := ob_mk_sub (obsb_sess x) (obsb_tok x) (obsb_key x) (obsb_non x) (obsb_fail x) true (obsb_last x) in
        let '(tl', pd, l', outs) := ob_notify_subs p r tl (ob_lp_pend l) in
        (x' :: tl', true, l', outs)
      else if ob_in_transfer (oblp_ca l) (obsb_sess x) then
        (* waiting for the previous blocked unsolicited response to finish: deferred, stays dirty *)
        let x' := ob_mk_sub (obsb_sess x) (obsb_tok x) (obsb_key x) (obsb_non x) (obsb_fail x) true (obsb_last x) in
        let '(tl', pd, l', outs) := ob_notify_subs p r tl (ob_lp_pend l) in
        (x' :: tl', true, l', outs)
      else
        let con := ob_is_con p (obrs_mode r) x in
        let k := oblp_nk l in
        if obrs_err r then
          (* error-class response: observer deleted, response still sent *)
          let '(tl', pd, l', outs) :=
            ob_notify_subs p r tl (ob_lp_release (ob_lp_sent l x con false) (obsb_sess x)) in
          (tl', pd, l', ObErr k (obrs_id r) (obsb_sess x) (obsb_tok x) con :: outs)
        else
          let non' := if con || (obrs_mode r =? 2) then 0 else obsb_non x + 1 in
          let x' := ob_mk_sub (obsb_sess x) (obsb_tok x) (obsb_key x) non' (obsb_fail x) false k in
          let '(tl', pd, l', outs) := ob_notify_subs p r tl (ob_lp_sent l x con true) in
          (x' :: tl', pd, l',
           ObNotify k (obrs_id r) (obsb_sess x) (obsb_tok x) (obrs_obs r) con :: outs)
  end.

Definition ob_notify_res (p : ob_params) (r : ob_res) (l : ob_loop)
  : ob_res * ob_loop * list ob_out :=
  if obrs_dirty r || obrs_pdirty r then
    let '(subs', pd, l', outs) := ob_notify_subs p r (obrs_subs r) l in
    (ob_mk_res (obrs_id r) (obrs_mode r) (obrs_err r) (obrs_obs r) false pd subs', l', outs)
  else
    (ob_mk_res (obrs_id r) (obrs_mode r) (obrs_err r) (obrs_obs r) false (obrs_pdirty r) (obrs_subs r), l, []).

(* RESOURCES_ITER of coap_check_notify_lkd *)
Fixpoint ob_notify_all (p : ob_params) (rs : list ob_res) (l : ob_loop)
  : list ob_res * ob_loop * list ob_out :=
  match rs with
  | [] => ([], l, [])
  | r :: tl =>
      let '(r', l1, o1) := ob_notify_res p r l in
      let '(tl', l2, o2) := ob_notify_all p tl l1 in
      (r' :: tl', l2, o1 ++ o2)
  end.

Definition ob_iostep (p : ob_params) (st : ob_state) (ca : list (Z * Z))
  : ob_state * list ob_out :=
  if obst_pending st then
    let '(rs, l, outs) :=
      ob_notify_all p (obst_res st) (ob_mk_lp ca false (obst_nk st) (obst_fl st) (obst_ref st)) in
    (ob_mk_st rs (oblp_pend l) (oblp_fl l) (oblp_nk l) (oblp_ref l), outs)
  else (st, []).

(* ------------------------------------------------------------------ ACK / RST / give-up *)

Definition ob_ack (st : ob_state) (s k : Z) : ob_state :=
  match ob_fl_find s k (obst_fl st) with
  | None => st
  | Some f =>
      ob_mk_st (if obfl_ok f then ob_touch s (obfl_tok f) (obst_res st) else obst_res st)
            (obst_pending st) (ob_fl_remove s k (obst_fl st)) (obst_nk st) (obst_ref st)
  end.

(* second RST path of coap_dispatch: the first subscription whose last notification is k *)
Fixpoint ob_rst_by_last (s k : Z) (rs : list ob_res) : list ob_res * bool :=
  match rs with
  | [] => ([], false)
  | r :: tl =>
      match ob_find (fun x => (obsb_last x =? k) && (obsb_sess x =? s)) (obrs_subs r) with
      | Some x => (fst (ob_del_in_res s (obsb_tok x) r) :: tl, true)
      | None => let '(tl', b) := ob_rst_by_last s k tl in (r :: tl', b)
      end
  end.

Definition ob_rst (st : ob_state) (s k : Z) : ob_state :=
  match ob_fl_find s k (obst_fl st) with
  | Some f =>
      (* found in the send queue: coap_cancel -> every resource, coap_cancel_all_messages *)
      let '(rs, n) := ob_del_all_res s (obfl_tok f) (obst_res st) in
      ob_mk_st rs (obst_pending st) (ob_fl_cancel s (obfl_tok f) (ob_fl_remove s k (obst_fl st)))
            (obst_nk st) (ob_ref_add (obst_ref st) s (- n))
  | None =>
      let '(rs, b) := ob_rst_by_last s k (obst_res st) in
      ob_mk_st rs (obst_pending st) (obst_fl st) (obst_nk st)
            (if b then ob_ref_add (obst_ref st) s (-1) else obst_ref st)
  end.

(* coap_remove_failed_observers for one resource: fail_cnt++, removal at COAP_OBS_MAX_FAIL;
   the bool tells whether the observer was removed (then coap_cancel_all_messages ran) *)
Fixpoint ob_failed_subs (p : ob_params) (s : Z) (t : ob_tok) (l : list ob_sub)
  : list ob_sub * bool :=
  match l with
  | [] => ([], false)
  | x :: tl =>
      if ob_sub_is s t x then
        if obpr_max_fail p <=? obsb_fail x + 1 then (tl, true)
        else (ob_mk_sub (obsb_sess x) (obsb_tok x) (obsb_key x) (obsb_non x) (obsb_fail x + 1) (obsb_dirty x)
                     (obsb_last x) :: tl, false)
      else let '(tl', b) := ob_failed_subs p s t tl in (x :: tl', b)
  end.

Fixpoint ob_failed_all (p : ob_params) (s : Z) (t : ob_tok) (rs : list ob_res)
  : list ob_res * Z :=
  match rs with
  | [] => ([], 0)
  | r :: tl =>
      let '(l, b) := ob_failed_subs p s t (obrs_subs r) in
      let '(tl', n) := ob_failed_all p s t tl in
      (ob_set_subs r l :: tl', if b then n + 1 else n)
  end.

Definition ob_confailed (p : ob_params) (st : ob_state) (s k : Z) : ob_state :=
  match ob_fl_find s k (obst_fl st) with
  | None => st
  | Some f =>
      let '(rs, n) := ob_failed_all p s (obfl_tok f) (obst_res st) in
      let fl1 := ob_fl_remove s k (obst_fl st) in
      ob_mk_st rs (obst_pending st) (if 0 <? n then ob_fl_cancel s (obfl_tok f) fl1 else fl1)
            (obst_nk st) (ob_ref_add (obst_ref st) s (- n))
  end.

(* ------------------------------------------------------------------ session loss, deletion *)

Definition ob_lost_res (s : Z) (r : ob_res) : ob_res :=
  ob_set_subs r (filter (fun x => negb (obsb_sess x =? s)) (obrs_subs r)).

Definition ob_count_sess (s : Z) (rs : list ob_res) : Z :=
  fold_right (fun r n => Z.of_nat (length (filter (fun x => obsb_sess x =? s) (obrs_subs r))) + n)
             0 rs.

Definition ob_session_lost (st : ob_state) (s : Z) : ob_state :=
  ob_mk_st (map (ob_lost_res s) (obst_res st)) (obst_pending st)
        (filter (fun f => negb (obfl_sess f =? s)) (obst_fl st)) (obst_nk st)
        (ob_ref_add (obst_ref st) s (- ob_count_sess s (obst_res st))).

(* coap_notify_observers, COAP_DELETING_RESOURCE: a NON 4.04 for every observer that is not
   held back; every subscription is freed afterwards (coap_free_resource) *)
Fixpoint ob_gone_subs (p : ob_params) (r : ob_res) (ca : list (Z * Z)) (subs : list ob_sub)
                      (rf : list (Z * Z)) : list ob_out * list (Z * Z) :=
  match subs with
  | [] => ([], rf)
  | x :: tl =>
      let '(outs, rf') := ob_gone_subs p r ca tl (ob_ref_add rf (obsb_sess x) (-1)) in
      if ob_blocked p (obrs_mode r) ca x || ob_in_transfer ca (obsb_sess x) then (outs, rf')
      else (ObGone (obrs_id r) (obsb_sess x) (obsb_tok x) :: outs, rf')
  end.

Fixpoint ob_drop_res (r : Z) (rs : list ob_res) : list ob_res :=
  match rs with
  | [] => []
  | x :: tl => if obrs_id x =? r then tl else x :: ob_drop_res r tl
  end.

Definition ob_fresh_res (id mode : Z) (err : bool) : ob_res := ob_mk_res id mode err 2 false false [].

Definition ob_delete_resource (p : ob_params) (st : ob_state) (r : Z) (ca : list (Z * Z))
  : ob_state * list ob_out :=
  match ob_get_res r (obst_res st) with
  | None => (st, [])
  | Some res =>
      let '(outs, rf) := ob_gone_subs p res ca (obrs_subs res) (obst_ref st) in
      (ob_mk_st (ob_drop_res r (obst_res st) ++ [ob_fresh_res r (obrs_mode res) (obrs_err res)])
             (obst_pending st || ob_has_subs r (obst_res st)) (obst_fl st) (obst_nk st) rf, outs)
  end.

Definition ob_set_err (st : ob_state) (r : Z) (b : bool) : ob_state :=
  ob_mk_st (ob_upd_res r (fun x => ob_mk_res (obrs_id x) (obrs_mode x) b (obrs_obs x) (obrs_dirty x)
                                        (obrs_pdirty x) (obrs_subs x)) (obst_res st))
        (obst_pending st) (obst_fl st) (obst_nk st) (obst_ref st).

(* ------------------------------------------------------------------ the machine *)

Definition ob_step (p : ob_params) (st : ob_state) (op : ob_op) : ob_state * list ob_out :=
  match op with
  | ObOpRegister r s t o => ob_register st r s t o
  | ObOpCancel r s t o => (ob_cancel st r s t o, [])
  | ObOpChange r => (ob_change st r, [])
  | ObOpIoStep ca => ob_iostep p st ca
  | ObOpAck s k => (ob_ack st s k, [])
  | ObOpRst s k => (ob_rst st s k, [])
  | ObOpConFailed s k => (ob_confailed p st s k, [])
  | ObOpSetErr r b => (ob_set_err st r b, [])
  | ObOpSessionLost s => (ob_session_lost st s, [])
  | ObOpDeleteResource r ca => ob_delete_resource p st r ca
  end.

(* the history as seen from outside: every op with the outputs it caused *)
Fixpoint ob_run (p : ob_params) (st : ob_state) (ops : list ob_op)
  : ob_state * list (ob_op * list ob_out) :=
  match ops with
  | [] => (st, [])
  | op :: tl =>
      let '(st1, outs) := ob_step p st op in
      let '(st2, tr) := ob_run p st1 tl in
      (st2, (op, outs) :: tr)
  end.

(* initial state: resources 0..n-1 with the given modes; observe = 2 after coap_resource_init,
   or whatever coap_persist_set_observe_num() installed before the server started *)
Fixpoint ob_init_res (id : Z) (modes : list (Z * Z)) : list ob_res :=
  match modes with
  | [] => []
  | (m, v) :: tl => ob_mk_res id m false (v mod 16777216) false false [] :: ob_init_res (id + 1) tl
  end.

Definition ob_init (modes : list (Z * Z)) : ob_state := ob_mk_st (ob_init_res 0 modes) false [] 0 [].

(* C11 - the session stays referenced while it has observers: in every reachable state of the
   model the references a session holds through subscriptions (obst_ref: +1 in coap_add_observer,
   -1 on every path that frees a subscription) equal the number of its subscriptions. *)
From LibcoapV Require Import Base.Tactics Observe.Observe Observe.ObserveProofs.
Local Open Scope Z_scope.

Definition ob_cnt (s : Z) (l : list ob_sub) : Z :=
  Z.of_nat (length (filter (fun x => obsb_sess x =? s) l)).

Lemma ob_count_sess_cons : forall s r rs,
  ob_count_sess s (r :: rs) = ob_cnt s (obrs_subs r) + ob_count_sess s rs.
Proof. reflexivity. Qed.

Lemma ob_count_sess_app : forall s a b,
  ob_count_sess s (a ++ b) = ob_count_sess s a + ob_count_sess s b.
Proof.
  intros s a b. induction a as [|r a IH]; cbn [app]; [unfold ob_count_sess at 2; cbn; lia|].
  rewrite !ob_count_sess_cons, IH. lia.
Qed.

Lemma ob_cnt_cons : forall s x l,
  ob_cnt s (x :: l) = (if obsb_sess x =? s then 1 else 0) + ob_cnt s l.
Proof.
  intros s x l. unfold ob_cnt. cbn [filter]. destruct (obsb_sess x =? s); cbn [length]; lia.
Qed.

Lemma ob_cnt_nonneg : forall s l, 0 <= ob_cnt s l.
Proof. intros. unfold ob_cnt. lia. Qed.

Lemma ob_ref_get_add : forall rf s d s',
  ob_ca_get (ob_ref_add rf s d) s' = if s =? s' then ob_ca_get rf s + d else ob_ca_get rf s'.
Proof.
  intros rf s d s'. unfold ob_ref_add. cbn [ob_ca_get]. destruct (s =? s') eqn:E; [|reflexivity].
  reflexivity.
Qed.

(* removing the first match of (s0, t0) *)
Lemma ob_cnt_remove1 : forall s0 t0 s l,
  ob_cnt s (fst (ob_remove1 (ob_sub_is s0 t0) l)) =
  ob_cnt s l - (if snd (ob_remove1 (ob_sub_is s0 t0) l) && (s0 =? s) then 1 else 0).
Proof.
  intros s0 t0 s. induction l as [|x l IH]; cbn [ob_remove1]; [cbn; lia|].
  destruct (ob_sub_is s0 t0 x) eqn:E.
  - cbn [fst snd andb]. rewrite ob_cnt_cons. unfold ob_sub_is in E. apply andb_true_iff in E.
    destruct E as [E _]. apply Z.eqb_eq in E. rewrite E. destruct (s0 =? s); lia.
  - destruct (ob_remove1 (ob_sub_is s0 t0) l) as [l' b]. cbn [fst snd] in *.
    rewrite !ob_cnt_cons, IH. lia.
Qed.

Definition ob_refs_ok (st : ob_state) : Prop :=
  forall s, ob_ca_get (obst_ref st) s = ob_count_sess s (obst_res st).

(* replacing the resource with id r *)
Lemma ob_count_upd : forall s r f rs x,
  ob_get_res r rs = Some x ->
  ob_count_sess s (ob_upd_res r f rs) =
  ob_count_sess s rs - ob_cnt s (obrs_subs x) + ob_cnt s (obrs_subs (f x)).
Proof.
  intros s r f rs x G. destruct (ob_get_res_split _ _ _ G) as [a [b [E1 [E2 E3]]]]. subst rs.
  rewrite (ob_upd_res_split r f a x b E2 E3), !ob_count_sess_app, !ob_count_sess_cons. lia.
Qed.

Lemma ob_count_touch : forall s s0 t0 rs, ob_count_sess s (ob_touch s0 t0 rs) = ob_count_sess s rs.
Proof.
  intros s s0 t0. induction rs as [|r rs IH]; [reflexivity|]. unfold ob_touch in *. cbn [map].
  rewrite !ob_count_sess_cons, IH. f_equal. unfold ob_set_subs, ob_cnt. cbn [obrs_subs].
  f_equal. clear. induction (obrs_subs r) as [|x l IH]; [reflexivity|]. cbn [map filter].
  assert (obsb_sess (ob_touch_sub s0 t0 x) = obsb_sess x) as ->
    by (unfold ob_touch_sub; destruct (ob_sub_is s0 t0 x); reflexivity).
  destruct (obsb_sess x =? s); cbn [length]; rewrite IH; reflexivity.
Qed.

Lemma ob_add_observer_cnt : forall s0 t0 o l s,
  ob_cnt s (fst (ob_add_observer s0 t0 o l)) =
  ob_cnt s l + (if s0 =? s then snd (ob_add_observer s0 t0 o l) else 0).
Proof.
  intros s0 t0 o l s. unfold ob_add_observer.
  destruct (ob_find (ob_sub_is s0 t0) l); [cbn; destruct (s0 =? s); lia|].
  destruct (ob_find (ob_sub_keyis s0 (ob_key o)) l) as [old|] eqn:F.
  - pose proof (ob_cnt_remove1 s0 (obsb_tok old) s l) as R.
    pose proof (ob_remove1_flag (ob_sub_is s0 (obsb_tok old)) l) as Fl.
    destruct (ob_remove1 (ob_sub_is s0 (obsb_tok old)) l) as [l' b]. cbn [fst snd] in *.
    rewrite ob_cnt_cons. cbn [obsb_sess]. rewrite R.
    (* old itself matches (s0, its token): something was removed *)
    assert (b = true).
    { rewrite Fl. apply ob_find_some in F. destruct F as [Hin Hk].
      destruct (ob_find (ob_sub_is s0 (obsb_tok old)) l) eqn:F2; [reflexivity|].
      pose proof (ob_find_none _ _ F2 old Hin) as Hn. unfold ob_sub_keyis in Hk. unfold ob_sub_is in Hn.
      apply andb_true_iff in Hk. destruct Hk as [Hs _]. rewrite Hs, ob_bytes_eqb_refl in Hn. discriminate. }
    rewrite H. cbn [andb]. destruct (s0 =? s); lia.
  - cbn [fst snd]. rewrite ob_cnt_cons. cbn [obsb_sess]. destruct (s0 =? s); lia.
Qed.

Lemma ob_del_in_res_cnt : forall s0 t0 x s,
  ob_cnt s (obrs_subs (fst (ob_del_in_res s0 t0 x))) =
  ob_cnt s (obrs_subs x) - (if snd (ob_del_in_res s0 t0 x) && (s0 =? s) then 1 else 0).
Proof.
  intros s0 t0 x s. unfold ob_del_in_res. pose proof (ob_cnt_remove1 s0 t0 s (obrs_subs x)) as R.
  destruct (ob_remove1 (ob_sub_is s0 t0) (obrs_subs x)) as [l b]. cbn [fst snd obrs_subs ob_set_subs] in *.
  exact R.
Qed.

Lemma ob_del_all_res_cnt : forall s0 t0 rs s,
  ob_count_sess s (fst (ob_del_all_res s0 t0 rs)) =
  ob_count_sess s rs - (if s0 =? s then snd (ob_del_all_res s0 t0 rs) else 0).
Proof.
  intros s0 t0. induction rs as [|r rs IH]; intro s; cbn [ob_del_all_res].
  - cbn. destruct (s0 =? s); lia.
  - pose proof (ob_del_in_res_cnt s0 t0 r s) as R. destruct (ob_del_in_res s0 t0 r) as [r' b].
    specialize (IH s). destruct (ob_del_all_res s0 t0 rs) as [tl' n]. cbn [fst snd] in *.
    rewrite !ob_count_sess_cons, R, IH. destruct b, (s0 =? s); cbn [andb]; lia.
Qed.

Lemma ob_failed_subs_cnt : forall p s0 t0 l s,
  ob_cnt s (fst (ob_failed_subs p s0 t0 l)) =
  ob_cnt s l - (if snd (ob_failed_subs p s0 t0 l) && (s0 =? s) then 1 else 0).
Proof.
  intros p s0 t0 l s. induction l as [|x l IH]; cbn [ob_failed_subs]; [cbn; lia|].
  destruct (ob_sub_is s0 t0 x) eqn:E.
  - unfold ob_sub_is in E. apply andb_true_iff in E. destruct E as [E _]. apply Z.eqb_eq in E.
    destruct (obpr_max_fail p <=? obsb_fail x + 1); cbn [fst snd andb]; rewrite !ob_cnt_cons; cbn [obsb_sess];
      rewrite E; destruct (s0 =? s); lia.
  - destruct (ob_failed_subs p s0 t0 l) as [l' b]. cbn [fst snd] in *. rewrite !ob_cnt_cons, IH. lia.
Qed.

Lemma ob_failed_all_cnt : forall p s0 t0 rs s,
  ob_count_sess s (fst (ob_failed_all p s0 t0 rs)) =
  ob_count_sess s rs - (if s0 =? s then snd (ob_failed_all p s0 t0 rs) else 0).
Proof.
  intros p s0 t0. induction rs as [|r rs IH]; intro s; cbn [ob_failed_all].
  - cbn. destruct (s0 =? s); lia.
  - pose proof (ob_failed_subs_cnt p s0 t0 (obrs_subs r) s) as R.
    destruct (ob_failed_subs p s0 t0 (obrs_subs r)) as [l b]. specialize (IH s).
    destruct (ob_failed_all p s0 t0 rs) as [tl' n]. cbn [fst snd] in *.
    rewrite !ob_count_sess_cons. cbn [obrs_subs ob_set_subs]. rewrite R, IH.
    destruct b, (s0 =? s); cbn [andb]; lia.
Qed.

Lemma ob_rst_by_last_cnt : forall s0 k rs s,
  ob_count_sess s (fst (ob_rst_by_last s0 k rs)) =
  ob_count_sess s rs - (if snd (ob_rst_by_last s0 k rs) && (s0 =? s) then 1 else 0).
Proof.
  intros s0 k. induction rs as [|r rs IH]; intro s; cbn [ob_rst_by_last]; [cbn; lia|].
  destruct (ob_find (fun x => (obsb_last x =? k) && (obsb_sess x =? s0)) (obrs_subs r)) as [x|] eqn:F.
  - cbn [fst snd andb]. rewrite !ob_count_sess_cons, ob_del_in_res_cnt.
    (* x is in the list and has session s0, so the deletion by (s0, token of x) finds something *)
    assert (snd (ob_del_in_res s0 (obsb_tok x) r) = true) as ->.
    { unfold ob_del_in_res. pose proof (ob_remove1_flag (ob_sub_is s0 (obsb_tok x)) (obrs_subs r)) as Fl.
      destruct (ob_remove1 (ob_sub_is s0 (obsb_tok x)) (obrs_subs r)) as [l b]. cbn [snd] in *. rewrite Fl.
      apply ob_find_some in F. destruct F as [Hin Hp]. apply andb_true_iff in Hp. destruct Hp as [_ Hs].
      destruct (ob_find (ob_sub_is s0 (obsb_tok x)) (obrs_subs r)) eqn:F2; [reflexivity|].
      pose proof (ob_find_none _ _ F2 x Hin) as Hn. unfold ob_sub_is in Hn.
      rewrite Hs, ob_bytes_eqb_refl in Hn. discriminate. }
    cbn [andb]. lia.
  - specialize (IH s). destruct (ob_rst_by_last s0 k rs) as [tl' b]. cbn [fst snd] in *.
    rewrite !ob_count_sess_cons, IH. lia.
Qed.

Lemma ob_count_lost : forall s0 rs s,
  ob_count_sess s (map (ob_lost_res s0) rs) = if s0 =? s then 0 else ob_count_sess s rs.
Proof.
  intros s0. induction rs as [|r rs IH]; intro s; cbn [map]; [destruct (s0 =? s); reflexivity|].
  rewrite !ob_count_sess_cons, IH.
  assert (ob_cnt s (obrs_subs (ob_lost_res s0 r)) = if s0 =? s then 0 else ob_cnt s (obrs_subs r)).
  { unfold ob_lost_res, ob_set_subs, ob_cnt. cbn [obrs_subs].
    induction (obrs_subs r) as [|x l IHl]; cbn [filter]; [destruct (s0 =? s); reflexivity|].
    destruct (obsb_sess x =? s0) eqn:E1; cbn [negb filter].
    - destruct (obsb_sess x =? s) eqn:E2.
      + apply Z.eqb_eq in E1, E2. assert (s0 =? s = true) as E3 by (apply Z.eqb_eq; lia).
        rewrite E3 in *. assumption.
      + assumption.
    - destruct (obsb_sess x =? s) eqn:E2; cbn [length].
      + apply Z.eqb_eq in E2. assert (s0 =? s = false) as E3 by (apply Z.eqb_neq; apply Z.eqb_neq in E1; lia).
        rewrite E3 in *. lia.
      + assumption. }
  rewrite H. destruct (s0 =? s); lia.
Qed.

(* the notify loop releases one reference per observer it removes (error answers) *)
Lemma ob_notify_subs_refs : forall p r subs l subs' pd l' outs s,
  ob_notify_subs p r subs l = (subs', pd, l', outs) ->
  ob_ca_get (oblp_ref l') s - ob_cnt s subs' = ob_ca_get (oblp_ref l) s - ob_cnt s subs.
Proof.
  intros p r. induction subs as [|x tl IH]; intros l subs' pd l' outs s H; cbn [ob_notify_subs] in H.
  - inversion H; subst. reflexivity.
  - destruct (negb (obrs_dirty r) && negb (obsb_dirty x)).
    { destruct (ob_notify_subs p r tl (ob_lp_pend l)) as [[[tl' pd0] l0] outs0] eqn:E.
      inversion H; subst. rewrite !ob_cnt_cons. specialize (IH _ _ _ _ _ s E). cbn in IH. lia. }
    destruct (ob_blocked p (obrs_mode r) (oblp_ca l) x).
    { destruct (ob_notify_subs p r tl (ob_lp_pend l)) as [[[tl' pd0] l0] outs0] eqn:E.
      inversion H; subst. rewrite !ob_cnt_cons. cbn [obsb_sess]. specialize (IH _ _ _ _ _ s E). cbn in IH. lia. }
    destruct (ob_in_transfer (oblp_ca l) (obsb_sess x)).
    { destruct (ob_notify_subs p r tl (ob_lp_pend l)) as [[[tl' pd0] l0] outs0] eqn:E.
      inversion H; subst. rewrite !ob_cnt_cons. cbn [obsb_sess]. specialize (IH _ _ _ _ _ s E). cbn in IH. lia. }
    destruct (obrs_err r).
    { match type of H with context [ob_notify_subs p r tl ?L] =>
        destruct (ob_notify_subs p r tl L) as [[[tl' pd0] l0] outs0] eqn:E end.
      inversion H; subst. rewrite ob_cnt_cons. specialize (IH _ _ _ _ _ s E).
      unfold ob_lp_release, ob_lp_sent in IH. cbn [oblp_ref] in IH. rewrite ob_ref_get_add in IH.
      destruct (obsb_sess x =? s) eqn:E1; [apply Z.eqb_eq in E1; rewrite E1 in IH|]; lia. }
    match type of H with context [ob_notify_subs p r tl ?L] =>
      destruct (ob_notify_subs p r tl L) as [[[tl' pd0] l0] outs0] eqn:E end.
    inversion H; subst. rewrite !ob_cnt_cons. cbn [obsb_sess]. specialize (IH _ _ _ _ _ s E).
    unfold ob_lp_sent in IH. cbn [oblp_ref] in IH. lia.
Qed.

Lemma ob_notify_all_refs : forall p rs l rs' l' outs s,
  ob_notify_all p rs l = (rs', l', outs) ->
  ob_ca_get (oblp_ref l') s - ob_count_sess s rs' = ob_ca_get (oblp_ref l) s - ob_count_sess s rs.
Proof.
  intros p. induction rs as [|r rs IH]; intros l rs' l' outs s H; cbn [ob_notify_all] in H.
  - inversion H; subst. reflexivity.
  - destruct (ob_notify_res p r l) as [[r1 l1] o1] eqn:E1.
    destruct (ob_notify_all p rs l1) as [[tl' l2] o2] eqn:E2. inversion H; subst.
    rewrite !ob_count_sess_cons. specialize (IH _ _ _ _ s E2).
    assert (ob_ca_get (oblp_ref l1) s - ob_cnt s (obrs_subs r1) = ob_ca_get (oblp_ref l) s - ob_cnt s (obrs_subs r)).
    { unfold ob_notify_res in E1. destruct (obrs_dirty r || obrs_pdirty r).
      - destruct (ob_notify_subs p r (obrs_subs r) l) as [[[subs' pd] l0] outs0] eqn:E.
        inversion E1; subst. cbn [obrs_subs]. eapply ob_notify_subs_refs. eassumption.
      - inversion E1; subst. reflexivity. }
    lia.
Qed.

Lemma ob_gone_subs_refs : forall p r ca subs rf s,
  ob_ca_get (snd (ob_gone_subs p r ca subs rf)) s = ob_ca_get rf s - ob_cnt s subs.
Proof.
  intros p r ca. induction subs as [|x tl IH]; intros rf s; cbn [ob_gone_subs]; [cbn; lia|].
  specialize (IH (ob_ref_add rf (obsb_sess x) (-1)) s).
  destruct (ob_gone_subs p r ca tl (ob_ref_add rf (obsb_sess x) (-1))) as [outs rf'].
  cbn [snd] in *. assert (ob_ca_get rf' s = ob_ca_get rf s - ob_cnt s (x :: tl)).
  { rewrite IH, ob_ref_get_add, ob_cnt_cons.
    destruct (obsb_sess x =? s) eqn:E1; [apply Z.eqb_eq in E1; rewrite E1|]; lia. }
  destruct (ob_blocked p (obrs_mode r) ca x || ob_in_transfer ca (obsb_sess x)); cbn [snd]; assumption.
Qed.

Lemma ob_step_refs : forall p st op, ob_refs_ok st -> ob_refs_ok (fst (ob_step p st op)).
Proof.
  intros p st op H s. specialize (H s). destruct op; cbn [ob_step fst].
  - (* register *)
    unfold ob_register. destruct (ob_get_res r (obst_res st)) as [res|] eqn:G; [|exact H].
    pose proof (ob_add_observer_cnt s0 t o (obrs_subs res) s) as A.
    destruct (ob_add_observer s0 t o (obrs_subs res)) as [l d]. cbn [fst snd] in A.
    assert (C1 : ob_count_sess s (ob_touch s0 t (ob_upd_res r (fun x => ob_set_subs x l) (obst_res st))) =
                 ob_count_sess s (obst_res st) + (if s0 =? s then d else 0)).
    { rewrite ob_count_touch, (ob_count_upd s r _ _ res G). cbn [obrs_subs ob_set_subs]. lia. }
    destruct (obrs_err res); cbn [fst obst_ref obst_res].
    + set (rs2 := ob_touch s0 t (ob_upd_res r (fun x => ob_set_subs x l) (obst_res st))) in *.
      rewrite !ob_ref_get_add. destruct (ob_get_res r rs2) as [x2|] eqn:G2.
      * rewrite (ob_count_upd s r _ _ x2 G2), ob_del_in_res_cnt, C1.
        destruct (snd (ob_del_in_res s0 t x2)); destruct (s0 =? s) eqn:E1; cbn [andb];
          try (apply Z.eqb_eq in E1; subst s0); rewrite ?Z.eqb_refl; lia.
      * rewrite (ob_upd_res_none _ _ _ G2), C1. destruct (s0 =? s) eqn:E1; [apply Z.eqb_eq in E1; subst s0|]; rewrite ?Z.eqb_refl; lia.
    + rewrite ob_ref_get_add, C1. destruct (s0 =? s) eqn:E1; [apply Z.eqb_eq in E1; subst s0|]; rewrite ?Z.eqb_refl; lia.
  - (* cancel *)
    unfold ob_cancel. destruct (ob_get_res r (obst_res st)) as [res|] eqn:G; [|exact H].
    assert (A : ob_cnt s (fst (ob_cancel_subs s0 t o (obrs_subs res))) =
                ob_cnt s (obrs_subs res) -
                (if snd (ob_cancel_subs s0 t o (obrs_subs res)) && (s0 =? s) then 1 else 0)).
    { unfold ob_cancel_subs. destruct (ob_find (ob_sub_is s0 t) (obrs_subs res)); [apply ob_cnt_remove1|].
      destruct (ob_find (ob_sub_keyis s0 (ob_key o)) (obrs_subs res)); [apply ob_cnt_remove1 | cbn; lia]. }
    destruct (ob_cancel_subs s0 t o (obrs_subs res)) as [l b]. cbn [fst snd obst_ref obst_res] in *.
    rewrite (ob_count_upd s r _ _ res G). cbn [obrs_subs ob_set_subs]. rewrite A.
    destruct b; [rewrite ob_ref_get_add|]; destruct (s0 =? s) eqn:E1; cbn [andb];
      try (apply Z.eqb_eq in E1; subst s0); rewrite ?Z.eqb_refl; lia.
  - (* change *)
    unfold ob_change. cbn [obst_ref obst_res]. rewrite H.
    destruct (ob_get_res r (obst_res st)) as [x|] eqn:G; [|rewrite (ob_upd_res_none _ _ _ G); reflexivity].
    rewrite (ob_count_upd s r _ _ x G). unfold ob_change_res. destruct (obrs_subs x) eqn:E; [rewrite E|]; cbn [obrs_subs]; lia.
  - (* I/O step *)
    unfold ob_iostep. destruct (obst_pending st); [|exact H].
    destruct (ob_notify_all p (obst_res st) (ob_mk_lp ca false (obst_nk st) (obst_fl st) (obst_ref st)))
      as [[rs l] outs] eqn:E. cbn [fst obst_ref obst_res].
    pose proof (ob_notify_all_refs _ _ _ _ _ _ s E) as R. cbn [oblp_ref] in R. lia.
  - (* ack *)
    unfold ob_ack. destruct (ob_fl_find s0 k (obst_fl st)) as [f|]; [|exact H]. cbn [obst_ref obst_res].
    destruct (obfl_ok f); [rewrite ob_count_touch|]; exact H.
  - (* rst *)
    unfold ob_rst. destruct (ob_fl_find s0 k (obst_fl st)) as [f|].
    + pose proof (ob_del_all_res_cnt s0 (obfl_tok f) (obst_res st) s) as R.
      destruct (ob_del_all_res s0 (obfl_tok f) (obst_res st)) as [rs n]. cbn [fst snd obst_ref obst_res] in *.
      rewrite ob_ref_get_add, R. destruct (s0 =? s) eqn:E1; [apply Z.eqb_eq in E1; subst s0|]; rewrite ?Z.eqb_refl; lia.
    + pose proof (ob_rst_by_last_cnt s0 k (obst_res st) s) as R.
      destruct (ob_rst_by_last s0 k (obst_res st)) as [rs b]. cbn [fst snd obst_ref obst_res] in *.
      rewrite R. destruct b; [rewrite ob_ref_get_add|]; destruct (s0 =? s) eqn:E1; cbn [andb];
        try (apply Z.eqb_eq in E1; subst s0); rewrite ?Z.eqb_refl; lia.
  - (* give-up *)
    unfold ob_confailed. destruct (ob_fl_find s0 k (obst_fl st)) as [f|]; [|exact H].
    pose proof (ob_failed_all_cnt p s0 (obfl_tok f) (obst_res st) s) as R.
    destruct (ob_failed_all p s0 (obfl_tok f) (obst_res st)) as [rs n]. cbn [fst snd obst_ref obst_res] in *.
    rewrite ob_ref_get_add, R. destruct (s0 =? s) eqn:E1; [apply Z.eqb_eq in E1; subst s0|]; rewrite ?Z.eqb_refl; lia.
  - (* handler mode *)
    unfold ob_set_err. cbn [obst_ref obst_res]. rewrite H.
    destruct (ob_get_res r (obst_res st)) as [x|] eqn:G; [|rewrite (ob_upd_res_none _ _ _ G); reflexivity].
    rewrite (ob_count_upd s r _ _ x G). cbn [obrs_subs]. lia.
  - (* session lost *)
    unfold ob_session_lost. cbn [obst_ref obst_res]. rewrite ob_ref_get_add, ob_count_lost, H.
    destruct (s0 =? s) eqn:E; [|reflexivity]. apply Z.eqb_eq in E. subst. lia.
  - (* resource deleted *)
    unfold ob_delete_resource. destruct (ob_get_res r (obst_res st)) as [res|] eqn:G; [|exact H].
    pose proof (ob_gone_subs_refs p res ca (obrs_subs res) (obst_ref st) s) as R.
    destruct (ob_gone_subs p res ca (obrs_subs res) (obst_ref st)) as [outs rf]. cbn [fst snd obst_ref obst_res] in *.
    rewrite R, H. destruct (ob_get_res_split _ _ _ G) as [a [b [E1 [E2 E3]]]]. rewrite E1.
    rewrite (ob_drop_res_split r a res b E2 E3), !ob_count_sess_app, !ob_count_sess_cons.
    unfold ob_fresh_res. cbn [obrs_subs].
    replace (ob_count_sess s []) with 0 by reflexivity. replace (ob_cnt s []) with 0 by reflexivity. lia.
Qed.

Lemma ob_init_refs : forall modes, ob_refs_ok (ob_init modes).
Proof.
  intros modes s. unfold ob_init. cbn [obst_ref obst_res ob_ca_get].
  assert (Hz : forall id, ob_count_sess s (ob_init_res id modes) = 0).
  { induction modes as [|[m v] tl IH]; intro id; cbn [ob_init_res]; [reflexivity|].
    rewrite ob_count_sess_cons. cbn [obrs_subs]. rewrite IH. reflexivity. }
  rewrite Hz. reflexivity.
Qed.

Lemma ob_run_refs : forall p ops st, ob_refs_ok st -> ob_refs_ok (fst (ob_run p st ops)).
Proof.
  intros p. induction ops as [|op tl IH]; intros st H; cbn [ob_run]; [exact H|].
  pose proof (ob_step_refs p st op H) as H1. destruct (ob_step p st op) as [st1 outs]. cbn [fst] in H1.
  specialize (IH st1 H1). destruct (ob_run p st1 tl) as [st2 tr]. exact IH.
Qed.

(* C11: the session stays referenced while it has observers - for every op sequence the
   references held through subscriptions equal the number of the session's subscriptions, in
   particular they are positive while it has one (coap_io_prepare_io frees only sessions with
   ref = 0) *)
Theorem ob_session_pinned : forall p modes ops s st,
  st = fst (ob_run p (ob_init modes) ops) ->
  (ob_ca_get (obst_ref st) s = ob_count_sess s (obst_res st)) /\
  (forall r x, In r (obst_res st) -> In x (obrs_subs r) -> obsb_sess x = s -> 0 < ob_ca_get (obst_ref st) s).
Proof.
  intros p modes ops s st Hst. pose proof (ob_run_refs p ops _ (ob_init_refs modes) s) as H.
  rewrite <- Hst in H. split; [exact H|]. intros r x Hr Hx Hs. rewrite H. clear H Hst.
  induction (obst_res st) as [|r0 rs IH]; [destruct Hr|]. rewrite ob_count_sess_cons.
  destruct Hr as [->|Hr].
  - assert (0 < ob_cnt s (obrs_subs r)).
    { clear - Hx Hs. induction (obrs_subs r) as [|y l IH]; [destruct Hx|]. rewrite ob_cnt_cons.
      pose proof (ob_cnt_nonneg s l). destruct Hx as [->|Hx].
      - rewrite Hs, Z.eqb_refl. lia.
      - specialize (IH Hx). destruct (obsb_sess y =? s); lia. }
    assert (0 <= ob_count_sess s rs).
    { clear. induction rs as [|r1 rs IH]; [unfold ob_count_sess; cbn; lia|].
      rewrite ob_count_sess_cons. pose proof (ob_cnt_nonneg s (obrs_subs r1)). lia. }
    lia.
  - specialize (IH Hr). pose proof (ob_cnt_nonneg s (obrs_subs r0)). lia.
Qed.

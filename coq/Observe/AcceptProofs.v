(* C11 - what acceptance by the acceptor of Accept.v means (soundness), stated over histories.
   Together with SimProofs.ob_model_accepted these are the C11 theorems about the model; the same
   (extracted) acceptor judges the implementation's histories on every run of the check. *)
From LibcoapV Require Import Base.Tactics Observe.Observe Observe.Accept Observe.ObserveProofs.
Local Open Scope Z_scope.

Definition ac_kt (o : ac_obs) : Z * ob_tok := (acao_s o, acao_t o).

Lemma ac_obs_is_kt : forall s t o, ac_obs_is s t o = true <-> ac_kt o = (s, t).
Proof.
  intros s t o. unfold ac_obs_is, ac_kt. rewrite andb_true_iff, Z.eqb_eq, ob_bytes_eqb_eq.
  split; [intros [A B]; subst; reflexivity | intro H; inversion H; auto].
Qed.

Lemma ac_obs_is_false : forall s t o, ac_obs_is s t o = false <-> ac_kt o <> (s, t).
Proof.
  intros s t o. rewrite <- ac_obs_is_kt. destruct (ac_obs_is s t o); split; intro H; congruence.
Qed.

(* ------------------------------------------------------------------ entries *)

Definition ac_find (rs : list ac_res) (r s : Z) (t : ob_tok) : option ac_obs :=
  match ac_get r rs with
  | Some y => ob_find (ac_obs_is s t) (acar_obs y)
  | None => None
  end.

Definition ac_entry (st : ac_state) := ac_find (acas_res st).

Definition ac_reg (st : ac_state) (r s : Z) (t : ob_tok) : bool :=
  match ac_entry st r s t with Some _ => true | None => false end.

Definition ac_res_wf (y : ac_res) : Prop := NoDup (map ac_kt (acar_obs y)).
Definition ac_wf (rs : list ac_res) : Prop := NoDup (map acar_id rs) /\ Forall ac_res_wf rs.

(* ---- lists of observers *)

Lemma find_map_keep : forall (f : ac_obs -> ac_obs) s t l,
  (forall o, ac_kt (f o) = ac_kt o) ->
  ob_find (ac_obs_is s t) (map f l) = option_map f (ob_find (ac_obs_is s t) l).
Proof.
  intros f s t l Hf. induction l as [|o l IH]; cbn [map ob_find option_map]; [reflexivity|].
  assert (E : ac_obs_is s t (f o) = ac_obs_is s t o).
  { destruct (ac_obs_is s t o) eqn:E1.
    - apply ac_obs_is_kt. rewrite Hf. apply ac_obs_is_kt. assumption.
    - apply ac_obs_is_false. rewrite Hf. apply ac_obs_is_false. assumption. }
  rewrite E. destruct (ac_obs_is s t o); [reflexivity | assumption].
Qed.

Lemma nodup_map_keep : forall (f : ac_obs -> ac_obs) l,
  (forall o, ac_kt (f o) = ac_kt o) -> NoDup (map ac_kt l) -> NoDup (map ac_kt (map f l)).
Proof.
  intros f l Hf H. rewrite map_map. rewrite (map_ext _ ac_kt); [assumption | exact Hf].
Qed.

Lemma find_del_same : forall s t l,
  NoDup (map ac_kt l) -> ob_find (ac_obs_is s t) (ac_del s t l) = None.
Proof.
  intros s t l H. apply ob_find_none_iff. intros x Hx. unfold ac_del in Hx.
  exact (ob_remove1_gone ac_kt (ac_obs_is s t) (s, t) l (fun o => ac_obs_is_kt s t o) H x Hx).
Qed.

Lemma find_del_other : forall s t s' t' l,
  (s', t') <> (s, t) ->
  ob_find (ac_obs_is s t) (ac_del s' t' l) = ob_find (ac_obs_is s t) l.
Proof.
  intros s t s' t' l Hne. unfold ac_del. induction l as [|o l IH]; cbn [ob_remove1 ob_find fst];
    [reflexivity|].
  destruct (ac_obs_is s' t' o) eqn:E1.
  - cbn [fst]. destruct (ac_obs_is s t o) eqn:E2; [|reflexivity].
    apply ac_obs_is_kt in E1. apply ac_obs_is_kt in E2. congruence.
  - destruct (ob_remove1 (ac_obs_is s' t') l) as [l' b]. cbn [fst ob_find] in *.
    destruct (ac_obs_is s t o); [reflexivity | assumption].
Qed.

Lemma nodup_del : forall s t l, NoDup (map ac_kt l) -> NoDup (map ac_kt (ac_del s t l)).
Proof. intros s t l H. unfold ac_del. apply ob_remove1_nodup. assumption. Qed.

Lemma find_filter_sess : forall s t s' l,
  ob_find (ac_obs_is s t) (filter (fun o => negb (acao_s o =? s')) l) =
  if s =? s' then None else ob_find (ac_obs_is s t) l.
Proof.
  intros s t s' l. induction l as [|o l IH]; cbn [filter ob_find]; [destruct (s =? s'); reflexivity|].
  destruct (acao_s o =? s') eqn:E1; cbn [negb].
  - rewrite IH. destruct (s =? s') eqn:E2; [reflexivity|].
    assert (ac_obs_is s t o = false) as ->; [|reflexivity].
    unfold ac_obs_is. apply Z.eqb_eq in E1. rewrite E1, Z.eqb_sym, E2. reflexivity.
  - cbn [ob_find]. rewrite IH. destruct (s =? s') eqn:E2; [|reflexivity].
    apply Z.eqb_eq in E2. subst s'. unfold ac_obs_is. rewrite E1. cbn [andb].
    reflexivity.
Qed.

Lemma nodup_filter : forall (f : ac_obs -> bool) l,
  NoDup (map ac_kt l) -> NoDup (map ac_kt (filter f l)).
Proof.
  intros f l. induction l as [|o l IH]; cbn [filter map]; intro H; [constructor|].
  inversion H as [|? ? Hn Hd]; subst. destruct (f o); cbn [map]; [|apply IH; assumption].
  constructor; [|apply IH; assumption]. intro Hin. apply Hn. apply in_map_iff in Hin.
  destruct Hin as [z [Hz Hin]]. apply filter_In in Hin. apply in_map_iff. exists z. tauto.
Qed.

(* ---- resources *)

Lemma ac_get_upd : forall r r' f rs,
  ac_get r (ac_upd r' f rs) =
  if r =? r' then option_map (fun y => ac_mk_ar (acar_id y) (f (acar_obs y))) (ac_get r rs)
  else ac_get r rs.
Proof.
  intros r r' f. induction rs as [|y rs IH]; cbn [ac_upd ac_get]; [destruct (r =? r'); reflexivity|].
  destruct (acar_id y =? r') eqn:E1; cbn [ac_get acar_id].
  - destruct (acar_id y =? r) eqn:E2.
    + assert (r =? r' = true) as -> by (apply Z.eqb_eq; apply Z.eqb_eq in E1, E2; lia). reflexivity.
    + assert (r =? r' = false) as -> by (apply Z.eqb_neq; apply Z.eqb_eq in E1; apply Z.eqb_neq in E2; lia).
      reflexivity.
  - destruct (acar_id y =? r) eqn:E2.
    + assert (r =? r' = false) as -> by (apply Z.eqb_neq; apply Z.eqb_eq in E2; apply Z.eqb_neq in E1; lia).
      reflexivity.
    + exact IH.
Qed.

Lemma ac_get_map : forall r (g : list ac_obs -> list ac_obs) rs,
  ac_get r (map (fun y => ac_mk_ar (acar_id y) (g (acar_obs y))) rs) =
  option_map (fun y => ac_mk_ar (acar_id y) (g (acar_obs y))) (ac_get r rs).
Proof.
  intros r g. induction rs as [|y rs IH]; cbn [map ac_get acar_id option_map]; [reflexivity|].
  destruct (acar_id y =? r); [reflexivity | exact IH].
Qed.

Lemma ac_get_in : forall r rs y, ac_get r rs = Some y -> In y rs /\ acar_id y = r.
Proof.
  induction rs as [|x rs IH]; cbn [ac_get]; intros y H; [discriminate|].
  destruct (acar_id x =? r) eqn:E.
  - inversion H; subst. split; [left; reflexivity | apply Z.eqb_eq; assumption].
  - destruct (IH y H). split; [right|]; assumption.
Qed.

Lemma ac_upd_ids : forall r f rs, map acar_id (ac_upd r f rs) = map acar_id rs.
Proof.
  intros r f. induction rs as [|y rs IH]; cbn [ac_upd map]; [reflexivity|].
  destruct (acar_id y =? r); cbn [map acar_id]; [reflexivity | f_equal; assumption].
Qed.

Lemma ac_upd_wf : forall r f rs,
  (forall l, NoDup (map ac_kt l) -> NoDup (map ac_kt (f l))) -> ac_wf rs -> ac_wf (ac_upd r f rs).
Proof.
  intros r f rs Hf [A B]. split; [rewrite ac_upd_ids; assumption|].
  clear A. induction rs as [|y rs IH]; cbn [ac_upd]; [constructor|]. inversion B; subst.
  destruct (acar_id y =? r); constructor; auto. unfold ac_res_wf. cbn. apply Hf. assumption.
Qed.

Lemma ac_map_wf : forall (g : list ac_obs -> list ac_obs) rs,
  (forall l, NoDup (map ac_kt l) -> NoDup (map ac_kt (g l))) -> ac_wf rs ->
  ac_wf (map (fun y => ac_mk_ar (acar_id y) (g (acar_obs y))) rs).
Proof.
  intros g rs Hg [A B]. split; [rewrite map_map; cbn; assumption|].
  apply Forall_map. eapply Forall_impl; [|exact B]. intros y Hy. unfold ac_res_wf. cbn.
  apply Hg. assumption.
Qed.

Lemma ac_find_upd : forall r s t r' f rs,
  ac_find (ac_upd r' f rs) r s t =
  if r =? r' then match ac_get r rs with
                  | Some y => ob_find (ac_obs_is s t) (f (acar_obs y))
                  | None => None
                  end
  else ac_find rs r s t.
Proof.
  intros r s t r' f rs. unfold ac_find. rewrite ac_get_upd.
  destruct (r =? r'); [|reflexivity]. destruct (ac_get r rs); reflexivity.
Qed.

Lemma ac_find_map : forall r s t (g : list ac_obs -> list ac_obs) rs,
  ac_find (map (fun y => ac_mk_ar (acar_id y) (g (acar_obs y))) rs) r s t =
  match ac_get r rs with
  | Some y => ob_find (ac_obs_is s t) (g (acar_obs y))
  | None => None
  end.
Proof.
  intros r s t g rs. unfold ac_find. rewrite ac_get_map. destruct (ac_get r rs); reflexivity.
Qed.

Lemma ac_wf_get : forall r rs y, ac_wf rs -> ac_get r rs = Some y -> NoDup (map ac_kt (acar_obs y)).
Proof.
  intros r rs y [_ B] H. apply ac_get_in in H. destruct H as [H _].
  rewrite Forall_forall in B. exact (B y H).
Qed.

(* ------------------------------------------------------------------ one output of an I/O step *)

Definition ac_out_key (o : ob_out) : option (Z * Z * ob_tok) :=
  match o with
  | ObNotify _ r s t _ _ => Some (r, s, t)
  | ObErr _ r s t _ => Some (r, s, t)
  | ObGone r s t => Some (r, s, t)
  | ObRegResp _ _ _ _ => None
  end.

Definition ac_cur (o : ac_obs) : Z := (acao_val o + acao_chg o) mod ob_M.

Definition ac_after_notify (o : ac_obs) (v : Z) (con : bool) (k : Z) : ac_obs :=
  ac_mk_ao (acao_s o) (acao_t o) (acao_key o) v 0 false (if con then 0 else acao_run o + 1) k (acao_since o).

Lemma ac_notified_kt : forall s t v run k o, ac_kt (ac_notified s t v run k o) = ac_kt o.
Proof. intros. unfold ac_notified. destruct (ac_obs_is s t o); reflexivity. Qed.

Lemma out_step_other : forall c w out w' r s t,
  ac_out_step c w out = inl w' -> ac_out_key out <> Some (r, s, t) ->
  ac_find (acaw_res w') r s t = ac_find (acaw_res w) r s t.
Proof.
  intros c w out w' r s t H Hk. destruct out as [k r0 s0 t0 v con|k r0 s0 t0 con| |];
    cbn [ac_out_step] in H; try discriminate.
  - destruct (negb (k =? acaw_nk w)); [discriminate|].
    destruct (ac_get r0 (acaw_res w)) as [res|] eqn:G; [|discriminate].
    destruct (ob_find (ac_obs_is s0 t0) (acar_obs res)) as [e|]; [|discriminate].
    destruct (negb (v =? (acao_val e + acao_chg e) mod ob_M)); [discriminate|].
    destruct (negb ((1 <=? acao_chg e) || acao_weak e)); [discriminate|].
    match type of H with (if ?b then _ else _) = _ => destruct b; [discriminate|] end.
    inversion H; subst w'. unfold ac_note. cbn [acaw_res]. rewrite ac_find_upd.
    destruct (r =? r0) eqn:E; [|reflexivity]. apply Z.eqb_eq in E. subst r0.
    unfold ac_find. rewrite G. rewrite find_map_keep by (intro; apply ac_notified_kt).
    destruct (ob_find (ac_obs_is s t) (acar_obs res)) as [o|] eqn:F; [|reflexivity].
    cbn [option_map]. f_equal. unfold ac_notified.
    apply ob_find_some in F. destruct F as [_ F]. apply ac_obs_is_kt in F.
    assert (ac_obs_is s0 t0 o = false) as ->; [|reflexivity].
    apply ac_obs_is_false. rewrite F. intro Heq. inversion Heq; subst. apply Hk. reflexivity.
  - destruct (negb (k =? acaw_nk w)); [discriminate|].
    destruct (ac_get r0 (acaw_res w)) as [res|] eqn:G; [|discriminate].
    destruct (ob_find (ac_obs_is s0 t0) (acar_obs res)) as [e|]; [|discriminate].
    inversion H; subst w'. unfold ac_note. cbn [acaw_res]. rewrite ac_find_upd.
    destruct (r =? r0) eqn:E; [|reflexivity]. apply Z.eqb_eq in E. subst r0.
    unfold ac_find. rewrite G. apply find_del_other. intro Heq. inversion Heq; subst.
    apply Hk. reflexivity.
Qed.

Lemma out_step_notify : forall c w k r s t v con w',
  ac_out_step c w (ObNotify k r s t v con) = inl w' ->
  exists o, ac_find (acaw_res w) r s t = Some o /\ v = ac_cur o /\
            (1 <= acao_chg o \/ acao_weak o = true) /\
            (ac_mode c r <> 2 -> (if con then 0 else acao_run o + 1) <= accf_max_non c) /\
            k = acaw_nk w /\
            ac_find (acaw_res w') r s t = Some (ac_after_notify o v con k).
Proof.
  intros c w k r s t v con w' H. cbn [ac_out_step] in H.
  destruct (k =? acaw_nk w) eqn:Ek; cbn [negb] in H; [|discriminate].
  destruct (ac_get r (acaw_res w)) as [res|] eqn:G; [|discriminate].
  destruct (ob_find (ac_obs_is s t) (acar_obs res)) as [e|] eqn:F; [|discriminate].
  destruct (v =? (acao_val e + acao_chg e) mod ob_M) eqn:Ev; cbn [negb] in H; [|discriminate].
  destruct ((1 <=? acao_chg e) || acao_weak e) eqn:Ec; cbn [negb] in H; [|discriminate].
  destruct (negb (ac_mode c r =? 2) && (accf_max_non c <? (if con then 0 else acao_run e + 1))) eqn:Er;
    [discriminate|].
  inversion H; subst w'. exists e. unfold ac_find at 1. rewrite G.
  split; [assumption|]. split; [apply Z.eqb_eq; assumption|]. split.
  { apply orb_true_iff in Ec. destruct Ec as [Ec|Ec]; [left; apply Z.leb_le; assumption | right; assumption]. }
  split.
  { intro Hm. apply andb_false_iff in Er. destruct Er as [Er|Er].
    - apply negb_false_iff in Er. apply Z.eqb_eq in Er. contradiction.
    - apply Z.ltb_ge in Er. assumption. }
  split; [apply Z.eqb_eq; assumption|].
  unfold ac_note. cbn [acaw_res]. rewrite ac_find_upd, Z.eqb_refl, G.
  rewrite find_map_keep by (intro; apply ac_notified_kt). rewrite F. cbn [option_map]. f_equal.
  unfold ac_notified, ac_after_notify. apply ob_find_some in F. destruct F as [_ F]. rewrite F.
  reflexivity.
Qed.

Lemma out_step_err : forall c w k r s t con w',
  ac_out_step c w (ObErr k r s t con) = inl w' ->
  (exists o, ac_find (acaw_res w) r s t = Some o) /\
  (ac_wf (acaw_res w) -> ac_find (acaw_res w') r s t = None).
Proof.
  intros c w k r s t con w' H. cbn [ac_out_step] in H.
  destruct (negb (k =? acaw_nk w)); [discriminate|].
  destruct (ac_get r (acaw_res w)) as [res|] eqn:G; [|discriminate].
  destruct (ob_find (ac_obs_is s t) (acar_obs res)) as [e|] eqn:F; [|discriminate].
  inversion H; subst w'. split; [exists e; unfold ac_find; rewrite G; assumption|].
  intro Hwf. unfold ac_note. cbn [acaw_res]. rewrite ac_find_upd, Z.eqb_refl, G.
  apply find_del_same. eapply ac_wf_get; eassumption.
Qed.

Lemma out_step_wf : forall c w out w',
  ac_out_step c w out = inl w' -> ac_wf (acaw_res w) -> ac_wf (acaw_res w').
Proof.
  intros c w out w' H Hwf. destruct out as [k r0 s0 t0 v con|k r0 s0 t0 con| |];
    cbn [ac_out_step] in H; try discriminate.
  - destruct (negb (k =? acaw_nk w)); [discriminate|].
    destruct (ac_get r0 (acaw_res w)) as [res|]; [|discriminate].
    destruct (ob_find (ac_obs_is s0 t0) (acar_obs res)) as [e|]; [|discriminate].
    destruct (negb (v =? (acao_val e + acao_chg e) mod ob_M)); [discriminate|].
    destruct (negb ((1 <=? acao_chg e) || acao_weak e)); [discriminate|].
    match type of H with (if ?b then _ else _) = _ => destruct b; [discriminate|] end.
    inversion H; subst w'. unfold ac_note. cbn [acaw_res]. apply ac_upd_wf; [|assumption].
    intros l Hl. apply nodup_map_keep; [intro; apply ac_notified_kt | assumption].
  - destruct (negb (k =? acaw_nk w)); [discriminate|].
    destruct (ac_get r0 (acaw_res w)) as [res|]; [|discriminate].
    destruct (ob_find (ac_obs_is s0 t0) (acar_obs res)) as [e|]; [|discriminate].
    inversion H; subst w'. unfold ac_note. cbn [acaw_res]. apply ac_upd_wf; [|assumption].
    intros l Hl. apply nodup_del. assumption.
Qed.

(* outputs accepted inside a step are notifications or error responses *)
Lemma out_step_kind : forall c w out w',
  ac_out_step c w out = inl w' ->
  (exists k r s t v con, out = ObNotify k r s t v con) \/ (exists k r s t con, out = ObErr k r s t con).
Proof.
  intros c w out w' H. destruct out; cbn [ac_out_step] in H; try discriminate.
  - left. repeat eexists.
  - right. repeat eexists.
Qed.

(* ------------------------------------------------------------------ all outputs of a step *)

Lemma outs_wf : forall c outs w w', ac_outs c w outs = inl w' -> ac_wf (acaw_res w) -> ac_wf (acaw_res w').
Proof.
  intros c. induction outs as [|o outs IH]; intros w w' H Hwf; cbn [ac_outs] in H.
  - inversion H; subst. assumption.
  - destruct (ac_out_step c w o) as [w1|] eqn:E; [|discriminate].
    eapply IH; [eassumption|]. eapply out_step_wf; eassumption.
Qed.

Lemma outs_other : forall c r s t outs w w',
  ac_outs c w outs = inl w' -> (forall o, In o outs -> ac_out_key o <> Some (r, s, t)) ->
  ac_find (acaw_res w') r s t = ac_find (acaw_res w) r s t.
Proof.
  intros c r s t. induction outs as [|o outs IH]; intros w w' H Hk; cbn [ac_outs] in H.
  - inversion H; subst. reflexivity.
  - destruct (ac_out_step c w o) as [w1|] eqn:E; [|discriminate].
    rewrite (IH w1 w' H (fun o' Ho' => Hk o' (or_intror Ho'))).
    eapply out_step_other; [eassumption|]. apply Hk. left. reflexivity.
Qed.

(* entries do not appear during a step *)
Lemma out_step_no_new : forall c w out w' r s t,
  ac_out_step c w out = inl w' -> ac_find (acaw_res w) r s t = None -> ac_find (acaw_res w') r s t = None.
Proof.
  intros c w out w' r s t H Hn.
  destruct (out_step_kind _ _ _ _ H) as [[k [r0 [s0 [t0 [v [con ->]]]]]]|[k [r0 [s0 [t0 [con ->]]]]]].
  - destruct (out_step_notify _ _ _ _ _ _ _ _ _ H) as [o [F _]].
    rewrite (out_step_other _ _ _ _ r s t H); [assumption|]. cbn. intro Heq. inversion Heq; subst.
    congruence.
  - destruct (out_step_err _ _ _ _ _ _ _ _ H) as [[o F] _].
    rewrite (out_step_other _ _ _ _ r s t H); [assumption|]. cbn. intro Heq. inversion Heq; subst.
    congruence.
Qed.

Lemma outs_no_new : forall c r s t outs w w',
  ac_outs c w outs = inl w' -> ac_find (acaw_res w) r s t = None -> ac_find (acaw_res w') r s t = None.
Proof.
  intros c r s t. induction outs as [|o outs IH]; intros w w' H Hn; cbn [ac_outs] in H.
  - inversion H; subst. assumption.
  - destruct (ac_out_step c w o) as [w1|] eqn:E; [|discriminate].
    eapply IH; [eassumption|]. eapply out_step_no_new; eassumption.
Qed.

(* every output of an accepted step goes to an observer registered when the step began *)
Lemma outs_registered : forall c r s t outs w w' o,
  ac_outs c w outs = inl w' -> In o outs -> ac_out_key o = Some (r, s, t) ->
  exists e, ac_find (acaw_res w) r s t = Some e.
Proof.
  intros c r s t. induction outs as [|o0 outs IH]; intros w w' o H Hin Hk; [destruct Hin|].
  cbn [ac_outs] in H. destruct (ac_out_step c w o0) as [w1|] eqn:E; [|discriminate].
  destruct Hin as [->|Hin].
  - destruct (out_step_kind _ _ _ _ E) as [[k [r0 [s0 [t0 [v [con ->]]]]]]|[k [r0 [s0 [t0 [con ->]]]]]];
      cbn in Hk; inversion Hk; subst.
    + destruct (out_step_notify _ _ _ _ _ _ _ _ _ E) as [e [F _]]. exists e. assumption.
    + destruct (out_step_err _ _ _ _ _ _ _ _ E) as [[e F] _]. exists e. assumption.
  - destruct (IH w1 w' o H Hin Hk) as [e He].
    destruct (ac_find (acaw_res w) r s t) as [e0|] eqn:F; [exists e0; reflexivity|].
    rewrite (out_step_no_new _ _ _ _ r s t E F) in He. discriminate.
Qed.

Lemma option_eq_dec_key : forall (x : option (Z * Z * ob_tok)) (k : Z * Z * ob_tok),
  {x = Some k} + {x <> Some k}.
Proof.
  intros x k. decide equality. decide equality; [apply list_eq_dec; apply Z.eq_dec|].
  decide equality; apply Z.eq_dec.
Qed.

Definition ac_no_notify (r s : Z) (t : ob_tok) (outs : list ob_out) : Prop :=
  forall k v con, ~ In (ObNotify k r s t v con) outs.

Lemma outs_none_stays : forall c r s t outs w w',
  ac_outs c w outs = inl w' -> ac_find (acaw_res w) r s t = None ->
  (forall o, In o outs -> ac_out_key o <> Some (r, s, t)) /\ ac_find (acaw_res w') r s t = None.
Proof.
  intros c r s t outs w w' H Hn. split; [|eapply outs_no_new; eassumption].
  intros o Ho Hk. destruct (outs_registered _ _ _ _ _ _ _ _ H Ho Hk) as [e He]. congruence.
Qed.

(* after a notification (acao_chg = 0, acao_weak = false) no second one passes in the same step *)
Lemma outs_after_notify : forall c r s t q outs w w',
  ac_outs c w outs = inl w' -> ac_wf (acaw_res w) ->
  ac_find (acaw_res w) r s t = Some q -> acao_chg q = 0 -> acao_weak q = false ->
  ac_no_notify r s t outs /\
  (ac_find (acaw_res w') r s t = Some q \/ ac_find (acaw_res w') r s t = None).
Proof.
  intros c r s t q. induction outs as [|o outs IH]; intros w w' H Hwf F Hc Hw; cbn [ac_outs] in H.
  - inversion H; subst. split; [intros k v con []| left; assumption].
  - destruct (ac_out_step c w o) as [w1|] eqn:E; [|discriminate].
    pose proof (out_step_wf _ _ _ _ E Hwf) as Hwf1.
    destruct (out_step_kind _ _ _ _ E) as [[k [r0 [s0 [t0 [v [con ->]]]]]]|[k [r0 [s0 [t0 [con ->]]]]]].
    + destruct (Z.eq_dec r0 r) as [->|Hr].
      * destruct (ac_obs_is s t (ac_mk_ao s0 t0 [] 0 0 false 0 0 0)) eqn:Ek.
        -- apply ac_obs_is_kt in Ek. unfold ac_kt in Ek. cbn in Ek. inversion Ek; subst s0 t0.
           destruct (out_step_notify _ _ _ _ _ _ _ _ _ E) as [o' [F' [_ [Hchk _]]]].
           rewrite F in F'. inversion F'; subst o'. destruct Hchk; [lia | congruence].
        -- assert (Hne : ac_out_key (ObNotify k r s0 t0 v con) <> Some (r, s, t)).
           { cbn. intro Heq. inversion Heq; subst.
             assert (ac_obs_is s t (ac_mk_ao s t [] 0 0 false 0 0 0) = true)
               by (apply ac_obs_is_kt; reflexivity). congruence. }
           rewrite <- (out_step_other _ _ _ _ r s t E Hne) in F.
           destruct (IH w1 w' H Hwf1 F Hc Hw) as [I1 I2]. split; [|assumption].
           intros k' v' con' [Heq|Hin]; [|eapply I1; eassumption].
           inversion Heq; subst. apply Hne. reflexivity.
      * assert (Hne : ac_out_key (ObNotify k r0 s0 t0 v con) <> Some (r, s, t)).
        { cbn. intro Heq. inversion Heq; subst. apply Hr. reflexivity. }
        rewrite <- (out_step_other _ _ _ _ r s t E Hne) in F.
        destruct (IH w1 w' H Hwf1 F Hc Hw) as [I1 I2]. split; [|assumption].
        intros k' v' con' [Heq|Hin]; [|eapply I1; eassumption].
        inversion Heq; subst. apply Hr. reflexivity.
    + destruct (ac_find (acaw_res w1) r s t) as [q1|] eqn:F1.
      * (* the error response was for somebody else *)
        assert (Hne : ac_out_key (ObErr k r0 s0 t0 con) <> Some (r, s, t)).
        { cbn. intro Heq. inversion Heq; subst.
          destruct (out_step_err _ _ _ _ _ _ _ _ E) as [_ Hnone]. rewrite (Hnone Hwf) in F1. discriminate. }
        pose proof (out_step_other _ _ _ _ r s t E Hne) as Eq. rewrite F1, F in Eq. inversion Eq; subst q1.
        destruct (IH w1 w' H Hwf1 F1 Hc Hw) as [I1 I2]. split; [|assumption].
        intros k' v' con' [Heq|Hin]; [discriminate | eapply I1; eassumption].
      * destruct (outs_none_stays _ _ _ _ _ _ _ H F1) as [N1 N2]. split; [|right; assumption].
        intros k' v' con' [Heq|Hin]; [discriminate|]. apply (N1 _ Hin). reflexivity.
Qed.

(* what one accepted I/O step does to one registered observer *)
Lemma outs_entry : forall c r s t outs w w' o,
  ac_outs c w outs = inl w' -> ac_wf (acaw_res w) -> ac_find (acaw_res w) r s t = Some o ->
  (ac_no_notify r s t outs /\
   (ac_find (acaw_res w') r s t = Some o \/ ac_find (acaw_res w') r s t = None)) \/
  (exists k v con,
     In (ObNotify k r s t v con) outs /\ v = ac_cur o /\ (1 <= acao_chg o \/ acao_weak o = true) /\
     (ac_mode c r <> 2 -> (if con then 0 else acao_run o + 1) <= accf_max_non c) /\
     (forall k' v' con', In (ObNotify k' r s t v' con') outs -> k' = k /\ v' = v /\ con' = con) /\
     (ac_find (acaw_res w') r s t = Some (ac_after_notify o v con k) \/
      ac_find (acaw_res w') r s t = None)).
Proof.
  intros c r s t. induction outs as [|o0 outs IH]; intros w w' o H Hwf F; cbn [ac_outs] in H.
  - inversion H; subst. left. split; [intros k v con [] | left; assumption].
  - destruct (ac_out_step c w o0) as [w1|] eqn:E; [|discriminate].
    pose proof (out_step_wf _ _ _ _ E Hwf) as Hwf1.
    destruct (option_eq_dec_key (ac_out_key o0) (r, s, t)) as [Hk|Hk].
    + (* this output is for our observer *)
      destruct (out_step_kind _ _ _ _ E) as [[k [r0 [s0 [t0 [v [con ->]]]]]]|[k [r0 [s0 [t0 [con ->]]]]]];
        cbn in Hk; inversion Hk; subst r0 s0 t0.
      * destruct (out_step_notify _ _ _ _ _ _ _ _ _ E) as [o' [F' [Hv [Hchk [Hrun [_ F1]]]]]].
        rewrite F in F'. inversion F'; subst o'.
        destruct (outs_after_notify _ _ _ _ _ _ _ _ H Hwf1 F1 eq_refl eq_refl) as [N1 N2].
        right. exists k, v, con. split; [left; reflexivity|]. split; [assumption|].
        split; [assumption|]. split; [assumption|]. split; [|assumption].
        intros k' v' con' [Heq|Hin]; [inversion Heq; auto | exfalso; eapply N1; eassumption].
      * destruct (out_step_err _ _ _ _ _ _ _ _ E) as [_ Hnone]. specialize (Hnone Hwf).
        destruct (outs_none_stays _ _ _ _ _ _ _ H Hnone) as [N1 N2]. left. split; [|right; assumption].
        intros k' v' con' [Heq|Hin]; [discriminate|]. apply (N1 _ Hin). reflexivity.
    + rewrite <- (out_step_other _ _ _ _ r s t E Hk) in F.
      destruct (IH w1 w' o H Hwf1 F) as [[I1 I2]|[k [v [con [I1 [I2 [I3 [I4 [I5 I6]]]]]]]]].
      * left. split; [|assumption]. intros k' v' con' [Heq|Hin]; [|eapply I1; eassumption].
        subst o0. apply Hk. reflexivity.
      * right. exists k, v, con. split; [right; assumption|]. split; [assumption|].
        split; [assumption|]. split; [assumption|]. split; [|assumption].
        intros k' v' con' [Heq|Hin]; [|apply I5; assumption]. subst o0. exfalso. apply Hk. reflexivity.
Qed.

(* ------------------------------------------------------------------ transformations that only remove *)

Definition ac_shrinks (rs rs' : list ac_res) : Prop :=
  forall r s t o', ac_find rs' r s t = Some o' -> ac_find rs r s t = Some o'.

Lemma find_del_sub : forall s t s' t' l o',
  ob_find (ac_obs_is s t) (ac_del s' t' l) = Some o' -> NoDup (map ac_kt l) ->
  ob_find (ac_obs_is s t) l = Some o' /\ (s', t') <> (s, t).
Proof.
  intros s t s' t' l o' H Hnd.
  assert (Hne : (s', t') <> (s, t)).
  { intro Heq. inversion Heq; subst. rewrite find_del_same in H by assumption. discriminate. }
  split; [|assumption]. rewrite find_del_other in H; assumption.
Qed.

Lemma ac_replace_key_sub : forall s t s' key l o',
  ob_find (ac_obs_is s t) (ac_replace_key s' key l) = Some o' -> NoDup (map ac_kt l) ->
  ob_find (ac_obs_is s t) l = Some o'.
Proof.
  intros s t s' key l o' H Hnd. unfold ac_replace_key in H.
  destruct (ob_find (ac_obs_keyis s' key) l) as [old|]; [|assumption].
  eapply find_del_sub; eassumption.
Qed.

Lemma nodup_replace_key : forall s key l,
  NoDup (map ac_kt l) -> NoDup (map ac_kt (ac_replace_key s key l)).
Proof.
  intros s key l H. unfold ac_replace_key. destruct (ob_find (ac_obs_keyis s key) l); [|assumption].
  apply nodup_del. assumption.
Qed.

Lemma ac_cancel_obs_sub : forall s t s' t' o l o',
  ob_find (ac_obs_is s t) (ac_cancel_obs s' t' o l) = Some o' -> NoDup (map ac_kt l) ->
  ob_find (ac_obs_is s t) l = Some o'.
Proof.
  intros s t s' t' o l o' H Hnd. unfold ac_cancel_obs in H.
  destruct (ob_find (ac_obs_is s' t') l); [eapply find_del_sub | eapply ac_replace_key_sub]; eassumption.
Qed.

Lemma nodup_cancel_obs : forall s t o l,
  NoDup (map ac_kt l) -> NoDup (map ac_kt (ac_cancel_obs s t o l)).
Proof.
  intros s t o l H. unfold ac_cancel_obs. destruct (ob_find (ac_obs_is s t) l);
    [apply nodup_del | apply nodup_replace_key]; assumption.
Qed.

(* shrinking one resource's list *)
Lemma ac_upd_shrinks : forall r' f rs,
  ac_wf rs ->
  (forall l, NoDup (map ac_kt l) -> NoDup (map ac_kt (f l)) /\
             forall s t o', ob_find (ac_obs_is s t) (f l) = Some o' -> ob_find (ac_obs_is s t) l = Some o') ->
  ac_wf (ac_upd r' f rs) /\ ac_shrinks rs (ac_upd r' f rs).
Proof.
  intros r' f rs Hwf Hf. split; [apply ac_upd_wf; [intros l Hl; apply Hf; assumption | assumption]|].
  intros r s t o' H. rewrite ac_find_upd in H. destruct (r =? r'); [|assumption].
  unfold ac_find. destruct (ac_get r rs) as [y|] eqn:G; [|discriminate].
  eapply Hf; [eapply ac_wf_get; eassumption | eassumption].
Qed.

Lemma ac_map_shrinks : forall (g : list ac_obs -> list ac_obs) rs,
  ac_wf rs ->
  (forall l, NoDup (map ac_kt l) -> NoDup (map ac_kt (g l)) /\
             forall s t o', ob_find (ac_obs_is s t) (g l) = Some o' -> ob_find (ac_obs_is s t) l = Some o') ->
  ac_wf (map (fun y => ac_mk_ar (acar_id y) (g (acar_obs y))) rs) /\
  ac_shrinks rs (map (fun y => ac_mk_ar (acar_id y) (g (acar_obs y))) rs).
Proof.
  intros g rs Hwf Hg. split; [apply ac_map_wf; [intros l Hl; apply Hg; assumption | assumption]|].
  intros r s t o' H. rewrite ac_find_map in H. unfold ac_find.
  destruct (ac_get r rs) as [y|] eqn:G; [|discriminate].
  eapply Hg; [eapply ac_wf_get; eassumption | eassumption].
Qed.

Lemma del_shrinks_list : forall s' t' l,
  NoDup (map ac_kt l) -> NoDup (map ac_kt (ac_del s' t' l)) /\
  forall s t o', ob_find (ac_obs_is s t) (ac_del s' t' l) = Some o' -> ob_find (ac_obs_is s t) l = Some o'.
Proof.
  intros s' t' l H. split; [apply nodup_del; assumption|]. intros s t o' F.
  eapply find_del_sub; eassumption.
Qed.

Lemma ac_rst_by_last_shrinks : forall s0 k rs,
  ac_wf rs -> ac_wf (ac_rst_by_last s0 k rs) /\ ac_shrinks rs (ac_rst_by_last s0 k rs).
Proof.
  intros s0 k. induction rs as [|y rs IH]; intros [A B]; cbn [ac_rst_by_last].
  - split; [split; assumption | intros r s t o' H; assumption].
  - inversion A as [|? ? Hn Hd]; subst. inversion B as [|? ? By Brs]; subst.
    destruct (ob_find (fun o => (acao_lastk o =? k) && (acao_s o =? s0)) (acar_obs y)) as [o|].
    + split.
      * split; [cbn [map acar_id]; constructor; assumption|].
        constructor; [unfold ac_res_wf; cbn; apply nodup_del; assumption | assumption].
      * intros r s t o' H. unfold ac_find in *. cbn [ac_get acar_id] in *.
        destruct (acar_id y =? r); [|assumption]. cbn [acar_obs] in H.
        eapply find_del_sub; eassumption.
    + destruct (IH (conj Hd Brs)) as [[I1 I2] I3]. split.
      * split; [cbn [map]; constructor; [|assumption]|constructor; assumption].
        assert (Hids : map acar_id (ac_rst_by_last s0 k rs) = map acar_id rs).
        { clear. induction rs as [|z rs IH]; cbn [ac_rst_by_last map]; [reflexivity|].
          destruct (ob_find (fun o => (acao_lastk o =? k) && (acao_s o =? s0)) (acar_obs z));
            cbn [map acar_id]; [reflexivity | f_equal; assumption]. }
        rewrite Hids. assumption.
      * intros r s t o' H. unfold ac_find in *. cbn [ac_get] in *.
        destruct (acar_id y =? r); [assumption|]. apply (I3 r s t o'). exact H.
Qed.

Lemma ac_get_drop_other : forall r r' rs,
  r <> r' -> ac_get r (ac_drop r' rs ++ [ac_mk_ar r' []]) = ac_get r rs.
Proof.
  intros r r' rs Hne. induction rs as [|y rs IH]; cbn [ac_drop app ac_get acar_id].
  - assert (r' =? r = false) as -> by (apply Z.eqb_neq; lia). reflexivity.
  - destruct (acar_id y =? r') eqn:E1.
    + assert (acar_id y =? r = false) as -> by (apply Z.eqb_neq; apply Z.eqb_eq in E1; lia).
      clear IH. induction rs as [|z rs IH]; cbn [app ac_get acar_id].
      * assert (r' =? r = false) as -> by (apply Z.eqb_neq; lia). reflexivity.
      * destruct (acar_id z =? r); [reflexivity | assumption].
    + cbn [app ac_get]. destruct (acar_id y =? r); [reflexivity | assumption].
Qed.

Lemma ac_get_app_notin : forall r rs,
  ~ In r (map acar_id rs) -> ac_get r (rs ++ [ac_mk_ar r []]) = Some (ac_mk_ar r []).
Proof.
  intros r. induction rs as [|z rs IH]; intro Hn; cbn [app ac_get acar_id].
  - rewrite Z.eqb_refl. reflexivity.
  - cbn [map] in Hn. destruct (acar_id z =? r) eqn:E2.
    + exfalso. apply Hn. left. apply Z.eqb_eq. assumption.
    + apply IH. intro Hin. apply Hn. right. assumption.
Qed.

Lemma ac_get_drop_same : forall r rs,
  NoDup (map acar_id rs) -> ac_get r (ac_drop r rs ++ [ac_mk_ar r []]) = Some (ac_mk_ar r []).
Proof.
  intros r. induction rs as [|y rs IH]; intro H; cbn [ac_drop app ac_get acar_id].
  - rewrite Z.eqb_refl. reflexivity.
  - inversion H as [|? ? Hn Hd]; subst. destruct (acar_id y =? r) eqn:E1.
    + apply Z.eqb_eq in E1. subst r. apply ac_get_app_notin. assumption.
    + cbn [app ac_get]. rewrite E1. apply IH. assumption.
Qed.

Lemma ac_drop_ids : forall r rs, NoDup (map acar_id rs) -> ac_get r rs <> None ->
  NoDup (map acar_id (ac_drop r rs ++ [ac_mk_ar r []])).
Proof.
  intros r. induction rs as [|y rs IH]; intros H G; cbn [ac_get] in G; [congruence|].
  cbn [ac_drop]. inversion H as [|? ? Hn Hd]; subst. destruct (acar_id y =? r) eqn:E1.
  - apply Z.eqb_eq in E1. subst r. rewrite map_app. cbn [map acar_id].
    clear IH G. revert Hn Hd. generalize (map acar_id rs) as l. generalize (acar_id y) as z.
    induction l as [|h l IH]; intros Hn Hd; cbn [app].
    + constructor; [intros [] | constructor].
    + inversion Hd; subst. constructor.
      * intro Hin. apply in_app_iff in Hin. destruct Hin as [Hin|[<-|[]]]; [contradiction|].
        apply Hn. left. reflexivity.
      * apply IH; [intro Hz; apply Hn; right; assumption | assumption].
  - cbn [app map]. constructor; [|apply IH; assumption].
    intro Hin. rewrite map_app in Hin. apply in_app_iff in Hin. cbn [map acar_id] in Hin.
    destruct Hin as [Hin|[Hin|[]]].
    + apply Hn. clear - Hin. induction rs as [|z rs IH]; cbn [ac_drop map] in *; [destruct Hin|].
      destruct (acar_id z =? r); [right; assumption|]. cbn [map] in Hin.
      destruct Hin as [<-|Hin]; [left; reflexivity | right; apply IH; assumption].
    + apply Z.eqb_neq in E1. congruence.
Qed.

Lemma ac_drop_forall : forall (P : ac_res -> Prop) r rs, Forall P rs -> Forall P (ac_drop r rs).
Proof.
  intros P r. induction rs as [|y rs IH]; intro H; cbn [ac_drop]; [constructor|].
  inversion H; subst. destruct (acar_id y =? r); [assumption | constructor; auto].
Qed.

(* ------------------------------------------------------------------ one entry of the history *)

Definition ac_is_change (op : ob_op) (r : Z) : bool :=
  match op with ObOpChange r' => r' =? r | _ => false end.

Definition ac_msg_free (op : ob_op) (outs : list ob_out) (r s : Z) (t : ob_tok) : Prop :=
  ac_no_notify r s t outs /\
  (forall o v, (op, outs) <> (ObOpRegister r s t o, [ObRegResp r s t (Some v)])).

Definition ac_refreshed (o : ac_obs) (v : Z) : ac_obs :=
  ac_mk_ao (acao_s o) (acao_t o) (acao_key o) v 0 true (acao_run o) (acao_lastk o) (acao_since o).

Lemma ac_quiet_inv : forall outs st st', ac_quiet outs st = AcOk st' -> outs = [] /\ st' = st.
Proof. intros outs st st' H. destruct outs; cbn in H; [inversion H; auto | discriminate]. Qed.

Lemma ac_upd_wf_at : forall r f rs res,
  ac_wf rs -> ac_get r rs = Some res -> NoDup (map ac_kt (f (acar_obs res))) -> ac_wf (ac_upd r f rs).
Proof.
  intros r f rs res [A B] G Hf. split; [rewrite ac_upd_ids; assumption|]. clear A.
  revert G. induction rs as [|y rs IH]; intro G; cbn [ac_upd]; [constructor|].
  inversion B; subst. cbn [ac_get] in G. destruct (acar_id y =? r).
  - inversion G; subst y. constructor; [exact Hf | assumption].
  - constructor; [assumption | apply IH; assumption].
Qed.

Lemma ac_step_wf : forall c st e st',
  ac_wf (acas_res st) -> ac_step c st e = AcOk st' -> ac_wf (acas_res st').
Proof.
  intros c st [op outs] st' Hwf H. destruct op; cbn [ac_step] in H.
  - (* register *)
    unfold ac_register in H. destruct (ac_get r (acas_res st)) as [res|] eqn:G.
    2:{ destruct outs; [inversion H; subst; assumption | discriminate]. }
    destruct outs as [|o1 [|o2 outs]]; [discriminate | | destruct o1; discriminate].
    destruct o1; try discriminate.
    destruct ((r0 =? r) && (s0 =? s) && ob_bytes_eqb t0 t); [|discriminate].
    pose proof (ac_wf_get _ _ _ Hwf G) as Hnd.
    destruct (ob_find (ac_obs_is s t) (acar_obs res)) as [o1|] eqn:F.
    + destruct v as [v0|].
      * destruct (v0 =? (acao_val o1 + acao_chg o1) mod ob_M); [|discriminate]. inversion H; subst st'.
        cbn. apply ac_upd_wf; [|assumption]. intros l Hl. apply nodup_map_keep; [|assumption].
        intro x. unfold ac_refresh. destruct (ac_obs_is s t x); reflexivity.
      * inversion H; subst st'. cbn. apply ac_upd_wf; [|assumption]. intros l Hl. apply nodup_del. assumption.
    + destruct v as [v0|].
      * destruct ((0 <=? v0) && (v0 <? ob_M)); [|discriminate]. inversion H; subst st'. cbn.
        eapply ac_upd_wf_at; [assumption | eassumption|]. cbn [map].
        constructor; [|apply nodup_replace_key; assumption].
        intro Hin. apply in_map_iff in Hin. destruct Hin as [z [Hz Hin]].
        destruct (ob_find (ac_obs_is s t) (ac_replace_key s (ob_key o) (acar_obs res))) as [q|] eqn:Fq.
        -- rewrite (ac_replace_key_sub _ _ _ _ _ _ Fq Hnd) in F. discriminate.
        -- pose proof (ob_find_none _ _ Fq z Hin) as Hf.
           assert (ac_obs_is s t z = true) by (apply ac_obs_is_kt; exact Hz). congruence.
      * inversion H; subst st'. cbn. apply ac_upd_wf; [|assumption].
        intros l Hl. apply nodup_replace_key. assumption.
  - apply ac_quiet_inv in H. destruct H as [_ ->]. cbn. apply ac_upd_wf; [|assumption].
    intros l Hl. apply nodup_cancel_obs. assumption.
  - apply ac_quiet_inv in H. destruct H as [_ ->]. cbn. apply ac_upd_wf; [|assumption].
    intros l Hl. apply nodup_map_keep; [intro; reflexivity | assumption].
  - unfold ac_iostep in H.
    destruct (ac_outs c (ac_mk_aw (acas_res st) (acas_fl st) (acas_nk st) (acas_sent st) ca) outs) as [w|] eqn:E;
      [|discriminate].
    destruct (ac_all_settled c (acaw_cnt w) (acaw_res w)); [|discriminate]. inversion H; subst st'. cbn.
    eapply outs_wf; [eassumption | assumption].
  - apply ac_quiet_inv in H. destruct H as [_ ->]. assumption.
  - apply ac_quiet_inv in H. destruct H as [_ ->]. unfold ac_rst.
    set (st1 := match ob_fl_find s k (acas_fl st) with
                | Some f => _ | None => _ end).
    assert (W1 : ac_wf (acas_res st1)).
    { subst st1. destruct (ob_fl_find s k (acas_fl st)) as [f|]; cbn.
      - apply ac_map_wf; [|assumption]. intros l Hl. apply nodup_del. assumption.
      - apply ac_rst_by_last_shrinks. assumption. }
    destruct (accf_strict c); [|assumption]. cbn. unfold ac_rst_strict.
    destruct (ac_sent_find k (acas_sent st)) as [n|]; [|assumption].
    destruct (acsn_s n =? s); [|assumption]. apply ac_upd_wf; [|assumption].
    intros l Hl. destruct (ob_find (ac_obs_is s (acsn_t n)) l) as [o|]; [|assumption].
    destruct (acao_since o <=? k); [apply nodup_del|]; assumption.
  - apply ac_quiet_inv in H. destruct H as [_ ->]. unfold ac_confailed.
    destruct (ob_fl_find s k (acas_fl st)) as [f|]; [|assumption]. cbn.
    apply ac_map_wf; [|assumption]. intros l Hl. apply nodup_del. assumption.
  - apply ac_quiet_inv in H. destruct H as [_ ->]. assumption.
  - apply ac_quiet_inv in H. destruct H as [_ ->]. unfold ac_lost. cbn.
    apply ac_map_wf; [|assumption]. intros l Hl. apply nodup_filter. assumption.
  - unfold ac_delete in H. destruct (ac_get r (acas_res st)) as [res|] eqn:G.
    2:{ destruct outs; [inversion H; subst; assumption | discriminate]. }
    destruct (ac_gone_ok r (acar_obs res) outs); [|discriminate]. inversion H; subst st'. cbn.
    destruct Hwf as [A B]. split; [apply ac_drop_ids; [assumption | congruence]|].
    apply Forall_app. split; [apply ac_drop_forall; assumption|].
    constructor; [unfold ac_res_wf; cbn; constructor | constructor].
Qed.

Lemma find_cons_new : forall s t s0 t0 key v nk l,
  ob_find (ac_obs_is s t) (ac_mk_ao s0 t0 key v 0 true 0 (-1) nk :: l) =
  if ac_obs_is s t (ac_mk_ao s0 t0 key v 0 true 0 (-1) nk)
  then Some (ac_mk_ao s0 t0 key v 0 true 0 (-1) nk) else ob_find (ac_obs_is s t) l.
Proof. reflexivity. Qed.

(* what one accepted entry of the history does to one observer that is registered afterwards *)
Lemma ac_step_entry : forall c st op outs st' r s t o',
  ac_wf (acas_res st) -> ac_step c st (op, outs) = AcOk st' -> ac_entry st' r s t = Some o' ->
  (* it was there and nothing was said to it *)
  (exists o, ac_entry st r s t = Some o /\ ac_msg_free op outs r s t /\
             o' = if ac_is_change op r then ac_bump o else o) \/
  (* it was notified (exactly once) *)
  (exists o ca k v con,
     op = ObOpIoStep ca /\ ac_entry st r s t = Some o /\ In (ObNotify k r s t v con) outs /\
     v = ac_cur o /\ (1 <= acao_chg o \/ acao_weak o = true) /\
     (ac_mode c r <> 2 -> (if con then 0 else acao_run o + 1) <= accf_max_non c) /\
     (forall k' v' con', In (ObNotify k' r s t v' con') outs -> k' = k /\ v' = v /\ con' = con) /\
     o' = ac_after_notify o v con k) \/
  (* its registration was refreshed (same token) *)
  (exists o opts v,
     op = ObOpRegister r s t opts /\ outs = [ObRegResp r s t (Some v)] /\
     ac_entry st r s t = Some o /\ v = ac_cur o /\ o' = ac_refreshed o v) \/
  (* it was created *)
  (exists opts v,
     op = ObOpRegister r s t opts /\ outs = [ObRegResp r s t (Some v)] /\
     ac_entry st r s t = None /\ 0 <= v < ob_M /\
     o' = ac_mk_ao s t (ob_key opts) v 0 true 0 (-1) (acas_nk st)).
Proof.
  intros c st op outs st' r s t o' Hwf H He.
  (* removal-only ops: the entry is the old one *)
  assert (Hshrink : forall rs', acas_res st' = rs' -> ac_shrinks (acas_res st) rs' ->
            outs = [] -> ac_is_change op r = false -> (forall o, op <> ObOpRegister r s t o) ->
            exists o, ac_entry st r s t = Some o /\ ac_msg_free op [] r s t /\
                      o' = if ac_is_change op r then ac_bump o else o).
  { intros rs' E Hs Ho Hc Hr. exists o'. unfold ac_entry in *. rewrite E in He.
    split; [apply Hs; assumption|]. rewrite Hc. split; [|reflexivity].
    split; [intros k v con [] | intros o v Heq; inversion Heq; subst; eapply Hr; reflexivity]. }
  destruct op; cbn [ac_step] in H.
  - (* register *)
    unfold ac_register in H. destruct (ac_get r0 (acas_res st)) as [res|] eqn:G.
    { destruct outs as [|o1 [|o2 outs]]; [discriminate | | destruct o1; discriminate].
      destruct o1; try discriminate.
      destruct ((r1 =? r0) && (s1 =? s0) && ob_bytes_eqb t1 t0) eqn:Eid; [|discriminate].
      apply andb_true_iff in Eid. destruct Eid as [Eid E3]. apply andb_true_iff in Eid.
      destruct Eid as [E1 E2]. apply Z.eqb_eq in E1, E2. apply ob_bytes_eqb_eq in E3. subst r1 s1 t1.
      pose proof (ac_wf_get _ _ _ Hwf G) as Hnd.
      assert (Hfree : (r0, s0, t0) <> (r, s, t) -> forall v0,
                ac_msg_free (ObOpRegister r0 s0 t0 o) [ObRegResp r0 s0 t0 v0] r s t).
      { intros Hne v0. split.
        - intros k v' con [Heq|[]]. discriminate.
        - intros o1 v1 Heq. inversion Heq; subst. apply Hne. reflexivity. }
      destruct (ob_find (ac_obs_is s0 t0) (acar_obs res)) as [o1|] eqn:F.
      - destruct v as [v0|].
        + destruct (v0 =? (acao_val o1 + acao_chg o1) mod ob_M) eqn:Ev; [|discriminate].
          apply Z.eqb_eq in Ev. inversion H; subst st'. unfold ac_entry in *. cbn [acas_res ac_set_res] in He.
          rewrite ac_find_upd in He. destruct (r =? r0) eqn:Er.
          * apply Z.eqb_eq in Er. subst r0. rewrite G in He.
            rewrite find_map_keep in He
              by (intro x; unfold ac_refresh; destruct (ac_obs_is s0 t0 x); reflexivity).
            destruct (ob_find (ac_obs_is s t) (acar_obs res)) as [q|] eqn:Fq; [|discriminate].
            cbn [option_map] in He. inversion He as [Hq]. unfold ac_refresh.
            destruct (ac_obs_is s0 t0 q) eqn:Eq.
            -- (* the refreshed one is ours *)
               pose proof (ob_find_some _ _ _ Fq) as [_ Fq2]. apply ac_obs_is_kt in Fq2, Eq.
               rewrite Fq2 in Eq. inversion Eq; subst s0 t0. rewrite Fq in F. inversion F; subst o1.
               right. right. left. exists q, o, v0. unfold ac_find. rewrite G.
               repeat split; try assumption; reflexivity.
            -- left. exists q. unfold ac_find. rewrite G. split; [assumption|]. split; [|reflexivity].
               apply Hfree. intro Heq. inversion Heq; subst.
               pose proof (ob_find_some _ _ _ Fq) as [_ Fq2]. congruence.
          * left. exists o'. split; [assumption|]. split; [|reflexivity]. apply Hfree.
            intro Heq. inversion Heq; subst. rewrite Z.eqb_refl in Er. discriminate.
        + inversion H; subst st'. unfold ac_entry in *. cbn [acas_res ac_set_res] in He.
          rewrite ac_find_upd in He. destruct (r =? r0) eqn:Er.
          * apply Z.eqb_eq in Er. subst r0. rewrite G in He.
            destruct (find_del_sub _ _ _ _ _ _ He Hnd) as [Fq Hne]. left. exists o'. unfold ac_find.
            rewrite G. split; [assumption|]. split; [|reflexivity]. apply Hfree.
            intro Heq. inversion Heq; subst. apply Hne. reflexivity.
          * left. exists o'. split; [assumption|]. split; [|reflexivity]. apply Hfree.
            intro Heq. inversion Heq; subst. rewrite Z.eqb_refl in Er. discriminate.
      - destruct v as [v0|].
        + destruct ((0 <=? v0) && (v0 <? ob_M)) eqn:Erange; [|discriminate].
          inversion H; subst st'. unfold ac_entry in *. cbn [acas_res ac_set_res] in He.
          rewrite ac_find_upd in He. destruct (r =? r0) eqn:Er.
          * apply Z.eqb_eq in Er. subst r0. rewrite G in He. rewrite find_cons_new in He.
            destruct (ac_obs_is s t (ac_mk_ao s0 t0 (ob_key o) v0 0 true 0 (-1) (acas_nk st))) eqn:Eq.
            -- apply ac_obs_is_kt in Eq. unfold ac_kt in Eq. cbn in Eq. inversion Eq; subst s0 t0.
               inversion He; subst o'. right. right. right. exists o, v0. unfold ac_find. rewrite G.
               apply andb_true_iff in Erange. destruct Erange as [R1 R2].
               apply Z.leb_le in R1. apply Z.ltb_lt in R2. repeat split; try assumption; reflexivity.
            -- pose proof (ac_replace_key_sub _ _ _ _ _ _ He Hnd) as Fq. left. exists o'.
               unfold ac_find. rewrite G. split; [assumption|]. split; [|reflexivity]. apply Hfree.
               intro Heq. inversion Heq; subst. apply ac_obs_is_false in Eq. apply Eq. reflexivity.
          * left. exists o'. split; [assumption|]. split; [|reflexivity]. apply Hfree.
            intro Heq. inversion Heq; subst. rewrite Z.eqb_refl in Er. discriminate.
        + inversion H; subst st'. unfold ac_entry in *. cbn [acas_res ac_set_res] in He.
          rewrite ac_find_upd in He. destruct (r =? r0) eqn:Er.
          * apply Z.eqb_eq in Er. subst r0. rewrite G in He.
            pose proof (ac_replace_key_sub _ _ _ _ _ _ He Hnd) as Fq. left. exists o'.
            unfold ac_find. rewrite G. split; [assumption|]. split; [|reflexivity]. apply Hfree.
            intro Heq. inversion Heq; subst. rewrite Fq in F. discriminate.
          * left. exists o'. split; [assumption|]. split; [|reflexivity]. apply Hfree.
            intro Heq. inversion Heq; subst. rewrite Z.eqb_refl in Er. discriminate. }
    destruct outs; [|discriminate]. inversion H; subst st'. left. exists o'.
    split; [assumption|]. split; [|reflexivity].
    split; [intros k v con [] | intros o1 v1 Heq; discriminate].
  - (* cancel *)
    apply ac_quiet_inv in H. destruct H as [-> ->]. left.
    apply (Hshrink _ eq_refl); try reflexivity; [|intros; discriminate]. cbn [acas_res ac_set_res].
    apply ac_upd_shrinks; [assumption|]. intros l Hl.
    split; [apply nodup_cancel_obs; assumption|]. intros s1 t1 q Hq. eapply ac_cancel_obs_sub; eassumption.
  - (* change *)
    apply ac_quiet_inv in H. destruct H as [-> ->]. left. unfold ac_entry in *.
    cbn [acas_res ac_set_res] in He. rewrite ac_find_upd in He. cbn [ac_is_change].
    rewrite (Z.eqb_sym r0 r). destruct (r =? r0) eqn:Er.
    + destruct (ac_get r (acas_res st)) as [y|] eqn:G; [|discriminate].
      rewrite find_map_keep in He by (intro; reflexivity).
      destruct (ob_find (ac_obs_is s t) (acar_obs y)) as [q|] eqn:Fq; [|discriminate].
      cbn [option_map] in He. inversion He; subst o'. exists q. unfold ac_find. rewrite G.
      split; [assumption|]. split; [|reflexivity].
      split; [intros k v con [] | intros o1 v1 Heq; discriminate].
    + exists o'. split; [assumption|]. split; [|reflexivity].
      split; [intros k v con [] | intros o1 v1 Heq; discriminate].
  - (* I/O step *)
    unfold ac_iostep in H.
    destruct (ac_outs c (ac_mk_aw (acas_res st) (acas_fl st) (acas_nk st) (acas_sent st) ca) outs) as [w|] eqn:E;
      [|discriminate].
    destruct (ac_all_settled c (acaw_cnt w) (acaw_res w)); [|discriminate]. inversion H; subst st'.
    unfold ac_entry in *. cbn [acas_res] in He.
    destruct (ac_find (acas_res st) r s t) as [q|] eqn:Fq.
    + destruct (outs_entry c r s t outs _ w q E Hwf Fq)
        as [[I1 I2]|[k [v [con [I1 [I2 [I3 [I4 [I5 I6]]]]]]]]].
      * left. exists q. split; [reflexivity|]. cbn [ac_is_change].
        destruct I2 as [I2|I2]; rewrite I2 in He; [|discriminate]. inversion He; subst o'.
        split; [|reflexivity]. split; [assumption | intros o1 v1 Heq; discriminate].
      * right. left. exists q, ca, k, v, con.
        destruct I6 as [I6|I6]; rewrite I6 in He; [|discriminate]. inversion He; subst o'.
        repeat split; try assumption; try reflexivity; apply (I5 _ _ _ H0).
    + rewrite (outs_no_new c r s t outs _ w E Fq) in He. discriminate.
  - apply ac_quiet_inv in H. destruct H as [-> ->]. left.
    apply (Hshrink _ eq_refl); try reflexivity; [|intros; discriminate].
    intros r1 s1 t1 q Hq. exact Hq.
  - (* rst *)
    apply ac_quiet_inv in H. destruct H as [-> ->]. left.
    apply (Hshrink _ eq_refl); try reflexivity; [|intros; discriminate]. unfold ac_rst.
    set (st1 := match ob_fl_find s0 k (acas_fl st) with
                | Some f => _ | None => _ end).
    assert (W1 : ac_wf (acas_res st1) /\ ac_shrinks (acas_res st) (acas_res st1)).
    { subst st1. destruct (ob_fl_find s0 k (acas_fl st)) as [f|]; cbn.
      - apply ac_map_shrinks; [assumption|]. intros l Hl. apply del_shrinks_list. assumption.
      - apply ac_rst_by_last_shrinks. assumption. }
    destruct W1 as [W1 W2]. destruct (accf_strict c); [|assumption]. cbn [acas_res ac_set_res].
    unfold ac_rst_strict. destruct (ac_sent_find k (acas_sent st)) as [n|]; [|assumption].
    destruct (acsn_s n =? s0); [|assumption].
    intros r1 s1 t1 q Hq. apply W2. revert r1 s1 t1 q Hq.
    apply ac_upd_shrinks; [assumption|]. intros l Hl.
    destruct (ob_find (ac_obs_is s0 (acsn_t n)) l) as [o1|]; [|auto].
    destruct (acao_since o1 <=? k); [apply del_shrinks_list; assumption | auto].
  - (* give-up *)
    apply ac_quiet_inv in H. destruct H as [-> ->]. left.
    apply (Hshrink _ eq_refl); try reflexivity; [|intros; discriminate]. unfold ac_confailed.
    destruct (ob_fl_find s0 k (acas_fl st)) as [f|]; [|intros r1 s1 t1 q Hq; exact Hq]. cbn [acas_res].
    apply ac_map_shrinks; [assumption|]. intros l Hl. apply del_shrinks_list. assumption.
  - apply ac_quiet_inv in H. destruct H as [-> ->]. left.
    apply (Hshrink _ eq_refl); try reflexivity; [|intros; discriminate].
    intros r1 s1 t1 q Hq. exact Hq.
  - (* session lost *)
    apply ac_quiet_inv in H. destruct H as [-> ->]. left.
    apply (Hshrink _ eq_refl); try reflexivity; [|intros; discriminate]. unfold ac_lost. cbn [acas_res].
    apply ac_map_shrinks; [assumption|]. intros l Hl. split; [apply nodup_filter; assumption|].
    intros s1 t1 q Hq. rewrite find_filter_sess in Hq. destruct (s1 =? s0); [discriminate | assumption].
  - (* resource deleted *)
    unfold ac_delete in H. destruct (ac_get r0 (acas_res st)) as [res|] eqn:G.
    + destruct (ac_gone_ok r0 (acar_obs res) outs) eqn:GO; [|discriminate]. inversion H; subst st'.
      unfold ac_entry in *. cbn [acas_res ac_set_res] in He. unfold ac_find in He.
      destruct (Z.eq_dec r r0) as [->|Hne].
      * rewrite ac_get_drop_same in He by apply Hwf. cbn in He. discriminate.
      * rewrite ac_get_drop_other in He by assumption. left. exists o'. split; [exact He|].
        split; [|reflexivity]. split; [|intros o1 v1 Heq; discriminate].
        intros k v con Hin. clear - GO Hin. revert GO. induction outs as [|o0 outs IH]; [destruct Hin|].
        cbn [ac_gone_ok]. destruct o0; try discriminate. intro GO.
        destruct Hin as [Heq|Hin]; [discriminate|]. apply andb_true_iff in GO. destruct GO as [_ GO].
        apply IH; assumption.
    + destruct outs; [|discriminate]. inversion H; subst st'. left. exists o'.
      split; [assumption|]. split; [|reflexivity].
      split; [intros k v con [] | intros o1 v1 Heq; discriminate].
Qed.

(* ------------------------------------------------------------------ histories *)

Fixpoint ac_go (c : ac_cfg) (st : ac_state) (tr : list (ob_op * list ob_out)) : option ac_state :=
  match tr with
  | [] => Some st
  | e :: tl => match ac_step c st e with AcOk st' => ac_go c st' tl | AcBad _ => None end
  end.

Lemma ac_run_go : forall c tr st i st', ac_run c st i tr = inl st' <-> ac_go c st tr = Some st'.
Proof.
  intros c. induction tr as [|e tl IH]; intros st i st'; cbn [ac_run ac_go].
  - split; intro H; inversion H; reflexivity.
  - destruct (ac_step c st e); [apply IH|]. split; discriminate.
Qed.

Lemma ac_go_app : forall c t1 t2 st,
  ac_go c st (t1 ++ t2) = match ac_go c st t1 with Some s1 => ac_go c s1 t2 | None => None end.
Proof.
  intros c. induction t1 as [|e tl IH]; intros t2 st; cbn [app ac_go]; [reflexivity|].
  destruct (ac_step c st e); [apply IH | reflexivity].
Qed.

Lemma ac_go_wf : forall c tr st st', ac_wf (acas_res st) -> ac_go c st tr = Some st' -> ac_wf (acas_res st').
Proof.
  intros c. induction tr as [|e tl IH]; intros st st' Hwf H; cbn [ac_go] in H.
  - inversion H; subst. assumption.
  - destruct (ac_step c st e) as [st1|] eqn:E; [|discriminate].
    eapply IH; [|eassumption]. eapply ac_step_wf; eassumption.
Qed.

Lemma ac_init_res_ids : forall modes id y, In y (ac_init_res id modes) -> id <= acar_id y /\ acar_obs y = [].
Proof.
  induction modes as [|m tl IH]; cbn [ac_init_res]; intros id y H; [destruct H|].
  destruct H as [<-|H]; [cbn; split; [lia | reflexivity]|]. apply IH in H. destruct H. split; [lia | assumption].
Qed.

Lemma ac_init_wf : forall c, ac_wf (acas_res (ac_init c)).
Proof.
  intro c. unfold ac_init. cbn [acas_res]. generalize 0 as id. generalize (accf_modes c) as modes.
  induction modes as [|m tl IH]; intro id; cbn [ac_init_res].
  - split; constructor.
  - destruct (IH (id + 1)) as [A B]. split; cbn [map acar_id].
    + constructor; [|assumption]. intro H. apply in_map_iff in H. destruct H as [y [Hy Hin]].
      apply ac_init_res_ids in Hin. lia.
    + constructor; [unfold ac_res_wf; cbn; constructor | assumption].
Qed.

(* ------------------------------------------------------------------ C11: nothing after de-registration *)

Definition ac_registers (e : ob_op * list ob_out) (r s : Z) (t : ob_tok) : Prop :=
  exists o v, e = (ObOpRegister r s t o, [ObRegResp r s t (Some v)]).

(* whatever an accepted entry sends to (r, s, t) - notification, error response, 4.04 - goes to
   an observer that was registered before that entry *)
Lemma ac_step_out_registered : forall c st op outs st' out r s t,
  ac_step c st (op, outs) = AcOk st' -> In out outs -> ac_out_key out = Some (r, s, t) ->
  exists o, ac_entry st r s t = Some o.
Proof.
  intros c st op outs st' out r s t H Hin Hk. destruct op; cbn [ac_step] in H;
    try (apply ac_quiet_inv in H; destruct H as [-> _]; destruct Hin).
  - unfold ac_register in H. destruct (ac_get r0 (acas_res st)).
    + destruct outs as [|o1 [|o2 outs]]; [discriminate | | destruct o1; discriminate].
      destruct o1; try discriminate. destruct Hin as [<-|[]]. discriminate.
    + destruct outs; [destruct Hin | discriminate].
  - unfold ac_iostep in H.
    destruct (ac_outs c (ac_mk_aw (acas_res st) (acas_fl st) (acas_nk st) (acas_sent st) ca) outs) as [w|] eqn:E;
      [|discriminate].
    exact (outs_registered c r s t outs _ w out E Hin Hk).
  - unfold ac_delete in H. destruct (ac_get r0 (acas_res st)) as [res|] eqn:G.
    + destruct (ac_gone_ok r0 (acar_obs res) outs) eqn:GO; [|discriminate].
      clear H. revert GO Hin. induction outs as [|o0 outs IH]; intros GO Hin; [destruct Hin|].
      cbn [ac_gone_ok] in GO. destruct o0; try discriminate.
      apply andb_true_iff in GO. destruct GO as [GO1 GO2]. apply andb_true_iff in GO1.
      destruct GO1 as [Er Ef]. destruct Hin as [<-|Hin]; [|apply IH; assumption].
      cbn in Hk. inversion Hk; subst. apply Z.eqb_eq in Er. subst r0.
      unfold ac_entry, ac_find. rewrite G. destruct (ob_find (ac_obs_is s t) (acar_obs res)) as [q|];
        [exists q; reflexivity | discriminate].
    + destruct outs; [destruct Hin | discriminate].
Qed.

(* an observer appears only through an accepted registration *)
Lemma ac_step_adds : forall c st op outs st' r s t,
  ac_wf (acas_res st) -> ac_step c st (op, outs) = AcOk st' ->
  ac_reg st r s t = false -> ac_reg st' r s t = true -> ac_registers (op, outs) r s t.
Proof.
  intros c st op outs st' r s t Hwf H H0 H1. unfold ac_reg in *.
  destruct (ac_entry st' r s t) as [o'|] eqn:E1; [|discriminate].
  destruct (ac_entry st r s t) as [o|] eqn:E0; [discriminate|].
  destruct (ac_step_entry c st op outs st' r s t o' Hwf H E1)
    as [[q [Q _]]|[[q [ca [k [v [con [_ [Q _]]]]]]]|[[q [opts [v [_ [_ [Q _]]]]]]|[opts [v [A [B _]]]]]]];
    try congruence.
  subst. exists opts, v. reflexivity.
Qed.

(* C11: after (r, s, t) is not registered, nothing is sent to it until it registers again *)
Theorem ac_none_while_unregistered : forall c r s t tr st st',
  ac_wf (acas_res st) -> ac_go c st tr = Some st' -> ac_reg st r s t = false ->
  (forall e, In e tr -> ~ ac_registers e r s t) ->
  (forall e out, In e tr -> In out (snd e) -> ac_out_key out <> Some (r, s, t)) /\
  ac_reg st' r s t = false.
Proof.
  intros c r s t. induction tr as [|[op outs] tl IH]; intros st st' Hwf H H0 Hno; cbn [ac_go] in H.
  - inversion H; subst. split; [intros e out [] | assumption].
  - destruct (ac_step c st (op, outs)) as [st1|] eqn:E; [|discriminate].
    assert (H1 : ac_reg st1 r s t = false).
    { destruct (ac_reg st1 r s t) eqn:R1; [|reflexivity]. exfalso.
      apply (Hno (op, outs) (or_introl eq_refl)). eapply ac_step_adds; eassumption. }
    destruct (IH st1 st' (ac_step_wf _ _ _ _ Hwf E) H H1 (fun e He => Hno e (or_intror He))) as [I1 I2].
    split; [|assumption]. intros e out [<-|He] Hout Hk; [|eapply I1; eassumption].
    cbn [snd] in Hout. destruct (ac_step_out_registered _ _ _ _ _ _ _ _ _ E Hout Hk) as [q Hq].
    unfold ac_reg in H0. rewrite Hq in H0. discriminate.
Qed.

(* ------------------------------------------------------------------ the de-registration events *)

Lemma ac_reg_false : forall st r s t, ac_entry st r s t = None -> ac_reg st r s t = false.
Proof. intros st r s t H. unfold ac_reg. rewrite H. reflexivity. Qed.

(* Observe:1 with the token of the registration *)
Lemma ac_dereg_cancel : forall c st r s t o outs st',
  ac_wf (acas_res st) -> ac_step c st (ObOpCancel r s t o, outs) = AcOk st' -> ac_reg st' r s t = false.
Proof.
  intros c st r s t o outs st' Hwf H. cbn [ac_step] in H. apply ac_quiet_inv in H. destruct H as [_ ->].
  apply ac_reg_false. unfold ac_entry. cbn [acas_res ac_set_res]. rewrite ac_find_upd, Z.eqb_refl.
  destruct (ac_get r (acas_res st)) as [y|] eqn:G; [|reflexivity].
  pose proof (ac_wf_get _ _ _ Hwf G) as Hnd. unfold ac_cancel_obs.
  destruct (ob_find (ac_obs_is s t) (acar_obs y)) as [q|] eqn:F; [apply find_del_same; assumption|].
  destruct (ob_find (ac_obs_is s t) (ac_replace_key s (ob_key o) (acar_obs y))) as [q|] eqn:F2;
    [|reflexivity].
  rewrite (ac_replace_key_sub _ _ _ _ _ _ F2 Hnd) in F. discriminate.
Qed.

(* Observe:1 with another token but the cache key of the registration *)
Lemma ac_dereg_cancel_key : forall c st r s t t' o outs st' q,
  ac_wf (acas_res st) -> ac_step c st (ObOpCancel r s t' o, outs) = AcOk st' ->
  ac_entry st r s t' = None -> ac_entry st r s t = Some q -> acao_key q = ob_key o ->
  (forall q', ac_entry st r s (acao_t q') = Some q' -> acao_key q' = ob_key o -> acao_t q' = t) ->
  ac_reg st' r s t = false.
Proof.
  intros c st r s t t' o outs st' q Hwf H Hnone Hq Hkey Huniq. cbn [ac_step] in H.
  apply ac_quiet_inv in H. destruct H as [_ ->]. apply ac_reg_false. unfold ac_entry in *.
  cbn [acas_res ac_set_res]. rewrite ac_find_upd, Z.eqb_refl. unfold ac_find in *.
  destruct (ac_get r (acas_res st)) as [y|] eqn:G; [|reflexivity].
  pose proof (ac_wf_get _ _ _ Hwf G) as Hnd. unfold ac_cancel_obs. rewrite Hnone. unfold ac_replace_key.
  destruct (ob_find (ac_obs_keyis s (ob_key o)) (acar_obs y)) as [old|] eqn:Fk.
  - assert (acao_t old = t).
    { apply ob_find_some in Fk. destruct Fk as [Hin Hk]. unfold ac_obs_keyis in Hk.
      apply andb_true_iff in Hk. destruct Hk as [Hs Hk]. apply Z.eqb_eq in Hs. apply ob_opts_eqb_eq in Hk.
      apply Huniq; [|assumption].
      (* old is found under its own token *)
      clear - Hin Hnd Hs. induction (acar_obs y) as [|z l IH]; [destruct Hin|]. cbn [ob_find map] in *.
      inversion Hnd as [|? ? Hn Hd]; subst. destruct Hin as [->|Hin].
      - assert (ac_obs_is (acao_s old) (acao_t old) old = true) as -> by (apply ac_obs_is_kt; reflexivity).
        reflexivity.
      - destruct (ac_obs_is (acao_s old) (acao_t old) z) eqn:E; [|apply IH; assumption].
        exfalso. apply Hn. apply ac_obs_is_kt in E. rewrite E. apply (in_map ac_kt) in Hin. exact Hin. }
    subst t. apply find_del_same. assumption.
  - exfalso. pose proof (ob_find_some _ _ _ Hq) as [Hin _].
    pose proof (ob_find_none _ _ Fk q Hin) as Hf. unfold ac_obs_keyis in Hf.
    pose proof (ob_find_some _ _ _ Hq) as [_ Hm]. unfold ac_obs_is in Hm.
    apply andb_true_iff in Hm. destruct Hm as [Hs _]. rewrite Hs, Hkey, ob_opts_eqb_refl in Hf. discriminate.
Qed.

(* an error-class response instead of a notification *)
Lemma ac_dereg_error : forall c st ca outs st' k r s t con,
  ac_wf (acas_res st) -> ac_step c st (ObOpIoStep ca, outs) = AcOk st' ->
  In (ObErr k r s t con) outs -> ac_reg st' r s t = false.
Proof.
  intros c st ca outs st' k r s t con Hwf H Hin. cbn [ac_step] in H. unfold ac_iostep in H.
  destruct (ac_outs c (ac_mk_aw (acas_res st) (acas_fl st) (acas_nk st) (acas_sent st) ca) outs) as [w|] eqn:E;
    [|discriminate].
  destruct (ac_all_settled c (acaw_cnt w) (acaw_res w)); [|discriminate]. inversion H; subst st'.
  apply ac_reg_false. unfold ac_entry. cbn [acas_res].
  (* split the outputs at the error response *)
  apply in_split in Hin. destruct Hin as [o1 [o2 ->]].
  assert (Happ : forall w0 a b, ac_outs c w0 (a ++ b) =
            match ac_outs c w0 a with inl w1 => ac_outs c w1 b | inr e => inr e end).
  { intros w0 a. revert w0. induction a as [|x a IH]; intros w0 b; cbn [app ac_outs]; [reflexivity|].
    destruct (ac_out_step c w0 x); [apply IH | reflexivity]. }
  rewrite Happ in E.
  destruct (ac_outs c (ac_mk_aw (acas_res st) (acas_fl st) (acas_nk st) (acas_sent st) ca) o1) as [w1|] eqn:E1;
    [|discriminate].
  cbn [ac_outs] in E. destruct (ac_out_step c w1 (ObErr k r s t con)) as [w2|] eqn:E2; [|discriminate].
  pose proof (outs_wf _ _ _ _ E1 Hwf) as Hwf1.
  destruct (out_step_err _ _ _ _ _ _ _ _ E2) as [_ Hnone].
  eapply outs_no_new; [eassumption | apply Hnone; assumption].
Qed.

(* the session is lost *)
Lemma ac_dereg_lost : forall c st s outs st' r t,
  ac_step c st (ObOpSessionLost s, outs) = AcOk st' -> ac_reg st' r s t = false.
Proof.
  intros c st s outs st' r t H. cbn [ac_step] in H. apply ac_quiet_inv in H. destruct H as [_ ->].
  apply ac_reg_false. unfold ac_entry, ac_lost. cbn [acas_res]. rewrite ac_find_map.
  destruct (ac_get r (acas_res st)); [|reflexivity]. rewrite find_filter_sess, Z.eqb_refl. reflexivity.
Qed.

(* the resource is deleted *)
Lemma ac_dereg_deleted : forall c st r ca outs st' s t,
  ac_wf (acas_res st) -> ac_step c st (ObOpDeleteResource r ca, outs) = AcOk st' -> ac_reg st' r s t = false.
Proof.
  intros c st r ca outs st' s t Hwf H. cbn [ac_step] in H. unfold ac_delete in H.
  destruct (ac_get r (acas_res st)) as [res|] eqn:G.
  - destruct (ac_gone_ok r (acar_obs res) outs); [|discriminate]. inversion H; subst st'.
    apply ac_reg_false. unfold ac_entry, ac_find. cbn [acas_res ac_set_res].
    rewrite ac_get_drop_same by apply Hwf. reflexivity.
  - destruct outs; [|discriminate]. inversion H; subst st'. apply ac_reg_false.
    unfold ac_entry, ac_find. rewrite G. reflexivity.
Qed.

(* the strict rule can only remove more *)
Lemma ac_rst_strict_shrinks : forall s k st rs,
  ac_wf rs -> ac_wf (ac_rst_strict s k st rs) /\ ac_shrinks rs (ac_rst_strict s k st rs).
Proof.
  intros s k st rs Hwf. unfold ac_rst_strict. destruct (ac_sent_find k (acas_sent st)) as [n|];
    [|split; [assumption | intros r1 s1 t1 q Hq; exact Hq]].
  destruct (acsn_s n =? s); [|split; [assumption | intros r1 s1 t1 q Hq; exact Hq]].
  apply ac_upd_shrinks; [assumption|]. intros l Hl.
  destruct (ob_find (ac_obs_is s (acsn_t n)) l) as [o1|]; [|auto].
  destruct (acao_since o1 <=? k); [apply del_shrinks_list; assumption | auto].
Qed.

(* RST answering a confirmable notification that is still being retransmitted *)
Lemma ac_dereg_rst_inflight : forall c st s k outs st' f r,
  ac_wf (acas_res st) -> ac_step c st (ObOpRst s k, outs) = AcOk st' ->
  ob_fl_find s k (acas_fl st) = Some f -> ac_reg st' r s (obfl_tok f) = false.
Proof.
  intros c st s k outs st' f r Hwf H Hf. cbn [ac_step] in H. apply ac_quiet_inv in H.
  destruct H as [_ ->]. unfold ac_rst. rewrite Hf.
  set (st1 := ac_mk_as (ac_del_everywhere s (obfl_tok f) (acas_res st)) _ _ _).
  assert (W1 : ac_wf (acas_res st1)).
  { subst st1. cbn. apply ac_map_wf; [|assumption]. intros l Hl. apply nodup_del. assumption. }
  assert (N1 : ac_entry st1 r s (obfl_tok f) = None).
  { subst st1. unfold ac_entry, ac_del_everywhere. cbn [acas_res]. rewrite ac_find_map.
    destruct (ac_get r (acas_res st)) as [y|] eqn:G; [|reflexivity].
    apply find_del_same. exact (ac_wf_get _ _ _ Hwf G). }
  destruct (accf_strict c); [|apply ac_reg_false; assumption].
  apply ac_reg_false. unfold ac_entry in *. cbn [acas_res ac_set_res].
  destruct (ac_find (ac_rst_strict s k st (acas_res st1)) r s (obfl_tok f)) as [q|] eqn:F; [|reflexivity].
  destruct (ac_rst_strict_shrinks s k st _ W1) as [_ Hs]. rewrite (Hs _ _ _ _ F) in N1. discriminate.
Qed.

(* RST answering the latest notification of an observer (nothing of it in flight) *)
Lemma ac_dereg_rst_latest : forall c st s k outs st' r t q,
  ac_wf (acas_res st) -> ac_step c st (ObOpRst s k, outs) = AcOk st' ->
  ob_fl_find s k (acas_fl st) = None -> ac_entry st r s t = Some q -> acao_lastk q = k ->
  (forall r' t' q', ac_entry st r' s t' = Some q' -> acao_lastk q' = k -> r' = r /\ t' = t) ->
  ac_reg st' r s t = false.
Proof.
  intros c st s k outs st' r t q Hwf H Hf Hq Hk Huniq. cbn [ac_step] in H. apply ac_quiet_inv in H.
  destruct H as [_ ->]. unfold ac_rst. rewrite Hf.
  assert (N1 : ac_find (ac_rst_by_last s k (acas_res st)) r s t = None).
  { unfold ac_entry in *. revert Hq Huniq. destruct Hwf as [A B]. revert A B.
    induction (acas_res st) as [|y rs IH]; intros A B Hq Huniq; [discriminate|].
    cbn [map] in A. inversion A as [|a0 l0 Hn Hd]; subst a0 l0.
    inversion B as [|a1 l1 By Brs]; subst a1 l1.
    cbn [ac_rst_by_last].
    destruct (ob_find (fun o => (acao_lastk o =? k) && (acao_s o =? s)) (acar_obs y)) as [o1|] eqn:F1.
    - (* the first resource with such an entry: it must be ours *)
      pose proof (ob_find_some _ _ _ F1) as [Hin1 Hp1]. apply andb_true_iff in Hp1.
      destruct Hp1 as [Hl1 Hs1]. apply Z.eqb_eq in Hl1, Hs1.
      assert (Hown : ac_find (y :: rs) (acar_id y) s (acao_t o1) = Some o1).
      { unfold ac_find. cbn [ac_get]. rewrite Z.eqb_refl. clear - Hin1 By Hs1.
        unfold ac_res_wf in By. induction (acar_obs y) as [|z l IH]; [destruct Hin1|].
        cbn [ob_find map] in *. inversion By as [|? ? Hn Hd]; subst. destruct Hin1 as [->|Hin].
        - assert (ac_obs_is (acao_s o1) (acao_t o1) o1 = true) as -> by (apply ac_obs_is_kt; reflexivity).
          reflexivity.
        - destruct (ac_obs_is (acao_s o1) (acao_t o1) z) eqn:E; [|apply IH; assumption].
          exfalso. apply Hn. apply ac_obs_is_kt in E. rewrite E. apply (in_map ac_kt) in Hin. exact Hin. }
      destruct (Huniq _ _ _ Hown Hl1) as [Er Et]. subst r t.
      unfold ac_find. cbn [ac_get acar_id]. rewrite Z.eqb_refl. cbn [acar_obs]. apply find_del_same. assumption.
    - unfold ac_find in *. cbn [ac_get] in *. destruct (acar_id y =? r) eqn:Er.
      + (* ours is in this resource, yet no entry here has lastk = k *)
        exfalso. pose proof (ob_find_some _ _ _ Hq) as [Hin Hm].
        pose proof (ob_find_none _ _ F1 q Hin) as Hf1. cbv beta in Hf1. unfold ac_obs_is in Hm.
        apply andb_true_iff in Hm. destruct Hm as [Hs _]. rewrite Hk, Z.eqb_refl, Hs in Hf1. discriminate.
      + apply IH; try assumption. intros r' t' q' Hq' Hk'. apply (Huniq r' t' q'); [|assumption].
        destruct (acar_id y =? r') eqn:Er'; [|assumption]. exfalso. apply Hn.
        destruct (ac_get r' rs) as [y'|] eqn:G'; [|discriminate]. apply ac_get_in in G'.
        destruct G' as [G1 G2]. apply Z.eqb_eq in Er'. rewrite Er', <- G2. apply in_map. assumption. }
  assert (W1 : ac_wf (ac_rst_by_last s k (acas_res st))) by (apply ac_rst_by_last_shrinks; assumption).
  destruct (accf_strict c); [|apply ac_reg_false; exact N1].
  apply ac_reg_false. unfold ac_entry. cbn [acas_res ac_set_res].
  destruct (ac_find (ac_rst_strict s k st (ac_rst_by_last s k (acas_res st))) r s t) as [q1|] eqn:F;
    [|reflexivity].
  destruct (ac_rst_strict_shrinks s k st _ W1) as [_ Hs]. rewrite (Hs _ _ _ _ F) in N1. discriminate.
Qed.

(* a confirmable notification is given up *)
Lemma ac_dereg_giveup : forall c st s k outs st' f r,
  ac_wf (acas_res st) -> ac_step c st (ObOpConFailed s k, outs) = AcOk st' ->
  ob_fl_find s k (acas_fl st) = Some f -> ac_reg st' r s (obfl_tok f) = false.
Proof.
  intros c st s k outs st' f r Hwf H Hf. cbn [ac_step] in H. apply ac_quiet_inv in H.
  destruct H as [_ ->]. unfold ac_confailed. rewrite Hf. apply ac_reg_false.
  unfold ac_entry, ac_del_everywhere. cbn [acas_res]. rewrite ac_find_map.
  destruct (ac_get r (acas_res st)) as [y|] eqn:G; [|reflexivity].
  apply find_del_same. eapply ac_wf_get; eassumption.
Qed.

(* an error-class answer to the registration request itself *)
Lemma ac_dereg_failed_registration : forall c st r s t o st',
  ac_wf (acas_res st) -> ac_step c st (ObOpRegister r s t o, [ObRegResp r s t None]) = AcOk st' ->
  ac_reg st' r s t = false.
Proof.
  intros c st r s t o st' Hwf H. cbn [ac_step] in H. unfold ac_register in H.
  destruct (ac_get r (acas_res st)) as [res|] eqn:G; [|discriminate].
  rewrite !Z.eqb_refl, ob_bytes_eqb_refl in H. cbn [andb] in H.
  pose proof (ac_wf_get _ _ _ Hwf G) as Hnd. apply ac_reg_false. unfold ac_entry.
  destruct (ob_find (ac_obs_is s t) (acar_obs res)) as [o1|] eqn:F; inversion H; subst st';
    cbn [acas_res ac_set_res]; rewrite ac_find_upd, Z.eqb_refl, G.
  - apply find_del_same. assumption.
  - destruct (ob_find (ac_obs_is s t) (ac_replace_key s (ob_key o) (acar_obs res))) as [q|] eqn:F2;
      [|reflexivity].
    rewrite (ac_replace_key_sub _ _ _ _ _ _ F2 Hnd) in F. discriminate.
Qed.

(* the strict reading of the property: RST for any notification of the current registration *)
Lemma ac_dereg_rst_strict : forall c st s k outs st' n q,
  accf_strict c = true -> ac_wf (acas_res st) -> ac_step c st (ObOpRst s k, outs) = AcOk st' ->
  ac_sent_find k (acas_sent st) = Some n -> acsn_s n = s ->
  ac_entry st (acsn_r n) s (acsn_t n) = Some q -> acao_since q <= k ->
  ac_reg st' (acsn_r n) s (acsn_t n) = false.
Proof.
  intros c st s k outs st' n q Hstrict Hwf H Hn Hs Hq Hsince. cbn [ac_step] in H.
  apply ac_quiet_inv in H. destruct H as [_ ->]. unfold ac_rst. rewrite Hstrict.
  set (st1 := match ob_fl_find s k (acas_fl st) with Some f => _ | None => _ end).
  assert (W1 : ac_wf (acas_res st1) /\ ac_shrinks (acas_res st) (acas_res st1)).
  { subst st1. destruct (ob_fl_find s k (acas_fl st)) as [f|]; cbn.
    - apply ac_map_shrinks; [assumption|]. intros l Hl. apply del_shrinks_list. assumption.
    - apply ac_rst_by_last_shrinks. assumption. }
  destruct W1 as [W1 W2]. apply ac_reg_false. unfold ac_entry in *. cbn [acas_res ac_set_res].
  unfold ac_rst_strict. rewrite Hn, Hs, Z.eqb_refl. rewrite ac_find_upd, Z.eqb_refl.
  destruct (ac_get (acsn_r n) (acas_res st1)) as [y|] eqn:G; [|reflexivity].
  pose proof (ac_wf_get _ _ _ W1 G) as Hnd.
  destruct (ob_find (ac_obs_is s (acsn_t n)) (acar_obs y)) as [o1|] eqn:F; [|assumption].
  assert (Ho : o1 = q).
  { assert (ac_find (acas_res st1) (acsn_r n) s (acsn_t n) = Some o1) by (unfold ac_find; rewrite G; assumption).
    apply W2 in H. congruence. }
  subst o1. assert (acao_since q <=? k = true) as -> by (apply Z.leb_le; assumption).
  apply find_del_same. assumption.
Qed.

(* ------------------------------------------------------------------ C11: fresh, ordered values *)

(* a message with an Observe value for (r, s, t): a notification or an accepted registration *)
Definition ac_message (e : ob_op * list ob_out) (r s : Z) (t : ob_tok) (v : Z) : Prop :=
  (exists k con, In (ObNotify k r s t v con) (snd e)) \/
  (exists o, e = (ObOpRegister r s t o, [ObRegResp r s t (Some v)])).

(* a stretch of history during which (r, s, t) stays registered; counts the changes of r *)
Fixpoint ac_keep (c : ac_cfg) (r s : Z) (t : ob_tok) (st : ac_state)
                 (tr : list (ob_op * list ob_out)) : option (ac_state * Z) :=
  match tr with
  | [] => Some (st, 0)
  | e :: tl =>
      match ac_step c st e with
      | AcOk st' =>
          if ac_reg st' r s t then
            match ac_keep c r s t st' tl with
            | Some (st2, n) => Some (st2, n + (if ac_is_change (fst e) r then 1 else 0))
            | None => None
            end
          else None
      | AcBad _ => None
      end
  end.

Lemma ac_cur_bump : forall o, ac_cur (ac_bump o) = (ac_cur o + 1) mod ob_M.
Proof.
  intro o. unfold ac_cur, ac_bump, ob_M. cbn. rewrite Z.add_assoc.
  rewrite Z.add_mod_idemp_l by lia. reflexivity.
Qed.

Lemma ac_cur_mod : forall o, ac_cur o mod ob_M = ac_cur o.
Proof. intro o. unfold ac_cur, ob_M. apply Z.mod_mod. lia. Qed.

(* one accepted entry: the current value moves by exactly the changes of the resource *)
Lemma ac_step_cur : forall c st op outs st' r s t o o',
  ac_wf (acas_res st) -> ac_step c st (op, outs) = AcOk st' ->
  ac_entry st r s t = Some o -> ac_entry st' r s t = Some o' ->
  ac_cur o' = (ac_cur o + (if ac_is_change op r then 1 else 0)) mod ob_M.
Proof.
  intros c st op outs st' r s t o o' Hwf H E0 E1.
  destruct (ac_step_entry c st op outs st' r s t o' Hwf H E1)
    as [[q [Q [_ ->]]]|[[q [ca [k [v [con [-> [Q [_ [Hv [_ [_ [_ ->]]]]]]]]]]]]|
        [[q [opts [v [-> [_ [Q [Hv ->]]]]]]]|[opts [v [_ [_ [Q _]]]]]]]]; try congruence.
  - rewrite Q in E0. inversion E0; subst q. destruct (ac_is_change op r).
    + apply ac_cur_bump.
    + rewrite Z.add_0_r, ac_cur_mod. reflexivity.
  - rewrite Q in E0. inversion E0; subst q. cbn [ac_is_change].
    unfold ac_cur at 1, ac_after_notify. cbn. rewrite !Z.add_0_r, Hv, !ac_cur_mod. reflexivity.
  - rewrite Q in E0. inversion E0; subst q. cbn [ac_is_change].
    unfold ac_cur at 1, ac_refreshed. cbn. rewrite !Z.add_0_r, Hv, !ac_cur_mod. reflexivity.
Qed.

Lemma ac_keep_cur : forall c r s t tr st st' n o,
  ac_wf (acas_res st) -> ac_entry st r s t = Some o -> ac_keep c r s t st tr = Some (st', n) ->
  ac_wf (acas_res st') /\ 0 <= n /\
  exists o', ac_entry st' r s t = Some o' /\ ac_cur o' = (ac_cur o + n) mod ob_M.
Proof.
  intros c r s t. induction tr as [|[op outs] tl IH]; intros st st' n o Hwf E0 H; cbn [ac_keep] in H.
  - inversion H; subst. split; [assumption|]. split; [lia|]. exists o. split; [assumption|].
    rewrite Z.add_0_r, ac_cur_mod. reflexivity.
  - destruct (ac_step c st (op, outs)) as [st1|] eqn:E; [|discriminate].
    destruct (ac_reg st1 r s t) eqn:R1; [|discriminate]. unfold ac_reg in R1.
    destruct (ac_entry st1 r s t) as [o1|] eqn:E1; [|discriminate].
    destruct (ac_keep c r s t st1 tl) as [[st2 n2]|] eqn:K; [|discriminate]. inversion H; subst st' n.
    pose proof (ac_step_wf _ _ _ _ Hwf E) as Hwf1.
    destruct (IH st1 st2 n2 o1 Hwf1 E1 K) as [W [Hn [o' [E2 C2]]]].
    split; [assumption|]. cbn [fst]. split; [destruct (ac_is_change op r); lia|].
    exists o'. split; [assumption|]. rewrite C2.
    rewrite (ac_step_cur c st op outs st1 r s t o o1 Hwf E E0 E1).
    unfold ob_M. rewrite Z.add_mod_idemp_l by lia. f_equal. lia.
Qed.

(* the value of a message is the observer's current value: before it (if the observer was
   registered) and after it *)
Lemma ac_message_before : forall c st e st' r s t v o,
  ac_wf (acas_res st) -> ac_step c st e = AcOk st' -> ac_message e r s t v ->
  ac_entry st r s t = Some o -> v = ac_cur o.
Proof.
  intros c st [op outs] st' r s t v o Hwf H [[k [con Hin]]|[opts Heq]] E0.
  - cbn [snd] in Hin. destruct op; cbn [ac_step] in H;
      try (apply ac_quiet_inv in H; destruct H as [-> _]; destruct Hin).
    + unfold ac_register in H. destruct (ac_get r0 (acas_res st)).
      * destruct outs as [|o1 [|o2 outs]]; [discriminate | | destruct o1; discriminate].
        destruct o1; try discriminate. destruct Hin as [Heq|[]]. discriminate.
      * destruct outs; [destruct Hin | discriminate].
    + unfold ac_iostep in H.
      destruct (ac_outs c (ac_mk_aw (acas_res st) (acas_fl st) (acas_nk st) (acas_sent st) ca) outs) as [w|] eqn:E;
        [|discriminate].
      destruct (outs_entry c r s t outs _ w o E Hwf E0) as [[I1 _]|[k' [v' [con' [_ [I2 [_ [_ [I5 _]]]]]]]]].
      * exfalso. eapply I1. eassumption.
      * destruct (I5 _ _ _ Hin) as [_ [-> _]]. assumption.
    + unfold ac_delete in H. destruct (ac_get r0 (acas_res st)) as [res|].
      * destruct (ac_gone_ok r0 (acar_obs res) outs) eqn:GO; [|discriminate]. exfalso. clear - GO Hin.
        revert GO. induction outs as [|o0 outs IH]; [destruct Hin|]. cbn [ac_gone_ok].
        destruct o0; try discriminate. intro GO. destruct Hin as [Heq|Hin]; [discriminate|].
        apply andb_true_iff in GO. destruct GO as [_ GO]. apply IH; assumption.
      * destruct outs; [destruct Hin | discriminate].
  - inversion Heq; subst op outs. cbn [ac_step] in H. unfold ac_register in H. unfold ac_entry, ac_find in E0.
    destruct (ac_get r (acas_res st)) as [res|]; [|discriminate].
    rewrite !Z.eqb_refl, ob_bytes_eqb_refl in H. cbn [andb] in H. rewrite E0 in H.
    destruct (v =? (acao_val o + acao_chg o) mod ob_M) eqn:Ev; [|discriminate]. apply Z.eqb_eq. assumption.
Qed.

Lemma ac_message_after : forall c st e st' r s t v o',
  ac_wf (acas_res st) -> ac_step c st e = AcOk st' -> ac_message e r s t v ->
  ac_entry st' r s t = Some o' -> ac_cur o' = v /\ acao_chg o' = 0.
Proof.
  intros c st [op outs] st' r s t v o' Hwf H M E1.
  destruct (ac_step_entry c st op outs st' r s t o' Hwf H E1)
    as [[q [Q [[F1 F2] _]]]|[[q [ca [k [v1 [con [-> [Q [Hin [Hv [_ [_ [Hu ->]]]]]]]]]]]]|
        [[q [opts [v1 [-> [-> [Q [Hv ->]]]]]]]|[opts [v1 [-> [-> [Q [Hr ->]]]]]]]]].
  - exfalso. destruct M as [[k [con Hin]]|[opts Heq]]; [eapply F1; eassumption | eapply F2; eassumption].
  - destruct M as [[k' [con' Hin']]|[opts Heq]]; [|discriminate]. cbn [snd] in Hin'.
    destruct (Hu _ _ _ Hin') as [_ [-> _]]. unfold ac_cur, ac_after_notify. cbn.
    split; [|reflexivity]. rewrite Z.add_0_r, Hv. apply ac_cur_mod.
  - destruct M as [[k' [con' Hin']]|[opts' Heq]].
    + cbn [snd] in Hin'. destruct Hin' as [Heq|[]]. discriminate.
    + inversion Heq; subst. unfold ac_cur, ac_refreshed. cbn. split; [|reflexivity].
      rewrite Z.add_0_r. apply ac_cur_mod.
  - destruct M as [[k' [con' Hin']]|[opts' Heq]].
    + cbn [snd] in Hin'. destruct Hin' as [Heq|[]]. discriminate.
    + inversion Heq; subst. unfold ac_cur. cbn. split; [|reflexivity].
      rewrite Z.add_0_r. apply Z.mod_small. assumption.
Qed.

(* C11: two messages to the same registration, n changes of the resource between them:
   the second carries the first value plus n (mod 2^24) *)
Theorem ac_values_track_changes : forall c st0 e1 st1 mid st2 n e2 st3 r s t v1 v2,
  ac_wf (acas_res st0) ->
  ac_step c st0 e1 = AcOk st1 -> ac_message e1 r s t v1 -> ac_reg st1 r s t = true ->
  ac_keep c r s t st1 mid = Some (st2, n) ->
  ac_step c st2 e2 = AcOk st3 -> ac_message e2 r s t v2 ->
  0 <= n /\ v2 = (v1 + n) mod ob_M.
Proof.
  intros c st0 e1 st1 mid st2 n e2 st3 r s t v1 v2 Hwf H1 M1 R1 K H2 M2.
  unfold ac_reg in R1. destruct (ac_entry st1 r s t) as [o1|] eqn:E1; [|discriminate].
  pose proof (ac_step_wf _ _ _ _ Hwf H1) as Hwf1.
  destruct (ac_message_after _ _ _ _ _ _ _ _ _ Hwf H1 M1 E1) as [C1 _].
  destruct (ac_keep_cur _ _ _ _ _ _ _ _ _ Hwf1 E1 K) as [Hwf2 [Hn [o2 [E2 C2]]]].
  split; [assumption|]. rewrite (ac_message_before _ _ _ _ _ _ _ _ _ Hwf2 H2 M2 E2), C2, C1. reflexivity.
Qed.

(* RFC 7641 freshness of the later value, given fewer than 2^23 changes in between *)
Corollary ac_values_fresh : forall v1 v2 n,
  0 <= v1 < ob_M -> v2 = (v1 + n) mod ob_M -> 1 <= n < 8388608 ->
  1 <= (v2 - v1) mod ob_M < 8388608.
Proof.
  intros v1 v2 n H1 H2 Hn. subst v2. unfold ob_M in *.
  replace (((v1 + n) mod 16777216 - v1) mod 16777216) with (n mod 16777216).
  - rewrite Z.mod_small; lia.
  - rewrite Zminus_mod_idemp_l. f_equal. lia.
Qed.

(* ------------------------------------------------------------------ no repeated values, CON cadence *)

Lemma ac_notify_checks : forall c st ca outs st' k r s t v con o,
  ac_wf (acas_res st) -> ac_step c st (ObOpIoStep ca, outs) = AcOk st' ->
  In (ObNotify k r s t v con) outs -> ac_entry st r s t = Some o ->
  v = ac_cur o /\ (1 <= acao_chg o \/ acao_weak o = true) /\
  (ac_mode c r <> 2 -> (if con then 0 else acao_run o + 1) <= accf_max_non c) /\
  (ac_entry st' r s t = Some (ac_after_notify o v con k) \/ ac_entry st' r s t = None).
Proof.
  intros c st ca outs st' k r s t v con o Hwf H Hin E0. cbn [ac_step] in H. unfold ac_iostep in H.
  destruct (ac_outs c (ac_mk_aw (acas_res st) (acas_fl st) (acas_nk st) (acas_sent st) ca) outs) as [w|] eqn:E;
    [|discriminate].
  destruct (ac_all_settled c (acaw_cnt w) (acaw_res w)); [|discriminate]. inversion H; subst st'.
  unfold ac_entry. cbn [acas_res].
  destruct (outs_entry c r s t outs _ w o E Hwf E0)
    as [[I1 _]|[k' [v' [con' [_ [I2 [I3 [I4 [I5 I6]]]]]]]]].
  - exfalso. eapply I1. eassumption.
  - destruct (I5 _ _ _ Hin) as [-> [-> ->]]. auto.
Qed.

(* a stretch without any message to (r, s, t): its entry only counts the changes *)
Lemma ac_keep_quiet : forall c r s t tr st st' n o,
  ac_wf (acas_res st) -> ac_entry st r s t = Some o -> ac_keep c r s t st tr = Some (st', n) ->
  (forall e, In e tr -> ac_msg_free (fst e) (snd e) r s t) ->
  exists o', ac_entry st' r s t = Some o' /\ acao_chg o' = acao_chg o + n /\
             acao_weak o' = acao_weak o /\ acao_run o' = acao_run o /\ acao_val o' = acao_val o.
Proof.
  intros c r s t. induction tr as [|[op outs] tl IH]; intros st st' n o Hwf E0 H Hq; cbn [ac_keep] in H.
  - inversion H; subst. exists o. repeat split; try assumption; lia.
  - destruct (ac_step c st (op, outs)) as [st1|] eqn:E; [|discriminate].
    destruct (ac_reg st1 r s t) eqn:R1; [|discriminate]. unfold ac_reg in R1.
    destruct (ac_entry st1 r s t) as [o1|] eqn:E1; [|discriminate].
    destruct (ac_keep c r s t st1 tl) as [[st2 n2]|] eqn:K; [|discriminate]. inversion H; subst st' n.
    pose proof (ac_step_wf _ _ _ _ Hwf E) as Hwf1.
    destruct (IH st1 st2 n2 o1 Hwf1 E1 K (fun e He => Hq e (or_intror He))) as [o' [E2 [C1 [C2 [C3 C4]]]]].
    destruct (Hq (op, outs) (or_introl eq_refl)) as [F1 F2]. cbn [fst snd] in F1, F2.
    destruct (ac_step_entry c st op outs st1 r s t o1 Hwf E E1)
      as [[q [Q [_ Ho1]]]|[[q [ca [k [v [con [_ [_ [Hin _]]]]]]]]|
          [[q [opts [v [-> [-> _]]]]]|[opts [v [-> [-> _]]]]]]].
    + rewrite Q in E0. inversion E0; subst q. exists o'. split; [assumption|]. cbn [fst].
      destruct (ac_is_change op r); subst o1; cbn in *; repeat split; try congruence; lia.
    + exfalso. eapply F1. eassumption.
    + exfalso. eapply F2. reflexivity.
    + exfalso. eapply F2. reflexivity.
Qed.

(* C11: a notification never repeats the value of the previous notification - between two
   consecutive notifications to one observer the resource has changed at least once *)
Theorem ac_notifications_differ : forall c st0 ca1 outs1 st1 mid st2 n ca2 outs2 st3 r s t k1 v1 c1 k2 v2 c2,
  ac_wf (acas_res st0) ->
  ac_step c st0 (ObOpIoStep ca1, outs1) = AcOk st1 -> In (ObNotify k1 r s t v1 c1) outs1 ->
  ac_reg st1 r s t = true ->
  ac_keep c r s t st1 mid = Some (st2, n) ->
  (forall e, In e mid -> ac_msg_free (fst e) (snd e) r s t) ->
  ac_step c st2 (ObOpIoStep ca2, outs2) = AcOk st3 -> In (ObNotify k2 r s t v2 c2) outs2 ->
  1 <= n /\ v2 = (v1 + n) mod ob_M.
Proof.
  intros c st0 ca1 outs1 st1 mid st2 n ca2 outs2 st3 r s t k1 v1 c1 k2 v2 c2 Hwf H1 I1 R1 K Hq H2 I2.
  split.
  - unfold ac_reg in R1. destruct (ac_entry st1 r s t) as [o1|] eqn:E1; [|discriminate].
    pose proof (ac_step_wf _ _ _ _ Hwf H1) as Hwf1.
    (* after the first notification: nothing missed, not weak *)
    assert (Ho1 : acao_chg o1 = 0 /\ acao_weak o1 = false).
    { destruct (ac_step_entry c st0 _ _ st1 r s t o1 Hwf H1 E1)
        as [[q [_ [[F1 _] _]]]|[[q [ca [k [v [con [_ [_ [_ [_ [_ [_ [_ ->]]]]]]]]]]]]|
            [[q [opts [v [Hop _]]]]|[opts [v [Hop _]]]]]]; try discriminate.
      - exfalso. eapply F1. eassumption.
      - cbn. auto. }
    destruct Ho1 as [Hc1 Hw1].
    destruct (ac_keep_quiet _ _ _ _ _ _ _ _ _ Hwf1 E1 K Hq) as [o2 [E2 [C1 [C2 _]]]].
    destruct (ac_keep_cur _ _ _ _ _ _ _ _ _ Hwf1 E1 K) as [Hwf2 _].
    destruct (ac_notify_checks _ _ _ _ _ _ _ _ _ _ _ _ Hwf2 H2 I2 E2) as [_ [Hchk _]].
    destruct Hchk as [Hchk|Hchk]; [lia | congruence].
  - eapply (ac_values_track_changes c st0 _ st1 mid st2 n _ st3 r s t v1 v2); try eassumption.
    + left. exists k1, c1. assumption.
    + left. exists k2, c2. assumption.
Qed.

(* a stretch without notifications to (r, s, t) keeps its count of non-confirmables *)
Lemma ac_keep_run : forall c r s t tr st st' n o,
  ac_wf (acas_res st) -> ac_entry st r s t = Some o -> ac_keep c r s t st tr = Some (st', n) ->
  (forall e, In e tr -> ac_no_notify r s t (snd e)) ->
  ac_wf (acas_res st') /\ exists o', ac_entry st' r s t = Some o' /\ acao_run o' = acao_run o.
Proof.
  intros c r s t. induction tr as [|[op outs] tl IH]; intros st st' n o Hwf E0 H Hq; cbn [ac_keep] in H.
  - inversion H; subst. split; [assumption|]. exists o. auto.
  - destruct (ac_step c st (op, outs)) as [st1|] eqn:E; [|discriminate].
    destruct (ac_reg st1 r s t) eqn:R1; [|discriminate]. unfold ac_reg in R1.
    destruct (ac_entry st1 r s t) as [o1|] eqn:E1; [|discriminate].
    destruct (ac_keep c r s t st1 tl) as [[st2 n2]|] eqn:K; [|discriminate]. inversion H; subst st' n.
    pose proof (ac_step_wf _ _ _ _ Hwf E) as Hwf1.
    destruct (IH st1 st2 n2 o1 Hwf1 E1 K (fun e He => Hq e (or_intror He))) as [W [o' [E2 C1]]].
    split; [assumption|]. exists o'. split; [assumption|]. rewrite C1.
    pose proof (Hq (op, outs) (or_introl eq_refl)) as F1. cbn [snd] in F1.
    destruct (ac_step_entry c st op outs st1 r s t o1 Hwf E E1)
      as [[q [Q [_ Ho1]]]|[[q [ca [k [v [con [_ [_ [Hin _]]]]]]]]|
          [[q [opts [v [_ [_ [Q [_ Ho1]]]]]]]|[opts [v [_ [_ [Q _]]]]]]]].
    + rewrite Q in E0. inversion E0; subst q. destruct (ac_is_change op r); subst o1; reflexivity.
    + exfalso. eapply F1. eassumption.
    + rewrite Q in E0. inversion E0; subst q o1. reflexivity.
    + congruence.
Qed.

(* a run of consecutive NON notifications to one registration, with anything but notifications
   to it in between *)
Fixpoint ac_non_chain (c : ac_cfg) (r s : Z) (t : ob_tok) (st : ac_state)
                      (segs : list (list (ob_op * list ob_out) * (ob_op * list ob_out))) : Prop :=
  match segs with
  | [] => True
  | (mid, e) :: tl =>
      exists st2 n st3 ca outs k v,
        ac_keep c r s t st mid = Some (st2, n) /\
        (forall e', In e' mid -> ac_no_notify r s t (snd e')) /\
        e = (ObOpIoStep ca, outs) /\ ac_step c st2 e = AcOk st3 /\
        In (ObNotify k r s t v false) outs /\ ac_reg st3 r s t = true /\
        ac_non_chain c r s t st3 tl
  end.

(* C11: at least every (COAP_OBS_MAX_NON + 1)-th notification is confirmable: a run of
   non-confirmable notifications to one observer is at most COAP_OBS_MAX_NON long *)
Theorem ac_con_cadence : forall c r s t segs st o,
  ac_mode c r <> 2 -> ac_wf (acas_res st) -> ac_entry st r s t = Some o ->
  ac_non_chain c r s t st segs ->
  acao_run o + Z.of_nat (length segs) <= Z.max (acao_run o) (accf_max_non c).
Proof.
  intros c r s t. induction segs as [|[mid e] tl IH]; intros st o Hm Hwf E0 H; cbn [length ac_non_chain] in *.
  - lia.
  - destruct H as [st2 [n [st3 [ca [outs [k [v [K [Hq [-> [H2 [Hin [R3 Hc]]]]]]]]]]]]].
    destruct (ac_keep_run _ _ _ _ _ _ _ _ _ Hwf E0 K Hq) as [Hwf2 [o2 [E2 C2]]].
    destruct (ac_notify_checks _ _ _ _ _ _ _ _ _ _ _ _ Hwf2 H2 Hin E2) as [_ [_ [Hrun Hafter]]].
    specialize (Hrun Hm). cbn in Hrun. unfold ac_reg in R3.
    destruct Hafter as [E3|E3]; rewrite E3 in R3; [|discriminate].
    pose proof (ac_step_wf _ _ _ _ Hwf2 H2) as Hwf3.
    specialize (IH st3 _ Hm Hwf3 E3 Hc). unfold ac_after_notify in IH. cbn in IH. lia.
Qed.

(* ------------------------------------------------------------------ C11: the latest state, eventually *)

Definition ac_out_con (s : Z) (o : ob_out) : Z :=
  match o with
  | ObNotify _ _ s' _ _ true => if s' =? s then 1 else 0
  | ObErr _ _ s' _ true => if s' =? s then 1 else 0
  | _ => 0
  end.

Fixpoint ac_count_con (s : Z) (outs : list ob_out) : Z :=
  match outs with
  | [] => 0
  | o :: tl => ac_out_con s o + ac_count_con s tl
  end.

Lemma out_step_cnt : forall c w o w' s,
  ac_out_step c w o = inl w' -> ob_ca_get (acaw_cnt w') s = ob_ca_get (acaw_cnt w) s + ac_out_con s o.
Proof.
  intros c w o w' s H. destruct o as [k r0 s0 t0 v con|k r0 s0 t0 con| |];
    cbn [ac_out_step] in H; try discriminate.
  - destruct (negb (k =? acaw_nk w)); [discriminate|].
    destruct (ac_get r0 (acaw_res w)) as [res|]; [|discriminate].
    destruct (ob_find (ac_obs_is s0 t0) (acar_obs res)) as [e|]; [|discriminate].
    destruct (negb (v =? (acao_val e + acao_chg e) mod ob_M)); [discriminate|].
    destruct (negb ((1 <=? acao_chg e) || acao_weak e)); [discriminate|].
    match type of H with (if ?b then _ else _) = _ => destruct b; [discriminate|] end.
    inversion H; subst w'. unfold ac_note. cbn [acaw_cnt ac_out_con]. destruct con; [|lia].
    unfold ob_ca_inc. cbn [ob_ca_get]. destruct (s0 =? s) eqn:E; [|lia]. apply Z.eqb_eq in E. subst. lia.
  - destruct (negb (k =? acaw_nk w)); [discriminate|].
    destruct (ac_get r0 (acaw_res w)) as [res|]; [|discriminate].
    destruct (ob_find (ac_obs_is s0 t0) (acar_obs res)) as [e|]; [|discriminate].
    inversion H; subst w'. unfold ac_note. cbn [acaw_cnt ac_out_con]. destruct con; [|lia].
    unfold ob_ca_inc. cbn [ob_ca_get]. destruct (s0 =? s) eqn:E; [|lia]. apply Z.eqb_eq in E. subst. lia.
Qed.

Lemma outs_cnt : forall c s outs w w',
  ac_outs c w outs = inl w' -> ob_ca_get (acaw_cnt w') s = ob_ca_get (acaw_cnt w) s + ac_count_con s outs.
Proof.
  intros c s. induction outs as [|o outs IH]; intros w w' H; cbn [ac_outs ac_count_con] in *.
  - inversion H; subst. lia.
  - destruct (ac_out_step c w o) as [w1|] eqn:E; [|discriminate].
    rewrite (IH w1 w' H), (out_step_cnt _ _ _ _ s E). lia.
Qed.

(* C11: once the I/O loop has run, every registered observer either has been sent the current
   value (acao_chg = 0: no change since its last message, see ac_chg_counts_changes) or sits
   behind a full NSTART window: con_active at the start of the step plus the confirmable
   messages of this step to its session reach NSTART - or behind an unfinished large (Block2)
   transmission to its session (input of the step under the key session + ob_lg_off).  The same holds after every later step,
   so the first step that finds a free slot delivers the then-current value. *)
Theorem ac_latest_after_step : forall c st ca outs st' r s t o',
  ac_step c st (ObOpIoStep ca, outs) = AcOk st' -> ac_entry st' r s t = Some o' ->
  acao_chg o' = 0 \/ accf_nstart c <= ob_ca_get ca s + ac_count_con s outs \/
  0 < ob_ca_get ca (s + ob_lg_off) + ac_count_con (s + ob_lg_off) outs.
Proof.
  intros c st ca outs st' r s t o' H E1. cbn [ac_step] in H. unfold ac_iostep in H.
  destruct (ac_outs c (ac_mk_aw (acas_res st) (acas_fl st) (acas_nk st) (acas_sent st) ca) outs) as [w|] eqn:E;
    [|discriminate].
  destruct (ac_all_settled c (acaw_cnt w) (acaw_res w)) eqn:S; [|discriminate]. inversion H; subst st'.
  unfold ac_entry, ac_find in E1. cbn [acas_res] in E1.
  destruct (ac_get r (acaw_res w)) as [y|] eqn:G; [|discriminate].
  apply ac_get_in in G. destruct G as [Hy _]. apply ob_find_some in E1. destruct E1 as [Ho Hm].
  unfold ac_all_settled in S. rewrite forallb_forall in S. specialize (S y Hy).
  rewrite forallb_forall in S. specialize (S o' Ho). unfold ac_settled in S.
  unfold ac_obs_is in Hm. apply andb_true_iff in Hm. destruct Hm as [Hs _]. apply Z.eqb_eq in Hs.
  apply orb_true_iff in S. destruct S as [S|S].
  - apply orb_true_iff in S. destruct S as [S|S]; [left; apply Z.eqb_eq; assumption | right; left].
    apply Z.leb_le in S. rewrite Hs in S. rewrite (outs_cnt c s outs _ w E) in S. cbn [acaw_cnt] in S. exact S.
  - right. right. unfold ob_in_transfer in S. apply Z.ltb_lt in S. rewrite Hs in S.
    rewrite (outs_cnt c (s + ob_lg_off) outs _ w E) in S. cbn [acaw_cnt] in S. exact S.
Qed.

(* the meaning of acao_chg: the number of changes of the resource since the observer's last message *)
Theorem ac_chg_counts_changes : forall c st0 e1 st1 mid st2 n r s t v1,
  ac_wf (acas_res st0) ->
  ac_step c st0 e1 = AcOk st1 -> ac_message e1 r s t v1 -> ac_reg st1 r s t = true ->
  ac_keep c r s t st1 mid = Some (st2, n) ->
  (forall e, In e mid -> ac_msg_free (fst e) (snd e) r s t) ->
  exists o2, ac_entry st2 r s t = Some o2 /\ acao_chg o2 = n /\ acao_val o2 = v1.
Proof.
  intros c st0 e1 st1 mid st2 n r s t v1 Hwf H1 M1 R1 K Hq.
  unfold ac_reg in R1. destruct (ac_entry st1 r s t) as [o1|] eqn:E1; [|discriminate].
  pose proof (ac_step_wf _ _ _ _ Hwf H1) as Hwf1.
  destruct (ac_message_after _ _ _ _ _ _ _ _ _ Hwf H1 M1 E1) as [C1 C0].
  destruct (ac_keep_quiet _ _ _ _ _ _ _ _ _ Hwf1 E1 K Hq) as [o2 [E2 [A1 [_ [_ A4]]]]].
  exists o2. split; [assumption|]. split; [lia|].
  (* the value field after a message is the value itself *)
  rewrite A4. unfold ac_cur in C1. rewrite C0, Z.add_0_r in C1.
  assert (Hr : 0 <= acao_val o1 < ob_M).
  { destruct e1 as [op outs].
    destruct (ac_step_entry c st0 op outs st1 r s t o1 Hwf H1 E1)
      as [[q [_ [[F1 F2] _]]]|[[q [ca [k [v [con [_ [_ [_ [Hv [_ [_ [_ ->]]]]]]]]]]]]|
          [[q [opts [v [_ [_ [_ [Hv ->]]]]]]]|[opts [v [_ [_ [_ [Hr ->]]]]]]]]].
    - exfalso. destruct M1 as [[k [con Hin]]|[opts Heq]]; [eapply F1; eassumption | eapply F2; eassumption].
    - cbn. subst v. unfold ac_cur, ob_M. apply Z.mod_pos_bound. lia.
    - cbn. subst v. unfold ac_cur, ob_M. apply Z.mod_pos_bound. lia.
    - cbn. assumption. }
  rewrite Z.mod_small in C1; assumption.
Qed.

(* ------------------------------------------------------------------ bounds on acao_run in accepted histories *)

Definition ac_runs_ok (c : ac_cfg) (st : ac_state) : Prop :=
  forall r s t o, ac_entry st r s t = Some o ->
    0 <= acao_run o /\ (ac_mode c r <> 2 -> acao_run o <= accf_max_non c).

Lemma ac_step_runs_ok : forall c st e st',
  0 <= accf_max_non c -> ac_wf (acas_res st) -> ac_runs_ok c st -> ac_step c st e = AcOk st' ->
  ac_runs_ok c st'.
Proof.
  intros c st [op outs] st' Hmn Hwf Hok H r s t o' E1.
  destruct (ac_step_entry c st op outs st' r s t o' Hwf H E1)
    as [[q [Q [_ ->]]]|[[q [ca [k [v [con [_ [Q [_ [_ [_ [Hrun [_ ->]]]]]]]]]]]]|
        [[q [opts [v [_ [_ [Q [_ ->]]]]]]]|[opts [v [_ [_ [_ [_ ->]]]]]]]]].
  - destruct (Hok r s t q Q) as [A B]. destruct (ac_is_change op r); cbn; auto.
  - destruct (Hok r s t q Q) as [A B]. unfold ac_after_notify. cbn. destruct con.
    + split; [lia | intros; assumption].
    + split; [lia | exact Hrun].
  - destruct (Hok r s t q Q) as [A B]. cbn. auto.
  - cbn. split; [lia | intros; assumption].
Qed.

Lemma ac_go_runs_ok : forall c tr st st',
  0 <= accf_max_non c -> ac_wf (acas_res st) -> ac_runs_ok c st -> ac_go c st tr = Some st' ->
  ac_runs_ok c st'.
Proof.
  intros c. induction tr as [|e tl IH]; intros st st' Hmn Hwf Hok H; cbn [ac_go] in H.
  - inversion H; subst. assumption.
  - destruct (ac_step c st e) as [st1|] eqn:E; [|discriminate].
    eapply IH; [assumption | eapply ac_step_wf; eassumption | eapply ac_step_runs_ok; eassumption | eassumption].
Qed.

Lemma ac_init_runs_ok : forall c, ac_runs_ok c (ac_init c).
Proof.
  intros c r s t o H. exfalso. unfold ac_entry, ac_find, ac_init in H. cbn [acas_res] in H.
  destruct (ac_get r (ac_init_res 0 (accf_modes c))) as [y|] eqn:G; [|discriminate].
  apply ac_get_in in G. destruct G as [G _]. apply ac_init_res_ids in G. destruct G as [_ G].
  rewrite G in H. discriminate.
Qed.

(* C11, headline form: in an accepted history (from the initial state), any run of consecutive
   non-confirmable notifications to one observer of a resource that is not NOTIFY_NON_ALWAYS has
   at most COAP_OBS_MAX_NON members - every (COAP_OBS_MAX_NON + 1)-th notification is confirmable *)
Theorem ac_con_every : forall c pre st r s t o segs,
  0 <= accf_max_non c -> ac_mode c r <> 2 ->
  ac_go c (ac_init c) pre = Some st -> ac_entry st r s t = Some o ->
  ac_non_chain c r s t st segs ->
  Z.of_nat (length segs) <= accf_max_non c.
Proof.
  intros c pre st r s t o segs Hmn Hm Hgo E0 Hc.
  pose proof (ac_go_wf c pre _ st (ac_init_wf c) Hgo) as Hwf.
  pose proof (ac_go_runs_ok c pre _ st Hmn (ac_init_wf c) (ac_init_runs_ok c) Hgo r s t o E0) as [A B].
  specialize (B Hm). pose proof (ac_con_cadence c r s t segs st o Hm Hwf E0 Hc). lia.
Qed.

(* ------------------------------------------------------------------ glue: ac_accepts and ac_go *)

(* acceptance of a whole history = the acceptor runs through it from its (well-formed) initial
   state; every prefix / segment then runs through as well, which is the form the theorems above use *)
Theorem ac_accepts_go : forall c t1 t2,
  ac_accepts c (t1 ++ t2) = true ->
  ac_wf (acas_res (ac_init c)) /\
  exists st1 st2, ac_go c (ac_init c) t1 = Some st1 /\ ac_wf (acas_res st1) /\ ac_go c st1 t2 = Some st2.
Proof.
  intros c t1 t2 H. split; [apply ac_init_wf|]. unfold ac_accepts in H.
  destruct (ac_run c (ac_init c) 0 (t1 ++ t2)) as [stf|] eqn:R; [|discriminate].
  apply ac_run_go in R. rewrite ac_go_app in R.
  destruct (ac_go c (ac_init c) t1) as [st1|] eqn:G1; [|discriminate].
  exists st1, stf. split; [reflexivity|]. split; [|assumption].
  eapply ac_go_wf; [apply ac_init_wf | eassumption].
Qed.

(* C11 - acceptor (monitor) for Observe histories.

   A history is a list of (op, outputs): what happened to the server and what it sent because of
   it.  The acceptor keeps, per resource, the set of observers it considers registered together
   with what the property needs to know about each of them
     acao_val / acao_chg : Observe value of the last message that carried one (registration response
                       or notification) and the number of changes of the resource since then;
     acao_weak         : that last message was a registration response (a notification sent
                       afterwards may repeat its value: the registration may have come between a
                       change and the I/O step that reports it);
     acao_run          : non-confirmable notifications since the last confirmable one;
     acao_lastk        : ordinal of its last notification,
   and the confirmable notifications that are still being retransmitted.  It REJECTS when
     2  a notification / error response / 4.04 goes to somebody who is not registered,
     3  a notification does not carry (acao_val + acao_chg) mod 2^24 - the resource's current counter,
     4  a notification repeats the value of the previous notification (no change in between),
     5  more than COAP_OBS_MAX_NON non-confirmable notifications in a row (resource not NON_ALWAYS),
     6  after a step of the I/O loop an observer still misses changes although its session has a
        free NSTART slot,
     1/7/8/9  malformed history (outputs that do not fit the op, ordinals out of sequence,
        registration response with a wrong value, value out of range).
   De-registration follows the events of the property: Observe:1 request (token, else cache key),
   RST answering a confirmable notification that is still in flight (every observation of that
   session+token) or answering the latest notification of an observation, give-up of a confirmable
   notification, error-class response, session loss, resource deletion; a registration whose cache
   key equals that of an entry with another token replaces it.
   [accf_strict] additionally counts an RST that answers ANY notification of the current
   registration (the property as stated); libcoap only honours the two cases above.

   Soundness (what acceptance means, stated over histories) is proved in AcceptProofs.v; that
   every history of the model is accepted is proved in ObserveProofs.v. *)
From Coq Require Import ZArith List Bool.
From LibcoapV Require Import Observe.Observe.
Import ListNotations.
Local Open Scope Z_scope.

Definition ob_M : Z := 16777216.

Record ac_cfg := ac_mk_cf { accf_modes : list Z; accf_nstart : Z; accf_max_non : Z; accf_strict : bool }.

Record ac_obs := ac_mk_ao {
  acao_s : Z; acao_t : ob_tok; acao_key : ob_opts;
  acao_val : Z; acao_chg : Z; acao_weak : bool; acao_run : Z; acao_lastk : Z;
  acao_since : Z        (* ordinal of the first notification that can belong to this registration *)
}.

Record ac_res := ac_mk_ar { acar_id : Z; acar_obs : list ac_obs }.
Record ac_sent := ac_mk_sn { acsn_k : Z; acsn_r : Z; acsn_s : Z; acsn_t : ob_tok }.

Record ac_state := ac_mk_as {
  acas_res : list ac_res;
  acas_fl : list ob_flight;
  acas_nk : Z;
  acas_sent : list ac_sent
}.

Inductive ac_result := AcOk (st : ac_state) | AcBad (code : Z).

Definition ac_obs_is (s : Z) (t : ob_tok) (o : ac_obs) : bool :=
  (acao_s o =? s) && ob_bytes_eqb (acao_t o) t.
Definition ac_obs_keyis (s : Z) (key : ob_opts) (o : ac_obs) : bool :=
  (acao_s o =? s) && ob_opts_eqb (acao_key o) key.

Fixpoint ac_mode_from (id : Z) (modes : list Z) (r : Z) : Z :=
  match modes with
  | [] => 0
  | m :: tl => if id =? r then m else ac_mode_from (id + 1) tl r
  end.
Definition ac_mode (c : ac_cfg) (r : Z) : Z := ac_mode_from 0 (accf_modes c) r.

Fixpoint ac_get (r : Z) (rs : list ac_res) : option ac_res :=
  match rs with
  | [] => None
  | x :: tl => if acar_id x =? r then Some x else ac_get r tl
  end.

Fixpoint ac_upd (r : Z) (f : list ac_obs -> list ac_obs) (rs : list ac_res) : list ac_res :=
  match rs with
  | [] => []
  | x :: tl => if acar_id x =? r then ac_mk_ar (acar_id x) (f (acar_obs x)) :: tl else x :: ac_upd r f tl
  end.

Definition ac_set_res (st : ac_state) (rs : list ac_res) : ac_state :=
  ac_mk_as rs (acas_fl st) (acas_nk st) (acas_sent st).

Definition ac_del (s : Z) (t : ob_tok) (l : list ac_obs) : list ac_obs :=
  fst (ob_remove1 (ac_obs_is s t) l).

(* ------------------------------------------------------------------ registration, cancel *)

Definition ac_refresh (s : Z) (t : ob_tok) (v : Z) (o : ac_obs) : ac_obs :=
  if ac_obs_is s t o
  then ac_mk_ao (acao_s o) (acao_t o) (acao_key o) v 0 true (acao_run o) (acao_lastk o) (acao_since o)
  else o.

Definition ac_replace_key (s : Z) (key : ob_opts) (l : list ac_obs) : list ac_obs :=
  match ob_find (ac_obs_keyis s key) l with
  | Some old => ac_del s (acao_t old) l
  | None => l
  end.

Definition ac_register (st : ac_state) (r s : Z) (t : ob_tok) (o : ob_opts)
                       (outs : list ob_out) : ac_result :=
  match ac_get r (acas_res st) with
  | None => match outs with [] => AcOk st | _ => AcBad 1 end
  | Some res =>
      match outs with
      | [ObRegResp r' s' t' v] =>
          if (r' =? r) && (s' =? s) && ob_bytes_eqb t' t then
            match ob_find (ac_obs_is s t) (acar_obs res) with
            | Some o1 =>
                match v with
                | Some v0 =>
                    if v0 =? (acao_val o1 + acao_chg o1) mod ob_M
                    then AcOk (ac_set_res st (ac_upd r (map (ac_refresh s t v0)) (acas_res st)))
                    else AcBad 8
                | None => AcOk (ac_set_res st (ac_upd r (ac_del s t) (acas_res st)))
                end
            | None =>
                let key := ob_key o in
                match v with
                | Some v0 =>
                    if (0 <=? v0) && (v0 <? ob_M) then
                      AcOk (ac_set_res st
                              (ac_upd r (fun l => ac_mk_ao s t key v0 0 true 0 (-1) (acas_nk st)
                                                   :: ac_replace_key s key l) (acas_res st)))
                    else AcBad 9
                | None => AcOk (ac_set_res st (ac_upd r (ac_replace_key s key) (acas_res st)))
                end
            end
          else AcBad 1
      | _ => AcBad 1
      end
  end.

Definition ac_cancel_obs (s : Z) (t : ob_tok) (o : ob_opts) (l : list ac_obs) : list ac_obs :=
  match ob_find (ac_obs_is s t) l with
  | Some _ => ac_del s t l
  | None => ac_replace_key s (ob_key o) l
  end.

(* ------------------------------------------------------------------ one step of the I/O loop *)

Definition ac_bump (o : ac_obs) : ac_obs :=
  ac_mk_ao (acao_s o) (acao_t o) (acao_key o) (acao_val o) (acao_chg o + 1) (acao_weak o) (acao_run o)
        (acao_lastk o) (acao_since o).

(* state of the walk over the outputs of a step *)
Record ac_walk := ac_mk_aw {
  acaw_res : list ac_res; acaw_fl : list ob_flight; acaw_nk : Z; acaw_sent : list ac_sent;
  acaw_cnt : list (Z * Z)
}.

Definition ac_note (w : ac_walk) (rs : list ac_res) (k r s : Z) (t : ob_tok) (con ok : bool)
  : ac_walk :=
  ac_mk_aw rs (if con then acaw_fl w ++ [ob_mk_fl s k t ok] else acaw_fl w) (k + 1)
        (ac_mk_sn k r s t :: acaw_sent w) (if con then ob_ca_inc (acaw_cnt w) s else acaw_cnt w).

Definition ac_notified (s : Z) (t : ob_tok) (v : Z) (run k : Z) (o : ac_obs) : ac_obs :=
  if ac_obs_is s t o
  then ac_mk_ao (acao_s o) (acao_t o) (acao_key o) v 0 false run k (acao_since o)
  else o.

Definition ac_out_step (c : ac_cfg) (w : ac_walk) (o : ob_out) : ac_walk + Z :=
  match o with
  | ObNotify k r s t v con =>
      if negb (k =? acaw_nk w) then inr 7 else
      match ac_get r (acaw_res w) with
      | None => inr 2
      | Some res =>
          match ob_find (ac_obs_is s t) (acar_obs res) with
          | None => inr 2
          | Some e =>
              if negb (v =? (acao_val e + acao_chg e) mod ob_M) then inr 3
              else if negb ((1 <=? acao_chg e) || acao_weak e) then inr 4
              else
                let run := if con then 0 else acao_run e + 1 in
                if negb (ac_mode c r =? 2) && (accf_max_non c <? run) then inr 5
                else inl (ac_note w (ac_upd r (map (ac_notified s t v run k)) (acaw_res w))
                                  k r s t con true)
          end
      end
  | ObErr k r s t con =>
      if negb (k =? acaw_nk w) then inr 7 else
      match ac_get r (acaw_res w) with
      | None => inr 2
      | Some res =>
          match ob_find (ac_obs_is s t) (acar_obs res) with
          | None => inr 2
          | Some _ => inl (ac_note w (ac_upd r (ac_del s t) (acaw_res w)) k r s t con false)
          end
      end
  | _ => inr 1
  end.

Fixpoint ac_outs (c : ac_cfg) (w : ac_walk) (outs : list ob_out) : ac_walk + Z :=
  match outs with
  | [] => inl w
  | o :: tl => match ac_out_step c w o with
               | inl w' => ac_outs c w' tl
               | inr e => inr e
               end
  end.

(* end of the step: whoever still misses changes must sit behind a full NSTART window or behind an
   unfinished large transmission to its session *)
Definition ac_settled (c : ac_cfg) (cnt : list (Z * Z)) (o : ac_obs) : bool :=
  (acao_chg o =? 0) || (accf_nstart c <=? ob_ca_get cnt (acao_s o)) || ob_in_transfer cnt (acao_s o).

Definition ac_all_settled (c : ac_cfg) (cnt : list (Z * Z)) (rs : list ac_res) : bool :=
  forallb (fun r => forallb (ac_settled c cnt) (acar_obs r)) rs.

Definition ac_iostep (c : ac_cfg) (st : ac_state) (ca : list (Z * Z)) (outs : list ob_out)
  : ac_result :=
  match ac_outs c (ac_mk_aw (acas_res st) (acas_fl st) (acas_nk st) (acas_sent st) ca) outs with
  | inr e => AcBad e
  | inl w =>
      if ac_all_settled c (acaw_cnt w) (acaw_res w)
      then AcOk (ac_mk_as (acaw_res w) (acaw_fl w) (acaw_nk w) (acaw_sent w))
      else AcBad 6
  end.

(* ------------------------------------------------------------------ ACK / RST / give-up *)

Definition ac_del_everywhere (s : Z) (t : ob_tok) (rs : list ac_res) : list ac_res :=
  map (fun r => ac_mk_ar (acar_id r) (ac_del s t (acar_obs r))) rs.

Definition ac_has (s : Z) (t : ob_tok) (rs : list ac_res) : bool :=
  existsb (fun r => match ob_find (ac_obs_is s t) (acar_obs r) with Some _ => true | None => false end)
          rs.

Fixpoint ac_rst_by_last (s k : Z) (rs : list ac_res) : list ac_res :=
  match rs with
  | [] => []
  | r :: tl =>
      match ob_find (fun o => (acao_lastk o =? k) && (acao_s o =? s)) (acar_obs r) with
      | Some o => ac_mk_ar (acar_id r) (ac_del s (acao_t o) (acar_obs r)) :: tl
      | None => r :: ac_rst_by_last s k tl
      end
  end.

Fixpoint ac_sent_find (k : Z) (l : list ac_sent) : option ac_sent :=
  match l with
  | [] => None
  | x :: tl => if acsn_k x =? k then Some x else ac_sent_find k tl
  end.

(* the property as stated: an RST for any notification of the current registration counts *)
Definition ac_rst_strict (s k : Z) (st : ac_state) (rs : list ac_res) : list ac_res :=
  match ac_sent_find k (acas_sent st) with
  | Some n =>
      if acsn_s n =? s then
        ac_upd (acsn_r n)
               (fun l => match ob_find (ac_obs_is s (acsn_t n)) l with
                         | Some o => if acao_since o <=? k then ac_del s (acsn_t n) l else l
                         | None => l
                         end) rs
      else rs
  | None => rs
  end.

Definition ac_rst (c : ac_cfg) (st : ac_state) (s k : Z) : ac_state :=
  let st1 :=
    match ob_fl_find s k (acas_fl st) with
    | Some f =>
        ac_mk_as (ac_del_everywhere s (obfl_tok f) (acas_res st))
              (ob_fl_cancel s (obfl_tok f) (ob_fl_remove s k (acas_fl st))) (acas_nk st) (acas_sent st)
    | None => ac_set_res st (ac_rst_by_last s k (acas_res st))
    end in
  if accf_strict c then ac_set_res st1 (ac_rst_strict s k st (acas_res st1)) else st1.

Definition ac_confailed (st : ac_state) (s k : Z) : ac_state :=
  match ob_fl_find s k (acas_fl st) with
  | None => st
  | Some f =>
      let fl1 := ob_fl_remove s k (acas_fl st) in
      ac_mk_as (ac_del_everywhere s (obfl_tok f) (acas_res st))
            (if ac_has s (obfl_tok f) (acas_res st) then ob_fl_cancel s (obfl_tok f) fl1 else fl1)
            (acas_nk st) (acas_sent st)
  end.

Definition ac_lost (st : ac_state) (s : Z) : ac_state :=
  ac_mk_as (map (fun r => ac_mk_ar (acar_id r) (filter (fun o => negb (acao_s o =? s)) (acar_obs r)))
             (acas_res st))
        (filter (fun f => negb (obfl_sess f =? s)) (acas_fl st)) (acas_nk st) (acas_sent st).

Fixpoint ac_drop (r : Z) (rs : list ac_res) : list ac_res :=
  match rs with
  | [] => []
  | x :: tl => if acar_id x =? r then tl else x :: ac_drop r tl
  end.

Fixpoint ac_gone_ok (r : Z) (l : list ac_obs) (outs : list ob_out) : bool :=
  match outs with
  | [] => true
  | ObGone r' s t :: tl =>
      (r' =? r) && (match ob_find (ac_obs_is s t) l with Some _ => true | None => false end)
      && ac_gone_ok r l tl
  | _ :: _ => false
  end.

Definition ac_delete (st : ac_state) (r : Z) (outs : list ob_out) : ac_result :=
  match ac_get r (acas_res st) with
  | None => match outs with [] => AcOk st | _ => AcBad 1 end
  | Some res =>
      if ac_gone_ok r (acar_obs res) outs
      then AcOk (ac_set_res st (ac_drop r (acas_res st) ++ [ac_mk_ar r []]))
      else AcBad 2
  end.

(* ------------------------------------------------------------------ the acceptor *)

Definition ac_quiet (outs : list ob_out) (st : ac_state) : ac_result :=
  match outs with [] => AcOk st | _ => AcBad 1 end.

Definition ac_step (c : ac_cfg) (st : ac_state) (e : ob_op * list ob_out) : ac_result :=
  let '(op, outs) := e in
  match op with
  | ObOpRegister r s t o => ac_register st r s t o outs
  | ObOpCancel r s t o =>
      ac_quiet outs (ac_set_res st (ac_upd r (ac_cancel_obs s t o) (acas_res st)))
  | ObOpChange r => ac_quiet outs (ac_set_res st (ac_upd r (map ac_bump) (acas_res st)))
  | ObOpIoStep ca => ac_iostep c st ca outs
  | ObOpAck s k =>
      ac_quiet outs (ac_mk_as (acas_res st) (ob_fl_remove s k (acas_fl st)) (acas_nk st) (acas_sent st))
  | ObOpRst s k => ac_quiet outs (ac_rst c st s k)
  | ObOpConFailed s k => ac_quiet outs (ac_confailed st s k)
  | ObOpSetErr _ _ => ac_quiet outs st
  | ObOpSessionLost s => ac_quiet outs (ac_lost st s)
  | ObOpDeleteResource r _ => ac_delete st r outs
  end.

(* result: the final state, or the index of the rejected entry and the reason *)
Fixpoint ac_run (c : ac_cfg) (st : ac_state) (i : Z) (tr : list (ob_op * list ob_out))
  : ac_state + (Z * Z) :=
  match tr with
  | [] => inl st
  | e :: tl => match ac_step c st e with
               | AcOk st' => ac_run c st' (i + 1) tl
               | AcBad code => inr (i, code)
               end
  end.

Fixpoint ac_init_res (id : Z) (modes : list Z) : list ac_res :=
  match modes with
  | [] => []
  | _ :: tl => ac_mk_ar id [] :: ac_init_res (id + 1) tl
  end.

Definition ac_init (c : ac_cfg) : ac_state := ac_mk_as (ac_init_res 0 (accf_modes c)) [] 0 [].

Definition ac_accepts (c : ac_cfg) (tr : list (ob_op * list ob_out)) : bool :=
  match ac_run c (ac_init c) 0 tr with inl _ => true | inr _ => false end.

(* C11 - concrete histories: non-vacuity of the theorems, and the witness for the one place where
   the model (= libcoap) does not do what the property says literally (known finding F-C11-2). *)
From LibcoapV Require Import Base.Tactics Observe.Observe Observe.Accept.
Local Open Scope Z_scope.

Definition w_p : ob_params := ob_mk_pr 1 5 1.
Definition w_tok : ob_tok := [161].
Definition w_opts : ob_opts := [(6, []); (11, [114; 48])].
Definition w_cfg (strict : bool) : ac_cfg := ac_mk_cf [0] 1 5 strict.

(* register, 8 x (change, I/O step): five NON, one CON, then NON again (a non-confirmable
   notification does not wait for the NSTART window) *)
Definition w_ops_cadence : list ob_op :=
  [ObOpRegister 0 1 w_tok w_opts;
   ObOpChange 0; ObOpIoStep []; ObOpChange 0; ObOpIoStep []; ObOpChange 0; ObOpIoStep [];
   ObOpChange 0; ObOpIoStep []; ObOpChange 0; ObOpIoStep []; ObOpChange 0; ObOpIoStep [];
   ObOpChange 0; ObOpIoStep [(1, 1)]; ObOpChange 0; ObOpIoStep [(1, 1)];
   ObOpAck 1 5; ObOpIoStep []].

Lemma w_cadence_outputs :
  concat (map snd (snd (ob_run w_p (ob_init [(0, 2)]) w_ops_cadence))) =
  [ObRegResp 0 1 w_tok (Some 2);
   ObNotify 0 0 1 w_tok 3 false; ObNotify 1 0 1 w_tok 4 false; ObNotify 2 0 1 w_tok 5 false;
   ObNotify 3 0 1 w_tok 6 false; ObNotify 4 0 1 w_tok 7 false; ObNotify 5 0 1 w_tok 8 true;
   ObNotify 6 0 1 w_tok 9 false; ObNotify 7 0 1 w_tok 10 false].
Proof. vm_compute. reflexivity. Qed.

(* NOTIFY_CON resource: the second change finds the window full (con_active = 1) and is held
   back, a third change arrives, the ACK frees the slot and ONE notification with the latest
   value (5) goes out *)
Definition w_ops_held : list ob_op :=
  [ObOpRegister 0 1 w_tok w_opts; ObOpChange 0; ObOpIoStep []; ObOpChange 0; ObOpIoStep [(1, 1)];
   ObOpChange 0; ObOpIoStep [(1, 1)]; ObOpAck 1 0; ObOpIoStep []].

Lemma w_held_outputs :
  concat (map snd (snd (ob_run w_p (ob_init [(1, 2)]) w_ops_held))) =
  [ObRegResp 0 1 w_tok (Some 2); ObNotify 0 0 1 w_tok 3 true; ObNotify 1 0 1 w_tok 5 true].
Proof. vm_compute. reflexivity. Qed.

Lemma w_held_accepted :
  ac_accepts (ac_mk_cf [1] 1 5 false) (snd (ob_run w_p (ob_init [(1, 2)]) w_ops_held)) = true.
Proof. vm_compute. reflexivity. Qed.

Lemma w_cadence_accepted :
  ac_accepts (w_cfg false) (snd (ob_run w_p (ob_init [(0, 2)]) w_ops_cadence)) = true.
Proof. vm_compute. reflexivity. Qed.

(* the acceptor is not trivially true: a notification after an Observe:1 request is rejected *)
Lemma w_rejects_notify_after_cancel :
  ac_accepts (w_cfg false)
    [(ObOpRegister 0 1 w_tok w_opts, [ObRegResp 0 1 w_tok (Some 2)]);
     (ObOpCancel 0 1 w_tok w_opts, []);
     (ObOpChange 0, []);
     (ObOpIoStep [], [ObNotify 0 0 1 w_tok 3 false])] = false.
Proof. vm_compute. reflexivity. Qed.

(* ... a seventh non-confirmable notification in a row is rejected *)
Lemma w_rejects_seven_non :
  ac_accepts (w_cfg false)
    [(ObOpRegister 0 1 w_tok w_opts, [ObRegResp 0 1 w_tok (Some 2)]);
     (ObOpChange 0, []); (ObOpIoStep [], [ObNotify 0 0 1 w_tok 3 false]);
     (ObOpChange 0, []); (ObOpIoStep [], [ObNotify 1 0 1 w_tok 4 false]);
     (ObOpChange 0, []); (ObOpIoStep [], [ObNotify 2 0 1 w_tok 5 false]);
     (ObOpChange 0, []); (ObOpIoStep [], [ObNotify 3 0 1 w_tok 6 false]);
     (ObOpChange 0, []); (ObOpIoStep [], [ObNotify 4 0 1 w_tok 7 false]);
     (ObOpChange 0, []); (ObOpIoStep [], [ObNotify 5 0 1 w_tok 8 false])] = false.
Proof. vm_compute. reflexivity. Qed.

(* ... and so is an observer that is skipped although its NSTART window is free *)
Lemma w_rejects_skipped_observer :
  ac_accepts (w_cfg false)
    [(ObOpRegister 0 1 w_tok w_opts, [ObRegResp 0 1 w_tok (Some 2)]);
     (ObOpChange 0, []); (ObOpIoStep [], [])] = false.
Proof. vm_compute. reflexivity. Qed.

(* F-C11-2: the property counts any "Reset in reply to a notification"; libcoap (and therefore the
   model) honours an RST only for a confirmable notification that is still in the send queue or for
   the observer's latest notification.  An RST for the older of two NON notifications is ignored
   and the next change is still notified: the strict acceptor rejects this history of the model. *)
Definition w_ops_stale_rst : list ob_op :=
  [ObOpRegister 0 1 w_tok w_opts; ObOpChange 0; ObOpIoStep []; ObOpChange 0; ObOpIoStep [];
   ObOpRst 1 0; ObOpChange 0; ObOpIoStep []].

Lemma w_stale_rst_refuted :
  exists ops, ac_accepts (w_cfg true) (snd (ob_run w_p (ob_init [(0, 2)]) ops)) = false /\
              ac_accepts (w_cfg false) (snd (ob_run w_p (ob_init [(0, 2)]) ops)) = true.
Proof. exists w_ops_stale_rst. split; vm_compute; reflexivity. Qed.

(* the RST for the latest notification does de-register in both readings *)
Lemma w_fresh_rst_accepted :
  ac_accepts (w_cfg true)
    (snd (ob_run w_p (ob_init [(0, 2)])
            [ObOpRegister 0 1 w_tok w_opts; ObOpChange 0; ObOpIoStep []; ObOpChange 0; ObOpIoStep [];
             ObOpRst 1 1; ObOpChange 0; ObOpIoStep []])) = true.
Proof. vm_compute. reflexivity. Qed.

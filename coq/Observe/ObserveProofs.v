(* C11 - invariants of the Observe model (coq/Observe/Observe.v), proved for every op sequence:
   no two subscriptions of a resource share (session, token) or (session, cache key)
   (a re-registration replaces, never duplicates); the Observe counter stays a 24-bit number;
   the pending flags are consistent (dirty subscription => partiallydirty resource => context
   observe_pending), which is what makes "the latest state is eventually notified" true. *)
From LibcoapV Require Import Base.Tactics Observe.Observe.
Local Open Scope Z_scope.

(* ------------------------------------------------------------------ equality tests *)

Lemma ob_bytes_eqb_eq : forall a b, ob_bytes_eqb a b = true <-> a = b.
Proof.
  induction a as [|x a IH]; destruct b as [|y b]; cbn [ob_bytes_eqb]; split; intro H;
    try reflexivity; try discriminate.
  - apply andb_true_iff in H. destruct H as [H1 H2]. apply Z.eqb_eq in H1. apply IH in H2.
    subst. reflexivity.
  - inversion H; subst. apply andb_true_iff. split; [apply Z.eqb_refl | apply IH; reflexivity].
Qed.

Lemma ob_bytes_eqb_refl : forall a, ob_bytes_eqb a a = true.
Proof. intro a. apply ob_bytes_eqb_eq. reflexivity. Qed.

Lemma ob_opts_eqb_eq : forall a b, ob_opts_eqb a b = true <-> a = b.
Proof.
  induction a as [|[n v] a IH]; destruct b as [|[m w] b]; cbn [ob_opts_eqb]; split; intro H;
    try reflexivity; try discriminate.
  - apply andb_true_iff in H. destruct H as [H H3]. apply andb_true_iff in H. destruct H as [H1 H2].
    apply Z.eqb_eq in H1. apply ob_bytes_eqb_eq in H2. apply IH in H3. subst. reflexivity.
  - inversion H; subst. rewrite Z.eqb_refl, ob_bytes_eqb_refl. cbn [andb]. apply IH. reflexivity.
Qed.

Lemma ob_opts_eqb_refl : forall a, ob_opts_eqb a a = true.
Proof. intro a. apply ob_opts_eqb_eq. reflexivity. Qed.

Definition ob_kt (x : ob_sub) : Z * ob_tok := (obsb_sess x, obsb_tok x).
Definition ob_kk (x : ob_sub) : Z * ob_opts := (obsb_sess x, obsb_key x).

Lemma ob_sub_is_kt : forall s t x, ob_sub_is s t x = true <-> ob_kt x = (s, t).
Proof.
  intros s t x. unfold ob_sub_is, ob_kt. rewrite andb_true_iff, Z.eqb_eq, ob_bytes_eqb_eq.
  split; [intros [A B]; subst; reflexivity | intro H; inversion H; auto].
Qed.

Lemma ob_sub_keyis_kk : forall s k x, ob_sub_keyis s k x = true <-> ob_kk x = (s, k).
Proof.
  intros s k x. unfold ob_sub_keyis, ob_kk. rewrite andb_true_iff, Z.eqb_eq, ob_opts_eqb_eq.
  split; [intros [A B]; subst; reflexivity | intro H; inversion H; auto].
Qed.

(* ------------------------------------------------------------------ find / remove1 *)

Section FindRemove.
  Context {A : Type}.

  Lemma ob_find_some : forall (f : A -> bool) l x, ob_find f l = Some x -> In x l /\ f x = true.
  Proof.
    induction l as [|y l IH]; cbn [ob_find]; intros x H; [discriminate|].
    destruct (f y) eqn:E.
    - inversion H; subst. split; [left; reflexivity | assumption].
    - apply IH in H. destruct H. split; [right|]; assumption.
  Qed.

  Lemma ob_find_none : forall (f : A -> bool) l, ob_find f l = None -> forall x, In x l -> f x = false.
  Proof.
    induction l as [|y l IH]; cbn [ob_find]; intros H x Hin; [destruct Hin|].
    destruct (f y) eqn:E; [discriminate|]. destruct Hin as [->|Hin]; [assumption | apply IH; assumption].
  Qed.

  Lemma ob_find_none_iff : forall (f : A -> bool) l,
    ob_find f l = None <-> (forall x, In x l -> f x = false).
  Proof.
    intros f l. split; [apply ob_find_none|].
    induction l as [|y l IH]; cbn [ob_find]; intro H; [reflexivity|].
    rewrite (H y (or_introl eq_refl)). apply IH. intros x Hx. apply H. right. assumption.
  Qed.

  Lemma ob_remove1_in : forall (f : A -> bool) l x, In x (fst (ob_remove1 f l)) -> In x l.
  Proof.
    induction l as [|y l IH]; cbn [ob_remove1]; intros x H; [assumption|].
    destruct (f y).
    - right. assumption.
    - destruct (ob_remove1 f l) as [l' b]. cbn [fst] in *. destruct H as [->|H]; [left; reflexivity|].
      right. apply IH. assumption.
  Qed.

  Lemma ob_remove1_keeps : forall (f : A -> bool) l x,
    In x l -> f x = false -> In x (fst (ob_remove1 f l)).
  Proof.
    induction l as [|y l IH]; cbn [ob_remove1]; intros x H Hf; [assumption|].
    destruct (f y) eqn:E.
    - destruct H as [->|H]; [congruence | assumption].
    - destruct (ob_remove1 f l) as [l' b] eqn:R. cbn [fst] in *.
      destruct H as [->|H]; [left; reflexivity | right; apply IH; assumption].
  Qed.

  Lemma ob_remove1_nodup : forall {B} (g : A -> B) (f : A -> bool) l,
    NoDup (map g l) -> NoDup (map g (fst (ob_remove1 f l))).
  Proof.
    induction l as [|y l IH]; cbn [ob_remove1 map]; intro H; [constructor|].
    inversion H as [|? ? Hn Hd]; subst. destruct (f y).
    - assumption.
    - destruct (ob_remove1 f l) as [l' b] eqn:R. cbn [fst map] in *. constructor.
      + intro Hin. apply Hn. apply in_map_iff in Hin. destruct Hin as [z [Hz Hin]].
        apply in_map_iff. exists z. split; [assumption|].
        assert (In z (fst (ob_remove1 f l))) by (rewrite R; assumption).
        eapply ob_remove1_in; eassumption.
      + apply IH. assumption.
  Qed.

  (* when the predicate singles out one projection value and projections are unique, nothing
     that satisfies it is left *)
  Lemma ob_remove1_gone : forall {B} (g : A -> B) (f : A -> bool) (v : B) l,
    (forall x, f x = true <-> g x = v) -> NoDup (map g l) ->
    forall x, In x (fst (ob_remove1 f l)) -> f x = false.
  Proof.
    intros B g f v l Hf. induction l as [|y l IH]; cbn [ob_remove1 map]; intros Hd x Hin;
      [destruct Hin|].
    inversion Hd as [|? ? Hn Hd']; subst. destruct (f y) eqn:E.
    - destruct (f x) eqn:Ex; [|reflexivity]. exfalso. apply Hn.
      apply Hf in E. apply Hf in Ex. rewrite E, <- Ex. apply in_map. assumption.
    - destruct (ob_remove1 f l) as [l' b] eqn:R. cbn [fst] in *.
      destruct Hin as [->|Hin]; [assumption | apply IH; assumption].
  Qed.

  Lemma ob_remove1_flag : forall (f : A -> bool) l,
    snd (ob_remove1 f l) = match ob_find f l with Some _ => true | None => false end.
  Proof.
    induction l as [|y l IH]; cbn [ob_remove1 ob_find]; [reflexivity|].
    destruct (f y); [reflexivity|]. destruct (ob_remove1 f l) as [l' b]. cbn [snd] in *. assumption.
  Qed.

  Lemma ob_remove1_none : forall (f : A -> bool) l, ob_find f l = None -> fst (ob_remove1 f l) = l.
  Proof.
    induction l as [|y l IH]; cbn [ob_remove1 ob_find]; intro H; [reflexivity|].
    destruct (f y); [discriminate|]. destruct (ob_remove1 f l) as [l' b]. cbn [fst] in *.
    f_equal. apply IH. assumption.
  Qed.
End FindRemove.

(* ------------------------------------------------------------------ uniqueness of subscriptions *)

Definition ob_uniq (l : list ob_sub) : Prop := NoDup (map ob_kt l) /\ NoDup (map ob_kk l).

Lemma ob_uniq_remove1 : forall f l, ob_uniq l -> ob_uniq (fst (ob_remove1 f l)).
Proof. intros f l [A B]. split; apply ob_remove1_nodup; assumption. Qed.

Lemma ob_uniq_filter : forall f l, ob_uniq l -> ob_uniq (filter f l).
Proof.
  intros f l [A B]. split.
  - clear B. induction l as [|x l IH]; cbn [filter map]; [constructor|].
    inversion A as [|? ? Hn Hd]; subst. destruct (f x); cbn [map]; [|apply IH; assumption].
    constructor; [|apply IH; assumption]. intro H. apply Hn. apply in_map_iff in H.
    destruct H as [z [Hz Hin]]. apply filter_In in Hin. apply in_map_iff. exists z. tauto.
  - clear A. induction l as [|x l IH]; cbn [filter map]; [constructor|].
    inversion B as [|? ? Hn Hd]; subst. destruct (f x); cbn [map]; [|apply IH; assumption].
    constructor; [|apply IH; assumption]. intro H. apply Hn. apply in_map_iff in H.
    destruct H as [z [Hz Hin]]. apply filter_In in Hin. apply in_map_iff. exists z. tauto.
Qed.

(* coap_add_observer keeps the list free of duplicates: the heart of "replaces, never duplicates" *)
Lemma ob_add_observer_uniq : forall s t o l,
  ob_uniq l -> ob_uniq (fst (ob_add_observer s t o l)).
Proof.
  intros s t o l U. unfold ob_add_observer.
  destruct (ob_find (ob_sub_is s t) l) as [e|] eqn:Ft; [exact U|].
  assert (Nt : forall x, In x l -> ob_kt x <> (s, t)).
  { intros x Hx Hk. apply ob_sub_is_kt in Hk. rewrite (ob_find_none _ _ Ft x Hx) in Hk. discriminate. }
  destruct (ob_find (ob_sub_keyis s (ob_key o)) l) as [old|] eqn:Fk.
  - destruct (ob_remove1 (ob_sub_is s (obsb_tok old)) l) as [l' b] eqn:R. cbn [fst].
    assert (El : l' = fst (ob_remove1 (ob_sub_is s (obsb_tok old)) l)) by (rewrite R; reflexivity).
    pose proof (ob_uniq_remove1 (ob_sub_is s (obsb_tok old)) l U) as U'. rewrite <- El in U'.
    destruct U as [Ut Uk]. destruct U' as [Ut' Uk'].
    apply ob_find_some in Fk. destruct Fk as [Hold Hkk]. apply ob_sub_keyis_kk in Hkk.
    split; cbn [map]; constructor; try assumption.
    + intro H. apply in_map_iff in H. destruct H as [z [Hz Hin]]. unfold ob_kt in Hz. cbn in Hz.
      rewrite El in Hin. apply ob_remove1_in in Hin. apply (Nt z Hin). exact Hz.
    + (* nobody else has the key: the only holder was removed *)
      intro H. apply in_map_iff in H. destruct H as [z [Hz Hin]]. unfold ob_kk at 2 in Hz. cbn in Hz.
      rewrite El in Hin.
      assert (Hzl : In z l) by (eapply ob_remove1_in; eassumption).
      (* z and old have the same key projection, hence are the same element's projection *)
      assert (Hsame : ob_kk z = ob_kk old) by (rewrite Hz, Hkk; reflexivity).
      assert (Hzt : ob_sub_is s (obsb_tok old) z = false).
      { exact (ob_remove1_gone ob_kt (ob_sub_is s (obsb_tok old)) (s, obsb_tok old) l
                 (fun x => ob_sub_is_kt s (obsb_tok old) x) Ut z Hin). }
      (* but equal key projections in a NoDup list mean equal elements *)
      assert (z = old).
      { clear - Uk Hzl Hold Hsame. induction l as [|y l IH]; [destruct Hzl|].
        cbn [map] in Uk. inversion Uk as [|? ? Hn Hd]; subst.
        destruct Hzl as [->|Hzl]; destruct Hold as [Ho|Ho]; subst; auto.
        - exfalso. apply Hn. rewrite Hsame. apply in_map. assumption.
        - exfalso. apply Hn. rewrite <- Hsame. apply in_map. assumption. }
      subst z. unfold ob_kk in Hkk. inversion Hkk as [[Hs Hk]].
      unfold ob_sub_is in Hzt. rewrite Hs, Z.eqb_refl, ob_bytes_eqb_refl in Hzt. discriminate.
  - cbn [fst]. destruct U as [Ut Uk]. split; cbn [map]; constructor; try assumption.
    + intro H. apply in_map_iff in H. destruct H as [z [Hz Hin]]. apply (Nt z Hin). exact Hz.
    + intro H. apply in_map_iff in H. destruct H as [z [Hz Hin]].
      pose proof (ob_find_none _ _ Fk z Hin) as Hf.
      assert (ob_sub_keyis s (ob_key o) z = true) by (apply ob_sub_keyis_kk; exact Hz). congruence.
Qed.

(* ------------------------------------------------------------------ resources by id *)

Lemma ob_get_res_split : forall r rs x, ob_get_res r rs = Some x ->
  exists a b, rs = a ++ x :: b /\ obrs_id x = r /\ (forall y, In y a -> obrs_id y <> r).
Proof.
  induction rs as [|y rs IH]; cbn [ob_get_res]; intros x H; [discriminate|].
  destruct (obrs_id y =? r) eqn:E.
  - inversion H; subst. exists [], rs. apply Z.eqb_eq in E. split; [reflexivity|]. split; [assumption|].
    intros ? [].
  - destruct (IH x H) as [a [b [E1 [E2 E3]]]]. exists (y :: a), b. subst rs. split; [reflexivity|].
    split; [assumption|]. intros z [->|Hz]; [apply Z.eqb_neq; assumption | apply E3; assumption].
Qed.

Lemma ob_get_res_none : forall r rs, ob_get_res r rs = None -> forall y, In y rs -> obrs_id y <> r.
Proof.
  induction rs as [|y rs IH]; cbn [ob_get_res]; intros H z Hz; [destruct Hz|].
  destruct (obrs_id y =? r) eqn:E; [discriminate|].
  destruct Hz as [->|Hz]; [apply Z.eqb_neq; assumption | apply IH; assumption].
Qed.

Lemma ob_upd_res_split : forall r f a x b,
  obrs_id x = r -> (forall y, In y a -> obrs_id y <> r) ->
  ob_upd_res r f (a ++ x :: b) = a ++ f x :: b.
Proof.
  induction a as [|y a IH]; cbn [ob_upd_res app]; intros x b Hx Ha.
  - rewrite Hx, Z.eqb_refl. reflexivity.
  - assert (obrs_id y =? r = false) as -> by (apply Z.eqb_neq; apply Ha; left; reflexivity).
    f_equal. apply IH; [assumption|]. intros z Hz. apply Ha. right. assumption.
Qed.

Lemma ob_upd_res_none : forall r f rs, ob_get_res r rs = None -> ob_upd_res r f rs = rs.
Proof.
  induction rs as [|y rs IH]; cbn [ob_get_res ob_upd_res]; intro H; [reflexivity|].
  destruct (obrs_id y =? r); [discriminate|]. f_equal. apply IH. assumption.
Qed.

Lemma ob_get_res_app : forall r a x b,
  obrs_id x = r -> (forall y, In y a -> obrs_id y <> r) -> ob_get_res r (a ++ x :: b) = Some x.
Proof.
  induction a as [|y a IH]; cbn [ob_get_res app]; intros x b Hx Ha.
  - rewrite Hx, Z.eqb_refl. reflexivity.
  - assert (obrs_id y =? r = false) as -> by (apply Z.eqb_neq; apply Ha; left; reflexivity).
    apply IH; [assumption|]. intros z Hz. apply Ha. right. assumption.
Qed.

Lemma ob_drop_res_split : forall r a x b,
  obrs_id x = r -> (forall y, In y a -> obrs_id y <> r) -> ob_drop_res r (a ++ x :: b) = a ++ b.
Proof.
  induction a as [|y a IH]; cbn [ob_drop_res app]; intros x b Hx Ha.
  - rewrite Hx, Z.eqb_refl. reflexivity.
  - assert (obrs_id y =? r = false) as -> by (apply Z.eqb_neq; apply Ha; left; reflexivity).
    f_equal. apply IH; [assumption|]. intros z Hz. apply Ha. right. assumption.
Qed.

(* ------------------------------------------------------------------ the invariant *)

Definition ob_res_ok (r : ob_res) : Prop :=
  ob_uniq (obrs_subs r) /\ 0 <= obrs_obs r < 16777216 /\
  (forall x, In x (obrs_subs r) -> obsb_dirty x = true -> obrs_pdirty r = true).

Definition ob_ok (st : ob_state) : Prop :=
  NoDup (map obrs_id (obst_res st)) /\ Forall ob_res_ok (obst_res st) /\
  (forall r, In r (obst_res st) -> obrs_dirty r = true \/ obrs_pdirty r = true -> obst_pending st = true).

(* changing one resource in place *)
Lemma ob_upd_res_ok : forall r f rs,
  (forall x, obrs_id (f x) = obrs_id x) ->
  (forall x, ob_get_res r rs = Some x -> ob_res_ok x -> ob_res_ok (f x)) ->
  NoDup (map obrs_id rs) -> Forall ob_res_ok rs ->
  NoDup (map obrs_id (ob_upd_res r f rs)) /\ Forall ob_res_ok (ob_upd_res r f rs).
Proof.
  intros r f rs Hid Hok Hnd Hall.
  destruct (ob_get_res r rs) as [x|] eqn:G.
  - destruct (ob_get_res_split _ _ _ G) as [a [b [E1 [E2 E3]]]]. subst rs.
    rewrite (ob_upd_res_split r f a x b E2 E3). split.
    + rewrite map_app in *. cbn [map] in *. rewrite Hid. assumption.
    + apply Forall_app in Hall. destruct Hall as [Ha Hb]. inversion Hb; subst.
      apply Forall_app. split; [assumption|]. constructor; [apply Hok; auto | assumption].
  - rewrite (ob_upd_res_none _ _ _ G). split; assumption.
Qed.

Lemma ob_upd_res_in : forall r f rs y, In y (ob_upd_res r f rs) ->
  In y rs \/ exists x, ob_get_res r rs = Some x /\ y = f x.
Proof.
  intros r f rs y H. destruct (ob_get_res r rs) as [x|] eqn:G.
  - destruct (ob_get_res_split _ _ _ G) as [a [b [E1 [E2 E3]]]]. subst rs.
    rewrite (ob_upd_res_split r f a x b E2 E3) in H. apply in_app_iff in H.
    destruct H as [H|[H|H]].
    + left. apply in_app_iff. left. assumption.
    + right. exists x. split; [reflexivity | symmetry; assumption].
    + left. apply in_app_iff. right. right. assumption.
  - rewrite (ob_upd_res_none _ _ _ G) in H. left. assumption.
Qed.

Lemma ob_set_subs_ok : forall x l,
  ob_res_ok x -> ob_uniq l ->
  (forall y, In y l -> obsb_dirty y = true -> exists z, In z (obrs_subs x) /\ obsb_dirty z = true) ->
  ob_res_ok (ob_set_subs x l).
Proof.
  intros x l [U [R D]] Ul Hd. unfold ob_res_ok, ob_set_subs. cbn.
  split; [assumption|]. split; [assumption|]. intros y Hy Hdy.
  destruct (Hd y Hy Hdy) as [z [Hz Hdz]]. eapply D; eassumption.
Qed.

(* ------------------------------------------------------------------ touch *)

Lemma ob_touch_sub_kt : forall s t x, ob_kt (ob_touch_sub s t x) = ob_kt x.
Proof. intros. unfold ob_touch_sub. destruct (ob_sub_is s t x); reflexivity. Qed.
Lemma ob_touch_sub_kk : forall s t x, ob_kk (ob_touch_sub s t x) = ob_kk x.
Proof. intros. unfold ob_touch_sub. destruct (ob_sub_is s t x); reflexivity. Qed.
Lemma ob_touch_sub_dirty : forall s t x, obsb_dirty (ob_touch_sub s t x) = obsb_dirty x.
Proof. intros. unfold ob_touch_sub. destruct (ob_sub_is s t x); reflexivity. Qed.

Lemma ob_touch_res_ok : forall s t r,
  ob_res_ok r -> ob_res_ok (ob_set_subs r (map (ob_touch_sub s t) (obrs_subs r))).
Proof.
  intros s t r H. apply ob_set_subs_ok; [assumption| |].
  - destruct H as [[A B] _]. split; rewrite map_map.
    + rewrite (map_ext _ ob_kt); [assumption | intro; apply ob_touch_sub_kt].
    + rewrite (map_ext _ ob_kk); [assumption | intro; apply ob_touch_sub_kk].
  - intros y Hy Hd. apply in_map_iff in Hy. destruct Hy as [z [Hz Hin]]. subst y.
    rewrite ob_touch_sub_dirty in Hd. exists z. split; assumption.
Qed.

Lemma ob_touch_ok : forall s t rs,
  NoDup (map obrs_id rs) -> Forall ob_res_ok rs ->
  NoDup (map obrs_id (ob_touch s t rs)) /\ Forall ob_res_ok (ob_touch s t rs).
Proof.
  intros s t rs Hnd Hall. unfold ob_touch. split.
  - rewrite map_map. cbn. assumption.
  - apply Forall_map. eapply Forall_impl; [|exact Hall]. intros r Hr. apply ob_touch_res_ok. assumption.
Qed.

Lemma ob_touch_flags : forall s t rs y, In y (ob_touch s t rs) ->
  exists x, In x rs /\ obrs_dirty y = obrs_dirty x /\ obrs_pdirty y = obrs_pdirty x.
Proof.
  intros s t rs y H. unfold ob_touch in H. apply in_map_iff in H. destruct H as [x [Hx Hin]].
  exists x. subst y. cbn. auto.
Qed.

(* ------------------------------------------------------------------ the notify loop *)

Lemma ob_notify_subs_proj : forall {B} (g : ob_sub -> B),
  (forall x n f d k, g (ob_mk_sub (obsb_sess x) (obsb_tok x) (obsb_key x) n f d k) = g x) ->
  forall p r subs l,
    incl (map g (fst (fst (fst (ob_notify_subs p r subs l))))) (map g subs) /\
    (NoDup (map g subs) -> NoDup (map g (fst (fst (fst (ob_notify_subs p r subs l)))))).
Proof.
  intros B g Hg p r. induction subs as [|x tl IH]; intro l; cbn [ob_notify_subs].
  - cbn. split; [apply incl_refl | auto].
  - destruct (negb (obrs_dirty r) && negb (obsb_dirty x)).
    { destruct (ob_notify_subs p r tl (ob_lp_pend l)) as [[[tl' pd] l'] outs] eqn:E.
      specialize (IH (ob_lp_pend l)). rewrite E in IH. cbn [fst map] in *. destruct IH as [I N].
      split.
      - intros z [->|Hz]; [left; reflexivity | right; apply I; assumption].
      - intro H. inversion H; subst. constructor; [|apply N; assumption].
        intro Hin. apply I in Hin. contradiction. }
    destruct (ob_blocked p (obrs_mode r) (oblp_ca l) x).
    { destruct (ob_notify_subs p r tl (ob_lp_pend l)) as [[[tl' pd] l'] outs] eqn:E.
      specialize (IH (ob_lp_pend l)). rewrite E in IH. cbn [fst map] in *. destruct IH as [I N].
      rewrite Hg. split.
      - intros z [->|Hz]; [left; reflexivity | right; apply I; assumption].
      - intro H. inversion H; subst. constructor; [|apply N; assumption].
        intro Hin. apply I in Hin. contradiction. }
    destruct (ob_in_transfer (oblp_ca l) (obsb_sess x)).
    { destruct (ob_notify_subs p r tl (ob_lp_pend l)) as [[[tl' pd] l'] outs] eqn:E.
      specialize (IH (ob_lp_pend l)). rewrite E in IH. cbn [fst map] in *. destruct IH as [I N].
      rewrite Hg. split.
      - intros z [->|Hz]; [left; reflexivity | right; apply I; assumption].
      - intro H. inversion H; subst. constructor; [|apply N; assumption].
        intro Hin. apply I in Hin. contradiction. }
    destruct (obrs_err r).
    { match goal with |- context [ob_notify_subs p r tl ?L] =>
        destruct (ob_notify_subs p r tl L) as [[[tl' pd] l'] outs] eqn:E; specialize (IH L) end.
      rewrite E in IH. cbn [fst map] in *. destruct IH as [I N]. split.
      - intros z Hz. right. apply I. assumption.
      - intro H. inversion H; subst. apply N. assumption. }
    match goal with |- context [ob_notify_subs p r tl ?L] =>
      destruct (ob_notify_subs p r tl L) as [[[tl' pd] l'] outs] eqn:E; specialize (IH L) end.
    rewrite E in IH. cbn [fst map] in *. destruct IH as [I N]. rewrite Hg. split.
    + intros z [->|Hz]; [left; reflexivity | right; apply I; assumption].
    + intro H. inversion H; subst. constructor; [|apply N; assumption].
      intro Hin. apply I in Hin. contradiction.
Qed.

Lemma ob_notify_subs_uniq : forall p r subs l,
  ob_uniq subs -> ob_uniq (fst (fst (fst (ob_notify_subs p r subs l)))).
Proof.
  intros p r subs l [A B]. split.
  - apply (ob_notify_subs_proj ob_kt); [reflexivity | assumption].
  - apply (ob_notify_subs_proj ob_kk); [reflexivity | assumption].
Qed.

Lemma ob_notify_subs_flags : forall p r subs l subs' pd l' outs,
  ob_notify_subs p r subs l = (subs', pd, l', outs) ->
  (forall x, In x subs' -> obsb_dirty x = true -> pd = true) /\
  (pd = true -> oblp_pend l' = true) /\ (oblp_pend l = true -> oblp_pend l' = true).
Proof.
  intros p r. induction subs as [|x tl IH]; intros l subs' pd l' outs H; cbn [ob_notify_subs] in H.
  - inversion H; subst. split; [intros ? []|]. split; [discriminate | auto].
  - destruct (negb (obrs_dirty r) && negb (obsb_dirty x)) eqn:C1.
    { destruct (ob_notify_subs p r tl (ob_lp_pend l)) as [[[tl' pd0] l0] outs0] eqn:E.
      inversion H; subst. destruct (IH _ _ _ _ _ E) as [I1 [I2 I3]].
      split; [|split; [assumption | intros _; apply I3; reflexivity]].
      intros z [<-|Hz] Hd; [|eapply I1; eassumption].
      apply andb_true_iff in C1. destruct C1 as [_ C1]. rewrite Hd in C1. discriminate. }
    destruct (ob_blocked p (obrs_mode r) (oblp_ca l) x).
    { destruct (ob_notify_subs p r tl (ob_lp_pend l)) as [[[tl' pd0] l0] outs0] eqn:E.
      inversion H; subst. destruct (IH _ _ _ _ _ E) as [I1 [I2 I3]].
      split; [auto|]. split; intros _; apply I3; reflexivity. }
    destruct (ob_in_transfer (oblp_ca l) (obsb_sess x)).
    { destruct (ob_notify_subs p r tl (ob_lp_pend l)) as [[[tl' pd0] l0] outs0] eqn:E.
      inversion H; subst. destruct (IH _ _ _ _ _ E) as [I1 [I2 I3]].
      split; [auto|]. split; intros _; apply I3; reflexivity. }
    destruct (obrs_err r).
    { match type of H with context [ob_notify_subs p r tl ?L] =>
        destruct (ob_notify_subs p r tl L) as [[[tl' pd0] l0] outs0] eqn:E end.
      inversion H; subst. destruct (IH _ _ _ _ _ E) as [I1 [I2 I3]].
      split; [assumption|]. split; [assumption|]. intro Hp. apply I3. cbn. assumption. }
    match type of H with context [ob_notify_subs p r tl ?L] =>
      destruct (ob_notify_subs p r tl L) as [[[tl' pd0] l0] outs0] eqn:E end.
    inversion H; subst. destruct (IH _ _ _ _ _ E) as [I1 [I2 I3]].
    split; [|split; [assumption | intro Hp; apply I3; cbn; assumption]].
    intros z [<-|Hz] Hd; [cbn in Hd; discriminate | eapply I1; eassumption].
Qed.

Lemma ob_notify_res_ok : forall p r l r' l' outs,
  ob_notify_res p r l = (r', l', outs) -> ob_res_ok r ->
  ob_res_ok r' /\ obrs_id r' = obrs_id r /\ obrs_dirty r' = false /\
  (obrs_pdirty r' = true -> oblp_pend l' = true) /\ (oblp_pend l = true -> oblp_pend l' = true).
Proof.
  intros p r l r' l' outs H [U [R D]]. unfold ob_notify_res in H.
  destruct (obrs_dirty r || obrs_pdirty r) eqn:C.
  - destruct (ob_notify_subs p r (obrs_subs r) l) as [[[subs' pd] l0] outs0] eqn:E.
    inversion H; subst. destruct (ob_notify_subs_flags _ _ _ _ _ _ _ _ E) as [I1 [I2 I3]].
    pose proof (ob_notify_subs_uniq p r (obrs_subs r) l U) as U'. rewrite E in U'. cbn [fst] in U'.
    unfold ob_res_ok. cbn. repeat split; try assumption; try (apply R); try (apply U').
  - inversion H; subst. apply orb_false_iff in C. destruct C as [C1 C2].
    unfold ob_res_ok. cbn. repeat split; try assumption; try (apply R); try (apply U); auto.
    rewrite C2. discriminate.
Qed.

Lemma ob_notify_all_ok : forall p rs l rs' l' outs,
  ob_notify_all p rs l = (rs', l', outs) -> Forall ob_res_ok rs ->
  Forall ob_res_ok rs' /\ map obrs_id rs' = map obrs_id rs /\
  (forall r', In r' rs' -> obrs_dirty r' = false /\ (obrs_pdirty r' = true -> oblp_pend l' = true)) /\
  (oblp_pend l = true -> oblp_pend l' = true).
Proof.
  intros p. induction rs as [|r tl IH]; intros l rs' l' outs H Hall; cbn [ob_notify_all] in H.
  - inversion H; subst. split; [constructor|]. split; [reflexivity|]. split; [intros ? [] | auto].
  - destruct (ob_notify_res p r l) as [[r1 l1] o1] eqn:E1.
    destruct (ob_notify_all p tl l1) as [[tl' l2] o2] eqn:E2. inversion H; subst.
    inversion Hall; subst.
    destruct (ob_notify_res_ok _ _ _ _ _ _ E1 H2) as [K1 [K2 [K3 [K4 K5]]]].
    destruct (IH _ _ _ _ E2 H3) as [J1 [J2 [J3 J4]]].
    split; [constructor; assumption|]. split; [cbn [map]; congruence|]. split.
    + intros z [<-|Hz]; [split; [assumption | intro Hp; apply J4; apply K4; assumption] | apply J3; assumption].
    + intro Hp. apply J4. apply K5. assumption.
Qed.

(* ------------------------------------------------------------------ every op keeps the invariant *)

Definition ob_flags (x : ob_res) : bool * bool := (obrs_dirty x, obrs_pdirty x).

Lemma ob_ok_same_flags : forall st rs' pend fl nk rf,
  ob_ok st -> NoDup (map obrs_id rs') -> Forall ob_res_ok rs' ->
  (forall y, In y rs' -> exists x, In x (obst_res st) /\ ob_flags y = ob_flags x) ->
  (obst_pending st = true -> pend = true) ->
  ob_ok (ob_mk_st rs' pend fl nk rf).
Proof.
  intros st rs' pend fl nk rf [A [B C]] Hnd Hall Hfl Hp. unfold ob_ok. cbn.
  split; [assumption|]. split; [assumption|]. intros y Hy Hd.
  destruct (Hfl y Hy) as [x [Hx Hf]]. unfold ob_flags in Hf. inversion Hf as [[F1 F2]].
  apply Hp. apply (C x Hx). rewrite <- F1, <- F2. assumption.
Qed.

Lemma ob_upd_res_flags : forall r f rs y,
  (forall x, ob_flags (f x) = ob_flags x) -> In y (ob_upd_res r f rs) ->
  exists x, In x rs /\ ob_flags y = ob_flags x.
Proof.
  intros r f rs y Hf H. apply ob_upd_res_in in H. destruct H as [H|[x [G E]]].
  - exists y. auto.
  - exists x. subst y. destruct (ob_get_res_split _ _ _ G) as [a [b [E1 _]]]. subst rs.
    split; [apply in_app_iff; right; left; reflexivity | apply Hf].
Qed.

Lemma ob_add_observer_dirty : forall s t o l y,
  In y (fst (ob_add_observer s t o l)) -> obsb_dirty y = true -> In y l.
Proof.
  intros s t o l y H Hd. unfold ob_add_observer in H.
  destruct (ob_find (ob_sub_is s t) l); [exact H|].
  destruct (ob_find (ob_sub_keyis s (ob_key o)) l) as [old|].
  - destruct (ob_remove1 (ob_sub_is s (obsb_tok old)) l) as [l' b] eqn:R. cbn [fst] in H.
    destruct H as [<-|H]; [cbn in Hd; discriminate|].
    assert (In y (fst (ob_remove1 (ob_sub_is s (obsb_tok old)) l))) by (rewrite R; assumption).
    eapply ob_remove1_in; eassumption.
  - cbn [fst] in H. destruct H as [<-|H]; [cbn in Hd; discriminate | assumption].
Qed.

Lemma ob_res_ok_sublist : forall x l,
  ob_res_ok x -> ob_uniq l -> (forall y, In y l -> In y (obrs_subs x)) -> ob_res_ok (ob_set_subs x l).
Proof.
  intros x l H U I. apply ob_set_subs_ok; [assumption | assumption|].
  intros y Hy Hd. exists y. split; [apply I; assumption | assumption].
Qed.

Lemma ob_del_in_res_ok : forall s t x, ob_res_ok x -> ob_res_ok (fst (ob_del_in_res s t x)).
Proof.
  intros s t x H. unfold ob_del_in_res.
  destruct (ob_remove1 (ob_sub_is s t) (obrs_subs x)) as [l b] eqn:R. cbn [fst].
  assert (El : l = fst (ob_remove1 (ob_sub_is s t) (obrs_subs x))) by (rewrite R; reflexivity).
  apply ob_res_ok_sublist; [assumption | |].
  - rewrite El. apply ob_uniq_remove1. apply H.
  - intros y Hy. rewrite El in Hy. eapply ob_remove1_in; eassumption.
Qed.

Lemma ob_del_in_res_shape : forall s t x,
  obrs_id (fst (ob_del_in_res s t x)) = obrs_id x /\ ob_flags (fst (ob_del_in_res s t x)) = ob_flags x.
Proof.
  intros s t x. unfold ob_del_in_res. destruct (ob_remove1 (ob_sub_is s t) (obrs_subs x)). cbn. auto.
Qed.

Lemma ob_register_ok : forall st r s t o, ob_ok st -> ob_ok (fst (ob_register st r s t o)).
Proof.
  intros st r s t o Hok. unfold ob_register.
  destruct (ob_get_res r (obst_res st)) as [res|] eqn:G; [|exact Hok].
  destruct (ob_add_observer s t o (obrs_subs res)) as [l d] eqn:EA.
  assert (El : l = fst (ob_add_observer s t o (obrs_subs res))) by (rewrite EA; reflexivity).
  pose proof Hok as [A [B C]].
  assert (S1 : NoDup (map obrs_id (ob_upd_res r (fun x => ob_set_subs x l) (obst_res st))) /\
               Forall ob_res_ok (ob_upd_res r (fun x => ob_set_subs x l) (obst_res st))).
  { apply ob_upd_res_ok; try assumption; [reflexivity|].
    intros x Gx Hx. rewrite G in Gx. inversion Gx; subst x. apply ob_set_subs_ok; [assumption| |].
    - rewrite El. apply ob_add_observer_uniq. apply Hx.
    - intros y Hy Hd. exists y. split; [|assumption]. rewrite El in Hy.
      eapply ob_add_observer_dirty; eassumption. }
  destruct S1 as [S1a S1b].
  destruct (ob_touch_ok s t _ S1a S1b) as [S2a S2b].
  assert (F2 : forall y, In y (ob_touch s t (ob_upd_res r (fun x => ob_set_subs x l) (obst_res st))) ->
               exists x, In x (obst_res st) /\ ob_flags y = ob_flags x).
  { intros y Hy. apply ob_touch_flags in Hy. destruct Hy as [x1 [Hx1 [F1 F2]]].
    apply ob_upd_res_flags in Hx1; [|reflexivity]. destruct Hx1 as [x [Hx Hf]].
    exists x. split; [assumption|]. unfold ob_flags in *. rewrite F1, F2. assumption. }
  destruct (obrs_err res); cbn [fst].
  - match goal with |- ob_ok (ob_mk_st ?RS _ _ _ _) =>
      assert (S3 : NoDup (map obrs_id RS) /\ Forall ob_res_ok RS) end.
    { apply ob_upd_res_ok; try assumption.
      - intro x. apply ob_del_in_res_shape.
      - intros x _ Hx. apply ob_del_in_res_ok. assumption. }
    destruct S3 as [S3a S3b]. eapply ob_ok_same_flags; try eassumption; [|auto].
    intros y Hy. apply ob_upd_res_flags in Hy; [|intro; apply ob_del_in_res_shape].
    destruct Hy as [x1 [Hx1 Hf1]]. destruct (F2 x1 Hx1) as [x [Hx Hf]].
    exists x. split; [assumption | congruence].
  - eapply ob_ok_same_flags; try eassumption; auto.
Qed.

Lemma ob_cancel_subs_sub : forall s t o l,
  ob_uniq l -> ob_uniq (fst (ob_cancel_subs s t o l)) /\
  (forall y, In y (fst (ob_cancel_subs s t o l)) -> In y l).
Proof.
  intros s t o l U. unfold ob_cancel_subs.
  destruct (ob_find (ob_sub_is s t) l).
  - split; [apply ob_uniq_remove1; assumption | intros y; apply ob_remove1_in].
  - destruct (ob_find (ob_sub_keyis s (ob_key o)) l) as [old|].
    + split; [apply ob_uniq_remove1; assumption | intros y; apply ob_remove1_in].
    + cbn [fst]. auto.
Qed.

Lemma ob_cancel_ok : forall st r s t o, ob_ok st -> ob_ok (ob_cancel st r s t o).
Proof.
  intros st r s t o Hok. unfold ob_cancel.
  destruct (ob_get_res r (obst_res st)) as [res|] eqn:G; [|exact Hok].
  destruct (ob_cancel_subs s t o (obrs_subs res)) as [l b] eqn:EC.
  assert (El : l = fst (ob_cancel_subs s t o (obrs_subs res))) by (rewrite EC; reflexivity).
  pose proof Hok as [A [B C]].
  assert (S1 : NoDup (map obrs_id (ob_upd_res r (fun x => ob_set_subs x l) (obst_res st))) /\
               Forall ob_res_ok (ob_upd_res r (fun x => ob_set_subs x l) (obst_res st))).
  { apply ob_upd_res_ok; try assumption; [reflexivity|].
    intros x Gx Hx. rewrite G in Gx. inversion Gx; subst x.
    destruct (ob_cancel_subs_sub s t o (obrs_subs res) (proj1 Hx)) as [U I]. rewrite <- El in U, I.
    apply ob_res_ok_sublist; assumption. }
  destruct S1 as [S1a S1b]. eapply ob_ok_same_flags; try eassumption; [|auto].
  intros y Hy. apply ob_upd_res_flags in Hy; [assumption | reflexivity].
Qed.

Lemma ob_change_ok : forall st r, ob_ok st -> ob_ok (ob_change st r).
Proof.
  intros st r Hok. pose proof Hok as [A [B C]]. unfold ob_change, ob_ok. cbn.
  assert (S1 : NoDup (map obrs_id (ob_upd_res r ob_change_res (obst_res st))) /\
               Forall ob_res_ok (ob_upd_res r ob_change_res (obst_res st))).
  { apply ob_upd_res_ok; try assumption.
    - intro x. unfold ob_change_res. destruct (obrs_subs x); reflexivity.
    - intros x _ Hx. unfold ob_change_res. destruct (obrs_subs x) eqn:Es; [exact Hx|].
      destruct Hx as [U [R D]].
      unfold ob_res_ok. cbn. rewrite <- Es. repeat split; try (apply U); try assumption.
      + apply Z.mod_pos_bound. lia.
      + apply Z.mod_pos_bound. lia.
      + intros x0 Hx0 Hd. apply (D x0); [rewrite Es; exact Hx0 | exact Hd]. }
  destruct S1 as [S1a S1b]. split; [assumption|]. split; [assumption|].
  intros y Hy Hd. apply ob_upd_res_in in Hy. destruct Hy as [Hy|[x [G E]]].
  - rewrite (C y Hy Hd). reflexivity.
  - subst y. unfold ob_has_subs. rewrite G. unfold ob_change_res in Hd.
    destruct (obrs_subs x) eqn:Es.
    + destruct (ob_get_res_split _ _ _ G) as [a [b [E1 _]]].
      assert (In x (obst_res st)) by (rewrite E1; apply in_app_iff; right; left; reflexivity).
      rewrite (C x H Hd). reflexivity.
    + apply orb_true_r.
Qed.

Lemma ob_iostep_ok : forall p st ca, ob_ok st -> ob_ok (fst (ob_iostep p st ca)).
Proof.
  intros p st ca Hok. unfold ob_iostep. destruct (obst_pending st) eqn:P; [|exact Hok].
  destruct (ob_notify_all p (obst_res st) (ob_mk_lp ca false (obst_nk st) (obst_fl st) (obst_ref st)))
    as [[rs l] outs] eqn:E. cbn [fst]. destruct Hok as [A [B C]].
  destruct (ob_notify_all_ok _ _ _ _ _ _ E B) as [J1 [J2 [J3 J4]]].
  unfold ob_ok. cbn. split; [rewrite J2; assumption|]. split; [assumption|].
  intros y Hy [Hd|Hd]; destruct (J3 y Hy) as [K1 K2]; [congruence | auto].
Qed.

Lemma ob_ack_ok : forall st s k, ob_ok st -> ob_ok (ob_ack st s k).
Proof.
  intros st s k Hok. unfold ob_ack. destruct (ob_fl_find s k (obst_fl st)) as [f|]; [|exact Hok].
  pose proof Hok as [A [B C]]. destruct (obfl_ok f).
  - destruct (ob_touch_ok s (obfl_tok f) _ A B) as [S1 S2].
    eapply ob_ok_same_flags; try eassumption; [|auto].
    intros y Hy. apply ob_touch_flags in Hy. destruct Hy as [x [Hx [F1 F2]]].
    exists x. split; [assumption|]. unfold ob_flags. rewrite F1, F2. reflexivity.
  - eapply ob_ok_same_flags; try eassumption; [|auto]. intros y Hy. exists y. auto.
Qed.

Lemma ob_del_all_res_ok : forall s t rs,
  Forall ob_res_ok rs ->
  Forall ob_res_ok (fst (ob_del_all_res s t rs)) /\
  map obrs_id (fst (ob_del_all_res s t rs)) = map obrs_id rs /\
  (forall y, In y (fst (ob_del_all_res s t rs)) -> exists x, In x rs /\ ob_flags y = ob_flags x).
Proof.
  intros s t. induction rs as [|r tl IH]; intro H; cbn [ob_del_all_res].
  - cbn. split; [constructor|]. split; [reflexivity | intros ? []].
  - inversion H; subst. destruct (IH H3) as [I1 [I2 I3]].
    destruct (ob_del_in_res s t r) as [r' b] eqn:E.
    destruct (ob_del_all_res s t tl) as [tl' n] eqn:E2. cbn [fst map] in *.
    assert (Er : r' = fst (ob_del_in_res s t r)) by (rewrite E; reflexivity).
    split; [constructor; [rewrite Er; apply ob_del_in_res_ok; assumption | assumption]|].
    split; [rewrite Er; f_equal; [apply ob_del_in_res_shape | assumption]|].
    intros y [<-|Hy].
    + exists r. split; [left; reflexivity | rewrite Er; apply ob_del_in_res_shape].
    + destruct (I3 y Hy) as [x [Hx Hf]]. exists x. split; [right; assumption | assumption].
Qed.

Lemma ob_rst_by_last_ok : forall s k rs,
  Forall ob_res_ok rs ->
  Forall ob_res_ok (fst (ob_rst_by_last s k rs)) /\
  map obrs_id (fst (ob_rst_by_last s k rs)) = map obrs_id rs /\
  (forall y, In y (fst (ob_rst_by_last s k rs)) -> exists x, In x rs /\ ob_flags y = ob_flags x).
Proof.
  intros s k. induction rs as [|r tl IH]; intro H; cbn [ob_rst_by_last].
  - cbn. split; [constructor|]. split; [reflexivity | intros ? []].
  - inversion H; subst.
    destruct (ob_find (fun x => (obsb_last x =? k) && (obsb_sess x =? s)) (obrs_subs r)) as [x0|].
    + cbn [fst map]. split; [constructor; [apply ob_del_in_res_ok; assumption | assumption]|].
      split; [f_equal; apply ob_del_in_res_shape|].
      intros y [<-|Hy]; [exists r; split; [left; reflexivity | apply ob_del_in_res_shape]|].
      exists y. split; [right; assumption | reflexivity].
    + destruct (IH H3) as [I1 [I2 I3]]. destruct (ob_rst_by_last s k tl) as [tl' b]. cbn [fst map] in *.
      split; [constructor; assumption|]. split; [f_equal; assumption|].
      intros y [<-|Hy]; [exists r; split; [left; reflexivity | reflexivity]|].
      destruct (I3 y Hy) as [x [Hx Hf]]. exists x. split; [right; assumption | assumption].
Qed.

Lemma ob_rst_ok : forall st s k, ob_ok st -> ob_ok (ob_rst st s k).
Proof.
  intros st s k Hok. pose proof Hok as [A [B C]]. unfold ob_rst.
  destruct (ob_fl_find s k (obst_fl st)) as [f|].
  - destruct (ob_del_all_res_ok s (obfl_tok f) _ B) as [I1 [I2 I3]].
    destruct (ob_del_all_res s (obfl_tok f) (obst_res st)) as [rs n]. cbn [fst] in *.
    eapply ob_ok_same_flags; try eassumption; [rewrite I2; assumption | auto].
  - destruct (ob_rst_by_last_ok s k _ B) as [I1 [I2 I3]].
    destruct (ob_rst_by_last s k (obst_res st)) as [rs b]. cbn [fst] in *.
    eapply ob_ok_same_flags; try eassumption; [rewrite I2; assumption | auto].
Qed.

Lemma ob_failed_subs_sub : forall p s t l,
  incl (map ob_kt (fst (ob_failed_subs p s t l))) (map ob_kt l) /\
  incl (map ob_kk (fst (ob_failed_subs p s t l))) (map ob_kk l) /\
  (NoDup (map ob_kt l) -> NoDup (map ob_kt (fst (ob_failed_subs p s t l)))) /\
  (NoDup (map ob_kk l) -> NoDup (map ob_kk (fst (ob_failed_subs p s t l)))) /\
  (forall y, In y (fst (ob_failed_subs p s t l)) -> obsb_dirty y = true ->
             exists z, In z l /\ obsb_dirty z = true).
Proof.
  intros p s t. induction l as [|x tl IH]; cbn [ob_failed_subs].
  - cbn. repeat split; auto using incl_refl. intros ? [].
  - destruct (ob_sub_is s t x).
    + destruct (obpr_max_fail p <=? obsb_fail x + 1); cbn [fst map].
      * repeat split; try (apply incl_tl; apply incl_refl);
          try (intro H; inversion H; assumption).
        intros y Hy Hd. exists y. split; [right; assumption | assumption].
      * repeat split; try apply incl_refl; auto.
        intros y [<-|Hy] Hd; [exists x; split; [left; reflexivity | exact Hd]|].
        exists y. split; [right; assumption | assumption].
    + destruct IH as [I1 [I2 [I3 [I4 I5]]]]. destruct (ob_failed_subs p s t tl) as [tl' b].
      cbn [fst map] in *. repeat split.
      * intros z [->|Hz]; [left; reflexivity | right; apply I1; assumption].
      * intros z [->|Hz]; [left; reflexivity | right; apply I2; assumption].
      * intro H. inversion H; subst. constructor; [intro Hin; apply I1 in Hin; contradiction | auto].
      * intro H. inversion H; subst. constructor; [intro Hin; apply I2 in Hin; contradiction | auto].
      * intros y [<-|Hy] Hd; [exists x; split; [left; reflexivity | assumption]|].
        destruct (I5 y Hy Hd) as [z [Hz Hdz]]. exists z. split; [right; assumption | assumption].
Qed.

Lemma ob_failed_all_ok : forall p s t rs,
  Forall ob_res_ok rs ->
  Forall ob_res_ok (fst (ob_failed_all p s t rs)) /\
  map obrs_id (fst (ob_failed_all p s t rs)) = map obrs_id rs /\
  (forall y, In y (fst (ob_failed_all p s t rs)) -> exists x, In x rs /\ ob_flags y = ob_flags x).
Proof.
  intros p s t. induction rs as [|r tl IH]; intro H; cbn [ob_failed_all].
  - cbn. split; [constructor|]. split; [reflexivity | intros ? []].
  - inversion H; subst. destruct (IH H3) as [I1 [I2 I3]].
    destruct (ob_failed_subs_sub p s t (obrs_subs r)) as [F1 [F2 [F3 [F4 F5]]]].
    destruct (ob_failed_subs p s t (obrs_subs r)) as [l b].
    destruct (ob_failed_all p s t tl) as [tl' n]. cbn [fst map] in *.
    split; [constructor; [|assumption]|].
    + apply ob_set_subs_ok; [assumption | | assumption].
      destruct H2 as [[U1 U2] _]. split; auto.
    + split; [f_equal; assumption|].
      intros y [<-|Hy]; [exists r; split; [left; reflexivity | reflexivity]|].
      destruct (I3 y Hy) as [x [Hx Hf]]. exists x. split; [right; assumption | assumption].
Qed.

Lemma ob_confailed_ok : forall p st s k, ob_ok st -> ob_ok (ob_confailed p st s k).
Proof.
  intros p st s k Hok. pose proof Hok as [A [B C]]. unfold ob_confailed.
  destruct (ob_fl_find s k (obst_fl st)) as [f|]; [|exact Hok].
  destruct (ob_failed_all_ok p s (obfl_tok f) _ B) as [I1 [I2 I3]].
  destruct (ob_failed_all p s (obfl_tok f) (obst_res st)) as [rs n]. cbn [fst] in *.
  eapply ob_ok_same_flags; try eassumption; [rewrite I2; assumption | auto].
Qed.

Lemma ob_session_lost_ok : forall st s, ob_ok st -> ob_ok (ob_session_lost st s).
Proof.
  intros st s Hok. pose proof Hok as [A [B C]]. unfold ob_session_lost.
  eapply ob_ok_same_flags; try eassumption; [| | |auto].
  - rewrite map_map. cbn. assumption.
  - apply Forall_map. eapply Forall_impl; [|exact B]. intros r Hr. unfold ob_lost_res.
    apply ob_res_ok_sublist; [assumption | apply ob_uniq_filter; apply Hr|].
    intros y Hy. apply filter_In in Hy. tauto.
  - intros y Hy. apply in_map_iff in Hy. destruct Hy as [x [Hx Hin]]. exists x. subst y. auto.
Qed.

Lemma ob_set_err_ok : forall st r b, ob_ok st -> ob_ok (ob_set_err st r b).
Proof.
  intros st r b Hok. pose proof Hok as [A [B C]]. unfold ob_set_err.
  match goal with |- ob_ok (ob_mk_st (ob_upd_res r ?F _) _ _ _ _) =>
    assert (S1 : NoDup (map obrs_id (ob_upd_res r F (obst_res st))) /\
                 Forall ob_res_ok (ob_upd_res r F (obst_res st))) end.
  { apply ob_upd_res_ok; try assumption; [reflexivity|]. intros x _ Hx. exact Hx. }
  destruct S1 as [S1a S1b]. eapply ob_ok_same_flags; try eassumption; [|auto].
  intros y Hy. apply ob_upd_res_flags in Hy; [assumption | reflexivity].
Qed.

Lemma ob_delete_resource_ok : forall p st r ca, ob_ok st -> ob_ok (fst (ob_delete_resource p st r ca)).
Proof.
  intros p st r ca Hok. pose proof Hok as [A [B C]]. unfold ob_delete_resource.
  destruct (ob_get_res r (obst_res st)) as [res|] eqn:G; [|exact Hok].
  destruct (ob_gone_subs p res ca (obrs_subs res) (obst_ref st)) as [outs rf]. cbn [fst].
  destruct (ob_get_res_split _ _ _ G) as [a [b [E1 [E2 E3]]]].
  rewrite E1, (ob_drop_res_split r a res b E2 E3).
  rewrite E1 in A, B, C. rewrite map_app in A. cbn [map] in A.
  apply Forall_app in B. destruct B as [Ba Bb]. inversion Bb; subst.
  rewrite <- app_assoc.
  eapply ob_ok_same_flags with (st := ob_mk_st (a ++ b ++ [ob_fresh_res (obrs_id res) (obrs_mode res) (obrs_err res)])
                                            (obst_pending st) (obst_fl st) (obst_nk st) (obst_ref st)).
  - unfold ob_ok. cbn. split; [|split].
    + rewrite app_assoc, map_app. cbn [map]. apply NoDup_remove in A. destruct A as [A1 A2].
      rewrite <- map_app in A1, A2.
      assert (Hperm : forall l (z : Z), NoDup l -> ~ In z l -> NoDup (l ++ [z])).
      { clear. induction l as [|h l IH]; intros z H1 H2; cbn [app].
        - constructor; [intros [] | constructor].
        - inversion H1; subst. constructor.
          + intro Hin. apply in_app_iff in Hin. destruct Hin as [Hin|[<-|[]]]; [contradiction|].
            apply H2. left. reflexivity.
          + apply IH; [assumption|]. intro Hz. apply H2. right. assumption. }
      apply Hperm; assumption.
    + apply Forall_app. split; [assumption|]. apply Forall_app. split; [assumption|].
      constructor; [|constructor]. unfold ob_res_ok, ob_fresh_res, ob_uniq. cbn.
      split; [split; constructor|]. split; [lia|]. intros ? [].
    + intros y Hy Hd. apply in_app_iff in Hy. destruct Hy as [Hy|Hy].
      * apply (C y); [apply in_app_iff; left; assumption | assumption].
      * apply in_app_iff in Hy. destruct Hy as [Hy|[<-|[]]].
        -- apply (C y); [apply in_app_iff; right; right; assumption | assumption].
        -- cbn in Hd. destruct Hd; discriminate.
  - cbn. apply NoDup_remove in A. destruct A as [A1 A2].
    rewrite app_assoc, map_app. cbn [map]. rewrite <- map_app in A1, A2.
    clear - A1 A2. revert A1 A2. generalize (map obrs_id (a ++ b)) as l. generalize (obrs_id res) as z.
    induction l as [|h l IH]; intros H1 H2; cbn [app].
    + constructor; [intros [] | constructor].
    + inversion H1; subst. constructor.
      * intro Hin. apply in_app_iff in Hin. destruct Hin as [Hin|[<-|[]]]; [contradiction|].
        apply H2. left. reflexivity.
      * apply IH; [assumption|]. intro Hz. apply H2. right. assumption.
  - apply Forall_app. split; [assumption|]. apply Forall_app. split; [assumption|].
    constructor; [|constructor]. unfold ob_res_ok, ob_fresh_res, ob_uniq. cbn.
    split; [split; constructor|]. split; [lia|]. intros ? [].
  - cbn. intros y Hy. exists y. split; [exact Hy | reflexivity].
  - cbn. intro Hp. rewrite Hp. reflexivity.
Qed.

Lemma ob_step_ok : forall p st op, ob_ok st -> ob_ok (fst (ob_step p st op)).
Proof.
  intros p st op H. destruct op; cbn [ob_step fst].
  - apply ob_register_ok; assumption.
  - apply ob_cancel_ok; assumption.
  - apply ob_change_ok; assumption.
  - apply ob_iostep_ok; assumption.
  - apply ob_ack_ok; assumption.
  - apply ob_rst_ok; assumption.
  - apply ob_confailed_ok; assumption.
  - apply ob_set_err_ok; assumption.
  - apply ob_session_lost_ok; assumption.
  - apply ob_delete_resource_ok; assumption.
Qed.

(* ------------------------------------------------------------------ reachable states *)

Lemma ob_init_res_ids : forall modes id y, In y (ob_init_res id modes) -> id <= obrs_id y.
Proof.
  induction modes as [|[m v] tl IH]; cbn [ob_init_res]; intros id y H; [destruct H|].
  destruct H as [<-|H]; [cbn; lia|]. apply IH in H. lia.
Qed.

Lemma ob_init_ok : forall modes, ob_ok (ob_init modes).
Proof.
  intro modes. unfold ob_init, ob_ok. cbn. generalize 0 as id.
  induction modes as [|[m v] tl IH]; intro id; cbn [ob_init_res map].
  - split; [constructor|]. split; [constructor | intros ? []].
  - destruct (IH (id + 1)) as [I1 [I2 I3]]. split; [|split].
    + constructor; [|assumption]. intro H. apply in_map_iff in H. destruct H as [y [Hy Hin]].
      apply ob_init_res_ids in Hin. cbn in Hy. lia.
    + constructor; [|assumption]. unfold ob_res_ok, ob_uniq. cbn.
      split; [split; constructor|]. split; [apply Z.mod_pos_bound; lia | intros ? []].
    + intros r [<-|Hr] Hd; [cbn in Hd; destruct Hd; discriminate | eapply I3; eassumption].
Qed.

Lemma ob_run_ok : forall p ops st, ob_ok st -> ob_ok (fst (ob_run p st ops)).
Proof.
  intros p. induction ops as [|op tl IH]; intros st H; cbn [ob_run]; [exact H|].
  pose proof (ob_step_ok p st op H) as H1. destruct (ob_step p st op) as [st1 outs]. cbn [fst] in H1.
  specialize (IH st1 H1). destruct (ob_run p st1 tl) as [st2 tr]. exact IH.
Qed.

(* C11: a re-registration replaces rather than duplicates - in every reachable state no two
   subscriptions of a resource have the same (session, token) or the same (session, cache key) *)
Theorem ob_no_duplicates : forall p modes ops r,
  In r (obst_res (fst (ob_run p (ob_init modes) ops))) ->
  NoDup (map (fun x => (obsb_sess x, obsb_tok x)) (obrs_subs r)) /\
  NoDup (map (fun x => (obsb_sess x, obsb_key x)) (obrs_subs r)).
Proof.
  intros p modes ops r H. pose proof (ob_run_ok p ops _ (ob_init_ok modes)) as [_ [B _]].
  rewrite Forall_forall in B. exact (proj1 (B r H)).
Qed.

(* non-vacuity: after these three registrations the resource has two subscriptions (the third
   request re-used the cache key of the first with a new token and replaced it) *)
Example ob_no_duplicates_witness :
  let ops := [ObOpRegister 0 1 [161] [(11, [114; 48]); (15, [97])];
              ObOpRegister 0 1 [162] [(11, [114; 48]); (15, [98])];
              ObOpRegister 0 1 [163] [(4, [9]); (11, [114; 48]); (15, [97])]] in
  map (fun r => map obsb_tok (obrs_subs r))
      (obst_res (fst (ob_run (ob_mk_pr 1 5 1) (ob_init [(0, 2)]) ops))) = [[[163]; [162]]].
Proof. vm_compute. reflexivity. Qed.

(* C11: while a notification is held back the pending flags persist - in every reachable state a
   subscription flagged dirty implies its resource is partiallydirty, and a dirty or partiallydirty
   resource implies the context's observe_pending, so the next coap_check_notify looks at it again;
   the Observe counter stays a 24-bit number *)
Theorem ob_pending_flags_persist : forall p modes ops st,
  st = fst (ob_run p (ob_init modes) ops) ->
  (forall r x, In r (obst_res st) -> In x (obrs_subs r) -> obsb_dirty x = true -> obrs_pdirty r = true) /\
  (forall r, In r (obst_res st) -> obrs_dirty r = true \/ obrs_pdirty r = true -> obst_pending st = true) /\
  (forall r, In r (obst_res st) -> 0 <= obrs_obs r < 16777216).
Proof.
  intros p modes ops st Hst. pose proof (ob_run_ok p ops _ (ob_init_ok modes)) as [_ [B C]].
  rewrite <- Hst in B, C. rewrite Forall_forall in B. split; [|split].
  - intros r x Hr Hx Hd. destruct (B r Hr) as [_ [_ D]]. eapply D; eassumption.
  - exact C.
  - intros r Hr. apply (B r Hr).
Qed.

(* dots(): never reads outside the segment; what it computes, for every byte string. *)
From LibcoapV Require Import Base.Tactics Base.Bytes Base.BytesProofs Wire.OptCodec Uri.Uri Uri.Spec.
Local Open Scope Z_scope.

Lemma uri_rd_app seg rest i :
  (i < length seg)%nat -> uri_rd (seg ++ rest) i = uri_rd seg i.
Proof.
  intros H. unfold uri_rd. rewrite nth_error_app1 by exact H. reflexivity.
Qed.

Lemma uri_rd_ok seg i :
  (i < length seg)%nat -> exists c, uri_rd seg i = UOk c.
Proof.
  intros H. unfold uri_rd. destruct (nth_error seg i) eqn:E.
  - eauto.
  - apply nth_error_None in E. lia.
Qed.

(* one character of dots(), read inside the segment *)
Lemma uri_dots_char_app seg rest off n :
  n = len seg - Z.of_nat off -> 1 <= n ->
  uri_dots_char (seg ++ rest) off n = uri_dots_char seg off n /\
  exists c adv n', uri_dots_char seg off n = UOk (c, adv, n') /\
                   ((adv = 0%nat /\ n' = n) \/ (adv = 2%nat /\ n' = n - 2 /\ 3 <= n)).
Proof.
  intros Hn H1. unfold len in Hn.
  assert (H0 : (off < length seg)%nat) by lia.
  unfold uri_dots_char.
  rewrite (uri_rd_app seg rest off H0).
  destruct (uri_rd_ok seg off H0) as [c0 Ec0]. rewrite Ec0. cbn [uri_bind].
  destruct ((c0 =? uri_c_pct) && (3 <=? n)) eqn:E1.
  - assert (H3 : 3 <= n) by lia.
    assert (Ha : (S off < length seg)%nat) by lia.
    assert (Hb : (S (S off) < length seg)%nat) by lia.
    rewrite (uri_rd_app seg rest _ Ha), (uri_rd_app seg rest _ Hb).
    destruct (uri_rd_ok seg _ Ha) as [c1 Ec1]. destruct (uri_rd_ok seg _ Hb) as [c2 Ec2].
    rewrite Ec1, Ec2. cbn [uri_bind].
    split; [reflexivity|].
    destruct (c1 =? 50); [destruct (uri_is_eE c2)|]; eauto 10.
  - split; [reflexivity|]. eauto 10.
Qed.

(* dots() reads only the segment and always answers *)
Lemma uri_dots_app seg rest :
  uri_dots (seg ++ rest) (len seg) = uri_dots seg (len seg) /\
  exists d, uri_dots seg (len seg) = UOk d /\ 0 <= d <= 2.
Proof.
  unfold uri_dots.
  destruct (len seg =? 0) eqn:E0; [split; [reflexivity|exists 0; split; [reflexivity|lia]]|].
  pose proof (len_nonneg seg) as Hl.
  assert (H1 : 1 <= len seg) by lia.
  destruct (uri_dots_char_app seg rest 0 (len seg) ltac:(lia) H1) as [Ea [c [adv [n1 [Eb Hc]]]]].
  rewrite Ea, Eb. cbn [uri_bind].
  destruct (negb (c =? uri_c_dot)); [split; [reflexivity|exists 0; split; [reflexivity|lia]]|].
  destruct (n1 =? 1) eqn:E1; [split; [reflexivity|exists 1; split; [reflexivity|lia]]|].
  assert (H2 : n1 - 1 = len seg - Z.of_nat (S adv) /\ 1 <= n1 - 1) by lia.
  destruct H2 as [H2 H3].
  destruct (uri_dots_char_app seg rest (S adv) (n1 - 1) H2 H3) as [Ea2 [c2 [adv2 [n2 [Eb2 Hc2]]]]].
  rewrite Ea2, Eb2. cbn [uri_bind].
  destruct (negb (c2 =? uri_c_dot)); [split; [reflexivity|exists 0; split; [reflexivity|lia]]|].
  destruct (n2 =? 1); split; try reflexivity; [exists 2|exists 0]; split; try reflexivity; lia.
Qed.

(* the pure function dots() computes on a segment *)
Definition uri_dots_p (seg : bytes) : Z :=
  match uri_dots seg (len seg) with UOk d => d | UOob => 0 end.

Lemma uri_dots_is seg rest : uri_dots (seg ++ rest) (len seg) = UOk (uri_dots_p seg).
Proof.
  destruct (uri_dots_app seg rest) as [Ea [d [Eb _]]].
  unfold uri_dots_p. rewrite Ea, Eb. reflexivity.
Qed.

Lemma uri_dots_p_range seg : 0 <= uri_dots_p seg <= 2.
Proof.
  destruct (uri_dots_app seg []) as [_ [d [Eb H]]]. unfold uri_dots_p. rewrite Eb. exact H.
Qed.

(* a dot segment has at most 6 bytes ("%2e%2e") *)
Lemma uri_dots_p_long seg : 7 <= len seg -> uri_dots_p seg = 0.
Proof.
  intros H7. unfold uri_dots_p, uri_dots.
  destruct (len seg =? 0) eqn:E0; [reflexivity|].
  destruct (uri_dots_char_app seg [] 0 (len seg) ltac:(lia) ltac:(lia)) as [_ [c [adv [n1 [Eb Hc]]]]].
  rewrite Eb. cbn [uri_bind].
  destruct (negb (c =? uri_c_dot)); [reflexivity|].
  destruct (n1 =? 1) eqn:E1; [lia|].
  destruct (uri_dots_char_app seg [] (S adv) (n1 - 1) ltac:(lia) ltac:(lia))
    as [_ [c2 [adv2 [n2 [Eb2 Hc2]]]]].
  rewrite Eb2. cbn [uri_bind].
  destruct (negb (c2 =? uri_c_dot)); [reflexivity|].
  destruct (n2 =? 1) eqn:E2; [lia|reflexivity].
Qed.

(* ---- what dots() answers, written as a table over the shapes of the segment ---- *)
Definition uri_is_2e (a b c : Z) : bool := (a =? 37) && (b =? 50) && uri_is_eE c.

Definition uri_dotkind_raw (seg : bytes) : Z :=
  match seg with
  | [a] => if a =? 46 then 1 else 0
  | [a; b] => if (a =? 46) && (b =? 46) then 2 else 0
  | [a; b; c] => if uri_is_2e a b c then 1 else 0
  | [a; b; c; d] =>
      if ((a =? 46) && uri_is_2e b c d) || (uri_is_2e a b c && (d =? 46))
         || ((a =? 37) && uri_is_2e b c d)         (* "%%2e": malformed, taken for ".." *)
      then 2 else 0
  | [a; b; c; d; e; f] => if uri_is_2e a b c && uri_is_2e d e f then 2 else 0
  | _ => 0
  end.

Ltac zcase :=
  match goal with
  | |- context [Z.eqb ?x ?k] =>
      is_var x; let E := fresh "E" in
      destruct (Z.eqb x k) eqn:E; [apply Z.eqb_eq in E; subst x|]
  end.

Lemma uri_dots_p_table seg : uri_dots_p seg = uri_dotkind_raw seg.
Proof.
  destruct seg as [|a [|b [|c [|d [|e [|f [|g t]]]]]]].
  8: { rewrite uri_dots_p_long; [reflexivity|].
       unfold len. cbn [length]. lia. }
  all: unfold uri_dots_p, uri_dots, uri_dots_char, uri_rd, uri_dotkind_raw, uri_is_2e, uri_is_eE,
         uri_c_pct, uri_c_dot, len; cbn [length Z.of_nat Pos.of_succ_nat Pos.succ nth_error uri_bind];
       try reflexivity.
  all: repeat (zcase; cbn); try reflexivity.
Qed.

(* What coap_split_path / coap_split_query leave in the buffer reads back, with the option parser
   of Wire/OptCodec.v (coap_opt_parse), as exactly the list of values - so the buffer determines
   the options. *)
From LibcoapV Require Import Base.Tactics Base.Bytes Base.BytesProofs Wire.OptCodec Wire.OptCodecProofs
  Uri.Uri Uri.Spec Uri.SegProofs Uri.PathProofs.
Local Open Scope Z_scope.

Lemma uri_opt_enc0_head v : exists b r, opt_enc 0 v = b :: r /\ 0 <= b <= 14.
Proof.
  unfold opt_enc, opt_hdr. cbn [app].
  eexists. eexists. split; [reflexivity|].
  pose proof (ext_nib_range (len v) (len_nonneg v)). unfold ext_nib at 1. cbn. lia.
Qed.

Theorem uri_buffer_parses : forall l fuel,
  Forall (fun v => len v <= 65804) l -> (length l <= fuel)%nat ->
  opts_parse fuel 0 (concat (uri_encs l)) = Some (map (fun v => (0, v)) l, []).
Proof.
  induction l as [|v l IH]; intros fuel Hl Hf.
  - destruct fuel; reflexivity.
  - inversion Hl as [|? ? Hv Hl']; subst. cbn [uri_encs map concat].
    destruct (uri_opt_enc0_head v) as [b [r [Eb Hb]]].
    destruct fuel as [|fuel]; [cbn [length] in Hf; lia|].
    unfold opts_parse; fold opts_parse. rewrite Eb. cbn [app].
    unfold PAYLOAD_START. destruct (b =? 255) eqn:E; [lia|].
    change (b :: r ++ concat (map (opt_enc 0) l)) with ((b :: r) ++ concat (map (opt_enc 0) l)).
    rewrite <- Eb. rewrite opt_parse_enc by lia.
    unfold MAX_OPT. cbn [Z.add Z.leb Z.compare].
    fold (uri_encs l). rewrite (IH fuel Hl' ltac:(cbn [length] in Hf; lia)). reflexivity.
Qed.

Lemma uri_map_tag0_inj : forall l1 l2 : list bytes,
  map (fun v => (0, v)) l1 = map (fun v => (0, v)) l2 -> l1 = l2.
Proof.
  induction l1 as [|a l1 IH]; intros [|b l2] P; try discriminate; [reflexivity|].
  cbn [map] in P. injection P as -> P. f_equal. apply IH. exact P.
Qed.

Corollary uri_buffer_injective l1 l2 :
  Forall (fun v => len v <= 65804) l1 -> Forall (fun v => len v <= 65804) l2 ->
  concat (uri_encs l1) = concat (uri_encs l2) -> l1 = l2.
Proof.
  intros H1 H2 E.
  pose proof (uri_buffer_parses l1 (length l1 + length l2) H1 ltac:(lia)) as P1.
  pose proof (uri_buffer_parses l2 (length l1 + length l2) H2 ltac:(lia)) as P2.
  rewrite E in P1. rewrite P1 in P2. injection P2 as P.
  apply uri_map_tag0_inj. exact P.
Qed.

(* every result of the buffer functions - any input, any buffer size - is a list of values that
   the option parser reads back from the bytes written *)
Lemma uri_good_opts_vals dotcheck raws opts :
  Forall (uri_good_opt dotcheck raws) opts ->
  exists vals, opts = uri_encs vals /\ Forall (fun v => len v <= 65804) vals /\
               (dotcheck = true -> Forall (fun v => uri_kind v = 0) vals).
Proof.
  induction opts as [|o opts IH]; intros H.
  - exists []. repeat split; constructor.
  - inversion H as [|? ? Ho Ht]; subst. destruct (IH Ht) as [vals [E [Hl Hk]]].
    destruct Ho as [seg [d [_ [_ [Hd [Hkd ->]]]]]].
    exists (d :: vals). split; [rewrite E; reflexivity|]. split.
    + constructor; [exact Hd|exact Hl].
    + intros Hc. constructor; auto.
Qed.

Theorem uri_split_path_parses s buflen :
  0 <= buflen ->
  exists vals used,
    uri_split_path s buflen = UOk (uri_encs vals, used) /\ 0 <= used <= buflen /\
    used = len (concat (uri_encs vals)) /\
    Forall (fun v => uri_kind v = 0) vals /\
    opts_parse (S (length vals)) 0 (concat (uri_encs vals)) = Some (map (fun v => (0, v)) vals, []).
Proof.
  intros Hb. destruct (uri_split_path_safe s buflen Hb) as [opts [used [E [Hu [Hs Hg]]]]].
  destruct (uri_good_opts_vals true _ opts Hg) as [vals [-> [Hl Hk]]].
  exists vals, used. split; [exact E|]. split; [exact Hu|]. split.
  - rewrite Hs. clear. induction (uri_encs vals) as [|x l IH]; [reflexivity|].
    cbn [uri_sumlen concat]. rewrite len_app, IH. reflexivity.
  - split; [apply Hk; reflexivity|]. apply uri_buffer_parses; [exact Hl|apply Nat.le_succ_diag_r].
Qed.

Theorem uri_split_query_parses s buflen :
  0 <= buflen ->
  exists vals used,
    uri_split_query s buflen = UOk (uri_encs vals, used) /\ 0 <= used <= buflen /\
    used = len (concat (uri_encs vals)) /\
    opts_parse (S (length vals)) 0 (concat (uri_encs vals)) = Some (map (fun v => (0, v)) vals, []).
Proof.
  intros Hb. destruct (uri_split_query_safe s buflen Hb) as [opts [used [E [Hu [Hs Hg]]]]].
  destruct (uri_good_opts_vals false _ opts Hg) as [vals [-> [Hl _]]].
  exists vals, used. split; [exact E|]. split; [exact Hu|]. split.
  - rewrite Hs. clear. induction (uri_encs vals) as [|x l IH]; [reflexivity|].
    cbn [uri_sumlen concat]. rewrite len_app, IH. reflexivity.
  - apply uri_buffer_parses; [exact Hl|apply Nat.le_succ_diag_r].
Qed.

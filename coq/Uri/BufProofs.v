(* What coap_split_path / coap_split_query leave in the buffer reads back, with the option parser
   of Wire/OptCodec.v (coap_opt_parse), as exactly the list of values - so the buffer determines
   the options. *)
From LibcoapV Require Import Base.Tactics Base.Bytes Base.BytesProofs Wire.OptCodec Wire.OptCodecProofs
  Uri.Uri Uri.Spec.
Local Open Scope Z_scope.

Lemma uri_opt_enc0_head v : exists b r, opt_enc 0 v = b :: r /\ 0 <= b <= 14.
Proof.
  unfold opt_enc, opt_hdr. cbn [app].
  eexists. eexists. split; [reflexivity|].
  pose proof (ext_nib_range (len v) (len_nonneg v)). unfold ext_nib at 1. cbn. lia.
Qed.

Theorem uri_buffer_parses : forall l fuel,
  Forall (fun v => len v <= 65804) l -> (length l <= fuel)%nat ->
  opts_parse fuel 0 (concat (uri_encs l)) = Some (map (fun v => (0, v)) l, []).
Proof.
  induction l as [|v l IH]; intros fuel Hl Hf.
  - destruct fuel; reflexivity.
  - inversion Hl as [|? ? Hv Hl']; subst. cbn [uri_encs map concat].
    destruct (uri_opt_enc0_head v) as [b [r [Eb Hb]]].
    destruct fuel as [|fuel]; [cbn [length] in Hf; lia|].
    unfold opts_parse; fold opts_parse. rewrite Eb. cbn [app].
    unfold PAYLOAD_START. destruct (b =? 255) eqn:E; [lia|].
    change (b :: r ++ concat (map (opt_enc 0) l)) with ((b :: r) ++ concat (map (opt_enc 0) l)).
    rewrite <- Eb. rewrite opt_parse_enc by lia.
    unfold MAX_OPT. cbn [Z.add Z.leb Z.compare].
    fold (uri_encs l). rewrite (IH fuel Hl' ltac:(cbn [length] in Hf; lia)). reflexivity.
Qed.

Lemma uri_map_tag0_inj : forall l1 l2 : list bytes,
  map (fun v => (0, v)) l1 = map (fun v => (0, v)) l2 -> l1 = l2.
Proof.
  induction l1 as [|a l1 IH]; intros [|b l2] P; try discriminate; [reflexivity|].
  cbn [map] in P. injection P as -> P. f_equal. apply IH. exact P.
Qed.

Corollary uri_buffer_injective l1 l2 :
  Forall (fun v => len v <= 65804) l1 -> Forall (fun v => len v <= 65804) l2 ->
  concat (uri_encs l1) = concat (uri_encs l2) -> l1 = l2.
Proof.
  intros H1 H2 E.
  pose proof (uri_buffer_parses l1 (length l1 + length l2) H1 ltac:(lia)) as P1.
  pose proof (uri_buffer_parses l2 (length l1 + length l2) H2 ltac:(lia)) as P2.
  rewrite E in P1. rewrite P1 in P2. injection P2 as P.
  apply uri_map_tag0_inj. exact P.
Qed.

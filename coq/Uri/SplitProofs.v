(* coap_split_uri: the checked scanner never reads outside its input and accepts exactly the
   strings of the grammar in Spec.v, returning their parts.
   Route: checked scanner = UOk (pure scanner)   [span lemmas; gives "no overread"]
          pure scanner accepts  <->  grammar     [uniqueness of the decomposition] *)
From LibcoapV Require Import Base.Tactics Base.Bytes Base.BytesProofs Wire.OptCodec Uri.Uri Uri.Split
  Uri.Spec Uri.PathProofs.
Local Open Scope Z_scope.

(* ---- spans ---- *)
Lemma uri_upto_after stop s : uri_upto stop s ++ uri_after stop s = s.
Proof.
  induction s as [|c r IH]; [reflexivity|]. cbn [uri_upto uri_after].
  destruct (stop c); [reflexivity|]. cbn [app]. rewrite IH. reflexivity.
Qed.

Lemma uri_upto_nostop stop s x : In x (uri_upto stop s) -> stop x = false.
Proof.
  induction s as [|c r IH]; [intros []|]. cbn [uri_upto].
  destruct (stop c) eqn:E; [intros []|]. intros [<-|H]; auto.
Qed.

Lemma uri_after_head stop s :
  uri_after stop s = [] \/ exists c r, uri_after stop s = c :: r /\ stop c = true.
Proof.
  induction s as [|c r IH]; [left; reflexivity|]. cbn [uri_after].
  destruct (stop c) eqn:E; [right; eauto|exact IH].
Qed.

Lemma uri_span_app stop a c b :
  (forall x, In x a -> stop x = false) -> stop c = true ->
  uri_upto stop (a ++ c :: b) = a /\ uri_after stop (a ++ c :: b) = c :: b.
Proof.
  intros Ha Hc. induction a as [|y a IH].
  - cbn [app uri_upto uri_after]. rewrite Hc. auto.
  - cbn [app uri_upto uri_after]. rewrite (Ha y (or_introl eq_refl)).
    destruct IH as [I1 I2]; [intros x Hx; apply Ha; right; exact Hx|].
    rewrite I1, I2. auto.
Qed.

Lemma uri_span_all stop a :
  (forall x, In x a -> stop x = false) -> uri_upto stop a = a /\ uri_after stop a = [].
Proof.
  intros Ha. induction a as [|y a IH]; [auto|].
  cbn [uri_upto uri_after]. rewrite (Ha y (or_introl eq_refl)).
  destruct IH as [I1 I2]; [intros x Hx; apply Ha; right; exact Hx|].
  rewrite I1, I2. auto.
Qed.

(* a list that is empty or starts with a stop character *)
Definition uri_stops_here (stop : Z -> bool) (q : bytes) : Prop :=
  q = [] \/ exists c r, q = c :: r /\ stop c = true.

Lemma uri_span_app' stop a q :
  (forall x, In x a -> stop x = false) -> uri_stops_here stop q ->
  uri_upto stop (a ++ q) = a /\ uri_after stop (a ++ q) = q.
Proof.
  intros Ha [->|[c [r [-> Hc]]]].
  - rewrite app_nil_r. apply uri_span_all. exact Ha.
  - apply uri_span_app; assumption.
Qed.

Lemma uri_len_zero_nil {A} (l : list A) : len l = 0 -> l = [].
Proof. destruct l; [reflexivity|]. rewrite len_cons. pose proof (len_nonneg l). lia. Qed.

(* the while loops *)
Lemma uri_scan_spec stop : forall q k,
  uri_scan stop q (len q) k =
  UOk (uri_after stop q, len (uri_after stop q), k + len (uri_upto stop q)).
Proof.
  induction q as [|c q IH]; intros k.
  - cbn. f_equal. f_equal. lia.
  - cbn [uri_scan uri_after uri_upto]. rewrite len_cons. pose proof (len_nonneg q).
    destruct (1 + len q =? 0) eqn:E0; [lia|].
    destruct (stop c).
    + rewrite len_cons, len_nil. f_equal. f_equal. lia.
    + replace (1 + len q - 1) with (len q) by lia. rewrite IH, len_cons. f_equal. f_equal. lia.
Qed.

Lemma uri_copy_all q : uri_copy q (len q) = UOk q.
Proof. rewrite <- (app_nil_r q) at 1. apply uri_copy_ok. Qed.

Lemma uri_copy_upto stop p k :
  k = len (uri_upto stop p) -> uri_copy p k = UOk (uri_upto stop p).
Proof.
  intros ->. rewrite <- (uri_upto_after stop p) at 1. apply uri_copy_ok.
Qed.

(* ---- from the label "path:" on ---- *)
Definition uri_mk (sch : Z) (host : bytes) (port : Z) (path query : bytes) : uri_sres :=
  USplit {| up_scheme := sch; up_host := host; up_port := port; up_path := path;
            up_query := query |}.

Definition uri_is_qm (c : Z) : bool := c =? 63.

Definition uri_tail_pure (q : bytes) (sch : Z) (host : bytes) (port : Z) : uri_sres :=
  match q with
  | [] => uri_mk sch host port [] []
  | c :: p =>
      if c =? 47 then
        match uri_after uri_is_qm p with
        | [] => uri_mk sch host port (uri_upto uri_is_qm p) []
        | _ :: qq => uri_mk sch host port (uri_upto uri_is_qm p) qq
        end
      else if c =? 63 then uri_mk sch host port [] p
      else UErr (-1)
  end.

Lemma uri_split_tail_ok q sch host port :
  uri_split_tail q (len q) sch host port = UOk (uri_tail_pure q sch host port).
Proof.
  unfold uri_split_tail, uri_tail_pure.
  destruct q as [|c p]; [reflexivity|].
  rewrite len_cons. pose proof (len_nonneg p) as Hp.
  destruct (1 + len p =? 0) eqn:E0; [lia|].
  cbn [uri_rd nth_error uri_bind tl].
  destruct (c =? 47) eqn:E47.
  - replace (1 + len p - 1) with (len p) by lia.
    change (fun c0 : Z => c0 =? 63) with uri_is_qm.
    rewrite uri_scan_spec. cbn [uri_bind].
    rewrite (uri_copy_upto uri_is_qm p) by lia. cbn [uri_bind].
    destruct (uri_after_head uri_is_qm p) as [Ea|[c2 [r [Ea Hc]]]]; rewrite Ea.
    + reflexivity.
    + rewrite len_cons. pose proof (len_nonneg r).
      destruct (1 + len r =? 0) eqn:E1; [lia|].
      cbn [uri_rd nth_error uri_bind tl]. unfold uri_is_qm in Hc. rewrite Hc.
      replace (1 + len r - 1) with (len r) by lia. rewrite uri_copy_all. reflexivity.
  - cbn [uri_bind]. rewrite E0. cbn [uri_rd nth_error uri_bind tl].
    destruct (c =? 63); [|reflexivity].
    replace (1 + len p - 1) with (len p) by lia. rewrite uri_copy_all. reflexivity.
Qed.

Lemma uri_none_of_1 a s : uri_none_of [a] s <-> (forall x, In x s -> (x =? a) = false).
Proof.
  unfold uri_none_of, uri_in. cbn [existsb].
  split; intros H x Hx; specialize (H x Hx); destruct (x =? a); auto.
Qed.

Lemma uri_none_of_host s :
  uri_none_of [58; 47; 63] s <-> (forall x, In x s -> uri_is_host_end x = false).
Proof.
  unfold uri_none_of, uri_in, uri_is_host_end. cbn [existsb].
  split; intros H x Hx; specialize (H x Hx);
    destruct (x =? 58); destruct (x =? 47); destruct (x =? 63); auto.
Qed.

Definition uri_parts_of (sch : Z) (host : bytes) (port : Z) (path query : bytes) : uri_parts :=
  {| up_scheme := sch; up_host := host; up_port := port; up_path := path; up_query := query |}.

Lemma uri_tail_pure_sound q sch host port parts :
  uri_tail_pure q sch host port = USplit parts ->
  exists pt path qt query, q = pt ++ qt /\ uri_g_path pt path /\ uri_g_query qt query /\
    (q <> [] -> hd 0 q = 47 -> pt <> []) /\ parts = uri_parts_of sch host port path query.
Proof.
  unfold uri_tail_pure, uri_mk. destruct q as [|c p].
  - intros E. injection E as <-. exists [], [], [], [].
    split; [reflexivity|]. split; [constructor|]. split; [constructor|].
    split; [intros H; contradiction|reflexivity].
  - destruct (c =? 47) eqn:E47.
    + apply Z.eqb_eq in E47. subst c.
      pose proof (uri_upto_after uri_is_qm p) as Hs.
      assert (Hn : uri_none_of [63] (uri_upto uri_is_qm p)).
      { apply uri_none_of_1. intros x Hx. apply (uri_upto_nostop uri_is_qm p x Hx). }
      destruct (uri_after_head uri_is_qm p) as [Ea|[c2 [r [Ea Hc]]]]; rewrite Ea in *.
      * intros E. injection E as <-. rewrite app_nil_r in Hs. rewrite Hs in *.
        exists (47 :: p), p, [], [].
        split; [rewrite app_nil_r; reflexivity|].
        split; [constructor; exact Hn|]. split; [constructor|].
        split; [intros _ _; discriminate|reflexivity].
      * intros E. injection E as <-. unfold uri_is_qm in Hc. apply Z.eqb_eq in Hc. subst c2.
        exists (47 :: uri_upto uri_is_qm p), (uri_upto uri_is_qm p), (63 :: r), r.
        split; [cbn [app]; rewrite Hs; reflexivity|].
        split; [constructor; exact Hn|]. split; [constructor|].
        split; [intros _ _; discriminate|reflexivity].
    + destruct (c =? 63) eqn:E63; [|discriminate].
      apply Z.eqb_eq in E63. subst c. intros E. injection E as <-.
      exists [], [], (63 :: p), p.
      split; [reflexivity|]. split; [constructor|]. split; [constructor|].
      split; [cbn [hd]; intros _ H; lia|reflexivity].
Qed.

Lemma uri_tail_pure_complete pt path qt query sch host port :
  uri_g_path pt path -> uri_g_query qt query ->
  uri_tail_pure (pt ++ qt) sch host port = uri_mk sch host port path query.
Proof.
  intros Hp Hq. unfold uri_tail_pure.
  destruct Hp as [|p Hn]; destruct Hq as [|q].
  - reflexivity.
  - cbn [app]. reflexivity.
  - rewrite app_nil_r. cbn [Z.eqb Pos.eqb].
    assert (Hn1 := proj1 (uri_none_of_1 _ _) Hn); clear Hn; rename Hn1 into Hn.
    destruct (uri_span_all uri_is_qm p Hn) as [-> ->]. reflexivity.
  - cbn [app Z.eqb Pos.eqb]. assert (Hn1 := proj1 (uri_none_of_1 _ _) Hn); clear Hn; rename Hn1 into Hn.
    destruct (uri_span_app uri_is_qm p 63 q Hn eq_refl) as [-> ->]. reflexivity.
Qed.

(* ---- the port ---- *)
Definition uri_notdigit (c : Z) : bool := negb (uri_isdigit c).

Definition uri_port_pure (q : bytes) (sch : Z) (host : bytes) (port0 : Z) (unix : bool) : uri_sres :=
  match q with
  | [] => uri_tail_pure q sch host port0
  | c :: p =>
      if c =? 58 then
        if unix then UErr (-5) else
        let ds := uri_upto uri_notdigit p in
        let r := uri_after uri_notdigit p in
        if 0 <? len ds then
          let v := uri_port_acc ds 0 in
          if 65535 <? v then UErr (-4) else uri_tail_pure r sch host v
        else uri_tail_pure r sch host port0
      else uri_tail_pure q sch host port0
  end.

Lemma uri_port_stage_ok q sch host port0 unix :
  uri_port_stage q (len q) sch host port0 unix = UOk (uri_port_pure q sch host port0 unix).
Proof.
  unfold uri_port_stage, uri_port_pure.
  destruct q as [|c p].
  - rewrite len_nil. cbn [Z.eqb uri_bind]. apply (uri_split_tail_ok [] sch host port0).
  - rewrite len_cons. pose proof (len_nonneg p) as Hp.
    destruct (1 + len p =? 0) eqn:E0; [lia|].
    cbn [uri_rd nth_error uri_bind tl].
    destruct (c =? 58) eqn:E58.
    + destruct unix; [reflexivity|].
      replace (1 + len p - 1) with (len p) by lia.
      change (fun c0 : Z => negb (uri_isdigit c0)) with uri_notdigit.
      rewrite uri_scan_spec. cbn [uri_bind]. cbv zeta.
      replace (0 + len (uri_upto uri_notdigit p)) with (len (uri_upto uri_notdigit p)) by lia.
      destruct (0 <? len (uri_upto uri_notdigit p)) eqn:En.
      * rewrite (uri_copy_upto uri_notdigit p) by reflexivity. cbn [uri_bind].
        destruct (65535 <? uri_port_acc (uri_upto uri_notdigit p) 0); [reflexivity|].
        apply uri_split_tail_ok.
      * apply uri_split_tail_ok.
    + replace (1 + len p) with (len (c :: p)) by (rewrite len_cons; reflexivity).
      apply uri_split_tail_ok.
Qed.

Lemma uri_decimal_acc_ge : forall ds acc,
  uri_all_digits ds -> 0 <= acc -> acc <= uri_decimal_acc ds acc.
Proof.
  induction ds as [|d r IH]; intros acc Hd Ha; cbn [uri_decimal_acc]; [lia|].
  assert (Hdd : uri_isdigit d = true) by (apply Hd; left; reflexivity).
  unfold uri_isdigit in Hdd.
  specialize (IH (acc * 10 + (d - 48)) (fun c Hc => Hd c (or_intror Hc)) ltac:(lia)). lia.
Qed.

Lemma uri_port_acc_spec : forall ds acc,
  uri_all_digits ds -> 0 <= acc ->
  (uri_decimal_acc ds acc <= 65535 -> uri_port_acc ds acc = uri_decimal_acc ds acc) /\
  (65535 < uri_decimal_acc ds acc -> 65535 < uri_port_acc ds acc).
Proof.
  induction ds as [|d r IH]; intros acc Hd Ha; cbn [uri_decimal_acc uri_port_acc]; [lia|].
  assert (Hdd : uri_isdigit d = true) by (apply Hd; left; reflexivity).
  unfold uri_isdigit in Hdd.
  assert (Hr : uri_all_digits r) by (intros c Hc; apply Hd; right; exact Hc).
  destruct (acc <=? 65535) eqn:E.
  - apply IH; [exact Hr|lia].
  - pose proof (uri_decimal_acc_ge r (acc * 10 + (d - 48)) Hr ltac:(lia)). lia.
Qed.

Lemma uri_upto_notdigit_digits p : uri_all_digits (uri_upto uri_notdigit p).
Proof.
  intros c Hc. apply uri_upto_nostop in Hc. unfold uri_notdigit in Hc.
  destruct (uri_isdigit c); [reflexivity|discriminate].
Qed.

Lemma uri_port_pure_sound q sch host port0 unix parts :
  uri_port_pure q sch host port0 unix = USplit parts ->
  exists pot port pt path qt query,
    q = pot ++ pt ++ qt /\ uri_g_port pot port0 port /\ (unix = true -> pot = []) /\
    uri_g_path pt path /\ uri_g_query qt query /\ parts = uri_parts_of sch host port path query.
Proof.
  unfold uri_port_pure.
  assert (Hnone : forall q', uri_tail_pure q' sch host port0 = USplit parts ->
            exists pot port pt path qt query,
              q' = pot ++ pt ++ qt /\ uri_g_port pot port0 port /\ (unix = true -> pot = []) /\
              uri_g_path pt path /\ uri_g_query qt query /\
              parts = uri_parts_of sch host port path query).
  { intros q' E. apply uri_tail_pure_sound in E.
    destruct E as [pt [path [qt [query [Eq [Hp [Hq [_ Ep]]]]]]]].
    exists [], port0, pt, path, qt, query.
    split; [exact Eq|]. split; [constructor|]. split; [reflexivity|].
    split; [exact Hp|]. split; [exact Hq|exact Ep]. }
  destruct q as [|c p]; [apply Hnone|].
  destruct (c =? 58) eqn:E58; [|apply Hnone].
  apply Z.eqb_eq in E58. subst c.
  destruct unix; [discriminate|]. cbv zeta.
  pose proof (uri_upto_after uri_notdigit p) as Hs.
  pose proof (uri_upto_notdigit_digits p) as Hd.
  destruct (0 <? len (uri_upto uri_notdigit p)) eqn:En.
  - destruct (65535 <? uri_port_acc (uri_upto uri_notdigit p) 0) eqn:Ev; [discriminate|].
    intros E. apply uri_tail_pure_sound in E.
    destruct E as [pt [path [qt [query [Eq [Hp [Hq [_ Ep]]]]]]]].
    destruct (uri_port_acc_spec (uri_upto uri_notdigit p) 0 Hd ltac:(lia)) as [A1 A2].
    assert (Hle : uri_decimal (uri_upto uri_notdigit p) <= 65535).
    { unfold uri_decimal. destruct (Z_le_gt_dec (uri_decimal_acc (uri_upto uri_notdigit p) 0) 65535);
        [assumption|]. specialize (A2 ltac:(lia)). lia. }
    rewrite (A1 Hle) in Ep.
    exists (58 :: uri_upto uri_notdigit p), (uri_decimal (uri_upto uri_notdigit p)), pt, path, qt, query.
    split; [cbn [app]; rewrite <- Eq, Hs; reflexivity|].
    split.
    { apply UGP_num; [|exact Hd|exact Hle].
      intros E0. assert (len (uri_upto uri_notdigit p) = 0) by (rewrite E0; reflexivity). lia. }
    split; [discriminate|]. split; [exact Hp|]. split; [exact Hq|exact Ep].
  - intros E. apply uri_tail_pure_sound in E.
    destruct E as [pt [path [qt [query [Eq [Hp [Hq [_ Ep]]]]]]]].
    assert (E0 : uri_upto uri_notdigit p = []).
    { apply uri_len_zero_nil. pose proof (len_nonneg (uri_upto uri_notdigit p)). lia. }
    exists [58], port0, pt, path, qt, query.
    split; [cbn [app]; rewrite <- Eq; rewrite E0 in Hs; cbn [app] in Hs; rewrite Hs; reflexivity|].
    split; [constructor|]. split; [discriminate|]. split; [exact Hp|]. split; [exact Hq|exact Ep].
Qed.

(* what follows the authority: empty, or starts with '/' or '?' *)
Lemma uri_pt_qt_head pt path qt query :
  uri_g_path pt path -> uri_g_query qt query ->
  pt ++ qt = [] \/ exists c r, pt ++ qt = c :: r /\ (c = 47 \/ c = 63).
Proof.
  intros [|p Hn] [|q]; cbn [app]; [left; reflexivity|right..]; eauto.
Qed.

Lemma uri_port_pure_complete pot port0 port unix pt path qt query sch host :
  uri_g_port pot port0 port -> (unix = true -> pot = []) ->
  uri_g_path pt path -> uri_g_query qt query ->
  uri_port_pure (pot ++ pt ++ qt) sch host port0 unix = uri_mk sch host port path query.
Proof.
  intros Hpo Hu Hp Hq. unfold uri_port_pure.
  pose proof (fun port => uri_tail_pure_complete pt path qt query sch host port Hp Hq) as Ht.
  assert (Hstop : uri_stops_here uri_notdigit (pt ++ qt)).
  { destruct (uri_pt_qt_head pt path qt query Hp Hq) as [->|[c [r [-> Hc]]]]; [left; reflexivity|].
    right. exists c, r. split; [reflexivity|]. destruct Hc as [-> | ->]; reflexivity. }
  destruct Hpo as [dflt|dflt|ds dflt Hne Hd Hle].
  - cbn [app].
    destruct (uri_pt_qt_head pt path qt query Hp Hq) as [E|[c [r [E Hc]]]].
    + rewrite E. rewrite <- E. apply Ht.
    + rewrite E. replace (c =? 58) with false by (destruct Hc; subst; reflexivity).
      rewrite <- E. apply Ht.
  - cbn [app Z.eqb Pos.eqb].
    destruct unix; [specialize (Hu eq_refl); discriminate|]. cbv zeta.
    destruct (uri_span_app' uri_notdigit [] (pt ++ qt) ltac:(intros x []) Hstop) as [E1 E2].
    cbn [app] in E1, E2. rewrite E1, E2. change (0 <? len (@nil Z)) with false. cbv iota. apply Ht.
  - cbn [app Z.eqb Pos.eqb].
    destruct unix; [specialize (Hu eq_refl); discriminate|]. cbv zeta.
    assert (Hnd : forall x, In x ds -> uri_notdigit x = false).
    { intros x Hx. unfold uri_notdigit. rewrite (Hd x Hx). reflexivity. }
    destruct (uri_span_app' uri_notdigit ds (pt ++ qt) Hnd Hstop) as [E1 E2].
    rewrite E1, E2.
    assert (0 < len ds) by (destruct ds; [contradiction|rewrite len_cons; pose proof (len_nonneg ds); lia]).
    destruct (0 <? len ds) eqn:En; [|lia].
    destruct (uri_port_acc_spec ds 0 Hd ltac:(lia)) as [A1 _].
    unfold uri_decimal in *. rewrite (A1 Hle).
    destruct (65535 <? uri_decimal_acc ds 0) eqn:Ev; [lia|]. apply Ht.
Qed.

(* ---- the host ---- *)
Definition uri_is_rbr (c : Z) : bool := c =? 93.

Definition uri_host_pure (p : bytes) (dport : Z) : (bytes * bytes * Z * bool) + Z :=
  match p with
  | [] => inr (-3)
  | c :: p' =>
      if c =? 91 then
        match uri_after uri_is_rbr p' with
        | [] => inr (-3)
        | _ :: q =>
            if len (uri_upto uri_is_rbr p') =? 0 then inr (-3)
            else inl (q, uri_upto uri_is_rbr p', dport, false)
        end
      else
        let h := uri_upto uri_is_host_end p in
        if len h =? 0 then inr (-3)
        else inl (uri_after uri_is_host_end p, h,
                  (if uri_is_unix_host p then 0 else dport), uri_is_unix_host p)
  end.

Definition uri_host_res (r : (bytes * bytes * Z * bool) + Z)
  : bytes * Z * bytes * Z * bool + Z :=
  match r with
  | inl (q, host, port0, unix) => inl (q, len q, host, port0, unix)
  | inr rc => inr rc
  end.

Lemma uri_is_unix_host_reads p :
  (if 3 <=? len p then
     ulet a <- uri_rd p 0 ;;
     if a =? 37 then
       ulet b <- uri_rd p 1 ;;
       if b =? 50 then ulet c <- uri_rd p 2 ;; UOk ((c =? 70) || (c =? 102)) else UOk false
     else UOk false
   else UOk false) = UOk (uri_is_unix_host p).
Proof.
  destruct p as [|a [|b [|c r]]].
  - reflexivity.
  - rewrite len_cons, len_nil. cbn. reflexivity.
  - rewrite !len_cons, len_nil. cbn. reflexivity.
  - rewrite !len_cons. pose proof (len_nonneg r).
    destruct (3 <=? 1 + (1 + (1 + len r))) eqn:E; [|lia].
    cbn [uri_rd nth_error uri_bind uri_is_unix_host].
    destruct (a =? 37); [|reflexivity]. destruct (b =? 50); reflexivity.
Qed.

Lemma uri_host_stage_ok p dport :
  uri_host_stage p (len p) dport = UOk (uri_host_res (uri_host_pure p dport)).
Proof.
  unfold uri_host_stage, uri_host_pure.
  destruct p as [|c p'].
  - rewrite len_nil. cbn. reflexivity.
  - rewrite len_cons. pose proof (len_nonneg p') as Hp.
    destruct (1 + len p' =? 0) eqn:E0; [lia|].
    cbn [uri_rd nth_error uri_bind].
    destruct (c =? 91) eqn:E91.
    + apply Z.eqb_eq in E91. subst c.
      replace (1 + len p') with (len (91 :: p')) by (rewrite len_cons; reflexivity).
      change (fun c : Z => c =? 93) with uri_is_rbr.
      rewrite uri_scan_spec. cbn [uri_bind uri_after uri_upto].
      change (uri_is_rbr 91) with false. cbv iota.
      rewrite len_cons.
      pose proof (uri_upto_after uri_is_rbr p') as Hs.
      destruct (uri_after_head uri_is_rbr p') as [Ea|[c2 [r [Ea Hc]]]]; rewrite Ea in *.
      * rewrite len_nil. cbn. reflexivity.
      * rewrite len_cons. pose proof (len_nonneg r).
        pose proof (len_nonneg (uri_upto uri_is_rbr p')) as Hu.
        destruct (1 + len r =? 0) eqn:E1; [lia|]. cbn [orb].
        destruct (len (uri_upto uri_is_rbr p') =? 0) eqn:E2.
        -- replace (0 + (1 + len (uri_upto uri_is_rbr p')) =? 1) with true by lia. reflexivity.
        -- replace (0 + (1 + len (uri_upto uri_is_rbr p')) =? 1) with false by lia.
           cbn [tl]. rewrite (uri_copy_upto uri_is_rbr p') by lia. cbn [uri_bind uri_host_res].
           replace (1 + len r - 1) with (len r) by lia. reflexivity.
    + replace (1 + len p') with (len (c :: p')) by (rewrite len_cons; reflexivity).
      rewrite uri_is_unix_host_reads. cbn [uri_bind].
      rewrite uri_scan_spec. cbn [uri_bind].
      replace (0 + len (uri_upto uri_is_host_end (c :: p')))
        with (len (uri_upto uri_is_host_end (c :: p'))) by lia.
      cbv zeta.
      destruct (len (uri_upto uri_is_host_end (c :: p')) =? 0); [reflexivity|].
      rewrite (uri_copy_upto uri_is_host_end (c :: p')) by reflexivity. reflexivity.
Qed.

(* the Unix-domain test looks at the first three bytes of what follows "://"; they belong to the
   host *)
Lemma uri_is_unix_host_app h q :
  (forall x, In x h -> uri_is_host_end x = false) -> uri_stops_here uri_is_host_end q ->
  uri_is_unix_host (h ++ q) = uri_is_unix_host h.
Proof.
  intros Hh Hq.
  assert (Hq' : forall c r, q = c :: r -> c <> 37 /\ c <> 50 /\ c <> 70 /\ c <> 102).
  { intros c r ->. destruct Hq as [|[c' [r' [E Hc]]]]; [discriminate|].
    injection E as <- <-. unfold uri_is_host_end in Hc. lia. }
  destruct h as [|a [|b [|c r]]]; cbn [app uri_is_unix_host]; try reflexivity.
  - destruct q as [|a [|b [|c r]]]; cbn [uri_is_unix_host]; try reflexivity.
    destruct (Hq' a _ eq_refl) as [N _]. replace (a =? 37) with false by lia. reflexivity.
  - destruct q as [|b [|c r]]; cbn [app uri_is_unix_host]; try reflexivity.
    destruct (Hq' b _ eq_refl) as [_ [N _]]. replace (b =? 50) with false by lia.
    rewrite andb_false_r. reflexivity.
  - destruct q as [|c r]; cbn [app uri_is_unix_host]; try reflexivity.
    destruct (Hq' c _ eq_refl) as [_ [_ [N1 N2]]].
    replace (c =? 70) with false by lia. replace (c =? 102) with false by lia.
    rewrite andb_false_r. reflexivity.
Qed.

Lemma uri_host_pure_sound p dport q host port0 unix :
  uri_host_pure p dport = inl (q, host, port0, unix) ->
  exists ht, p = ht ++ q /\ uri_g_host ht host unix /\ port0 = (if unix then 0 else dport).
Proof.
  unfold uri_host_pure. destruct p as [|c p']; [discriminate|].
  destruct (c =? 91) eqn:E91.
  - apply Z.eqb_eq in E91. subst c.
    pose proof (uri_upto_after uri_is_rbr p') as Hs.
    destruct (uri_after_head uri_is_rbr p') as [Ea|[c2 [r [Ea Hc]]]]; rewrite Ea in *; [discriminate|].
    destruct (len (uri_upto uri_is_rbr p') =? 0) eqn:E0; [discriminate|].
    intros E. injection E as <- <- <- <-.
    unfold uri_is_rbr in Hc. apply Z.eqb_eq in Hc. subst c2.
    exists (91 :: uri_upto uri_is_rbr p' ++ [93]).
    split; [cbn [app]; rewrite <- app_assoc; cbn [app]; rewrite Hs; reflexivity|].
    split; [|reflexivity].
    constructor.
    + intros E. rewrite E in E0. discriminate.
    + apply uri_none_of_1. intros x Hx. apply (uri_upto_nostop uri_is_rbr p' x Hx).
  - cbv zeta.
    pose proof (uri_upto_after uri_is_host_end (c :: p')) as Hs.
    assert (Hh : forall x, In x (uri_upto uri_is_host_end (c :: p')) -> uri_is_host_end x = false)
      by (intros x Hx; apply (uri_upto_nostop uri_is_host_end (c :: p') x Hx)).
    assert (Hq : uri_stops_here uri_is_host_end (uri_after uri_is_host_end (c :: p'))).
    { destruct (uri_after_head uri_is_host_end (c :: p')) as [Ea|[c2 [r [Ea Hc]]]];
        [left; exact Ea|right; eauto]. }
    remember (uri_upto uri_is_host_end (c :: p')) as h eqn:Eh.
    remember (uri_after uri_is_host_end (c :: p')) as q0 eqn:Eq0.
    assert (Eu : uri_is_unix_host (c :: p') = uri_is_unix_host h).
    { rewrite <- Hs. apply uri_is_unix_host_app; assumption. }
    remember (uri_is_unix_host (c :: p')) as ux eqn:Eux.
    destruct (len h =? 0) eqn:E0; [discriminate|].
    intros E. injection E as <- <- <- <-.
    assert (Hne : h <> []) by (intros E; rewrite E in E0; discriminate).
    assert (Hhd : hd 0 h <> 91).
    { destruct h as [|y h']; [contradiction|].
      assert (y = c).
      { cbn [app] in Hs. injection Hs as Hy _. exact Hy. }
      subst y. cbn [hd]. lia. }
    exists h. split; [symmetry; exact Hs|]. split; [|reflexivity].
    rewrite Eu. constructor; [exact Hne| |exact Hhd].
    apply uri_none_of_host. exact Hh.
Qed.

Lemma uri_host_pure_complete ht host unix q dport :
  uri_g_host ht host unix -> uri_stops_here uri_is_host_end q ->
  uri_host_pure (ht ++ q) dport = inl (q, host, (if unix then 0 else dport), unix).
Proof.
  intros Hg Hq. unfold uri_host_pure.
  destruct Hg as [h Hne Hn|h Hne Hn Hhd].
  - cbn [app Z.eqb Pos.eqb]. rewrite <- app_assoc. cbn [app].
    assert (Hn1 := proj1 (uri_none_of_1 _ _) Hn); clear Hn; rename Hn1 into Hn.
    destruct (uri_span_app uri_is_rbr h 93 q Hn eq_refl) as [-> ->].
    assert (0 < len h) by (destruct h; [contradiction|rewrite len_cons; pose proof (len_nonneg h); lia]).
    destruct (len h =? 0) eqn:E; [lia|]. reflexivity.
  - assert (Hn1 := proj1 (uri_none_of_host _) Hn); clear Hn; rename Hn1 into Hn.
    destruct h as [|c h']; [contradiction|]. cbn [hd] in Hhd. cbn [app].
    replace (c =? 91) with false by lia. cbv zeta.
    change (c :: h' ++ q) with ((c :: h') ++ q).
    destruct (uri_span_app' uri_is_host_end (c :: h') q Hn Hq) as [-> ->].
    rewrite len_cons. pose proof (len_nonneg h').
    destruct (1 + len h' =? 0) eqn:E; [lia|].
    rewrite (uri_is_unix_host_app (c :: h') q Hn Hq). reflexivity.
Qed.

(* ---- the scheme ---- *)
Definition uri_starts_css (p : bytes) : bool :=
  match p with
  | a :: b :: c :: _ => (a =? 58) && (b =? 47) && (c =? 47)
  | _ => false
  end.

Fixpoint uri_css_from (p : bytes) : bytes :=
  if len p <? 3 then p else
  if uri_starts_css p then p else
  match p with [] => [] | _ :: p' => uri_css_from p' end.

Fixpoint uri_css_before (p : bytes) : bytes :=
  if len p <? 3 then [] else
  if uri_starts_css p then [] else
  match p with [] => [] | c :: p' => c :: uri_css_before p' end.

Lemma uri_css_split p : uri_css_before p ++ uri_css_from p = p.
Proof.
  induction p as [|c p IH]; [reflexivity|]. cbn [uri_css_before uri_css_from].
  destruct (len (c :: p) <? 3); [reflexivity|].
  destruct (uri_starts_css (c :: p)); [reflexivity|]. cbn [app]. rewrite IH. reflexivity.
Qed.

Lemma uri_css_from_head p :
  len (uri_css_from p) < 3 \/ exists r, uri_css_from p = 58 :: 47 :: 47 :: r.
Proof.
  induction p as [|c p IH]; [left; cbn; lia|]. cbn [uri_css_from].
  destruct (len (c :: p) <? 3) eqn:E; [left; lia|].
  destruct (uri_starts_css (c :: p)) eqn:Es; [|exact IH].
  right. destruct p as [|b [|d r]]; try discriminate. cbn [uri_starts_css] in Es.
  assert (c = 58 /\ b = 47 /\ d = 47) as [-> [-> ->]] by lia. eauto.
Qed.

Lemma uri_find_css_spec : forall p k,
  uri_find_css p (len p) k =
  UOk (uri_css_from p, len (uri_css_from p), k + len (uri_css_before p)).
Proof.
  induction p as [|c p IH]; intros k.
  - cbn. f_equal. f_equal. lia.
  - cbn [uri_find_css uri_css_from uri_css_before].
    destruct (len (c :: p) <? 3) eqn:E3.
    + rewrite len_nil. f_equal. f_equal. lia.
    + destruct p as [|b [|d r]].
      * rewrite len_cons, len_nil in E3. lia.
      * rewrite !len_cons, len_nil in E3. lia.
      * cbn [uri_rd nth_error uri_bind uri_starts_css].
        assert (M : (if c =? 58 then (if b =? 47 then UOk (d =? 47) else UOk false) else UOk false)
                    = UOk ((c =? 58) && (b =? 47) && (d =? 47))).
        { destruct (c =? 58); [|reflexivity]. destruct (b =? 47); reflexivity. }
        rewrite M. cbn [uri_bind].
        destruct ((c =? 58) && (b =? 47) && (d =? 47)).
        -- rewrite len_nil. f_equal. f_equal. lia.
        -- replace (len (c :: b :: d :: r) - 1) with (len (b :: d :: r))
             by (rewrite (len_cons c); lia).
           rewrite IH. rewrite (len_cons c (uri_css_before (b :: d :: r))). f_equal. f_equal. lia.
Qed.

(* a scheme name followed by "://" : the scan stops exactly behind the name *)
Lemma uri_css_of_name name rest :
  (forall x, In x name -> x <> 58) ->
  uri_css_before (name ++ uri_css ++ rest) = name /\
  uri_css_from (name ++ uri_css ++ rest) = uri_css ++ rest.
Proof.
  intros Hn. induction name as [|c name IH].
  - cbn [app uri_css uri_css_before uri_css_from uri_starts_css].
    rewrite !len_cons. pose proof (len_nonneg rest).
    destruct (1 + (1 + (1 + len rest)) <? 3) eqn:E; [lia|]. cbn. auto.
  - cbn [app uri_css_before uri_css_from].
    assert (L : 3 <= len (name ++ uri_css ++ rest)).
    { rewrite !len_app. unfold uri_css. rewrite !len_cons, len_nil.
      pose proof (len_nonneg name). pose proof (len_nonneg rest). lia. }
    rewrite len_cons. destruct (1 + len (name ++ uri_css ++ rest) <? 3) eqn:E; [lia|].
    assert (Hc : c <> 58) by (apply Hn; left; reflexivity).
    assert (Es : uri_starts_css (c :: name ++ uri_css ++ rest) = false).
    { unfold uri_starts_css. destruct (name ++ uri_css ++ rest) as [|b [|d r]]; try reflexivity.
      replace (c =? 58) with false by lia. reflexivity. }
    rewrite Es. destruct IH as [I1 I2]; [intros x Hx; apply Hn; right; exact Hx|].
    rewrite I1, I2. auto.
Qed.

Lemma uri_beq_eq a b : uri_beq a b = true <-> a = b.
Proof.
  revert b. induction a as [|x a IH]; intros [|y b]; cbn [uri_beq]; split; intros H;
    try reflexivity; try discriminate.
  - apply andb_true_iff in H. destruct H as [H1 H2]. apply Z.eqb_eq in H1. apply IH in H2.
    subst. reflexivity.
  - injection H as -> ->. rewrite Z.eqb_refl. cbn [andb]. apply IH. reflexivity.
Qed.

Lemma uri_lookup_sound : forall tbl pre dport ponly sch,
  uri_lookup tbl pre = Some (dport, ponly, sch) -> In (pre, dport, ponly, sch) tbl.
Proof.
  induction tbl as [|[[[name port] po] s] t IH]; intros pre dport ponly sch; [discriminate|].
  cbn [uri_lookup]. destruct (uri_beq pre name) eqn:E.
  - intros H. injection H as <- <- <-. apply uri_beq_eq in E. subst. left. reflexivity.
  - intros H. right. apply IH. exact H.
Qed.

(* facts about the table: names are distinct, non-empty, do not start with '/', contain no ':' *)
Lemma uri_schemes_facts name dport ponly sch :
  In (name, dport, ponly, sch) uri_schemes ->
  uri_lookup uri_schemes name = Some (dport, ponly, sch) /\
  (forall x, In x name -> x <> 58) /\
  exists c r, name = c :: r /\ c <> 47.
Proof.
  unfold uri_schemes. cbn [In].
  intros [E|[E|[E|[E|[E|[E|[E|[E|[]]]]]]]]]; injection E as <- <- <- <-;
    (split; [reflexivity|split; [cbn [In]; intros x Hx; lia|eexists; eexists; split; [reflexivity|lia]]]).
Qed.

(* ---- the whole scanner ---- *)
Definition uri_split_pure (caps : uri_caps) (proxy : bool) (s : bytes) : uri_sres :=
  match s with
  | [] => UErr (-1)
  | c0 :: _ =>
      if c0 =? 47 then (if proxy then UErr (-1) else uri_tail_pure s 0 [] 5683)
      else
        if len (uri_css_from s) <? 3 then UErr (-2) else
        match uri_lookup uri_schemes (uri_css_before s) with
        | None => UErr (-1)
        | Some (dport, ponly, sch) =>
            if negb proxy && ponly then UErr (-1) else
            if negb (uri_cap_ok caps sch) then UErr (-1) else
            match uri_host_pure (drop 3 (uri_css_from s)) dport with
            | inr rc => UErr rc
            | inl (q, host, port0, unix) => uri_port_pure q sch host port0 unix
            end
        end
  end.

Theorem uri_split_is_pure caps proxy s :
  uri_split caps proxy s = UOk (uri_split_pure caps proxy s).
Proof.
  unfold uri_split, uri_split_sub, uri_split_pure.
  destruct s as [|c0 s']; [reflexivity|].
  remember (c0 :: s') as s eqn:Es.
  assert (Hl : len s =? 0 = false) by (rewrite Es, len_cons; pose proof (len_nonneg s'); lia).
  assert (Hr : uri_rd s 0 = UOk c0) by (rewrite Es; reflexivity).
  rewrite Hl, Hr. cbn [uri_bind].
  destruct (c0 =? 47).
  - destruct proxy; [reflexivity|]. apply uri_split_tail_ok.
  - rewrite uri_find_css_spec. cbn [uri_bind].
    destruct (len (uri_css_from s) <? 3) eqn:E3; [reflexivity|].
    replace (0 + len (uri_css_before s)) with (len (uri_css_before s)) by lia.
    assert (Et : take (len (uri_css_before s)) s = uri_css_before s).
    { rewrite <- (uri_css_split s) at 2. apply take_app_exact. }
    rewrite Et.
    destruct (uri_lookup uri_schemes (uri_css_before s)) as [[[dport ponly] sch]|]; [|reflexivity].
    destruct (negb proxy && ponly); [reflexivity|].
    destruct (negb (uri_cap_ok caps sch)); [reflexivity|].
    assert (Ed : len (uri_css_from s) - 3 = len (drop 3 (uri_css_from s))).
    { rewrite len_drop; [reflexivity|]. pose proof (len_nonneg (uri_css_from s)). lia. }
    rewrite Ed, uri_host_stage_ok. cbn [uri_bind].
    destruct (uri_host_pure (drop 3 (uri_css_from s)) dport) as [[[[q host] port0] unix]|rc];
      [|reflexivity].
    cbn [uri_host_res]. apply uri_port_stage_ok.
Qed.

Theorem uri_split_no_oob caps proxy s : uri_split caps proxy s <> UOob.
Proof. rewrite uri_split_is_pure. discriminate. Qed.

Lemma uri_stops_host_of_tail pot port0 port pt path qt query :
  uri_g_port pot port0 port -> uri_g_path pt path -> uri_g_query qt query ->
  uri_stops_here uri_is_host_end (pot ++ pt ++ qt).
Proof.
  intros Hpo Hp Hq.
  destruct Hpo; cbn [app]; try (right; eexists; eexists; split; [reflexivity|reflexivity]).
  destruct (uri_pt_qt_head pt path qt query Hp Hq) as [->|[c [r [-> Hc]]]]; [left; reflexivity|].
  right. exists c, r. split; [reflexivity|]. destruct Hc as [-> | ->]; reflexivity.
Qed.

Theorem uri_split_pure_iff caps proxy s parts :
  uri_split_pure caps proxy s = USplit parts <-> uri_grammar caps proxy s parts.
Proof.
  split.
  - (* the scanner accepts: the string decomposes *)
    unfold uri_split_pure. destruct s as [|c0 s']; [discriminate|].
    set (s := c0 :: s').
    destruct (c0 =? 47) eqn:E47.
    + destruct proxy eqn:Ep; [discriminate|]. intros E.
      apply uri_tail_pure_sound in E.
      destruct E as [pt [path [qt [query [Eq [Hp [Hq [Hne ->]]]]]]]].
      rewrite Eq. apply UG_abs; auto.
      apply Hne; [discriminate|]. unfold s. cbn [hd]. lia.
    + destruct (len (uri_css_from s) <? 3) eqn:E3; [discriminate|].
      destruct (uri_lookup uri_schemes (uri_css_before s)) as [[[dport ponly] sch]|] eqn:El;
        [|discriminate].
      destruct (negb proxy && ponly) eqn:Epo; [discriminate|].
      destruct (negb (uri_cap_ok caps sch)) eqn:Ecap; [discriminate|].
      destruct (uri_host_pure (drop 3 (uri_css_from s)) dport) as [[[[q host] port0] unix]|rc] eqn:Eh;
        [|discriminate].
      intros E.
      destruct (uri_css_from_head s) as [Hlt|[r Hr]]; [lia|].
      apply uri_lookup_sound in El.
      apply uri_host_pure_sound in Eh. destruct Eh as [ht [Ert [Hgh ->]]].
      apply uri_port_pure_sound in E.
      destruct E as [pot [port [pt [path [qt [query [Eq [Hpo [Hu [Hp [Hq ->]]]]]]]]]]].
      assert (Es : s = uri_css_before s ++ uri_css ++ ht ++ pot ++ pt ++ qt).
      { rewrite <- (uri_css_split s) at 1. f_equal. rewrite Hr in *.
        change (drop 3 (58 :: 47 :: 47 :: r)) with r in Ert. rewrite Ert, Eq. reflexivity. }
      rewrite Es.
      apply (UG_full caps proxy (uri_css_before s) dport ponly sch ht host unix pot port pt path
                     qt query); auto.
      * intros ->. destruct proxy; [reflexivity|discriminate].
      * destruct (uri_cap_ok caps sch); [reflexivity|discriminate].
  - (* a string of the grammar is accepted, with exactly these parts *)
    intros G. destruct G as [pt path qt query Hpx Hp Hne Hq
                            |name dport ponly sch ht host unix pot port pt path qt query
                                  Hin Hpo Hcap Hgh Hgp Hu Hp Hq].
    + unfold uri_split_pure. destruct Hp as [|p Hn]; [contradiction|]. cbn [app Z.eqb Pos.eqb].
      rewrite Hpx.
      change (47 :: p ++ qt) with ((47 :: p) ++ qt).
      apply (uri_tail_pure_complete (47 :: p) p qt query 0 [] 5683); [constructor; exact Hn|exact Hq].
    + destruct (uri_schemes_facts name dport ponly sch Hin) as [Hl [Hno [c [r [En Hc]]]]].
      destruct (uri_css_of_name name (ht ++ pot ++ pt ++ qt) Hno) as [Eb Ef].
      unfold uri_split_pure.
      set (s := name ++ uri_css ++ ht ++ pot ++ pt ++ qt) in *.
      assert (Es : exists t, s = c :: t) by (unfold s; rewrite En; cbn [app]; eauto).
      destruct Es as [t Es]. rewrite Es. rewrite <- Es.
      replace (c =? 47) with false by lia.
      rewrite Ef, Eb.
      assert (L : len (uri_css ++ ht ++ pot ++ pt ++ qt) <? 3 = false).
      { rewrite len_app. unfold uri_css at 1. rewrite !len_cons, len_nil.
        pose proof (len_nonneg (ht ++ pot ++ pt ++ qt)). lia. }
      rewrite L, Hl.
      assert (P : negb proxy && ponly = false).
      { destruct ponly; [rewrite (Hpo eq_refl); reflexivity|apply andb_false_r]. }
      rewrite P, Hcap. cbn [negb].
      change (drop 3 (uri_css ++ ht ++ pot ++ pt ++ qt)) with (ht ++ pot ++ pt ++ qt).
      rewrite (uri_host_pure_complete ht host unix (pot ++ pt ++ qt) dport Hgh
                 (uri_stops_host_of_tail pot _ port pt path qt query Hgp Hp Hq)).
      apply uri_port_pure_complete; assumption.
Qed.

Theorem uri_split_iff_grammar caps proxy s parts :
  uri_split caps proxy s = UOk (USplit parts) <-> uri_grammar caps proxy s parts.
Proof.
  rewrite uri_split_is_pure. rewrite <- uri_split_pure_iff.
  split; [intros E; injection E as E; exact E|intros ->; reflexivity].
Qed.

(* Model of the path / query side of src/coap_uri.c on byte lists with CHECKED reads.

   A C pointer into the input is the SUFFIX of the input that starts there (what is really
   readable: the input is length-delimited, not NUL-terminated); the C length variables are
   carried separately as Z.  Reading at an offset that the suffix does not have yields [UOob].
   "No overread" is then a theorem about these functions, not something true by construction.
   Every loop is a structural recursion on the scanned pointer, so there is no fuel and no
   out-of-fuel result.

   Transcribed: dots, check_segment, decode_segment, make_decoded_option (with the size logic of
   coap_opt_setheader for delta 0), write_option, backup_segment, coap_split_path_impl /
   coap_split_path, coap_split_query, coap_replace_percents, backup_optlist,
   coap_path_into_optlist, coap_query_into_optlist, is_unescaped_in_path/query,
   coap_get_uri_path, coap_get_query. *)
From Coq Require Import ZArith List Bool.
From LibcoapV Require Import Base.Bytes Wire.OptCodec.
Import ListNotations.
Local Open Scope Z_scope.

Inductive uri_res (A : Type) : Type := UOk (a : A) | UOob.
Arguments UOk {A} a.
Arguments UOob {A}.

Definition uri_bind {A B} (r : uri_res A) (f : A -> uri_res B) : uri_res B :=
  match r with UOk a => f a | UOob => UOob end.
Notation "'ulet' x <- r ;; k" := (uri_bind r (fun x => k))
  (at level 200, x pattern, r at level 100, k at level 200, right associativity).

(* p[i] *)
Definition uri_rd (p : bytes) (i : nat) : uri_res Z :=
  match nth_error p i with Some b => UOk b | None => UOob end.

(* ---- characters ---- *)
Definition uri_c_pct : Z := 37.    (* % *)
Definition uri_c_dot : Z := 46.    (* . *)
Definition uri_c_slash : Z := 47.  (* / *)
Definition uri_c_qm : Z := 63.     (* ? *)
Definition uri_c_hash : Z := 35.   (* # *)
Definition uri_c_amp : Z := 38.    (* & *)

Definition uri_isdigit (c : Z) : bool := (48 <=? c) && (c <=? 57).
Definition uri_isxdigit (c : Z) : bool :=
  uri_isdigit c || ((65 <=? c) && (c <=? 70)) || ((97 <=? c) && (c <=? 102)).
Definition uri_isalpha (c : Z) : bool :=
  ((65 <=? c) && (c <=? 90)) || ((97 <=? c) && (c <=? 122)).

(* hexchar_to_dec(c) = (c & 0x40) ? (c & 0x0F) + 9 : (c & 0x0F) *)
Definition uri_hexdec (c : Z) : Z :=
  if (c / 64) mod 2 =? 1 then c mod 16 + 9 else c mod 16.
(* (hexchar_to_dec(a) << 4) + hexchar_to_dec(b), stored into a uint8_t *)
Definition uri_hexpair (a b : Z) : Z := (uri_hexdec a * 16 + uri_hexdec b) mod 256.

(* size_t subtraction (wraps when the result would be negative) *)
Definition uri_szsub (a b : Z) : Z :=
  if a <? b then a - b + 18446744073709551616 else a - b.

(* ---- dots(s, len): 1 for ".", 2 for "..", written literally or as %2e / %2E ---- *)
Definition uri_is_eE (c : Z) : bool := (c =? 69) || (c =? 101).

(* one "character" of dots(): returns (char seen, extra offset consumed, remaining len) *)
Definition uri_dots_char (s : bytes) (off : nat) (n : Z) : uri_res (Z * nat * Z) :=
  ulet c0 <- uri_rd s off ;;
  if (c0 =? uri_c_pct) && (3 <=? n) then
    ulet c1 <- uri_rd s (S off) ;;
    if c1 =? 50 then
      ulet c2 <- uri_rd s (S (S off)) ;;
      if uri_is_eE c2 then UOk (uri_c_dot, 2%nat, n - 2) else UOk (uri_c_dot, 0%nat, n)
    else UOk (uri_c_dot, 0%nat, n)
  else UOk (c0, 0%nat, n).

Definition uri_dots (s : bytes) (n : Z) : uri_res Z :=
  if n =? 0 then UOk 0 else
  ulet r1 <- uri_dots_char s 0 n ;;
  let '(p, adv, n1) := r1 in
  if negb (p =? uri_c_dot) then UOk 0 else
  if n1 =? 1 then UOk 1 else
  ulet r2 <- uri_dots_char s (S adv) (n1 - 1) ;;
  let '(p2, _, n2) := r2 in
  if negb (p2 =? uri_c_dot) then UOk 0 else
  if n2 =? 1 then UOk 2 else UOk 0.

(* ---- check_segment(s, length, &n): [k] is the constant of the test "length < k" in front of
   the reads of s[1], s[2].  The code has k = 3 (it had 2: see C16_check_segment_k2_overreads).
   Result: None = -1, Some n = 0 with *segment_size = n. ---- *)
Fixpoint uri_check_seg (k : Z) (s : bytes) (length n : Z) : uri_res (option Z) :=
  if length =? 0 then UOk (Some n) else
  match s with
  | [] => UOob
  | c :: s1 =>
      if c =? uri_c_pct then
        if length <? k then UOk None else
        match s1 with
        | [] => UOob
        | x1 :: s2 =>
            if negb (uri_isxdigit x1) then UOk None else
            match s2 with
            | [] => UOob
            | x2 :: s3 =>
                if negb (uri_isxdigit x2) then UOk None else
                uri_check_seg k s3 (uri_szsub (uri_szsub length 2) 1) (n + 1)
            end
        end
      else uri_check_seg k s1 (length - 1) (n + 1)
  end.

Definition uri_K : Z := 3.

(* ---- decode_segment(seg, length, buf): the bytes written to buf ---- *)
Fixpoint uri_decode_seg (s : bytes) (length : Z) : uri_res bytes :=
  if length =? 0 then UOk [] else
  match s with
  | [] => UOob
  | c :: s1 =>
      if c =? uri_c_pct then
        match s1 with
        | [] => UOob
        | x1 :: s2 =>
            match s2 with
            | [] => UOob
            | x2 :: s3 =>
                ulet r <- uri_decode_seg s3 (uri_szsub (length - 1) 2) ;;
                UOk (uri_hexpair x1 x2 :: r)
            end
        end
      else
        ulet r <- uri_decode_seg s1 (length - 1) ;;
        UOk (c :: r)
  end.

(* return value of coap_opt_setheader(buf, maxlen, 0, seglen): header bytes written, 0 = failure *)
Definition uri_sethdr_size (maxlen seglen : Z) : Z :=
  if maxlen =? 0 then 0 else
  if seglen <? 13 then 1 else
  if seglen <? 269 then (if maxlen <? 2 then 0 else 2) else (if maxlen <? 3 then 0 else 3).

Definition uri_OPT_MAX : Z := 65804.

(* make_decoded_option: None = -1; Some (bytes of the option, *optionsize) *)
Definition uri_make_opt (k : Z) (s : bytes) (length buflen : Z) : uri_res (option (bytes * Z)) :=
  if buflen =? 0 then UOk None else
  ulet cs <- uri_check_seg k s length 0 ;;
  match cs with
  | None => UOk None
  | Some seglen =>
      (* an option header cannot carry a length above 269 + 65535 *)
      if uri_OPT_MAX <? seglen then UOk None else
      let written := uri_sethdr_size buflen seglen in
      if written =? 0 then UOk None else
      if buflen - written <? seglen then UOk None else
      ulet v <- uri_decode_seg s length ;;
      UOk (Some (opt_hdr 0 seglen ++ v, written + seglen))
  end.

(* struct cnt_str: the options written so far (newest first), buf.length; base_buf.length is the
   parameter [base]; n = length of the list *)
Record uri_wst : Type := { uw_ropts : list bytes; uw_rem : Z }.

Fixpoint uri_sumlen (l : list bytes) : Z :=
  match l with [] => 0 | x :: t => len x + uri_sumlen t end.

(* write_option *)
Definition uri_write_opt (k : Z) (s : bytes) (n : Z) (st : uri_wst) : uri_res uri_wst :=
  ulet r <- uri_make_opt k s n (uw_rem st) ;;
  match r with
  | None => UOk st
  | Some (o, sz) => UOk {| uw_ropts := o :: uw_ropts st; uw_rem := uw_rem st - sz |}
  end.

(* backup_segment: forget the newest option; the write position is recomputed by walking
   coap_opt_size over the remaining ones (each is a header this code wrote + its value) *)
Definition uri_backup (base : Z) (st : uri_wst) : uri_wst :=
  match uw_ropts st with
  | [] => st
  | _ :: t => {| uw_ropts := t; uw_rem := base - uri_sumlen t |}
  end.

(* the switch (dots(p, q - p)) of coap_split_path_impl with h = write_option *)
Definition uri_seg_buf (k base : Z) (p : bytes) (n : Z) (st : uri_wst) : uri_res uri_wst :=
  ulet d <- uri_dots p n ;;
  if d =? 1 then UOk st
  else if d =? 2 then UOk (uri_backup base st)
  else uri_write_opt k p n st.

(* The scanning loop shared by coap_split_path_impl, coap_path_into_optlist (stop at '?' or '#',
   new segment at '/') and coap_split_query, coap_query_into_optlist (stop at '#', new item at
   '&').  q = scanning pointer, p = start of the current segment, n = q - p, length = what the
   C believes is left. [h] handles one finished segment (p, n). *)
Fixpoint uri_seg_loop {S : Type} (stop sep : Z -> bool) (h : bytes -> Z -> S -> uri_res S)
         (q p : bytes) (n length : Z) (st : S) : uri_res S :=
  if length =? 0 then h p n st else
  match q with
  | [] => UOob
  | c :: q' =>
      if stop c then h p n st else
      if sep c then
        ulet st' <- h p n st ;;
        uri_seg_loop stop sep h q' q' 0 (length - 1) st'
      else uri_seg_loop stop sep h q' p (n + 1) (length - 1) st
  end.

Definition uri_path_stop (c : Z) : bool := (c =? uri_c_qm) || (c =? uri_c_hash).
Definition uri_path_sep (c : Z) : bool := c =? uri_c_slash.
Definition uri_query_stop (c : Z) : bool := c =? uri_c_hash.
Definition uri_query_sep (c : Z) : bool := c =? uri_c_amp.

(* coap_split_path(s, length, buf, &buflen): (options in buffer order, new *buflen); the return
   value n is the number of options *)
Definition uri_split_path_k (k : Z) (s : bytes) (buflen : Z) : uri_res (list bytes * Z) :=
  ulet st <- uri_seg_loop uri_path_stop uri_path_sep (uri_seg_buf k buflen) s s 0 (len s)
                {| uw_ropts := []; uw_rem := buflen |} ;;
  UOk (rev (uw_ropts st), buflen - uw_rem st).

(* coap_split_query: every item goes through write_option, no dot handling *)
Definition uri_split_query_k (k : Z) (s : bytes) (buflen : Z) : uri_res (list bytes * Z) :=
  ulet st <- uri_seg_loop uri_query_stop uri_query_sep (uri_write_opt k) s s 0 (len s)
                {| uw_ropts := []; uw_rem := buflen |} ;;
  UOk (rev (uw_ropts st), buflen - uw_rem st).

Definition uri_split_path := uri_split_path_k uri_K.
Definition uri_split_query := uri_split_query_k uri_K.

(* ---- optlist API ---- *)

(* coap_replace_percents on the exact-size copy held by the optlist node.  [strict] = the two
   characters after '%' must be hex digits for the escape to be decoded (current code); the
   unchecked variant is kept for C16_replace_percents_unchecked_emits_dot. *)
Fixpoint uri_replace_pct_g (strict : bool) (d : bytes) : bytes :=
  match d with
  | [] => []
  | c :: r =>
      match r with
      | x1 :: x2 :: r2 =>
          if (c =? uri_c_pct) && (negb strict || (uri_isxdigit x1 && uri_isxdigit x2))
          then uri_hexpair x1 x2 :: uri_replace_pct_g strict r2
          else c :: uri_replace_pct_g strict r
      | _ => c :: uri_replace_pct_g strict r
      end
  end.

(* coap_new_optlist(num, n, p): memcpy of n bytes starting at p *)
Definition uri_copy (p : bytes) (n : Z) : uri_res bytes :=
  if n <=? len p then UOk (take n p) else UOob.

(* backup_optlist(optlist_start): delete the last node of the sub-chain that starts after the
   first [start] nodes *)
Definition uri_backup_optlist {A} (start : nat) (chain : list A) : list A :=
  if (start <? length chain)%nat then removelast chain else chain.

Definition uri_seg_optlist (strict : bool) (start : nat) (optnum : Z) (p : bytes) (n : Z)
           (chain : list opt) : uri_res (list opt) :=
  ulet d <- uri_dots p n ;;
  if d =? 1 then UOk chain
  else if d =? 2 then UOk (uri_backup_optlist start chain)
  else ulet c <- uri_copy p n ;; UOk (chain ++ [(optnum, uri_replace_pct_g strict c)]).

(* where the sub-chain that ".." may shorten starts: after everything that was in the chain
   before the call (current code).  The code used to protect only the first node. *)
Definition uri_start_all {A} (chain : list A) : nat := length chain.
Definition uri_start_first_only {A} (chain : list A) : nat :=
  match chain with [] => 0%nat | _ => 1%nat end.

Definition uri_path_into_optlist_g (strict : bool) (start : list opt -> nat) (s : bytes)
           (optnum : Z) (chain : list opt) : uri_res (list opt) :=
  uri_seg_loop uri_path_stop uri_path_sep (uri_seg_optlist strict (start chain) optnum)
               s s 0 (len s) chain.

Definition uri_item_optlist (strict : bool) (optnum : Z) (p : bytes) (n : Z) (chain : list opt)
  : uri_res (list opt) :=
  ulet c <- uri_copy p n ;; UOk (chain ++ [(optnum, uri_replace_pct_g strict c)]).

Definition uri_query_into_optlist_g (strict : bool) (s : bytes) (optnum : Z) (chain : list opt)
  : uri_res (list opt) :=
  uri_seg_loop uri_query_stop uri_query_sep (uri_item_optlist strict optnum) s s 0 (len s) chain.

Definition uri_replace_pct := uri_replace_pct_g true.
Definition uri_path_into_optlist := uri_path_into_optlist_g true (@uri_start_all opt).
Definition uri_query_into_optlist := uri_query_into_optlist_g true.

(* ---- options -> string: coap_get_uri_path / coap_get_query ---- *)

Definition uri_in (c : Z) (l : list Z) : bool := existsb (Z.eqb c) l.

(* is_unescaped_in_path: ALPHA DIGIT - . _ ~ ! $ ' ( ) * + , ; = : @ & *)
Definition uri_unesc_path (c : Z) : bool :=
  uri_isalpha c || uri_isdigit c ||
  uri_in c [45; 46; 95; 126; 33; 36; 39; 40; 41; 42; 43; 44; 59; 61; 58; 64; 38].

(* is_unescaped_in_query: the same without '&' (the item separator), plus '/' and '?' *)
Definition uri_unesc_query (c : Z) : bool :=
  (uri_unesc_path c && negb (c =? uri_c_amp)) || (c =? uri_c_slash) || (c =? uri_c_qm).
(* what it was before the repair: '&' left unescaped inside an item *)
Definition uri_unesc_query_old (c : Z) : bool :=
  uri_unesc_path c || (c =? uri_c_slash) || (c =? uri_c_qm).

(* hex[d] of "0123456789ABCDEF" *)
Definition uri_hexchar (d : Z) : Z := if d <? 10 then 48 + d else 55 + d.

Definition uri_esc_byte (un : Z -> bool) (c : Z) : bytes :=
  if un c then [c] else [uri_c_pct; uri_hexchar (c / 16); uri_hexchar (c mod 16)].

Fixpoint uri_esc (un : Z -> bool) (seg : bytes) : bytes :=
  match seg with [] => [] | c :: r => uri_esc_byte un c ++ uri_esc un r end.

(* second pass of coap_get_uri_path / coap_get_query: separator in front of all but the first *)
Fixpoint uri_join_tail (sep : Z) (un : Z -> bool) (l : list bytes) : bytes :=
  match l with [] => [] | x :: t => sep :: uri_esc un x ++ uri_join_tail sep un t end.
Definition uri_join (sep : Z) (un : Z -> bool) (l : list bytes) : bytes :=
  match l with [] => [] | x :: t => uri_esc un x ++ uri_join_tail sep un t end.

(* first pass: the length that is allocated *)
Fixpoint uri_esc_len (un : Z -> bool) (seg : bytes) : Z :=
  match seg with [] => 0 | c :: r => (if un c then 1 else 3) + uri_esc_len un r end.
Fixpoint uri_join_len_raw (un : Z -> bool) (l : list bytes) : Z :=
  match l with [] => 0 | x :: t => uri_esc_len un x + 1 + uri_join_len_raw un t end.
Definition uri_join_len (un : Z -> bool) (l : list bytes) : Z :=
  let n := uri_join_len_raw un l in if 0 <? n then n - 1 else n.

Definition uri_get_path (l : list bytes) : bytes := uri_join uri_c_slash uri_unesc_path l.
Definition uri_get_query_g (un : Z -> bool) (l : list bytes) : bytes := uri_join uri_c_amp un l.
Definition uri_get_query := uri_get_query_g uri_unesc_query.

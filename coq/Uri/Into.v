(* Model of coap_uri_into_optlist (src/coap_uri.c): the options RFC 7252 6.4 derives from a split
   URI - Uri-Host (unless it is the destination address), Uri-Port (unless default), Uri-Path,
   Uri-Query - appended to an existing chain. *)
From Coq Require Import ZArith List Bool.
From LibcoapV Require Import Base.Bytes Wire.OptCodec Uri.Uri Uri.Split Uri.Spec.
Import ListNotations.
Local Open Scope Z_scope.

(* coap_host_is_unix_domain *)
Definition uri_host_is_unix (h : bytes) : bool :=
  uri_is_unix_host h || match h with c :: _ => c =? 47 | [] => false end.

(* coap_host_is_unix_domain as the code reads it: host->s[0], s[1], s[2] are read only behind the
   guard "host->length >= k" (k = 3), s[0] again behind "length >= 1"; a read at an index the
   length-delimited host does not have is UOob (with k = 2 the host "%2" is read one byte past
   its end: uri_host_is_unix_k2_overreads) *)
Definition uri_UNIX_K : Z := 3.
Definition uri_host_is_unix_chk (k : Z) (h : bytes) : uri_res bool :=
  ulet a <- (if k <=? len h then
               ulet c0 <- uri_rd h 0 ;;
               if c0 =? 37 then
                 ulet c1 <- uri_rd h 1 ;;
                 if c1 =? 50 then ulet c2 <- uri_rd h 2 ;; UOk ((c2 =? 70) || (c2 =? 102))
                 else UOk false
               else UOk false
             else UOk false) ;;
  if (a : bool) then UOk true else
  if 1 <=? len h then ulet c0 <- uri_rd h 0 ;; UOk (c0 =? 47) else UOk false.

(* coap_replace_upper_lower *)
Definition uri_lower (c : Z) : Z := if (65 <=? c) && (c <=? 90) then c + 32 else c.

(* coap_encode_var_safe(buf, 4, port & 0xffff) *)
Definition uri_encode_var16 (v : Z) : bytes :=
  if v =? 0 then [] else if v <? 256 then [v] else [v / 256; v mod 256].

(* the port that needs no Uri-Port option *)
Definition uri_scheme_default_port (sch : Z) : Z :=
  if (sch =? 4) || (sch =? 6) then 80
  else if (sch =? 5) || (sch =? 7) then 443
  else if sch mod 2 =? 1 then 5684 else 5683.

(* the Uri-Host / Uri-Port part; [dst] = what coap_print_ip_addr gives for the destination *)
Definition uri_hostport_opts_ux (ux : bool) (u : uri_parts) (dst : option bytes) (create : bool)
  : list opt :=
  if create && negb ux then
    let host := up_host u in
    let hopt :=
      match dst with
      | Some addr =>
          if 0 <? len host then
            (* %iface is not part of the comparison *)
            let hl := len (uri_upto (fun c => c =? 37) host) in
            if (len addr =? hl) && uri_beq addr (take hl host) then []
            else [(3, map uri_lower (uri_replace_pct host))]
          else []
      | None => []
      end in
    let popt := if up_port u =? uri_scheme_default_port (up_scheme u) then []
                else [(7, uri_encode_var16 (up_port u))] in
    hopt ++ popt
  else [].

Definition uri_hostport_opts (u : uri_parts) (dst : option bytes) (create : bool) : list opt :=
  uri_hostport_opts_ux (uri_host_is_unix (up_host u)) u dst create.

Definition uri_into_optlist_k (k : Z) (u : uri_parts) (dst : option bytes) (create : bool)
           (chain : list opt) : uri_res (list opt) :=
  (* if (create_port_host_opt && !coap_host_is_unix_domain(&uri->host)) *)
  ulet ux <- (if create then uri_host_is_unix_chk k (up_host u) else UOk false) ;;
  let chain1 := chain ++ uri_hostport_opts_ux ux u dst create in
  ulet c2 <- (if 0 <? len (up_path u) then uri_path_into_optlist (up_path u) 11 chain1
              else UOk chain1) ;;
  if 0 <? len (up_query u) then uri_query_into_optlist (up_query u) 15 c2 else UOk c2.

Definition uri_into_optlist := uri_into_optlist_k uri_UNIX_K.

(* ---- coap_address_set_unix_domain (src/coap_address.c): the Unix-domain host of a URI becomes
   sun_path, "%2F"/"%2f" decoded to '/', everything else copied; reads of host[i+1], host[i+2]
   are guarded by "(host_len - i) >= k" (k = 3).  [h] = suffix of the host at i, [rem] = host_len - i.
   Result: the bytes stored before the terminating NUL (at most pmax - 1, pmax = COAP_UNIX_PATH_MAX). *)
Fixpoint uri_unix_decode (k : Z) (h : bytes) (rem : Z) : uri_res bytes :=
  if rem =? 0 then UOk [] else
  match h with
  | [] => UOob
  | c :: h1 =>
      ulet esc <- (if (k <=? rem) && (c =? 37) then
                     ulet c1 <- uri_rd h1 0 ;;
                     if c1 =? 50 then ulet c2 <- uri_rd h1 1 ;; UOk ((c2 =? 70) || (c2 =? 102))
                     else UOk false
                   else UOk false) ;;
      if (esc : bool) then
        match h1 with
        | _ :: _ :: h3 => ulet r <- uri_unix_decode k h3 (rem - 3) ;; UOk (47 :: r)
        | _ => UOob
        end
      else ulet r <- uri_unix_decode k h1 (rem - 1) ;; UOk (c :: r)
  end.

Definition uri_unix_path_k (k pmax : Z) (host : bytes) : uri_res bytes :=
  ulet d <- uri_unix_decode k host (len host) ;;
  (* the loop stops when pmax bytes are stored, the last of them is overwritten by NUL;
     what a reader of the C string sees also ends at the first NUL byte of the host *)
  UOk (uri_upto (fun c => c =? 0) (take (pmax - 1) d)).
Definition uri_unix_path := uri_unix_path_k 3.

(* specification: only a complete "%2F" / "%2f" is an escape *)
Fixpoint uri_unix_pure (h : bytes) : bytes :=
  match h with
  | [] => []
  | c0 :: r0 =>
      match r0 with
      | c1 :: c2 :: r2 =>
          if (c0 =? 37) && (c1 =? 50) && ((c2 =? 70) || (c2 =? 102)) then 47 :: uri_unix_pure r2
          else c0 :: uri_unix_pure r0
      | _ => c0 :: uri_unix_pure r0
      end
  end.

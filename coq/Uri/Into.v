(* Model of coap_uri_into_optlist (src/coap_uri.c): the options RFC 7252 6.4 derives from a split
   URI - Uri-Host (unless it is the destination address), Uri-Port (unless default), Uri-Path,
   Uri-Query - appended to an existing chain. *)
From Coq Require Import ZArith List Bool.
From LibcoapV Require Import Base.Bytes Wire.OptCodec Uri.Uri Uri.Split Uri.Spec.
Import ListNotations.
Local Open Scope Z_scope.

(* coap_host_is_unix_domain *)
Definition uri_host_is_unix (h : bytes) : bool :=
  uri_is_unix_host h || match h with c :: _ => c =? 47 | [] => false end.

(* coap_replace_upper_lower *)
Definition uri_lower (c : Z) : Z := if (65 <=? c) && (c <=? 90) then c + 32 else c.

(* coap_encode_var_safe(buf, 4, port & 0xffff) *)
Definition uri_encode_var16 (v : Z) : bytes :=
  if v =? 0 then [] else if v <? 256 then [v] else [v / 256; v mod 256].

(* the port that needs no Uri-Port option *)
Definition uri_scheme_default_port (sch : Z) : Z :=
  if (sch =? 4) || (sch =? 6) then 80
  else if (sch =? 5) || (sch =? 7) then 443
  else if sch mod 2 =? 1 then 5684 else 5683.

(* the Uri-Host / Uri-Port part; [dst] = what coap_print_ip_addr gives for the destination *)
Definition uri_hostport_opts (u : uri_parts) (dst : option bytes) (create : bool) : list opt :=
  if create && negb (uri_host_is_unix (up_host u)) then
    let host := up_host u in
    let hopt :=
      match dst with
      | Some addr =>
          if 0 <? len host then
            (* %iface is not part of the comparison *)
            let hl := len (uri_upto (fun c => c =? 37) host) in
            if (len addr =? hl) && uri_beq addr (take hl host) then []
            else [(3, map uri_lower (uri_replace_pct host))]
          else []
      | None => []
      end in
    let popt := if up_port u =? uri_scheme_default_port (up_scheme u) then []
                else [(7, uri_encode_var16 (up_port u))] in
    hopt ++ popt
  else [].

Definition uri_into_optlist (u : uri_parts) (dst : option bytes) (create : bool)
           (chain : list opt) : uri_res (list opt) :=
  let chain1 := chain ++ uri_hostport_opts u dst create in
  ulet c2 <- (if 0 <? len (up_path u) then uri_path_into_optlist (up_path u) 11 chain1
              else UOk chain1) ;;
  if 0 <? len (up_query u) then uri_query_into_optlist (up_query u) 15 c2 else UOk c2.

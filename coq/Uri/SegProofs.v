(* One segment: check_segment / decode_segment / coap_replace_percents against RFC 3986 2.1
   percent-decoding, and the dot test against the decoded value. *)
From LibcoapV Require Import Base.Tactics Base.Bytes Base.BytesProofs Wire.OptCodec Uri.Uri Uri.Spec
  Uri.DotsProofs.
Local Open Scope Z_scope.

(* ---- hexchar_to_dec on hex digits ---- *)
Lemma uri_hexdec_hex x : uri_isxdigit x = true -> uri_hexdec x = uri_hexval x /\ 0 <= uri_hexval x < 16.
Proof.
  unfold uri_isxdigit, uri_isdigit, uri_hexdec, uri_hexval, uri_isdigit. intros H.
  destruct ((48 <=? x) && (x <=? 57)) eqn:E1.
  - assert ((x / 64) mod 2 =? 1 = false) as -> by lia. lia.
  - destruct (x <=? 70) eqn:E2.
    + assert ((x / 64) mod 2 =? 1 = true) as -> by lia. lia.
    + assert ((x / 64) mod 2 =? 1 = true) as -> by lia. lia.
Qed.

Lemma uri_hexpair_hex x1 x2 :
  uri_isxdigit x1 = true -> uri_isxdigit x2 = true ->
  uri_hexpair x1 x2 = uri_hexval x1 * 16 + uri_hexval x2.
Proof.
  intros H1 H2. unfold uri_hexpair.
  destruct (uri_hexdec_hex x1 H1) as [-> ?]. destruct (uri_hexdec_hex x2 H2) as [-> ?].
  rewrite Z.mod_small; lia.
Qed.

Lemma uri_hexpair_byte x1 x2 : 0 <= uri_hexpair x1 x2 < 256.
Proof. unfold uri_hexpair. apply Z.mod_pos_bound. lia. Qed.

(* "%XY" decodes to '.' only for %2e / %2E *)
Lemma uri_hexpair_dot x1 x2 :
  uri_isxdigit x1 = true -> uri_isxdigit x2 = true -> uri_hexpair x1 x2 = 46 ->
  x1 = 50 /\ uri_is_eE x2 = true.
Proof.
  intros H1 H2. rewrite (uri_hexpair_hex x1 x2 H1 H2).
  unfold uri_isxdigit, uri_isdigit, uri_hexval, uri_isdigit, uri_is_eE in *.
  destruct ((48 <=? x1) && (x1 <=? 57)) eqn:E1; destruct ((48 <=? x2) && (x2 <=? 57)) eqn:E2;
    destruct (x1 <=? 70) eqn:E3; destruct (x2 <=? 70) eqn:E4; lia.
Qed.

(* ---- induction in steps of one or three bytes ---- *)
Lemma uri_len_ind (P : list Z -> Prop) :
  (forall s, (forall r, (length r < length s)%nat -> P r) -> P s) -> forall s, P s.
Proof.
  intros H s. remember (length s) as m eqn:Em.
  revert s Em. induction m as [m IH] using lt_wf_ind. intros s ->.
  apply H. intros r Hr. exact (IH _ Hr r eq_refl).
Qed.

Lemma uri_szsub_ge a b : b <= a -> uri_szsub a b = a - b.
Proof. intros H. unfold uri_szsub. destruct (a <? b) eqn:E; lia. Qed.

(* ---- check_segment, current code (k = 3): reads only the segment, accepts exactly the
   well-formed segments and counts the decoded bytes ---- *)
Lemma uri_check_seg_spec : forall seg rest n,
  uri_check_seg 3 (seg ++ rest) (len seg) n =
  UOk (match uri_pct_decode seg with Some d => Some (n + len d) | None => None end).
Proof.
  induction seg as [seg IH] using uri_len_ind. intros rest n.
  destruct seg as [|c s1].
  - cbn [app uri_pct_decode]. unfold len at 1. cbn [length Z.of_nat].
    destruct rest; cbn [uri_check_seg Z.eqb]; rewrite len_nil; f_equal; f_equal; lia.
  - cbn [app uri_check_seg uri_pct_decode]. rewrite len_cons.
    pose proof (len_nonneg s1) as Hl.
    destruct (1 + len s1 =? 0) eqn:E0; [lia|].
    change uri_c_pct with 37.
    destruct (c =? 37) eqn:Ec.
    + destruct s1 as [|x1 [|x2 s3]].
      * rewrite len_nil. cbn. reflexivity.
      * rewrite len_cons, len_nil. cbn. reflexivity.
      * rewrite !len_cons. pose proof (len_nonneg s3) as Hl3.
        destruct (1 + (1 + (1 + len s3)) <? 3) eqn:E3; [lia|].
        cbn [app].
        destruct (uri_isxdigit x1) eqn:X1; cbn [negb andb]; [|reflexivity].
        destruct (uri_isxdigit x2) eqn:X2; cbn [negb andb]; [|reflexivity].
        rewrite !uri_szsub_ge by (try rewrite uri_szsub_ge; lia).
        replace (1 + (1 + (1 + len s3)) - 2 - 1) with (len s3) by lia.
        rewrite IH by (cbn [length]; lia).
        destruct (uri_pct_decode s3); [|reflexivity].
        rewrite len_cons. f_equal. f_equal. lia.
    + replace (1 + len s1 - 1) with (len s1) by lia.
      rewrite IH by (cbn [length]; lia).
      destruct (uri_pct_decode s1); [|reflexivity].
      rewrite len_cons. f_equal. f_equal. lia.
Qed.

(* ---- decode_segment after a successful check ---- *)
Lemma uri_decode_seg_spec : forall seg rest d,
  uri_pct_decode seg = Some d -> uri_decode_seg (seg ++ rest) (len seg) = UOk d.
Proof.
  induction seg as [seg IH] using uri_len_ind. intros rest d Hd.
  destruct seg as [|c s1].
  - cbn [uri_pct_decode] in Hd. injection Hd as <-. cbn [app]. unfold len. cbn [length Z.of_nat].
    destruct rest; reflexivity.
  - cbn [app uri_decode_seg]. cbn [uri_pct_decode] in Hd. rewrite len_cons.
    pose proof (len_nonneg s1) as Hl.
    destruct (1 + len s1 =? 0) eqn:E0; [lia|].
    change uri_c_pct with 37.
    destruct (c =? 37) eqn:Ec.
    + destruct s1 as [|x1 [|x2 s3]]; try discriminate.
      destruct (uri_isxdigit x1) eqn:X1; [|discriminate].
      destruct (uri_isxdigit x2) eqn:X2; [|discriminate].
      cbn [andb] in Hd.
      destruct (uri_pct_decode s3) as [d3|] eqn:E3; [|discriminate].
      injection Hd as <-. cbn [app]. rewrite !len_cons.
      pose proof (len_nonneg s3) as Hl3.
      rewrite uri_szsub_ge by lia.
      replace (1 + (1 + (1 + len s3)) - 1 - 2) with (len s3) by lia.
      rewrite (IH s3 ltac:(cbn [length]; lia) rest d3 E3). cbn [uri_bind].
      rewrite uri_hexpair_hex by assumption. reflexivity.
    + destruct (uri_pct_decode s1) as [d1|] eqn:E1; [|discriminate].
      injection Hd as <-.
      replace (1 + len s1 - 1) with (len s1) by lia.
      rewrite (IH s1 ltac:(cbn [length]; lia) rest d1 E1). reflexivity.
Qed.

(* decoded bytes are bytes *)
Lemma uri_pct_decode_wfb : forall seg d, wfb seg -> uri_pct_decode seg = Some d -> wfb d.
Proof.
  induction seg as [seg IH] using uri_len_ind. intros d Hw Hd.
  destruct seg as [|c s1].
  - injection Hd as <-. constructor.
  - cbn [uri_pct_decode] in Hd. apply wfb_cons in Hw. destruct Hw as [Hc Hw].
    destruct (c =? 37).
    + destruct s1 as [|x1 [|x2 s3]]; try discriminate.
      destruct (uri_isxdigit x1) eqn:X1; [|discriminate].
      destruct (uri_isxdigit x2) eqn:X2; [|discriminate].
      cbn [andb] in Hd.
      destruct (uri_pct_decode s3) as [d3|] eqn:E3; [|discriminate].
      injection Hd as <-. apply wfb_cons. split.
      * rewrite <- uri_hexpair_hex by assumption. apply uri_hexpair_byte.
      * apply (IH s3); [cbn [length]; lia| |exact E3].
        apply wfb_cons in Hw. destruct Hw as [_ Hw]. apply wfb_cons in Hw. tauto.
    + destruct (uri_pct_decode s1) as [d1|] eqn:E1; [|discriminate].
      injection Hd as <-. apply wfb_cons. split; [exact Hc|]. apply (IH s1); auto.
Qed.

(* every decoded byte consumes at most three raw bytes *)
Lemma uri_pct_decode_len : forall seg d,
  uri_pct_decode seg = Some d -> len d <= len seg <= 3 * len d.
Proof.
  induction seg as [seg IH] using uri_len_ind. intros d Hd.
  destruct seg as [|c s1].
  - injection Hd as <-. rewrite len_nil. lia.
  - cbn [uri_pct_decode] in Hd.
    destruct (c =? 37).
    + destruct s1 as [|x1 [|x2 s3]]; try discriminate.
      destruct (uri_isxdigit x1 && uri_isxdigit x2); [|discriminate].
      destruct (uri_pct_decode s3) as [d3|] eqn:E3; [|discriminate].
      injection Hd as <-. rewrite !len_cons.
      specialize (IH s3 ltac:(cbn [length]; lia) d3 E3). lia.
    + destruct (uri_pct_decode s1) as [d1|] eqn:E1; [|discriminate].
      injection Hd as <-. rewrite !len_cons.
      specialize (IH s1 ltac:(cbn [length]; lia) d1 E1). lia.
Qed.

(* ---- coap_replace_percents (validating) ---- *)
Lemma uri_replace_pct_decode : forall seg d,
  uri_pct_decode seg = Some d -> uri_replace_pct seg = d.
Proof.
  induction seg as [seg IH] using uri_len_ind. intros d Hd.
  destruct seg as [|c s1].
  - injection Hd as <-. reflexivity.
  - cbn [uri_pct_decode] in Hd. unfold uri_replace_pct. cbn [uri_replace_pct_g].
    change uri_c_pct with 37.
    destruct (c =? 37) eqn:Ec.
    + destruct s1 as [|x1 [|x2 s3]]; try discriminate.
      destruct (uri_isxdigit x1) eqn:X1; [|discriminate].
      destruct (uri_isxdigit x2) eqn:X2; [|discriminate].
      cbn [andb negb orb] in *.
      destruct (uri_pct_decode s3) as [d3|] eqn:E3; [|discriminate].
      injection Hd as <-.
      rewrite uri_hexpair_hex by assumption. f_equal.
      apply (IH s3); [cbn [length]; lia|exact E3].
    + destruct (uri_pct_decode s1) as [d1|] eqn:E1; [|discriminate].
      injection Hd as <-.
      assert (R : uri_replace_pct_g true s1 = d1) by (apply (IH s1); [cbn [length]; lia|exact E1]).
      destruct s1 as [|x1 [|x2 s3]]; cbn [andb]; rewrite <- R; reflexivity.
Qed.

(* first output byte and the rest of the input, for any (also malformed) segment *)
Lemma uri_replace_pct_step c s1 :
  exists o r, uri_replace_pct (c :: s1) = o :: uri_replace_pct r /\
    ((o = c /\ r = s1) \/
     (exists x1 x2, c = 37 /\ s1 = x1 :: x2 :: r /\ uri_isxdigit x1 = true /\
                    uri_isxdigit x2 = true /\ o = uri_hexpair x1 x2)).
Proof.
  unfold uri_replace_pct. cbn [uri_replace_pct_g]. change uri_c_pct with 37.
  destruct s1 as [|x1 [|x2 s3]].
  - exists c, []. split; [reflexivity|left; auto].
  - exists c, [x1]. split; [reflexivity|left; auto].
  - cbn [negb orb].
    destruct (c =? 37) eqn:Ec; cbn [andb].
    + destruct (uri_isxdigit x1) eqn:X1; cbn [andb].
      * destruct (uri_isxdigit x2) eqn:X2.
        -- exists (uri_hexpair x1 x2), s3. split; [reflexivity|right].
           exists x1, x2. repeat split; auto. lia.
        -- exists c, (x1 :: x2 :: s3). split; [reflexivity|left; auto].
      * exists c, (x1 :: x2 :: s3). split; [reflexivity|left; auto].
    + exists c, (x1 :: x2 :: s3). split; [reflexivity|left; auto].
Qed.

Lemma uri_replace_pct_nil s : uri_replace_pct s = [] -> s = [].
Proof.
  destruct s as [|c s1]; [reflexivity|].
  destruct (uri_replace_pct_step c s1) as [o [r [E _]]]. rewrite E. discriminate.
Qed.

(* a raw segment that decodes to "." *)
Definition uri_dotform (s : bytes) : Prop :=
  s = [46] \/ exists e, uri_is_eE e = true /\ s = [37; 50; e].

Lemma uri_replace_pct_dot_first c s1 r' :
  uri_replace_pct (c :: s1) = 46 :: r' ->
  exists f r, c :: s1 = f ++ r /\ uri_dotform f /\ uri_replace_pct r = r'.
Proof.
  intros H. destruct (uri_replace_pct_step c s1) as [o [r [E Hc]]].
  rewrite E in H. injection H as Ho Hr. subst o.
  destruct Hc as [[Hoc Hrs]|[x1 [x2 [Hc [Hs [X1 [X2 Ho]]]]]]].
  - subst. exists [46], s1. split; [reflexivity|]. split; [left; reflexivity|reflexivity].
  - symmetry in Ho. destruct (uri_hexpair_dot x1 x2 X1 X2 Ho) as [-> He]. subst.
    exists [37; 50; x2], r. split; [reflexivity|]. split; [right; eauto|reflexivity].
Qed.

Lemma uri_replace_pct_is_dot s :
  uri_is_dot (uri_replace_pct s) = true -> uri_dotform s.
Proof.
  intros H. destruct (uri_replace_pct s) as [|o [|? ?]] eqn:E; try discriminate.
  cbn in H. apply Z.eqb_eq in H. subst o.
  destruct s as [|c s1]; [discriminate|].
  destruct (uri_replace_pct_dot_first c s1 [] E) as [f [r [Es [Hf Hr]]]].
  apply uri_replace_pct_nil in Hr. subst r. rewrite app_nil_r in Es. rewrite Es. exact Hf.
Qed.

Lemma uri_replace_pct_is_dotdot s :
  uri_is_dotdot (uri_replace_pct s) = true ->
  exists f1 f2, s = f1 ++ f2 /\ uri_dotform f1 /\ uri_dotform f2.
Proof.
  intros H. destruct (uri_replace_pct s) as [|o1 [|o2 [|? ?]]] eqn:E; try discriminate.
  cbn in H. apply andb_true_iff in H. destruct H as [H1 H2].
  apply Z.eqb_eq in H1, H2. subst o1 o2.
  destruct s as [|c s1]; [discriminate|].
  destruct (uri_replace_pct_dot_first c s1 [46] E) as [f [r [Es [Hf Hr]]]].
  exists f, r. split; [exact Es|]. split; [exact Hf|].
  apply uri_replace_pct_is_dot. rewrite Hr. reflexivity.
Qed.

(* the kind of a decoded segment: 1 = ".", 2 = "..", 0 = anything else *)
Definition uri_kind (d : bytes) : Z :=
  if uri_is_dot d then 1 else if uri_is_dotdot d then 2 else 0.

Lemma uri_is_eE_cases e : uri_is_eE e = true -> e = 69 \/ e = 101.
Proof. unfold uri_is_eE. lia. Qed.

Lemma uri_dotkind_dotform f : uri_dotform f -> uri_dotkind_raw f = 1.
Proof.
  intros [->|[e [He ->]]]; [reflexivity|].
  destruct (uri_is_eE_cases e He) as [->| ->]; reflexivity.
Qed.

Lemma uri_dotkind_dotform2 f1 f2 :
  uri_dotform f1 -> uri_dotform f2 -> uri_dotkind_raw (f1 ++ f2) = 2.
Proof.
  intros [->|[e1 [He1 ->]]] [->|[e2 [He2 ->]]];
    try destruct (uri_is_eE_cases e1 He1) as [->| ->];
    try destruct (uri_is_eE_cases e2 He2) as [->| ->]; reflexivity.
Qed.

(* whatever coap_replace_percents makes of a segment: if it is "." or "..", dots() saw it *)
Lemma uri_replace_pct_kind s :
  uri_kind (uri_replace_pct s) <> 0 -> uri_dots_p s <> 0.
Proof.
  unfold uri_kind. rewrite uri_dots_p_table.
  destruct (uri_is_dot (uri_replace_pct s)) eqn:E1.
  - intros _. apply uri_replace_pct_is_dot in E1. rewrite (uri_dotkind_dotform s E1). lia.
  - destruct (uri_is_dotdot (uri_replace_pct s)) eqn:E2; [|tauto].
    intros _. apply uri_replace_pct_is_dotdot in E2. destruct E2 as [f1 [f2 [-> [H1 H2]]]].
    rewrite (uri_dotkind_dotform2 f1 f2 H1 H2). lia.
Qed.

(* for a well-formed segment dots() is exactly the kind of the decoded value *)
Lemma uri_dots_p_decode s d :
  uri_pct_decode s = Some d -> uri_dots_p s = uri_kind d.
Proof.
  intros Hd. pose proof (uri_replace_pct_decode s d Hd) as R.
  destruct (Z.eq_dec (uri_kind d) 0) as [K0|K0].
  - (* dots() <> 0 only on the seven shapes of the table; all but "%%2e" are well-formed dots *)
    rewrite K0. rewrite uri_dots_p_table.
    destruct (Z.eq_dec (uri_dotkind_raw s) 0) as [|N]; [assumption|exfalso].
    revert Hd K0 N. clear R.
    destruct s as [|a [|b [|c [|e [|f [|g [|h t]]]]]]]; cbn [uri_dotkind_raw]; try tauto;
      unfold uri_is_2e, uri_is_eE; intros Hd K0;
      repeat (zcase; cbn); try (intros N; lia); intros _;
      cbn in Hd; try discriminate; injection Hd as <-; cbn in K0; discriminate.
  - unfold uri_kind in *. rewrite <- R in K0 |- *. rewrite uri_dots_p_table.
    destruct (uri_is_dot (uri_replace_pct s)) eqn:E1.
    + apply uri_replace_pct_is_dot in E1. apply uri_dotkind_dotform. exact E1.
    + destruct (uri_is_dotdot (uri_replace_pct s)) eqn:E2; [|tauto].
      apply uri_replace_pct_is_dotdot in E2. destruct E2 as [f1 [f2 [-> [H1 H2]]]].
      apply uri_dotkind_dotform2; assumption.
Qed.

(* ---- before the repairs (kept as evidence of what the theorems exclude) ---- *)

(* check_segment with "length < 2": a segment ending in "%X" is read past its end *)
Lemma uri_check_seg_k2_overreads : uri_check_seg 2 [37; 97] 2 0 = UOob.
Proof. reflexivity. Qed.
(* ... and when a hex digit happens to follow, length underflows and the scan runs on *)
Lemma uri_check_seg_k2_underflow :
  uri_check_seg 2 [37; 97; 98; 120; 121] 2 0 = UOob.
Proof. reflexivity. Qed.

(* coap_replace_percents without validation turned "%2." into "." unseen by dots() *)
Lemma uri_replace_pct_unchecked_dot :
  uri_replace_pct_g false [37; 50; 46] = [46] /\ uri_dots_p [37; 50; 46] = 0.
Proof. split; reflexivity. Qed.

(* coap_split_path / coap_split_query / coap_path_into_optlist / coap_query_into_optlist:
   no read outside the input for any byte string and buffer size, and agreement with the
   specification (split, decode once, resolve dot segments). *)
From LibcoapV Require Import Base.Tactics Base.Bytes Base.BytesProofs Wire.OptCodec Wire.OptCodecProofs
  Uri.Uri Uri.Spec Uri.DotsProofs Uri.SegProofs.
Local Open Scope Z_scope.

(* ---- the scanning loop = fold over the raw segments ---- *)

Definition uri_segs_from (sep : Z -> bool) (cur body : bytes) : list bytes :=
  match uri_split_on sep body with
  | h :: t => (cur ++ h) :: t
  | [] => [cur]
  end.

Lemma uri_split_on_cons sep s : exists h t, uri_split_on sep s = h :: t.
Proof.
  destruct s as [|c r]; cbn [uri_split_on]; [eauto|].
  destruct (sep c); [eauto|]. destruct (uri_split_on sep r); eauto.
Qed.

Lemma uri_segs_from_nil sep body : uri_segs_from sep [] body = uri_split_on sep body.
Proof.
  unfold uri_segs_from. destruct (uri_split_on_cons sep body) as [h [t E]]. rewrite E. reflexivity.
Qed.

Section Loop.
  Context {S : Type} (stop sep : Z -> bool) (h : bytes -> Z -> S -> uri_res S)
          (H : bytes -> S -> S).
  Hypothesis h_ok : forall seg rest st, h (seg ++ rest) (len seg) st = UOk (H seg st).

  Lemma uri_seg_loop_spec : forall q cur st,
    uri_seg_loop stop sep h q (cur ++ q) (len cur) (len q) st =
    UOk (fold_left (fun st seg => H seg st) (uri_segs_from sep cur (uri_upto stop q)) st).
  Proof.
    induction q as [|c q IH]; intros cur st.
    - cbn [uri_seg_loop uri_upto]. rewrite len_nil. cbn [Z.eqb].
      rewrite h_ok. unfold uri_segs_from. cbn [uri_split_on fold_left]. rewrite app_nil_r.
      reflexivity.
    - cbn [uri_seg_loop uri_upto]. rewrite len_cons. pose proof (len_nonneg q) as Hq.
      destruct (1 + len q =? 0) eqn:E0; [lia|].
      replace (1 + len q - 1) with (len q) by lia.
      destruct (stop c) eqn:Es.
      + rewrite h_ok. unfold uri_segs_from. cbn [uri_split_on fold_left]. rewrite app_nil_r.
        reflexivity.
      + destruct (sep c) eqn:Ep.
        * rewrite h_ok. cbn [uri_bind].
          change q with ([] ++ q) at 2. change 0 with (len (@nil Z)).
          rewrite IH. rewrite uri_segs_from_nil.
          unfold uri_segs_from. cbn [uri_split_on]. rewrite Ep. cbn [fold_left].
          rewrite app_nil_r. reflexivity.
        * replace (cur ++ c :: q) with ((cur ++ [c]) ++ q) by (rewrite <- app_assoc; reflexivity).
          replace (len cur + 1) with (len (cur ++ [c])) by (rewrite len_app, len_cons, len_nil; lia).
          rewrite IH. unfold uri_segs_from. cbn [uri_split_on]. rewrite Ep.
          destruct (uri_split_on_cons sep (uri_upto stop q)) as [h0 [t0 E]]. rewrite E.
          rewrite <- app_assoc. reflexivity.
  Qed.

  Lemma uri_seg_loop_whole s st :
    uri_seg_loop stop sep h s s 0 (len s) st =
    UOk (fold_left (fun st seg => H seg st) (uri_split_on sep (uri_upto stop s)) st).
  Proof.
    change s with ([] ++ s) at 2. change 0 with (len (@nil Z)).
    rewrite uri_seg_loop_spec. rewrite uri_segs_from_nil. reflexivity.
  Qed.
End Loop.

(* ---- buffer API: the pure handlers ---- *)

(* write_option on a segment *)
Definition uri_Hwrite (seg : bytes) (st : uri_wst) : uri_wst :=
  match uri_pct_decode seg with
  | None => st
  | Some v =>
      if uw_rem st =? 0 then st else
      if uri_OPT_MAX <? len v then st else
      let w := uri_sethdr_size (uw_rem st) (len v) in
      if w =? 0 then st else
      if uw_rem st - w <? len v then st else
      {| uw_ropts := (opt_hdr 0 (len v) ++ v) :: uw_ropts st; uw_rem := uw_rem st - (w + len v) |}
  end.

Definition uri_Hbuf (base : Z) (seg : bytes) (st : uri_wst) : uri_wst :=
  let d := uri_dots_p seg in
  if d =? 1 then st else if d =? 2 then uri_backup base st else uri_Hwrite seg st.

Lemma uri_write_opt_ok seg rest st :
  uri_write_opt uri_K (seg ++ rest) (len seg) st = UOk (uri_Hwrite seg st).
Proof.
  unfold uri_write_opt, uri_make_opt, uri_Hwrite, uri_K.
  destruct (uw_rem st =? 0) eqn:E0.
  - cbn [uri_bind]. destruct (uri_pct_decode seg); reflexivity.
  - rewrite uri_check_seg_spec. cbn [uri_bind].
    destruct (uri_pct_decode seg) as [v|] eqn:Ed; [|reflexivity].
    replace (0 + len v) with (len v) by lia.
    destruct (uri_OPT_MAX <? len v); [reflexivity|].
    destruct (uri_sethdr_size (uw_rem st) (len v) =? 0); [reflexivity|].
    destruct (uw_rem st - uri_sethdr_size (uw_rem st) (len v) <? len v); [reflexivity|].
    rewrite (uri_decode_seg_spec seg rest v Ed). reflexivity.
Qed.

Lemma uri_seg_buf_ok base seg rest st :
  uri_seg_buf uri_K base (seg ++ rest) (len seg) st = UOk (uri_Hbuf base seg st).
Proof.
  unfold uri_seg_buf, uri_Hbuf. rewrite uri_dots_is. cbn [uri_bind].
  destruct (uri_dots_p seg =? 1); [reflexivity|].
  destruct (uri_dots_p seg =? 2); [reflexivity|].
  apply uri_write_opt_ok.
Qed.

(* coap_split_path and coap_split_query as folds - for EVERY input and buffer size: no overread *)
Lemma uri_split_path_fold s buflen :
  uri_split_path s buflen =
  let st := fold_left (fun st seg => uri_Hbuf buflen seg st) (uri_raw_path_segs s)
                      {| uw_ropts := []; uw_rem := buflen |} in
  UOk (rev (uw_ropts st), buflen - uw_rem st).
Proof.
  unfold uri_split_path, uri_split_path_k.
  rewrite (uri_seg_loop_whole uri_path_stop uri_path_sep _ (uri_Hbuf buflen)
             (uri_seg_buf_ok buflen)).
  reflexivity.
Qed.

Lemma uri_split_query_fold s buflen :
  uri_split_query s buflen =
  let st := fold_left (fun st seg => uri_Hwrite seg st) (uri_raw_query_items s)
                      {| uw_ropts := []; uw_rem := buflen |} in
  UOk (rev (uw_ropts st), buflen - uw_rem st).
Proof.
  unfold uri_split_query, uri_split_query_k.
  rewrite (uri_seg_loop_whole uri_query_stop uri_query_sep _ uri_Hwrite uri_write_opt_ok).
  reflexivity.
Qed.

(* ---- sizes ---- *)
Lemma uri_sumlen_nonneg l : 0 <= uri_sumlen l.
Proof. induction l; cbn [uri_sumlen]; [lia|]. pose proof (len_nonneg a). lia. Qed.

Lemma uri_sumlen_app a b : uri_sumlen (a ++ b) = uri_sumlen a + uri_sumlen b.
Proof. induction a; cbn [app uri_sumlen]; lia. Qed.

Lemma uri_sumlen_rev l : uri_sumlen (rev l) = uri_sumlen l.
Proof.
  induction l; [reflexivity|]. cbn [rev]. rewrite uri_sumlen_app. cbn [uri_sumlen]. lia.
Qed.

Lemma uri_opt_hdr0_len l : 0 <= l -> len (opt_hdr 0 l) = 1 + ext_size l.
Proof.
  intros Hl. unfold opt_hdr. rewrite len_cons, len_app, !ext_bytes_len. unfold ext_size at 1.
  cbn. lia.
Qed.

Lemma uri_sethdr_size_cases m l :
  0 <= l -> uri_sethdr_size m l = 0 \/ uri_sethdr_size m l = 1 + ext_size l.
Proof.
  intros Hl. unfold uri_sethdr_size, ext_size.
  destruct (m =? 0); [auto|]. destruct (l <? 13); [auto|].
  destruct (l <? 269); [destruct (m <? 2)|destruct (m <? 3)]; auto.
Qed.

Lemma uri_sethdr_size_enough m l :
  0 <= l -> 3 <= m -> uri_sethdr_size m l = 1 + ext_size l.
Proof.
  intros Hl Hm. unfold uri_sethdr_size, ext_size.
  destruct (m =? 0) eqn:E0; [lia|]. destruct (l <? 13); [lia|].
  destruct (l <? 269); [destruct (m <? 2) eqn:E|destruct (m <? 3) eqn:E]; lia.
Qed.

Lemma uri_sethdr_size_fit m l :
  0 <= l -> 1 + ext_size l <= m -> uri_sethdr_size m l = 1 + ext_size l.
Proof.
  intros Hl Hm. unfold uri_sethdr_size, ext_size in *.
  destruct (m =? 0) eqn:E0; [destruct (l <? 13); [|destruct (l <? 269)]; lia|].
  destruct (l <? 13); [lia|].
  destruct (l <? 269); [destruct (m <? 2) eqn:E|destruct (m <? 3) eqn:E]; lia.
Qed.

Lemma uri_opt_enc0_len v : len (opt_enc 0 v) = 1 + ext_size (len v) + len v.
Proof. rewrite opt_enc_len. unfold opt_encode_size, ext_size at 1. cbn. lia. Qed.

Lemma uri_ext_size_range l : 0 <= ext_size l <= 2.
Proof. unfold ext_size. destruct (l <? 13); [lia|]. destruct (l <? 269); lia. Qed.

(* ---- all inputs, all buffer sizes: what is in the buffer ---- *)

(* an option the buffer API may write: a well-formed raw segment of the input, decoded once,
   that is not a dot segment *)
Definition uri_good_opt (dotcheck : bool) (raws : list bytes) (o : bytes) : Prop :=
  exists seg d, In seg raws /\ uri_pct_decode seg = Some d /\ len d <= uri_OPT_MAX /\
                (dotcheck = true -> uri_kind d = 0) /\ o = opt_enc 0 d.

Definition uri_wst_inv (dotcheck : bool) (base : Z) (raws : list bytes) (st : uri_wst) : Prop :=
  0 <= uw_rem st /\ uw_rem st = base - uri_sumlen (uw_ropts st) /\
  Forall (uri_good_opt dotcheck raws) (uw_ropts st).

Lemma uri_Hwrite_inv dotcheck base raws seg st :
  In seg raws -> (dotcheck = true -> uri_dots_p seg = 0) ->
  uri_wst_inv dotcheck base raws st -> uri_wst_inv dotcheck base raws (uri_Hwrite seg st).
Proof.
  intros Hin Hdots [H0 [H1 H2]]. unfold uri_Hwrite.
  destruct (uri_pct_decode seg) as [v|] eqn:Ed; [|repeat split; assumption].
  destruct (uw_rem st =? 0); [repeat split; assumption|].
  destruct (uri_OPT_MAX <? len v) eqn:Emax; [repeat split; assumption|].
  pose proof (len_nonneg v) as Hv.
  destruct (uri_sethdr_size_cases (uw_rem st) (len v) Hv) as [Ew|Ew]; rewrite Ew.
  - cbn [Z.eqb]. repeat split; assumption.
  - pose proof (uri_ext_size_range (len v)).
    destruct (1 + ext_size (len v) =? 0) eqn:E1; [lia|].
    destruct (uw_rem st - (1 + ext_size (len v)) <? len v) eqn:E2; [repeat split; assumption|].
    unfold uri_wst_inv. cbn [uw_rem uw_ropts uri_sumlen].
    rewrite len_app, uri_opt_hdr0_len by lia.
    split; [lia|]. split; [lia|].
    constructor; [|exact H2].
    exists seg, v. split; [exact Hin|]. split; [exact Ed|]. split; [lia|]. split; [|reflexivity].
    intros Hc. rewrite <- (uri_dots_p_decode seg v Ed). auto.
Qed.

Lemma uri_backup_inv dotcheck base raws st :
  0 <= base -> uri_wst_inv dotcheck base raws st -> uri_wst_inv dotcheck base raws (uri_backup base st).
Proof.
  intros Hb [H0 [H1 H2]]. unfold uri_backup.
  destruct (uw_ropts st) as [|x t] eqn:E; [repeat split; try assumption; rewrite E; assumption|].
  unfold uri_wst_inv. cbn [uw_rem uw_ropts].
  cbn [uri_sumlen] in H1. pose proof (len_nonneg x). pose proof (uri_sumlen_nonneg t).
  split; [lia|]. split; [reflexivity|]. inversion H2; assumption.
Qed.

Lemma uri_Hbuf_inv base raws seg st :
  0 <= base -> In seg raws ->
  uri_wst_inv true base raws st -> uri_wst_inv true base raws (uri_Hbuf base seg st).
Proof.
  intros Hb Hin Hinv. unfold uri_Hbuf.
  destruct (uri_dots_p seg =? 1) eqn:E1; [assumption|].
  destruct (uri_dots_p seg =? 2) eqn:E2; [apply uri_backup_inv; assumption|].
  apply uri_Hwrite_inv; auto. intros _. pose proof (uri_dots_p_range seg). lia.
Qed.

Lemma uri_fold_inv {A} (P : A -> Prop) (f : A -> bytes -> A) (raws l : list bytes) :
  (forall seg st, In seg raws -> P st -> P (f st seg)) ->
  incl l raws -> forall st, P st -> P (fold_left f l st).
Proof.
  intros Hf. induction l as [|x l IH]; intros Hi st Hp; [exact Hp|].
  cbn [fold_left]. apply IH.
  - intros y Hy. apply Hi. right. exact Hy.
  - apply Hf; [apply Hi; left; reflexivity|exact Hp].
Qed.

(* result of the buffer functions, whatever the input and the buffer size *)
Definition uri_buf_safe (dotcheck : bool) (raws : list bytes) (buflen : Z)
           (r : uri_res (list bytes * Z)) : Prop :=
  exists opts used, r = UOk (opts, used) /\ 0 <= used <= buflen /\ used = uri_sumlen opts /\
                    Forall (uri_good_opt dotcheck raws) opts.

Lemma uri_inv_result dotcheck raws buflen st :
  0 <= buflen -> uri_wst_inv dotcheck buflen raws st ->
  uri_buf_safe dotcheck raws buflen (UOk (rev (uw_ropts st), buflen - uw_rem st)).
Proof.
  intros Hb [H0 [H1 H2]]. exists (rev (uw_ropts st)), (buflen - uw_rem st).
  split; [reflexivity|]. pose proof (uri_sumlen_nonneg (uw_ropts st)).
  split; [lia|]. split; [rewrite uri_sumlen_rev; lia|].
  apply Forall_rev. exact H2.
Qed.

Lemma uri_wst_inv_init dotcheck raws buflen :
  0 <= buflen -> uri_wst_inv dotcheck buflen raws {| uw_ropts := []; uw_rem := buflen |}.
Proof. intros H. unfold uri_wst_inv. cbn. repeat split; try lia. constructor. Qed.

Theorem uri_split_path_safe s buflen :
  0 <= buflen -> uri_buf_safe true (uri_raw_path_segs s) buflen (uri_split_path s buflen).
Proof.
  intros Hb. rewrite uri_split_path_fold. cbv zeta.
  apply uri_inv_result; [exact Hb|].
  apply (uri_fold_inv (uri_wst_inv true buflen (uri_raw_path_segs s))
           (fun st seg => uri_Hbuf buflen seg st) (uri_raw_path_segs s)).
  - intros seg st Hin Hp. apply uri_Hbuf_inv; assumption.
  - apply incl_refl.
  - apply uri_wst_inv_init. exact Hb.
Qed.

Theorem uri_split_query_safe s buflen :
  0 <= buflen -> uri_buf_safe false (uri_raw_query_items s) buflen (uri_split_query s buflen).
Proof.
  intros Hb. rewrite uri_split_query_fold. cbv zeta.
  apply uri_inv_result; [exact Hb|].
  apply (uri_fold_inv (uri_wst_inv false buflen (uri_raw_query_items s))
           (fun st seg => uri_Hwrite seg st) (uri_raw_query_items s)).
  - intros seg st Hin Hp. apply uri_Hwrite_inv; auto. discriminate.
  - apply incl_refl.
  - apply uri_wst_inv_init. exact Hb.
Qed.

(* ---- well-formed input, buffer large enough: exactly the specification ---- *)

Lemma uri_kind_cases d :
  (uri_kind d = 1 /\ uri_is_dot d = true) \/
  (uri_kind d = 2 /\ uri_is_dot d = false /\ uri_is_dotdot d = true) \/
  (uri_kind d = 0 /\ uri_is_dot d = false /\ uri_is_dotdot d = false).
Proof.
  unfold uri_kind. destruct (uri_is_dot d); [auto|]. destruct (uri_is_dotdot d); auto.
Qed.

(* pushing one decoded segment when there is room for it *)
Lemma uri_Hwrite_push seg v st :
  uri_pct_decode seg = Some v -> len v <= uri_OPT_MAX -> len (opt_enc 0 v) <= uw_rem st ->
  uri_Hwrite seg st =
  {| uw_ropts := opt_enc 0 v :: uw_ropts st; uw_rem := uw_rem st - len (opt_enc 0 v) |}.
Proof.
  intros Ed Hmax Hr. unfold uri_Hwrite. rewrite Ed.
  rewrite uri_opt_enc0_len in *. pose proof (len_nonneg v) as Hv.
  pose proof (uri_ext_size_range (len v)).
  destruct (uw_rem st =? 0) eqn:E0; [lia|].
  destruct (uri_OPT_MAX <? len v) eqn:Em; [lia|].
  rewrite uri_sethdr_size_fit by lia.
  destruct (1 + ext_size (len v) =? 0) eqn:E1; [lia|].
  destruct (uw_rem st - (1 + ext_size (len v)) <? len v) eqn:E2; [lia|].
  unfold opt_enc. f_equal; lia.
Qed.

Lemma uri_peak_ge ds stack : uri_sumlen (uri_encs stack) <= uri_peak ds stack.
Proof. destruct ds; cbn [uri_peak]; lia. Qed.

Lemma uri_fold_Hbuf_spec base : forall raws ds stack,
  uri_decode_all raws = Some ds -> uri_fits ds = true ->
  uri_peak ds stack <= base ->
  fold_left (fun st seg => uri_Hbuf base seg st) raws
            {| uw_ropts := uri_encs stack; uw_rem := base - uri_sumlen (uri_encs stack) |} =
  {| uw_ropts := uri_encs (uri_resolve ds stack);
     uw_rem := base - uri_sumlen (uri_encs (uri_resolve ds stack)) |}.
Proof.
  induction raws as [|seg raws IH]; intros ds stack Hd Hfit Hn.
  - injection Hd as <-. reflexivity.
  - cbn [uri_decode_all] in Hd.
    destruct (uri_pct_decode seg) as [d|] eqn:Ed; [|discriminate].
    destruct (uri_decode_all raws) as [dt|] eqn:Et; [|discriminate].
    injection Hd as <-. cbn [fold_left uri_resolve uri_peak] in *.
    unfold uri_fits in Hfit. cbn [forallb] in Hfit. apply andb_true_iff in Hfit.
    destruct Hfit as [Hfd Hfit]. fold (uri_fits dt) in Hfit.
    unfold uri_Hbuf at 2. rewrite (uri_dots_p_decode seg d Ed).
    unfold uri_next in Hn.
    destruct (uri_kind_cases d) as [[K D1]|[[K [D1 D2]]|[K [D1 D2]]]]; rewrite K; rewrite D1 in *;
      try rewrite D2 in *; cbn [Z.eqb Pos.eqb].
    + apply IH; [reflexivity|exact Hfit|lia].
    + assert (E : uri_backup base {| uw_ropts := uri_encs stack;
                                     uw_rem := base - uri_sumlen (uri_encs stack) |} =
                  {| uw_ropts := uri_encs (tl stack);
                     uw_rem := base - uri_sumlen (uri_encs (tl stack)) |}).
      { unfold uri_backup. destruct stack as [|x t]; reflexivity. }
      rewrite E. apply IH; [reflexivity|exact Hfit|lia].
    + pose proof (uri_peak_ge dt (d :: stack)) as Hp.
      unfold uri_encs in Hp. cbn [map uri_sumlen] in Hp. fold (uri_encs stack) in Hp.
      rewrite (uri_Hwrite_push seg d _ Ed) by (unfold uri_OPT_MAX; cbn [uw_rem]; lia).
      cbn [uw_ropts uw_rem].
      change (opt_enc 0 d :: uri_encs stack) with (uri_encs (d :: stack)).
      replace (base - uri_sumlen (uri_encs stack) - len (opt_enc 0 d))
        with (base - uri_sumlen (uri_encs (d :: stack)))
        by (unfold uri_encs; cbn [map uri_sumlen]; lia).
      apply IH; [reflexivity|exact Hfit|lia].
Qed.

Lemma uri_encs_rev l : rev (uri_encs l) = uri_encs (rev l).
Proof. unfold uri_encs. symmetry. apply map_rev. Qed.

(* coap_split_path on a well-formed path with enough room = the specified Uri-Path values *)
Theorem uri_split_path_spec s buflen opts :
  uri_spec_path s = Some opts -> uri_path_need s <= buflen ->
  uri_split_path s buflen = UOk (uri_encs opts, uri_sumlen (uri_encs opts)).
Proof.
  unfold uri_spec_path, uri_path_need. intros Hs Hn.
  destruct (uri_decode_all (uri_raw_path_segs s)) as [ds|] eqn:Ed; [|discriminate].
  destruct (uri_fits ds) eqn:Hfit; [|discriminate].
  injection Hs as <-.
  rewrite uri_split_path_fold. cbv zeta.
  pose proof (uri_fold_Hbuf_spec buflen (uri_raw_path_segs s) ds [] Ed Hfit Hn) as F.
  cbn [uri_encs map uri_sumlen] in F. rewrite Z.sub_0_r in F. rewrite F.
  cbn [uw_ropts uw_rem]. rewrite uri_encs_rev. fold (uri_encs (uri_resolve ds [])).
  rewrite <- (uri_sumlen_rev (uri_encs (uri_resolve ds []))), uri_encs_rev.
  f_equal. f_equal. lia.
Qed.

Lemma uri_fold_Hwrite_spec base : forall raws ds stack,
  uri_decode_all raws = Some ds -> uri_fits ds = true ->
  uri_sumlen (uri_encs stack) + uri_sumlen (uri_encs ds) <= base ->
  fold_left (fun st seg => uri_Hwrite seg st) raws
            {| uw_ropts := uri_encs stack; uw_rem := base - uri_sumlen (uri_encs stack) |} =
  {| uw_ropts := uri_encs (rev ds ++ stack);
     uw_rem := base - uri_sumlen (uri_encs (rev ds ++ stack)) |}.
Proof.
  induction raws as [|seg raws IH]; intros ds stack Hd Hfit Hn.
  - injection Hd as <-. reflexivity.
  - cbn [uri_decode_all] in Hd.
    destruct (uri_pct_decode seg) as [d|] eqn:Ed; [|discriminate].
    destruct (uri_decode_all raws) as [dt|] eqn:Et; [|discriminate].
    injection Hd as <-. cbn [fold_left rev] in *.
    unfold uri_fits in Hfit. cbn [forallb] in Hfit. apply andb_true_iff in Hfit.
    destruct Hfit as [Hfd Hfit]. fold (uri_fits dt) in Hfit.
    unfold uri_encs in Hn. cbn [map uri_sumlen] in Hn. fold (uri_encs stack) in Hn.
    fold (uri_encs dt) in Hn. pose proof (uri_sumlen_nonneg (uri_encs dt)) as Hdt.
    rewrite (uri_Hwrite_push seg d _ Ed) by (unfold uri_OPT_MAX; cbn [uw_rem]; lia).
    cbn [uw_ropts uw_rem].
    change (opt_enc 0 d :: uri_encs stack) with (uri_encs (d :: stack)).
    replace (base - uri_sumlen (uri_encs stack) - len (opt_enc 0 d))
      with (base - uri_sumlen (uri_encs (d :: stack)))
      by (unfold uri_encs; cbn [map uri_sumlen]; lia).
    rewrite <- app_assoc. cbn [app].
    apply IH; [reflexivity|exact Hfit|].
    unfold uri_encs. cbn [map uri_sumlen]. fold (uri_encs stack). fold (uri_encs dt). lia.
Qed.

Theorem uri_split_query_spec s buflen opts :
  uri_spec_query s = Some opts -> uri_query_need s <= buflen ->
  uri_split_query s buflen = UOk (uri_encs opts, uri_sumlen (uri_encs opts)).
Proof.
  unfold uri_spec_query, uri_query_need. intros Hs Hn.
  destruct (uri_decode_all (uri_raw_query_items s)) as [ds|] eqn:Ed; [|discriminate].
  destruct (uri_fits ds) eqn:Hfit; [|discriminate].
  injection Hs as <-.
  rewrite uri_split_query_fold. cbv zeta.
  pose proof (uri_fold_Hwrite_spec buflen (uri_raw_query_items s) ds [] Ed Hfit) as F.
  cbn [uri_encs map uri_sumlen] in F. rewrite Z.sub_0_r in F. rewrite F by (fold (uri_encs ds); lia).
  cbn [uw_ropts uw_rem]. rewrite app_nil_r, uri_encs_rev, rev_involutive.
  rewrite <- (uri_sumlen_rev (uri_encs (rev ds))), uri_encs_rev, rev_involutive.
  f_equal. f_equal. lia.
Qed.

(* ---- optlist API ---- *)

Definition uri_Hopt (start : nat) (optnum : Z) (seg : bytes) (chain : list opt) : list opt :=
  let d := uri_dots_p seg in
  if d =? 1 then chain
  else if d =? 2 then uri_backup_optlist start chain
  else chain ++ [(optnum, uri_replace_pct seg)].

Lemma uri_copy_ok seg rest : uri_copy (seg ++ rest) (len seg) = UOk seg.
Proof.
  unfold uri_copy. rewrite len_app. pose proof (len_nonneg rest).
  destruct (len seg <=? len seg + len rest) eqn:E; [|lia].
  rewrite take_app_exact. reflexivity.
Qed.

Lemma uri_seg_optlist_ok start optnum seg rest chain :
  uri_seg_optlist true start optnum (seg ++ rest) (len seg) chain =
  UOk (uri_Hopt start optnum seg chain).
Proof.
  unfold uri_seg_optlist, uri_Hopt. rewrite uri_dots_is. cbn [uri_bind].
  destruct (uri_dots_p seg =? 1); [reflexivity|].
  destruct (uri_dots_p seg =? 2); [reflexivity|].
  rewrite uri_copy_ok. reflexivity.
Qed.

Lemma uri_item_optlist_ok optnum seg rest chain :
  uri_item_optlist true optnum (seg ++ rest) (len seg) chain =
  UOk (chain ++ [(optnum, uri_replace_pct seg)]).
Proof. unfold uri_item_optlist. rewrite uri_copy_ok. reflexivity. Qed.

Lemma uri_path_into_optlist_fold s optnum chain :
  uri_path_into_optlist s optnum chain =
  UOk (fold_left (fun ch seg => uri_Hopt (length chain) optnum seg ch) (uri_raw_path_segs s) chain).
Proof.
  unfold uri_path_into_optlist, uri_path_into_optlist_g, uri_start_all.
  apply (uri_seg_loop_whole uri_path_stop uri_path_sep _ (uri_Hopt (length chain) optnum)).
  intros. apply uri_seg_optlist_ok.
Qed.

Lemma uri_query_into_optlist_fold s optnum chain :
  uri_query_into_optlist s optnum chain =
  UOk (fold_left (fun ch seg => ch ++ [(optnum, uri_replace_pct seg)]) (uri_raw_query_items s) chain).
Proof.
  unfold uri_query_into_optlist, uri_query_into_optlist_g.
  apply (uri_seg_loop_whole uri_query_stop uri_query_sep _
           (fun seg ch => ch ++ [(optnum, uri_replace_pct seg)])).
  intros. apply uri_item_optlist_ok.
Qed.

Definition uri_tag (optnum : Z) (l : list bytes) : list opt := map (fun v => (optnum, v)) l.

Lemma uri_removelast_app_one {A} (l : list A) x : removelast (l ++ [x]) = l.
Proof. apply removelast_last. Qed.

(* all inputs: what was in the chain stays, nothing added is a dot segment *)
Definition uri_chain_inv (pre : list opt) (optnum : Z) (chain : list opt) : Prop :=
  exists added, chain = pre ++ uri_tag optnum added /\
                Forall (fun v => uri_kind v = 0) added.

Lemma uri_Hopt_inv pre optnum seg chain :
  uri_chain_inv pre optnum chain ->
  uri_chain_inv pre optnum (uri_Hopt (length pre) optnum seg chain).
Proof.
  intros [added [-> Hf]]. unfold uri_Hopt.
  destruct (uri_dots_p seg =? 1) eqn:E1; [exists added; auto|].
  destruct (uri_dots_p seg =? 2) eqn:E2.
  - unfold uri_backup_optlist. rewrite app_length.
    destruct (length pre <? length pre + length (uri_tag optnum added))%nat eqn:El.
    + induction added as [|a0 added0 _] using rev_ind.
      { unfold uri_tag in El. cbn [map length] in El. lia. }
      exists added0. split.
      * unfold uri_tag. rewrite map_app. cbn [map]. rewrite app_assoc.
        apply uri_removelast_app_one.
      * apply Forall_app in Hf. tauto.
    + exists added. auto.
  - exists (added ++ [uri_replace_pct seg]). split.
    + unfold uri_tag. rewrite map_app, app_assoc. reflexivity.
    + apply Forall_app. split; [exact Hf|]. constructor; [|constructor].
      destruct (Z.eq_dec (uri_kind (uri_replace_pct seg)) 0) as [|N]; [assumption|].
      apply uri_replace_pct_kind in N. pose proof (uri_dots_p_range seg). lia.
Qed.

Theorem uri_path_into_optlist_safe s optnum pre :
  exists added, uri_path_into_optlist s optnum pre = UOk (pre ++ uri_tag optnum added) /\
                Forall (fun v => uri_kind v = 0) added.
Proof.
  rewrite uri_path_into_optlist_fold.
  assert (G : uri_chain_inv pre optnum
                (fold_left (fun ch seg => uri_Hopt (length pre) optnum seg ch)
                           (uri_raw_path_segs s) pre)).
  { apply (uri_fold_inv (uri_chain_inv pre optnum) _ (uri_raw_path_segs s)).
    - intros seg st _ Hp. apply uri_Hopt_inv. exact Hp.
    - apply incl_refl.
    - exists []. split; [rewrite app_nil_r; reflexivity|constructor]. }
  destruct G as [added [E Hf]]. exists added. rewrite E. auto.
Qed.

(* well-formed path: the chain gets exactly the specified values, in order, after what was there *)
Lemma uri_fold_Hopt_spec pre optnum : forall raws ds stack,
  uri_decode_all raws = Some ds ->
  fold_left (fun ch seg => uri_Hopt (length pre) optnum seg ch) raws
            (pre ++ uri_tag optnum (rev stack)) =
  pre ++ uri_tag optnum (rev (uri_resolve ds stack)).
Proof.
  induction raws as [|seg raws IH]; intros ds stack Hd.
  - injection Hd as <-. reflexivity.
  - cbn [uri_decode_all] in Hd.
    destruct (uri_pct_decode seg) as [d|] eqn:Ed; [|discriminate].
    destruct (uri_decode_all raws) as [dt|] eqn:Et; [|discriminate].
    injection Hd as <-. cbn [fold_left uri_resolve].
    unfold uri_Hopt at 2. rewrite (uri_dots_p_decode seg d Ed).
    destruct (uri_kind_cases d) as [[K D1]|[[K [D1 D2]]|[K [D1 D2]]]]; rewrite K, D1; try rewrite D2;
      cbn [Z.eqb Pos.eqb].
    + apply IH. reflexivity.
    + assert (E : uri_backup_optlist (length pre) (pre ++ uri_tag optnum (rev stack)) =
                  pre ++ uri_tag optnum (rev (tl stack))).
      { unfold uri_backup_optlist. rewrite app_length.
        destruct stack as [|x t].
        - cbn [rev tl]. unfold uri_tag. cbn [map length].
          destruct (length pre <? length pre + 0)%nat eqn:El; [lia|reflexivity].
        - cbn [rev tl]. unfold uri_tag. rewrite map_app, app_length. cbn [map length].
          destruct (length pre <? length pre + (length (map (fun v => (optnum, v)) (rev t)) + 1))%nat
            eqn:El; [|lia].
          rewrite app_assoc. apply uri_removelast_app_one. }
      rewrite E. apply IH. reflexivity.
    + rewrite (uri_replace_pct_decode seg d Ed).
      replace ((pre ++ uri_tag optnum (rev stack)) ++ [(optnum, d)])
        with (pre ++ uri_tag optnum (rev (d :: stack))).
      * apply IH. reflexivity.
      * cbn [rev]. unfold uri_tag. rewrite map_app, app_assoc. reflexivity.
Qed.

Theorem uri_path_into_optlist_spec s optnum pre opts :
  uri_spec_path s = Some opts ->
  uri_path_into_optlist s optnum pre = UOk (pre ++ uri_tag optnum opts).
Proof.
  unfold uri_spec_path. intros Hs.
  destruct (uri_decode_all (uri_raw_path_segs s)) as [ds|] eqn:Ed; [|discriminate].
  destruct (uri_fits ds); [|discriminate].
  injection Hs as <-.
  rewrite uri_path_into_optlist_fold.
  pose proof (uri_fold_Hopt_spec pre optnum (uri_raw_path_segs s) ds [] Ed) as F.
  cbn [rev uri_tag map] in F. rewrite app_nil_r in F. rewrite F. reflexivity.
Qed.

Lemma uri_fold_query_opt optnum : forall raws ds chain,
  uri_decode_all raws = Some ds ->
  fold_left (fun ch seg => ch ++ [(optnum, uri_replace_pct seg)]) raws chain =
  chain ++ uri_tag optnum ds.
Proof.
  induction raws as [|seg raws IH]; intros ds chain Hd.
  - injection Hd as <-. cbn. rewrite app_nil_r. reflexivity.
  - cbn [uri_decode_all] in Hd.
    destruct (uri_pct_decode seg) as [d|] eqn:Ed; [|discriminate].
    destruct (uri_decode_all raws) as [dt|] eqn:Et; [|discriminate].
    injection Hd as <-. cbn [fold_left].
    rewrite (IH dt _ eq_refl), (uri_replace_pct_decode seg d Ed), <- app_assoc. reflexivity.
Qed.

Theorem uri_query_into_optlist_spec s optnum pre opts :
  uri_spec_query s = Some opts ->
  uri_query_into_optlist s optnum pre = UOk (pre ++ uri_tag optnum opts).
Proof.
  unfold uri_spec_query. intros Hs.
  destruct (uri_decode_all (uri_raw_query_items s)) as [ds|] eqn:Ed; [|discriminate].
  destruct (uri_fits ds); [|discriminate].
  injection Hs as <-. rewrite uri_query_into_optlist_fold.
  rewrite (uri_fold_query_opt optnum _ ds pre Ed). reflexivity.
Qed.

Theorem uri_query_into_optlist_safe s optnum pre :
  exists added, uri_query_into_optlist s optnum pre = UOk (pre ++ uri_tag optnum added).
Proof.
  rewrite uri_query_into_optlist_fold.
  generalize (uri_raw_query_items s). intros raws. revert pre.
  induction raws as [|seg raws IH]; intros pre.
  - exists []. cbn. rewrite app_nil_r. reflexivity.
  - cbn [fold_left]. destruct (IH (pre ++ [(optnum, uri_replace_pct seg)])) as [added E].
    exists (uri_replace_pct seg :: added). rewrite <- app_assoc in E. exact E.
Qed.

(* ---- what the code did before the repair of backup_optlist ---- *)
Lemma uri_optlist_old_start_loses_option :
  uri_path_into_optlist_g true (@uri_start_first_only opt) [46; 46; 47; 97] 11
                          [(3, [104]); (7, [112])] = UOk [(3, [104]); (11, [97])].
Proof. reflexivity. Qed.

(* ---- libcoap's dot resolution against RFC 3986 5.2.4 taken literally ---- *)
Lemma uri_ends_in_dot_cons d x t : uri_ends_in_dot (d :: x :: t) = uri_ends_in_dot (x :: t).
Proof.
  unfold uri_ends_in_dot. cbn [rev].
  destruct (rev t ++ [x]) as [|a l] eqn:E; [destruct (rev t); discriminate|reflexivity].
Qed.

Lemma uri_rfc_resolve_same_gen : forall ds stack,
  uri_ends_in_dot ds = false -> uri_rfc_resolve ds stack = uri_resolve ds stack.
Proof.
  induction ds as [|d t IH]; intros stack H; [reflexivity|].
  destruct t as [|x t].
  - unfold uri_ends_in_dot in H. cbn [rev app] in H. cbn [uri_rfc_resolve uri_resolve].
    apply orb_false_iff in H. destruct H as [-> ->]. reflexivity.
  - rewrite uri_ends_in_dot_cons in H.
    cbn [uri_rfc_resolve uri_resolve].
    destruct (uri_is_dot d); [apply IH; exact H|].
    destruct (uri_is_dotdot d); apply IH; exact H.
Qed.

Lemma uri_rfc_resolve_trailing_gen : forall ds stack,
  uri_ends_in_dot ds = true -> uri_rfc_resolve ds stack = [] :: uri_resolve ds stack.
Proof.
  induction ds as [|d t IH]; intros stack H; [discriminate|].
  destruct t as [|x t].
  - unfold uri_ends_in_dot in H. cbn [rev app] in H. cbn [uri_rfc_resolve uri_resolve].
    destruct (uri_is_dot d); [reflexivity|]. cbn [orb] in H. rewrite H. reflexivity.
  - rewrite uri_ends_in_dot_cons in H.
    cbn [uri_rfc_resolve uri_resolve].
    destruct (uri_is_dot d); [apply IH; exact H|].
    destruct (uri_is_dotdot d); apply IH; exact H.
Qed.

Lemma uri_rfc_resolve_same ds :
  uri_ends_in_dot ds = false -> uri_rfc_resolve ds [] = uri_resolve ds [].
Proof. apply uri_rfc_resolve_same_gen. Qed.

Lemma uri_rfc_resolve_trailing ds :
  uri_ends_in_dot ds = true -> uri_rfc_resolve ds [] = [] :: uri_resolve ds [].
Proof. apply uri_rfc_resolve_trailing_gen. Qed.

Lemma uri_dots_table seg rest : uri_dots (seg ++ rest) (len seg) = UOk (uri_dotkind_raw seg).
Proof. rewrite uri_dots_is, uri_dots_p_table. reflexivity. Qed.

(* ---- the largest value an option header can carry: 269 + 65535 = 65804 bytes ---- *)
Lemma uri_OPT_MAX_is : uri_OPT_MAX = 269 + 65535 /\ uri_OPT_MAX = 65804.
Proof. split; reflexivity. Qed.

(* write_option / make_decoded_option on a well-formed segment that decodes to [v]:
   more than 65804 bytes: refused, nothing written, whatever the buffer size;
   at most 65804 bytes and room for header + value: exactly opt_enc 0 v is written *)
Lemma uri_write_opt_length_bound seg rest v st :
  uri_pct_decode seg = Some v ->
  (65804 < len v -> uri_write_opt uri_K (seg ++ rest) (len seg) st = UOk st) /\
  (len v <= 65804 -> len (opt_enc 0 v) <= uw_rem st ->
   uri_write_opt uri_K (seg ++ rest) (len seg) st =
   UOk {| uw_ropts := opt_enc 0 v :: uw_ropts st; uw_rem := uw_rem st - len (opt_enc 0 v) |}).
Proof.
  intros Ed. rewrite uri_write_opt_ok. split.
  - intros Hbig. unfold uri_Hwrite. rewrite Ed.
    destruct (uw_rem st =? 0); [reflexivity|].
    unfold uri_OPT_MAX. destruct (65804 <? len v) eqn:E; [reflexivity|lia].
  - intros Hle Hroom. rewrite (uri_Hwrite_push seg v st Ed); [reflexivity|exact Hle|exact Hroom].
Qed.

(* why: the 16-bit extended length of a 65805-byte value would be that of a 269-byte value *)
Lemma uri_opt_hdr_wraps_above_max : opt_hdr 0 65805 = opt_hdr 0 269 /\ opt_hdr 0 65804 = [14; 255; 255].
Proof. split; reflexivity. Qed.

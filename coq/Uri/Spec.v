(* Specification side of C16, written from RFC 3986 (sections 2.1, 3, 5.2.4, 6.2.2) and RFC 7252
   (sections 6.4, 6.5, 5.10.1) - independent of the scanners in Uri.v / Split.v. *)
From Coq Require Import ZArith List Bool.
From LibcoapV Require Import Base.Bytes Wire.OptCodec Uri.Uri Uri.Split.
Import ListNotations.
Local Open Scope Z_scope.

(* ---- splitting at a separator: "a//b" -> ["a";"";"b"], "" -> [""] ---- *)
Fixpoint uri_split_on (sep : Z -> bool) (s : bytes) : list bytes :=
  match s with
  | [] => [[]]
  | c :: r =>
      if sep c then [] :: uri_split_on sep r
      else match uri_split_on sep r with
           | h :: t => (c :: h) :: t
           | [] => [[c]]
           end
  end.

(* the part of the string in front of the first delimiter of the next component *)
Fixpoint uri_upto (stop : Z -> bool) (s : bytes) : bytes :=
  match s with
  | [] => []
  | c :: r => if stop c then [] else c :: uri_upto stop r
  end.

(* the string from the first delimiter on *)
Fixpoint uri_after (stop : Z -> bool) (s : bytes) : bytes :=
  match s with
  | [] => []
  | c :: r => if stop c then s else uri_after stop r
  end.

(* ---- percent-decoding, RFC 3986 2.1: pct-encoded = "%" HEXDIG HEXDIG; decoded ONCE ---- *)
Definition uri_hexval (c : Z) : Z :=
  if uri_isdigit c then c - 48 else if c <=? 70 then c - 55 else c - 87.

Fixpoint uri_pct_decode (s : bytes) : option bytes :=
  match s with
  | [] => Some []
  | c :: r =>
      if c =? 37 then
        match r with
        | x1 :: x2 :: r2 =>
            if uri_isxdigit x1 && uri_isxdigit x2 then
              match uri_pct_decode r2 with
              | Some d => Some (uri_hexval x1 * 16 + uri_hexval x2 :: d)
              | None => None
              end
            else None
        | _ => None
        end
      else match uri_pct_decode r with Some d => Some (c :: d) | None => None end
  end.

Fixpoint uri_decode_all (l : list bytes) : option (list bytes) :=
  match l with
  | [] => Some []
  | x :: t =>
      match uri_pct_decode x, uri_decode_all t with
      | Some d, Some dt => Some (d :: dt)
      | _, _ => None
      end
  end.

(* ---- dot segments ---- *)
Definition uri_is_dot (d : bytes) : bool :=
  match d with [c] => c =? 46 | _ => false end.
Definition uri_is_dotdot (d : bytes) : bool :=
  match d with [c1; c2] => (c1 =? 46) && (c2 =? 46) | _ => false end.

(* what libcoap does (and its unit tests t_parse_uri29/30 pin): every "." is dropped, every ".."
   removes the segment before it; the stack is kept newest-first *)
Fixpoint uri_resolve (segs : list bytes) (rstack : list bytes) : list bytes :=
  match segs with
  | [] => rstack
  | d :: t =>
      if uri_is_dot d then uri_resolve t rstack
      else if uri_is_dotdot d then uri_resolve t (tl rstack)
      else uri_resolve t (d :: rstack)
  end.

(* RFC 3986 5.2.4 remove_dot_segments on the segment list of an absolute path: identical,
   except that a dot segment in LAST position leaves a trailing "/" (rules 2B/2C replace "/."
   and "/.." at the end of the input by "/"), i.e. a final empty segment *)
Fixpoint uri_rfc_resolve (segs : list bytes) (rstack : list bytes) : list bytes :=
  match segs with
  | [] => rstack
  | d :: t =>
      match t with
      | [] => if uri_is_dot d then [] :: rstack
              else if uri_is_dotdot d then [] :: tl rstack
              else d :: rstack
      | _ => if uri_is_dot d then uri_rfc_resolve t rstack
             else if uri_is_dotdot d then uri_rfc_resolve t (tl rstack)
             else uri_rfc_resolve t (d :: rstack)
      end
  end.

(* ---- RFC 3986 5.2.4 remove_dot_segments, transcribed literally on strings: input buffer [i],
   output buffer [o]; one loop iteration per unit of fuel (every iteration shortens the input) ---- *)
Fixpoint uri_starts (pat i : bytes) : bool :=
  match pat, i with
  | [], _ => true
  | p :: pt, c :: r => (c =? p) && uri_starts pt r
  | _ :: _, [] => false
  end.

(* "removing the last segment and its preceding "/" (if any) from the output buffer" *)
Definition uri_rfc_remove_last (o : bytes) : bytes :=
  rev (tl (uri_after uri_path_sep (rev o))).

Fixpoint uri_rfc_rds (fuel : nat) (i o : bytes) : bytes :=
  match fuel with
  | O => o
  | S f =>
      match i with
      | [] => o
      | c :: r =>
          if uri_starts [46; 46; 47] i then uri_rfc_rds f (drop 3 i) o              (* A "../" *)
          else if uri_starts [46; 47] i then uri_rfc_rds f (drop 2 i) o             (* A "./"  *)
          else if uri_starts [47; 46; 47] i then uri_rfc_rds f (drop 2 i) o         (* B "/./" -> "/" *)
          else if uri_beq i [47; 46] then uri_rfc_rds f [47] o                      (* B "/."  -> "/" *)
          else if uri_starts [47; 46; 46; 47] i
               then uri_rfc_rds f (drop 3 i) (uri_rfc_remove_last o)                (* C "/../" -> "/" *)
          else if uri_beq i [47; 46; 46]
               then uri_rfc_rds f [47] (uri_rfc_remove_last o)                      (* C "/.." -> "/" *)
          else if uri_beq i [46] || uri_beq i [46; 46] then o                       (* D *)
          else uri_rfc_rds f (uri_after uri_path_sep r)
                           (o ++ c :: uri_upto uri_path_sep r)                      (* E *)
      end
  end.

Definition uri_rfc_remove_dot_segments (path : bytes) : bytes :=
  uri_rfc_rds (S (length path)) path [].

(* an absolute path written from its segments: "/" s1 "/" s2 ... *)
Fixpoint uri_render (segs : list bytes) : bytes :=
  match segs with [] => [] | s :: t => 47 :: s ++ uri_render t end.

Definition uri_raw_path_segs (s : bytes) : list bytes :=
  uri_split_on uri_path_sep (uri_upto uri_path_stop s).
Definition uri_raw_query_items (s : bytes) : list bytes :=
  uri_split_on uri_query_sep (uri_upto uri_query_stop s).

(* Uri-Path values of the path [s] (without its leading "/"): None = malformed escape *)
(* a value longer than 269 + 65535 bytes cannot be carried by any option *)
Definition uri_fits (ds : list bytes) : bool := forallb (fun d => len d <=? 65804) ds.

Definition uri_spec_path (s : bytes) : option (list bytes) :=
  match uri_decode_all (uri_raw_path_segs s) with
  | Some ds => if uri_fits ds then Some (rev (uri_resolve ds [])) else None
  | None => None
  end.
Definition uri_rfc_path (s : bytes) : option (list bytes) :=
  match uri_decode_all (uri_raw_path_segs s) with
  | Some ds => if uri_fits ds then Some (rev (uri_rfc_resolve ds [])) else None
  | None => None
  end.
(* Uri-Query values *)
Definition uri_spec_query (s : bytes) : option (list bytes) :=
  match uri_decode_all (uri_raw_query_items s) with
  | Some ds => if uri_fits ds then Some ds else None
  | None => None
  end.

(* the options as they lie in the output buffer: delta 0, length, value *)
Definition uri_encs (l : list bytes) : list bytes := map (opt_enc 0) l.

(* The buffer size coap_split_path needs: the largest size the option area reaches while the
   segments are processed (a segment that a later ".." removes still has to fit first). *)
Definition uri_next (d : bytes) (stack : list bytes) : list bytes :=
  if uri_is_dot d then stack else if uri_is_dotdot d then tl stack else d :: stack.
Fixpoint uri_peak (ds : list bytes) (stack : list bytes) : Z :=
  match ds with
  | [] => uri_sumlen (uri_encs stack)
  | d :: t => Z.max (uri_sumlen (uri_encs stack)) (uri_peak t (uri_next d stack))
  end.
Definition uri_path_need (s : bytes) : Z :=
  match uri_decode_all (uri_raw_path_segs s) with Some ds => uri_peak ds [] | None => 0 end.
(* coap_split_query: all items *)
Definition uri_query_need (s : bytes) : Z :=
  match uri_decode_all (uri_raw_query_items s) with
  | Some ds => uri_sumlen (uri_encs ds)
  | None => 0
  end.

(* RFC 7252 6.4 steps 8 and 9: no Uri-Path for an empty path (the "/" after the authority is
   not part of [path] here), no Uri-Query for an absent/empty query *)
Definition uri_spec_path_opts (p : bytes) : option (list bytes) :=
  match p with [] => Some [] | _ => uri_spec_path p end.
Definition uri_spec_query_opts (q : bytes) : option (list bytes) :=
  match q with [] => Some [] | _ => uri_spec_query q end.

(* the last raw segment is "." or ".." (literally or escaped) *)
Definition uri_ends_in_dot (ds : list bytes) : bool :=
  match rev ds with d :: _ => uri_is_dot d || uri_is_dotdot d | [] => false end.

(* ---- options -> string ---- *)
(* "a single empty segment counting as no segment" *)
Definition uri_norm (l : list bytes) : list bytes :=
  match l with [[]] => [] | _ => l end.

Definition uri_no_dots (l : list bytes) : Prop :=
  forall d, In d l -> uri_is_dot d = false /\ uri_is_dotdot d = false.

(* what a caller does with a path string (coap_uri_into_optlist): nothing if it is empty *)
Definition uri_path_to_opts (s : bytes) (buflen : Z) : uri_res (list bytes) :=
  match s with
  | [] => UOk []
  | _ => ulet r <- uri_split_path s buflen ;; UOk (fst r)
  end.
Definition uri_query_to_opts (s : bytes) (buflen : Z) : uri_res (list bytes) :=
  match s with
  | [] => UOk []
  | _ => ulet r <- uri_split_query s buflen ;; UOk (fst r)
  end.

(* ---- the URI grammar coap_split_uri implements, as a declarative decomposition ----
   URI      = scheme "://" host [ ":" *DIGIT ] [ "/" path ] [ "?" query ]
            | "/" path [ "?" query ]                          (not for Proxy-Uri)
   host     = "[" 1*(any byte but "]") "]"  |  1*(any byte but ":" "/" "?"), not starting "["
   path     = *(any byte but "?")          query = *(any byte)                               *)
Definition uri_none_of (l : list Z) (s : bytes) : Prop :=
  forall c, In c s -> uri_in c l = false.

Definition uri_all_digits (s : bytes) : Prop := forall c, In c s -> uri_isdigit c = true.

Fixpoint uri_decimal_acc (ds : bytes) (acc : Z) : Z :=
  match ds with [] => acc | d :: r => uri_decimal_acc r (acc * 10 + (d - 48)) end.
Definition uri_decimal (ds : bytes) : Z := uri_decimal_acc ds 0.

Definition uri_is_unix_host (h : bytes) : bool :=
  match h with
  | a :: b :: c :: _ => (a =? 37) && (b =? 50) && ((c =? 70) || (c =? 102))
  | _ => false
  end.

(* host part: text, host value, is a Unix-domain name *)
Inductive uri_g_host : bytes -> bytes -> bool -> Prop :=
| UGH_v6 : forall h, h <> [] -> uri_none_of [93] h -> uri_g_host (91 :: h ++ [93]) h false
| UGH_name : forall h, h <> [] -> uri_none_of [58; 47; 63] h -> hd 0 h <> 91 ->
    uri_g_host h h (uri_is_unix_host h).

(* port part: text, default, value *)
Inductive uri_g_port : bytes -> Z -> Z -> Prop :=
| UGP_none : forall dflt, uri_g_port [] dflt dflt
| UGP_empty : forall dflt, uri_g_port [58] dflt dflt
| UGP_num : forall ds dflt, ds <> [] -> uri_all_digits ds -> uri_decimal ds <= 65535 ->
    uri_g_port (58 :: ds) dflt (uri_decimal ds).

Inductive uri_g_path : bytes -> bytes -> Prop :=
| UGA_none : uri_g_path [] []
| UGA_some : forall p, uri_none_of [63] p -> uri_g_path (47 :: p) p.

Inductive uri_g_query : bytes -> bytes -> Prop :=
| UGQ_none : uri_g_query [] []
| UGQ_some : forall q, uri_g_query (63 :: q) q.

Definition uri_css : bytes := [58; 47; 47].

Inductive uri_grammar (caps : uri_caps) (proxy : bool) : bytes -> uri_parts -> Prop :=
| UG_abs : forall pt path qt query,
    proxy = false -> uri_g_path pt path -> pt <> [] -> uri_g_query qt query ->
    uri_grammar caps proxy (pt ++ qt)
      {| up_scheme := 0; up_host := []; up_port := 5683; up_path := path; up_query := query |}
| UG_full : forall name dport ponly sch ht host unix pot port pt path qt query,
    In (name, dport, ponly, sch) uri_schemes ->
    (ponly = true -> proxy = true) ->
    uri_cap_ok caps sch = true ->
    uri_g_host ht host unix ->
    uri_g_port pot (if unix then 0 else dport) port ->
    (unix = true -> pot = []) ->
    uri_g_path pt path -> uri_g_query qt query ->
    uri_grammar caps proxy (name ++ uri_css ++ ht ++ pot ++ pt ++ qt)
      {| up_scheme := sch; up_host := host; up_port := port; up_path := path; up_query := query |}.

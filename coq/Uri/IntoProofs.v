(* coap_uri_into_optlist = Uri-Host/Uri-Port decision ++ specified Uri-Path ++ specified Uri-Query,
   appended to whatever was in the chain. *)
From LibcoapV Require Import Base.Tactics Base.Bytes Base.BytesProofs Wire.OptCodec Uri.Uri Uri.Split
  Uri.Spec Uri.SegProofs Uri.PathProofs Uri.SplitProofs Uri.Into.
Local Open Scope Z_scope.

Lemma uri_if_len {A B} (l : list A) (x y : B) :
  (if 0 <? len l then x else y) = match l with [] => y | _ :: _ => x end.
Proof.
  destruct l; [reflexivity|]. rewrite len_cons. pose proof (len_nonneg l).
  destruct (0 <? 1 + len l) eqn:E; [reflexivity|lia].
Qed.

(* coap_host_is_unix_domain reads only the host->length bytes of the host, for every host *)
Lemma uri_host_is_unix_chk_ok h : uri_host_is_unix_chk uri_UNIX_K h = UOk (uri_host_is_unix h).
Proof.
  unfold uri_host_is_unix_chk, uri_host_is_unix, uri_UNIX_K.
  destruct h as [|a [|b [|c r]]].
  - reflexivity.
  - rewrite len_cons, len_nil. cbn [Z.add Z.leb Z.compare uri_bind uri_rd nth_error uri_is_unix_host orb].
    reflexivity.
  - rewrite !len_cons, len_nil.
    cbn [Z.add Pos.add Pos.succ Z.leb Z.compare Pos.compare Pos.compare_cont uri_bind uri_rd nth_error
         uri_is_unix_host orb]. reflexivity.
  - rewrite !len_cons. pose proof (len_nonneg r).
    destruct (3 <=? 1 + (1 + (1 + len r))) eqn:E3; [|lia].
    destruct (1 <=? 1 + (1 + (1 + len r))) eqn:E1; [|lia].
    cbn [uri_bind uri_rd nth_error uri_is_unix_host].
    destruct (a =? 37); cbn [andb orb uri_bind]; [|reflexivity].
    destruct (b =? 50); cbn [andb orb uri_bind]; [|reflexivity].
    destruct ((c =? 70) || (c =? 102)); reflexivity.
Qed.

Lemma uri_into_optlist_unfold u dst create chain :
  uri_into_optlist u dst create chain =
  (let chain1 := chain ++ uri_hostport_opts u dst create in
   ulet c2 <- (if 0 <? len (up_path u) then uri_path_into_optlist (up_path u) 11 chain1
               else UOk chain1) ;;
   if 0 <? len (up_query u) then uri_query_into_optlist (up_query u) 15 c2 else UOk c2).
Proof.
  unfold uri_into_optlist, uri_into_optlist_k, uri_hostport_opts.
  destruct create.
  - rewrite uri_host_is_unix_chk_ok. reflexivity.
  - cbn [uri_bind]. unfold uri_hostport_opts_ux. cbn [andb]. reflexivity.
Qed.

(* with the guard constant 2 the host "%2" is read one byte past its end *)
Lemma uri_host_is_unix_k2_overreads : uri_host_is_unix_chk 2 [37; 50] = UOob.
Proof. reflexivity. Qed.

Theorem uri_into_optlist_spec u dst create chain po qo :
  uri_spec_path_opts (up_path u) = Some po -> uri_spec_query_opts (up_query u) = Some qo ->
  uri_into_optlist u dst create chain =
  UOk (chain ++ uri_hostport_opts u dst create ++ uri_tag 11 po ++ uri_tag 15 qo).
Proof.
  intros Hp Hq. rewrite uri_into_optlist_unfold. cbv zeta. rewrite !uri_if_len.
  unfold uri_spec_path_opts in Hp. unfold uri_spec_query_opts in Hq.
  assert (E1 : (match up_path u with
                | [] => UOk (chain ++ uri_hostport_opts u dst create)
                | _ :: _ => uri_path_into_optlist (up_path u) 11 (chain ++ uri_hostport_opts u dst create)
                end) = UOk ((chain ++ uri_hostport_opts u dst create) ++ uri_tag 11 po)).
  { destruct (up_path u) as [|c r] eqn:E.
    - injection Hp as <-. cbn [uri_tag map]. rewrite app_nil_r. reflexivity.
    - apply uri_path_into_optlist_spec. exact Hp. }
  rewrite E1. cbn [uri_bind].
  destruct (up_query u) as [|c r] eqn:E.
  - injection Hq as <-. cbn [uri_tag map]. rewrite app_nil_r, <- app_assoc. reflexivity.
  - rewrite (uri_query_into_optlist_spec _ 15 _ qo Hq). rewrite <- !app_assoc. reflexivity.
Qed.

(* every split URI, malformed escapes included: no overread, the chain and the host/port
   decision stay, Uri-Path values are never "." or ".." *)
Theorem uri_into_optlist_safe u dst create chain :
  exists pa qa,
    uri_into_optlist u dst create chain =
    UOk (chain ++ uri_hostport_opts u dst create ++ uri_tag 11 pa ++ uri_tag 15 qa) /\
    Forall (fun v => uri_kind v = 0) pa.
Proof.
  rewrite uri_into_optlist_unfold. cbv zeta. rewrite !uri_if_len.
  assert (E1 : exists pa,
             (match up_path u with
              | [] => UOk (chain ++ uri_hostport_opts u dst create)
              | _ :: _ => uri_path_into_optlist (up_path u) 11 (chain ++ uri_hostport_opts u dst create)
              end) = UOk ((chain ++ uri_hostport_opts u dst create) ++ uri_tag 11 pa) /\
             Forall (fun v => uri_kind v = 0) pa).
  { destruct (up_path u) as [|c r].
    - exists []. split; [cbn [uri_tag map]; rewrite app_nil_r; reflexivity|constructor].
    - apply uri_path_into_optlist_safe. }
  destruct E1 as [pa [E1 Hpa]]. rewrite E1. cbn [uri_bind].
  destruct (up_query u) as [|c r].
  - exists pa, []. split; [|exact Hpa]. cbn [uri_tag map]. rewrite app_nil_r, <- app_assoc.
    reflexivity.
  - destruct (uri_query_into_optlist_safe (c :: r) 15
                ((chain ++ uri_hostport_opts u dst create) ++ uri_tag 11 pa)) as [qa Eq].
    exists pa, qa. split; [|exact Hpa]. rewrite Eq, <- !app_assoc. reflexivity.
Qed.

(* default ports: a URI without port gets no Uri-Port option, whatever the scheme *)
Lemma uri_default_port_no_option name dport ponly sch :
  In (name, dport, ponly, sch) uri_schemes -> uri_scheme_default_port sch = dport.
Proof.
  unfold uri_schemes. cbn [In].
  intros [E|[E|[E|[E|[E|[E|[E|[E|[]]]]]]]]]; injection E as <- <- <- <-; reflexivity.
Qed.

(* end to end: a string of the URI grammar goes through coap_split_uri and coap_uri_into_optlist
   to exactly the options RFC 7252 6.4 prescribes *)
Definition uri_to_options (caps : uri_caps) (s : bytes) (dst : option bytes) (create : bool)
           (chain : list opt) : uri_res (option (list opt)) :=
  ulet r <- uri_split caps false s ;;
  match r with
  | USplit u => ulet c <- uri_into_optlist u dst create chain ;; UOk (Some c)
  | UErr _ => UOk None
  end.

Theorem uri_to_options_spec caps s u dst create chain po qo :
  uri_grammar caps false s u ->
  uri_spec_path_opts (up_path u) = Some po -> uri_spec_query_opts (up_query u) = Some qo ->
  uri_to_options caps s dst create chain =
  UOk (Some (chain ++ uri_hostport_opts u dst create ++ uri_tag 11 po ++ uri_tag 15 qo)).
Proof.
  intros G Hp Hq. unfold uri_to_options.
  apply uri_split_iff_grammar in G. rewrite G. cbn [uri_bind].
  rewrite (uri_into_optlist_spec u dst create chain po qo Hp Hq). reflexivity.
Qed.

(* a string outside the grammar yields no options at all *)
Theorem uri_to_options_reject caps s dst create chain :
  (forall u, ~ uri_grammar caps false s u) -> uri_to_options caps s dst create chain = UOk None.
Proof.
  intros N. unfold uri_to_options. rewrite uri_split_is_pure. cbn [uri_bind].
  destruct (uri_split_pure caps false s) as [u|rc] eqn:E; [|reflexivity].
  exfalso. apply (N u). apply uri_split_pure_iff. exact E.
Qed.

(* coap_address_set_unix_domain reads only the host_len bytes of the host and decodes exactly the
   complete "%2F" escapes *)
Lemma uri_unix_decode_0 k h : uri_unix_decode k h 0 = UOk [].
Proof. destruct h; reflexivity. Qed.

Lemma uri_unix_decode_eq k c h1 rem :
  uri_unix_decode k (c :: h1) rem =
  if rem =? 0 then UOk [] else
  ulet esc <- (if (k <=? rem) && (c =? 37) then
                 ulet c1 <- uri_rd h1 0 ;;
                 if c1 =? 50 then ulet c2 <- uri_rd h1 1 ;; UOk ((c2 =? 70) || (c2 =? 102))
                 else UOk false
               else UOk false) ;;
  if (esc : bool) then
    match h1 with
    | _ :: _ :: h3 => ulet r <- uri_unix_decode k h3 (rem - 3) ;; UOk (47 :: r)
    | _ => UOob
    end
  else ulet r <- uri_unix_decode k h1 (rem - 1) ;; UOk (c :: r).
Proof. reflexivity. Qed.

Lemma uri_unix_decode_ok : forall h rest,
  uri_unix_decode 3 (h ++ rest) (len h) = UOk (uri_unix_pure h).
Proof.
  induction h as [h IH] using uri_len_ind. intros rest.
  destruct h as [|c [|c1 [|c2 r2]]].
  - apply uri_unix_decode_0.
  - cbn [app uri_unix_decode uri_unix_pure]. rewrite len_cons, len_nil.
    cbn [Z.add Z.eqb Z.leb Z.compare Pos.compare Pos.compare_cont andb uri_bind Z.sub Z.opp Z.pos_sub].
    rewrite uri_unix_decode_0. reflexivity.
  - cbn [app uri_unix_decode uri_unix_pure]. rewrite !len_cons, len_nil.
    cbn [Z.add Pos.add Pos.succ Z.eqb Z.leb Z.compare Pos.compare Pos.compare_cont andb uri_bind
         Z.sub Z.opp Z.pos_sub Pos.pred_double].
    rewrite uri_unix_decode_0. reflexivity.
  - cbn [app uri_unix_pure]. rewrite uri_unix_decode_eq. rewrite !len_cons.
    pose proof (len_nonneg r2).
    destruct (1 + (1 + (1 + len r2)) =? 0) eqn:E0; [lia|].
    destruct (3 <=? 1 + (1 + (1 + len r2))) eqn:E3; [|lia].
    cbn [andb uri_rd nth_error uri_bind].
    destruct (c =? 37) eqn:Ec; cbn [andb uri_bind].
    + destruct (c1 =? 50) eqn:E1; cbn [andb uri_bind].
      * destruct ((c2 =? 70) || (c2 =? 102)) eqn:E2.
        -- replace (1 + (1 + (1 + len r2)) - 3) with (len r2) by lia.
           rewrite (IH r2 ltac:(cbn [length]; lia) rest). reflexivity.
        -- replace (1 + (1 + (1 + len r2)) - 1) with (len (c1 :: c2 :: r2)) by (rewrite !len_cons; lia).
           change (c1 :: c2 :: r2 ++ rest) with ((c1 :: c2 :: r2) ++ rest).
           rewrite (IH (c1 :: c2 :: r2) ltac:(cbn [length]; lia) rest). reflexivity.
      * replace (1 + (1 + (1 + len r2)) - 1) with (len (c1 :: c2 :: r2)) by (rewrite !len_cons; lia).
        change (c1 :: c2 :: r2 ++ rest) with ((c1 :: c2 :: r2) ++ rest).
        rewrite (IH (c1 :: c2 :: r2) ltac:(cbn [length]; lia) rest). reflexivity.
    + replace (1 + (1 + (1 + len r2)) - 1) with (len (c1 :: c2 :: r2)) by (rewrite !len_cons; lia).
      change (c1 :: c2 :: r2 ++ rest) with ((c1 :: c2 :: r2) ++ rest).
      rewrite (IH (c1 :: c2 :: r2) ltac:(cbn [length]; lia) rest). reflexivity.
Qed.

Theorem uri_unix_path_ok pmax host :
  uri_unix_path pmax host =
  UOk (uri_upto (fun c => c =? 0) (take (pmax - 1) (uri_unix_pure host))).
Proof.
  unfold uri_unix_path, uri_unix_path_k.
  rewrite <- (app_nil_r host) at 1. rewrite uri_unix_decode_ok. reflexivity.
Qed.

(* a guard that lets two remaining bytes pass reads past a host ending in "%2" *)
Lemma uri_unix_path_k2_overreads : uri_unix_path_k 2 26 [37; 50; 70; 120; 37; 50] = UOob.
Proof. reflexivity. Qed.

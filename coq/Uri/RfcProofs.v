(* RFC 3986 5.2.4 remove_dot_segments, transcribed literally on strings (Spec.uri_rfc_rds), equals
   the segment-level resolution uri_rfc_resolve used in the theorems about paths. *)
From LibcoapV Require Import Base.Tactics Base.Bytes Base.BytesProofs Wire.OptCodec Uri.Uri Uri.Split
  Uri.Spec Uri.SplitProofs.
Local Open Scope Z_scope.

Definition uri_noslash (s : bytes) : Prop := forall x, In x s -> x <> 47.

Lemma uri_render_app a b : uri_render (a ++ b) = uri_render a ++ uri_render b.
Proof.
  induction a as [|s a IH]; [reflexivity|]. cbn [app uri_render]. rewrite IH, <- app_assoc.
  reflexivity.
Qed.

Lemma uri_render_head t : (t = [] /\ uri_render t = []) \/ (t <> [] /\ exists r, uri_render t = 47 :: r).
Proof. destruct t as [|s t]; [left; auto|right]. split; [discriminate|]. cbn [uri_render]. eauto. Qed.

Lemma uri_noslash_sep s : uri_noslash s -> forall x, In x s -> uri_path_sep x = false.
Proof.
  intros H x Hx. unfold uri_path_sep, uri_c_slash. specialize (H x Hx). lia.
Qed.

(* 2C: dropping the last segment of the output buffer *)
Lemma uri_remove_last_render l s :
  uri_noslash s -> uri_rfc_remove_last (uri_render (l ++ [s])) = uri_render l.
Proof.
  intros Hs. unfold uri_rfc_remove_last. rewrite uri_render_app. cbn [uri_render].
  rewrite app_nil_r, rev_app_distr. cbn [rev]. rewrite <- app_assoc. cbn [app].
  assert (Hr : forall x, In x (rev s) -> uri_path_sep x = false).
  { intros x Hx. apply (uri_noslash_sep s Hs). apply in_rev. exact Hx. }
  destruct (uri_span_app uri_path_sep (rev s) 47 (rev (uri_render l)) Hr eq_refl) as [_ E].
  rewrite E. cbn [tl]. apply rev_involutive.
Qed.

Lemma uri_remove_last_stack stack :
  Forall uri_noslash stack ->
  uri_rfc_remove_last (uri_render (rev stack)) = uri_render (rev (tl stack)).
Proof.
  intros H. destruct stack as [|s st]; [reflexivity|].
  cbn [rev tl]. inversion H; subst. apply uri_remove_last_render. assumption.
Qed.

(* the last iteration: the input buffer is "/" *)
Lemma uri_rds_slash f o : uri_rfc_rds (S f) [47] o = o ++ [47].
Proof. cbn. destruct f; reflexivity. Qed.

Ltac zcaser :=
  match goal with
  | |- context [Z.eqb ?x ?k] =>
      is_var x; let E := fresh "E" in
      destruct (Z.eqb x k) eqn:E; [apply Z.eqb_eq in E; subst x|]
  end.

(* 2E applies to a segment that is neither "." nor "..", whatever follows *)
Lemma uri_rds_plain f s r o :
  uri_noslash s -> uri_is_dot s = false -> uri_is_dotdot s = false ->
  (r = [] \/ exists r', r = 47 :: r') ->
  uri_rfc_rds (S f) (47 :: s ++ r) o = uri_rfc_rds f r (o ++ 47 :: s).
Proof.
  intros Hs D1 D2 Hr.
  assert (Hsp : uri_upto uri_path_sep (s ++ r) = s /\ uri_after uri_path_sep (s ++ r) = r).
  { apply uri_span_app'; [apply uri_noslash_sep; exact Hs|].
    destruct Hr as [->|[r' ->]]; [left; reflexivity|right; eauto]. }
  destruct Hsp as [E1 E2].
  assert (G : forall b : bool, b = false ->
            (if b then uri_rfc_rds f r (o ++ 47 :: s) else
             uri_rfc_rds f (uri_after uri_path_sep (s ++ r)) (o ++ 47 :: uri_upto uri_path_sep (s ++ r)))
            = uri_rfc_rds f r (o ++ 47 :: s)).
  { intros b ->. rewrite E1, E2. reflexivity. }
  unfold uri_is_dot, uri_is_dotdot in *. clear G.
  destruct s as [|a [|b [|c s']]].
  - destruct Hr as [->|[r' ->]]; cbn [app] in *; cbn -[uri_upto uri_after]; rewrite ?E1, ?E2;
      reflexivity.
  - assert (a <> 47) by (apply Hs; left; reflexivity).
    assert (a <> 46) by lia.
    destruct Hr as [->|[r' ->]]; cbn [app] in *; cbn -[uri_upto uri_after];
      repeat (zcaser; try lia; cbn -[uri_upto uri_after]); rewrite ?E1, ?E2; reflexivity.
  - assert (a <> 47) by (apply Hs; left; reflexivity).
    assert (b <> 47) by (apply Hs; right; left; reflexivity).
    destruct Hr as [->|[r' ->]]; cbn [app] in *; cbn -[uri_upto uri_after];
      repeat (zcaser; try lia; cbn -[uri_upto uri_after] in * ); try discriminate;
      rewrite ?E1, ?E2; reflexivity.
  - assert (a <> 47) by (apply Hs; left; reflexivity).
    assert (b <> 47) by (apply Hs; right; left; reflexivity).
    assert (c <> 47) by (apply Hs; right; right; left; reflexivity).
    cbn [app] in *. cbn -[uri_upto uri_after];
      repeat (zcaser; try lia; cbn -[uri_upto uri_after]); rewrite ?E1, ?E2; reflexivity.
Qed.

Lemma uri_len_render_cons s t : length (uri_render (s :: t)) = S (length s + length (uri_render t)).
Proof. cbn [uri_render length]. rewrite app_length. reflexivity. Qed.

Theorem uri_rds_segments : forall l stack fuel,
  Forall uri_noslash l -> Forall uri_noslash stack ->
  (length (uri_render l) < fuel)%nat ->
  uri_rfc_rds fuel (uri_render l) (uri_render (rev stack)) =
  uri_render (rev (uri_rfc_resolve l stack)).
Proof.
  induction l as [|s t IH]; intros stack fuel Hl Hst Hf.
  - destruct fuel; reflexivity.
  - inversion Hl as [|? ? Hs Ht]; subst.
    destruct fuel as [|f]; [lia|].
    rewrite uri_len_render_cons in Hf.
    cbn [uri_render uri_rfc_resolve].
    destruct (uri_is_dot s) eqn:D1.
    + (* "." *)
      destruct s as [|a [|? ?]]; try discriminate. cbn in D1. apply Z.eqb_eq in D1. subst a.
      destruct (uri_render_head t) as [[-> Er]|[Hne [r Er]]].
      * cbn [uri_render app]. change (uri_rfc_rds (S f) [47; 46] (uri_render (rev stack)))
          with (uri_rfc_rds f [47] (uri_render (rev stack))).
        destruct f as [|f]; [cbn in Hf; lia|]. rewrite uri_rds_slash.
        cbn [rev]. rewrite uri_render_app. cbn [uri_render]. reflexivity.
      * destruct t as [|s2 t2]; [contradiction|].
        cbn [app]. rewrite Er.
        change (uri_rfc_rds (S f) (47 :: 46 :: 47 :: r) (uri_render (rev stack)))
          with (uri_rfc_rds f (47 :: r) (uri_render (rev stack))).
        rewrite <- Er. apply IH; [exact Ht|exact Hst|]. cbn [length] in Hf. lia.
    + destruct (uri_is_dotdot s) eqn:D2.
      * (* ".." *)
        destruct s as [|a [|b [|? ?]]]; try discriminate. cbn in D2.
        apply andb_true_iff in D2. destruct D2 as [Da Db].
        apply Z.eqb_eq in Da, Db. subst a b.
        destruct (uri_render_head t) as [[-> Er]|[Hne [r Er]]].
        -- cbn [uri_render app].
           change (uri_rfc_rds (S f) [47; 46; 46] (uri_render (rev stack)))
             with (uri_rfc_rds f [47] (uri_rfc_remove_last (uri_render (rev stack)))).
           destruct f as [|f]; [cbn in Hf; lia|]. rewrite uri_rds_slash.
           rewrite (uri_remove_last_stack stack Hst).
           cbn [rev]. rewrite uri_render_app. cbn [uri_render]. reflexivity.
        -- destruct t as [|s2 t2]; [contradiction|].
           cbn [app]. rewrite Er.
           change (uri_rfc_rds (S f) (47 :: 46 :: 46 :: 47 :: r) (uri_render (rev stack)))
             with (uri_rfc_rds f (47 :: r) (uri_rfc_remove_last (uri_render (rev stack)))).
           rewrite <- Er. rewrite (uri_remove_last_stack stack Hst).
           apply IH; [exact Ht| |cbn [length] in Hf; lia].
           destruct stack; [constructor|inversion Hst; assumption].
      * (* an ordinary segment *)
        assert (Hr : uri_render t = [] \/ exists r', uri_render t = 47 :: r').
        { destruct (uri_render_head t) as [[_ E]|[_ [r E]]]; [left; exact E|right; eauto]. }
        rewrite (uri_rds_plain f s (uri_render t) _ Hs D1 D2 Hr).
        assert (Eo : uri_render (rev stack) ++ 47 :: s = uri_render (rev (s :: stack))).
        { cbn [rev]. rewrite uri_render_app. cbn [uri_render]. rewrite app_nil_r. reflexivity. }
        rewrite Eo.
        destruct t as [|s2 t2].
        -- cbn [uri_render]. destruct f; reflexivity.
        -- apply IH; [exact Ht|constructor; assumption|lia].
Qed.

(* remove_dot_segments of an absolute path = the segment-level resolution *)
Theorem uri_rfc_remove_dot_segments_spec l :
  Forall uri_noslash l ->
  uri_rfc_remove_dot_segments (uri_render l) = uri_render (rev (uri_rfc_resolve l [])).
Proof.
  intros Hl. unfold uri_rfc_remove_dot_segments.
  apply (uri_rds_segments l [] _ Hl (Forall_nil _)). lia.
Qed.

(* the raw segments of a path never contain '/' *)
Lemma uri_split_on_noslash s : Forall uri_noslash (uri_split_on uri_path_sep s).
Proof.
  induction s as [|c r IH]; [constructor; [intros x []|constructor]|].
  cbn [uri_split_on]. destruct (uri_path_sep c) eqn:E.
  - constructor; [intros x []|exact IH].
  - destruct (uri_split_on uri_path_sep r) as [|h t]; [constructor; [|constructor]|].
    + intros x [<-|[]]. unfold uri_path_sep, uri_c_slash in E. lia.
    + inversion IH; subst. constructor; [|assumption].
      intros x [<-|Hx]; [unfold uri_path_sep, uri_c_slash in E; lia|auto].
Qed.

(* "/" ++ path rendered from its raw segments *)
Lemma uri_render_split s : uri_render (uri_split_on uri_path_sep s) = 47 :: s.
Proof.
  induction s as [|c r IH]; [reflexivity|]. cbn [uri_split_on].
  destruct (uri_path_sep c) eqn:E.
  - cbn [uri_render app]. rewrite IH. unfold uri_path_sep, uri_c_slash in E.
    apply Z.eqb_eq in E. subst c. reflexivity.
  - destruct (uri_split_on uri_path_sep r) as [|h t] eqn:Es.
    + cbn in IH. discriminate IH.
    + cbn [uri_render app] in *. injection IH as IH. rewrite IH. reflexivity.
Qed.

(* for any path text (no '?', '#' handling here: the path component itself): running the RFC
   algorithm on "/" ++ path gives the rendering of the RFC-resolved raw segments *)
Theorem uri_rfc_remove_dot_segments_path p :
  uri_rfc_remove_dot_segments (47 :: p) =
  uri_render (rev (uri_rfc_resolve (uri_split_on uri_path_sep p) [])).
Proof.
  rewrite <- (uri_render_split p). apply uri_rfc_remove_dot_segments_spec.
  apply uri_split_on_noslash.
Qed.

(* Model of coap_split_uri_sub (coap_split_uri / coap_split_proxy_uri), src/coap_uri.c, with
   checked reads: a pointer is the suffix of the input that starts there, the C variable [len]
   is carried separately. *)
From Coq Require Import ZArith List Bool.
From LibcoapV Require Import Base.Bytes Uri.Uri.
Import ListNotations.
Local Open Scope Z_scope.

(* which transports this build of the library supports: coap_dtls_is_supported() ... *)
Record uri_caps : Type := { ucap_dtls : bool; ucap_tcp : bool; ucap_tls : bool;
                            ucap_ws : bool; ucap_wss : bool }.

Record uri_parts : Type := { up_scheme : Z; up_host : bytes; up_port : Z;
                             up_path : bytes; up_query : bytes }.

Inductive uri_sres : Type := USplit (p : uri_parts) | UErr (rc : Z).

(* coap_uri_scheme[]: name, default port, proxy_only, scheme *)
Definition uri_schemes : list (bytes * Z * bool * Z) :=
  [ ([99;111;97;112], 5683, false, 0);                               (* coap *)
    ([99;111;97;112;115], 5684, false, 1);                           (* coaps *)
    ([99;111;97;112;43;116;99;112], 5683, false, 2);                 (* coap+tcp *)
    ([99;111;97;112;115;43;116;99;112], 5684, false, 3);             (* coaps+tcp *)
    ([104;116;116;112], 80, true, 4);                                (* http *)
    ([104;116;116;112;115], 443, true, 5);                           (* https *)
    ([99;111;97;112;43;119;115], 80, false, 6);                      (* coap+ws *)
    ([99;111;97;112;115;43;119;115], 443, false, 7) ].               (* coaps+ws *)

Definition uri_cap_ok (caps : uri_caps) (scheme : Z) : bool :=
  if scheme =? 1 then ucap_dtls caps else
  if scheme =? 2 then ucap_tcp caps else
  if scheme =? 3 then ucap_tls caps else
  if scheme =? 6 then ucap_ws caps else
  if scheme =? 7 then ucap_wss caps else true.

Fixpoint uri_beq (a b : bytes) : bool :=
  match a, b with
  | [], [] => true
  | x :: a', y :: b' => (x =? y) && uri_beq a' b'
  | _, _ => false
  end.

(* while (len >= 3 && !(p[0]==':' && p[1]=='/' && p[2]=='/')) { ++p; --len; }   k = p - str *)
Fixpoint uri_find_css (p : bytes) (len k : Z) : uri_res (bytes * Z * Z) :=
  if len <? 3 then UOk (p, len, k) else
  match p with
  | [] => UOob
  | c0 :: p' =>
      ulet m <- (if c0 =? 58 then
                   ulet c1 <- uri_rd p 1 ;;
                   if c1 =? 47 then ulet c2 <- uri_rd p 2 ;; UOk (c2 =? 47) else UOk false
                 else UOk false) ;;
      if (m : bool) then UOk (p, len, k) else uri_find_css p' (len - 1) (k + 1)
  end.

(* while (len && !stop( *q )) { ++q; --len; }   k counts the steps *)
Fixpoint uri_scan (stop : Z -> bool) (q : bytes) (len k : Z) : uri_res (bytes * Z * Z) :=
  if len =? 0 then UOk (q, len, k) else
  match q with
  | [] => UOob
  | c :: q' => if stop c then UOk (q, len, k) else uri_scan stop q' (len - 1) (k + 1)
  end.

(* the scheme table walk: first entry whose name has length k and equals the first k bytes *)
Fixpoint uri_lookup (tbl : list (bytes * Z * bool * Z)) (pre : bytes)
  : option (Z * bool * Z) :=
  match tbl with
  | [] => None
  | (name, port, ponly, sch) :: t =>
      if uri_beq pre name then Some (port, ponly, sch) else uri_lookup t pre
  end.

(* while ((p < q) && (uri_port <= UINT16_MAX)) uri_port = uri_port * 10 + ( *p++ - '0'); *)
Fixpoint uri_port_acc (ds : bytes) (acc : Z) : Z :=
  match ds with
  | [] => acc
  | d :: r => if acc <=? 65535 then uri_port_acc r (acc * 10 + (d - 48)) else acc
  end.

Definition uri_is_host_end (c : Z) : bool := (c =? 58) || (c =? 47) || (c =? 63).

(* from the label "path:" to the end; q, len as in the C *)
Definition uri_split_tail (q : bytes) (len : Z) (sch : Z) (host : bytes) (port : Z)
  : uri_res uri_sres :=
  let fin path query :=
    UOk (USplit {| up_scheme := sch; up_host := host; up_port := port;
                   up_path := path; up_query := query |}) in
  if len =? 0 then fin [] [] else
  ulet c <- uri_rd q 0 ;;
  ulet r <- (if c =? 47 then
               let p := tl q in
               ulet r <- uri_scan (fun c => c =? 63) p (len - 1) 0 ;;
               let '(q2, len2, n) := r in
               ulet path <- uri_copy p n ;;
               UOk (q2, len2, path)
             else UOk (q, len, [])) ;;
  let '(q2, len2, path) := r in
  if len2 =? 0 then fin path [] else
  ulet c2 <- uri_rd q2 0 ;;
  if c2 =? 63 then
    ulet query <- uri_copy (tl q2) (len2 - 1) ;;
    fin path query
  else UOk (UErr (-1)).

(* the Uri-Host part; p points behind "://".  inr rc = error; inl (q, len, host, port, unix) *)
Definition uri_host_stage (p : bytes) (len dport : Z)
  : uri_res (bytes * Z * bytes * Z * bool + Z) :=
  ulet isv6 <- (if len =? 0 then UOk false else ulet c <- uri_rd p 0 ;; UOk (c =? 91)) ;;
  if (isv6 : bool) then
    (* q starts at '[' *)
    ulet r <- uri_scan (fun c => c =? 93) p len 0 ;;
    let '(q, len1, n) := r in
    if (len1 =? 0) || (n =? 1) then UOk (inr (-3)) else
    ulet host <- uri_copy (tl p) (n - 1) ;;
    UOk (inl (tl q, len1 - 1, host, dport, false))
  else
    ulet unix <- (if 3 <=? len then
                    ulet a <- uri_rd p 0 ;;
                    if a =? 37 then
                      ulet b <- uri_rd p 1 ;;
                      if b =? 50 then
                        ulet c <- uri_rd p 2 ;; UOk ((c =? 70) || (c =? 102))
                      else UOk false
                    else UOk false
                  else UOk false) ;;
    ulet r <- uri_scan uri_is_host_end p len 0 ;;
    let '(q, len1, n) := r in
    if n =? 0 then UOk (inr (-3)) else
    ulet host <- uri_copy p n ;;
    UOk (inl (q, len1, host, (if (unix : bool) then 0 else dport), unix)).

(* the optional ":port", then the rest *)
Definition uri_port_stage (q : bytes) (len1 : Z) (sch : Z) (host : bytes) (port0 : Z) (unix : bool)
  : uri_res uri_sres :=
  ulet colon <- (if len1 =? 0 then UOk false else ulet c <- uri_rd q 0 ;; UOk (c =? 58)) ;;
  if (colon : bool) then
    if unix then UOk (UErr (-5)) else
    let p := tl q in
    ulet r <- uri_scan (fun c => negb (uri_isdigit c)) p (len1 - 1) 0 ;;
    let '(q2, len2, nd) := r in
    if 0 <? nd then
      ulet ds <- uri_copy p nd ;;
      let v := uri_port_acc ds 0 in
      if 65535 <? v then UOk (UErr (-4))
      else uri_split_tail q2 len2 sch host v
    else uri_split_tail q2 len2 sch host port0
  else uri_split_tail q len1 sch host port0.

Definition uri_split_sub (caps : uri_caps) (proxy : bool) (s : bytes) (len0 : Z)
  : uri_res uri_sres :=
  if len0 =? 0 then UOk (UErr (-1)) else
  ulet c0 <- uri_rd s 0 ;;
  if c0 =? 47 then
    if proxy then UOk (UErr (-1)) else uri_split_tail s len0 0 [] 5683
  else
  ulet r <- uri_find_css s len0 0 ;;
  let '(p, len, k) := r in
  if len <? 3 then UOk (UErr (-2)) else
  match uri_lookup uri_schemes (take k s) with
  | None => UOk (UErr (-1))
  | Some (dport, ponly, sch) =>
      if negb proxy && ponly then UOk (UErr (-1)) else
      if negb (uri_cap_ok caps sch) then UOk (UErr (-1)) else
      ulet hr <- uri_host_stage (drop 3 p) (len - 3) dport ;;
      match hr with
      | inr rc => UOk (UErr rc)
      | inl (q, len1, host, port0, unix) => uri_port_stage q len1 sch host port0 unix
      end
  end.

Definition uri_split (caps : uri_caps) (proxy : bool) (s : bytes) : uri_res uri_sres :=
  uri_split_sub caps proxy s (len s).

(* options -> string (coap_get_uri_path, coap_get_query): injective up to the normalisation
   "a single empty segment is no segment", and the string feeds back to the same options. *)
From LibcoapV Require Import Base.Tactics Base.Bytes Base.BytesProofs Wire.OptCodec Wire.OptCodecProofs
  Uri.Uri Uri.Spec Uri.DotsProofs Uri.SegProofs Uri.PathProofs.
Local Open Scope Z_scope.

(* ---- the hex digits that are written ---- *)
Lemma uri_hexchar_ok d :
  0 <= d < 16 ->
  uri_isxdigit (uri_hexchar d) = true /\ uri_hexval (uri_hexchar d) = d /\
  (48 <= uri_hexchar d <= 57 \/ 65 <= uri_hexchar d <= 70).
Proof.
  intros H. unfold uri_hexchar, uri_isxdigit, uri_hexval, uri_isdigit.
  destruct (d <? 10) eqn:E.
  - replace ((48 <=? 48 + d) && (48 + d <=? 57)) with true by lia. cbn [orb]. lia.
  - replace ((48 <=? 55 + d) && (55 + d <=? 57)) with false by lia.
    replace (55 + d <=? 70) with true by lia.
    replace ((65 <=? 55 + d) && (55 + d <=? 70)) with true by lia. cbn [orb]. lia.
Qed.

(* a character the escaper may emit *)
Definition uri_emitted (un : Z -> bool) (x : Z) : Prop :=
  un x = true \/ x = 37 \/ 48 <= x <= 57 \/ 65 <= x <= 70.

(* a delimiter that can never come out of the escaper *)
Definition uri_delim_ok (un : Z -> bool) (c : Z) : Prop :=
  un c = false /\ c <> 37 /\ ~ (48 <= c <= 57) /\ ~ (65 <= c <= 70).

Lemma uri_delim_not_emitted un c x : uri_delim_ok un c -> uri_emitted un x -> (x =? c) = false.
Proof.
  intros [H1 [H2 [H3 H4]]] He. destruct (x =? c) eqn:E; [|reflexivity].
  apply Z.eqb_eq in E. subst x. destruct He as [He|[He|He]]; [congruence|lia|lia].
Qed.

Section Esc.
  Variable un : Z -> bool.
  Hypothesis un_pct : un 37 = false.

  Lemma uri_esc_emitted seg : wfb seg -> forall x, In x (uri_esc un seg) -> uri_emitted un x.
  Proof.
    induction seg as [|c r IH]; intros Hw x Hx; [destruct Hx|].
    apply wfb_cons in Hw. destruct Hw as [Hc Hw]. cbn [uri_esc] in Hx.
    apply in_app_or in Hx. destruct Hx as [Hx|Hx]; [|apply IH; assumption].
    unfold uri_esc_byte in Hx. destruct (un c) eqn:Eu.
    - destruct Hx as [<-|[]]. left. exact Eu.
    - unfold is_byte in Hc.
      destruct (uri_hexchar_ok (c / 16) ltac:(lia)) as [_ [_ H1]].
      destruct (uri_hexchar_ok (c mod 16) ltac:(lia)) as [_ [_ H2]].
      unfold uri_emitted, uri_c_pct in *. cbn [In] in Hx.
      destruct Hx as [<-|[<-|[<-|[]]]]; auto.
  Qed.

  (* escaping is undone by decoding once *)
  Lemma uri_pct_decode_esc seg : wfb seg -> uri_pct_decode (uri_esc un seg) = Some seg.
  Proof.
    induction seg as [|c r IH]; intros Hw; [reflexivity|].
    apply wfb_cons in Hw. destruct Hw as [Hc Hw]. cbn [uri_esc]. unfold uri_esc_byte.
    destruct (un c) eqn:Eu.
    - cbn [app uri_pct_decode].
      destruct (c =? 37) eqn:E37; [apply Z.eqb_eq in E37; congruence|].
      rewrite (IH Hw). reflexivity.
    - unfold is_byte in Hc. unfold uri_c_pct.
      destruct (uri_hexchar_ok (c / 16) ltac:(lia)) as [X1 [V1 _]].
      destruct (uri_hexchar_ok (c mod 16) ltac:(lia)) as [X2 [V2 _]].
      cbn [app uri_pct_decode Z.eqb Pos.eqb]. rewrite X1, X2. cbn [andb].
      rewrite (IH Hw), V1, V2. f_equal. f_equal. lia.
  Qed.

  Lemma uri_esc_nil seg : uri_esc un seg = [] -> seg = [].
  Proof.
    destruct seg as [|c r]; [reflexivity|]. cbn [uri_esc]. unfold uri_esc_byte.
    destruct (un c); discriminate.
  Qed.

  Variable sep : Z.
  Hypothesis sep_ok : uri_delim_ok un sep.

  Lemma uri_split_on_app_nosep (a b : bytes) :
    (forall x, In x a -> (x =? sep) = false) ->
    uri_split_on (fun c => c =? sep) (a ++ b) =
    match uri_split_on (fun c => c =? sep) b with
    | h :: t => (a ++ h) :: t
    | [] => [a]
    end.
  Proof.
    induction a as [|c a IH]; intros Ha.
    - cbn [app]. destruct (uri_split_on_cons (fun c => c =? sep) b) as [h [t E]]. rewrite E.
      reflexivity.
    - cbn [app uri_split_on]. rewrite (Ha c (or_introl eq_refl)).
      rewrite IH by (intros x Hx; apply Ha; right; exact Hx).
      destruct (uri_split_on_cons (fun c => c =? sep) b) as [h [t E]]. rewrite E. reflexivity.
  Qed.

  Lemma uri_esc_nosep seg : wfb seg -> forall x, In x (uri_esc un seg) -> (x =? sep) = false.
  Proof.
    intros Hw x Hx. apply (uri_delim_not_emitted un sep x sep_ok).
    apply (uri_esc_emitted seg Hw x Hx).
  Qed.

  (* splitting the joined string gives back the escaped segments *)
  Lemma uri_split_join_tail x t :
    wfb x -> Forall wfb t ->
    uri_split_on (fun c => c =? sep) (uri_esc un x ++ uri_join_tail sep un t) =
    uri_esc un x :: map (uri_esc un) t.
  Proof.
    revert x. induction t as [|y t IH]; intros x Hx Ht.
    - cbn [uri_join_tail map]. rewrite uri_split_on_app_nosep by (apply uri_esc_nosep; exact Hx).
      cbn [uri_split_on]. rewrite app_nil_r. reflexivity.
    - inversion Ht as [|? ? Hy Ht']; subst. cbn [uri_join_tail map].
      rewrite uri_split_on_app_nosep by (apply uri_esc_nosep; exact Hx).
      cbn [uri_split_on]. rewrite Z.eqb_refl. rewrite (IH y Hy Ht'). rewrite app_nil_r.
      reflexivity.
  Qed.

  (* what a receiver that splits at [sep] and decodes once sees: g l *)
  Definition uri_seen (l : list bytes) : list bytes := match l with [] => [[]] | _ => l end.

  Lemma uri_decode_all_esc l : Forall wfb l -> uri_decode_all (map (uri_esc un) l) = Some l.
  Proof.
    induction l as [|x l IH]; intros Hl; [reflexivity|].
    inversion Hl; subst. cbn [map uri_decode_all].
    rewrite uri_pct_decode_esc by assumption. rewrite IH by assumption. reflexivity.
  Qed.

  Lemma uri_split_join l :
    Forall wfb l ->
    uri_decode_all (uri_split_on (fun c => c =? sep) (uri_join sep un l)) = Some (uri_seen l).
  Proof.
    intros Hl. destruct l as [|x t]; [reflexivity|].
    inversion Hl; subst. unfold uri_join. rewrite uri_split_join_tail by assumption.
    change (uri_esc un x :: map (uri_esc un) t) with (map (uri_esc un) (x :: t)).
    rewrite uri_decode_all_esc by assumption. reflexivity.
  Qed.

  Lemma uri_norm_seen l : uri_norm (uri_seen l) = uri_norm l.
  Proof. destruct l; reflexivity. Qed.

  (* the reconstruction is injective up to uri_norm *)
  Lemma uri_join_injective l1 l2 :
    Forall wfb l1 -> Forall wfb l2 ->
    uri_join sep un l1 = uri_join sep un l2 -> uri_norm l1 = uri_norm l2.
  Proof.
    intros H1 H2 E.
    pose proof (uri_split_join l1 H1) as S1. pose proof (uri_split_join l2 H2) as S2.
    rewrite E in S1. rewrite S1 in S2. injection S2 as S.
    rewrite <- (uri_norm_seen l1), <- (uri_norm_seen l2), S. reflexivity.
  Qed.

  (* every character of the joined string is the separator or was emitted by the escaper *)
  Lemma uri_join_tail_chars t :
    Forall wfb t -> forall x, In x (uri_join_tail sep un t) -> x = sep \/ uri_emitted un x.
  Proof.
    induction t as [|y t IH]; intros Ht x Hx; [destruct Hx|].
    inversion Ht; subst. cbn [uri_join_tail] in Hx. destruct Hx as [<-|Hx]; [auto|].
    apply in_app_or in Hx. destruct Hx as [Hx|Hx]; [right; apply (uri_esc_emitted y); assumption|].
    apply IH; assumption.
  Qed.

  Lemma uri_join_chars l :
    Forall wfb l -> forall x, In x (uri_join sep un l) -> x = sep \/ uri_emitted un x.
  Proof.
    intros Hl x Hx. destruct l as [|y t]; [destruct Hx|]. inversion Hl; subst.
    unfold uri_join in Hx. apply in_app_or in Hx.
    destruct Hx as [Hx|Hx]; [right; apply (uri_esc_emitted y); assumption|].
    apply uri_join_tail_chars with (t := t); assumption.
  Qed.

  Lemma uri_upto_all (stop : Z -> bool) s : (forall x, In x s -> stop x = false) -> uri_upto stop s = s.
  Proof.
    induction s as [|c s IH]; intros H; [reflexivity|]. cbn [uri_upto].
    rewrite (H c (or_introl eq_refl)). rewrite IH; [reflexivity|].
    intros x Hx. apply H. right. exact Hx.
  Qed.

  (* the raw segments a scanner with stop set [stop] finds in the joined string *)
  Lemma uri_raw_of_join (stop : Z -> bool) l :
    Forall wfb l -> stop sep = false ->
    (forall x, uri_emitted un x -> stop x = false) ->
    uri_decode_all (uri_split_on (fun c => c =? sep) (uri_upto stop (uri_join sep un l))) =
    Some (uri_seen l).
  Proof.
    intros Hl Hs He. rewrite uri_upto_all; [apply uri_split_join; exact Hl|].
    intros x Hx. destruct (uri_join_chars l Hl x Hx) as [->|Hx']; auto.
  Qed.

  (* first pass (length) and second pass (fill) agree *)
  Lemma uri_esc_len_ok seg : uri_esc_len un seg = len (uri_esc un seg).
  Proof.
    induction seg as [|c r IH]; [reflexivity|]. cbn [uri_esc_len uri_esc]. rewrite len_app, IH.
    unfold uri_esc_byte. destruct (un c); reflexivity.
  Qed.

  Lemma uri_join_len_ok l : uri_join_len un l = len (uri_join sep un l).
  Proof.
    unfold uri_join_len.
    assert (T : forall t, uri_join_len_raw un t = len (uri_join_tail sep un t)).
    { induction t as [|y t IH]; [reflexivity|]. cbn [uri_join_len_raw uri_join_tail].
      rewrite len_cons, len_app, IH, uri_esc_len_ok. lia. }
    destruct l as [|x t]; [reflexivity|]. cbn [uri_join_len_raw]. unfold uri_join.
    rewrite len_app, T, uri_esc_len_ok.
    pose proof (len_nonneg (uri_esc un x)). pose proof (len_nonneg (uri_join_tail sep un t)).
    destruct (0 <? len (uri_esc un x) + 1 + len (uri_join_tail sep un t)) eqn:E; lia.
  Qed.

  Lemma uri_join_empty l : uri_join sep un l = [] -> uri_norm l = [].
  Proof.
    destruct l as [|x t]; [reflexivity|]. unfold uri_join. intros E.
    apply app_eq_nil in E. destruct E as [Ex Et]. apply uri_esc_nil in Ex. subst x.
    destruct t; [reflexivity|discriminate].
  Qed.
End Esc.

(* ---- instances: path ('/' with is_unescaped_in_path) and query ('&', is_unescaped_in_query) ---- *)
Lemma uri_path_un_pct : uri_unesc_path 37 = false.
Proof. reflexivity. Qed.
Lemma uri_query_un_pct : uri_unesc_query 37 = false.
Proof. reflexivity. Qed.
Lemma uri_path_sep_ok : uri_delim_ok uri_unesc_path 47.
Proof. unfold uri_delim_ok. split; [reflexivity|lia]. Qed.
Lemma uri_query_sep_ok : uri_delim_ok uri_unesc_query 38.
Proof. unfold uri_delim_ok. split; [reflexivity|lia]. Qed.

Lemma uri_in_true c l : uri_in c l = true -> In c l.
Proof.
  unfold uri_in. rewrite existsb_exists. intros [x [Hx E]]. apply Z.eqb_eq in E. subst. exact Hx.
Qed.

(* nothing the path escaper emits is '?' or '#'; nothing the query escaper emits is '#' *)
Lemma uri_path_emitted_nostop x : uri_emitted uri_unesc_path x -> uri_path_stop x = false.
Proof.
  intros H. unfold uri_path_stop, uri_c_qm, uri_c_hash.
  destruct ((x =? 63) || (x =? 35)) eqn:E; [|reflexivity]. exfalso.
  assert (Hx : x = 63 \/ x = 35) by lia.
  destruct H as [H|H]; [|lia].
  destruct Hx as [-> | ->]; discriminate H.
Qed.

Lemma uri_query_emitted_nostop x : uri_emitted uri_unesc_query x -> uri_query_stop x = false.
Proof.
  intros H. unfold uri_query_stop, uri_c_hash.
  destruct (x =? 35) eqn:E; [|reflexivity]. exfalso.
  apply Z.eqb_eq in E. subst x. destruct H as [H|H]; [discriminate H|lia].
Qed.

Theorem uri_get_path_injective l1 l2 :
  Forall wfb l1 -> Forall wfb l2 -> uri_get_path l1 = uri_get_path l2 -> uri_norm l1 = uri_norm l2.
Proof. apply (uri_join_injective uri_unesc_path uri_path_un_pct 47 uri_path_sep_ok). Qed.

Theorem uri_get_query_injective l1 l2 :
  Forall wfb l1 -> Forall wfb l2 -> uri_get_query l1 = uri_get_query l2 -> uri_norm l1 = uri_norm l2.
Proof. apply (uri_join_injective uri_unesc_query uri_query_un_pct 38 uri_query_sep_ok). Qed.

Theorem uri_get_path_len l : uri_join_len uri_unesc_path l = len (uri_get_path l).
Proof. apply uri_join_len_ok. Qed.
Theorem uri_get_query_len l : uri_join_len uri_unesc_query l = len (uri_get_query l).
Proof. apply uri_join_len_ok. Qed.

(* ---- feeding the string back ---- *)
Lemma uri_resolve_no_dots : forall l stack,
  uri_no_dots l -> uri_resolve l stack = rev l ++ stack.
Proof.
  induction l as [|d l IH]; intros stack H; [reflexivity|].
  cbn [uri_resolve rev]. destruct (H d (or_introl eq_refl)) as [D1 D2]. rewrite D1, D2.
  rewrite IH by (intros x Hx; apply H; right; exact Hx).
  rewrite <- app_assoc. reflexivity.
Qed.

Lemma uri_fits_seen l : uri_fits l = true -> uri_fits (uri_seen l) = true.
Proof. destruct l; [reflexivity|auto]. Qed.

Lemma uri_spec_path_of_get l :
  Forall wfb l -> uri_fits l = true -> uri_no_dots l ->
  uri_spec_path (uri_get_path l) = Some (uri_seen l).
Proof.
  intros Hl Hf Hd.
  pose proof (uri_raw_of_join uri_unesc_path uri_path_un_pct 47 uri_path_sep_ok uri_path_stop l Hl
                eq_refl uri_path_emitted_nostop) as R.
  change (uri_decode_all (uri_raw_path_segs (uri_get_path l)) = Some (uri_seen l)) in R.
  unfold uri_spec_path. rewrite R, (uri_fits_seen l Hf).
  assert (Hs : uri_no_dots (uri_seen l)).
  { destruct l; [|exact Hd]. intros d [<-|[]]. split; reflexivity. }
  rewrite (uri_resolve_no_dots _ [] Hs), app_nil_r, rev_involutive. reflexivity.
Qed.

Lemma uri_spec_query_of_get l :
  Forall wfb l -> uri_fits l = true -> uri_spec_query (uri_get_query l) = Some (uri_seen l).
Proof.
  intros Hl Hf.
  pose proof (uri_raw_of_join uri_unesc_query uri_query_un_pct 38 uri_query_sep_ok uri_query_stop l
                Hl eq_refl uri_query_emitted_nostop) as R.
  change (uri_decode_all (uri_raw_query_items (uri_get_query l)) = Some (uri_seen l)) in R.
  unfold uri_spec_query. rewrite R, (uri_fits_seen l Hf). reflexivity.
Qed.

Theorem uri_get_path_feeds_back l buflen :
  Forall wfb l -> uri_fits l = true -> uri_no_dots l -> uri_path_need (uri_get_path l) <= buflen ->
  uri_path_to_opts (uri_get_path l) buflen = UOk (uri_encs (uri_norm l)).
Proof.
  intros Hl Hf Hd Hn. unfold uri_path_to_opts.
  destruct (uri_get_path l) as [|c s] eqn:E.
  - rewrite (uri_join_empty uri_unesc_path 47 l E). reflexivity.
  - assert (Hne : uri_get_path l <> []) by (rewrite E; discriminate).
    rewrite <- E. rewrite <- E in Hn.
    rewrite (uri_split_path_spec _ buflen _ (uri_spec_path_of_get l Hl Hf Hd) Hn).
    cbn [uri_bind fst]. f_equal. f_equal.
    destruct l as [|[|? ?] [|? ?]]; try reflexivity; exfalso; apply Hne; reflexivity.
Qed.

Theorem uri_get_query_feeds_back l buflen :
  Forall wfb l -> uri_fits l = true -> uri_query_need (uri_get_query l) <= buflen ->
  uri_query_to_opts (uri_get_query l) buflen = UOk (uri_encs (uri_norm l)).
Proof.
  intros Hl Hf Hn. unfold uri_query_to_opts.
  destruct (uri_get_query l) as [|c s] eqn:E.
  - rewrite (uri_join_empty uri_unesc_query 38 l E). reflexivity.
  - assert (Hne : uri_get_query l <> []) by (rewrite E; discriminate).
    rewrite <- E. rewrite <- E in Hn.
    rewrite (uri_split_query_spec _ buflen _ (uri_spec_query_of_get l Hl Hf) Hn).
    cbn [uri_bind fst]. f_equal. f_equal.
    destruct l as [|[|? ?] [|? ?]]; try reflexivity; exfalso; apply Hne; reflexivity.
Qed.

(* ---- before the repair: '&' left unescaped inside a query item ---- *)
Lemma uri_get_query_old_not_injective :
  uri_get_query_g uri_unesc_query_old [[97; 38; 98]] = uri_get_query_g uri_unesc_query_old [[97]; [98]]
  /\ uri_norm [[97; 38; 98]] <> uri_norm [[97]; [98]].
Proof. split; [reflexivity|discriminate]. Qed.

Lemma uri_rebuild_length l :
  uri_join_len uri_unesc_path l = len (uri_get_path l) /\
  uri_join_len uri_unesc_query l = len (uri_get_query l).
Proof. split; [apply uri_get_path_len|apply uri_get_query_len]. Qed.

(* C12 - sessions map 1:1 to peers, live while referenced; everything is released.
   Statements only; proofs in Sessions/SessionsProofs.v and Mem/AllocTraceProofs.v. *)
From LibcoapV Require Import Base.Tactics Mem.AllocTrace Mem.AllocTraceProofs.
Local Open Scope Z_scope.

(* the allocation-trace oracle decides balancedness: every allocated block released exactly
   once, nothing released twice or without having been allocated, nothing left *)
Theorem C12_alloc_verdict_clean_iff : forall tr, at_verdict tr = AtClean <-> at_spec tr.
Proof. exact at_verdict_clean_iff. Qed.
Print Assumptions C12_alloc_verdict_clean_iff.

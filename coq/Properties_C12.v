(* C12 - sessions map 1:1 to peers, live while referenced; everything is released.

   Model: Sessions/Sessions.v (session table of one UDP endpoint: coap_endpoint_get_session,
   reference/release, the idle scan of coap_io_prepare_io_lkd, coap_free_context) and
   Mem/AllocTrace.v (allocation-trace checker).  A history is any list of operations
   (datagram arrivals from arbitrary peers at arbitrary times, reference / release by the
   application or the library, delay-queue and state changes, transmissions, idle scans,
   coap_free_context) that respects the API preconditions (se_op_ok: the context is alive, a
   named session exists, a holder releases only what it holds); se_run returns None otherwise.
   No bound on the number of peers, sessions, operations or on the times.
   Statements only; proofs in Sessions/SessionsProofs.v and Mem/AllocTraceProofs.v. *)
From LibcoapV Require Import Base.Tactics Sessions.Sessions Sessions.SessionsProofs
  Sessions.Client Sessions.ClientProofs Mem.AllocTrace Mem.AllocTraceProofs.
Local Open Scope Z_scope.

(* Same peer -> same live session; different peers -> different sessions.
   (1) the event log of every history: a datagram is handed to a session that was created for
   exactly that peer and has not been deleted; one session never serves two peers; two datagrams
   of one peer go to the same session unless that session was deleted in between;
   (2) the table of every reachable state holds at most one session per peer and identities
   are unique. *)
Theorem C12_functional_injective : forall c ops st,
  se_run c se_init ops = Some st ->
  ((forall pre k s post, st_log st = pre ++ SeRx k s :: post ->
      In (SeNew s k) pre /\ ~ In (SeDel s) pre) /\
   (forall k1 k2 s, In (SeRx k1 s) (st_log st) -> In (SeRx k2 s) (st_log st) -> k1 = k2) /\
   (forall l1 k s1 l2 s2 l3, st_log st = l1 ++ SeRx k s1 :: l2 ++ SeRx k s2 :: l3 ->
      ~ In (SeDel s1) l2 -> s1 = s2)) /\
  (forall s1 s2, In s1 (st_tbl st) -> In s2 (st_tbl st) ->
     (ss_key s1 = ss_key s2 <-> s1 = s2) /\ (ss_id s1 = ss_id s2 <-> s1 = s2)).
Proof. exact se_functional_injective. Qed.
Print Assumptions C12_functional_injective.

(* ... stated on the next arrival: a datagram of a peer whose session still exists is handled
   by that very session (no new session, no event) *)
Theorem C12_same_peer_same_session : forall c ops st key sid now,
  se_run c se_init ops = Some st -> st_alive st = true ->
  In (SeRx key sid) (st_log st) -> ~ In (SeDel sid) (st_log st) ->
  se_new_events c st (OpRx key now) = [SeRx key sid].
Proof. exact se_rx_same_session. Qed.
Print Assumptions C12_same_peer_same_session.

(* Per server session exactly one SESSION_NEW, then at most one SESSION_DEL, and the DEL is
   given exactly at the release: DEL is immediately followed by the release of that session and
   nothing is released without its DEL immediately before. *)
Theorem C12_events_bracketed : forall c ops st,
  se_run c se_init ops = Some st ->
  (forall l1 s k1 l2 k2 l3, st_log st = l1 ++ SeNew s k1 :: l2 ++ SeNew s k2 :: l3 -> False) /\
  (forall l1 s l2 l3, st_log st = l1 ++ SeDel s :: l2 ++ SeDel s :: l3 -> False) /\
  (forall pre s rest, st_log st = pre ++ SeDel s :: rest ->
     (exists rest', rest = SeFree s :: rest') /\ (exists k, In (SeNew s k) pre)) /\
  (forall pre s rest, st_log st = pre ++ SeFree s :: rest -> exists pre', pre = pre' ++ [SeDel s]).
Proof. exact se_events_bracketed. Qed.
Print Assumptions C12_events_bracketed.

(* ref = number of holders in every reachable state *)
Theorem C12_ref_counts_holders : forall c ops st s,
  se_run c se_init ops = Some st -> In s (st_tbl st) ->
  ss_ref s = Z.of_nat (length (ss_holders s)).
Proof. exact se_ref_counts_holders. Qed.
Print Assumptions C12_ref_counts_holders.

(* The reclaim rule, and "a session with a holder is never released": whenever an operation
   releases a session, that session was in the table and
   - idle scan: ref = 0 (no holder at all), no delayed message, and timed out or state NONE;
   - arrival of a new peer (OpRx: the code's own choice; OpRxV: any choice the property allows,
     the operation names the victim): the idle limit is reached, the session is idle and no idle
     session is older;
   - coap_free_context: no application reference (the library's own holders - queue nodes,
     observers, async entries - are destroyed by the teardown itself);
   no other operation releases anything. *)
Theorem C12_reclaim_rule : forall c ops st op sid,
  se_run c se_init ops = Some st -> se_op_ok c st op = true ->
  In (SeFree sid) (se_new_events c st op) ->
  exists s, In s (st_tbl st) /\ ss_id s = sid /\
    match op with
    | OpPrepare now =>
        ss_ref s = 0 /\ ss_holders s = [] /\ ss_dq s = true /\
        (ss_last s + se_timeout_ticks c <= now \/ ss_state s = se_state_none)
    | OpRx key now =>
        se_find key (st_tbl st) = None /\
        0 < cf_max_idle c <= se_count_idle (st_tbl st) /\
        ss_ref s = 0 /\ ss_holders s = [] /\ ss_dq s = true /\
        (forall s', In s' (st_tbl st) -> se_idle s' = true -> ss_last s <= ss_last s')
    | OpRxV key now v =>
        v = sid /\ se_find key (st_tbl st) = None /\
        0 < cf_max_idle c <= se_count_idle (st_tbl st) /\
        ss_ref s = 0 /\ ss_holders s = [] /\ ss_dq s = true /\
        (forall s', In s' (st_tbl st) -> se_idle s' = true -> ss_last s <= ss_last s')
    | OpFreeContext => ~ In se_h_app (ss_holders s)
    | _ => False
    end.
Proof. exact se_reclaim_rule. Qed.
Print Assumptions C12_reclaim_rule.

(* [se_new_events] is what the step appends to the log *)
Theorem C12_step_log : forall c st op,
  st_log (se_step c st op) = st_log st ++ se_new_events c st op.
Proof. exact se_step_log. Qed.
Print Assumptions C12_step_log.

(* ... and the rule is applied: the scan reclaims every session it names and keeps the rest *)
Theorem C12_scan_reclaims : forall c st now s,
  In s (st_tbl st) ->
  (se_expired c now s = true ->
     In (SeDel (ss_id s)) (se_new_events c st (OpPrepare now)) /\
     In (SeFree (ss_id s)) (se_new_events c st (OpPrepare now))) /\
  (se_expired c now s = false -> In s (st_tbl (se_step c st (OpPrepare now)))) /\
  (forall s', In s' (st_tbl (se_step c st (OpPrepare now))) ->
              In s' (st_tbl st) /\ se_expired c now s' = false).
Proof. exact se_prepare_complete. Qed.
Print Assumptions C12_scan_reclaims.

(* ... and a new peer pushes out the oldest idle session exactly when the limit is reached *)
Theorem C12_idle_limit_evicts_oldest : forall c st key now,
  se_find key (st_tbl st) = None ->
  (0 < cf_max_idle c <= se_count_idle (st_tbl st) ->
     exists o, se_oldest (st_tbl st) = Some o /\
       se_new_events c st (OpRx key now) =
       [SeDel (ss_id o); SeFree (ss_id o); SeNew (st_next st) key; SeRx key (st_next st)]) /\
  (~ (0 < cf_max_idle c <= se_count_idle (st_tbl st)) ->
     se_new_events c st (OpRx key now) = [SeNew (st_next st) key; SeRx key (st_next st)]).
Proof. exact se_evict_complete. Qed.
Print Assumptions C12_idle_limit_evicts_oldest.

(* the code's choice (the first of the oldest idle sessions in iteration order) is one of the
   victims the property allows, and naming it gives the same step: when several idle sessions are
   equally old the theorems above hold for whichever of them an implementation evicts *)
Theorem C12_code_choice_is_allowed : forall c tbl o,
  se_rx_evict c tbl = Some o -> se_valid_victim c tbl o = true.
Proof. exact se_evict_is_valid. Qed.
Print Assumptions C12_code_choice_is_allowed.

Theorem C12_named_victim_same_step : forall c st key now o,
  NoDup (map ss_id (st_tbl st)) ->
  se_find key (st_tbl st) = None -> se_rx_evict c (st_tbl st) = Some o ->
  se_step c st (OpRxV key now (ss_id o)) = se_step c st (OpRx key now).
Proof. exact se_rx_victim_same. Qed.
Print Assumptions C12_named_victim_same_step.

(* After coap_free_context nothing remains in the endpoint; what is left behind are exactly
   sessions on which the application still holds a reference; if there is none, nothing is left
   and every session that was ever announced got its DEL and its release. *)
Theorem C12_teardown_empty : forall c ops st,
  se_run c se_init ops = Some st -> se_op_ok c st OpFreeContext = true ->
  let st' := se_step c st OpFreeContext in
  st_tbl st' = [] /\ st_alive st' = false /\
  (forall s, In s (st_leaked st') ->
     exists s0, In s0 (st_tbl st) /\ ss_id s0 = ss_id s /\ In se_h_app (ss_holders s0)) /\
  ((forall s, In s (st_tbl st) -> ~ In se_h_app (ss_holders s)) ->
     st_leaked st' = [] /\ se_log_closed (st_log st') = true).
Proof. exact se_teardown_empty. Qed.
Print Assumptions C12_teardown_empty.

Theorem C12_closed_all_deleted : forall log s k,
  se_log_closed log = true -> In (SeNew s k) log -> In (SeDel s) log /\ In (SeFree s) log.
Proof. exact se_closed_all_deleted. Qed.
Print Assumptions C12_closed_all_deleted.

(* With an application reference outstanding "everything is released" fails: the faithful model
   (and libcoap: coap_free_endpoint_lkd skips sessions with ref > 0) leaves the session behind.
   Known finding F-C12-2. *)
Theorem C12_teardown_with_app_reference_refuted :
  exists ops st, se_run se_example_cfg se_init ops = Some st /\ st_alive st = false /\
                 st_leaked st <> [] /\ se_log_closed (st_log st) = false.
Proof. exact se_teardown_with_app_reference_refuted. Qed.
Print Assumptions C12_teardown_with_app_reference_refuted.

(* The event-log monitor that is run on the implementation's log: acceptance of ANY log means
   the bracketing and the 1:1 mapping above (so the check of the C code does not rest on the
   model's transition function for these two parts). *)
Theorem C12_monitor_sound : forall log,
  se_log_ok log = true ->
  ((forall l1 s k1 l2 k2 l3, log = l1 ++ SeNew s k1 :: l2 ++ SeNew s k2 :: l3 -> False) /\
   (forall l1 s l2 l3, log = l1 ++ SeDel s :: l2 ++ SeDel s :: l3 -> False) /\
   (forall pre s rest, log = pre ++ SeDel s :: rest ->
      (exists rest', rest = SeFree s :: rest') /\ (exists k, In (SeNew s k) pre)) /\
   (forall pre s rest, log = pre ++ SeFree s :: rest -> exists pre', pre = pre' ++ [SeDel s])) /\
  ((forall pre k s post, log = pre ++ SeRx k s :: post -> In (SeNew s k) pre /\ ~ In (SeDel s) pre) /\
   (forall k1 k2 s, In (SeRx k1 s) log -> In (SeRx k2 s) log -> k1 = k2) /\
   (forall l1 k s1 l2 s2 l3, log = l1 ++ SeRx k s1 :: l2 ++ SeRx k s2 :: l3 ->
      ~ In (SeDel s1) l2 -> s1 = s2)).
Proof. exact se_log_ok_sound. Qed.
Print Assumptions C12_monitor_sound.

(* every history of the model is accepted by that monitor *)
Theorem C12_model_log_accepted : forall c ops st,
  se_run c se_init ops = Some st -> se_log_ok (st_log st) = true.
Proof. exact se_run_log_ok. Qed.
Print Assumptions C12_model_log_accepted.

(* non-vacuity: a history with three peers, an idle limit of two, an application reference, a
   library reference, timeouts on the boundary and the teardown satisfies all preconditions *)
Theorem C12_example_history :
  match se_run se_example_cfg se_init se_example_ops with
  | Some st =>
      st_log st =
      [SeNew 1 10; SeRx 10 1; SeNew 2 11; SeRx 11 2; SeNew 3 12; SeRx 12 3;
       SeNew 4 13; SeRx 13 4; SeRx 10 1; SeDel 2; SeFree 2; SeDel 3; SeFree 3; SeDel 4; SeFree 4;
       SeDel 1; SeFree 1; SeNew 5 11; SeRx 11 5; SeDel 5; SeFree 5] /\
      st_leaked st = [] /\ se_log_closed (st_log st) = true
  | None => False
  end.
Proof. exact se_example_run. Qed.
Print Assumptions C12_example_history.

(* ---------------------------------------------------------------- client sessions
   (Sessions/Client.v: created with one reference owned by the application, no idle state) *)

(* ref = number of holders, and a client session that exists is referenced *)
Theorem C12_client_ref_counts_holders : forall ops st s,
  sec_run sec_init ops = Some st -> In s (ct_tbl st) ->
  cs_ref s = Z.of_nat (length (cs_holders s)) /\ 1 <= cs_ref s.
Proof. exact sec_ref_counts_holders. Qed.
Print Assumptions C12_client_ref_counts_holders.

(* a client session is released only when its last holder (application, queued message) lets go,
   or by coap_free_context when the application holds at most the one reference the context
   consumes: never while something still refers to it *)
Theorem C12_client_free_rule : forall ops st op sid,
  sec_run sec_init ops = Some st -> sec_op_ok st op = true ->
  In (CFree sid) (sec_new_events st op) ->
  exists s, In s (ct_tbl st) /\ cs_id s = sid /\
    match op with
    | COpRem sid' h => sid' = sid /\ cs_holders s = [h]
    | COpFreeContext => (length (sec_keep_app s) <= 1)%nat
    | _ => False
    end.
Proof. exact sec_free_rule. Qed.
Print Assumptions C12_client_free_rule.

(* ... and it is released at once when that happens (freed at 0), otherwise it stays *)
Theorem C12_client_freed_at_zero : forall st sid h s,
  sec_get sid (ct_tbl st) = Some s -> cs_ref s = Z.of_nat (length (cs_holders s)) ->
  NoDup (map cs_id (ct_tbl st)) ->
  (cs_holders s = [h] ->
     sec_new_events st (COpRem sid h) = [CFree sid] /\
     forall s', In s' (ct_tbl (sec_step st (COpRem sid h))) -> cs_id s' <> sid) /\
  (se_has h (cs_holders s) = true -> (2 <= length (cs_holders s))%nat ->
     sec_new_events st (COpRem sid h) = [] /\
     exists s', In s' (ct_tbl (sec_step st (COpRem sid h))) /\ cs_id s' = sid /\
                cs_ref s' = cs_ref s - 1).
Proof. exact sec_freed_at_zero. Qed.
Print Assumptions C12_client_freed_at_zero.

(* every client session is created once and released at most once, after its creation *)
Theorem C12_client_log_bracketed : forall ops st,
  sec_run sec_init ops = Some st ->
  NoDup (sec_news (ct_log st)) /\ NoDup (sec_frees (ct_log st)) /\
  (forall sid, In (CFree sid) (ct_log st) -> In (CNew sid) (ct_log st)).
Proof. exact sec_log_bracketed. Qed.
Print Assumptions C12_client_log_bracketed.

(* coap_free_context: nothing stays in the context; left behind are only sessions on which the
   application holds two or more references; otherwise every session ever created is released *)
Theorem C12_client_teardown_empty : forall ops st,
  sec_run sec_init ops = Some st -> sec_op_ok st COpFreeContext = true ->
  let st' := sec_step st COpFreeContext in
  ct_tbl st' = [] /\ ct_alive st' = false /\
  (forall s, In s (ct_left st') ->
     exists s0, In s0 (ct_tbl st) /\ cs_id s0 = cs_id s /\ (2 <= length (sec_keep_app s0))%nat) /\
  ((forall s, In s (ct_tbl st) -> (length (sec_keep_app s) <= 1)%nat) ->
     ct_left st' = [] /\
     forall sid, In (CNew sid) (ct_log st') -> In (CFree sid) (ct_log st')).
Proof. exact sec_teardown_empty. Qed.
Print Assumptions C12_client_teardown_empty.

(* non-vacuity: a request in flight while the application lets go; teardown consumes the
   application's one reference *)
Theorem C12_client_example :
  match sec_run sec_init [COpNew; COpNew; COpAdd 1 se_h_lib; COpRem 1 se_h_app; COpAdd 2 se_h_app;
                          COpRem 1 se_h_lib; COpNew; COpRem 2 se_h_app; COpFreeContext] with
  | Some st => ct_log st = [CNew 1; CNew 2; CFree 1; CNew 3; CFree 2; CFree 3] /\ ct_left st = []
  | None => False
  end.
Proof. exact sec_example_run. Qed.
Print Assumptions C12_client_example.

(* The allocation-trace oracle decides balancedness: every allocated block released exactly
   once, nothing released twice or without having been allocated, nothing left. *)
Theorem C12_alloc_verdict_clean_iff : forall tr, at_verdict tr = AtClean <-> at_spec tr.
Proof. exact at_verdict_clean_iff. Qed.
Print Assumptions C12_alloc_verdict_clean_iff.

Theorem C12_alloc_clean_freed_once : forall tr id,
  at_verdict tr = AtClean -> In id (at_new_ids tr) -> at_nfree id tr = 1 /\ at_nalloc id tr = 1.
Proof. exact at_clean_freed_once. Qed.
Print Assumptions C12_alloc_clean_freed_once.

Theorem C12_alloc_clean_no_double_free : forall tr id, at_verdict tr = AtClean -> at_nfree id tr <= 1.
Proof. exact at_clean_no_double_free. Qed.
Print Assumptions C12_alloc_clean_no_double_free.

Theorem C12_alloc_clean_free_after_alloc : forall tr pre e post id,
  at_verdict tr = AtClean -> tr = pre ++ e :: post -> at_fr id e = 1 -> In id (at_new_ids pre).
Proof. exact at_clean_free_after_alloc. Qed.
Print Assumptions C12_alloc_clean_free_after_alloc.

Theorem C12_alloc_leak_sound : forall tr l id,
  at_verdict tr = AtLeak l -> l <> [] /\ (In id l <-> at_nalloc id tr - at_nfree id tr = 1).
Proof. exact at_leak_sound. Qed.
Print Assumptions C12_alloc_leak_sound.

Theorem C12_alloc_bad_free_sound : forall tr id,
  (at_verdict tr = AtDoubleFree id \/ at_verdict tr = AtFreeUnalloc id) ->
  exists pre e post, tr = pre ++ e :: post /\ at_fr id e = 1 /\ at_nalloc id pre = at_nfree id pre.
Proof. exact at_bad_free_sound. Qed.
Print Assumptions C12_alloc_bad_free_sound.

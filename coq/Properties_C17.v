(* C17 - persisted observe state survives a crash at any point and is restored on restart.
   Statements only; proofs in Persist/*Proofs.v. *)
From LibcoapV Require Import Base.Tactics Base.Bytes Persist.Fs Persist.Records Persist.Updaters
  Persist.Witness.
Local Open Scope Z_scope.

(* coap_op_dyn_resource_added as it was before the fix (fopen "a", then fread): two additions
   leave a file that holds only the newest resource *)
Theorem C17_update_correct_refuted_old_dyn_added :
  exists a b : ps_dyn, ps_dyn_wf a /\ ps_dyn_wf b /\ dy_name a <> dy_name b /\
    let s1 := snd (ps_run ps_pol_lazy (ps_dyn_added_old 100%nat a) (ps_boot [])) in
    let s2 := snd (ps_run ps_pol_lazy (ps_dyn_added_old 100%nat b) (ps_crash s1)) in
    ps_view s2 PS_DYN = Some (ps_dyn_file [b]).
Proof.
  exists ps_w_a, ps_w_b.
  split; [vm_compute; intuition congruence|].
  split; [vm_compute; intuition congruence|].
  split; [discriminate|].
  exact (proj1 ps_dyn_added_old_loses).
Qed.
Print Assumptions C17_update_correct_refuted_old_dyn_added.

(* C17 - persisted observe state survives a crash at any point and is restored on restart.
   Statements only; proofs in Persist/*.v.  Model: Persist/Fs.v (stdio + file system; every
   theorem holds for every buffering policy pol), Records.v, Updaters.v, Server.v.
   Trusted facts about the operating system, built into Fs.v: rename(2) replaces the target
   atomically; a killed process loses exactly its open streams (ps_crash), what was handed to
   the kernel stays. *)
From LibcoapV Require Import Base.Tactics Base.Bytes Persist.Fs Persist.FsProofs Persist.Records
  Persist.RecordsProofs Persist.Updaters Persist.Streams Persist.UpdatersProofs Persist.Discipline
  Persist.Server Persist.ServerProofs Persist.Counter Persist.Witness Persist.Footprint
  Persist.LoadersProofs Persist.Restore Persist.History Persist.MemLemmas Persist.EventCalls
  Persist.Coherence Persist.RestoreCoh Persist.Whole Persist.Weak Persist.MidEvent Persist.Final.
Local Open Scope Z_scope.

(* ------------------------------------------------------------------ C17_records_roundtrip *)
(* observe record, arbitrary binary content; la / lt = sizeof coap_address_t / coap_addr_tuple_t *)
Theorem C17_records_roundtrip_observe : forall la lt r rest,
  0 < la -> 0 < lt -> ps_obs_wf la lt r ->
  ps_obs_dec la lt (ps_obs_enc r ++ rest) = Some (r, rest).
Proof. exact ps_obs_dec_enc. Qed.
Print Assumptions C17_records_roundtrip_observe.

Theorem C17_records_roundtrip_dyn : forall r rest,
  ps_dyn_wf r -> ps_dyn_dec (ps_dyn_enc r ++ rest) = Some (r, rest).
Proof. exact ps_dyn_dec_enc. Qed.
Print Assumptions C17_records_roundtrip_dyn.

(* whole files, as every copy loop and loader reads them *)
Theorem C17_records_roundtrip_observe_file : forall la lt l fuel,
  0 < la -> 0 < lt -> Forall (ps_obs_wf la lt) l -> (length l < fuel)%nat ->
  ps_obs_all la lt fuel (ps_obs_file l) = l.
Proof. exact ps_obs_all_file. Qed.
Print Assumptions C17_records_roundtrip_observe_file.

Theorem C17_records_roundtrip_dyn_file : forall l fuel,
  Forall ps_dyn_wf l -> (length l < fuel)%nat -> ps_dyn_all fuel (ps_dyn_file l) = l.
Proof. exact ps_dyn_all_file. Qed.
Print Assumptions C17_records_roundtrip_dyn_file.

(* the text format: for a name without NUL, blank, newline and of at most 1487 bytes *)
Theorem C17_records_roundtrip_counter_line : forall n v,
  ps_name_ok n -> 0 <= v < 4294967296 -> ps_cnt_parse (ps_cnt_line n v) = Some (n, v).
Proof. exact ps_cnt_parse_line. Qed.
Print Assumptions C17_records_roundtrip_counter_line.

Theorem C17_records_roundtrip_counter_file : forall l fuel,
  Forall ps_cnt_wf l -> (length l < fuel)%nat -> ps_cnt_all fuel (ps_cnt_file l) = l.
Proof. exact ps_cnt_all_file. Qed.
Print Assumptions C17_records_roundtrip_counter_file.

(* outside these domains the formats do not round-trip (the hypotheses are needed) *)
Theorem C17_records_roundtrip_refuted_blank_in_name :
  exists n v, 0 <= v < 4294967296 /\ ps_cnt_parse (ps_cnt_line n v) <> Some (n, v).
Proof. exact ps_cnt_blank_name_refuted. Qed.
Print Assumptions C17_records_roundtrip_refuted_blank_in_name.

Theorem C17_records_roundtrip_refuted_long_name :
  exists n v, Forall (fun b => b <> 0 /\ b <> 32 /\ b <> 10) n /\ 0 <= v < 4294967296 /\
    ps_cnt_all 5 (ps_cnt_file [(n, v); ([98], 1)]) <> [(n, v); ([98], 1)].
Proof. exact ps_cnt_long_name_refuted. Qed.
Print Assumptions C17_records_roundtrip_refuted_long_name.

(* an empty item cannot be read back (fread(p, 0, 1, f) = 0): packets and OSCORE data must not be
   empty; the name of a dynamic resource may be (the root resource) since /repo commit 8471219 *)
Theorem C17_records_roundtrip_refuted_empty_item : forall l, ps_item 0 l = None.
Proof. exact ps_item_zero. Qed.
Print Assumptions C17_records_roundtrip_refuted_empty_item.

(* ------------------------------------------------------------------ C17_atomic *)
(* for every updater u, every buffering policy, every state in which the only write streams
   are on temporary files (true at process start and kept by every updater), every k:
   after the first k stdio calls of u the three persistent files are what they were before u,
   or what they are when u has finished *)
Definition C17_atomic_for (p : ps_prog Z) : Prop :=
  forall pol s k, ps_tmpw s ->
    (forall i, ps_view (ps_runk pol p k s) i = ps_view s i) \/
    (forall i, ps_view (ps_runk pol p k s) i = ps_view (snd (ps_run pol p s)) i).

Theorem C17_atomic : forall la lt fuel rec key name v dyn,
  C17_atomic_for (ps_obs_added la lt fuel rec) /\
  C17_atomic_for (ps_obs_deleted la lt fuel key) /\
  C17_atomic_for (ps_cnt_track fuel name v) /\
  C17_atomic_for (ps_cnt_deleted fuel name) /\
  C17_atomic_for (ps_dyn_added fuel dyn) /\
  C17_atomic_for (ps_dyn_deleted fuel name).
Proof.
  intros. repeat split; intros pol s k Hs; apply ps_atomic1; try exact Hs.
  - apply ps_obs_added_d1.
  - apply ps_obs_deleted_d1.
  - apply ps_cnt_track_d1.
  - apply ps_cnt_deleted_d1.
  - apply ps_dyn_added_d1.
  - apply ps_dyn_deleted_d1.
Qed.
Print Assumptions C17_atomic.

(* a whole server process (coap_persist_startup, then any history of events; direct updater
   calls allowed): at every kill point the persistent files are exactly what the last
   completed rename("<f>.tmp", "<f>") left, or what the process found when it started *)
Theorem C17_atomic_history : forall app req alloc cfg pol m0 evs fs k i,
  Forall ps_ev_ok evs ->
  ps_view (ps_runk pol (ps_process app req alloc cfg m0 evs) k (ps_boot fs)) i =
  last (ps_commit_views pol (ps_process app req alloc cfg m0 evs) k (ps_boot fs))
       (ps_view (ps_boot fs)) i.
Proof. exact ps_process_crash_view. Qed.
Print Assumptions C17_atomic_history.

(* lifted over arbitrary histories by induction: for EVERY sequence of updater calls (whatever
   the server core issues through its call-outs) from files holding a well-formed abstract state
   A, every buffering policy and every kill point k: the three files hold exactly the abstract
   state after the first j calls for some j - whole records only, the state before or after the
   interrupted call, each call having the effect "other entries kept, this entry
   replaced/appended/removed" (ps_abs_call) *)
Theorem C17_atomic_update_histories : forall pol la lt fuel calls A s k,
  0 < la -> 0 < lt ->
  ps_abs_wf la lt A -> Forall (ps_call_wf la lt) calls -> (ps_abs_size A + length calls < fuel)%nat ->
  ps_tmpw s -> ps_holdsA s A ->
  exists j, (j <= length calls)%nat /\
    ps_holdsA (ps_runk pol (ps_calls_prog la lt fuel calls) k s) (ps_abs_calls (firstn j calls) A).
Proof. intros. apply ps_calls_crash; assumption. Qed.
Print Assumptions C17_atomic_update_histories.

(* ... and a rename installs one complete new file and leaves the other two alone *)
Theorem C17_atomic_commit : forall pol i s,
  ps_tmpw s ->
  let s' := snd (ps_step pol (PoRename (PsTmp i) (PsBase i)) s) in
  ps_tmpw s' /\
  match ps_get (PsTmp i) (ps_fs s) with
  | Some c => ps_view s' i = Some c /\ forall j, j <> i -> ps_view s' j = ps_view s j
  | None => forall j, ps_view s' j = ps_view s j
  end.
Proof. exact ps_commit_step. Qed.
Print Assumptions C17_atomic_commit.

(* ------------------------------------------------------------------ C17_update_correct *)
(* added: every other entry kept in order, the entry with the same key removed, the new one
   appended; deleted: exactly the entries with that key removed; nothing else touched *)
Theorem C17_update_correct_observe_added : forall pol la lt fuel a l s,
  0 < la -> 0 < lt -> Forall (ps_obs_wf la lt) l -> ps_obs_wf la lt a -> (length l < fuel)%nat ->
  ps_holds ps_obs_file (ps_view s PS_OBS) l ->
  exists s', ps_run pol (ps_obs_added la lt fuel a) s = (1, s') /\
    ps_view s' PS_OBS = Some (ps_obs_file (ps_obs_without (pso_key a) l ++ [a])) /\
    (forall j, j <> PS_OBS -> ps_view s' j = ps_view s j).
Proof. exact ps_obs_added_correct. Qed.
Print Assumptions C17_update_correct_observe_added.

Theorem C17_update_correct_observe_deleted : forall pol la lt fuel key l s,
  0 < la -> 0 < lt -> Forall (ps_obs_wf la lt) l -> (length l < fuel)%nat ->
  ps_view s PS_OBS = Some (ps_obs_file l) ->
  exists s', ps_run pol (ps_obs_deleted la lt fuel key) s = (1, s') /\
    ps_view s' PS_OBS = Some (ps_obs_file (ps_obs_without key l)) /\
    (forall j, j <> PS_OBS -> ps_view s' j = ps_view s j).
Proof. exact ps_obs_deleted_correct. Qed.
Print Assumptions C17_update_correct_observe_deleted.

Theorem C17_update_correct_dyn_added : forall pol fuel a l s,
  Forall ps_dyn_wf l -> ps_dyn_wf a -> (length l < fuel)%nat ->
  ps_holds ps_dyn_file (ps_view s PS_DYN) l ->
  exists s', ps_run pol (ps_dyn_added fuel a) s = (1, s') /\
    ps_view s' PS_DYN = Some (ps_dyn_file (ps_dyn_without (psd_name a) l ++ [a])) /\
    (forall j, j <> PS_DYN -> ps_view s' j = ps_view s j).
Proof. exact ps_dyn_added_correct. Qed.
Print Assumptions C17_update_correct_dyn_added.

(* "all other entries are kept" includes the transport field of each record: a record written by
   a session of one transport is copied with that transport when a session of another transport
   adds a resource (the stored request is parsed at restart in the framing its record names) *)
Theorem C17_update_correct_dyn_added_keeps_transport : forall pol fuel a l s,
  Forall ps_dyn_wf l -> ps_dyn_wf a -> (length l < fuel)%nat ->
  ps_holds ps_dyn_file (ps_view s PS_DYN) l ->
  exists s' l', ps_run pol (ps_dyn_added fuel a) s = (1, s') /\
    ps_view s' PS_DYN = Some (ps_dyn_file l') /\ In a l' /\
    (forall proto name pkt, In (mkDyn proto name pkt) l -> name <> psd_name a ->
                            In (mkDyn proto name pkt) l').
Proof.
  intros pol fuel a l s Hl Ha Hf Hv.
  destruct (ps_dyn_added_correct pol fuel a l s Hl Ha Hf Hv) as (s' & Hr & Hview & _).
  exists s', (ps_dyn_without (psd_name a) l ++ [a]). split; [exact Hr|]. split; [exact Hview|].
  split; [apply in_or_app; right; left; reflexivity|].
  intros proto name pkt Hin Hne. apply in_or_app. left. unfold ps_dyn_without.
  apply filter_In. split; [exact Hin|]. cbn [psd_name].
  destruct (ps_beq (psd_name a) name) eqn:E; [|reflexivity].
  apply ps_beq_eq in E. symmetry in E. contradiction.
Qed.
Print Assumptions C17_update_correct_dyn_added_keeps_transport.

Theorem C17_update_correct_dyn_deleted : forall pol fuel name l s,
  Forall ps_dyn_wf l -> (length l < fuel)%nat ->
  ps_view s PS_DYN = Some (ps_dyn_file l) ->
  exists s', ps_run pol (ps_dyn_deleted fuel name) s = (1, s') /\
    ps_view s' PS_DYN = Some (ps_dyn_file (ps_dyn_without name l)) /\
    (forall j, j <> PS_DYN -> ps_view s' j = ps_view s j).
Proof. exact ps_dyn_deleted_correct. Qed.
Print Assumptions C17_update_correct_dyn_deleted.

Theorem C17_update_correct_counter_track : forall pol fuel name v l s,
  Forall ps_cnt_wf l -> (length l < fuel)%nat ->
  ps_holds ps_cnt_file (ps_view s PS_CNT) l ->
  exists s', ps_run pol (ps_cnt_track fuel name v) s = (1, s') /\
    ps_view s' PS_CNT = Some (ps_cnt_file (ps_cnt_without name l) ++ ps_cnt_line name v) /\
    (forall j, j <> PS_CNT -> ps_view s' j = ps_view s j).
Proof. exact ps_cnt_track_correct. Qed.
Print Assumptions C17_update_correct_counter_track.

Theorem C17_update_correct_counter_deleted : forall pol fuel name l s,
  Forall ps_cnt_wf l -> (length l < fuel)%nat ->
  ps_view s PS_CNT = Some (ps_cnt_file l) ->
  exists s', ps_run pol (ps_cnt_deleted fuel name) s = (1, s') /\
    ps_view s' PS_CNT = Some (ps_cnt_file (ps_cnt_without name l)) /\
    (forall j, j <> PS_CNT -> ps_view s' j = ps_view s j).
Proof. exact ps_cnt_deleted_correct. Qed.
Print Assumptions C17_update_correct_counter_deleted.

(* coap_op_dyn_resource_added as it was before the fix (fopen "a", then fread): two additions
   leave a file that holds only the newest resource *)
Theorem C17_update_correct_refuted_old_dyn_added :
  exists a b : ps_dyn, ps_dyn_wf a /\ ps_dyn_wf b /\ psd_name a <> psd_name b /\
    let s1 := snd (ps_run ps_pol_lazy (ps_dyn_added_old 100%nat a) (ps_boot [])) in
    let s2 := snd (ps_run ps_pol_lazy (ps_dyn_added_old 100%nat b) (ps_crash s1)) in
    ps_view s2 PS_DYN = Some (ps_dyn_file [b]).
Proof.
  exists ps_w_a, ps_w_b.
  split; [vm_compute; intuition congruence|].
  split; [vm_compute; intuition congruence|].
  split; [discriminate|].
  exact (proj1 ps_dyn_added_old_loses).
Qed.
Print Assumptions C17_update_correct_refuted_old_dyn_added.

(* ------------------------------------------------------------------ C17_restart_restores *)
(* What coap_persist_startup computes from well-formed files: exactly ps_restored_mem - the
   application handler run once per dynamic-resource record in file order, counters set to the
   rounded-up saved values, coap_persist_observe_add run once per observe record in file order,
   nested counter updates included - and the observe file rewritten with exactly the accepted
   records under their new keys.  (C17_restart_restores below is the theorem over histories.) *)
Theorem C17_restart_startup : forall pol app req alloc cfg m0 D O C fs,
  0 < psc_la cfg -> 0 < psc_lt cfg -> (forall live, len (alloc live) = PS_KEY) ->
  psc_dyn cfg = true -> psc_obs cfg = true -> psc_cnt cfg = true -> psc_unknown cfg = true ->
  Forall ps_dyn_wf D -> Forall (ps_obs_wf (psc_la cfg) (psc_lt cfg)) O -> Forall ps_cnt_wf C ->
  (length D < psc_fuel cfg)%nat -> (length O < psc_fuel cfg)%nat ->
  (length C + length O < psc_fuel cfg)%nat ->
  ps_holds ps_dyn_file (ps_view (ps_boot fs) PS_DYN) D ->
  ps_view (ps_boot fs) PS_OBS = Some (ps_obs_file O) ->
  ps_holds ps_cnt_file (ps_view (ps_boot fs) PS_CNT) C ->
  ps_mem_ok (ps_set_counts (ps_rounded (psc_freq cfg) C) (ps_dyn_fold (ps_dyn_step app) D m0)) ->
  exists s',
    ps_run pol (ps_startup app req alloc cfg m0) (ps_boot fs) =
      (Some (ps_restored_mem app req alloc cfg m0 D O C), s') /\
    ps_view s' PS_OBS = Some (ps_obs_file (ps_restored_obs app req alloc cfg m0 D O C)) /\
    ps_view s' PS_DYN = ps_view (ps_boot fs) PS_DYN.
Proof. intros. apply ps_startup_restores; assumption. Qed.
Print Assumptions C17_restart_startup.

(* every dynamic resource whose record is in the file exists again (the application re-creates
   the resource that the stored request names: deterministic handler) *)
Theorem C17_restart_restores_resources : forall app req alloc cfg m0 D O C,
  (forall d, In d D -> exists o, app (psd_pkt d) = Some (psd_name d, o)) ->
  forall d, In d D -> ps_has (ps_restored_mem app req alloc cfg m0 D O C) (psd_name d).
Proof. exact (ps_restored_has_dyn ps_pol_lazy). Qed.
Print Assumptions C17_restart_restores_resources.

Theorem C17_restart_restores_observation : forall req alloc cfg r m C name token ck rs,
  ps_beq (pso_proto r) (psc_proto cfg) = true -> ps_beq (pso_listen r) (psc_listen cfg) = true ->
  req (pso_pkt r) = Some (name, token, ck) -> ps_find name m = Some rs -> psr_observable rs = true ->
  exists key, snd (fst (ps_obs_step_spec req alloc cfg r m C)) = Some key /\
    exists rs' s, ps_find name (fst (fst (ps_obs_step_spec req alloc cfg r m C))) = Some rs' /\
      In s (psr_subs rs') /\ pss_key s = key /\ pss_tuple s = pso_tuple r /\ pss_token s = token.
Proof. exact ps_obs_step_accepts. Qed.
Print Assumptions C17_restart_restores_observation.

(* every stored observation is re-established - with its session, token, cache key and stored
   request - in a fresh process, whatever the order and number of records, provided the records
   are pairwise different in (resource, session, token) and in (resource, session, cache key)
   (coap_add_observer keeps at most one subscription per such key, so the files it maintains
   satisfy this) and each names an existing observable resource *)
Theorem C17_restart_restores_observations : forall app req alloc cfg m0 D O C,
  let m2 := ps_set_counts (ps_rounded (psc_freq cfg) C) (ps_dyn_fold (ps_dyn_step app) D m0) in
  (forall n rs, ps_find n m2 = Some rs -> psr_subs rs = []) ->
  (forall r, In r O -> ps_acceptable req cfg m2 r) ->
  NoDup (map (ps_ktok req) O) -> NoDup (map (ps_kck req) O) ->
  forall r, In r O -> ps_present req (ps_restored_mem app req alloc cfg m0 D O C) r.
Proof. exact ps_restored_observations. Qed.
Print Assumptions C17_restart_restores_observations.

(* the loaders skip nothing and invent nothing *)
Theorem C17_restart_counter_load : forall pol fuel freq l s,
  Forall ps_cnt_wf l -> (length l < fuel)%nat ->
  ps_holds ps_cnt_file (ps_view s PS_CNT) l ->
  exists s', ps_run pol (ps_cnt_load fuel freq) s = (Some (ps_rounded freq l), s') /\
    ps_fs s' = ps_fs s /\ ps_next s <= ps_next s' /\
    (forall g, g < ps_next s -> ps_hget g (ps_hs s') = ps_hget g (ps_hs s)).
Proof. exact ps_cnt_load_correct. Qed.
Print Assumptions C17_restart_counter_load.

(* ------------------------------------------------------------------ whole histories *)
(* C17_restart_restores + C17_observe_monotone derived from Server.v, for EVERY history of server
   events (PUT creating a resource, DELETE, register incl. same-token and cache-key replacement,
   cancel, notify) and EVERY kill point k, with all three files configured:
   start from any memory state m coherent with the files (ps_inv: e.g. a fresh process,
   C17_coherent_fresh_process); kill the process after k stdio calls of the history; start a fresh
   process on the files that are left.  Then, with evs1 = the events completed before the kill,
   j = the number of updater calls of the interrupted event that were completed, and
   mj = ps_mem_last ... = the memory state after the last completed updater (for a DELETE: the
   resource stays in mj, with the observers whose records are still in the file, until its
   dynamic-resource record is removed, and its sent values stay in Gj until the counter line is
   removed, which is the last call-out - C17_restart_restores_interrupted_delete below):
     - the files at the kill are the files coherent with the memory state after evs1, advanced by
       exactly those j calls (whole records only);
     - every observable resource of mj exists in the fresh process;
     - every observation of mj is re-established with its session, token, cache key and request;
     - every Observe value that left on the wire for a resource that still exists (Gj) is
       smaller than the value the next notification of that resource carries.
   Hypotheses about the outside world are the arguments of the events (ps_evt_ok: the handler
   creates what it created, the stored request is the request handled, record fields have their
   sizes, r->observe stays below 2^24 - save_freq - 2) and of the allocator (fresh 8-byte keys). *)
Theorem C17_restart_restores : forall pol app req alloc cfg m0,
  (forall live, ~ In (alloc live) live) -> (forall live, len (alloc live) = PS_KEY) ->
  len (psc_proto cfg) = PS_PROTO -> len (psc_listen cfg) = psc_la cfg ->
  0 < psc_freq cfg -> psc_freq cfg < 1000000 ->
  psc_dyn cfg = true -> psc_obs cfg = true -> psc_cnt cfg = true -> psc_unknown cfg = true ->
  0 < psc_la cfg -> 0 < psc_lt cfg -> Forall ps_fresh_rsrc m0 ->
  forall evs m A G sent s k,
    ps_inv app req cfg m0 m A G -> ps_hist_ok app req alloc cfg evs m ->
    (2 * (ps_abs_size A + ps_hist_ncalls alloc cfg evs m) < psc_fuel cfg)%nat ->
    ps_tmpw s -> ps_holdsA s A ->
    exists evs1 rest j mR,
      evs = evs1 ++ rest /\
      (j <= match rest with
            | e :: _ => length (ps_ev_calls alloc cfg e (fst (ps_hist_state alloc cfg evs1 m A)))
            | [] => 0 end)%nat /\
      ps_holdsA (ps_runk pol (ps_hist alloc cfg evs m sent) k s)
        (ps_abs_calls (firstn j (match rest with
                                 | e :: _ => ps_ev_calls alloc cfg e (fst (ps_hist_state alloc cfg evs1 m A))
                                 | [] => []
                                 end)) (snd (ps_hist_state alloc cfg evs1 m A))) /\
      fst (ps_run pol (ps_startup app req alloc cfg m0)
                  (ps_boot (ps_fs (ps_runk pol (ps_hist alloc cfg evs m sent) k s)))) = Some mR /\
      let mj := ps_mem_last alloc cfg rest (fst (ps_hist_state alloc cfg evs1 m A)) j in
      let Gj := ps_ghost_last alloc cfg rest (fst (ps_hist_state alloc cfg evs1 m A))
                              (ps_ghosts alloc evs1 m G) j in
      (forall n r, ps_find n mj = Some r -> psr_observable r = true -> ps_has mR n) /\
      (forall n su, ps_insub mj n su -> ps_present req mR (ps_obs_of cfg su)) /\
      (forall n tu tok v rR, In (n, tu, tok, v) Gj -> ps_find n mR = Some rR -> v < psr_observe rR + 1).
Proof. intros. eapply ps_history_restart; eassumption. Qed.
Print Assumptions C17_restart_restores.

(* the claim C17_restart_restores makes for the resource of an interrupted DELETE (defect F17d:
   the counter line used to go first, and a kill before the other records were gone brought the
   resource back with its observers and an Observe value that had been used before) *)
Theorem C17_restart_restores_interrupted_delete : forall alloc cfg name rest m G r j,
  ps_find name m = Some r ->
  let p := if ps_del_bump r && (ps_del_value r mod psc_freq cfg =? 0) then 1%nat else 0%nat in
  (j < length (ps_ev_calls alloc cfg (PsEvDel name) m))%nat ->
  ps_ghost_last alloc cfg (PsEvDel name :: rest) m G j = G /\
  ((1 <= j <= p + length (psr_subs r))%nat ->
   ps_mem_last alloc cfg (PsEvDel name :: rest) m j =
   ps_replace (mkRsrc name (psr_observable r) (ps_del_value r) (skipn (j - p) (psr_subs r))) m).
Proof. intros alloc cfg name rest m G r j Hf p Hj. exact (ps_delete_window alloc cfg name rest m G r j Hf Hj). Qed.
Print Assumptions C17_restart_restores_interrupted_delete.

(* the invariant that links memory, files and sent values holds after every event of every
   history ... *)
Theorem C17_coherent_histories : forall app req alloc cfg m0,
  (forall live, ~ In (alloc live) live) -> (forall live, len (alloc live) = PS_KEY) ->
  len (psc_proto cfg) = PS_PROTO -> len (psc_listen cfg) = psc_la cfg ->
  0 < psc_freq cfg -> psc_freq cfg < 1000000 ->
  forall evs m A G,
    ps_inv app req cfg m0 m A G -> ps_hist_ok app req alloc cfg evs m ->
    ps_inv app req cfg m0 (fst (ps_hist_state alloc cfg evs m A)) (snd (ps_hist_state alloc cfg evs m A))
           (ps_ghosts alloc evs m G) /\
    ps_hist_wf alloc cfg evs m.
Proof. intros. eapply ps_inv_history; eassumption. Qed.
Print Assumptions C17_coherent_histories.

(* ... and in a fresh process (what the application registers itself, no files) *)
Theorem C17_coherent_fresh_process : forall app req cfg m0,
  Forall ps_fresh_rsrc m0 -> NoDup (map psr_name m0) ->
  (forall r, In r m0 -> psr_observe r <= ps_bound cfg) ->
  ps_inv app req cfg m0 m0 ps_abs0 [] /\ ps_holdsA (ps_boot []) ps_abs0 /\ ps_tmpw (ps_boot []).
Proof.
  intros. split; [apply ps_inv_init; assumption|]. split; [repeat split|apply ps_tmpw_boot].
Qed.
Print Assumptions C17_coherent_fresh_process.

(* ------------------------------------------------------------------ C17_observe_monotone *)
(* for every save_freq f > 0, every history of registrations, notifications and kills at any
   step (Counter.v): the value a restarted server resumes from covers every Observe value sent
   before, so the first value sent after restart, round(v) + 1, is greater than all of them *)
Theorem C17_observe_monotone : forall f, 0 < f -> forall s t x,
  ps_cinv f s -> ps_creach f s t -> cs_v t = Some x -> cs_m t < ps_rnd f x + 1.
Proof. exact ps_observe_monotone. Qed.
Print Assumptions C17_observe_monotone.

(* within a process the values only grow, so this holds for all later values too *)
Theorem C17_observe_growing : forall f, 0 < f -> forall s t,
  ps_cinv f s -> ps_creach f s t -> cs_ph t = PhIdle -> cs_m t < cs_c t + 1.
Proof. exact ps_observe_growing. Qed.
Print Assumptions C17_observe_growing.

(* the code's arithmetic is the abstract one while nothing wraps *)
Theorem C17_observe_round : forall f x,
  0 < f -> 0 <= x -> x + f < 4294967296 -> ps_round f x = ps_rnd f x.
Proof. exact ps_round_rnd. Qed.
Print Assumptions C17_observe_round.

(* ------------------------------------------------------------------ non-vacuity *)
Example C17_example_two_additions_survive :
  ps_w_two ps_dyn_added = Some (ps_dyn_file [ps_w_a; ps_w_b]).
Proof. exact ps_dyn_added_keeps. Qed.

Example C17_example_counter_start : ps_cinv 5 (mkCst PS_OBSERVE0 None (-1) PhIdle).
Proof. apply ps_cinv_init. Qed.

Example C17_example_boot_state : forall fs, ps_tmpw (ps_boot fs).
Proof. exact ps_tmpw_boot. Qed.

(* C03 - the decoder accepts exactly the well-formed messages and reports what is on the wire.
   The encoding of RFC 7252 s.3 / RFC 8323 s.3 / RFC 8974 is canonical (every field has exactly
   one form: the nibble ranges 0..12 / 13..268 / 269..65804 do not overlap), so "well-formed with
   reference decoding m" is the relation  msg_wf m /\ bytes = serialize p m  over the
   independent encoder of Wire/Pdu.v.  Statements only; proofs in Wire/*.v. *)
From LibcoapV Require Import Base.Tactics Base.Bytes Wire.OptCodec Wire.OptCodecProofs Wire.Pdu
  Wire.PduProofs Wire.ParseSound Wire.Frame Wire.FrameProofs Wire.RfcLimits Wire.RfcLimitsProofs.
Local Open Scope Z_scope.

(* soundness on datagram transports: accepted => well-formed, and the accessors' view is the
   unique message whose encoding these bytes are *)
Theorem C03_sound_udp : forall bs m,
  wfb bs -> parse UDP bs = Some m -> msg_wf m /\ serialize UDP m = bs.
Proof. exact parse_sound_udp. Qed.
Print Assumptions C03_sound_udp.

(* soundness for every framing: everything after the framing header is the canonical encoding
   of the returned token, options and payload, which satisfy all well-formedness conditions
   (the stream readers of C05 check the Len prefix that delimits these bytes) *)
Theorem C03_sound_body : forall p bs m,
  wfb bs -> parse p bs = Some m ->
  exists b0 rest, bs = b0 :: rest /\
    drop (header_size p b0) bs = token_area (m_token m) ++ content_area m /\
    b0 mod 16 = tkl_nib (m_token m) /\
    len (m_token m) <= 65804 /\ wfb (m_token m) /\
    Forall opt_wf (m_opts m) /\ ascending 0 (m_opts m) /\
    limits_ok (m_code m) (m_opts m) = true /\ wfb (m_payload m) /\
    (m_code m = 0 -> m_token m = [] /\ m_opts m = [] /\ m_payload m = []).
Proof. exact parse_sound_body. Qed.
Print Assumptions C03_sound_body.

(* completeness: every well-formed message's encoding is accepted, with that decoding *)
Theorem C03_complete : forall p m,
  msg_wf m -> parse p (serialize p m) = Some (norm_fields p m).
Proof. exact parse_serialize. Qed.
Print Assumptions C03_complete.

(* stream framing (RFC 8323): coap_pdu_parse_size, which the TCP/TLS reader uses to cut the
   byte stream, yields exactly the number of bytes that follow the header of a well-formed
   message - token-length extension bytes, token, options, marker and payload *)
Theorem C03_stream_frame_size : forall m,
  msg_wf m -> len (content_area m) <= 65805 + 4294967295 ->
  fr_parse_size TCP (serialize TCP m) = len (token_area (m_token m)) + len (content_area m).
Proof. exact fr_parse_size_serialize. Qed.
Print Assumptions C03_stream_frame_size.

(* the reference decoding is unique *)
Theorem C03_unique : forall m1 m2,
  msg_wf m1 -> msg_wf m2 -> serialize UDP m1 = serialize UDP m2 -> m1 = m2.
Proof. exact serialize_udp_unique. Qed.
Print Assumptions C03_unique.

(* "within the per-option length limits": the limits the decoder enforces ([limit_ok], the table
   transcribed from coap_pdu_parse_opt_base / _csm and swept against the C for every option
   number) are the limits of the RFCs (Wire/RfcLimits.v, written down from the RFC tables), for
   every code, option number and length - so soundness and completeness above hold with the
   RFCs' limits in place of the code's *)
Theorem C03_limits_are_the_rfc_limits : forall code n l,
  limit_ok code n l = rfc_limit_ok code n l.
Proof. exact limit_ok_is_rfc. Qed.
Print Assumptions C03_limits_are_the_rfc_limits.

Theorem C03_limits_ok_is_rfc : forall code os,
  limits_ok code os = forallb (fun o => rfc_limit_ok code (fst o) (len (snd o))) os.
Proof. exact limits_ok_is_rfc. Qed.
Print Assumptions C03_limits_ok_is_rfc.

(* the table of the pinned tree as found differed from the RFCs at exactly four option numbers,
   in both directions (repaired: known_findings.d/C03.json) *)
Theorem C03_limits_as_found_agree_elsewhere : forall n,
  n <> 15 -> n <> 19 -> n <> 31 -> n <> 252 -> base_limit_as_found n = rfc_base_limit n.
Proof. exact as_found_agrees_elsewhere. Qed.
Print Assumptions C03_limits_as_found_agree_elsewhere.

Theorem C03_limits_as_found_refuted :
  in_range (base_limit_as_found 15) 0 = false /\ in_range (rfc_base_limit 15) 0 = true /\
  in_range (base_limit_as_found 252) 0 = true /\ in_range (rfc_base_limit 252) 0 = false /\
  in_range (base_limit_as_found 19) 4 = true /\ in_range (rfc_base_limit 19) 4 = false /\
  in_range (base_limit_as_found 31) 4 = true /\ in_range (rfc_base_limit 31) 4 = false.
Proof. exact as_found_refuted. Qed.
Print Assumptions C03_limits_as_found_refuted.

(* explicit rejections *)
Theorem C03_reject_reserved_delta : forall b0 r,
  0 <= b0 < 256 -> b0 / 16 = 15 -> opt_parse (b0 :: r) = None.
Proof. exact reject_reserved_delta. Qed.
Print Assumptions C03_reject_reserved_delta.

Theorem C03_reject_reserved_length : forall b0 r,
  0 <= b0 < 256 -> b0 mod 16 = 15 -> opt_parse (b0 :: r) = None.
Proof. exact reject_reserved_length. Qed.
Print Assumptions C03_reject_reserved_length.

Theorem C03_reject_truncated_value : forall d l v,
  0 <= d <= 65535 -> 0 <= l <= 65804 -> len v < l -> opt_parse (opt_hdr d l ++ v) = None.
Proof. exact reject_truncated_value. Qed.
Print Assumptions C03_reject_truncated_value.

Theorem C03_reject_number_above_65535 : forall fuel prev d v rest b tl,
  b <> PAYLOAD_START -> opt_parse (b :: tl) = Some (d, v, rest) -> MAX_OPT < prev + d ->
  opts_parse (S fuel) prev (b :: tl) = None.
Proof. exact reject_number_overflow. Qed.
Print Assumptions C03_reject_number_above_65535.

(* concrete witnesses (also non-vacuity): marker without payload, non-empty Empty message,
   the former uint16 wrap E0 FE FF *)
Example C03_marker_without_payload : parse UDP [64; 1; 18; 52; 255] = None.
Proof. vm_compute. reflexivity. Qed.
Example C03_nonempty_empty : parse UDP [64; 0; 18; 52; 177; 97] = None.
Proof. vm_compute. reflexivity. Qed.
Example C03_delta_wrap_rejected : parse UDP [64; 1; 18; 52; 224; 254; 255] = None.
Proof. vm_compute. reflexivity. Qed.
Example C03_empty_uri_query_accepted :
  parse UDP [64; 1; 18; 52; 177; 97; 64] = Some (mkMsg 0 1 4660 [] [(11, [97]); (15, [])] []).
Proof. vm_compute. reflexivity. Qed.
Example C03_empty_echo_rejected : parse UDP [64; 1; 18; 52; 208; 239] = None.
Proof. vm_compute. reflexivity. Qed.
Example C03_long_qblock2_rejected : parse UDP [64; 1; 18; 52; 212; 18; 0; 0; 0; 6] = None.
Proof. vm_compute. reflexivity. Qed.
Example C03_accepts_something :
  parse UDP [66; 1; 18; 52; 7; 8; 177; 97; 255; 1] = Some (mkMsg 0 1 4660 [7; 8] [(11, [97])] [1]).
Proof. vm_compute. reflexivity. Qed.

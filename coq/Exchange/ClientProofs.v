(* C07 - what the client does for ANY peer: theorems about Exchange.ex_cli_run for all client
   states and all input sequences (no honesty assumption on the datagrams). *)
From LibcoapV Require Import Base.Tactics Exchange.Exchange Exchange.Spec.
Local Open Scope Z_scope.

Lemma ex_app_inv_length : forall (A : Type) (l1 l1' l2 l2' : list A),
  length l1 = length l1' -> l1 ++ l2 = l1' ++ l2' -> l1 = l1' /\ l2 = l2'.
Proof.
  intros A l1. induction l1 as [| x l1 IH]; intros [| y l1'] l2 l2' HL H; cbn in *; try discriminate.
  - auto.
  - inversion H; subst. destruct (IH l1' l2 l2') as [E1 E2]; [lia | assumption |]. subst. auto.
Qed.

Lemma ex_cli_run_in : forall maxr ins c i outs,
  In (i, outs) (snd (ex_cli_run maxr c ins)) ->
  exists c0, outs = snd (ex_cli_step maxr c0 i).
Proof.
  intros maxr ins. induction ins as [| i0 ins IH]; intros c i outs H; cbn in H.
  - destruct H.
  - destruct (ex_cli_step maxr c i0) as [c1 o] eqn:E.
    destruct (ex_cli_run maxr c1 ins) as [c2 t] eqn:E2. cbn in H.
    destruct H as [H | H].
    + inversion H; subst. exists c. rewrite E. reflexivity.
    + apply (IH c1). rewrite E2. exact H.
Qed.

(* every Confirmable response is answered by exactly one ACK or RST, after the handler *)
Lemma ex_step_conack : forall maxr c s k ok,
  ex_con_answer_ok s k ok (snd (ex_cli_step maxr c (ExRx (ExConR s k) ok))).
Proof.
  intros maxr c s k ok. unfold ex_cli_step, ex_con_answer_ok.
  destruct (s =? ex_c_lcon (ex_cancel_tok c k)); cbn [snd].
  - destruct (ex_c_lres (ex_cancel_tok c k)); auto.
  - unfold ex_deliver. replace (negb (0 =? 2)) with true by reflexivity.
    replace (0 =? 0) with true by reflexivity. rewrite andb_true_r.
    destruct ok; cbn [negb snd]; left; eexists; reflexivity.
Qed.

Theorem ex_client_conack : forall maxr c ins, ex_P_conack (snd (ex_cli_run maxr c ins)).
Proof.
  intros maxr c ins s k ok outs H. apply ex_cli_run_in in H. destruct H as [c0 ->].
  apply ex_step_conack.
Qed.

(* a Non-confirmable response is delivered exactly once per datagram *)
Theorem ex_client_non : forall maxr c ins, ex_P_non (snd (ex_cli_run maxr c ins)).
Proof.
  intros maxr c ins s k ok outs H. apply ex_cli_run_in in H. destruct H as [c0 ->].
  unfold ex_cli_step, ex_deliver. replace (negb (1 =? 2)) with true by reflexivity.
  replace (1 =? 0) with false by reflexivity. rewrite andb_true_r.
  destruct ok; cbn [negb snd]; eexists; [left | right]; eauto.
Qed.

(* duplicates: a step that calls no handler keeps the filter slot and the remembered verdict *)
Lemma ex_step_keeps_filter : forall maxr c i,
  existsb ex_is_handler (snd (ex_cli_step maxr c i)) = false ->
  ex_c_lcon (fst (ex_cli_step maxr c i)) = ex_c_lcon c /\
  ex_c_lres (fst (ex_cli_step maxr c i)) = ex_c_lres c.
Proof.
  intros maxr c i H. unfold ex_cli_step in *.
  destruct i as [sty | | d ok].
  - destruct (ex_c_q c); cbn; auto.
  - destruct (ex_c_q c) as [q |]; [destruct (ex_q_cnt q <? maxr) |]; cbn; auto.
  - destruct d as [m k s | m | m k | m k | m k | m].
    + cbn. auto.
    + unfold ex_remove_mid. destruct (ex_c_q c) as [q |]; [destruct (ex_q_mid q =? m) |]; cbn; auto.
    + unfold ex_remove_mid in *.
      destruct (ex_c_q c) as [q |]; [destruct (ex_q_mid q =? m) |]; cbn [fst snd ex_set_q ex_c_lack] in *.
      * destruct (m =? ex_c_lack c); cbn in *; auto. unfold ex_deliver in H.
        destruct (negb ok && negb (2 =? 2)); cbn in H; discriminate H.
      * destruct (m =? ex_c_lack c); cbn in *; auto. unfold ex_deliver in H.
        destruct (negb ok && negb (2 =? 2)); cbn in H; discriminate H.
      * destruct (m =? ex_c_lack c); cbn in *; auto. unfold ex_deliver in H.
        destruct (negb ok && negb (2 =? 2)); cbn in H; discriminate H.
    + assert (E : ex_c_lcon (ex_cancel_tok c k) = ex_c_lcon c /\ ex_c_lres (ex_cancel_tok c k) = ex_c_lres c).
      { unfold ex_cancel_tok. destruct (ex_c_q c) as [q |]; [destruct (ex_q_tok q =? k) |]; cbn; auto. }
      destruct (m =? ex_c_lcon (ex_cancel_tok c k)); cbn [fst snd] in *; [exact E |].
      unfold ex_deliver in H. destruct (negb ok && negb (0 =? 2)); cbn in H; discriminate H.
    + unfold ex_deliver in H. destruct (negb ok && negb (1 =? 2)); cbn in H; discriminate H.
    + unfold ex_remove_mid. destruct (ex_c_q c) as [q |]; [destruct (ex_q_mid q =? m) |]; cbn; auto.
Qed.

Lemma ex_run_keeps_filter : forall maxr t2ins c,
  (forall o, In o (snd (ex_cli_run maxr c t2ins)) -> ex_delivers o = false) ->
  ex_c_lcon (fst (ex_cli_run maxr c t2ins)) = ex_c_lcon c /\
  ex_c_lres (fst (ex_cli_run maxr c t2ins)) = ex_c_lres c.
Proof.
  intros maxr ins. induction ins as [| i ins IH]; intros c H; cbn in *; [auto |].
  pose proof (ex_step_keeps_filter maxr c i) as K.
  destruct (ex_cli_step maxr c i) as [c1 o] eqn:E.
  destruct (ex_cli_run maxr c1 ins) as [c2 t] eqn:E2. cbn [fst snd] in *.
  assert (H1 : existsb ex_is_handler o = false).
  { specialize (H (i, o) (or_introl eq_refl)). exact H. }
  destruct (K H1) as [K1 K2].
  assert (H2 : forall o0, In o0 (snd (ex_cli_run maxr c1 ins)) -> ex_delivers o0 = false).
  { intros o0 Ho. apply H. right. rewrite E2 in Ho. exact Ho. }
  destruct (IH c1 H2) as [I1 I2]. rewrite E2 in I1, I2. cbn [fst] in *. split; congruence.
Qed.

(* splitting a run at a position of its trace *)
Lemma ex_cli_run_app : forall maxr ins1 ins2 c,
  ex_cli_run maxr c (ins1 ++ ins2) =
  (fst (ex_cli_run maxr (fst (ex_cli_run maxr c ins1)) ins2),
   snd (ex_cli_run maxr c ins1) ++ snd (ex_cli_run maxr (fst (ex_cli_run maxr c ins1)) ins2)).
Proof.
  intros maxr ins1. induction ins1 as [| i ins1 IH]; intros ins2 c; cbn.
  - destruct (ex_cli_run maxr c ins2). reflexivity.
  - destruct (ex_cli_step maxr c i) as [c1 o]. rewrite IH.
    destruct (ex_cli_run maxr c1 ins1) as [c2 t]. cbn.
    destruct (ex_cli_run maxr c2 ins2). reflexivity.
Qed.

Lemma ex_cli_run_trace_inputs : forall maxr ins c,
  map fst (snd (ex_cli_run maxr c ins)) = ins.
Proof.
  intros maxr ins. induction ins as [| i ins IH]; intros c; cbn; [reflexivity |].
  destruct (ex_cli_step maxr c i) as [c1 o]. specialize (IH c1).
  destruct (ex_cli_run maxr c1 ins) as [c2 t]. cbn in *. rewrite IH. reflexivity.
Qed.

Theorem ex_client_dup : forall maxr c ins, ex_P_dup (snd (ex_cli_run maxr c ins)).
Proof.
  intros maxr c ins t1 s k ok st a t2 k' ok' outs' t3 Et D.
  (* recover the inputs of the three parts *)
  pose proof (ex_cli_run_trace_inputs maxr ins c) as Hin. rewrite Et in Hin.
  rewrite map_app in Hin. cbn [map fst] in Hin. rewrite map_app in Hin. cbn [map fst] in Hin.
  set (i1 := map fst t1) in *. set (i2 := map fst t2) in *. set (i3 := map fst t3) in *.
  subst ins.
  rewrite ex_cli_run_app in Et. cbn [snd] in Et.
  set (c1 := fst (ex_cli_run maxr c i1)) in *.
  assert (L1 : length (snd (ex_cli_run maxr c i1)) = length t1).
  { transitivity (length i1); [| unfold i1; apply map_length].
    rewrite <- (ex_cli_run_trace_inputs maxr i1 c) at 2. symmetry. apply map_length. }
  apply ex_app_inv_length in Et; [| exact L1]. destruct Et as [_ Et].
  cbn [ex_cli_run] in Et.
  destruct (ex_cli_step maxr c1 (ExRx (ExConR s k) ok)) as [c2 o2] eqn:E2.
  rewrite ex_cli_run_app in Et.
  destruct (ex_cli_run maxr c2 i2) as [c3 tr2] eqn:E3. cbn [fst snd] in Et.
  cbn [ex_cli_run] in Et.
  destruct (ex_cli_step maxr c3 (ExRx (ExConR s k') ok')) as [c4 o4] eqn:E4.
  destruct (ex_cli_run maxr c4 i3) as [c5 tr3] eqn:E5. cbn [fst snd] in Et.
  injection Et as Eo2 Erest.
  assert (L2 : length tr2 = length t2).
  { assert (X : map fst tr2 = i2).
    { pose proof (ex_cli_run_trace_inputs maxr i2 c2) as X. rewrite E3 in X. exact X. }
    transitivity (length i2); [| unfold i2; apply map_length].
    rewrite <- X. symmetry. apply map_length. }
  apply ex_app_inv_length in Erest; [| exact L2]. destruct Erest as [Et2 Erest].
  injection Erest as Eo4 Etr3. subst tr2 o2 o4.
  (* the delivering step sets the slot and remembers the answer *)
  assert (S2 : ex_c_lcon c2 = s /\ a = (if ex_c_lres c2 then ExAckE s else ExRst s)).
  { unfold ex_cli_step in E2.
    destruct (s =? ex_c_lcon (ex_cancel_tok c1 k)) eqn:Ef.
    - injection E2 as _ Ex. destruct (ex_c_lres (ex_cancel_tok c1 k)); discriminate Ex.
    - unfold ex_deliver in E2. replace (negb (0 =? 2)) with true in E2 by reflexivity.
      replace (0 =? 0) with true in E2 by reflexivity. rewrite andb_true_r in E2.
      destruct ok; cbn [negb] in E2; inversion E2; subst; cbn; auto. }
  destruct S2 as [S2a S2b].
  assert (K : ex_c_lcon c3 = ex_c_lcon c2 /\ ex_c_lres c3 = ex_c_lres c2).
  { pose proof (ex_run_keeps_filter maxr i2 c2) as K. rewrite E3 in K. cbn [fst snd] in K.
    apply K. exact D. }
  destruct K as [K1 K2].
  unfold ex_cli_step in E4.
  assert (Ec : ex_c_lcon (ex_cancel_tok c3 k') = ex_c_lcon c3 /\
               ex_c_lres (ex_cancel_tok c3 k') = ex_c_lres c3).
  { unfold ex_cancel_tok. destruct (ex_c_q c3) as [q |]; [destruct (ex_q_tok q =? k') |]; cbn; auto. }
  destruct Ec as [Ec1 Ec2].
  rewrite Ec1, K1, S2a, Z.eqb_refl in E4. inversion E4; subst.
  rewrite Ec2, K2. reflexivity.
Qed.

(* ------------------------------------------------------------------ the filter, exactly
   When does the client hand the same message (type, mid) to the handler twice?  Only if, in
   between, a response of the same type with another mid was handled (the slot was overwritten)
   or - for piggybacked responses - a new request took that mid (wrap).  For every client state
   and every input sequence.  This is the formal content of the signature of finding C07-F1. *)
Definition ex_delivers_kind (kind : Z) (o : ex_obs) : bool :=
  existsb (fun x => match x with ExResp k _ _ _ => k =? kind | _ => false end) (snd o).

Definition ex_sends_mid (mid : Z) (o : ex_obs) : bool :=
  existsb (fun x => match x with ExTx (ExReq m _ _) => m =? mid | _ => false end) (snd o).

Lemma ex_step_keeps_lcon : forall maxr c i,
  ex_delivers_kind 0 (i, snd (ex_cli_step maxr c i)) = false ->
  ex_c_lcon (fst (ex_cli_step maxr c i)) = ex_c_lcon c.
Proof.
  intros maxr c i H. unfold ex_delivers_kind in H. cbn [snd] in H. unfold ex_cli_step in *.
  destruct i as [sty | | d ok].
  - destruct (ex_c_q c); cbn; auto.
  - destruct (ex_c_q c) as [q |]; [destruct (ex_q_cnt q <? maxr) |]; cbn; auto.
  - destruct d as [m k s | m | m k | m k | m k | m].
    + reflexivity.
    + unfold ex_remove_mid. destruct (ex_c_q c) as [q |]; [destruct (ex_q_mid q =? m) |]; cbn; auto.
    + unfold ex_remove_mid in *.
      destruct (ex_c_q c) as [q |]; [destruct (ex_q_mid q =? m) |]; cbn [fst snd ex_set_q ex_c_lack] in *;
        (destruct (m =? ex_c_lack c); cbn; auto; unfold ex_deliver;
         destruct (negb ok && negb (2 =? 2)); cbn; auto).
    + assert (E : ex_c_lcon (ex_cancel_tok c k) = ex_c_lcon c).
      { unfold ex_cancel_tok. destruct (ex_c_q c) as [q |]; [destruct (ex_q_tok q =? k) |]; cbn; auto. }
      destruct (m =? ex_c_lcon (ex_cancel_tok c k)); cbn [fst snd] in *; [exact E |].
      unfold ex_deliver in H. destruct (negb ok && negb (0 =? 2)); cbn in H; discriminate H.
    + assert (E : ex_c_lcon (ex_cancel_tok c k) = ex_c_lcon c).
      { unfold ex_cancel_tok. destruct (ex_c_q c) as [q |]; [destruct (ex_q_tok q =? k) |]; cbn; auto. }
      unfold ex_deliver. destruct (negb ok && negb (1 =? 2)); cbn; exact E.
    + unfold ex_remove_mid. destruct (ex_c_q c) as [q |]; [destruct (ex_q_mid q =? m) |]; cbn; auto.
Qed.

Lemma ex_step_keeps_lack : forall maxr c i s,
  ex_c_lack c = s ->
  ex_delivers_kind 2 (i, snd (ex_cli_step maxr c i)) = false ->
  ex_sends_mid s (i, snd (ex_cli_step maxr c i)) = false ->
  ex_c_lack (fst (ex_cli_step maxr c i)) = s.
Proof.
  intros maxr c i s Es H Hs. unfold ex_delivers_kind, ex_sends_mid in *. cbn [snd] in *.
  unfold ex_cli_step in *.
  destruct i as [sty | | d ok].
  - destruct (ex_c_q c); cbn [fst snd] in *; [exact Es |].
    cbv zeta in *. unfold ex_req_of in Hs. cbn [fst snd ex_q_mid ex_c_lack existsb] in *.
    rewrite orb_false_r in Hs. rewrite Es. rewrite Hs. reflexivity.
  - destruct (ex_c_q c) as [q |]; [destruct (ex_q_cnt q <? maxr) |]; cbn; auto.
  - destruct d as [m k st | m | m k | m k | m k | m].
    + exact Es.
    + unfold ex_remove_mid. destruct (ex_c_q c) as [q |]; [destruct (ex_q_mid q =? m) |]; cbn; auto.
    + unfold ex_remove_mid in *.
      destruct (ex_c_q c) as [q |]; [destruct (ex_q_mid q =? m) |]; cbn [fst snd ex_set_q ex_c_lack] in *;
        (destruct (m =? ex_c_lack c); cbn [fst snd] in *; [exact Es |];
         unfold ex_deliver in H; destruct (negb ok && negb (2 =? 2)); cbn in H; discriminate H).
    + assert (E : ex_c_lack (ex_cancel_tok c k) = ex_c_lack c).
      { unfold ex_cancel_tok. destruct (ex_c_q c) as [q |]; [destruct (ex_q_tok q =? k) |]; cbn; auto. }
      destruct (m =? ex_c_lcon (ex_cancel_tok c k)); cbn [fst snd]; [congruence |].
      unfold ex_deliver. destruct (negb ok && negb (0 =? 2)); cbn; congruence.
    + assert (E : ex_c_lack (ex_cancel_tok c k) = ex_c_lack c).
      { unfold ex_cancel_tok. destruct (ex_c_q c) as [q |]; [destruct (ex_q_tok q =? k) |]; cbn; auto. }
      unfold ex_deliver. destruct (negb ok && negb (1 =? 2)); cbn; congruence.
    + unfold ex_remove_mid. destruct (ex_c_q c) as [q |]; [destruct (ex_q_mid q =? m) |]; cbn; auto.
Qed.

Lemma ex_run_keeps_lcon : forall maxr ins c,
  (forall o, In o (snd (ex_cli_run maxr c ins)) -> ex_delivers_kind 0 o = false) ->
  ex_c_lcon (fst (ex_cli_run maxr c ins)) = ex_c_lcon c.
Proof.
  intros maxr ins. induction ins as [| i ins IH]; intros c H; cbn in *; [reflexivity |].
  pose proof (ex_step_keeps_lcon maxr c i) as K.
  destruct (ex_cli_step maxr c i) as [c1 o] eqn:E.
  destruct (ex_cli_run maxr c1 ins) as [c2 t] eqn:E2. cbn [fst snd] in *.
  rewrite <- K by (apply (H (i, o)); left; reflexivity).
  specialize (IH c1). rewrite E2 in IH. cbn [fst snd] in IH. apply IH.
  intros o0 Ho. apply H. right. exact Ho.
Qed.

Lemma ex_run_keeps_lack : forall maxr ins c s,
  ex_c_lack c = s ->
  (forall o, In o (snd (ex_cli_run maxr c ins)) -> ex_delivers_kind 2 o = false /\ ex_sends_mid s o = false) ->
  ex_c_lack (fst (ex_cli_run maxr c ins)) = s.
Proof.
  intros maxr ins. induction ins as [| i ins IH]; intros c s Es H; cbn in *; [exact Es |].
  pose proof (ex_step_keeps_lack maxr c i s Es) as K.
  destruct (ex_cli_step maxr c i) as [c1 o] eqn:E.
  destruct (ex_cli_run maxr c1 ins) as [c2 t] eqn:E2. cbn [fst snd] in *.
  destruct (H (i, o) (or_introl eq_refl)) as [H1 H2].
  specialize (K H1 H2).
  specialize (IH c1 s K). rewrite E2 in IH. cbn [fst snd] in IH. apply IH.
  intros o0 Ho. apply H. right. exact Ho.
Qed.

(* splitting a trace of a run into the three runs that produced it *)
Lemma ex_run_split3 : forall maxr c ins t1 o1 t2 o2 t3,
  snd (ex_cli_run maxr c ins) = t1 ++ o1 :: t2 ++ o2 :: t3 ->
  exists c1 c2 c3,
    c1 = fst (ex_cli_run maxr c (map fst t1)) /\
    ex_cli_step maxr c1 (fst o1) = (c2, snd o1) /\
    snd (ex_cli_run maxr c2 (map fst t2)) = t2 /\
    c3 = fst (ex_cli_run maxr c2 (map fst t2)) /\
    snd (ex_cli_step maxr c3 (fst o2)) = snd o2.
Proof.
  intros maxr c ins t1 o1 t2 o2 t3 Et.
  pose proof (ex_cli_run_trace_inputs maxr ins c) as Hin. rewrite Et in Hin.
  rewrite map_app in Hin. cbn [map] in Hin. rewrite map_app in Hin. cbn [map] in Hin.
  subst ins. rewrite ex_cli_run_app in Et. cbn [snd] in Et.
  assert (L1 : length (snd (ex_cli_run maxr c (map fst t1))) = length t1).
  { transitivity (length (map fst t1)); [| apply map_length].
    rewrite <- (ex_cli_run_trace_inputs maxr (map fst t1) c) at 2. symmetry. apply map_length. }
  apply ex_app_inv_length in Et; [| exact L1]. destruct Et as [_ Et].
  cbn [ex_cli_run] in Et.
  match type of Et with
  | context [ex_cli_step maxr ?cc (fst o1)] =>
      remember cc as c1 eqn:Ec1; destruct (ex_cli_step maxr c1 (fst o1)) as [c2 x1] eqn:E1
  end.
  rewrite ex_cli_run_app in Et.
  match type of Et with
  | context [ex_cli_run maxr c2 ?ii] =>
      remember ii as i2 eqn:Ei2; destruct (ex_cli_run maxr c2 i2) as [c3 tr2] eqn:E3
  end.
  cbn [fst snd] in Et. cbn [ex_cli_run] in Et.
  destruct (ex_cli_step maxr c3 (fst o2)) as [c4 x2] eqn:E4.
  match type of Et with
  | context [ex_cli_run maxr c4 ?ii] => destruct (ex_cli_run maxr c4 ii) as [c5 tr3] eqn:E5
  end.
  cbn [fst snd] in Et.
  injection Et as Eo1 Erest.
  assert (X : map fst tr2 = i2).
  { pose proof (ex_cli_run_trace_inputs maxr i2 c2) as X. rewrite E3 in X. exact X. }
  assert (L2 : length tr2 = length t2).
  { transitivity (length i2); [rewrite <- X; symmetry; apply map_length | rewrite Ei2; apply map_length]. }
  apply ex_app_inv_length in Erest; [| exact L2]. destruct Erest as [Et2 Erest].
  injection Erest as Eo2 _.
  assert (Ei2' : i2 = map fst t2) by (rewrite Ei2; reflexivity).
  exists c1, c2, c3. split; [rewrite Ec1; reflexivity |]. split.
  { destruct o1 as [a b]. cbn in *. inversion Eo1; subst. exact E1. }
  split; [rewrite <- Ei2', E3; exact Et2 |]. split; [rewrite <- Ei2', E3; reflexivity |].
  destruct o2 as [a b]. cbn in *. inversion Eo2; subst. rewrite E4. reflexivity.
Qed.

(* a Confirmable response is delivered a second time only after a Confirmable response with
   another mid was delivered in between *)
Theorem ex_client_con_filter : forall maxr c ins t1 s k ok st a t2 k' ok' outs' t3,
  snd (ex_cli_run maxr c ins) =
    t1 ++ (ExRx (ExConR s k) ok, [ExResp 0 s k st; ExTx a]) :: t2 ++
    (ExRx (ExConR s k') ok', outs') :: t3 ->
  (forall o, In o t2 -> ex_delivers_kind 0 o = false) ->
  ex_delivers_kind 0 (ExRx (ExConR s k') ok', outs') = false.
Proof.
  intros maxr c ins t1 s k ok st a t2 k' ok' outs' t3 Et D.
  destruct (ex_run_split3 _ _ _ _ _ _ _ _ Et) as [c1 [c2 [c3 [E1 [E2 [E3 [E4 E5]]]]]]].
  cbn [fst snd] in *.
  assert (S2 : ex_c_lcon c2 = s).
  { unfold ex_cli_step in E2.
    destruct (s =? ex_c_lcon (ex_cancel_tok c1 k)) eqn:Ef.
    - injection E2 as _ Ex. destruct (ex_c_lres (ex_cancel_tok c1 k)); discriminate Ex.
    - unfold ex_deliver in E2. destruct (negb ok && negb (0 =? 2)); injection E2 as E2 _; subst c2; reflexivity. }
  assert (K : ex_c_lcon c3 = s).
  { rewrite E4, <- S2. apply ex_run_keeps_lcon. rewrite E3. exact D. }
  rewrite <- E5. unfold ex_cli_step.
  assert (Ec : ex_c_lcon (ex_cancel_tok c3 k') = ex_c_lcon c3).
  { unfold ex_cancel_tok. destruct (ex_c_q c3) as [q |]; [destruct (ex_q_tok q =? k') |]; cbn; auto. }
  rewrite Ec, K, Z.eqb_refl. cbn [snd]. unfold ex_delivers_kind. cbn.
  destruct (ex_c_lres (ex_cancel_tok c3 k')); reflexivity.
Qed.

(* a piggybacked response is delivered a second time only after a piggybacked response with
   another mid was delivered, or a new request took that mid, in between *)
Theorem ex_client_ack_filter : forall maxr c ins t1 s k ok st t2 k' ok' outs' t3,
  snd (ex_cli_run maxr c ins) =
    t1 ++ (ExRx (ExAckR s k) ok, [ExResp 2 s k st]) :: t2 ++ (ExRx (ExAckR s k') ok', outs') :: t3 ->
  (forall o, In o t2 -> ex_delivers_kind 2 o = false /\ ex_sends_mid s o = false) ->
  outs' = [].
Proof.
  intros maxr c ins t1 s k ok st t2 k' ok' outs' t3 Et D.
  destruct (ex_run_split3 _ _ _ _ _ _ _ _ Et) as [c1 [c2 [c3 [E1 [E2 [E3 [E4 E5]]]]]]].
  cbn [fst snd] in *.
  assert (S2 : ex_c_lack c2 = s).
  { unfold ex_cli_step in E2. destruct (ex_remove_mid c1 s) as [c0 sent].
    destruct (s =? ex_c_lack c0); [injection E2 as _ Ex; discriminate Ex |].
    unfold ex_deliver in E2. destruct (negb ok && negb (2 =? 2)); injection E2 as E2 _; subst c2; reflexivity. }
  assert (K : ex_c_lack c3 = s).
  { rewrite E4. apply ex_run_keeps_lack; [exact S2 |]. rewrite E3. exact D. }
  rewrite <- E5. unfold ex_cli_step.
  assert (Ec : ex_c_lack (fst (ex_remove_mid c3 s)) = ex_c_lack c3).
  { unfold ex_remove_mid. destruct (ex_c_q c3) as [q |]; [destruct (ex_q_mid q =? s) |]; cbn; auto. }
  destruct (ex_remove_mid c3 s) as [c0 sent]. cbn [fst] in Ec. rewrite Ec, K, Z.eqb_refl. reflexivity.
Qed.

(* C07 - the closed system: the client of Exchange.v, an abstract server with the response
   styles of the property's quantifier, and a network that loses, duplicates, delays and
   reorders datagrams.  A schedule is a list of [ex_act]; every theorem of SystemProofs.v
   quantifies over all schedules.

   Server (styles as in harness/h_exchange.c; the no-dedup variant is what a libcoap server
   with such handlers does, src/coap_net.c handle_request + src/coap_async.c):
     style 0   piggybacked response in the ACK
     style 1   separate Confirmable response sent at once, then the empty ACK
     style 2   separate Non-confirmable response sent at once, then the empty ACK
     style 3   coap_register_async: empty ACK now, Confirmable response when the delay fires
     other     coap_register_async: empty ACK now, Non-confirmable response later
   A request that arrives while its async entry is pending is only acknowledged again
   (handle_request: "re-transmit missing ACK").  Confirmable responses are retransmitted
   up to max_retransmit times until an ACK or RST with their mid arrives.

   Three switches name the hypotheses under which "at most once" holds; each of them is shown
   necessary by a refutation in Refute.v:
     ex_cf_dedup    the server processes a request once; a retransmitted request is only
                    acknowledged again (RFC 7252 4.5).  Off: every copy of the request that
                    arrives after the response went out is processed anew.
     ex_cf_quiet    the application sends the next request only when no datagram of earlier
                    exchanges is in flight and the server holds no work.
     ex_cf_patient  the client's give-up timer (the one that NACKs) fires only when nothing of
                    the exchange is left in the network or at the server.
   Definitions only. *)
From Coq Require Import ZArith List Bool.
From LibcoapV Require Import Exchange.Exchange Exchange.Accept.
Import ListNotations.
Local Open Scope Z_scope.

Record ex_cfg := {
  ex_cf_maxr : Z;
  ex_cf_dedup : bool;
  ex_cf_quiet : bool;
  ex_cf_patient : bool
}.

Record ex_pend := { ex_p_tok : Z; ex_p_sty : Z; ex_p_mid : Z }.
Record ex_conr := { ex_r_mid : Z; ex_r_tok : Z; ex_r_cnt : Z }.

Record ex_srv := {
  ex_s_seen : list (Z * Z);       (* requests processed: (mid, token) *)
  ex_s_pend : list ex_pend;       (* async registered, response not yet sent *)
  ex_s_con : list ex_conr;        (* Confirmable responses awaiting their ACK *)
  ex_s_mid : Z                    (* tx_mid of the server's session *)
}.

Definition ex_srv_init (mid0 : Z) : ex_srv := Build_ex_srv [] [] [] mid0.

Definition ex_next_mid (m : Z) : Z := (m + 1) mod 65536.

Definition ex_pend_has (k : Z) (l : list ex_pend) : bool :=
  existsb (fun p => ex_p_tok p =? k) l.

(* the server receives a datagram: new state and what it sends, in order *)
Definition ex_srv_rx (cf : ex_cfg) (s : ex_srv) (d : ex_dg) : ex_srv * list ex_dg :=
  match d with
  | ExReq m k sty =>
      if ex_cf_dedup cf && ex_mem2 m k (ex_s_seen s) then
        (s, [if sty =? 0 then ExAckR m k else ExAckE m])
      else if ex_pend_has k (ex_s_pend s) then (s, [ExAckE m])
      else
        let seen := (m, k) :: ex_s_seen s in
        if sty =? 0 then
          (Build_ex_srv seen (ex_s_pend s) (ex_s_con s) (ex_s_mid s), [ExAckR m k])
        else
          let n := ex_next_mid (ex_s_mid s) in
          if sty =? 1 then
            (Build_ex_srv seen (ex_s_pend s) (ex_s_con s ++ [Build_ex_conr n k 0]) n,
             [ExConR n k; ExAckE m])
          else if sty =? 2 then
            (Build_ex_srv seen (ex_s_pend s) (ex_s_con s) n, [ExNonR n k; ExAckE m])
          else
            (Build_ex_srv seen (ex_s_pend s ++ [Build_ex_pend k sty n]) (ex_s_con s) n,
             [ExAckE m])
  | ExAckE m | ExRst m =>
      (Build_ex_srv (ex_s_seen s) (ex_s_pend s)
                    (filter (fun r => negb (ex_r_mid r =? m)) (ex_s_con s)) (ex_s_mid s), [])
  | _ => (s, [])
  end.

Fixpoint ex_remove_nth {A : Type} (i : nat) (l : list A) : list A :=
  match l, i with
  | [], _ => []
  | _ :: tl, O => tl
  | x :: tl, S j => x :: ex_remove_nth j tl
  end.

(* the delay of the j-th async entry is over *)
Definition ex_srv_fire (s : ex_srv) (j : nat) : ex_srv * list ex_dg :=
  match nth_error (ex_s_pend s) j with
  | None => (s, [])
  | Some p =>
      let pend := ex_remove_nth j (ex_s_pend s) in
      if ex_p_sty p =? 3 then
        (Build_ex_srv (ex_s_seen s) pend
                      (ex_s_con s ++ [Build_ex_conr (ex_p_mid p) (ex_p_tok p) 0]) (ex_s_mid s),
         [ExConR (ex_p_mid p) (ex_p_tok p)])
      else
        (Build_ex_srv (ex_s_seen s) pend (ex_s_con s) (ex_s_mid s),
         [ExNonR (ex_p_mid p) (ex_p_tok p)])
  end.

Fixpoint ex_set_nth {A : Type} (i : nat) (x : A) (l : list A) : list A :=
  match l, i with
  | [], _ => []
  | _ :: tl, O => x :: tl
  | y :: tl, S j => y :: ex_set_nth j x tl
  end.

(* the retransmission timer of the j-th Confirmable response fires *)
Definition ex_srv_timer (maxr : Z) (s : ex_srv) (j : nat) : ex_srv * list ex_dg :=
  match nth_error (ex_s_con s) j with
  | None => (s, [])
  | Some r =>
      if ex_r_cnt r <? maxr then
        (Build_ex_srv (ex_s_seen s) (ex_s_pend s)
           (ex_set_nth j (Build_ex_conr (ex_r_mid r) (ex_r_tok r) (ex_r_cnt r + 1)) (ex_s_con s))
           (ex_s_mid s),
         [ExConR (ex_r_mid r) (ex_r_tok r)])
      else
        (Build_ex_srv (ex_s_seen s) (ex_s_pend s) (ex_remove_nth j (ex_s_con s)) (ex_s_mid s), [])
  end.

(* ------------------------------------------------------------------ the system *)
Record ex_sys := {
  ex_y_c : ex_cli;
  ex_y_s : ex_srv;
  ex_y_c2s : list ex_dg;          (* in flight towards the server *)
  ex_y_s2c : list ex_dg;          (* in flight towards the client *)
  ex_y_app : option Z             (* token of the exchange the application waits for *)
}.

Definition ex_sys_init (cmid0 smid0 : Z) : ex_sys :=
  Build_ex_sys (ex_cli_init cmid0 0) (ex_srv_init smid0) [] [] None.

Inductive ex_act :=
| ExASend (sty : Z)                 (* the application sends (one exchange outstanding) *)
| ExATimer                          (* the client's retransmission timer *)
| ExADelC (i : nat) (ok : bool)     (* network: deliver the i-th datagram to the client *)
| ExADupC (i : nat)                 (* network: duplicate it *)
| ExADropC (i : nat)                (* network: lose it *)
| ExADelS (i : nat)
| ExADupS (i : nat)
| ExADropS (i : nat)
| ExAFire (j : nat)                 (* server: the delay of an async entry is over *)
| ExASrvTimer (j : nat).            (* server: retransmission timer of a CON response *)

Definition ex_is_nil {A : Type} (l : list A) : bool := match l with [] => true | _ => false end.

Definition ex_quiet (y : ex_sys) : bool :=
  ex_is_nil (ex_y_c2s y) && ex_is_nil (ex_y_s2c y) &&
  ex_is_nil (ex_s_pend (ex_y_s y)) && ex_is_nil (ex_s_con (ex_y_s y)).

Fixpoint ex_txs (outs : list ex_out) : list ex_dg :=
  match outs with
  | [] => []
  | ExTx d :: tl => d :: ex_txs tl
  | _ :: tl => ex_txs tl
  end.

(* the handler / nack call that ends the application's wait for token k *)
Definition ex_out_ends (k : Z) (o : ex_out) : bool :=
  match o with
  | ExResp _ _ tok _ => tok =? k
  | ExNack tok _ _ => tok =? k
  | _ => false
  end.

Definition ex_app_after (app : option Z) (outs : list ex_out) : option Z :=
  match app with
  | Some k => if existsb (ex_out_ends k) outs then None else Some k
  | None => None
  end.

Definition ex_sent_tok (outs : list ex_out) : option Z :=
  match outs with
  | [ExTx (ExReq _ k _)] => Some k
  | _ => None
  end.

(* one client step inside the system *)
Definition ex_sys_client (cf : ex_cfg) (y : ex_sys) (i : ex_cin) (s2c : list ex_dg)
  : ex_sys * list ex_obs :=
  let (c1, outs) := ex_cli_step (ex_cf_maxr cf) (ex_y_c y) i in
  let app := match i with
             | ExSend _ => match ex_sent_tok outs with Some k => Some k | None => ex_y_app y end
             | _ => ex_app_after (ex_y_app y) outs
             end in
  (Build_ex_sys c1 (ex_y_s y) (ex_y_c2s y ++ ex_txs outs) s2c app, [(i, outs)]).

Definition ex_will_nack (cf : ex_cfg) (c : ex_cli) : bool :=
  match ex_c_q c with
  | Some q => negb (ex_q_cnt q <? ex_cf_maxr cf)
  | None => false
  end.

Definition ex_sys_step (cf : ex_cfg) (y : ex_sys) (a : ex_act) : ex_sys * list ex_obs :=
  match a with
  | ExASend sty =>
      match ex_y_app y with
      | Some _ => (y, [])
      | None =>
          if ex_cf_quiet cf && negb (ex_quiet y) then (y, [])
          else ex_sys_client cf y (ExSend sty) (ex_y_s2c y)
      end
  | ExATimer =>
      if ex_cf_patient cf && ex_will_nack cf (ex_y_c y) && negb (ex_quiet y) then (y, [])
      else ex_sys_client cf y ExTimer (ex_y_s2c y)
  | ExADelC i ok =>
      match nth_error (ex_y_s2c y) i with
      | None => (y, [])
      | Some d => ex_sys_client cf y (ExRx d ok) (ex_remove_nth i (ex_y_s2c y))
      end
  | ExADupC i =>
      match nth_error (ex_y_s2c y) i with
      | None => (y, [])
      | Some d => (Build_ex_sys (ex_y_c y) (ex_y_s y) (ex_y_c2s y) (ex_y_s2c y ++ [d])
                                (ex_y_app y), [])
      end
  | ExADropC i =>
      (Build_ex_sys (ex_y_c y) (ex_y_s y) (ex_y_c2s y) (ex_remove_nth i (ex_y_s2c y))
                    (ex_y_app y), [])
  | ExADelS i =>
      match nth_error (ex_y_c2s y) i with
      | None => (y, [])
      | Some d =>
          let (s1, ds) := ex_srv_rx cf (ex_y_s y) d in
          (Build_ex_sys (ex_y_c y) s1 (ex_remove_nth i (ex_y_c2s y)) (ex_y_s2c y ++ ds)
                        (ex_y_app y), [])
      end
  | ExADupS i =>
      match nth_error (ex_y_c2s y) i with
      | None => (y, [])
      | Some d => (Build_ex_sys (ex_y_c y) (ex_y_s y) (ex_y_c2s y ++ [d]) (ex_y_s2c y)
                                (ex_y_app y), [])
      end
  | ExADropS i =>
      (Build_ex_sys (ex_y_c y) (ex_y_s y) (ex_remove_nth i (ex_y_c2s y)) (ex_y_s2c y)
                    (ex_y_app y), [])
  | ExAFire j =>
      let (s1, ds) := ex_srv_fire (ex_y_s y) j in
      (Build_ex_sys (ex_y_c y) s1 (ex_y_c2s y) (ex_y_s2c y ++ ds) (ex_y_app y), [])
  | ExASrvTimer j =>
      let (s1, ds) := ex_srv_timer (ex_cf_maxr cf) (ex_y_s y) j in
      (Build_ex_sys (ex_y_c y) s1 (ex_y_c2s y) (ex_y_s2c y ++ ds) (ex_y_app y), [])
  end.

Fixpoint ex_sys_run (cf : ex_cfg) (y : ex_sys) (acts : list ex_act) : ex_sys * list ex_obs :=
  match acts with
  | [] => (y, [])
  | a :: tl =>
      let (y1, o) := ex_sys_step cf y a in
      let (y2, t) := ex_sys_run cf y1 tl in
      (y2, o ++ t)
  end.

Definition ex_sys_trace (cf : ex_cfg) (y : ex_sys) (acts : list ex_act) : list ex_obs :=
  snd (ex_sys_run cf y acts).

(* every hypothesis on *)
Definition ex_cfg_guarded (maxr : Z) : ex_cfg := Build_ex_cfg maxr true true true.

(* ------------------------------------------------------------------ liveness vocabulary *)
(* tokens whose response is irrecoverably lost by this action: the network loses a
   Non-confirmable response (it is sent once), or the server gives up retransmitting a
   Confirmable response (no ACK for any of its max_retransmit + 1 transmissions) *)
Definition ex_lost_step (cf : ex_cfg) (y : ex_sys) (a : ex_act) : list Z :=
  match a with
  | ExADropC i =>
      match nth_error (ex_y_s2c y) i with
      | Some (ExNonR _ k) => [k]
      | _ => []
      end
  | ExASrvTimer j =>
      match nth_error (ex_s_con (ex_y_s y)) j with
      | Some r => if ex_r_cnt r <? ex_cf_maxr cf then [] else [ex_r_tok r]
      | None => []
      end
  | _ => []
  end.

Fixpoint ex_lost_run (cf : ex_cfg) (y : ex_sys) (acts : list ex_act) : list Z :=
  match acts with
  | [] => []
  | a :: tl => ex_lost_step cf y a ++ ex_lost_run cf (fst (ex_sys_step cf y a)) tl
  end.

(* the handler or the nack handler was called for token k *)
Definition ex_answered (k : Z) (t : list ex_obs) : Prop :=
  exists o out, In o t /\ In out (snd o) /\ ex_out_ends k out = true.

(* nothing is in flight, the server holds no work, the client's send queue is empty *)
Definition ex_at_rest (y : ex_sys) : bool :=
  ex_quiet y && match ex_c_q (ex_y_c y) with None => true | Some _ => false end.

(* C07 - soundness of the acceptor: a trace the judge accepts has the property of Spec.v. *)
From LibcoapV Require Import Base.Tactics Exchange.Exchange Exchange.Accept Exchange.Spec.
Local Open Scope Z_scope.

(* ------------------------------------------------------------------ small facts *)
Lemma ex_memz_In : forall x l, ex_memz x l = true <-> In x l.
Proof.
  intros x l. unfold ex_memz. rewrite existsb_exists. split.
  - intros [y [Hy E]]. apply Z.eqb_eq in E. subst. exact Hy.
  - intros H. exists x. split; [exact H | apply Z.eqb_refl].
Qed.

Lemma ex_mem2_In : forall a b l, ex_mem2 a b l = true <-> In (a, b) l.
Proof.
  intros a b l. unfold ex_mem2. rewrite existsb_exists. split.
  - intros [[x y] [Hy E]]. cbn [fst snd] in E. apply andb_true_iff in E. destruct E as [E1 E2].
    apply Z.eqb_eq in E1. apply Z.eqb_eq in E2. subst. exact Hy.
  - intros H. exists (a, b). split; [exact H |]. cbn [fst snd]. rewrite !Z.eqb_refl. reflexivity.
Qed.

Lemma ex_dg_eqb_eq : forall a b, ex_dg_eqb a b = true -> a = b.
Proof.
  intros a b H. destruct a, b; cbn in H; try discriminate;
    repeat (apply andb_true_iff in H; destruct H as [H ?]);
    repeat match goal with E : (_ =? _) = true |- _ => apply Z.eqb_eq in E end; subst; reflexivity.
Qed.

Lemma ex_is_tx_eq : forall o d, ex_is_tx o d = true -> o = ExTx d.
Proof.
  intros o d H. destruct o; cbn in H; try discriminate. apply ex_dg_eqb_eq in H. subst. reflexivity.
Qed.

Lemma ex_is_resp_eq : forall o kind mid tok,
  ex_is_resp o kind mid tok = true -> exists st, o = ExResp kind mid tok st.
Proof.
  intros o kind mid tok H. destruct o; cbn in H; try discriminate.
  apply andb_true_iff in H. destruct H as [H H3]. apply andb_true_iff in H. destruct H as [H1 H2].
  apply Z.eqb_eq in H1. apply Z.eqb_eq in H2. apply Z.eqb_eq in H3. subst. eexists. reflexivity.
Qed.

Lemma ex_is_skip_eq : forall o, ex_is_skip o = true -> o = ExSkip.
Proof. intros o H. destruct o; cbn in H; try discriminate. reflexivity. Qed.

(* ------------------------------------------------------------------ accepted steps *)
Definition ex_mon_concl (m : ex_mon) (tok : Z) (last : option (Z * bool)) (cons acks : list Z)
  : ex_mon :=
  Build_ex_mon (ex_m_reqs m) (tok :: ex_m_done m) (tok :: ex_m_stop m) cons acks last.

Definition ex_fresh (strict : bool) (m : ex_mon) (tok : Z) : Prop :=
  strict = true -> ex_memz tok (ex_m_done m) = false.

Inductive ex_step_ok (strict : bool) (m : ex_mon) : ex_obs -> ex_mon -> Prop :=
| SoSkip : forall sty, ex_step_ok strict m (ExSend sty, [ExSkip]) m
| SoSend : forall sty mid tok,
    ex_memz tok (ex_toks m) = false ->
    ex_step_ok strict m (ExSend sty, [ExTx (ExReq mid tok sty)])
      (Build_ex_mon ((mid, tok) :: ex_m_reqs m) (ex_m_done m) (ex_m_stop m) (ex_m_cons m)
                    (ex_m_acks m) (ex_m_last m))
| SoTimerNone : ex_step_ok strict m (ExTimer, []) m
| SoTimerTx : forall mid tok s,
    In (mid, tok) (ex_m_reqs m) -> ex_memz tok (ex_m_stop m) = false ->
    ex_step_ok strict m (ExTimer, [ExTx (ExReq mid tok s)]) m
| SoTimerNack : forall mid tok,
    In (mid, tok) (ex_m_reqs m) -> ex_fresh strict m tok ->
    ex_step_ok strict m (ExTimer, [ExNack tok 0 mid])
      (ex_mon_concl m tok (ex_m_last m) (ex_m_cons m) (ex_m_acks m))
| SoAckE : forall mid ok, ex_step_ok strict m (ExRx (ExAckE mid) ok, []) m
| SoAckRDup : forall mid tok ok,
    In mid (ex_m_acks m) -> ex_step_ok strict m (ExRx (ExAckR mid tok) ok, []) m
| SoAckR : forall mid tok ok st,
    In (mid, tok) (ex_m_reqs m) -> ex_fresh strict m tok ->
    ex_step_ok strict m (ExRx (ExAckR mid tok) ok, [ExResp 2 mid tok st])
      (ex_mon_concl m tok None (ex_m_cons m) (mid :: ex_m_acks m))
| SoConR : forall mid tok ok st,
    In tok (ex_toks m) -> ex_last_is m mid = false -> ex_fresh strict m tok ->
    ex_step_ok strict m
      (ExRx (ExConR mid tok) ok, [ExResp 0 mid tok st; ExTx (if ok then ExAckE mid else ExRst mid)])
      (ex_mon_concl m tok (Some (mid, ok)) (mid :: ex_m_cons m) (ex_m_acks m))
| SoConRDup : forall mid tok ok (isack : bool),
    In mid (ex_m_cons m) ->
    (forall la, ex_m_last m = Some (mid, la) -> la = isack) ->
    ex_step_ok strict m
      (ExRx (ExConR mid tok) ok, [ExTx (if isack then ExAckE mid else ExRst mid)]) m
| SoNonR : forall mid tok ok st,
    In tok (ex_toks m) ->
    ex_step_ok strict m (ExRx (ExNonR mid tok) ok, [ExResp 1 mid tok st])
      (Build_ex_mon (ex_m_reqs m) (ex_m_done m) (tok :: ex_m_stop m) (ex_m_cons m) (ex_m_acks m)
                    None)
| SoNonRRst : forall mid tok st,
    In tok (ex_toks m) ->
    ex_step_ok strict m (ExRx (ExNonR mid tok) false, [ExResp 1 mid tok st; ExTx (ExRst mid)])
      (Build_ex_mon (ex_m_reqs m) (ex_m_done m) (tok :: ex_m_stop m) (ex_m_cons m) (ex_m_acks m)
                    None)
| SoRstNack : forall mid tok ok,
    In (mid, tok) (ex_m_reqs m) -> ex_fresh strict m tok ->
    ex_step_ok strict m (ExRx (ExRst mid) ok, [ExNack tok 2 mid])
      (ex_mon_concl m tok (ex_m_last m) (ex_m_cons m) (ex_m_acks m))
| SoRstNull : forall mid ok,
    ex_step_ok strict m (ExRx (ExRst mid) ok, [ExNackNull 2 mid]) m.

Lemma ex_conclude_inv : forall strict m tok last cons acks m',
  ex_conclude strict m tok last cons acks = ExOk m' ->
  ex_fresh strict m tok /\ m' = ex_mon_concl m tok last cons acks.
Proof.
  intros strict m tok last cons acks m' H. unfold ex_conclude in H.
  destruct (strict && ex_memz tok (ex_m_done m)) eqn:E; [discriminate |].
  inversion H. split; [| reflexivity].
  intros Hs. subst strict. cbn in E. exact E.
Qed.

Lemma ex_j_nack_inv : forall strict m tok mid m',
  ex_j_nack strict m tok mid = ExOk m' ->
  In (mid, tok) (ex_m_reqs m) /\ ex_fresh strict m tok /\
  m' = ex_mon_concl m tok (ex_m_last m) (ex_m_cons m) (ex_m_acks m).
Proof.
  intros strict m tok mid m' H. unfold ex_j_nack in H.
  destruct (ex_mem2 mid tok (ex_m_reqs m)) eqn:E; cbn in H; [| discriminate].
  apply ex_mem2_In in E. apply ex_conclude_inv in H. tauto.
Qed.

Lemma ex_judge_step_inv : forall strict m o m',
  ex_judge_step strict m o = ExOk m' -> ex_step_ok strict m o m'.
Proof.
  intros strict m [i outs] m' H. unfold ex_judge_step in H. cbn [fst snd] in H.
  destruct i as [sty | | d ok].
  - (* send *)
    unfold ex_j_send in H.
    destruct outs as [| a l]; [discriminate |].
    destruct a as [d | | | |]; try (destruct l; cbn in H; discriminate).
    + destruct d as [mid tok sty' | | | | |]; try (destruct l; cbn in H; discriminate).
      destruct l; [| discriminate].
      destruct (sty =? sty') eqn:E1; cbn in H; [| discriminate].
      apply Z.eqb_eq in E1. subst sty'.
      destruct (ex_memz tok (ex_toks m)) eqn:E2; [discriminate |].
      inversion H. apply SoSend. exact E2.
    + destruct l; [| discriminate]. cbn in H. inversion H. apply SoSkip.
  - (* timer *)
    unfold ex_j_timer in H.
    destruct outs as [| a l].
    + inversion H. apply SoTimerNone.
    + destruct a as [d | | tok reason mid | |]; try (destruct l; discriminate).
      * destruct d as [mid tok s | | | | |]; try (destruct l; discriminate).
        destruct l; [| discriminate].
        destruct (ex_mem2 mid tok (ex_m_reqs m)) eqn:E1; cbn in H; [| discriminate].
        destruct (ex_memz tok (ex_m_stop m)) eqn:E2; [discriminate |].
        inversion H. subst m'. apply SoTimerTx; [apply ex_mem2_In; exact E1 | exact E2].
      * destruct l; [| discriminate].
        destruct (reason =? 0) eqn:E1; [| discriminate]. apply Z.eqb_eq in E1. subst reason.
        apply ex_j_nack_inv in H. destruct H as [H1 [H2 H3]]. subst m'.
        apply SoTimerNack; assumption.
  - destruct d as [mid tok sty | mid | mid tok | mid tok | mid tok | mid].
    + discriminate.
    + destruct outs; [| discriminate]. inversion H. apply SoAckE.
    + (* piggybacked *)
      unfold ex_j_ackr in H. destruct outs as [| a [| b l]]; try discriminate.
      * destruct (ex_memz mid (ex_m_acks m)) eqn:E; [| discriminate]. inversion H. subst m'.
        apply SoAckRDup. apply ex_memz_In. exact E.
      * destruct (ex_is_resp a 2 mid tok) eqn:E1; cbn in H; [| discriminate].
        destruct (ex_mem2 mid tok (ex_m_reqs m)) eqn:E2; cbn in H; [| discriminate].
        apply ex_is_resp_eq in E1. destruct E1 as [st E1]. subst a.
        apply ex_conclude_inv in H. destruct H as [H1 H2]. subst m'.
        apply SoAckR; [apply ex_mem2_In; exact E2 | exact H1].
    + (* CON response *)
      unfold ex_j_conr in H. destruct outs as [| a [| b [| c l]]]; try discriminate.
      * (* [b] *)
        destruct (ex_is_tx a (ExAckE mid) || ex_is_tx a (ExRst mid)) eqn:E1; cbn in H;
          [| discriminate].
        destruct (ex_memz mid (ex_m_cons m)) eqn:E2; cbn in H; [| discriminate].
        apply ex_memz_In in E2.
        apply orb_true_iff in E1.
        destruct (ex_m_last m) as [[lm la] |] eqn:EL.
        -- destruct ((lm =? mid) && negb (ex_is_tx a (if la then ExAckE mid else ExRst mid))) eqn:E3;
             [discriminate |].
           inversion H. subst m'.
           destruct E1 as [E1 | E1]; apply ex_is_tx_eq in E1; subst a.
           ++ apply (SoConRDup strict m mid tok ok true); [exact E2 |].
              intros la' HL. rewrite EL in HL. inversion HL. subst lm la'.
              rewrite Z.eqb_refl in E3. cbn in E3. destruct la; [reflexivity |].
              cbn in E3. discriminate.
           ++ apply (SoConRDup strict m mid tok ok false); [exact E2 |].
              intros la' HL. rewrite EL in HL. inversion HL. subst lm la'.
              rewrite Z.eqb_refl in E3. cbn in E3. destruct la; [| reflexivity].
              cbn in E3. discriminate.
        -- inversion H. subst m'.
           destruct E1 as [E1 | E1]; apply ex_is_tx_eq in E1; subst a.
           ++ apply (SoConRDup strict m mid tok ok true); [exact E2 |].
              intros la' HL. rewrite EL in HL. discriminate.
           ++ apply (SoConRDup strict m mid tok ok false); [exact E2 |].
              intros la' HL. rewrite EL in HL. discriminate.
      * (* [a; b] *)
        destruct (ex_is_resp a 0 mid tok) eqn:E1; cbn in H; [| discriminate].
        destruct (ex_is_tx b (if ok then ExAckE mid else ExRst mid)) eqn:E2; cbn in H;
          [| discriminate].
        destruct (ex_memz tok (ex_toks m)) eqn:E3; cbn in H; [| discriminate].
        destruct (ex_last_is m mid) eqn:E4; [discriminate |].
        apply ex_is_resp_eq in E1. destruct E1 as [st E1]. subst a.
        apply ex_is_tx_eq in E2. subst b.
        apply ex_conclude_inv in H. destruct H as [H1 H2]. subst m'.
        apply SoConR; [apply ex_memz_In; exact E3 | exact E4 | exact H1].
    + (* NON response *)
      unfold ex_j_nonr in H. destruct outs as [| a [| b [| c l]]]; try discriminate.
      * destruct (ex_is_resp a 1 mid tok) eqn:E1; cbn in H; [| discriminate].
        destruct (ex_memz tok (ex_toks m)) eqn:E3; cbn in H; [| discriminate].
        apply ex_is_resp_eq in E1. destruct E1 as [st E1]. subst a.
        inversion H. apply SoNonR. apply ex_memz_In. exact E3.
      * destruct (ex_is_resp a 1 mid tok) eqn:E1; cbn in H; [| discriminate].
        destruct (ok || negb (ex_is_tx b (ExRst mid))) eqn:E2; [discriminate |].
        destruct (ex_memz tok (ex_toks m)) eqn:E3; cbn in H; [| discriminate].
        apply ex_is_resp_eq in E1. destruct E1 as [st E1]. subst a.
        apply orb_false_iff in E2. destruct E2 as [E2a E2b]. subst ok.
        apply negb_false_iff in E2b. apply ex_is_tx_eq in E2b. subst b.
        inversion H. apply SoNonRRst. apply ex_memz_In. exact E3.
    + (* Reset *)
      unfold ex_j_rst in H. destruct outs as [| a l]; [discriminate |].
      destruct a as [| | tok reason mid' | reason mid' |]; try (destruct l; discriminate).
      * destruct l; [| discriminate].
        destruct ((reason =? 2) && (mid =? mid')) eqn:E1; cbn in H; [| discriminate].
        apply andb_true_iff in E1. destruct E1 as [E1 E2].
        apply Z.eqb_eq in E1. apply Z.eqb_eq in E2. subst reason mid'.
        apply ex_j_nack_inv in H. destruct H as [H1 [H2 H3]]. subst m'.
        apply SoRstNack; assumption.
      * destruct l; [| discriminate].
        destruct ((reason =? 2) && (mid =? mid')) eqn:E1; [| discriminate].
        apply andb_true_iff in E1. destruct E1 as [E1 E2].
        apply Z.eqb_eq in E1. apply Z.eqb_eq in E2. subst reason mid'.
        inversion H. apply SoRstNull.
Qed.

(* ------------------------------------------------------------------ the judge as a fold *)
Lemma ex_bad_nonzero : forall strict m o c, ex_judge_step strict m o = ExBad c -> c <> 0.
Proof.
  intros strict m [i outs] c H.
  unfold ex_judge_step, ex_j_send, ex_j_timer, ex_j_ackr, ex_j_conr, ex_j_nonr, ex_j_rst,
    ex_j_nack, ex_conclude in H.
  cbn [fst snd] in H.
  repeat match type of H with
         | context [match ?x with _ => _ end] => destruct x
         end;
    try discriminate; inversion H; discriminate.
Qed.

Lemma ex_judge_from_cons : forall strict m o t,
  ex_judge_from strict m (o :: t) = 0 ->
  exists m', ex_step_ok strict m o m' /\ ex_judge_from strict m' t = 0.
Proof.
  intros strict m o t H. cbn [ex_judge_from] in H.
  destruct (ex_judge_step strict m o) as [m' | c] eqn:E.
  - exists m'. split; [apply ex_judge_step_inv; exact E | exact H].
  - apply ex_bad_nonzero in E. contradiction.
Qed.

(* the monitor states along an accepted trace *)
Inductive ex_mon_path (strict : bool) : ex_mon -> list ex_obs -> ex_mon -> Prop :=
| MpNil : forall m, ex_mon_path strict m [] m
| MpCons : forall m o m1 t m2,
    ex_step_ok strict m o m1 -> ex_mon_path strict m1 t m2 -> ex_mon_path strict m (o :: t) m2.

Lemma ex_judge_path : forall strict t m,
  ex_judge_from strict m t = 0 -> exists m', ex_mon_path strict m t m'.
Proof.
  intros strict t. induction t as [| o t IH]; intros m H.
  - exists m. constructor.
  - apply ex_judge_from_cons in H. destruct H as [m1 [H1 H2]].
    destruct (IH m1 H2) as [m2 H3]. exists m2. econstructor; eassumption.
Qed.

Lemma ex_mon_path_cons_inv : forall strict m o t m2,
  ex_mon_path strict m (o :: t) m2 ->
  exists m1, ex_step_ok strict m o m1 /\ ex_mon_path strict m1 t m2.
Proof. intros strict m o t m2 H. inversion H; subst. eauto. Qed.

Lemma ex_mon_path_nil_inv : forall strict m m2, ex_mon_path strict m [] m2 -> m2 = m.
Proof. intros strict m m2 H. inversion H; subst. reflexivity. Qed.

Lemma ex_mon_path_app : forall strict t1 t2 m m2,
  ex_mon_path strict m (t1 ++ t2) m2 ->
  exists m1, ex_mon_path strict m t1 m1 /\ ex_mon_path strict m1 t2 m2.
Proof.
  intros strict t1. induction t1 as [| o t1 IH]; intros t2 m m2 H.
  - exists m. split; [constructor | exact H].
  - cbn [app] in H. apply ex_mon_path_cons_inv in H. destruct H as [m1 [Hs Hp]].
    destruct (IH _ _ _ Hp) as [mm [Ha Hb]].
    exists mm. split; [econstructor; eassumption | exact Hb].
Qed.

Lemma ex_mon_path_in : forall strict t m m2 o,
  ex_mon_path strict m t m2 -> In o t -> exists ma mb, ex_step_ok strict ma o mb.
Proof.
  intros strict t. induction t as [| o1 t IH]; intros m m2 o H Hin; [destruct Hin |].
  apply ex_mon_path_cons_inv in H. destruct H as [m1 [Hs Hp]]. destruct Hin as [-> | Hin].
  - eauto.
  - eapply IH; eassumption.
Qed.

(* ------------------------------------------------------------------ per-step clauses *)
Lemma ex_sound_conack : forall strict t m m2, ex_mon_path strict m t m2 -> ex_P_conack t.
Proof.
  intros strict t m m2 H s k ok outs Hin.
  destruct (ex_mon_path_in _ _ _ _ _ H Hin) as [ma [mb Hs]].
  unfold ex_con_answer_ok. inversion Hs; subst.
  - left. eexists. reflexivity.
  - destruct isack; tauto.
Qed.

Lemma ex_sound_non : forall strict t m m2, ex_mon_path strict m t m2 -> ex_P_non t.
Proof.
  intros strict t m m2 H s k ok outs Hin.
  destruct (ex_mon_path_in _ _ _ _ _ H Hin) as [ma [mb Hs]].
  inversion Hs; subst; eexists; [left | right]; eauto.
Qed.

(* ------------------------------------------------------------------ at most once *)
Definition ex_b2n (b : bool) : nat := if b then 1%nat else 0%nat.

Lemma ex_memz_cons : forall x y l, ex_memz x (y :: l) = (x =? y) || ex_memz x l.
Proof. reflexivity. Qed.

Lemma ex_step_count : forall m o m' k,
  ex_step_ok true m o m' ->
  (length (filter (ex_is_concl k) (snd o)) + ex_b2n (ex_memz k (ex_m_done m))
   <= ex_b2n (ex_memz k (ex_m_done m')))%nat.
Proof.
  intros m o m' k H.
  assert (Hc : forall tok, ex_fresh true m tok ->
             ((if Z.eqb tok k then 1 else 0) + ex_b2n (ex_memz k (ex_m_done m))
              <= ex_b2n (ex_memz k (tok :: ex_m_done m)))%nat).
  { intros tok Hf. rewrite ex_memz_cons. rewrite (Z.eqb_sym k tok).
    destruct (tok =? k) eqn:E.
    - apply Z.eqb_eq in E. subst tok. rewrite (Hf eq_refl). cbn. lia.
    - cbn. lia. }
  inversion H; subst; cbn [snd filter ex_is_concl ex_mon_concl ex_m_done length];
    try (cbn; lia).
  - (* timer nack *) specialize (Hc tok H1). destruct (tok =? k); cbn [length] in *; lia.
  - (* piggybacked *) specialize (Hc tok H1).
    replace (negb (2 =? 1)) with true by reflexivity. cbn [andb].
    destruct (tok =? k); cbn [length] in *; lia.
  - (* CON *) specialize (Hc tok H2).
    replace (negb (0 =? 1)) with true by reflexivity. cbn [andb].
    destruct (tok =? k); cbn [length] in *; lia.
  - (* reset *) specialize (Hc tok H1). destruct (tok =? k); cbn [length] in *; lia.
Qed.

Lemma ex_concl_count_cons : forall k o t,
  ex_concl_count k (o :: t) = (length (filter (ex_is_concl k) (snd o)) + ex_concl_count k t)%nat.
Proof.
  intros. unfold ex_concl_count, ex_outs_of. cbn [flat_map].
  rewrite filter_app, app_length. reflexivity.
Qed.

Lemma ex_path_once : forall t m m2 k,
  ex_mon_path true m t m2 ->
  (ex_concl_count k t + ex_b2n (ex_memz k (ex_m_done m)) <= 1)%nat.
Proof.
  intros t. induction t as [| o t IH]; intros m m2 k H.
  - unfold ex_concl_count. cbn. destruct (ex_memz k (ex_m_done m)); cbn; lia.
  - apply ex_mon_path_cons_inv in H. destruct H as [m1 [Hs Hp]]. rewrite ex_concl_count_cons.
    pose proof (ex_step_count _ _ _ k Hs). pose proof (IH _ _ k Hp). lia.
Qed.

Lemma ex_sound_once : forall t m2, ex_mon_path true ex_mon_init t m2 -> ex_P_once t.
Proof.
  intros t m2 H k. pose proof (ex_path_once _ _ _ k H). lia.
Qed.

(* ------------------------------------------------------------------ the handler's token *)
Definition ex_reqs_ok (m : ex_mon) (t0 : list ex_obs) : Prop :=
  forall mid tok, In (mid, tok) (ex_m_reqs m) -> ex_sent_req mid tok t0.

Lemma ex_sent_req_mono : forall mid tok t0 t1,
  ex_sent_req mid tok t0 -> ex_sent_req mid tok (t0 ++ t1).
Proof. intros mid tok t0 t1 [s H]. exists s. apply in_or_app. left. exact H. Qed.

Lemma ex_step_reqs : forall strict m o m' t0,
  ex_step_ok strict m o m' -> ex_reqs_ok m t0 -> ex_reqs_ok m' (t0 ++ [o]).
Proof.
  intros strict m o m' t0 H R mid tok Hin.
  inversion H; subst; cbn [ex_m_reqs ex_mon_concl] in Hin;
    try (apply ex_sent_req_mono; apply R; exact Hin).
  destruct Hin as [E | Hin].
  - inversion E; subst. exists sty. apply in_or_app. right. left. reflexivity.
  - apply ex_sent_req_mono. apply R. exact Hin.
Qed.

Lemma ex_path_reqs : forall strict t1 m m1 t0,
  ex_mon_path strict m t1 m1 -> ex_reqs_ok m t0 -> ex_reqs_ok m1 (t0 ++ t1).
Proof.
  intros strict t1. induction t1 as [| o t1 IH]; intros m m1 t0 H R.
  - apply ex_mon_path_nil_inv in H. subst. rewrite app_nil_r. exact R.
  - apply ex_mon_path_cons_inv in H. destruct H as [mx [Hs Hp]].
    replace (t0 ++ o :: t1) with ((t0 ++ [o]) ++ t1) by (rewrite <- app_assoc; reflexivity).
    eapply IH; [eassumption |]. eapply ex_step_reqs; eassumption.
Qed.

Lemma ex_toks_In : forall m tok, In tok (ex_toks m) -> exists mid, In (mid, tok) (ex_m_reqs m).
Proof.
  intros m tok H. unfold ex_toks in H. apply in_map_iff in H.
  destruct H as [[a b] [E H]]. cbn in E. subst b. exists a. exact H.
Qed.

Lemma ex_sound_token : forall strict t m2, ex_mon_path strict ex_mon_init t m2 -> ex_P_token t.
Proof.
  intros strict t m2 H t1 i outs t2 kind mid k st Et Hin. subst t.
  apply ex_mon_path_app in H. destruct H as [m1 [Ha Hb]].
  assert (R : ex_reqs_ok m1 t1).
  { apply (ex_path_reqs _ _ _ _ [] Ha). intros a b Hab. destruct Hab. }
  apply ex_mon_path_cons_inv in Hb. destruct Hb as [mx [Hs _]].
  inversion Hs; subst; cbn [In] in Hin;
    repeat match goal with
           | Hx : _ \/ _ |- _ => destruct Hx
           | Hx : False |- _ => destruct Hx
           end; try discriminate;
    match goal with Hx : _ = ExResp _ _ _ _ |- _ => inversion Hx; subst end.
  - split; [exists mid | intros _]; apply R; assumption.
  - split; [| intros; discriminate].
    match goal with Hx : In _ (ex_toks _) |- _ => destruct (ex_toks_In _ _ Hx) as [mm Hm] end.
    exists mm. apply R. exact Hm.
  - split; [| intros; discriminate].
    match goal with Hx : In _ (ex_toks _) |- _ => destruct (ex_toks_In _ _ Hx) as [mm Hm] end.
    exists mm. apply R. exact Hm.
  - split; [| intros; discriminate].
    match goal with Hx : In _ (ex_toks _) |- _ => destruct (ex_toks_In _ _ Hx) as [mm Hm] end.
    exists mm. apply R. exact Hm.
Qed.

(* ------------------------------------------------------------------ no transmission afterwards *)
Definition ex_stop_sub (m : ex_mon) : Prop :=
  forall k, In k (ex_m_stop m) -> In k (ex_toks m).

Lemma ex_step_stop_sub : forall strict m o m',
  ex_step_ok strict m o m' -> ex_stop_sub m -> ex_stop_sub m'.
Proof.
  intros strict m o m' H S k Hin. unfold ex_toks in *.
  assert (P : forall mid tok, In (mid, tok) (ex_m_reqs m) -> In tok (map snd (ex_m_reqs m))).
  { intros mid tok Hx. apply in_map_iff. exists (mid, tok). split; [reflexivity | exact Hx]. }
  inversion H; subst; cbn [ex_m_stop ex_m_reqs ex_mon_concl map snd In] in *;
    try (apply S; exact Hin);
    try (destruct Hin as [<- | Hin]; [eauto | apply S; exact Hin]).
  right. apply S. exact Hin.
Qed.

Lemma ex_step_stop_mono : forall strict m o m' k,
  ex_step_ok strict m o m' -> In k (ex_m_stop m) -> In k (ex_m_stop m').
Proof.
  intros strict m o m' k H Hin.
  inversion H; subst; cbn [ex_m_stop ex_mon_concl In]; auto.
Qed.

Lemma ex_step_ends : forall strict m o m' k,
  ex_step_ok strict m o m' -> ex_ends k o -> In k (ex_m_stop m').
Proof.
  intros strict m o m' k H [[kind [mid [st Hin]]] | [r [mid Hin]]];
    inversion H; subst; cbn [snd In] in Hin;
    repeat match goal with
           | Hx : _ \/ _ |- _ => destruct Hx
           | Hx : False |- _ => destruct Hx
           end; try discriminate; try (destruct ok; discriminate);
    try (destruct isack; discriminate);
    repeat match goal with
           | Hx : ExResp _ _ _ _ = ExResp _ _ _ _ |- _ => inversion Hx; subst; clear Hx
           | Hx : ExNack _ _ _ = ExNack _ _ _ |- _ => inversion Hx; subst; clear Hx
           end;
    cbn [ex_m_stop ex_mon_concl In]; auto.
Qed.

Lemma ex_path_stop_mono : forall strict t m m2 k,
  ex_mon_path strict m t m2 -> In k (ex_m_stop m) -> In k (ex_m_stop m2).
Proof.
  intros strict t. induction t as [| o t IH]; intros m m2 k H Hin.
  - apply ex_mon_path_nil_inv in H. subst. exact Hin.
  - apply ex_mon_path_cons_inv in H. destruct H as [mx [Hs Hp]].
    eapply IH; [eassumption |]. eapply ex_step_stop_mono; eassumption.
Qed.

Lemma ex_path_stop_sub : forall strict t m m2,
  ex_mon_path strict m t m2 -> ex_stop_sub m -> ex_stop_sub m2.
Proof.
  intros strict t. induction t as [| o t IH]; intros m m2 H S.
  - apply ex_mon_path_nil_inv in H. subst. exact S.
  - apply ex_mon_path_cons_inv in H. destruct H as [mx [Hs Hp]].
    eapply IH; [eassumption |]. eapply ex_step_stop_sub; eassumption.
Qed.

Lemma ex_step_no_tx : forall strict m o m' mid k s,
  ex_step_ok strict m o m' -> ex_stop_sub m -> In k (ex_m_stop m) ->
  ~ In (ExTx (ExReq mid k s)) (snd o).
Proof.
  intros strict m o m' mid k s H S Hk Hin.
  inversion H; subst; cbn [snd In] in Hin;
    repeat match goal with
           | Hx : _ \/ _ |- _ => destruct Hx
           | Hx : False |- _ => destruct Hx
           end; try discriminate.
  - (* send: the token is fresh *)
    match goal with Hx : ExTx _ = ExTx _ |- _ => inversion Hx; subst end.
    apply S in Hk. apply ex_memz_In in Hk. congruence.
  - (* timer *)
    match goal with Hx : ExTx _ = ExTx _ |- _ => inversion Hx; subst end.
    apply ex_memz_In in Hk. congruence.
  - destruct ok; discriminate.
  - destruct isack; discriminate.
Qed.

Lemma ex_sound_stops : forall strict t m2, ex_mon_path strict ex_mon_init t m2 -> ex_P_stops t.
Proof.
  intros strict t m2 H t1 o t2 o' t3 k Et He mid s. subst t.
  apply ex_mon_path_app in H. destruct H as [m1 [Ha Hb]].
  apply ex_mon_path_cons_inv in Hb. destruct Hb as [m3 [Hs Hb]].
  apply ex_mon_path_app in Hb. destruct Hb as [m4 [Hc Hd]].
  apply ex_mon_path_cons_inv in Hd. destruct Hd as [m5 [Hs' _]].
  assert (S0 : ex_stop_sub ex_mon_init) by (intros x Hx; destruct Hx).
  assert (S1 : ex_stop_sub m1) by (eapply ex_path_stop_sub; eassumption).
  assert (S3 : ex_stop_sub m3) by (eapply ex_step_stop_sub; eassumption).
  assert (S4 : ex_stop_sub m4) by (eapply ex_path_stop_sub; eassumption).
  assert (K : In k (ex_m_stop m4)).
  { eapply ex_path_stop_mono; [eassumption |]. eapply ex_step_ends; eassumption. }
  eapply ex_step_no_tx; eassumption.
Qed.

(* ------------------------------------------------------------------ duplicates *)
Lemma ex_step_last_keep : forall strict m o m',
  ex_step_ok strict m o m' -> ex_delivers o = false -> ex_m_last m' = ex_m_last m.
Proof.
  intros strict m o m' H D.
  inversion H; subst; cbn [ex_m_last ex_mon_concl]; try reflexivity;
    unfold ex_delivers in D; cbn in D; discriminate.
Qed.

Lemma ex_path_last_keep : forall strict t m m2,
  ex_mon_path strict m t m2 -> (forall o, In o t -> ex_delivers o = false) ->
  ex_m_last m2 = ex_m_last m.
Proof.
  intros strict t. induction t as [| o t IH]; intros m m2 H D.
  - apply ex_mon_path_nil_inv in H. subst. reflexivity.
  - apply ex_mon_path_cons_inv in H. destruct H as [mx [Hs Hp]].
    rewrite (IH _ _ Hp); [| intros; apply D; right; assumption].
    eapply ex_step_last_keep; [eassumption |]. apply D. left. reflexivity.
Qed.

Lemma ex_sound_dup : forall strict t m2, ex_mon_path strict ex_mon_init t m2 -> ex_P_dup t.
Proof.
  intros strict t m2 H t1 s k ok st a t2 k' ok' outs' t3 Et D. subst t.
  apply ex_mon_path_app in H. destruct H as [m1 [Ha Hb]].
  apply ex_mon_path_cons_inv in Hb. destruct Hb as [m3 [Hs Hb]].
  apply ex_mon_path_app in Hb. destruct Hb as [m4 [Hc Hd]].
  apply ex_mon_path_cons_inv in Hd. destruct Hd as [m5 [Hs' _]].
  pose proof (ex_path_last_keep _ _ _ _ Hc D) as L.
  inversion Hs; subst.
  cbn [ex_m_last ex_mon_concl] in L.
  inversion Hs'; subst.
  - (* delivered again: excluded by the judge *)
    match goal with Hx : ex_last_is _ _ = false |- _ =>
      unfold ex_last_is in Hx; rewrite L in Hx; rewrite Z.eqb_refl in Hx; discriminate end.
  - match goal with Hx : forall la, ex_m_last _ = Some _ -> _ |- _ =>
      specialize (Hx _ L); subst isack end.
    reflexivity.
Qed.

(* ------------------------------------------------------------------ the theorem *)
Theorem ex_accepts_sound : forall t, accepts_c07 t = true -> ex_property t.
Proof.
  intros t H. unfold accepts_c07 in H. apply Z.eqb_eq in H. unfold ex_judge in H.
  apply ex_judge_path in H. destruct H as [m2 H].
  unfold ex_property. repeat split.
  - eapply ex_sound_once; eassumption.
  - eapply ex_sound_token; eassumption.
  - eapply ex_sound_token; eassumption.
  - eapply ex_sound_stops; eassumption.
  - eapply ex_sound_conack; eassumption.
  - eapply ex_sound_dup; eassumption.
  - eapply ex_sound_non; eassumption.
Qed.

(* the judge without clause 2 still establishes everything but "at most once" *)
Theorem ex_lenient_sound : forall t, ex_judge_lenient t = 0 ->
  ex_P_token t /\ ex_P_stops t /\ ex_P_conack t /\ ex_P_dup t /\ ex_P_non t.
Proof.
  intros t H. unfold ex_judge_lenient in H.
  apply ex_judge_path in H. destruct H as [m2 H].
  repeat split.
  - eapply ex_sound_token; eassumption.
  - eapply ex_sound_token; eassumption.
  - eapply ex_sound_stops; eassumption.
  - eapply ex_sound_conack; eassumption.
  - eapply ex_sound_dup; eassumption.
  - eapply ex_sound_non; eassumption.
Qed.

(* ------------------------------------------------------------------ completeness of the inversion *)
Lemma ex_In_memz : forall x l, In x l -> ex_memz x l = true.
Proof. intros. apply ex_memz_In. assumption. Qed.
Lemma ex_In_mem2 : forall a b l, In (a, b) l -> ex_mem2 a b l = true.
Proof. intros. apply ex_mem2_In. assumption. Qed.

Lemma ex_dg_eqb_refl : forall d, ex_dg_eqb d d = true.
Proof. intros d. destruct d; cbn; rewrite ?Z.eqb_refl; reflexivity. Qed.

Lemma ex_conclude_ok : forall strict m tok last cons acks,
  ex_fresh strict m tok ->
  ex_conclude strict m tok last cons acks = ExOk (ex_mon_concl m tok last cons acks).
Proof.
  intros strict m tok last cons acks F. unfold ex_conclude.
  destruct strict; cbn [andb]; [rewrite (F eq_refl) |]; reflexivity.
Qed.

(* every accepted shape is accepted by the judge, with the same monitor state *)
Ltac ex_rw_mem :=
  repeat match goal with
         | Hx : In (?a, ?b) ?l |- context [ex_mem2 ?a ?b ?l] => rewrite (ex_In_mem2 _ _ _ Hx)
         | Hx : In ?x ?l |- context [ex_memz ?x ?l] => rewrite (ex_In_memz _ _ Hx)
         | Hx : ex_memz ?x ?l = false |- context [ex_memz ?x ?l] => rewrite Hx
         | Hx : ex_last_is ?m ?x = false |- context [ex_last_is ?m ?x] => rewrite Hx
         end.
Ltac ex_fresh_done :=
  match goal with Hx : ex_fresh _ _ _ |- _ => apply ex_conclude_ok; exact Hx end.

Lemma ex_step_ok_judge : forall strict m o m',
  ex_step_ok strict m o m' -> ex_judge_step strict m o = ExOk m'.
Proof.
  intros strict m o m' H. destruct H; unfold ex_judge_step; cbn [fst snd].
  - reflexivity.
  - unfold ex_j_send. rewrite Z.eqb_refl. cbn [negb]. ex_rw_mem. reflexivity.
  - reflexivity.
  - unfold ex_j_timer. ex_rw_mem. reflexivity.
  - unfold ex_j_timer, ex_j_nack. cbn. ex_rw_mem. cbn. ex_fresh_done.
  - reflexivity.
  - unfold ex_j_ackr. ex_rw_mem. reflexivity.
  - unfold ex_j_ackr, ex_is_resp. rewrite !Z.eqb_refl. cbn. ex_rw_mem. cbn. ex_fresh_done.
  - unfold ex_j_conr, ex_is_resp, ex_is_tx. rewrite !Z.eqb_refl, ex_dg_eqb_refl. cbn.
    ex_rw_mem. cbn. ex_rw_mem. ex_fresh_done.
  - unfold ex_j_conr.
    assert (E1 : ex_is_tx (ExTx (if isack then ExAckE mid else ExRst mid)) (ExAckE mid) ||
                 ex_is_tx (ExTx (if isack then ExAckE mid else ExRst mid)) (ExRst mid) = true).
    { destruct isack; cbn; rewrite Z.eqb_refl; reflexivity. }
    rewrite E1. cbn [negb]. ex_rw_mem. cbn [negb].
    destruct (ex_m_last m) as [[lm la] |] eqn:EL; [| reflexivity].
    destruct (lm =? mid) eqn:E2; [| reflexivity].
    apply Z.eqb_eq in E2. subst lm.
    match goal with Hx : forall la0, _ = Some (mid, la0) -> la0 = isack |- _ => rewrite (Hx la eq_refl) end.
    unfold ex_is_tx. rewrite ex_dg_eqb_refl. reflexivity.
  - unfold ex_j_nonr, ex_is_resp. rewrite !Z.eqb_refl. cbn. ex_rw_mem. reflexivity.
  - unfold ex_j_nonr, ex_is_resp, ex_is_tx. rewrite !Z.eqb_refl. cbn. rewrite Z.eqb_refl. cbn.
    ex_rw_mem. reflexivity.
  - unfold ex_j_rst, ex_j_nack. rewrite Z.eqb_refl. cbn. ex_rw_mem. cbn. rewrite ?Z.eqb_refl. cbn.
    ex_fresh_done.
  - unfold ex_j_rst. cbn. rewrite Z.eqb_refl. reflexivity.
Qed.

Lemma ex_path_judge : forall strict t m m',
  ex_mon_path strict m t m' -> ex_judge_from strict m t = 0.
Proof.
  intros strict t. induction t as [| o t IH]; intros m m' P.
  - reflexivity.
  - apply ex_mon_path_cons_inv in P. destruct P as [m1 [Hs P]].
    cbn [ex_judge_from]. rewrite (ex_step_ok_judge _ _ _ _ Hs). eapply IH. exact P.
Qed.

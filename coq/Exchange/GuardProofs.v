(* C07 - part 2: with the three hypotheses of System.v on (the server processes a request
   once, the application sends when the network is quiet, the give-up timer fires when nothing
   of the exchange is left), every schedule yields a trace the full acceptor accepts: at most
   one conclusion per request token. *)
From LibcoapV Require Import Base.Tactics Exchange.Exchange Exchange.Accept Exchange.Spec
  Exchange.AcceptProofs Exchange.System Exchange.SystemProofs.
Local Open Scope Z_scope.

Definition ex_dg_conmid (d : ex_dg) : list Z :=
  match d with ExConR s _ => [s] | _ => [] end.
Definition ex_pend_conmid (p : ex_pend) : list Z :=
  if ex_p_sty p =? 3 then [ex_p_mid p] else [].

(* message ids of the Confirmable responses that exist or are scheduled anywhere *)
Definition ex_conmids_of (s2c : list ex_dg) (con : list ex_conr) (pend : list ex_pend) : list Z :=
  flat_map ex_dg_conmid s2c ++ map ex_r_mid con ++ flat_map ex_pend_conmid pend.
Definition ex_conmids (y : ex_sys) : list Z :=
  ex_conmids_of (ex_y_s2c y) (ex_s_con (ex_y_s y)) (ex_s_pend (ex_y_s y)).

Definition ex_is_req (d : ex_dg) : bool := match d with ExReq _ _ _ => true | _ => false end.
Definition ex_is_ackr (d : ex_dg) : bool := match d with ExAckR _ _ => true | _ => false end.
Definition ex_is_respdg (d : ex_dg) : bool :=
  match d with ExAckR _ _ | ExConR _ _ | ExNonR _ _ => true | _ => false end.

Definition ex_g_c2s_ok (mc kc sc : Z) (d : ex_dg) : Prop :=
  match d with ExReq m k s => m = mc /\ k = kc /\ s = sc | _ => True end.
Definition ex_g_s2c_ok (mc kc sc : Z) (d : ex_dg) : Prop :=
  match d with
  | ExAckR m k => m = mc /\ k = kc /\ sc = 0
  | ExConR _ k | ExNonR _ k => k = kc /\ sc <> 0
  | _ => True
  end.

(* everything in the system concerns the current exchange (request mc, token kc, style sc) *)
Record ex_gcore (y : ex_sys) (mc kc sc : Z) : Prop := {
  g_q : forall q, ex_c_q (ex_y_c y) = Some q ->
        ex_q_mid q = mc /\ ex_q_tok q = kc /\ ex_q_sty q = sc;
  g_c2s : Forall (ex_g_c2s_ok mc kc sc) (ex_y_c2s y);
  g_s2c : Forall (ex_g_s2c_ok mc kc sc) (ex_y_s2c y);
  g_pend : Forall (fun p => ex_p_tok p = kc /\ sc <> 0) (ex_s_pend (ex_y_s y));
  g_con : Forall (fun r => ex_r_tok r = kc /\ sc <> 0) (ex_s_con (ex_y_s y));
  g_uni : forall a b, In a (ex_conmids y) -> In b (ex_conmids y) -> a = b;
  g_unseen : ~ In (mc, kc) (ex_s_seen (ex_y_s y)) ->
             Forall (fun d => ex_is_respdg d = false) (ex_y_s2c y) /\
             ex_s_pend (ex_y_s y) = [] /\ ex_s_con (ex_y_s y) = []
}.

(* once the current exchange has concluded, whatever is left of it is filtered by the client *)
Definition ex_gdone (y : ex_sys) (mc kc sc : Z) : Prop :=
  ex_c_q (ex_y_c y) = None /\
  (sc = 0 -> existsb ex_is_req (ex_y_c2s y) = true \/
             existsb ex_is_ackr (ex_y_s2c y) = true -> ex_c_lack (ex_y_c y) = mc) /\
  (forall a, In a (ex_conmids y) -> a = ex_c_lcon (ex_y_c y)) /\
  (In (mc, kc) (ex_s_seen (ex_y_s y)) \/ existsb ex_is_req (ex_y_c2s y) = false).

Definition ex_guard (y : ex_sys) (dn : list Z) (mc kc sc : Z) : Prop :=
  ex_gcore y mc kc sc /\ (In kc dn -> ex_gdone y mc kc sc).

Definition ex_ginv (y : ex_sys) (m : ex_mon) (sc : Z) : Prop :=
  match ex_m_reqs m with
  | [] => True
  | (mc, kc) :: _ => ex_guard y (ex_m_done m) mc kc sc
  end.

(* the style of the current exchange after a client step *)
Definition ex_sc_after (i : ex_cin) (outs : list ex_out) (sc : Z) : Z :=
  match i, outs with
  | ExSend sty, [ExTx (ExReq _ _ _)] => sty
  | _, _ => sc
  end.

(* ------------------------------------------------------------------ list facts *)
Lemma ex_In_remove_nth : forall (A : Type) i (l : list A) x, In x (ex_remove_nth i l) -> In x l.
Proof.
  intros A i l. revert i. induction l as [| y l IH]; intros i x H; cbn in H.
  - destruct i; exact H.
  - destruct i; [right; exact H |]. destruct H as [-> | H]; [left; reflexivity | right; eauto].
Qed.

Lemma ex_Forall_sub : forall (A : Type) (P : A -> Prop) l l',
  (forall x, In x l' -> In x l) -> Forall P l -> Forall P l'.
Proof.
  intros A P l l' S H. apply Forall_forall. intros x Hx. rewrite Forall_forall in H.
  apply H. apply S. exact Hx.
Qed.

Lemma ex_existsb_sub : forall (A : Type) (f : A -> bool) l l',
  (forall x, In x l' -> f x = true -> In x l) -> existsb f l' = true -> existsb f l = true.
Proof.
  intros A f l l' S H. apply existsb_exists in H. destruct H as [x [Hx Hf]].
  apply existsb_exists. exists x. split; [apply S; assumption | exact Hf].
Qed.

Lemma ex_existsb_false_sub : forall (A : Type) (f : A -> bool) l l',
  (forall x, In x l' -> f x = true -> In x l) -> existsb f l = false -> existsb f l' = false.
Proof.
  intros A f l l' S H. destruct (existsb f l') eqn:E; [| reflexivity].
  apply (ex_existsb_sub _ f l l' S) in E. congruence.
Qed.

Lemma ex_conmids_In : forall s2c con pend a,
  In a (ex_conmids_of s2c con pend) <->
  (exists k, In (ExConR a k) s2c) \/ (exists r, In r con /\ ex_r_mid r = a) \/
  (exists p, In p pend /\ ex_p_sty p = 3 /\ ex_p_mid p = a).
Proof.
  intros s2c con pend a. unfold ex_conmids_of. rewrite !in_app_iff, !in_flat_map, in_map_iff.
  split.
  - intros [[d [Hd Ha]] | [[r [Hr1 Hr2]] | [p [Hp Ha]]]].
    + left. destruct d; cbn in Ha; try contradiction. destruct Ha as [<- | []]. eauto.
    + right. left. eauto.
    + right. right. unfold ex_pend_conmid in Ha. destruct (ex_p_sty p =? 3) eqn:E; [| contradiction].
      destruct Ha as [<- | []]. apply Z.eqb_eq in E. eauto.
  - intros [[k Hk] | [[r [Hr1 Hr2]] | [p [Hp [Hs Hm]]]]].
    + left. exists (ExConR a k). split; [exact Hk | left; reflexivity].
    + right. left. eauto.
    + right. right. exists p. split; [exact Hp |]. unfold ex_pend_conmid. rewrite Hs. cbn.
      left. exact Hm.
Qed.

Lemma ex_nil_sub : forall (A : Type) (l : list A), (forall x, In x l -> False) -> l = [].
Proof. intros A l H. destruct l as [| x l]; [reflexivity |]. exfalso. apply (H x). left. reflexivity. Qed.

(* ------------------------------------------------------------------ weakening *)
(* A step that only removes or repeats things, lets the client acknowledge, or lets the server
   send (again) a separate response whose mid is already accounted for, keeps the guard. *)
Section Transfer.
  Variables y y' : ex_sys.
  Variables mc kc sc : Z.
  Let seen := In (mc, kc) (ex_s_seen (ex_y_s y)).
  Hypothesis Hq : forall q, ex_c_q (ex_y_c y') = Some q -> ex_c_q (ex_y_c y) = Some q.
  Hypothesis Hseen : ex_s_seen (ex_y_s y') = ex_s_seen (ex_y_s y).
  Hypothesis Hc2s : forall d, In d (ex_y_c2s y') -> In d (ex_y_c2s y) \/ ex_is_req d = false.
  Hypothesis Hs2c : forall d, In d (ex_y_s2c y') ->
     In d (ex_y_s2c y) \/
     (seen /\ sc <> 0 /\ ((exists a, d = ExConR a kc /\ In a (ex_conmids y)) \/
                          (exists a, d = ExNonR a kc))) \/
     (exists a, d = ExAckE a) \/ (seen /\ sc = 0 /\ d = ExAckR mc kc).
  Hypothesis Hpend : forall p, In p (ex_s_pend (ex_y_s y')) -> In p (ex_s_pend (ex_y_s y)).
  Hypothesis Hcon : forall r, In r (ex_s_con (ex_y_s y')) ->
     (exists r0, In r0 (ex_s_con (ex_y_s y)) /\ ex_r_mid r0 = ex_r_mid r /\ ex_r_tok r0 = ex_r_tok r) \/
     (seen /\ sc <> 0 /\ ex_r_tok r = kc /\ In (ex_r_mid r) (ex_conmids y)).

  Lemma ex_conmids_transfer : forall a, In a (ex_conmids y') -> In a (ex_conmids y).
  Proof.
    intros a Ha. unfold ex_conmids in Ha. apply ex_conmids_In in Ha.
    destruct Ha as [[k Hk] | [[r [Hr1 Hr2]] | [p [Hp Hps]]]].
    - destruct (Hs2c _ Hk) as [H | [[_ [_ [[a' [E Ha']] | [a' E]]]] | [[a' E] | [_ [_ E]]]]].
      + unfold ex_conmids. apply ex_conmids_In. left. exists k. exact H.
      + inversion E; subst. exact Ha'.
      + discriminate E.
      + discriminate E.
      + discriminate E.
    - destruct (Hcon r Hr1) as [[r0 [H0 [H1 H2]]] | [_ [_ [_ H]]]].
      + unfold ex_conmids. apply ex_conmids_In. right. left. exists r0. split; [exact H0 | congruence].
      + rewrite Hr2 in H. exact H.
    - unfold ex_conmids. apply ex_conmids_In. right. right. exists p.
      split; [apply Hpend; exact Hp | exact Hps].
  Qed.

  Lemma ex_req_transfer :
    existsb ex_is_req (ex_y_c2s y') = true -> existsb ex_is_req (ex_y_c2s y) = true.
  Proof.
    apply ex_existsb_sub. intros d Hd Hf. destruct (Hc2s d Hd) as [H | H]; [exact H | congruence].
  Qed.

  Lemma ex_gcore_transfer : ex_gcore y mc kc sc -> ex_gcore y' mc kc sc.
  Proof.
    intros G. constructor.
    - intros q Q. apply (g_q _ _ _ _ G). apply Hq. exact Q.
    - apply Forall_forall. intros d Hd. destruct (Hc2s d Hd) as [H | H].
      + pose proof (g_c2s _ _ _ _ G) as F. rewrite Forall_forall in F. apply F. exact H.
      + destruct d; cbn in H; try discriminate; exact I.
    - apply Forall_forall. intros d Hd.
      destruct (Hs2c d Hd) as [H | [[_ [Hsc [[a [E _]] | [a E]]]] | [[a E] | [_ [Hsc E]]]]].
      + pose proof (g_s2c _ _ _ _ G) as F. rewrite Forall_forall in F. apply F. exact H.
      + subst d. cbn. split; [reflexivity | exact Hsc].
      + subst d. cbn. split; [reflexivity | exact Hsc].
      + subst d. exact I.
      + subst d. cbn. auto.
    - eapply ex_Forall_sub; [exact Hpend | apply G].
    - apply Forall_forall. intros r Hr.
      destruct (Hcon r Hr) as [[r0 [H0 [H1 H2]]] | [_ [Hsc [Ht _]]]].
      + pose proof (g_con _ _ _ _ G) as F. rewrite Forall_forall in F. specialize (F r0 H0).
        cbn beta in F. rewrite <- H2. exact F.
      + split; assumption.
    - intros a b Ha Hb. apply (g_uni _ _ _ _ G); apply ex_conmids_transfer; assumption.
    - intros Hns. rewrite Hseen in Hns. destruct (g_unseen _ _ _ _ G Hns) as [U1 [U2 U3]].
      split.
      { apply Forall_forall. intros d Hd.
        destruct (Hs2c d Hd) as [H | [[Hs _] | [[a E] | [Hs _]]]].
        - rewrite Forall_forall in U1. apply U1. exact H.
        - contradiction.
        - subst d. reflexivity.
        - contradiction. }
      split.
      + apply ex_nil_sub. intros p Hp. apply Hpend in Hp. rewrite U2 in Hp. exact Hp.
      + apply ex_nil_sub. intros r Hr. destruct (Hcon r Hr) as [[r0 [H0 _]] | [Hs _]].
        * rewrite U3 in H0. exact H0.
        * contradiction.
  Qed.

  Hypothesis Hla : ex_c_lack (ex_y_c y') = ex_c_lack (ex_y_c y).
  Hypothesis Hlc : ex_c_lcon (ex_y_c y') = ex_c_lcon (ex_y_c y).
  Hypothesis Hackr : forall d, In d (ex_y_s2c y') -> ex_is_ackr d = true -> In d (ex_y_s2c y).

  Lemma ex_ackr_transfer :
    existsb ex_is_ackr (ex_y_s2c y') = true -> existsb ex_is_ackr (ex_y_s2c y) = true.
  Proof. apply ex_existsb_sub. exact Hackr. Qed.

  Lemma ex_gdone_transfer : ex_gdone y mc kc sc -> ex_gdone y' mc kc sc.
  Proof.
    intros [D1 [D2 [D3 D4]]].
    split.
    { destruct (ex_c_q (ex_y_c y')) as [q |] eqn:Q; [| reflexivity].
      specialize (Hq q eq_refl). congruence. }
    split.
    { intros Hsc Hp. rewrite Hla. apply D2; [exact Hsc |]. destruct Hp as [Hp | Hp].
      - left. apply ex_req_transfer. exact Hp.
      - right. apply ex_ackr_transfer. exact Hp. }
    split.
    { intros a Ha. rewrite Hlc. apply D3. apply ex_conmids_transfer. exact Ha. }
    rewrite Hseen. destruct D4 as [D4 | D4]; [left; exact D4 | right].
    apply not_true_is_false. intros E. apply ex_req_transfer in E. congruence.
  Qed.

  Lemma ex_guard_transfer : forall dn, ex_guard y dn mc kc sc -> ex_guard y' dn mc kc sc.
  Proof.
    intros dn [G D]. split; [apply ex_gcore_transfer; exact G |].
    intros Hd. apply ex_gdone_transfer. apply D. exact Hd.
  Qed.
End Transfer.

Lemma ex_In_set_nth : forall (A : Type) j (x : A) l r, In r (ex_set_nth j x l) -> r = x \/ In r l.
Proof.
  intros A j x l. revert j. induction l as [| y l IH]; intros j r H; cbn in H.
  - destruct j; contradiction.
  - destruct j.
    + destruct H as [<- | H]; [left; reflexivity | right; right; exact H].
    + destruct H as [<- | H]; [right; left; reflexivity |].
      destruct (IH _ _ H) as [E | E]; [left; exact E | right; right; exact E].
Qed.

Lemma ex_In_snoc : forall (A : Type) (l : list A) d x, In x (l ++ [d]) -> In x l \/ x = d.
Proof.
  intros A l d x H. apply in_app_iff in H. destruct H as [H | [H | []]]; [left; exact H | right; auto].
Qed.

Lemma ex_seen_dec : forall mc kc (l : list (Z * Z)), In (mc, kc) l \/ ~ In (mc, kc) l.
Proof.
  intros mc kc l. destruct (ex_mem2 mc kc l) eqn:E.
  - left. apply ex_mem2_In. exact E.
  - right. intros H. apply ex_mem2_In in H. congruence.
Qed.

(* ---- network actions *)
Lemma ex_guard_net_c : forall y dn mc kc sc s2c',
  ex_guard y dn mc kc sc -> (forall d, In d s2c' -> In d (ex_y_s2c y)) ->
  ex_guard (Build_ex_sys (ex_y_c y) (ex_y_s y) (ex_y_c2s y) s2c' (ex_y_app y)) dn mc kc sc.
Proof.
  intros y dn mc kc sc s2c' G S.
  apply (ex_guard_transfer y); cbn [ex_y_c ex_y_s ex_y_c2s ex_y_s2c]; auto.
  intros r Hr. left. exists r. auto.
Qed.

Lemma ex_guard_net_s : forall y dn mc kc sc c2s',
  ex_guard y dn mc kc sc -> (forall d, In d c2s' -> In d (ex_y_c2s y)) ->
  ex_guard (Build_ex_sys (ex_y_c y) (ex_y_s y) c2s' (ex_y_s2c y) (ex_y_app y)) dn mc kc sc.
Proof.
  intros y dn mc kc sc c2s' G S.
  apply (ex_guard_transfer y); cbn [ex_y_c ex_y_s ex_y_c2s ex_y_s2c]; auto.
  intros r Hr. left. exists r. auto.
Qed.

(* ---- the server's timers *)
Lemma ex_guard_srvtimer : forall maxr y dn mc kc sc j,
  ex_guard y dn mc kc sc ->
  let r := ex_srv_timer maxr (ex_y_s y) j in
  ex_guard (Build_ex_sys (ex_y_c y) (fst r) (ex_y_c2s y) (ex_y_s2c y ++ snd r) (ex_y_app y))
           dn mc kc sc.
Proof.
  intros maxr y dn mc kc sc j G. cbn zeta. unfold ex_srv_timer.
  destruct (nth_error (ex_s_con (ex_y_s y)) j) as [r |] eqn:E.
  - pose proof (nth_error_In _ _ E) as Hin.
    destruct G as [GC GD].
    pose proof (g_con _ _ _ _ GC) as F. rewrite Forall_forall in F. destruct (F r Hin) as [Ht Hsc].
    assert (Hseen : In (mc, kc) (ex_s_seen (ex_y_s y))).
    { destruct (ex_seen_dec mc kc (ex_s_seen (ex_y_s y))) as [H | H]; [exact H |].
      destruct (g_unseen _ _ _ _ GC H) as [_ [_ U]]. rewrite U in Hin. destruct Hin. }
    assert (Hmid : In (ex_r_mid r) (ex_conmids y)).
    { unfold ex_conmids. apply ex_conmids_In. right. left. exists r. auto. }
    destruct (ex_r_cnt r <? maxr); cbn [fst snd].
    + apply (ex_guard_transfer y); cbn [ex_y_c ex_y_s ex_y_c2s ex_y_s2c ex_s_seen ex_s_pend ex_s_con];
        auto; try (split; assumption).
      * intros d Hd. apply ex_In_snoc in Hd. destruct Hd as [Hd | ->]; [left; exact Hd |].
        right. left. split; [exact Hseen |]. split; [exact Hsc |]. left. exists (ex_r_mid r).
        rewrite Ht. split; [reflexivity | exact Hmid].
      * intros r1 Hr1. apply ex_In_set_nth in Hr1. destruct Hr1 as [-> | Hr1].
        -- left. exists r. cbn. auto.
        -- left. exists r1. auto.
      * intros d Hd Ha. apply ex_In_snoc in Hd. destruct Hd as [Hd | ->]; [exact Hd | discriminate Ha].
    + apply (ex_guard_transfer y); cbn [ex_y_c ex_y_s ex_y_c2s ex_y_s2c ex_s_seen ex_s_pend ex_s_con];
        auto; try (split; assumption).
      * intros d Hd. rewrite app_nil_r in Hd. left. exact Hd.
      * intros r1 Hr1. apply ex_In_remove_nth in Hr1. left. exists r1. auto.
      * intros d Hd Ha. rewrite app_nil_r in Hd. exact Hd.
  - cbn [fst snd]. apply (ex_guard_transfer y); cbn [ex_y_c ex_y_s ex_y_c2s ex_y_s2c]; auto.
    + intros d Hd. rewrite app_nil_r in Hd. left. exact Hd.
    + intros r1 Hr1. left. exists r1. auto.
    + intros d Hd Ha. rewrite app_nil_r in Hd. exact Hd.
Qed.

Lemma ex_guard_fire : forall y dn mc kc sc j,
  ex_guard y dn mc kc sc ->
  let r := ex_srv_fire (ex_y_s y) j in
  ex_guard (Build_ex_sys (ex_y_c y) (fst r) (ex_y_c2s y) (ex_y_s2c y ++ snd r) (ex_y_app y))
           dn mc kc sc.
Proof.
  intros y dn mc kc sc j G. cbn zeta. unfold ex_srv_fire.
  destruct (nth_error (ex_s_pend (ex_y_s y)) j) as [p |] eqn:E.
  - pose proof (nth_error_In _ _ E) as Hin.
    destruct G as [GC GD].
    pose proof (g_pend _ _ _ _ GC) as F. rewrite Forall_forall in F. destruct (F p Hin) as [Ht Hsc].
    assert (Hseen : In (mc, kc) (ex_s_seen (ex_y_s y))).
    { destruct (ex_seen_dec mc kc (ex_s_seen (ex_y_s y))) as [H | H]; [exact H |].
      destruct (g_unseen _ _ _ _ GC H) as [_ [U _]]. rewrite U in Hin. destruct Hin. }
    destruct (ex_p_sty p =? 3) eqn:E3; cbn [fst snd].
    + apply Z.eqb_eq in E3.
      assert (Hmid : In (ex_p_mid p) (ex_conmids y)).
      { unfold ex_conmids. apply ex_conmids_In. right. right. exists p. auto. }
      apply (ex_guard_transfer y); cbn [ex_y_c ex_y_s ex_y_c2s ex_y_s2c ex_s_seen ex_s_pend ex_s_con];
        auto; try (split; assumption).
      * intros d Hd. apply ex_In_snoc in Hd. destruct Hd as [Hd | ->]; [left; exact Hd |].
        right. left. split; [exact Hseen |]. split; [exact Hsc |]. left. exists (ex_p_mid p).
        rewrite Ht. split; [reflexivity | exact Hmid].
      * intros p1 Hp1. apply ex_In_remove_nth in Hp1. exact Hp1.
      * intros r1 Hr1. apply ex_In_snoc in Hr1. destruct Hr1 as [Hr1 | ->].
        -- left. exists r1. auto.
        -- right. cbn. auto.
      * intros d Hd Ha. apply ex_In_snoc in Hd. destruct Hd as [Hd | ->]; [exact Hd | discriminate Ha].
    + apply (ex_guard_transfer y); cbn [ex_y_c ex_y_s ex_y_c2s ex_y_s2c ex_s_seen ex_s_pend ex_s_con];
        auto; try (split; assumption).
      * intros d Hd. apply ex_In_snoc in Hd. destruct Hd as [Hd | ->]; [left; exact Hd |].
        right. left. split; [exact Hseen |]. split; [exact Hsc |]. right. exists (ex_p_mid p).
        rewrite Ht. reflexivity.
      * intros p1 Hp1. apply ex_In_remove_nth in Hp1. exact Hp1.
      * intros r1 Hr1. left. exists r1. auto.
      * intros d Hd Ha. apply ex_In_snoc in Hd. destruct Hd as [Hd | ->]; [exact Hd | discriminate Ha].
  - cbn [fst snd]. apply (ex_guard_transfer y); cbn [ex_y_c ex_y_s ex_y_c2s ex_y_s2c]; auto.
    + intros d Hd. rewrite app_nil_r in Hd. left. exact Hd.
    + intros r1 Hr1. left. exists r1. auto.
    + intros d Hd Ha. rewrite app_nil_r in Hd. exact Hd.
Qed.

Lemma ex_Forall_false_nil : forall (A : Type) (P : A -> Prop) l,
  Forall P l -> (forall x, P x -> False) -> l = [].
Proof.
  intros A P l H N. destruct l as [| x l]; [reflexivity |]. inversion H; subst. exfalso. eauto.
Qed.

Lemma ex_existsb_req_in : forall d l, In d l -> ex_is_req d = true -> existsb ex_is_req l = true.
Proof. intros d l H E. apply existsb_exists. exists d. auto. Qed.

(* ---- the server receives a datagram (it processes a request once) *)
Lemma ex_guard_srvrx : forall cf y dn mc kc sc i d,
  ex_cf_dedup cf = true ->
  ex_guard y dn mc kc sc -> nth_error (ex_y_c2s y) i = Some d ->
  let r := ex_srv_rx cf (ex_y_s y) d in
  ex_guard (Build_ex_sys (ex_y_c y) (fst r) (ex_remove_nth i (ex_y_c2s y)) (ex_y_s2c y ++ snd r)
                         (ex_y_app y)) dn mc kc sc.
Proof.
  intros cf y dn mc kc sc i d Hdd G E. cbn zeta.
  pose proof (nth_error_In _ _ E) as Hin.
  assert (Hsub : forall x, In x (ex_remove_nth i (ex_y_c2s y)) -> In x (ex_y_c2s y) \/ ex_is_req x = false).
  { intros x Hx. left. eapply ex_In_remove_nth. exact Hx. }
  assert (Trivial : forall s', ex_s_seen s' = ex_s_seen (ex_y_s y) ->
            ex_s_pend s' = ex_s_pend (ex_y_s y) ->
            (forall r, In r (ex_s_con s') -> In r (ex_s_con (ex_y_s y))) ->
            ex_guard (Build_ex_sys (ex_y_c y) s' (ex_remove_nth i (ex_y_c2s y)) (ex_y_s2c y ++ [])
                                   (ex_y_app y)) dn mc kc sc).
  { intros s' H1 H2 H3.
    apply (ex_guard_transfer y); cbn [ex_y_c ex_y_s ex_y_c2s ex_y_s2c]; auto.
    - intros x Hx. rewrite app_nil_r in Hx. left. exact Hx.
    - intros p Hp. rewrite H2 in Hp. exact Hp.
    - intros r Hr. left. exists r. auto.
    - intros x Hx _. rewrite app_nil_r in Hx. exact Hx. }
  destruct d as [m k sty | m | m k | m k | m k | m]; unfold ex_srv_rx.
  - (* a request: it is the current one *)
    destruct G as [GC GD].
    pose proof (g_c2s _ _ _ _ GC) as F. rewrite Forall_forall in F. specialize (F _ Hin).
    cbn in F. destruct F as [-> [-> ->]].
    rewrite Hdd. cbn [andb].
    destruct (ex_mem2 mc kc (ex_s_seen (ex_y_s y))) eqn:Eseen.
    + (* seen before: acknowledged again, not processed *)
      apply ex_mem2_In in Eseen. cbn [fst snd].
      split.
      * apply (ex_gcore_transfer y); cbn [ex_y_c ex_y_s ex_y_c2s ex_y_s2c]; auto.
        -- intros x Hx. apply ex_In_snoc in Hx. destruct Hx as [Hx | ->]; [left; exact Hx |].
           destruct (sc =? 0) eqn:E0.
           ++ right. right. right. apply Z.eqb_eq in E0. auto.
           ++ right. right. left. eauto.
        -- intros r Hr. left. exists r. auto.
      * intros Hd. destruct (GD Hd) as [D1 [D2 [D3 D4]]].
        assert (Hm : forall a, In a (ex_conmids_of (ex_y_s2c y ++ [if sc =? 0 then ExAckR mc kc else ExAckE mc])
                                      (ex_s_con (ex_y_s y)) (ex_s_pend (ex_y_s y))) -> In a (ex_conmids y)).
        { intros a Ha. apply ex_conmids_In in Ha. unfold ex_conmids. apply ex_conmids_In.
          destruct Ha as [[k' Hk] | Ha]; [| right; exact Ha].
          apply ex_In_snoc in Hk. destruct Hk as [Hk | Hk]; [left; eauto |].
          destruct (sc =? 0); discriminate Hk. }
        split; [exact D1 |]. split.
        { intros Hsc _. apply D2; [exact Hsc |]. left.
          eapply ex_existsb_req_in; [exact Hin | reflexivity]. }
        split; [intros a Ha; apply D3; apply Hm; exact Ha |].
        left. exact Eseen.
    + (* first time *)
      assert (Hns : ~ In (mc, kc) (ex_s_seen (ex_y_s y))).
      { intros H. apply ex_mem2_In in H. congruence. }
      destruct (g_unseen _ _ _ _ GC Hns) as [U1 [U2 U3]].
      rewrite U2. cbn [ex_pend_has existsb].
      assert (Hnodone : ~ In kc dn).
      { intros Hd. destruct (GD Hd) as [_ [_ [_ [D4 | D4]]]]; [contradiction |].
        rewrite (ex_existsb_req_in _ _ Hin eq_refl) in D4. discriminate D4. }
      assert (Hnocon : forall k', ~ In (ExConR k' kc) (ex_y_s2c y)).
      { intros k' Hk. rewrite Forall_forall in U1. specialize (U1 _ Hk). discriminate U1. }
      assert (Hcm0 : forall a, In a (ex_conmids y) -> False).
      { intros a Ha. unfold ex_conmids in Ha. apply ex_conmids_In in Ha. rewrite U2, U3 in Ha.
        destruct Ha as [[k' Hk] | [[r [[] _]] | [p [[] _]]]].
        rewrite Forall_forall in U1. specialize (U1 _ Hk). discriminate U1. }
      split; [| intros Hd; contradiction].
      pose proof (ex_next_mid_range (ex_s_mid (ex_y_s y))) as Hn.
      set (n := ex_next_mid (ex_s_mid (ex_y_s y))) in *.
      assert (Core : forall s' ds,
                ex_s_seen s' = (mc, kc) :: ex_s_seen (ex_y_s y) ->
                Forall (ex_g_s2c_ok mc kc sc) ds ->
                Forall (fun p => ex_p_tok p = kc /\ sc <> 0) (ex_s_pend s') ->
                Forall (fun r => ex_r_tok r = kc /\ sc <> 0) (ex_s_con s') ->
                (forall a, In a (ex_conmids_of (ex_y_s2c y ++ ds) (ex_s_con s') (ex_s_pend s')) -> a = n) ->
                ex_gcore (Build_ex_sys (ex_y_c y) s' (ex_remove_nth i (ex_y_c2s y)) (ex_y_s2c y ++ ds)
                                       (ex_y_app y)) mc kc sc).
      { intros s' ds H1 H2 H3 H4 H5. constructor; cbn [ex_y_c ex_y_s ex_y_c2s ex_y_s2c].
        - apply GC.
        - apply ex_Forall_remove_nth. apply GC.
        - apply Forall_app. split; [apply GC | exact H2].
        - exact H3.
        - exact H4.
        - intros a b Ha Hb. unfold ex_conmids in *. cbn [ex_y_c ex_y_s ex_y_c2s ex_y_s2c] in *.
          rewrite (H5 a Ha), (H5 b Hb). reflexivity.
        - intros Hns'. rewrite H1 in Hns'. exfalso. apply Hns'. left. reflexivity. }
      assert (Hs2cmids : forall ds a,
                In a (flat_map ex_dg_conmid (ex_y_s2c y ++ ds)) -> In a (flat_map ex_dg_conmid ds)).
      { intros ds a Ha. rewrite flat_map_app in Ha. apply in_app_iff in Ha. destruct Ha as [Ha | Ha]; [| exact Ha].
        exfalso. apply (Hcm0 a). unfold ex_conmids, ex_conmids_of. apply in_app_iff. left. exact Ha. }
      destruct (sc =? 0) eqn:E0.
      { apply Z.eqb_eq in E0. cbn [fst snd]. apply Core; cbn [ex_s_seen ex_s_pend ex_s_con].
        - reflexivity.
        - constructor; [cbn; auto | constructor].
        - try rewrite U2; constructor.
        - try rewrite U3; constructor.
        - intros a Ha; apply ex_conmids_In in Ha;
          destruct Ha as [[k' Hk] | [[r [Hr1 Hr2]] | [p [Hp1 [Hp2 Hp3]]]]];
          [ apply in_app_iff in Hk; destruct Hk as [Hk | Hk];
            [ exfalso; rewrite Forall_forall in U1; specialize (U1 _ Hk); discriminate U1
            | cbn in Hk;
              repeat (destruct Hk as [Hk | Hk]; [try discriminate Hk; try (inversion Hk; reflexivity) |]);
              destruct Hk ]
          | try rewrite U3 in Hr1; cbn in Hr1;
            repeat (destruct Hr1 as [Hr1 | Hr1]; [subst r; cbn in Hr2; symmetry; exact Hr2 |]);
            destruct Hr1
          | try rewrite U2 in Hp1; cbn in Hp1;
            repeat (destruct Hp1 as [Hp1 | Hp1]; [subst p; cbn in Hp3; symmetry; exact Hp3 |]);
            destruct Hp1 ]. }
      apply Z.eqb_neq in E0.
      destruct (sc =? 1) eqn:E1.
      { cbn [fst snd]. apply Core; cbn [ex_s_seen ex_s_pend ex_s_con].
        - reflexivity.
        - constructor; [cbn; auto |]. constructor; [exact I | constructor].
        - try rewrite U2; constructor.
        - try rewrite U3; cbn; constructor; [cbn; auto | constructor].
        - intros a Ha; apply ex_conmids_In in Ha;
          destruct Ha as [[k' Hk] | [[r [Hr1 Hr2]] | [p [Hp1 [Hp2 Hp3]]]]];
          [ apply in_app_iff in Hk; destruct Hk as [Hk | Hk];
            [ exfalso; rewrite Forall_forall in U1; specialize (U1 _ Hk); discriminate U1
            | cbn in Hk;
              repeat (destruct Hk as [Hk | Hk]; [try discriminate Hk; try (inversion Hk; reflexivity) |]);
              destruct Hk ]
          | try rewrite U3 in Hr1; cbn in Hr1;
            repeat (destruct Hr1 as [Hr1 | Hr1]; [subst r; cbn in Hr2; symmetry; exact Hr2 |]);
            destruct Hr1
          | try rewrite U2 in Hp1; cbn in Hp1;
            repeat (destruct Hp1 as [Hp1 | Hp1]; [subst p; cbn in Hp3; symmetry; exact Hp3 |]);
            destruct Hp1 ]. }
      destruct (sc =? 2) eqn:E2.
      { cbn [fst snd]. apply Core; cbn [ex_s_seen ex_s_pend ex_s_con].
        - reflexivity.
        - constructor; [cbn; auto |]. constructor; [exact I | constructor].
        - try rewrite U2; constructor.
        - try rewrite U3; constructor.
        - intros a Ha; apply ex_conmids_In in Ha;
          destruct Ha as [[k' Hk] | [[r [Hr1 Hr2]] | [p [Hp1 [Hp2 Hp3]]]]];
          [ apply in_app_iff in Hk; destruct Hk as [Hk | Hk];
            [ exfalso; rewrite Forall_forall in U1; specialize (U1 _ Hk); discriminate U1
            | cbn in Hk;
              repeat (destruct Hk as [Hk | Hk]; [try discriminate Hk; try (inversion Hk; reflexivity) |]);
              destruct Hk ]
          | try rewrite U3 in Hr1; cbn in Hr1;
            repeat (destruct Hr1 as [Hr1 | Hr1]; [subst r; cbn in Hr2; symmetry; exact Hr2 |]);
            destruct Hr1
          | try rewrite U2 in Hp1; cbn in Hp1;
            repeat (destruct Hp1 as [Hp1 | Hp1]; [subst p; cbn in Hp3; symmetry; exact Hp3 |]);
            destruct Hp1 ]. }
      cbn [fst snd]. apply Core; cbn [ex_s_seen ex_s_pend ex_s_con].
      * reflexivity.
      * constructor; [exact I | constructor].
      * try rewrite U2; cbn; constructor; [cbn; auto | constructor].
      * try rewrite U3; constructor.
      * intros a Ha; apply ex_conmids_In in Ha;
          destruct Ha as [[k' Hk] | [[r [Hr1 Hr2]] | [p [Hp1 [Hp2 Hp3]]]]];
          [ apply in_app_iff in Hk; destruct Hk as [Hk | Hk];
            [ exfalso; rewrite Forall_forall in U1; specialize (U1 _ Hk); discriminate U1
            | cbn in Hk;
              repeat (destruct Hk as [Hk | Hk]; [try discriminate Hk; try (inversion Hk; reflexivity) |]);
              destruct Hk ]
          | try rewrite U3 in Hr1; cbn in Hr1;
            repeat (destruct Hr1 as [Hr1 | Hr1]; [subst r; cbn in Hr2; symmetry; exact Hr2 |]);
            destruct Hr1
          | try rewrite U2 in Hp1; cbn in Hp1;
            repeat (destruct Hp1 as [Hp1 | Hp1]; [subst p; cbn in Hp3; symmetry; exact Hp3 |]);
            destruct Hp1 ].
  - (* the client's ACK of a Confirmable response *)
    cbn [fst snd]. apply Trivial; cbn [ex_s_seen ex_s_pend ex_s_con]; auto.
    intros r Hr. apply filter_In in Hr. apply Hr.
  - cbn [fst snd]. apply Trivial; auto.
  - cbn [fst snd]. apply Trivial; auto.
  - cbn [fst snd]. apply Trivial; auto.
  - cbn [fst snd]. apply Trivial; cbn [ex_s_seen ex_s_pend ex_s_con]; auto.
    intros r Hr. apply filter_In in Hr. apply Hr.
Qed.

(* ------------------------------------------------------------------ the client's steps *)
Lemma ex_step_strengthen : forall m o m',
  ex_step_ok false m o m' ->
  (forall k, existsb (ex_is_concl k) (snd o) = true -> ex_memz k (ex_m_done m) = false) ->
  ex_step_ok true m o m'.
Proof.
  intros m o m' H F.
  inversion H; subst; try (constructor; assumption).
  - apply SoTimerNack; [assumption |]. intros _. apply F. cbn. rewrite Z.eqb_refl. reflexivity.
  - apply SoAckR; [assumption |]. intros _. apply F. cbn. rewrite Z.eqb_refl. reflexivity.
  - apply SoConR; [assumption | assumption |]. intros _. apply F. cbn. rewrite Z.eqb_refl. reflexivity.
  - apply SoRstNack; [assumption |]. intros _. apply F. cbn. rewrite Z.eqb_refl. reflexivity.
Qed.

Lemma ex_quiet_inv : forall y, ex_quiet y = true ->
  ex_y_c2s y = [] /\ ex_y_s2c y = [] /\ ex_s_pend (ex_y_s y) = [] /\ ex_s_con (ex_y_s y) = [].
Proof.
  intros y H. unfold ex_quiet in H. repeat (apply andb_true_iff in H; destruct H as [H ?]).
  repeat split; match goal with E : ex_is_nil ?l = true |- ?l = [] => destruct l; [reflexivity | discriminate E] end.
Qed.

(* a client step that concludes nothing and sends no request keeps the guard *)
Lemma ex_guard_client_pure : forall y dn mc kc sc c1 txs s2c' app',
  ex_guard y dn mc kc sc ->
  (forall q, ex_c_q c1 = Some q -> ex_c_q (ex_y_c y) = Some q) ->
  ex_c_lack c1 = ex_c_lack (ex_y_c y) -> ex_c_lcon c1 = ex_c_lcon (ex_y_c y) ->
  (forall d, In d txs -> ex_is_req d = false) ->
  (forall d, In d s2c' -> In d (ex_y_s2c y)) ->
  ex_guard (Build_ex_sys c1 (ex_y_s y) (ex_y_c2s y ++ txs) s2c' app') dn mc kc sc.
Proof.
  intros y dn mc kc sc c1 txs s2c' app' G Hq Hla Hlc Htx Hs.
  apply (ex_guard_transfer y); cbn [ex_y_c ex_y_s ex_y_c2s ex_y_s2c]; auto.
  - intros d Hd. apply in_app_iff in Hd. destruct Hd as [Hd | Hd]; [left; exact Hd | right; auto].
  - intros r Hr. left. exists r. auto.
Qed.

(* the empty system: nothing was ever sent *)
Lemma ex_cm_noreqs : forall c m, ex_cm c m -> ex_m_reqs m = [] ->
  ex_c_q c = None /\ ex_m_done m = [].
Proof.
  intros c m C E. split.
  - destruct (ex_c_q c) as [q |] eqn:Q; [| reflexivity].
    destruct (cm_q _ _ C _ Q) as [H _]. rewrite E in H. destruct H.
  - destruct (ex_m_done m) as [| k l] eqn:D; [reflexivity |]. exfalso.
    assert (H : In k (ex_m_done m)) by (rewrite D; left; reflexivity).
    apply (cm_done _ _ C) in H. apply (cm_stop _ _ C) in H. unfold ex_toks in H. rewrite E in H.
    destruct H.
Qed.

Definition ex_cg (y : ex_sys) (m : ex_mon) (sc : Z) (i : ex_cin) (c1 : ex_cli)
  (outs : list ex_out) (s2c' : list ex_dg) : Prop :=
  forall m' app', ex_step_ok false m (i, outs) m' ->
    (forall k, existsb (ex_is_concl k) outs = true -> ex_memz k (ex_m_done m) = false) /\
    ex_ginv (Build_ex_sys c1 (ex_y_s y) (ex_y_c2s y ++ ex_txs outs) s2c' app') m'
            (ex_sc_after i outs sc).

Lemma ex_ginv_intro : forall y' m' mc kc rest sc,
  ex_m_reqs m' = (mc, kc) :: rest -> ex_guard y' (ex_m_done m') mc kc sc -> ex_ginv y' m' sc.
Proof. intros y' m' mc kc rest sc E G. unfold ex_ginv. rewrite E. exact G. Qed.

Lemma ex_memz_false_nil : forall k, ex_memz k [] = false.
Proof. reflexivity. Qed.

(* with no request ever sent the client does nothing on timers and acknowledgements *)
Lemma ex_cg_noreqs : forall y m sc i c1 outs s2c',
  ex_m_reqs m = [] -> ex_m_done m = [] ->
  (forall m', ex_step_ok false m (i, outs) m' -> ex_m_reqs m' = []) ->
  ex_cg y m sc i c1 outs s2c'.
Proof.
  intros y m sc i c1 outs s2c' E D H m' app' Hs. split.
  - intros k _. rewrite D. reflexivity.
  - unfold ex_ginv. rewrite (H m' Hs). exact I.
Qed.

(* ---- timer *)
Lemma ex_cg_timer : forall cf y m s2c' sc,
  ex_basic y m -> ex_ginv y m sc ->
  (forall d, In d s2c' -> In d (ex_y_s2c y)) ->
  ex_will_nack cf (ex_y_c y) = false \/ ex_quiet y = true ->
  let r := ex_cli_step (ex_cf_maxr cf) (ex_y_c y) ExTimer in
  ex_cg y m sc ExTimer (fst r) (snd r) s2c'.
Proof.
  intros cf y m s2c' sc B G Hs Hw. cbn zeta.
  pose proof (ex_basic_cm _ _ B) as C.
  destruct (ex_m_reqs m) as [| [mc kc] rest] eqn:ER.
  { destruct (ex_cm_noreqs _ _ C ER) as [Q D]. unfold ex_cli_step. rewrite Q. cbn [fst snd].
    apply ex_cg_noreqs; [exact ER | exact D |]. intros m' Hm. inversion Hm; subst. exact ER. }
  unfold ex_ginv in G. rewrite ER in G.
  unfold ex_cli_step. destruct (ex_c_q (ex_y_c y)) as [q |] eqn:Q.
  - destruct G as [GC GD].
    destruct (g_q _ _ _ _ GC _ Q) as [Hm [Hk Hsty]]. subst mc kc sc.
    assert (Hnd : ~ In (ex_q_tok q) (ex_m_done m)).
    { intros Hd. destruct (GD Hd) as [D1 _]. congruence. }
    destruct (ex_q_cnt q <? ex_cf_maxr cf) eqn:E; cbn [fst snd].
    + (* retransmission *)
      intros m' app' Hstep. inversion Hstep; subst. split; [intros k Hk'; discriminate Hk' |].
      apply (ex_ginv_intro _ _ (ex_q_mid q) (ex_q_tok q) rest (ex_q_sty q)); [exact ER |].
      split; [| intros Hd; contradiction].
      unfold ex_req_of. cbn [ex_txs].
      constructor; cbn [ex_y_c ex_y_s ex_y_c2s ex_y_s2c ex_set_q ex_c_q].
      * intros q0 E0. inversion E0; subst. cbn. auto.
      * apply Forall_app. split; [apply GC |]. constructor; [cbn; auto | constructor].
      * eapply ex_Forall_sub; [exact Hs | apply GC].
      * apply GC.
      * apply GC.
      * intros a b Ha Hb. apply (g_uni _ _ _ _ GC); unfold ex_conmids in *;
          cbn [ex_y_c ex_y_s ex_y_c2s ex_y_s2c] in *; apply ex_conmids_In;
          [apply ex_conmids_In in Ha; destruct Ha as [[k' Hk'] | Ha]; [left; exists k'; auto | right; exact Ha]
          | apply ex_conmids_In in Hb; destruct Hb as [[k' Hk'] | Hb]; [left; exists k'; auto | right; exact Hb]].
      * intros Hns. destruct (g_unseen _ _ _ _ GC Hns) as [U1 [U2 U3]].
        split; [eapply ex_Forall_sub; [exact Hs | exact U1] | split; assumption].
    + (* give-up: the network is quiet *)
      destruct Hw as [Hw | Hw].
      { unfold ex_will_nack in Hw. rewrite Q, E in Hw. discriminate Hw. }
      destruct (ex_quiet_inv _ Hw) as [Q1 [Q2 [Q3 Q4]]].
      assert (S0 : s2c' = []).
      { apply ex_nil_sub. intros d Hd. apply Hs in Hd. rewrite Q2 in Hd. exact Hd. }
      intros m' app' Hstep. inversion Hstep; subst. split.
      { intros k Hk'. cbn in Hk'. rewrite orb_false_r in Hk'. apply Z.eqb_eq in Hk'. subst k.
        destruct (ex_memz (ex_q_tok q) (ex_m_done m)) eqn:Em; [| reflexivity].
        apply ex_memz_In in Em. contradiction. }
      apply (ex_ginv_intro _ _ (ex_q_mid q) (ex_q_tok q) rest (ex_q_sty q));
        [cbn [ex_m_reqs ex_mon_concl]; exact ER |].
      cbn [ex_txs]. rewrite Q1. cbn [app].
      assert (CM0 : forall a app0, In a (ex_conmids (Build_ex_sys (ex_set_q (ex_y_c y) None) (ex_y_s y) [] [] app0)) -> False).
      { intros a app0 Ha. unfold ex_conmids in Ha. cbn [ex_y_s ex_y_s2c] in Ha.
        rewrite Q3, Q4 in Ha. destruct Ha. }
      split.
      * constructor; cbn [ex_y_c ex_y_s ex_y_c2s ex_y_s2c ex_set_q ex_c_q].
        -- intros q0 E0. discriminate E0.
        -- constructor.
        -- constructor.
        -- rewrite Q3. constructor.
        -- rewrite Q4. constructor.
        -- intros a b Ha. exfalso. eapply CM0. exact Ha.
        -- intros _. split; [constructor | split; assumption].
      * intros _. unfold ex_gdone. cbn [ex_y_c ex_y_s ex_y_c2s ex_y_s2c ex_set_q ex_c_q existsb].
        split; [reflexivity |]. split; [intros _ [H | H]; discriminate H |].
        split; [| right; reflexivity].
        intros a Ha. exfalso. eapply CM0. exact Ha.
  - cbn [fst snd]. intros m' app' Hstep. inversion Hstep; subst.
    split; [intros k Hk'; discriminate Hk' |].
    apply (ex_ginv_intro _ _ mc kc rest sc); [exact ER |]. cbn [ex_txs].
    apply ex_guard_client_pure; auto. intros d [].
Qed.

(* ---- send (the network is quiet) *)
Lemma ex_cg_send : forall cf y m sty s2c' sc,
  ex_basic y m -> ex_ginv y m sc ->
  (forall d, In d s2c' -> In d (ex_y_s2c y)) -> ex_quiet y = true ->
  let r := ex_cli_step (ex_cf_maxr cf) (ex_y_c y) (ExSend sty) in
  ex_cg y m sc (ExSend sty) (fst r) (snd r) s2c'.
Proof.
  intros cf y m sty s2c' sc B G Hs Hq. cbn zeta.
  pose proof (ex_basic_cm _ _ B) as C.
  unfold ex_cli_step. destruct (ex_c_q (ex_y_c y)) as [q |] eqn:Q.
  - (* skipped *)
    cbn [fst snd]. intros m' app' Hstep. inversion Hstep; subst.
    split; [intros k Hk'; discriminate Hk' |].
    destruct (ex_m_reqs m') as [| [mc kc] rest] eqn:ER.
    { unfold ex_ginv. rewrite ER. exact I. }
    unfold ex_ginv in G. rewrite ER in G.
    apply (ex_ginv_intro _ _ mc kc rest sc); [exact ER |]. cbn [ex_txs].
    apply ex_guard_client_pure; auto. intros d [].
  - cbv zeta. unfold ex_req_of. cbn [fst snd ex_q_mid ex_q_tok ex_q_sty].
    set (mid := (ex_c_mid (ex_y_c y) + 1) mod 65536). set (tok := ex_c_tok (ex_y_c y) + 1).
    destruct (ex_quiet_inv _ Hq) as [Q1 [Q2 [Q3 Q4]]].
    assert (S0 : s2c' = []).
    { apply ex_nil_sub. intros d Hd. apply Hs in Hd. rewrite Q2 in Hd. exact Hd. }
    intros m' app' Hstep. inversion Hstep; subst m'. subst.
    split; [intros k Hk'; discriminate Hk' |].
    assert (Hnd : ~ In tok (ex_m_done m)).
    { intros Hd. apply (cm_done _ _ C) in Hd. apply (cm_stop _ _ C) in Hd.
      apply ex_toks_In in Hd. destruct Hd as [mm Hd]. apply (cm_tok _ _ C) in Hd. subst tok. lia. }
    apply (ex_ginv_intro _ _ mid tok (ex_m_reqs m) sty); [reflexivity |].
    cbn [ex_m_done ex_txs]. rewrite Q1. cbn [app].
    split; [| intros Hd; contradiction].
    constructor; cbn [ex_y_c ex_y_s ex_y_c2s ex_y_s2c ex_c_q].
    + intros q0 E0. inversion E0; subst. cbn. auto.
    + constructor; [cbn; auto | constructor].
    + constructor.
    + rewrite Q3. constructor.
    + rewrite Q4. constructor.
    + intros a b Ha. exfalso. unfold ex_conmids in Ha. cbn [ex_y_s ex_y_s2c] in Ha.
      rewrite Q3, Q4 in Ha. destruct Ha.
    + intros _. split; [constructor | split; assumption].
Qed.

(* ---- empty ACK *)
Lemma ex_cg_acke : forall cf y m mid ok s2c' sc,
  ex_basic y m -> ex_ginv y m sc ->
  (forall d, In d s2c' -> In d (ex_y_s2c y)) ->
  let r := ex_cli_step (ex_cf_maxr cf) (ex_y_c y) (ExRx (ExAckE mid) ok) in
  ex_cg y m sc (ExRx (ExAckE mid) ok) (fst r) (snd r) s2c'.
Proof.
  intros cf y m mid ok s2c' sc B G Hs. cbn zeta.
  pose proof (ex_basic_cm _ _ B) as C.
  pose proof (ex_remove_mid_cm (ex_y_c y) m mid C) as R. cbn zeta in R.
  unfold ex_cli_step. destruct (ex_remove_mid (ex_y_c y) mid) as [c1 sent]. cbn [fst] in R.
  destruct R as [C1 [Ela [Elc [Elr [Etk [Emd Hq]]]]]].
  assert (Both : forall c2, (forall q, ex_c_q c2 = Some q -> ex_c_q c1 = Some q) ->
            ex_c_lack c2 = ex_c_lack c1 -> ex_c_lcon c2 = ex_c_lcon c1 ->
            ex_cg y m sc (ExRx (ExAckE mid) ok) c2 [] s2c').
  { intros c2 H1 H2 H3 m' app' Hstep. inversion Hstep; subst.
    split; [intros k Hk'; discriminate Hk' |].
    destruct (ex_m_reqs m') as [| [mc kc] rest] eqn:ER.
    { unfold ex_ginv. rewrite ER. exact I. }
    unfold ex_ginv in G. rewrite ER in G.
    apply (ex_ginv_intro _ _ mc kc rest sc); [exact ER |]. cbn [ex_txs].
    apply ex_guard_client_pure; auto; try congruence.
    - intros q Q. apply H1 in Q. apply Hq in Q. apply Q.
    - intros d []. }
  destruct sent; cbn [fst snd]; apply Both; auto.
Qed.

(* ---- Non-confirmable response *)
Lemma ex_cg_nonr : forall cf y m mid tok ok s2c' sc,
  ex_basic y m -> ex_ginv y m sc ->
  (forall d, In d s2c' -> In d (ex_y_s2c y)) ->
  let r := ex_cli_step (ex_cf_maxr cf) (ex_y_c y) (ExRx (ExNonR mid tok) ok) in
  ex_cg y m sc (ExRx (ExNonR mid tok) ok) (fst r) (snd r) s2c'.
Proof.
  intros cf y m mid tok ok s2c' sc B G Hs. cbn zeta.
  pose proof (ex_basic_cm _ _ B) as C.
  pose proof (ex_cancel_tok_cm (ex_y_c y) m tok C) as R. cbn zeta in R.
  unfold ex_cli_step. set (c1 := ex_cancel_tok (ex_y_c y) tok) in *.
  destruct R as [C1 [Ela [Elc [Elr [Etk [Emd Hq]]]]]].
  unfold ex_deliver. replace (negb (1 =? 2)) with true by reflexivity.
  replace (1 =? 0) with false by reflexivity. rewrite andb_true_r.
  assert (Both : forall c2 outs,
            (forall q, ex_c_q c2 = Some q -> ex_c_q c1 = Some q) ->
            ex_c_lack c2 = ex_c_lack c1 -> ex_c_lcon c2 = ex_c_lcon c1 ->
            (forall k, existsb (ex_is_concl k) outs = false) ->
            (forall d, In d (ex_txs outs) -> ex_is_req d = false) ->
            (forall m', ex_step_ok false m (ExRx (ExNonR mid tok) ok, outs) m' ->
                        ex_m_reqs m' = ex_m_reqs m /\ ex_m_done m' = ex_m_done m) ->
            ex_cg y m sc (ExRx (ExNonR mid tok) ok) c2 outs s2c').
  { intros c2 outs H1 H2 H3 H4 H5 H6 m' app' Hstep.
    split; [intros k Hk'; rewrite H4 in Hk'; discriminate Hk' |].
    destruct (H6 m' Hstep) as [E1 E2].
    destruct (ex_m_reqs m') as [| [mc kc] rest] eqn:ER.
    { unfold ex_ginv. rewrite ER. exact I. }
    unfold ex_ginv in G. rewrite <- E1 in G.
    apply (ex_ginv_intro _ _ mc kc rest sc); [exact ER |]. rewrite E2.
    apply ex_guard_client_pure; auto; try congruence.
    intros q Q. apply H1 in Q. apply Hq in Q. apply Q. }
  destruct ok; cbn [negb fst snd].
  - apply Both; cbn [ex_c_q ex_c_lack ex_c_lcon].
    + auto.
    + reflexivity.
    + reflexivity.
    + intros k. reflexivity.
    + intros d Hd. destruct Hd.
    + intros m' Hstep. inversion Hstep; subst. cbn. auto.
  - apply Both; cbn [ex_c_q ex_c_lack ex_c_lcon].
    + auto.
    + reflexivity.
    + reflexivity.
    + intros k. reflexivity.
    + intros d Hd. cbn in Hd. destruct Hd as [<- | []]. reflexivity.
    + intros m' Hstep. inversion Hstep; subst. cbn. auto.
Qed.

Lemma ex_conmids_sub_s2c : forall y c1 c2s' s2c' app' a,
  (forall d, In d s2c' -> In d (ex_y_s2c y)) ->
  In a (ex_conmids (Build_ex_sys c1 (ex_y_s y) c2s' s2c' app')) -> In a (ex_conmids y).
Proof.
  intros y c1 c2s' s2c' app' a Hs Ha. unfold ex_conmids in *.
  cbn [ex_y_c ex_y_s ex_y_c2s ex_y_s2c] in Ha. apply ex_conmids_In in Ha. apply ex_conmids_In.
  destruct Ha as [[k Hk] | Ha]; [left; exists k; auto | right; exact Ha].
Qed.

Lemma ex_existsb_ackr_in : forall d l, In d l -> ex_is_ackr d = true -> existsb ex_is_ackr l = true.
Proof. intros d l H E. apply existsb_exists. exists d. auto. Qed.

(* ---- piggybacked response *)
Lemma ex_cg_ackr : forall cf y m mid tok ok s2c' sc,
  ex_basic y m -> ex_ginv y m sc ->
  (forall d, In d s2c' -> In d (ex_y_s2c y)) -> In (ExAckR mid tok) (ex_y_s2c y) ->
  let r := ex_cli_step (ex_cf_maxr cf) (ex_y_c y) (ExRx (ExAckR mid tok) ok) in
  ex_cg y m sc (ExRx (ExAckR mid tok) ok) (fst r) (snd r) s2c'.
Proof.
  intros cf y m mid tok ok s2c' sc B G Hs Hin. cbn zeta.
  pose proof (ex_basic_cm _ _ B) as C.
  pose proof (bs_s2c _ _ B) as S2. rewrite Forall_forall in S2. specialize (S2 _ Hin). cbn in S2.
  destruct (ex_m_reqs m) as [| [mc kc] rest] eqn:ER; [destruct S2 |].
  unfold ex_ginv in G. rewrite ER in G. destruct G as [GC GD].
  pose proof (g_s2c _ _ _ _ GC) as F. rewrite Forall_forall in F. specialize (F _ Hin). cbn in F.
  destruct F as [-> [-> Hsc]]. subst sc.
  pose proof (ex_remove_mid_cm (ex_y_c y) m mc C) as R. cbn zeta in R.
  unfold ex_cli_step.
  assert (Q1 : ex_c_q (fst (ex_remove_mid (ex_y_c y) mc)) = None).
  { unfold ex_remove_mid. destruct (ex_c_q (ex_y_c y)) as [q |] eqn:Q; [| cbn; exact Q].
    destruct (g_q _ _ _ _ GC _ Q) as [Hm _]. rewrite Hm, Z.eqb_refl. reflexivity. }
  destruct (ex_remove_mid (ex_y_c y) mc) as [c1 sent]. cbn [fst] in R, Q1.
  destruct R as [C1 [Ela [Elc [Elr [Etk [Emd Hq]]]]]].
  destruct (mc =? ex_c_lack c1) eqn:E; cbn [fst snd].
  - (* duplicate *)
    intros m' app' Hstep. inversion Hstep; subst.
    split; [intros k Hk'; discriminate Hk' |].
    apply (ex_ginv_intro _ _ mc kc rest 0); [exact ER |]. cbn [ex_txs].
    apply ex_guard_client_pure; auto; [| | intros d []]; try (split; assumption).
    intros q Q. rewrite Q1 in Q. discriminate Q.
  - (* delivered *)
    apply Z.eqb_neq in E.
    unfold ex_deliver. replace (negb ok && negb (2 =? 2)) with false by (destruct ok; reflexivity).
    replace (2 =? 0) with false by reflexivity. cbn [fst snd].
    assert (Hnd : ~ In kc (ex_m_done m)).
    { intros Hd. destruct (GD Hd) as [_ [D2 _]]. apply E. rewrite Ela. symmetry. apply D2; [reflexivity |].
      right. eapply ex_existsb_ackr_in; [exact Hin | reflexivity]. }
    intros m' app' Hstep. inversion Hstep; subst. split.
    { intros k Hk'. cbn in Hk'. rewrite orb_false_r in Hk'. apply Z.eqb_eq in Hk'. subst k.
      destruct (ex_memz kc (ex_m_done m)) eqn:Em; [| reflexivity].
      apply ex_memz_In in Em. contradiction. }
    apply (ex_ginv_intro _ _ mc kc rest 0); [cbn [ex_m_reqs ex_mon_concl]; exact ER |].
    cbn [ex_txs ex_m_done ex_mon_concl]. rewrite app_nil_r.
    assert (P0 : ex_s_pend (ex_y_s y) = []).
    { eapply ex_Forall_false_nil; [apply (g_pend _ _ _ _ GC) |]. intros p [_ H]. apply H. reflexivity. }
    assert (P1 : ex_s_con (ex_y_s y) = []).
    { eapply ex_Forall_false_nil; [apply (g_con _ _ _ _ GC) |]. intros p [_ H]. apply H. reflexivity. }
    assert (CM0 : forall a, In a (ex_conmids y) -> False).
    { intros a Ha. unfold ex_conmids in Ha. apply ex_conmids_In in Ha. rewrite P0, P1 in Ha.
      destruct Ha as [[k' Hk] | [[r [[] _]] | [p [[] _]]]].
      pose proof (g_s2c _ _ _ _ GC) as F. rewrite Forall_forall in F. specialize (F _ Hk). cbn in F.
      destruct F as [_ F]. apply F. reflexivity. }
    split.
    + apply (ex_gcore_transfer y); cbn [ex_y_c ex_y_s ex_y_c2s ex_y_s2c ex_c_q]; auto.
      * intros q Q. rewrite Q1 in Q. discriminate Q.
      * intros r Hr. left. exists r. auto.
    + intros _. unfold ex_gdone. cbn [ex_y_c ex_y_s ex_y_c2s ex_y_s2c ex_c_q ex_c_lack ex_c_lcon].
      split; [exact Q1 |]. split; [intros _ _; reflexivity |]. split.
      * intros a Ha. exfalso. apply (CM0 a). eapply ex_conmids_sub_s2c; [exact Hs | exact Ha].
      * left. destruct (ex_seen_dec mc kc (ex_s_seen (ex_y_s y))) as [H | H]; [exact H |].
        destruct (g_unseen _ _ _ _ GC H) as [U1 _]. rewrite Forall_forall in U1.
        specialize (U1 _ Hin). discriminate U1.
Qed.

(* ---- separate Confirmable response *)
Lemma ex_cg_conr : forall cf y m mid tok ok s2c' sc,
  ex_basic y m -> ex_ginv y m sc ->
  (forall d, In d s2c' -> In d (ex_y_s2c y)) -> In (ExConR mid tok) (ex_y_s2c y) ->
  let r := ex_cli_step (ex_cf_maxr cf) (ex_y_c y) (ExRx (ExConR mid tok) ok) in
  ex_cg y m sc (ExRx (ExConR mid tok) ok) (fst r) (snd r) s2c'.
Proof.
  intros cf y m mid tok ok s2c' sc B G Hs Hin. cbn zeta.
  pose proof (ex_basic_cm _ _ B) as C.
  pose proof (bs_s2c _ _ B) as S2. rewrite Forall_forall in S2. specialize (S2 _ Hin). cbn in S2.
  destruct (ex_m_reqs m) as [| [mc kc] rest] eqn:ER; [destruct S2 as [[] _] |].
  unfold ex_ginv in G. rewrite ER in G. destruct G as [GC GD].
  pose proof (g_s2c _ _ _ _ GC) as F. rewrite Forall_forall in F. specialize (F _ Hin). cbn in F.
  destruct F as [-> Hsc].
  assert (Hmid : In mid (ex_conmids y)).
  { unfold ex_conmids. apply ex_conmids_In. left. exists kc. exact Hin. }
  pose proof (ex_cancel_tok_cm (ex_y_c y) m kc C) as R. cbn zeta in R.
  unfold ex_cli_step.
  assert (Q1 : ex_c_q (ex_cancel_tok (ex_y_c y) kc) = None).
  { unfold ex_cancel_tok. destruct (ex_c_q (ex_y_c y)) as [q |] eqn:Q; [| exact Q].
    destruct (g_q _ _ _ _ GC _ Q) as [_ [Hk _]]. rewrite Hk, Z.eqb_refl. reflexivity. }
  set (c1 := ex_cancel_tok (ex_y_c y) kc) in *.
  destruct R as [C1 [Ela [Elc [Elr [Etk [Emd Hq]]]]]].
  destruct (mid =? ex_c_lcon c1) eqn:E; cbn [fst snd].
  - (* duplicate: acknowledged again *)
    intros m' app' Hstep.
    assert (Em : m' = m) by (inversion Hstep; subst; reflexivity). subst m'.
    split; [intros k Hk'; destruct (ex_c_lres c1); discriminate Hk' |].
    apply (ex_ginv_intro _ _ mc kc rest sc); [exact ER |].
    apply ex_guard_client_pure; auto; try (split; assumption).
    + intros q Q. rewrite Q1 in Q. discriminate Q.
    + intros d Hd. destruct (ex_c_lres c1); cbn in Hd; destruct Hd as [<- | []]; reflexivity.
  - (* delivered *)
    apply Z.eqb_neq in E.
    assert (Hnd : ~ In kc (ex_m_done m)).
    { intros Hd. destruct (GD Hd) as [_ [_ [D3 _]]]. apply E. rewrite Elc. apply D3. exact Hmid. }
    unfold ex_deliver. replace (negb (0 =? 2)) with true by reflexivity.
    replace (0 =? 0) with true by reflexivity. rewrite andb_true_r.
    assert (Done : forall lres' a,
              (a = ExAckE mid \/ a = ExRst mid) ->
              forall m' app',
              ex_m_reqs m' = ex_m_reqs m -> ex_m_done m' = kc :: ex_m_done m ->
              ex_ginv (Build_ex_sys (Build_ex_cli (ex_c_q c1) mid (ex_c_lack c1) lres' (ex_c_mid c1)
                                                  (ex_c_tok c1))
                                    (ex_y_s y) (ex_y_c2s y ++ [a]) s2c' app') m' sc).
    { intros lres' a Ha m' app' E1 E2.
      apply (ex_ginv_intro _ _ mc kc rest sc); [rewrite E1; exact ER |]. rewrite E2.
      split.
      + apply (ex_gcore_transfer y); cbn [ex_y_c ex_y_s ex_y_c2s ex_y_s2c ex_c_q]; auto.
        * intros q Q. rewrite Q1 in Q. discriminate Q.
        * intros d Hd. apply ex_In_snoc in Hd. destruct Hd as [Hd | ->]; [left; exact Hd | right].
          destruct Ha as [-> | ->]; reflexivity.
        * intros r Hr. left. exists r. auto.
      + intros _. unfold ex_gdone. cbn [ex_y_c ex_y_s ex_y_c2s ex_y_s2c ex_c_q ex_c_lack ex_c_lcon].
        split; [exact Q1 |]. split; [intros H0; contradiction |]. split.
        * intros b Hb. apply (g_uni _ _ _ _ GC); [| exact Hmid].
          eapply ex_conmids_sub_s2c; [exact Hs | exact Hb].
        * left. destruct (ex_seen_dec mc kc (ex_s_seen (ex_y_s y))) as [H | H]; [exact H |].
          destruct (g_unseen _ _ _ _ GC H) as [U1 _]. rewrite Forall_forall in U1.
          specialize (U1 _ Hin). discriminate U1. }
    destruct ok; cbn [negb fst snd]; intros m' app' Hstep; inversion Hstep; subst; (split;
      [ intros k Hk'; cbn in Hk'; rewrite orb_false_r in Hk'; apply Z.eqb_eq in Hk'; subst k;
        destruct (ex_memz kc (ex_m_done m)) eqn:Em; [apply ex_memz_In in Em; contradiction | reflexivity]
      | cbn [ex_txs]; eapply Done; [ | reflexivity | reflexivity]; auto ]).
Qed.

(* ------------------------------------------------------------------ every action *)
Definition ex_sc_of_obs (obs : list ex_obs) (sc : Z) : Z :=
  match obs with
  | [(i, outs)] => ex_sc_after i outs sc
  | _ => sc
  end.

Lemma ex_inv_client : forall cf y m sc i s2c',
  ex_basic y m -> ex_admissible m i -> Forall (ex_s2c_ok (ex_m_reqs m)) s2c' ->
  (let r := ex_cli_step (ex_cf_maxr cf) (ex_y_c y) i in ex_cg y m sc i (fst r) (snd r) s2c') ->
  let r := ex_sys_client cf y i s2c' in
  exists m', ex_mon_path true m (snd r) m' /\ ex_basic (fst r) m' /\
             ex_ginv (fst r) m' (ex_sc_of_obs (snd r) sc).
Proof.
  intros cf y m sc i s2c' B A S CG. cbn zeta in *.
  pose proof (ex_basic_client cf y m i s2c' B A S) as H. cbn zeta in H.
  unfold ex_sys_client in *.
  destruct (ex_cli_step (ex_cf_maxr cf) (ex_y_c y) i) as [c1 outs]. cbn [fst snd] in *.
  destruct H as [m' [P B']].
  apply ex_mon_path_cons_inv in P. destruct P as [m1 [Hs P]].
  apply ex_mon_path_nil_inv in P. subst m1.
  exists m'.
  match goal with
  | |- context [Build_ex_sys c1 (ex_y_s y) _ s2c' ?app] => destruct (CG m' app Hs) as [Fr GI]
  end.
  split; [| split; [exact B' | exact GI]].
  econstructor; [| constructor]. apply ex_step_strengthen; assumption.
Qed.

Lemma ex_ginv_map : forall y y' m sc,
  ex_ginv y m sc ->
  (forall mc kc, ex_guard y (ex_m_done m) mc kc sc -> ex_guard y' (ex_m_done m) mc kc sc) ->
  ex_ginv y' m sc.
Proof.
  intros y y' m sc G H. unfold ex_ginv in *. destruct (ex_m_reqs m) as [| [mc kc] rest]; [exact I |].
  apply H. exact G.
Qed.

Lemma ex_inv_step : forall maxr y m sc a,
  ex_basic y m -> ex_ginv y m sc ->
  let r := ex_sys_step (ex_cfg_guarded maxr) y a in
  exists m', ex_mon_path true m (snd r) m' /\ ex_basic (fst r) m' /\
             ex_ginv (fst r) m' (ex_sc_of_obs (snd r) sc).
Proof.
  intros maxr y m sc a B G. cbn zeta. set (cf := ex_cfg_guarded maxr).
  assert (Same : exists m', ex_mon_path true m (snd (y, @nil ex_obs)) m' /\
                            ex_basic (fst (y, @nil ex_obs)) m' /\
                            ex_ginv (fst (y, @nil ex_obs)) m' (ex_sc_of_obs (snd (y, @nil ex_obs)) sc)).
  { exists m. split; [constructor | split; assumption]. }
  assert (NC : forall y', snd (ex_sys_step cf y a) = [] -> fst (ex_sys_step cf y a) = y' ->
               ex_ginv y' m sc ->
               exists m', ex_mon_path true m (snd (ex_sys_step cf y a)) m' /\
                          ex_basic (fst (ex_sys_step cf y a)) m' /\
                          ex_ginv (fst (ex_sys_step cf y a)) m'
                                  (ex_sc_of_obs (snd (ex_sys_step cf y a)) sc)).
  { intros y' E1 E2 G'.
    pose proof (ex_basic_step cf y m a B) as H. cbn zeta in H. destruct H as [m' [P B']].
    rewrite E1 in *. apply ex_mon_path_nil_inv in P. subst m'.
    exists m. split; [constructor | split; [exact B' | rewrite E2; exact G']]. }
  destruct a as [sty | | i ok | i | i | i | i | i | j | j].
  - (* send *)
    unfold ex_sys_step. destruct (ex_y_app y); [exact Same |].
    cbn [ex_cf_quiet cf ex_cfg_guarded andb].
    destruct (ex_quiet y) eqn:Q; cbn [negb]; [| exact Same].
    apply ex_inv_client; [exact B | exact I | apply B |].
    apply ex_cg_send; auto.
  - (* timer *)
    unfold ex_sys_step. cbn [ex_cf_patient cf ex_cfg_guarded andb].
    destruct (ex_will_nack cf (ex_y_c y)) eqn:W; cbn [andb].
    + destruct (ex_quiet y) eqn:Q; cbn [negb]; [| exact Same].
      apply ex_inv_client; [exact B | exact I | apply B |].
      apply ex_cg_timer; auto.
    + apply ex_inv_client; [exact B | exact I | apply B |].
      apply ex_cg_timer; auto.
  - (* delivery to the client *)
    unfold ex_sys_step. destruct (nth_error (ex_y_s2c y) i) as [d |] eqn:E; [| exact Same].
    pose proof (nth_error_In _ _ E) as Hin.
    pose proof (ex_Forall_nth _ _ _ _ _ (bs_s2c _ _ B) E) as Hok.
    assert (Hsub : forall x, In x (ex_remove_nth i (ex_y_s2c y)) -> In x (ex_y_s2c y)).
    { intros x. apply ex_In_remove_nth. }
    apply ex_inv_client; [exact B | exact Hok | apply ex_Forall_remove_nth; apply B |].
    destruct d as [mid tok sty | mid | mid tok | mid tok | mid tok | mid]; cbn in Hok.
    + destruct Hok.
    + apply ex_cg_acke; auto.
    + apply ex_cg_ackr; auto.
    + apply ex_cg_conr; auto.
    + apply ex_cg_nonr; auto.
    + destruct Hok.
  - (* duplicate towards the client *)
    unfold ex_sys_step in *. destruct (nth_error (ex_y_s2c y) i) as [d |] eqn:E; [| exact Same].
    pose proof (nth_error_In _ _ E) as Hin.
    apply (NC _ eq_refl eq_refl). apply (ex_ginv_map y); [exact G |]. intros mc kc G1.
    apply ex_guard_net_c; [exact G1 |].
    intros x Hx. apply ex_In_snoc in Hx. destruct Hx as [Hx | ->]; assumption.
  - apply (NC _ eq_refl eq_refl). apply (ex_ginv_map y); [exact G |]. intros mc kc G1.
    apply ex_guard_net_c; [exact G1 |]. intros x. apply ex_In_remove_nth.
  - (* delivery to the server *)
    unfold ex_sys_step. destruct (nth_error (ex_y_c2s y) i) as [d |] eqn:E; [| exact Same].
    pose proof (ex_basic_step cf y m (ExADelS i) B) as H. cbn zeta in H. unfold ex_sys_step in H.
    rewrite E in H.
    pose proof (fun mc kc G1 => ex_guard_srvrx cf y (ex_m_done m) mc kc sc i d eq_refl G1 E) as GS.
    cbn zeta in GS.
    destruct (ex_srv_rx cf (ex_y_s y) d) as [s1 ds]. cbn [fst snd] in *.
    destruct H as [m' [P B']]. apply ex_mon_path_nil_inv in P. subst m'.
    exists m. split; [constructor | split; [exact B' |]].
    apply (ex_ginv_map y); [exact G | exact GS].
  - unfold ex_sys_step in *. destruct (nth_error (ex_y_c2s y) i) as [d |] eqn:E; [| exact Same].
    pose proof (nth_error_In _ _ E) as Hin.
    apply (NC _ eq_refl eq_refl). apply (ex_ginv_map y); [exact G |]. intros mc kc G1.
    apply ex_guard_net_s; [exact G1 |].
    intros x Hx. apply ex_In_snoc in Hx. destruct Hx as [Hx | ->]; assumption.
  - apply (NC _ eq_refl eq_refl). apply (ex_ginv_map y); [exact G |]. intros mc kc G1.
    apply ex_guard_net_s; [exact G1 |]. intros x. apply ex_In_remove_nth.
  - (* async delay over *)
    pose proof (ex_basic_step cf y m (ExAFire j) B) as H. cbn zeta in H. unfold ex_sys_step in *.
    pose proof (fun mc kc G1 => ex_guard_fire y (ex_m_done m) mc kc sc j G1) as GS. cbn zeta in GS.
    destruct (ex_srv_fire (ex_y_s y) j) as [s1 ds]. cbn [fst snd] in *.
    destruct H as [m' [P B']]. apply ex_mon_path_nil_inv in P. subst m'.
    exists m. split; [constructor | split; [exact B' |]].
    apply (ex_ginv_map y); [exact G | exact GS].
  - (* the server's retransmission timer *)
    pose proof (ex_basic_step cf y m (ExASrvTimer j) B) as H. cbn zeta in H. unfold ex_sys_step in *.
    pose proof (fun mc kc G1 => ex_guard_srvtimer (ex_cf_maxr cf) y (ex_m_done m) mc kc sc j G1) as GS.
    cbn zeta in GS.
    destruct (ex_srv_timer (ex_cf_maxr cf) (ex_y_s y) j) as [s1 ds]. cbn [fst snd] in *.
    destruct H as [m' [P B']]. apply ex_mon_path_nil_inv in P. subst m'.
    exists m. split; [constructor | split; [exact B' |]].
    apply (ex_ginv_map y); [exact G | exact GS].
Qed.

Lemma ex_inv_run : forall maxr acts y m sc,
  ex_basic y m -> ex_ginv y m sc ->
  let r := ex_sys_run (ex_cfg_guarded maxr) y acts in
  exists m' sc', ex_mon_path true m (snd r) m' /\ ex_basic (fst r) m' /\ ex_ginv (fst r) m' sc'.
Proof.
  intros maxr acts. induction acts as [| a acts IH]; intros y m sc B G; cbn zeta.
  - exists m, sc. split; [constructor | split; assumption].
  - cbn [ex_sys_run].
    pose proof (ex_inv_step maxr y m sc a B G) as H. cbn zeta in H.
    destruct (ex_sys_step (ex_cfg_guarded maxr) y a) as [y1 o]. cbn [fst snd] in H.
    destruct H as [m1 [P1 [B1 G1]]].
    pose proof (IH y1 m1 _ B1 G1) as H2. cbn zeta in H2.
    destruct (ex_sys_run (ex_cfg_guarded maxr) y1 acts) as [y2 t]. cbn [fst snd] in *.
    destruct H2 as [m2 [sc2 [P2 [B2 G2]]]].
    exists m2, sc2. split; [eapply ex_mon_path_snoc; eassumption | split; assumption].
Qed.

(* Part 2: with the three hypotheses, for every schedule *)
Theorem ex_system_safe : forall maxr cmid0 smid0 acts,
  ex_property (ex_sys_trace (ex_cfg_guarded maxr) (ex_sys_init cmid0 smid0) acts).
Proof.
  intros maxr cmid0 smid0 acts. unfold ex_sys_trace.
  pose proof (ex_inv_run maxr acts _ _ 0 (ex_basic_init cmid0 smid0) I) as H. cbn zeta in H.
  destruct H as [m' [sc' [P _]]].
  unfold ex_property.
  split; [eapply ex_sound_once; exact P |].
  split; [eapply ex_sound_token; exact P |].
  split; [eapply ex_sound_stops; exact P |].
  split; [eapply ex_sound_conack; exact P |].
  split; [eapply ex_sound_dup; exact P | eapply ex_sound_non; exact P].
Qed.

Lemma ex_system_once : forall maxr cmid0 smid0 acts,
  ex_P_once (ex_sys_trace (ex_cfg_guarded maxr) (ex_sys_init cmid0 smid0) acts).
Proof. intros. apply (ex_system_safe maxr cmid0 smid0 acts). Qed.

(* the acceptor accepts every behaviour of the guarded system *)
Theorem ex_system_accepted : forall maxr cmid0 smid0 acts,
  accepts_c07 (ex_sys_trace (ex_cfg_guarded maxr) (ex_sys_init cmid0 smid0) acts) = true.
Proof.
  intros maxr cmid0 smid0 acts. unfold ex_sys_trace, accepts_c07, ex_judge.
  pose proof (ex_inv_run maxr acts _ _ 0 (ex_basic_init cmid0 smid0) I) as H. cbn zeta in H.
  destruct H as [m' [sc' [P _]]]. apply Z.eqb_eq. eapply ex_path_judge. exact P.
Qed.

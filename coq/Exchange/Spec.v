(* C07 - the property, stated on observed client traces (lists of [ex_obs] steps).

   Six clauses, one per sentence of the property text:
     ex_P_once      never both, never twice: per request token at most one conclusion, where a
                    conclusion is a response-handler call for a piggybacked or Confirmable
                    response or a NACK
     ex_P_token     the handler sees the token of a request that was sent (for a piggybacked
                    response: of the request with the acknowledged message id)
     ex_P_stops     after the response for a token was handled (any kind) or its NACK was given,
                    no request with that token is transmitted
     ex_P_conack    every Confirmable response received is answered in the same step by exactly
                    one ACK or RST with its mid, after the handler if the handler is called,
                    RST exactly when the verdict was FAIL
     ex_P_dup       a Confirmable response with the mid of the previously delivered response is
                    not delivered again and is answered as the first time
     ex_P_non       a Non-confirmable response is delivered exactly once per datagram received
   Definitions only. *)
From Coq Require Import ZArith List Bool.
From LibcoapV Require Import Exchange.Exchange.
Import ListNotations.
Local Open Scope Z_scope.

Definition ex_outs_of (t : list ex_obs) : list ex_out := flat_map snd t.

(* a conclusion for token k *)
Definition ex_is_concl (k : Z) (o : ex_out) : bool :=
  match o with
  | ExResp kind _ tok _ => negb (kind =? 1) && (tok =? k)
  | ExNack tok _ _ => tok =? k
  | _ => false
  end.

Definition ex_concl_count (k : Z) (t : list ex_obs) : nat :=
  length (filter (ex_is_concl k) (ex_outs_of t)).

Definition ex_P_once (t : list ex_obs) : Prop :=
  forall k, (ex_concl_count k t <= 1)%nat.

(* the application sent a request with this mid and token *)
Definition ex_sent_req (m k : Z) (t : list ex_obs) : Prop :=
  exists s, In (ExSend s, [ExTx (ExReq m k s)]) t.

Definition ex_P_token (t : list ex_obs) : Prop :=
  forall t1 i outs t2 kind m k st,
    t = t1 ++ (i, outs) :: t2 -> In (ExResp kind m k st) outs ->
    (exists m', ex_sent_req m' k t1) /\ (kind = 2 -> ex_sent_req m k t1).

(* the step handles the response for token k or gives its NACK *)
Definition ex_ends (k : Z) (o : ex_obs) : Prop :=
  (exists kind m st, In (ExResp kind m k st) (snd o)) \/ (exists r m, In (ExNack k r m) (snd o)).

Definition ex_P_stops (t : list ex_obs) : Prop :=
  forall t1 o t2 o' t3 k,
    t = t1 ++ o :: t2 ++ o' :: t3 -> ex_ends k o ->
    forall m s, ~ In (ExTx (ExReq m k s)) (snd o').

Definition ex_con_answer_ok (s k : Z) (ok : bool) (outs : list ex_out) : Prop :=
  (exists st, outs = [ExResp 0 s k st; ExTx (if ok then ExAckE s else ExRst s)]) \/
  outs = [ExTx (ExAckE s)] \/ outs = [ExTx (ExRst s)].

Definition ex_P_conack (t : list ex_obs) : Prop :=
  forall s k ok outs, In (ExRx (ExConR s k) ok, outs) t -> ex_con_answer_ok s k ok outs.

Definition ex_is_handler (o : ex_out) : bool :=
  match o with ExResp _ _ _ _ => true | _ => false end.
Definition ex_delivers (o : ex_obs) : bool := existsb ex_is_handler (snd o).

Definition ex_P_dup (t : list ex_obs) : Prop :=
  forall t1 s k ok st a t2 k' ok' outs' t3,
    t = t1 ++ (ExRx (ExConR s k) ok, [ExResp 0 s k st; ExTx a]) :: t2 ++
        (ExRx (ExConR s k') ok', outs') :: t3 ->
    (forall o, In o t2 -> ex_delivers o = false) ->
    outs' = [ExTx a].

Definition ex_P_non (t : list ex_obs) : Prop :=
  forall s k ok outs, In (ExRx (ExNonR s k) ok, outs) t ->
    exists st, outs = [ExResp 1 s k st] \/
               (ok = false /\ outs = [ExResp 1 s k st; ExTx (ExRst s)]).

Definition ex_property (t : list ex_obs) : Prop :=
  ex_P_once t /\ ex_P_token t /\ ex_P_stops t /\ ex_P_conack t /\ ex_P_dup t /\ ex_P_non t.

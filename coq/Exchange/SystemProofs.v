(* C07 - theorems about the closed system of System.v, for all schedules.

   Part 1 (this file, first half): for every configuration (any server variant, no quiet or
   patience hypothesis) and every schedule, the client's trace is accepted by the judge
   without clause 2: handler token, stop of retransmission, ACK/RST of Confirmable responses,
   duplicate handling, NON delivery.
   Part 2: with the three hypotheses on, the trace is accepted by the full judge: at most one
   conclusion per request token. *)
From LibcoapV Require Import Base.Tactics Exchange.Exchange Exchange.Accept Exchange.Spec
  Exchange.AcceptProofs Exchange.System.
Local Open Scope Z_scope.

(* ------------------------------------------------------------------ list facts *)
Lemma ex_Forall_remove_nth : forall (A : Type) (P : A -> Prop) i l,
  Forall P l -> Forall P (ex_remove_nth i l).
Proof.
  intros A P i l. revert i. induction l as [| x l IH]; intros i H; cbn.
  - destruct i; constructor.
  - inversion H; subst. destruct i; [assumption |]. constructor; [assumption | apply IH; assumption].
Qed.

Lemma ex_Forall_set_nth : forall (A : Type) (P : A -> Prop) i x l,
  Forall P l -> P x -> Forall P (ex_set_nth i x l).
Proof.
  intros A P i x l. revert i. induction l as [| y l IH]; intros i H Hx; cbn.
  - destruct i; constructor.
  - inversion H; subst. destruct i; constructor; try assumption. apply IH; assumption.
Qed.

Lemma ex_Forall_nth : forall (A : Type) (P : A -> Prop) i l d,
  Forall P l -> nth_error l i = Some d -> P d.
Proof.
  intros A P i l d H E. apply nth_error_In in E. rewrite Forall_forall in H. apply H. exact E.
Qed.

Lemma ex_Forall_snoc : forall (A : Type) (P : A -> Prop) l x,
  Forall P l -> P x -> Forall P (l ++ [x]).
Proof. intros. apply Forall_app. split; [assumption | constructor; [assumption | constructor]]. Qed.

Lemma ex_mon_path_snoc : forall strict t1 t2 m m1 m2,
  ex_mon_path strict m t1 m1 -> ex_mon_path strict m1 t2 m2 -> ex_mon_path strict m (t1 ++ t2) m2.
Proof.
  intros strict t1. induction t1 as [| o t1 IH]; intros t2 m m1 m2 H1 H2.
  - apply ex_mon_path_nil_inv in H1. subst. exact H2.
  - apply ex_mon_path_cons_inv in H1. destruct H1 as [mx [Hs Hp]].
    cbn [app]. econstructor; [eassumption |]. eapply IH; eassumption.
Qed.

(* ------------------------------------------------------------------ the basic invariant *)
Definition ex_c2s_ok (reqs : list (Z * Z)) (d : ex_dg) : Prop :=
  match d with
  | ExReq m k _ => In (m, k) reqs
  | ExAckE _ | ExRst _ => True
  | _ => False
  end.

Definition ex_s2c_ok (reqs : list (Z * Z)) (d : ex_dg) : Prop :=
  match d with
  | ExAckR m k => In (m, k) reqs
  | ExConR s k | ExNonR s k => In k (map snd reqs) /\ 0 <= s
  | ExAckE _ => True
  | _ => False
  end.

Record ex_basic (y : ex_sys) (m : ex_mon) : Prop := {
  bs_tok : forall mid tok, In (mid, tok) (ex_m_reqs m) -> tok <= ex_c_tok (ex_y_c y) /\ 0 <= mid;
  bs_fun : forall m1 m2 k, In (m1, k) (ex_m_reqs m) -> In (m2, k) (ex_m_reqs m) -> m1 = m2;
  bs_q : forall q, ex_c_q (ex_y_c y) = Some q ->
         In (ex_q_mid q, ex_q_tok q) (ex_m_reqs m) /\ ~ In (ex_q_tok q) (ex_m_stop m);
  bs_c2s : Forall (ex_c2s_ok (ex_m_reqs m)) (ex_y_c2s y);
  bs_s2c : Forall (ex_s2c_ok (ex_m_reqs m)) (ex_y_s2c y);
  bs_pend : Forall (fun p => In (ex_p_tok p) (ex_toks m) /\ 0 <= ex_p_mid p)
                   (ex_s_pend (ex_y_s y));
  bs_con : Forall (fun r => In (ex_r_tok r) (ex_toks m) /\ 0 <= ex_r_mid r)
                  (ex_s_con (ex_y_s y));
  bs_lack : ex_c_lack (ex_y_c y) = -1 \/ In (ex_c_lack (ex_y_c y)) (ex_m_acks m);
  bs_lcon : ex_c_lcon (ex_y_c y) = -1 \/ In (ex_c_lcon (ex_y_c y)) (ex_m_cons m);
  bs_last : forall s la, ex_m_last m = Some (s, la) ->
            ex_c_lcon (ex_y_c y) = s /\ ex_c_lres (ex_y_c y) = la;
  bs_done : forall k, In k (ex_m_done m) -> In k (ex_m_stop m);
  bs_stop : ex_stop_sub m
}.

Lemma ex_c2s_ok_mono : forall reqs x d, ex_c2s_ok reqs d -> ex_c2s_ok (x :: reqs) d.
Proof. intros reqs x d H. destruct d; cbn in *; auto. Qed.

Lemma ex_s2c_ok_mono : forall reqs x d, ex_s2c_ok reqs d -> ex_s2c_ok (x :: reqs) d.
Proof. intros reqs x d H. destruct d; cbn in *; intuition. Qed.

Lemma ex_basic_init : forall cmid0 smid0, ex_basic (ex_sys_init cmid0 smid0) ex_mon_init.
Proof.
  intros. constructor; cbn.
  - intros ? ? [].
  - intros ? ? ? [].
  - intros ? E. discriminate E.
  - constructor.
  - constructor.
  - constructor.
  - constructor.
  - left. reflexivity.
  - left. reflexivity.
  - intros ? ? E. discriminate E.
  - intros ? [].
  - intros ? [].
Qed.

Lemma ex_next_mid_range : forall m, 0 <= ex_next_mid m < 65536.
Proof. intros m. unfold ex_next_mid. apply Z.mod_pos_bound. lia. Qed.

Lemma ex_tok_in_toks : forall mid tok (reqs : list (Z * Z)),
  In (mid, tok) reqs -> In tok (map snd reqs).
Proof.
  intros mid tok reqs H. apply in_map_iff. exists (mid, tok). split; [reflexivity | exact H].
Qed.

(* the part of the invariant that relates the client to the monitor *)
Record ex_cm (c : ex_cli) (m : ex_mon) : Prop := {
  cm_tok : forall mid tok, In (mid, tok) (ex_m_reqs m) -> tok <= ex_c_tok c /\ 0 <= mid;
  cm_fun : forall m1 m2 k, In (m1, k) (ex_m_reqs m) -> In (m2, k) (ex_m_reqs m) -> m1 = m2;
  cm_q : forall q, ex_c_q c = Some q ->
         In (ex_q_mid q, ex_q_tok q) (ex_m_reqs m) /\ ~ In (ex_q_tok q) (ex_m_stop m);
  cm_lack : ex_c_lack c = -1 \/ In (ex_c_lack c) (ex_m_acks m);
  cm_lcon : ex_c_lcon c = -1 \/ In (ex_c_lcon c) (ex_m_cons m);
  cm_last : forall s la, ex_m_last m = Some (s, la) -> ex_c_lcon c = s /\ ex_c_lres c = la;
  cm_done : forall k, In k (ex_m_done m) -> In k (ex_m_stop m);
  cm_stop : ex_stop_sub m
}.

(* how the request list of the monitor may change in a step *)
Definition ex_reqs_ext (m m' : ex_mon) : Prop :=
  ex_m_reqs m' = ex_m_reqs m \/ exists x, ex_m_reqs m' = x :: ex_m_reqs m.

Lemma ex_fresh_false : forall m tok, ex_fresh false m tok.
Proof. intros m tok H. discriminate H. Qed.

Lemma ex_stop_sub_concl : forall m tok last cons acks,
  ex_stop_sub m -> In tok (ex_toks m) -> ex_stop_sub (ex_mon_concl m tok last cons acks).
Proof.
  intros m tok last cons acks S Ht k Hk. unfold ex_toks in *. cbn in *.
  destruct Hk as [<- | Hk]; [exact Ht | apply S; exact Hk].
Qed.

(* ---- send *)
Lemma ex_cm_send : forall maxr c m sty,
  ex_cm c m ->
  let r := ex_cli_step maxr c (ExSend sty) in
  exists m', ex_step_ok false m (ExSend sty, snd r) m' /\ ex_cm (fst r) m' /\ ex_reqs_ext m m' /\
             Forall (ex_c2s_ok (ex_m_reqs m')) (ex_txs (snd r)).
Proof.
  intros maxr c m sty C. cbn zeta. unfold ex_cli_step.
  destruct (ex_c_q c) as [q |] eqn:Q.
  - exists m. cbn [fst snd].
    split; [apply SoSkip | split; [exact C | split; [left; reflexivity | constructor]]].
  - cbv zeta. unfold ex_req_of. cbn [fst snd ex_q_mid ex_q_tok ex_q_sty].
    set (mid := (ex_c_mid c + 1) mod 65536). set (tok := ex_c_tok c + 1).
    assert (Hfresh : ~ In tok (ex_toks m)).
    { intros Hin. apply ex_toks_In in Hin. destruct Hin as [mm Hin].
      apply (cm_tok _ _ C) in Hin. subst tok. lia. }
    eexists. split; [| split; [| split]].
    + apply SoSend. destruct (ex_memz tok (ex_toks m)) eqn:E; [| reflexivity].
      apply ex_memz_In in E. contradiction.
    + constructor; cbn [ex_m_reqs ex_m_stop ex_m_acks ex_m_cons ex_m_last ex_m_done ex_c_q
                         ex_c_tok ex_c_lack ex_c_lcon ex_c_lres].
      * intros mid0 tok0 [E | Hin].
        -- inversion E; subst. split; [lia |]. subst mid. apply Z.mod_pos_bound. lia.
        -- apply (cm_tok _ _ C) in Hin. subst tok. lia.
      * intros m1 m2 k [E1 | H1] [E2 | H2].
        -- congruence.
        -- inversion E1; subst. exfalso. apply Hfresh. eapply ex_tok_in_toks. exact H2.
        -- inversion E2; subst. exfalso. apply Hfresh. eapply ex_tok_in_toks. exact H1.
        -- eapply (cm_fun _ _ C); eassumption.
      * intros q0 E. inversion E; subst. cbn [ex_q_mid ex_q_tok]. split; [left; reflexivity |].
        intros Hs. apply Hfresh. apply (cm_stop _ _ C). exact Hs.
      * destruct (mid =? ex_c_lack c); [left; reflexivity | apply (cm_lack _ _ C)].
      * apply (cm_lcon _ _ C).
      * apply (cm_last _ _ C).
      * apply (cm_done _ _ C).
      * intros k Hk. unfold ex_toks. cbn. right. apply (cm_stop _ _ C). exact Hk.
    + right. eexists. reflexivity.
    + cbn. constructor; [| constructor]. cbn. left. reflexivity.
Qed.

Ltac ex_cm_fields :=
  constructor; cbn [ex_m_reqs ex_m_stop ex_m_acks ex_m_cons ex_m_last ex_m_done ex_mon_concl
                    ex_c_q ex_c_tok ex_c_lack ex_c_lcon ex_c_lres ex_set_q].

(* ---- retransmission timer *)
Lemma ex_cm_timer : forall maxr c m,
  ex_cm c m ->
  let r := ex_cli_step maxr c ExTimer in
  exists m', ex_step_ok false m (ExTimer, snd r) m' /\ ex_cm (fst r) m' /\ ex_reqs_ext m m' /\
             Forall (ex_c2s_ok (ex_m_reqs m')) (ex_txs (snd r)).
Proof.
  intros maxr c m C. cbn zeta. unfold ex_cli_step.
  destruct (ex_c_q c) as [q |] eqn:Q.
  - destruct (cm_q _ _ C _ Q) as [Hq1 Hq2].
    destruct (ex_q_cnt q <? maxr) eqn:E; unfold ex_req_of; cbn [fst snd].
    + exists m. split; [| split; [| split]].
      * apply SoTimerTx; [exact Hq1 |].
        destruct (ex_memz (ex_q_tok q) (ex_m_stop m)) eqn:E2; [| reflexivity].
        apply ex_memz_In in E2. contradiction.
      * ex_cm_fields; try apply C.
        intros q0 E0. inversion E0; subst. cbn [ex_q_mid ex_q_tok]. split; assumption.
      * left. reflexivity.
      * cbn. constructor; [exact Hq1 | constructor].
    + eexists. split; [| split; [| split]].
      * apply SoTimerNack; [exact Hq1 | apply ex_fresh_false].
      * ex_cm_fields; try apply C.
        -- intros q0 E0. discriminate E0.
        -- intros k [<- | Hk]; [left; reflexivity | right; apply (cm_done _ _ C); exact Hk].
        -- apply ex_stop_sub_concl; [apply C | eapply ex_tok_in_toks; exact Hq1].
      * left. reflexivity.
      * cbn. constructor.
  - exists m. cbn [fst snd].
    split; [apply SoTimerNone | split; [exact C | split; [left; reflexivity | constructor]]].
Qed.

(* ---- empty ACK *)
Lemma ex_cm_acke : forall maxr c m mid ok,
  ex_cm c m ->
  let r := ex_cli_step maxr c (ExRx (ExAckE mid) ok) in
  exists m', ex_step_ok false m (ExRx (ExAckE mid) ok, snd r) m' /\ ex_cm (fst r) m' /\
             ex_reqs_ext m m' /\ Forall (ex_c2s_ok (ex_m_reqs m')) (ex_txs (snd r)).
Proof.
  intros maxr c m mid ok C. cbn zeta. unfold ex_cli_step, ex_remove_mid.
  destruct (ex_c_q c) as [q |] eqn:Q.
  - destruct (ex_q_mid q =? mid) eqn:E; cbn [fst snd].
    + exists m. split; [apply SoAckE | split; [| split; [left; reflexivity | constructor]]].
      ex_cm_fields; try apply C.
      * intros mid0 tok0 Hin. apply (cm_tok _ _ C) in Hin. lia.
      * intros q0 E0. discriminate E0.
    + exists m. split; [apply SoAckE | split; [exact C | split; [left; reflexivity | constructor]]].
  - cbn [fst snd].
    exists m. split; [apply SoAckE | split; [exact C | split; [left; reflexivity | constructor]]].
Qed.

(* ---- removing the queued request *)
Lemma ex_cm_drop_q : forall c m, ex_cm c m -> ex_cm (ex_set_q c None) m.
Proof.
  intros c m C. ex_cm_fields; try apply C. intros q E. discriminate E.
Qed.

Lemma ex_remove_mid_cm : forall c m mid,
  ex_cm c m ->
  let c1 := fst (ex_remove_mid c mid) in
  ex_cm c1 m /\ ex_c_lack c1 = ex_c_lack c /\ ex_c_lcon c1 = ex_c_lcon c /\
  ex_c_lres c1 = ex_c_lres c /\ ex_c_tok c1 = ex_c_tok c /\ ex_c_mid c1 = ex_c_mid c /\
  (forall q, ex_c_q c1 = Some q -> ex_q_mid q <> mid /\ ex_c_q c = Some q).
Proof.
  intros c m mid C. cbn zeta. unfold ex_remove_mid.
  destruct (ex_c_q c) as [q |] eqn:Q.
  - destruct (ex_q_mid q =? mid) eqn:E; cbn [fst].
    + split; [apply ex_cm_drop_q; exact C |]. cbn.
      split; [reflexivity |]. split; [reflexivity |]. split; [reflexivity |].
      split; [reflexivity |]. split; [reflexivity |].
      intros q0 E0. discriminate E0.
    + split; [exact C |].
      split; [reflexivity |]. split; [reflexivity |]. split; [reflexivity |].
      split; [reflexivity |]. split; [reflexivity |].
      intros q0 E0. rewrite Q in E0. inversion E0; subst. split; [| reflexivity].
      apply Z.eqb_neq in E. exact E.
  - cbn [fst]. split; [exact C |].
    split; [reflexivity |]. split; [reflexivity |]. split; [reflexivity |].
    split; [reflexivity |]. split; [reflexivity |].
    intros q0 E0. rewrite Q in E0. discriminate E0.
Qed.

Lemma ex_cancel_tok_cm : forall c m tok,
  ex_cm c m ->
  let c1 := ex_cancel_tok c tok in
  ex_cm c1 m /\ ex_c_lack c1 = ex_c_lack c /\ ex_c_lcon c1 = ex_c_lcon c /\
  ex_c_lres c1 = ex_c_lres c /\ ex_c_tok c1 = ex_c_tok c /\ ex_c_mid c1 = ex_c_mid c /\
  (forall q, ex_c_q c1 = Some q -> ex_q_tok q <> tok /\ ex_c_q c = Some q).
Proof.
  intros c m tok C. cbn zeta. unfold ex_cancel_tok.
  destruct (ex_c_q c) as [q |] eqn:Q.
  - destruct (ex_q_tok q =? tok) eqn:E.
    + split; [apply ex_cm_drop_q; exact C |]. cbn.
      split; [reflexivity |]. split; [reflexivity |]. split; [reflexivity |].
      split; [reflexivity |]. split; [reflexivity |].
      intros q0 E0. discriminate E0.
    + split; [exact C |].
      split; [reflexivity |]. split; [reflexivity |]. split; [reflexivity |].
      split; [reflexivity |]. split; [reflexivity |].
      intros q0 E0. rewrite Q in E0. inversion E0; subst. split; [| reflexivity].
      apply Z.eqb_neq in E. exact E.
  - split; [exact C |].
    split; [reflexivity |]. split; [reflexivity |]. split; [reflexivity |].
    split; [reflexivity |]. split; [reflexivity |].
    intros q0 E0. rewrite Q in E0. discriminate E0.
Qed.

(* ---- piggybacked response *)
Lemma ex_cm_ackr : forall maxr c m mid tok ok,
  ex_cm c m -> In (mid, tok) (ex_m_reqs m) ->
  let r := ex_cli_step maxr c (ExRx (ExAckR mid tok) ok) in
  exists m', ex_step_ok false m (ExRx (ExAckR mid tok) ok, snd r) m' /\ ex_cm (fst r) m' /\
             ex_reqs_ext m m' /\ Forall (ex_c2s_ok (ex_m_reqs m')) (ex_txs (snd r)).
Proof.
  intros maxr c m mid tok ok C Hreq. cbn zeta. unfold ex_cli_step.
  pose proof (ex_remove_mid_cm c m mid C) as R. cbn zeta in R.
  destruct (ex_remove_mid c mid) as [c1 sent]. cbn [fst] in R.
  destruct R as [C1 [Ela [Elc [Elr [Etk [Emd Hq]]]]]].
  destruct (mid =? ex_c_lack c1) eqn:E; cbn [fst snd].
  - apply Z.eqb_eq in E.
    exists m. split; [| split; [exact C1 | split; [left; reflexivity | constructor]]].
    apply SoAckRDup. destruct (cm_lack _ _ C) as [L | L].
    + apply (cm_tok _ _ C) in Hreq. rewrite Ela in E. lia.
    + rewrite Ela in E. rewrite E. exact L.
  - unfold ex_deliver. replace (negb ok && negb (2 =? 2)) with false
      by (destruct ok; reflexivity).
    replace (2 =? 0) with false by reflexivity. cbn [fst snd].
    eexists. split; [| split; [| split]].
    + apply SoAckR; [exact Hreq | apply ex_fresh_false].
    + ex_cm_fields.
      * intros mid0 tok0 Hin. apply (cm_tok _ _ C) in Hin. rewrite Etk. exact Hin.
      * apply (cm_fun _ _ C).
      * intros q Q. destruct (Hq q Q) as [Hne Qc]. destruct (cm_q _ _ C _ Qc) as [Hq1 Hq2].
        split; [exact Hq1 |]. intros [Ek | Hs]; [| contradiction].
        apply Hne. eapply (cm_fun _ _ C); [exact Hq1 |]. rewrite <- Ek. exact Hreq.
      * right. left. reflexivity.
      * rewrite Elc. apply (cm_lcon _ _ C).
      * intros s la E0. discriminate E0.
      * intros k [<- | Hk]; [left; reflexivity | right; apply (cm_done _ _ C); exact Hk].
      * apply ex_stop_sub_concl; [apply C | eapply ex_tok_in_toks; exact Hreq].
    + left. reflexivity.
    + cbn. constructor.
Qed.

(* ---- separate Confirmable response *)
Lemma ex_cm_conr : forall maxr c m mid tok ok,
  ex_cm c m -> In tok (ex_toks m) -> 0 <= mid ->
  let r := ex_cli_step maxr c (ExRx (ExConR mid tok) ok) in
  exists m', ex_step_ok false m (ExRx (ExConR mid tok) ok, snd r) m' /\ ex_cm (fst r) m' /\
             ex_reqs_ext m m' /\ Forall (ex_c2s_ok (ex_m_reqs m')) (ex_txs (snd r)).
Proof.
  intros maxr c m mid tok ok C Htok Hmid. cbn zeta. unfold ex_cli_step.
  pose proof (ex_cancel_tok_cm c m tok C) as R. cbn zeta in R.
  set (c1 := ex_cancel_tok c tok) in *.
  destruct R as [C1 [Ela [Elc [Elr [Etk [Emd Hq]]]]]].
  destruct (mid =? ex_c_lcon c1) eqn:E; cbn [fst snd].
  - apply Z.eqb_eq in E.
    exists m. split; [| split; [exact C1 | split; [left; reflexivity |]]].
    + apply (SoConRDup false m mid tok ok (ex_c_lres c1)).
      * destruct (cm_lcon _ _ C) as [L | L]; [rewrite Elc in E; lia |].
        rewrite Elc in E. rewrite E. exact L.
      * intros la HL. apply (cm_last _ _ C) in HL. rewrite Elr. symmetry. apply HL.
    + destruct (ex_c_lres c1); cbn; constructor; cbn; auto.
  - apply Z.eqb_neq in E.
    assert (HL : ex_last_is m mid = false).
    { unfold ex_last_is. destruct (ex_m_last m) as [[lm la] |] eqn:EL; [| reflexivity].
      apply (cm_last _ _ C) in EL. destruct EL as [EL _]. apply Z.eqb_neq.
      rewrite Elc in E. congruence. }
    unfold ex_deliver. replace (negb (0 =? 2)) with true by reflexivity.
    replace (0 =? 0) with true by reflexivity. rewrite andb_true_r.
    assert (Q2 : forall q, ex_c_q c1 = Some q ->
                 In (ex_q_mid q, ex_q_tok q) (ex_m_reqs m) /\ ~ In (ex_q_tok q) (tok :: ex_m_stop m)).
    { intros q Q. destruct (Hq q Q) as [Hne Qc]. destruct (cm_q _ _ C _ Qc) as [Hq1 Hq2].
      split; [exact Hq1 |]. intros [Ek | Hs]; [| contradiction]. apply Hne. symmetry. exact Ek. }
    destruct ok; cbn [negb fst snd].
    + eexists. split; [| split; [| split]].
      * apply (SoConR false m mid tok true); [exact Htok | exact HL | apply ex_fresh_false].
      * ex_cm_fields.
        -- intros mid0 tok0 Hin. apply (cm_tok _ _ C) in Hin. rewrite Etk. exact Hin.
        -- apply (cm_fun _ _ C).
        -- exact Q2.
        -- rewrite Ela. apply (cm_lack _ _ C).
        -- right. left. reflexivity.
        -- intros s la E0. inversion E0; subst. split; reflexivity.
        -- intros k [<- | Hk]; [left; reflexivity | right; apply (cm_done _ _ C); exact Hk].
        -- apply ex_stop_sub_concl; [apply C | exact Htok].
      * left. reflexivity.
      * cbn. constructor; [exact I | constructor].
    + eexists. split; [| split; [| split]].
      * apply (SoConR false m mid tok false); [exact Htok | exact HL | apply ex_fresh_false].
      * ex_cm_fields.
        -- intros mid0 tok0 Hin. apply (cm_tok _ _ C) in Hin. rewrite Etk. exact Hin.
        -- apply (cm_fun _ _ C).
        -- exact Q2.
        -- rewrite Ela. apply (cm_lack _ _ C).
        -- right. left. reflexivity.
        -- intros s la E0. inversion E0; subst. split; reflexivity.
        -- intros k [<- | Hk]; [left; reflexivity | right; apply (cm_done _ _ C); exact Hk].
        -- apply ex_stop_sub_concl; [apply C | exact Htok].
      * left. reflexivity.
      * cbn. constructor; [exact I | constructor].
Qed.

(* ---- Non-confirmable response *)
Lemma ex_cm_nonr : forall maxr c m mid tok ok,
  ex_cm c m -> In tok (ex_toks m) ->
  let r := ex_cli_step maxr c (ExRx (ExNonR mid tok) ok) in
  exists m', ex_step_ok false m (ExRx (ExNonR mid tok) ok, snd r) m' /\ ex_cm (fst r) m' /\
             ex_reqs_ext m m' /\ Forall (ex_c2s_ok (ex_m_reqs m')) (ex_txs (snd r)).
Proof.
  intros maxr c m mid tok ok C Htok. cbn zeta. unfold ex_cli_step.
  pose proof (ex_cancel_tok_cm c m tok C) as R. cbn zeta in R.
  set (c1 := ex_cancel_tok c tok) in *.
  destruct R as [C1 [Ela [Elc [Elr [Etk [Emd Hq]]]]]].
  unfold ex_deliver. replace (negb (1 =? 2)) with true by reflexivity.
  replace (1 =? 0) with false by reflexivity. rewrite andb_true_r.
  assert (Q2 : forall q, ex_c_q c1 = Some q ->
               In (ex_q_mid q, ex_q_tok q) (ex_m_reqs m) /\ ~ In (ex_q_tok q) (tok :: ex_m_stop m)).
  { intros q Q. destruct (Hq q Q) as [Hne Qc]. destruct (cm_q _ _ C _ Qc) as [Hq1 Hq2].
    split; [exact Hq1 |]. intros [Ek | Hs]; [| contradiction]. apply Hne. symmetry. exact Ek. }
  assert (S2 : ex_stop_sub (Build_ex_mon (ex_m_reqs m) (ex_m_done m) (tok :: ex_m_stop m)
                                         (ex_m_cons m) (ex_m_acks m) None)).
  { intros k Hk. unfold ex_toks in *. cbn in *. destruct Hk as [<- | Hk]; [exact Htok |].
    apply (cm_stop _ _ C). exact Hk. }
  destruct ok; cbn [negb fst snd].
  - eexists. split; [| split; [| split]].
    + apply SoNonR. exact Htok.
    + ex_cm_fields.
      * intros mid0 tok0 Hin. apply (cm_tok _ _ C) in Hin. rewrite Etk. exact Hin.
      * apply (cm_fun _ _ C).
      * exact Q2.
      * rewrite Ela. apply (cm_lack _ _ C).
      * rewrite Elc. apply (cm_lcon _ _ C).
      * intros s la E0. discriminate E0.
      * intros k Hk. right. apply (cm_done _ _ C). exact Hk.
      * exact S2.
    + left. reflexivity.
    + cbn. constructor.
  - eexists. split; [| split; [| split]].
    + apply SoNonRRst. exact Htok.
    + ex_cm_fields.
      * intros mid0 tok0 Hin. apply (cm_tok _ _ C) in Hin. rewrite Etk. exact Hin.
      * apply (cm_fun _ _ C).
      * exact Q2.
      * rewrite Ela. apply (cm_lack _ _ C).
      * rewrite Elc. apply (cm_lcon _ _ C).
      * intros s la E0. discriminate E0.
      * intros k Hk. right. apply (cm_done _ _ C). exact Hk.
      * exact S2.
    + left. reflexivity.
    + cbn. constructor; [exact I | constructor].
Qed.

(* ---- any admissible input *)
Definition ex_admissible (m : ex_mon) (i : ex_cin) : Prop :=
  match i with
  | ExRx d _ => ex_s2c_ok (ex_m_reqs m) d
  | _ => True
  end.

Lemma ex_cm_step : forall maxr c m i,
  ex_cm c m -> ex_admissible m i ->
  let r := ex_cli_step maxr c i in
  exists m', ex_step_ok false m (i, snd r) m' /\ ex_cm (fst r) m' /\ ex_reqs_ext m m' /\
             Forall (ex_c2s_ok (ex_m_reqs m')) (ex_txs (snd r)).
Proof.
  intros maxr c m i C A. destruct i as [sty | | d ok].
  - apply ex_cm_send. exact C.
  - apply ex_cm_timer. exact C.
  - destruct d as [mid tok sty | mid | mid tok | mid tok | mid tok | mid]; cbn in A.
    + destruct A.
    + apply ex_cm_acke. exact C.
    + apply ex_cm_ackr; assumption.
    + destruct A. apply ex_cm_conr; assumption.
    + destruct A. apply ex_cm_nonr; assumption.
    + destruct A.
Qed.

Lemma ex_basic_cm : forall y m, ex_basic y m -> ex_cm (ex_y_c y) m.
Proof. intros y m B. constructor; apply B. Qed.

Lemma ex_reqs_ext_c2s : forall m m' l,
  ex_reqs_ext m m' -> Forall (ex_c2s_ok (ex_m_reqs m)) l -> Forall (ex_c2s_ok (ex_m_reqs m')) l.
Proof.
  intros m m' l [E | [x E]] H; rewrite E; [exact H |].
  eapply Forall_impl; [| exact H]. intros d. apply ex_c2s_ok_mono.
Qed.

Lemma ex_reqs_ext_s2c : forall m m' l,
  ex_reqs_ext m m' -> Forall (ex_s2c_ok (ex_m_reqs m)) l -> Forall (ex_s2c_ok (ex_m_reqs m')) l.
Proof.
  intros m m' l [E | [x E]] H; rewrite E; [exact H |].
  eapply Forall_impl; [| exact H]. intros d. apply ex_s2c_ok_mono.
Qed.

Lemma ex_reqs_ext_toks : forall m m' k, ex_reqs_ext m m' -> In k (ex_toks m) -> In k (ex_toks m').
Proof.
  intros m m' k [E | [x E]] H; unfold ex_toks in *; rewrite E; [exact H | right; exact H].
Qed.

(* a client step inside the system keeps the basic invariant *)
Lemma ex_basic_client : forall cf y m i s2c,
  ex_basic y m -> ex_admissible m i -> Forall (ex_s2c_ok (ex_m_reqs m)) s2c ->
  let r := ex_sys_client cf y i s2c in
  exists m', ex_mon_path false m (snd r) m' /\ ex_basic (fst r) m'.
Proof.
  intros cf y m i s2c B A S. cbn zeta. unfold ex_sys_client.
  pose proof (ex_cm_step (ex_cf_maxr cf) (ex_y_c y) m i (ex_basic_cm _ _ B) A) as H.
  cbn zeta in H. destruct (ex_cli_step (ex_cf_maxr cf) (ex_y_c y) i) as [c1 outs].
  cbn [fst snd] in *. destruct H as [m' [Hs [C1 [Hx Htx]]]].
  exists m'. split; [econstructor; [exact Hs | constructor] |].
  constructor; cbn [ex_y_c ex_y_s ex_y_c2s ex_y_s2c]; try apply C1.
  - apply Forall_app. split; [| exact Htx]. eapply ex_reqs_ext_c2s; [exact Hx | apply B].
  - eapply ex_reqs_ext_s2c; [exact Hx | exact S].
  - eapply Forall_impl; [| apply (bs_pend _ _ B)]. intros p [H1 H2].
    split; [eapply ex_reqs_ext_toks; eassumption | exact H2].
  - eapply Forall_impl; [| apply (bs_con _ _ B)]. intros p [H1 H2].
    split; [eapply ex_reqs_ext_toks; eassumption | exact H2].
Qed.

(* ---- the server's steps *)
Lemma ex_srv_rx_ok : forall cf s d reqs,
  ex_c2s_ok reqs d ->
  Forall (fun p => In (ex_p_tok p) (map snd reqs) /\ 0 <= ex_p_mid p) (ex_s_pend s) ->
  Forall (fun r => In (ex_r_tok r) (map snd reqs) /\ 0 <= ex_r_mid r) (ex_s_con s) ->
  let r := ex_srv_rx cf s d in
  Forall (ex_s2c_ok reqs) (snd r) /\
  Forall (fun p => In (ex_p_tok p) (map snd reqs) /\ 0 <= ex_p_mid p) (ex_s_pend (fst r)) /\
  Forall (fun r => In (ex_r_tok r) (map snd reqs) /\ 0 <= ex_r_mid r) (ex_s_con (fst r)).
Proof.
  intros cf s d reqs Hd Hp Hc. cbn zeta. unfold ex_srv_rx.
  destruct d as [m k sty | m | m k | m k | m k | m]; cbn in Hd; try contradiction.
  - pose proof (ex_next_mid_range (ex_s_mid s)) as Hn.
    pose proof (ex_tok_in_toks _ _ _ Hd) as Hk.
    destruct (ex_cf_dedup cf && ex_mem2 m k (ex_s_seen s)).
    { cbn [fst snd]. split; [| split; assumption].
      destruct (sty =? 0); constructor; cbn; auto. }
    destruct (ex_pend_has k (ex_s_pend s)).
    { cbn [fst snd]. split; [| split; assumption]. constructor; cbn; auto. }
    destruct (sty =? 0).
    { cbn [fst snd ex_s_pend ex_s_con]. split; [| split; assumption]. constructor; cbn; auto. }
    destruct (sty =? 1).
    { cbn [fst snd ex_s_pend ex_s_con]. split; [| split; [assumption |]].
      - constructor; [cbn; split; [exact Hk | lia] |]. constructor; cbn; auto.
      - apply ex_Forall_snoc; [assumption |]. cbn. split; [exact Hk | lia]. }
    destruct (sty =? 2).
    { cbn [fst snd ex_s_pend ex_s_con]. split; [| split; assumption].
      constructor; [cbn; split; [exact Hk | lia] |]. constructor; cbn; auto. }
    cbn [fst snd ex_s_pend ex_s_con]. split; [| split; [| assumption]].
    + constructor; cbn; auto.
    + apply ex_Forall_snoc; [assumption |]. cbn. split; [exact Hk | lia].
  - cbn [fst snd ex_s_pend ex_s_con]. split; [constructor | split; [assumption |]].
    apply Forall_forall. intros r Hr. apply filter_In in Hr. destruct Hr as [Hr _].
    rewrite Forall_forall in Hc. apply Hc. exact Hr.
  - cbn [fst snd ex_s_pend ex_s_con]. split; [constructor | split; [assumption |]].
    apply Forall_forall. intros r Hr. apply filter_In in Hr. destruct Hr as [Hr _].
    rewrite Forall_forall in Hc. apply Hc. exact Hr.
Qed.

Lemma ex_srv_fire_ok : forall s j reqs,
  Forall (fun p => In (ex_p_tok p) (map snd reqs) /\ 0 <= ex_p_mid p) (ex_s_pend s) ->
  Forall (fun r => In (ex_r_tok r) (map snd reqs) /\ 0 <= ex_r_mid r) (ex_s_con s) ->
  let r := ex_srv_fire s j in
  Forall (ex_s2c_ok reqs) (snd r) /\
  Forall (fun p => In (ex_p_tok p) (map snd reqs) /\ 0 <= ex_p_mid p) (ex_s_pend (fst r)) /\
  Forall (fun r => In (ex_r_tok r) (map snd reqs) /\ 0 <= ex_r_mid r) (ex_s_con (fst r)).
Proof.
  intros s j reqs Hp Hc. cbn zeta. unfold ex_srv_fire.
  destruct (nth_error (ex_s_pend s) j) as [p |] eqn:E.
  - pose proof (ex_Forall_nth _ _ _ _ _ Hp E) as Hpp. cbn beta in Hpp.
    destruct (ex_p_sty p =? 3); cbn [fst snd ex_s_pend ex_s_con].
    + split; [constructor; [exact Hpp | constructor] |].
      split; [apply ex_Forall_remove_nth; exact Hp |].
      apply ex_Forall_snoc; [exact Hc | exact Hpp].
    + split; [constructor; [exact Hpp | constructor] |].
      split; [apply ex_Forall_remove_nth; exact Hp | exact Hc].
  - cbn [fst snd]. split; [constructor | split; assumption].
Qed.

Lemma ex_srv_timer_ok : forall maxr s j reqs,
  Forall (fun p => In (ex_p_tok p) (map snd reqs) /\ 0 <= ex_p_mid p) (ex_s_pend s) ->
  Forall (fun r => In (ex_r_tok r) (map snd reqs) /\ 0 <= ex_r_mid r) (ex_s_con s) ->
  let r := ex_srv_timer maxr s j in
  Forall (ex_s2c_ok reqs) (snd r) /\
  Forall (fun p => In (ex_p_tok p) (map snd reqs) /\ 0 <= ex_p_mid p) (ex_s_pend (fst r)) /\
  Forall (fun r => In (ex_r_tok r) (map snd reqs) /\ 0 <= ex_r_mid r) (ex_s_con (fst r)).
Proof.
  intros maxr s j reqs Hp Hc. cbn zeta. unfold ex_srv_timer.
  destruct (nth_error (ex_s_con s) j) as [r |] eqn:E.
  - pose proof (ex_Forall_nth _ _ _ _ _ Hc E) as Hr. cbn beta in Hr.
    destruct (ex_r_cnt r <? maxr); cbn [fst snd ex_s_pend ex_s_con].
    + split; [constructor; [exact Hr | constructor] |]. split; [exact Hp |].
      apply ex_Forall_set_nth; [exact Hc | exact Hr].
    + split; [constructor |]. split; [exact Hp | apply ex_Forall_remove_nth; exact Hc].
  - cbn [fst snd]. split; [constructor | split; assumption].
Qed.

(* ---- every action keeps the basic invariant, and the client's step is accepted *)
Lemma ex_basic_step : forall cf y m a,
  ex_basic y m ->
  let r := ex_sys_step cf y a in
  exists m', ex_mon_path false m (snd r) m' /\ ex_basic (fst r) m'.
Proof.
  intros cf y m a B. cbn zeta.
  assert (Keep : forall c2s s2c, Forall (ex_c2s_ok (ex_m_reqs m)) c2s ->
                 Forall (ex_s2c_ok (ex_m_reqs m)) s2c ->
                 ex_basic (Build_ex_sys (ex_y_c y) (ex_y_s y) c2s s2c (ex_y_app y)) m).
  { intros c2s s2c H1 H2. constructor; cbn [ex_y_c ex_y_s ex_y_c2s ex_y_s2c]; try apply B;
      assumption. }
  assert (Same : exists m', ex_mon_path false m (snd (y, @nil ex_obs)) m' /\ ex_basic (fst (y, @nil ex_obs)) m').
  { exists m. split; [constructor | exact B]. }
  destruct a as [sty | | i ok | i | i | i | i | i | j | j]; unfold ex_sys_step.
  - destruct (ex_y_app y); [exact Same |].
    destruct (ex_cf_quiet cf && negb (ex_quiet y)); [exact Same |].
    apply ex_basic_client; [exact B | exact I | apply B].
  - destruct (ex_cf_patient cf && ex_will_nack cf (ex_y_c y) && negb (ex_quiet y)); [exact Same |].
    apply ex_basic_client; [exact B | exact I | apply B].
  - destruct (nth_error (ex_y_s2c y) i) as [d |] eqn:E; [| exact Same].
    apply ex_basic_client; [exact B | | apply ex_Forall_remove_nth; apply B].
    cbn. eapply ex_Forall_nth; [apply (bs_s2c _ _ B) | exact E].
  - destruct (nth_error (ex_y_s2c y) i) as [d |] eqn:E; [| exact Same].
    exists m. split; [constructor |]. cbn [fst]. apply Keep; [apply B |].
    apply ex_Forall_snoc; [apply B |]. eapply ex_Forall_nth; [apply (bs_s2c _ _ B) | exact E].
  - exists m. split; [constructor |]. cbn [fst]. apply Keep; [apply B |].
    apply ex_Forall_remove_nth. apply B.
  - destruct (nth_error (ex_y_c2s y) i) as [d |] eqn:E; [| exact Same].
    pose proof (ex_Forall_nth _ _ _ _ _ (bs_c2s _ _ B) E) as Hd.
    pose proof (ex_srv_rx_ok cf (ex_y_s y) d (ex_m_reqs m) Hd (bs_pend _ _ B) (bs_con _ _ B)) as R.
    cbn zeta in R. destruct (ex_srv_rx cf (ex_y_s y) d) as [s1 ds]. cbn [fst snd] in *.
    destruct R as [R1 [R2 R3]].
    exists m. split; [constructor |].
    constructor; cbn [ex_y_c ex_y_s ex_y_c2s ex_y_s2c]; try apply B; try assumption.
    + apply ex_Forall_remove_nth. apply B.
    + apply Forall_app. split; [apply B | exact R1].
  - destruct (nth_error (ex_y_c2s y) i) as [d |] eqn:E; [| exact Same].
    exists m. split; [constructor |]. cbn [fst]. apply Keep; [| apply B].
    apply ex_Forall_snoc; [apply B |]. eapply ex_Forall_nth; [apply (bs_c2s _ _ B) | exact E].
  - exists m. split; [constructor |]. cbn [fst]. apply Keep; [| apply B].
    apply ex_Forall_remove_nth. apply B.
  - pose proof (ex_srv_fire_ok (ex_y_s y) j (ex_m_reqs m) (bs_pend _ _ B) (bs_con _ _ B)) as R.
    cbn zeta in R. destruct (ex_srv_fire (ex_y_s y) j) as [s1 ds]. cbn [fst snd] in *.
    destruct R as [R1 [R2 R3]].
    exists m. split; [constructor |].
    constructor; cbn [ex_y_c ex_y_s ex_y_c2s ex_y_s2c]; try apply B; try assumption.
    apply Forall_app. split; [apply B | exact R1].
  - pose proof (ex_srv_timer_ok (ex_cf_maxr cf) (ex_y_s y) j (ex_m_reqs m) (bs_pend _ _ B)
                                (bs_con _ _ B)) as R.
    cbn zeta in R. destruct (ex_srv_timer (ex_cf_maxr cf) (ex_y_s y) j) as [s1 ds].
    cbn [fst snd] in *. destruct R as [R1 [R2 R3]].
    exists m. split; [constructor |].
    constructor; cbn [ex_y_c ex_y_s ex_y_c2s ex_y_s2c]; try apply B; try assumption.
    apply Forall_app. split; [apply B | exact R1].
Qed.

Lemma ex_basic_run : forall cf acts y m,
  ex_basic y m ->
  let r := ex_sys_run cf y acts in
  exists m', ex_mon_path false m (snd r) m' /\ ex_basic (fst r) m'.
Proof.
  intros cf acts. induction acts as [| a acts IH]; intros y m B; cbn zeta.
  - exists m. split; [constructor | exact B].
  - cbn [ex_sys_run].
    pose proof (ex_basic_step cf y m a B) as H. cbn zeta in H.
    destruct (ex_sys_step cf y a) as [y1 o]. cbn [fst snd] in H. destruct H as [m1 [P1 B1]].
    pose proof (IH y1 m1 B1) as H2. cbn zeta in H2.
    destruct (ex_sys_run cf y1 acts) as [y2 t]. cbn [fst snd] in *.
    destruct H2 as [m2 [P2 B2]].
    exists m2. split; [eapply ex_mon_path_snoc; eassumption | exact B2].
Qed.

(* Part 1: for every configuration and every schedule *)
Theorem ex_system_local : forall cf cmid0 smid0 acts,
  let t := ex_sys_trace cf (ex_sys_init cmid0 smid0) acts in
  ex_P_token t /\ ex_P_stops t /\ ex_P_conack t /\ ex_P_dup t /\ ex_P_non t.
Proof.
  intros cf cmid0 smid0 acts. cbn zeta. unfold ex_sys_trace.
  pose proof (ex_basic_run cf acts _ _ (ex_basic_init cmid0 smid0)) as H. cbn zeta in H.
  destruct H as [m' [P _]].
  split; [eapply ex_sound_token; exact P |].
  split; [eapply ex_sound_stops; exact P |].
  split; [eapply ex_sound_conack; exact P |].
  split; [eapply ex_sound_dup; exact P | eapply ex_sound_non; exact P].
Qed.

Lemma ex_system_token : forall cf cmid0 smid0 acts,
  ex_P_token (ex_sys_trace cf (ex_sys_init cmid0 smid0) acts).
Proof. intros. apply (ex_system_local cf cmid0 smid0 acts). Qed.

Lemma ex_system_stops : forall cf cmid0 smid0 acts,
  ex_P_stops (ex_sys_trace cf (ex_sys_init cmid0 smid0) acts).
Proof. intros. apply (ex_system_local cf cmid0 smid0 acts). Qed.

Lemma ex_system_conack : forall cf cmid0 smid0 acts,
  ex_P_conack (ex_sys_trace cf (ex_sys_init cmid0 smid0) acts) /\
  ex_P_dup (ex_sys_trace cf (ex_sys_init cmid0 smid0) acts).
Proof. intros. split; apply (ex_system_local cf cmid0 smid0 acts). Qed.

Lemma ex_system_non : forall cf cmid0 smid0 acts,
  ex_P_non (ex_sys_trace cf (ex_sys_init cmid0 smid0) acts).
Proof. intros. apply (ex_system_local cf cmid0 smid0 acts). Qed.

(* the judge without clause 2 accepts every behaviour of every configuration *)
Theorem ex_system_lenient : forall cf cmid0 smid0 acts,
  ex_judge_lenient (ex_sys_trace cf (ex_sys_init cmid0 smid0) acts) = 0.
Proof.
  intros cf cmid0 smid0 acts. unfold ex_sys_trace, ex_judge_lenient.
  pose proof (ex_basic_run cf acts _ _ (ex_basic_init cmid0 smid0)) as H. cbn zeta in H.
  destruct H as [m' [P _]]. eapply ex_path_judge. exact P.
Qed.

(* C07 - the acceptor: an executable judge of observed client traces, and the declarative
   form of the property it decides.

   A trace is the list of observed steps of one client session ([ex_obs] = input and what it
   caused, in order), whoever produced it: the model of Exchange.v or the real library under
   the scripted network (harness/h_exchange.c prints exactly this).

   [ex_judge t] = 0 iff the trace is accepted; other values name the clause that failed:
     1  a step does not have one of the shapes the protocol allows for its input
     2  a request token concluded twice (two handler calls for piggybacked / Confirmable
        responses, two NACKs, or one of each)
     3  the handler was given a token that no request carried (for a piggybacked response:
        not the token of the request with that message id)
     4  a request was transmitted after its response was handled / after its NACK
     5  a Confirmable response was not answered by exactly one ACK (verdict OK) or RST
        (verdict FAIL) after the handler
     6  a duplicate (same mid as the previous response handled, which was Confirmable) was
        delivered again or answered differently from the first time
     7  a Non-confirmable response was not delivered exactly once for the datagram
     8  a request reused a token
     9  a piggybacked or Confirmable response was suppressed although no response with its
        mid had been delivered (only a duplicate may be withheld from the handler)
   Definitions only. *)
From Coq Require Import ZArith List Bool.
From LibcoapV Require Import Exchange.Exchange.
Import ListNotations.
Local Open Scope Z_scope.

Definition ex_memz (x : Z) (l : list Z) : bool := existsb (Z.eqb x) l.
Definition ex_mem2 (a b : Z) (l : list (Z * Z)) : bool :=
  existsb (fun p => (fst p =? a) && (snd p =? b)) l.

Record ex_mon := {
  ex_m_reqs : list (Z * Z);          (* (mid, tok) of the requests sent so far *)
  ex_m_done : list Z;                (* tokens concluded: response handled (not NON) or NACK *)
  ex_m_stop : list Z;                (* tokens that must not be transmitted any more *)
  ex_m_cons : list Z;                (* mids of the Confirmable responses delivered *)
  ex_m_acks : list Z;                (* mids of the piggybacked responses delivered *)
  ex_m_last : option (Z * bool)      (* previous response handled was Confirmable: its mid and
                                        whether it was answered by ACK *)
}.

Definition ex_mon_init : ex_mon := Build_ex_mon [] [] [] [] [] None.

Definition ex_toks (m : ex_mon) : list Z := map snd (ex_m_reqs m).

(* result of judging one step: the new monitor state or the number of the failed clause *)
Inductive ex_verdict := ExOk (m : ex_mon) | ExBad (code : Z).

Definition ex_conclude (strict : bool) (m : ex_mon) (tok : Z) (last : option (Z * bool))
  (cons acks : list Z) : ex_verdict :=
  if strict && ex_memz tok (ex_m_done m) then ExBad 2
  else ExOk (Build_ex_mon (ex_m_reqs m) (tok :: ex_m_done m) (tok :: ex_m_stop m) cons acks
                          last).

Definition ex_dg_eqb (a b : ex_dg) : bool :=
  match a, b with
  | ExReq m k s, ExReq m' k' s' => (m =? m') && (k =? k') && (s =? s')
  | ExAckE m, ExAckE m' => m =? m'
  | ExAckR m k, ExAckR m' k' => (m =? m') && (k =? k')
  | ExConR m k, ExConR m' k' => (m =? m') && (k =? k')
  | ExNonR m k, ExNonR m' k' => (m =? m') && (k =? k')
  | ExRst m, ExRst m' => m =? m'
  | _, _ => false
  end.

Definition ex_is_tx (o : ex_out) (d : ex_dg) : bool :=
  match o with ExTx d' => ex_dg_eqb d' d | _ => false end.
Definition ex_is_resp (o : ex_out) (kind mid tok : Z) : bool :=
  match o with ExResp k m t _ => (k =? kind) && (m =? mid) && (t =? tok) | _ => false end.
Definition ex_is_skip (o : ex_out) : bool := match o with ExSkip => true | _ => false end.

Definition ex_j_send (m : ex_mon) (sty : Z) (outs : list ex_out) : ex_verdict :=
  match outs with
  | [ExTx (ExReq mid tok sty')] =>
      if negb (sty =? sty') then ExBad 1
      else if ex_memz tok (ex_toks m) then ExBad 8
      else ExOk (Build_ex_mon ((mid, tok) :: ex_m_reqs m) (ex_m_done m) (ex_m_stop m)
                              (ex_m_cons m) (ex_m_acks m) (ex_m_last m))
  | [a] => if ex_is_skip a then ExOk m else ExBad 1
  | _ => ExBad 1
  end.

Definition ex_j_nack (strict : bool) (m : ex_mon) (tok mid : Z) : ex_verdict :=
  if negb (ex_mem2 mid tok (ex_m_reqs m)) then ExBad 3
  else ex_conclude strict m tok (ex_m_last m) (ex_m_cons m) (ex_m_acks m).

Definition ex_j_timer (strict : bool) (m : ex_mon) (outs : list ex_out) : ex_verdict :=
  match outs with
  | [] => ExOk m
  | [ExTx (ExReq mid tok _)] =>
      if negb (ex_mem2 mid tok (ex_m_reqs m)) then ExBad 1
      else if ex_memz tok (ex_m_stop m) then ExBad 4
      else ExOk m
  | [ExNack tok reason mid] => if reason =? 0 then ex_j_nack strict m tok mid else ExBad 1
  | _ => ExBad 1
  end.

Definition ex_j_ackr (strict : bool) (m : ex_mon) (mid tok : Z) (outs : list ex_out) : ex_verdict :=
  match outs with
  | [] => if ex_memz mid (ex_m_acks m) then ExOk m else ExBad 9
  | [a] =>
      if negb (ex_is_resp a 2 mid tok) then ExBad 1
      else if negb (ex_mem2 mid tok (ex_m_reqs m)) then ExBad 3
      else ex_conclude strict m tok None (ex_m_cons m) (mid :: ex_m_acks m)
  | _ => ExBad 1
  end.

Definition ex_last_is (m : ex_mon) (mid : Z) : bool :=
  match ex_m_last m with Some (lm, _) => lm =? mid | None => false end.

Definition ex_j_conr (strict : bool) (m : ex_mon) (mid tok : Z) (ok : bool) (outs : list ex_out) : ex_verdict :=
  match outs with
  | [a; b] =>
      (* delivered: handler first, then ACK (verdict OK) or RST (verdict FAIL) *)
      if negb (ex_is_resp a 0 mid tok) then ExBad 5
      else if negb (ex_is_tx b (if ok then ExAckE mid else ExRst mid)) then ExBad 5
      else if negb (ex_memz tok (ex_toks m)) then ExBad 3
      else if ex_last_is m mid then ExBad 6
      else ex_conclude strict m tok (Some (mid, ok)) (mid :: ex_m_cons m) (ex_m_acks m)
  | [b] =>
      (* not delivered: a duplicate, answered again *)
      if negb (ex_is_tx b (ExAckE mid) || ex_is_tx b (ExRst mid)) then ExBad 5
      else if negb (ex_memz mid (ex_m_cons m)) then ExBad 9
      else
        match ex_m_last m with
        | Some (lm, la) =>
            if (lm =? mid) && negb (ex_is_tx b (if la then ExAckE mid else ExRst mid))
            then ExBad 6 else ExOk m
        | None => ExOk m
        end
  | _ => ExBad 5
  end.

Definition ex_j_nonr (m : ex_mon) (mid tok : Z) (ok : bool) (outs : list ex_out) : ex_verdict :=
  let m' := Build_ex_mon (ex_m_reqs m) (ex_m_done m) (tok :: ex_m_stop m) (ex_m_cons m)
                         (ex_m_acks m) None in
  match outs with
  | [a] =>
      if negb (ex_is_resp a 1 mid tok) then ExBad 7
      else if negb (ex_memz tok (ex_toks m)) then ExBad 3
      else ExOk m'
  | [a; b] =>
      (* a Reset may follow the handler when its verdict was FAIL *)
      if negb (ex_is_resp a 1 mid tok) then ExBad 7
      else if ok || negb (ex_is_tx b (ExRst mid)) then ExBad 7
      else if negb (ex_memz tok (ex_toks m)) then ExBad 3
      else ExOk m'
  | _ => ExBad 7
  end.

Definition ex_j_rst (strict : bool) (m : ex_mon) (mid : Z) (outs : list ex_out) : ex_verdict :=
  match outs with
  | [ExNack tok reason mid'] =>
      if negb ((reason =? 2) && (mid =? mid')) then ExBad 1 else ex_j_nack strict m tok mid
  | [ExNackNull reason mid'] => if (reason =? 2) && (mid =? mid') then ExOk m else ExBad 1
  | _ => ExBad 1
  end.

Definition ex_judge_step (strict : bool) (m : ex_mon) (o : ex_obs) : ex_verdict :=
  match fst o with
  | ExSend sty => ex_j_send m sty (snd o)
  | ExTimer => ex_j_timer strict m (snd o)
  | ExRx (ExAckE _) _ => match snd o with [] => ExOk m | _ => ExBad 1 end
  | ExRx (ExAckR mid tok) _ => ex_j_ackr strict m mid tok (snd o)
  | ExRx (ExConR mid tok) ok => ex_j_conr strict m mid tok ok (snd o)
  | ExRx (ExNonR mid tok) ok => ex_j_nonr m mid tok ok (snd o)
  | ExRx (ExRst mid) _ => ex_j_rst strict m mid (snd o)
  | ExRx (ExReq _ _ _) _ => ExBad 1
  end.

Fixpoint ex_judge_from (strict : bool) (m : ex_mon) (t : list ex_obs) : Z :=
  match t with
  | [] => 0
  | o :: tl =>
      match ex_judge_step strict m o with
      | ExOk m' => ex_judge_from strict m' tl
      | ExBad c => c
      end
  end.

(* the acceptor *)
Definition ex_judge (t : list ex_obs) : Z := ex_judge_from true ex_mon_init t.
Definition accepts_c07 (t : list ex_obs) : bool := ex_judge t =? 0.

(* the same judge without clause 2: used by the check to keep judging the rest of a trace
   behind a double conclusion that is a recorded finding *)
Definition ex_judge_lenient (t : list ex_obs) : Z := ex_judge_from false ex_mon_init t.

(* position (0-based) of the step at which the judge stops, for the replay files *)
Fixpoint ex_judge_pos (strict : bool) (m : ex_mon) (t : list ex_obs) (n : Z) : Z :=
  match t with
  | [] => -1
  | o :: tl =>
      match ex_judge_step strict m o with
      | ExOk m' => ex_judge_pos strict m' tl (n + 1)
      | ExBad _ => n
      end
  end.

(* C07 - the hypotheses of "at most once" are necessary: with any one of the three switches
   of System.v off, a schedule exists on which a request token concludes twice.  The same
   schedules are replayed on the real library (corpus/C07/f1..f3). *)
From LibcoapV Require Import Base.Tactics Exchange.Exchange Exchange.Accept Exchange.Spec
  Exchange.System.
Local Open Scope Z_scope.

Definition ex_y0 : ex_sys := ex_sys_init 100 7000.

(* F1: the next exchange starts while a duplicate of the previous response is still in flight
   (piggybacked responses; the same happens with separate Confirmable responses) *)
Definition ex_w_slot_ack : list ex_act :=
  [ExASend 0; ExADelS 0; ExADupC 0; ExADelC 0 true;
   ExASend 0; ExADelS 0; ExADelC 1 true; ExADelC 0 true].

Definition ex_w_slot_con : list ex_act :=
  [ExASend 1; ExADelS 0; ExADupC 0; ExADelC 0 true; ExADelC 0 true; ExADelS 0;
   ExASend 1; ExADelS 0; ExADelC 1 true; ExADelC 0 true].

(* F2: the server processes a retransmitted request again (empty ACK and first copy of the
   separate response lost; the client retransmits; the server's own retransmission of the
   first response arrives after the second response) *)
Definition ex_w_newmid : list ex_act :=
  [ExASend 1; ExADelS 0; ExADropC 0; ExADropC 0; ExATimer; ExADelS 0;
   ExADelC 0 true; ExASrvTimer 0; ExADelC 1 true].

(* F3: the client gives up while the server's async response is still to come *)
Definition ex_w_late : list ex_act :=
  [ExASend 3; ExADelS 0; ExADropC 0; ExATimer; ExATimer; ExATimer; ExATimer; ExATimer;
   ExAFire 0; ExADelC 0 true].

(* F3 with loss only and an immediate server: four copies of the request, the empty ACK and the
   first copy of the separate response are lost, the client gives up, the server's
   retransmission of the response arrives *)
Definition ex_w_late_loss : list ex_act :=
  [ExASend 1; ExATimer; ExATimer; ExATimer; ExATimer;
   ExADropS 0; ExADropS 0; ExADropS 0; ExADropS 0; ExADelS 0; ExADropC 0; ExADropC 0;
   ExATimer; ExASrvTimer 0; ExADelC 0 true].

Lemma ex_once_refuted_patient_loss :
  exists acts k, ex_concl_count k (ex_sys_trace (Build_ex_cfg 4 true true false) ex_y0 acts) = 2%nat.
Proof. exists ex_w_late_loss, 1. vm_compute. reflexivity. Qed.

Lemma ex_once_refuted_quiet :
  exists acts k, ex_concl_count k (ex_sys_trace (Build_ex_cfg 4 true false true) ex_y0 acts) = 2%nat.
Proof. exists ex_w_slot_ack, 1. vm_compute. reflexivity. Qed.

Lemma ex_once_refuted_quiet_con :
  exists acts k, ex_concl_count k (ex_sys_trace (Build_ex_cfg 4 true false true) ex_y0 acts) = 2%nat.
Proof. exists ex_w_slot_con, 1. vm_compute. reflexivity. Qed.

Lemma ex_once_refuted_dedup :
  exists acts k, ex_concl_count k (ex_sys_trace (Build_ex_cfg 4 false true true) ex_y0 acts) = 2%nat.
Proof. exists ex_w_newmid, 1. vm_compute. reflexivity. Qed.

Lemma ex_once_refuted_patient :
  exists acts k, ex_concl_count k (ex_sys_trace (Build_ex_cfg 4 true true false) ex_y0 acts) = 2%nat.
Proof. exists ex_w_late, 1. vm_compute. reflexivity. Qed.

(* with every hypothesis on, the same schedules are harmless (the offending action is disabled) *)
Example ex_guarded_slot_ack :
  accepts_c07 (ex_sys_trace (ex_cfg_guarded 4) ex_y0 ex_w_slot_ack) = true.
Proof. vm_compute. reflexivity. Qed.
Example ex_guarded_newmid :
  accepts_c07 (ex_sys_trace (ex_cfg_guarded 4) ex_y0 ex_w_newmid) = true.
Proof. vm_compute. reflexivity. Qed.
Example ex_guarded_late :
  accepts_c07 (ex_sys_trace (ex_cfg_guarded 4) ex_y0 ex_w_late) = true.
Proof. vm_compute. reflexivity. Qed.

(* non-vacuity of the guarded system: a lossy exchange with a FAIL verdict *)
Lemma ex_nonvacuous :
  let t := ex_sys_trace (ex_cfg_guarded 4) (ex_sys_init 100 7000)
             [ExASend 1; ExADelS 0; ExADropC 1; ExATimer; ExADupC 0; ExADelC 0 false;
              ExADelC 0 true; ExADelS 0; ExADelS 0; ExADelS 0] in
  ex_concl_count 1 t = 1%nat /\
  In (ExRx (ExConR 7001 1) false, [ExResp 0 7001 1 (-1); ExTx (ExRst 7001)]) t /\
  In (ExRx (ExConR 7001 1) true, [ExTx (ExRst 7001)]) t /\
  accepts_c07 t = true.
Proof. vm_compute. repeat split; auto 10. Qed.

(* F5: message-id wrap.
   (a) the client's own ids: one exchange answered piggybacked (last_ack_mid := 101), 65535
       exchanges answered by an empty ACK and a separate Confirmable response (they do not touch
       last_ack_mid), then the request that carries mid 101 again.  Before the fix (/repo: a new
       Confirmable whose mid equals last_ack_mid invalidates it) its piggybacked response was
       discarded as a duplicate; now it is delivered.
   (b) the peer's ids: a separate Confirmable response with mid 7000, 65535 exchanges answered by
       separate Non-confirmable responses (mids 7001 ...; they do not touch last_con_mid), then a
       separate Confirmable response whose mid is 7000 again: discarded as a duplicate (and
       acknowledged, so the server stops), the request has left the send queue - neither handler
       nor NACK.  The hypothesis "the server's message ids do not wrap within the run" of the
       liveness theorem is necessary.
   Stated on the client alone with an honest peer that echoes mid and token of every request. *)
Fixpoint ex_wrap_mid (n : nat) (con : bool) (mid tok smid : Z) : list ex_cin :=
  match n with
  | O => []
  | S k =>
      let m := (mid + 1) mod 65536 in
      [ExSend 1; ExRx (ExAckE m) true;
       ExRx (if con then ExConR (smid mod 65536) (tok + 1) else ExNonR (smid mod 65536) (tok + 1)) true]
      ++ ex_wrap_mid k con m (tok + 2) (smid + 1)
  end.

(* (a) *)
Definition ex_wrap_inputs (n : nat) : list ex_cin :=
  [ExSend 0; ExRx (ExAckR 101 1) true] ++ ex_wrap_mid n true 101 1 7001 ++
  [ExSend 0; ExRx (ExAckR ((101 + Z.of_nat n + 1) mod 65536) (2 + 2 * Z.of_nat n)) true].

(* (b) *)
Definition ex_wrap_inputs_con (n : nat) : list ex_cin :=
  [ExSend 1; ExRx (ExAckE 101) true; ExRx (ExConR 7000 1) true] ++ ex_wrap_mid n false 101 2 7001 ++
  [ExSend 1; ExRx (ExAckE ((101 + Z.of_nat n + 1) mod 65536)) true;
   ExRx (ExConR ((7000 + Z.of_nat n + 1) mod 65536) (3 + 2 * Z.of_nat n)) true].

(* the last observed step and the send queue afterwards *)
Definition ex_wrap_summary (ins : list ex_cin) : ex_obs * option ex_qent :=
  let r := ex_cli_run 4 (ex_cli_init 100 0) ins in
  let t := snd r in
  (nth (length t - 1) t (ExTimer, []), ex_c_q (fst r)).

Lemma ex_wrap_own_delivered :
  ex_wrap_summary (ex_wrap_inputs (Z.to_nat 65535)) =
  ((ExRx (ExAckR 101 131072) true, [ExResp 2 101 131072 131072]), None).
Proof. vm_compute. reflexivity. Qed.

Lemma ex_wrap_peer_refuted :
  ex_wrap_summary (ex_wrap_inputs_con (Z.to_nat 65535)) =
  ((ExRx (ExConR 7000 131073) true, [ExTx (ExAckE 7000)]), None).
Proof. vm_compute. reflexivity. Qed.

(* one exchange fewer and the same response is delivered *)
Lemma ex_wrap_peer_not_yet :
  ex_wrap_summary (ex_wrap_inputs_con (Z.to_nat 65534)) =
  ((ExRx (ExConR 6999 131071) true, [ExResp 0 6999 131071 (-1); ExTx (ExAckE 6999)]), None).
Proof. vm_compute. reflexivity. Qed.

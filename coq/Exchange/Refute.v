(* C07 - the hypotheses of "at most once" are necessary: with any one of the three switches
   of System.v off, a schedule exists on which a request token concludes twice.  The same
   schedules are replayed on the real library (corpus/C07/f1..f3). *)
From LibcoapV Require Import Base.Tactics Exchange.Exchange Exchange.Accept Exchange.Spec
  Exchange.System.
Local Open Scope Z_scope.

Definition ex_y0 : ex_sys := ex_sys_init 100 7000.

(* F1: the next exchange starts while a duplicate of the previous response is still in flight
   (piggybacked responses; the same happens with separate Confirmable responses) *)
Definition ex_w_slot_ack : list ex_act :=
  [ExASend 0; ExADelS 0; ExADupC 0; ExADelC 0 true;
   ExASend 0; ExADelS 0; ExADelC 1 true; ExADelC 0 true].

Definition ex_w_slot_con : list ex_act :=
  [ExASend 1; ExADelS 0; ExADupC 0; ExADelC 0 true; ExADelC 0 true; ExADelS 0;
   ExASend 1; ExADelS 0; ExADelC 1 true; ExADelC 0 true].

(* F2: the server processes a retransmitted request again (empty ACK and first copy of the
   separate response lost; the client retransmits; the server's own retransmission of the
   first response arrives after the second response) *)
Definition ex_w_newmid : list ex_act :=
  [ExASend 1; ExADelS 0; ExADropC 0; ExADropC 0; ExATimer; ExADelS 0;
   ExADelC 0 true; ExASrvTimer 0; ExADelC 1 true].

(* F3: the client gives up while the server's async response is still to come *)
Definition ex_w_late : list ex_act :=
  [ExASend 3; ExADelS 0; ExADropC 0; ExATimer; ExATimer; ExATimer; ExATimer; ExATimer;
   ExAFire 0; ExADelC 0 true].

Lemma ex_once_refuted_quiet :
  exists acts k, ex_concl_count k (ex_sys_trace (Build_ex_cfg 4 true false true) ex_y0 acts) = 2%nat.
Proof. exists ex_w_slot_ack, 1. vm_compute. reflexivity. Qed.

Lemma ex_once_refuted_quiet_con :
  exists acts k, ex_concl_count k (ex_sys_trace (Build_ex_cfg 4 true false true) ex_y0 acts) = 2%nat.
Proof. exists ex_w_slot_con, 1. vm_compute. reflexivity. Qed.

Lemma ex_once_refuted_dedup :
  exists acts k, ex_concl_count k (ex_sys_trace (Build_ex_cfg 4 false true true) ex_y0 acts) = 2%nat.
Proof. exists ex_w_newmid, 1. vm_compute. reflexivity. Qed.

Lemma ex_once_refuted_patient :
  exists acts k, ex_concl_count k (ex_sys_trace (Build_ex_cfg 4 true true false) ex_y0 acts) = 2%nat.
Proof. exists ex_w_late, 1. vm_compute. reflexivity. Qed.

(* with every hypothesis on, the same schedules are harmless (the offending action is disabled) *)
Example ex_guarded_slot_ack :
  accepts_c07 (ex_sys_trace (ex_cfg_guarded 4) ex_y0 ex_w_slot_ack) = true.
Proof. vm_compute. reflexivity. Qed.
Example ex_guarded_newmid :
  accepts_c07 (ex_sys_trace (ex_cfg_guarded 4) ex_y0 ex_w_newmid) = true.
Proof. vm_compute. reflexivity. Qed.
Example ex_guarded_late :
  accepts_c07 (ex_sys_trace (ex_cfg_guarded 4) ex_y0 ex_w_late) = true.
Proof. vm_compute. reflexivity. Qed.

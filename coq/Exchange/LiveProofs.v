(* C07 - liveness: with the three hypotheses of System.v on and message ids that do not wrap
   of the server's session within the run, once the system is at rest (nothing in flight, no work at the server, empty
   send queue) every request token was answered - handler or NACK - unless its response was
   irrecoverably lost: a Non-confirmable response dropped by the network, or a Confirmable
   response the server gave up on (the property's fairness hypothesis: not all
   MAX_RETRANSMIT + 1 transmissions of a Confirmable are lost). *)
From LibcoapV Require Import Base.Tactics Exchange.Exchange Exchange.Accept Exchange.Spec
  Exchange.AcceptProofs Exchange.System Exchange.SystemProofs Exchange.GuardProofs.
Local Open Scope Z_scope.

(* ------------------------------------------------------------------ the monitor's stop list *)
Lemma ex_step_stop_inv : forall strict m o m' k,
  ex_step_ok strict m o m' -> In k (ex_m_stop m') ->
  In k (ex_m_stop m) \/ existsb (ex_out_ends k) (snd o) = true.
Proof.
  intros strict m o m' k H Hin.
  inversion H; subst; cbn [ex_m_stop ex_mon_concl snd existsb ex_out_ends] in *; auto;
    destruct Hin as [<- | Hin]; auto; right; rewrite Z.eqb_refl; reflexivity.
Qed.

Lemma ex_step_stop_fwd : forall strict m o m' k,
  ex_step_ok strict m o m' -> existsb (ex_out_ends k) (snd o) = true -> In k (ex_m_stop m').
Proof.
  intros strict m o m' k H E. eapply ex_step_ends; [exact H |].
  apply existsb_exists in E. destruct E as [out [Hin E]].
  destruct out; cbn in E; try discriminate; apply Z.eqb_eq in E; subst.
  - left. eauto.
  - right. eauto.
Qed.

Lemma ex_step_reqs_inv : forall strict m o m',
  ex_step_ok strict m o m' ->
  ex_m_reqs m' = ex_m_reqs m \/
  exists sty mid tok, o = (ExSend sty, [ExTx (ExReq mid tok sty)]) /\
                      ex_m_reqs m' = (mid, tok) :: ex_m_reqs m.
Proof.
  intros strict m o m' H. inversion H; subst; cbn [ex_m_reqs ex_mon_concl]; auto.
  right. eauto.
Qed.

Lemma ex_path_stop_answered : forall strict t m m' k,
  ex_mon_path strict m t m' -> In k (ex_m_stop m') -> In k (ex_m_stop m) \/ ex_answered k t.
Proof.
  intros strict t. induction t as [| o t IH]; intros m m' k P Hin.
  - apply ex_mon_path_nil_inv in P. subst. left. exact Hin.
  - apply ex_mon_path_cons_inv in P. destruct P as [m1 [Hs P]].
    destruct (IH _ _ _ P Hin) as [H | [o' [out [H1 [H2 H3]]]]].
    + destruct (ex_step_stop_inv _ _ _ _ _ Hs H) as [H0 | H0]; [left; exact H0 | right].
      apply existsb_exists in H0. destruct H0 as [out [Ho Ho2]].
      exists o, out. split; [left; reflexivity | split; assumption].
    + right. exists o', out. split; [right; exact H1 | split; assumption].
Qed.

Lemma ex_path_reqs_mono : forall strict t m m' x,
  ex_mon_path strict m t m' -> In x (ex_m_reqs m) -> In x (ex_m_reqs m').
Proof.
  intros strict t. induction t as [| o t IH]; intros m m' x P Hx.
  - apply ex_mon_path_nil_inv in P. subst. exact Hx.
  - apply ex_mon_path_cons_inv in P. destruct P as [m1 [Hs P]].
    apply (IH _ _ _ P). destruct (ex_step_reqs_inv _ _ _ _ Hs) as [E | [a [b [c [_ E]]]]];
      rewrite E; [exact Hx | right; exact Hx].
Qed.

Lemma ex_path_reqs_sent : forall strict t m m' mid tok,
  ex_mon_path strict m t m' -> ex_sent_req mid tok t -> In (mid, tok) (ex_m_reqs m').
Proof.
  intros strict t. induction t as [| o t IH]; intros m m' mid tok P [s Hin].
  - destruct Hin.
  - apply ex_mon_path_cons_inv in P. destruct P as [m1 [Hs P]].
    destruct Hin as [-> | Hin].
    + apply (ex_path_reqs_mono _ _ _ _ _ P). inversion Hs; subst. cbn. left. reflexivity.
    + eapply IH; [exact P | exists s; exact Hin].
Qed.

(* ------------------------------------------------------------------ the liveness invariant *)
Definition ex_has_nonr (l : list ex_dg) : Prop := exists a k, In (ExNonR a k) l.

(* the separate response of the current exchange is still on its way, or is lost for good *)
Definition ex_alive (y : ex_sys) (lost : list Z) (kc : Z) : Prop :=
  ex_s_pend (ex_y_s y) <> [] \/ ex_s_con (ex_y_s y) <> [] \/ ex_has_nonr (ex_y_s2c y) \/ In kc lost.

Definition ex_unanswered (y : ex_sys) (m : ex_mon) (lost : list Z) (sc mc kc : Z) : Prop :=
  ~ In kc (ex_m_stop m) /\
  Forall (fun d => ex_is_req d = true) (ex_y_c2s y) /\
  ex_c_lack (ex_y_c y) <> mc /\
  (forall a, In a (ex_conmids y) -> ex_c_lcon (ex_y_c y) < a) /\
  (sc = 0 -> ex_c_q (ex_y_c y) <> None) /\
  (~ In (mc, kc) (ex_s_seen (ex_y_s y)) -> ex_c_q (ex_y_c y) <> None) /\
  (sc <> 0 -> In (mc, kc) (ex_s_seen (ex_y_s y)) -> ex_alive y lost kc).

Record ex_live (y : ex_sys) (m : ex_mon) (lost : list Z) (sc n : Z) : Prop := {
  lv_smid : 0 <= ex_s_mid (ex_y_s y) /\ ex_s_mid (ex_y_s y) + n < 65536;
  lv_lcon_le : ex_c_lcon (ex_y_c y) <= ex_s_mid (ex_y_s y);
  lv_mids_le : forall a, In a (ex_conmids y) -> a <= ex_s_mid (ex_y_s y);
  lv_head : forall mc kc rest, ex_m_reqs m = (mc, kc) :: rest -> mc = ex_c_mid (ex_y_c y);
  lv_old : forall k, In k (ex_toks m) -> ex_y_app y <> Some k -> In k (ex_m_stop m);
  lv_acke : forall a mc kc rest, In (ExAckE a) (ex_y_s2c y) -> ex_m_reqs m = (mc, kc) :: rest ->
            In (mc, kc) (ex_s_seen (ex_y_s y)) /\ sc <> 0;
  lv_un : forall mc kc rest, ex_m_reqs m = (mc, kc) :: rest -> ex_y_app y = Some kc ->
          ex_unanswered y m lost sc mc kc;
  lv_app : forall k, ex_y_app y = Some k -> exists mc rest, ex_m_reqs m = (mc, k) :: rest;
  lv_seen : forall a k, In (a, k) (ex_s_seen (ex_y_s y)) -> In k (ex_toks m)
}.

Lemma ex_live_init : forall cmid0 smid0 n,
  0 <= smid0 -> smid0 + n < 65536 ->
  ex_live (ex_sys_init cmid0 smid0) ex_mon_init [] 0 n.
Proof.
  intros cmid0 smid0 n H2 H4.
  constructor; cbn; try lia; try (intros; contradiction); intros; discriminate.
Qed.

(* a step of the server or the network: client, application and monitor unchanged *)
Lemma ex_live_frame : forall y m lost lost' sc n s' c2s' s2c',
  ex_live y m lost sc (n + 1) -> 0 <= n ->
  let y' := Build_ex_sys (ex_y_c y) s' c2s' s2c' (ex_y_app y) in
  ex_s_mid (ex_y_s y) <= ex_s_mid s' <= ex_s_mid (ex_y_s y) + 1 ->
  (forall a k, In (a, k) (ex_s_seen s') -> In k (ex_toks m)) ->
  (forall a, In a (ex_conmids y') -> a <= ex_s_mid s') ->
  (forall a mc kc rest, In (ExAckE a) s2c' -> ex_m_reqs m = (mc, kc) :: rest ->
                        In (mc, kc) (ex_s_seen s') /\ sc <> 0) ->
  (forall mc kc rest, ex_m_reqs m = (mc, kc) :: rest -> ex_y_app y = Some kc ->
     ex_unanswered y m lost sc mc kc ->
     Forall (fun d => ex_is_req d = true) c2s' /\
     (forall a, In a (ex_conmids y') -> ex_c_lcon (ex_y_c y) < a) /\
     (~ In (mc, kc) (ex_s_seen s') -> ex_c_q (ex_y_c y) <> None) /\
     (sc <> 0 -> In (mc, kc) (ex_s_seen s') -> ex_alive y' lost' kc)) ->
  ex_live y' m lost' sc n.
Proof.
  intros y m lost lost' sc n s' c2s' s2c' L Hn y' Hmid Hsn Hle Hacke Hun.
  constructor; cbn [y' ex_y_c ex_y_s ex_y_c2s ex_y_s2c ex_y_app].
  - pose proof (lv_smid _ _ _ _ _ L). lia.
  - pose proof (lv_lcon_le _ _ _ _ _ L). lia.
  - exact Hle.
  - apply L.
  - apply L.
  - exact Hacke.
  - intros mc kc rest E A. pose proof (lv_un _ _ _ _ _ L mc kc rest E A) as U.
    destruct (Hun mc kc rest E A U) as [H1 [H2 [H3 H4]]].
    destruct U as [U1 [U2 [U3 [U4 [U5 [U6 U7]]]]]].
    unfold ex_unanswered. cbn [ex_y_c ex_y_s ex_y_c2s ex_y_s2c].
    split; [exact U1 |]. split; [exact H1 |]. split; [exact U3 |]. split; [exact H2 |].
    split; [exact U5 |]. split; [exact H3 | exact H4].
  - apply L.
  - exact Hsn.
Qed.

(* ------------------------------------------------------------------ small facts *)
Lemma ex_alive_mono : forall y y' lost lost' kc,
  ex_alive y lost kc ->
  (ex_s_pend (ex_y_s y) <> [] -> ex_s_pend (ex_y_s y') <> [] \/ ex_s_con (ex_y_s y') <> [] \/
                                  ex_has_nonr (ex_y_s2c y') \/ In kc lost') ->
  (ex_s_con (ex_y_s y) <> [] -> ex_s_pend (ex_y_s y') <> [] \/ ex_s_con (ex_y_s y') <> [] \/
                                 ex_has_nonr (ex_y_s2c y') \/ In kc lost') ->
  (ex_has_nonr (ex_y_s2c y) -> ex_s_pend (ex_y_s y') <> [] \/ ex_s_con (ex_y_s y') <> [] \/
                               ex_has_nonr (ex_y_s2c y') \/ In kc lost') ->
  (forall k, In k lost -> In k lost') ->
  ex_alive y' lost' kc.
Proof.
  intros y y' lost lost' kc [A | [A | [A | A]]] H1 H2 H3 H4; unfold ex_alive; auto.
Qed.

Lemma ex_In_remove_nth_or : forall (A : Type) i (l : list A) x,
  In x l -> In x (ex_remove_nth i l) \/ nth_error l i = Some x.
Proof.
  intros A i l. revert i. induction l as [| y l IH]; intros i x H; [destruct H |].
  destruct i; cbn.
  - destruct H as [<- | H]; [right; reflexivity | left; exact H].
  - destruct H as [<- | H]; [left; left; reflexivity |].
    destruct (IH i x H) as [H0 | H0]; [left; right; exact H0 | right; exact H0].
Qed.

Lemma ex_set_nth_nonnil : forall (A : Type) j (x : A) l, l <> [] -> ex_set_nth j x l <> [].
Proof. intros A j x l H. destruct l; [contradiction |]. destruct j; cbn; discriminate. Qed.

Lemma ex_snoc_nonnil : forall (A : Type) (l : list A) x, l ++ [x] <> [].
Proof. intros A l x H. apply app_eq_nil in H. destruct H as [_ H]. discriminate H. Qed.

Lemma ex_ginv_guard : forall y m sc mc kc rest,
  ex_ginv y m sc -> ex_m_reqs m = (mc, kc) :: rest -> ex_guard y (ex_m_done m) mc kc sc.
Proof. intros y m sc mc kc rest G E. unfold ex_ginv in G. rewrite E in G. exact G. Qed.

Lemma ex_conmids_of_sub : forall s2c con pend s2c' con' pend' a,
  In a (ex_conmids_of s2c' con' pend') ->
  (forall k, In (ExConR a k) s2c' -> In a (ex_conmids_of s2c con pend)) ->
  (forall r, In r con' -> ex_r_mid r = a -> In a (ex_conmids_of s2c con pend)) ->
  (forall p, In p pend' -> ex_p_sty p = 3 -> ex_p_mid p = a -> In a (ex_conmids_of s2c con pend)) ->
  In a (ex_conmids_of s2c con pend).
Proof.
  intros s2c con pend s2c' con' pend' a Ha H1 H2 H3. apply ex_conmids_In in Ha.
  destruct Ha as [[k Hk] | [[r [Hr1 Hr2]] | [p [Hp1 [Hp2 Hp3]]]]]; eauto.
Qed.

(* ---- the network duplicates or loses a datagram towards the client *)
Lemma ex_live_dupc : forall y m lost sc n d,
  ex_live y m lost sc (n + 1) -> 0 <= n -> In d (ex_y_s2c y) ->
  ex_live (Build_ex_sys (ex_y_c y) (ex_y_s y) (ex_y_c2s y) (ex_y_s2c y ++ [d]) (ex_y_app y))
          m (lost ++ []) sc n.
Proof.
  intros y m lost sc n d L Hn Hd.
  assert (Sub : forall x, In x (ex_y_s2c y ++ [d]) -> In x (ex_y_s2c y)).
  { intros x Hx. apply ex_In_snoc in Hx. destruct Hx as [Hx | ->]; assumption. }
  assert (CM : forall a, In a (ex_conmids (Build_ex_sys (ex_y_c y) (ex_y_s y) (ex_y_c2s y)
                                                        (ex_y_s2c y ++ [d]) (ex_y_app y))) ->
                         In a (ex_conmids y)).
  { intros a Ha. unfold ex_conmids in *. cbn [ex_y_s ex_y_s2c] in Ha.
    eapply ex_conmids_of_sub; [exact Ha | | |].
    - intros k Hk. apply ex_conmids_In. left. exists k. auto.
    - intros r Hr E. apply ex_conmids_In. right. left. eauto.
    - intros p Hp E1 E2. apply ex_conmids_In. right. right. eauto. }
  apply (ex_live_frame y m lost); auto; cbn [ex_y_c ex_y_s ex_y_c2s ex_y_s2c].
  - lia.
  - apply L.
  - intros a Ha. apply (lv_mids_le _ _ _ _ _ L). apply CM. exact Ha.
  - intros a mc kc rest Ha E. apply (lv_acke _ _ _ _ _ L a mc kc rest); [apply Sub; exact Ha | exact E].
  - intros mc kc rest E A [U1 [U2 [U3 [U4 [U5 [U6 U7]]]]]].
    split; [exact U2 |]. split; [intros a Ha; apply U4; apply CM; exact Ha |]. split; [exact U6 |].
    intros Hsc Hseen. eapply ex_alive_mono; [apply U7; assumption | | | |];
      cbn [ex_y_c ex_y_s ex_y_c2s ex_y_s2c]; auto.
    + intros [a [k Hk]]. right. right. left. exists a, k. apply in_or_app. left. exact Hk.
    + intros k Hk. apply in_or_app. left. exact Hk.
Qed.

Lemma ex_live_dropc : forall cf y m lost sc n i,
  ex_ginv y m sc -> ex_live y m lost sc (n + 1) -> 0 <= n ->
  ex_live (Build_ex_sys (ex_y_c y) (ex_y_s y) (ex_y_c2s y) (ex_remove_nth i (ex_y_s2c y)) (ex_y_app y))
          m (lost ++ ex_lost_step cf y (ExADropC i)) sc n.
Proof.
  intros cf y m lost sc n i G L Hn.
  assert (Sub : forall x, In x (ex_remove_nth i (ex_y_s2c y)) -> In x (ex_y_s2c y)).
  { intros x. apply ex_In_remove_nth. }
  assert (CM : forall a, In a (ex_conmids (Build_ex_sys (ex_y_c y) (ex_y_s y) (ex_y_c2s y)
                                             (ex_remove_nth i (ex_y_s2c y)) (ex_y_app y))) ->
                         In a (ex_conmids y)).
  { intros a Ha. unfold ex_conmids in *. cbn [ex_y_s ex_y_s2c] in Ha.
    eapply ex_conmids_of_sub; [exact Ha | | |].
    - intros k Hk. apply ex_conmids_In. left. exists k. auto.
    - intros r Hr E. apply ex_conmids_In. right. left. eauto.
    - intros p Hp E1 E2. apply ex_conmids_In. right. right. eauto. }
  apply (ex_live_frame y m lost); auto; cbn [ex_y_c ex_y_s ex_y_c2s ex_y_s2c].
  - lia.
  - apply L.
  - intros a Ha. apply (lv_mids_le _ _ _ _ _ L). apply CM. exact Ha.
  - intros a mc kc rest Ha E. apply (lv_acke _ _ _ _ _ L a mc kc rest); [apply Sub; exact Ha | exact E].
  - intros mc kc rest E A [U1 [U2 [U3 [U4 [U5 [U6 U7]]]]]].
    split; [exact U2 |]. split; [intros a Ha; apply U4; apply CM; exact Ha |]. split; [exact U6 |].
    intros Hsc Hseen. eapply ex_alive_mono; [apply U7; assumption | | | |];
      cbn [ex_y_c ex_y_s ex_y_c2s ex_y_s2c]; auto.
    + intros [a [k Hk]].
      destruct (ex_In_remove_nth_or _ i _ _ Hk) as [H | H].
      * right. right. left. exists a, k. exact H.
      * right. right. right. apply in_or_app. right. cbn [ex_lost_step]. rewrite H.
        destruct (ex_ginv_guard _ _ _ _ _ _ G E) as [GC _].
        pose proof (g_s2c _ _ _ _ GC) as F. rewrite Forall_forall in F. specialize (F _ Hk). cbn in F.
        destruct F as [-> _]. left. reflexivity.
    + intros k Hk. apply in_or_app. left. exact Hk.
Qed.

(* ---- the network duplicates or loses a datagram towards the server *)
Lemma ex_live_net_s : forall y m lost sc n c2s',
  ex_live y m lost sc (n + 1) -> 0 <= n -> (forall x, In x c2s' -> In x (ex_y_c2s y)) ->
  ex_live (Build_ex_sys (ex_y_c y) (ex_y_s y) c2s' (ex_y_s2c y) (ex_y_app y)) m (lost ++ []) sc n.
Proof.
  intros y m lost sc n c2s' L Hn Sub.
  apply (ex_live_frame y m lost); auto; cbn [ex_y_c ex_y_s ex_y_c2s ex_y_s2c].
  - lia.
  - apply L.
  - apply L.
  - apply L.
  - intros mc kc rest E A [U1 [U2 [U3 [U4 [U5 [U6 U7]]]]]].
    split; [eapply ex_Forall_sub; [exact Sub | exact U2] |]. split; [exact U4 |]. split; [exact U6 |].
    intros Hsc Hseen. eapply ex_alive_mono; [apply U7; assumption | | | |]; auto.
    intros k Hk. apply in_or_app. left. exact Hk.
Qed.

(* ---- the server's timers *)
Lemma ex_live_fire : forall y m lost sc n j,
  ex_live y m lost sc (n + 1) -> 0 <= n ->
  let r := ex_srv_fire (ex_y_s y) j in
  ex_live (Build_ex_sys (ex_y_c y) (fst r) (ex_y_c2s y) (ex_y_s2c y ++ snd r) (ex_y_app y))
          m (lost ++ []) sc n.
Proof.
  intros y m lost sc n j L Hn. cbn zeta. unfold ex_srv_fire.
  destruct (nth_error (ex_s_pend (ex_y_s y)) j) as [p |] eqn:E.
  - pose proof (nth_error_In _ _ E) as Hin.
    assert (CM : forall s2c' con' a,
              (forall k, In (ExConR a k) s2c' -> In (ExConR a k) (ex_y_s2c y) \/ (a = ex_p_mid p /\ ex_p_sty p = 3)) ->
              (forall r, In r con' -> In r (ex_s_con (ex_y_s y)) \/ (ex_r_mid r = ex_p_mid p /\ ex_p_sty p = 3)) ->
              In a (ex_conmids_of s2c' con' (ex_remove_nth j (ex_s_pend (ex_y_s y)))) ->
              In a (ex_conmids y)).
    { intros s2c' con' a H1 H2 Ha. unfold ex_conmids. eapply ex_conmids_of_sub; [exact Ha | | |].
      - intros k Hk. apply ex_conmids_In. destruct (H1 k Hk) as [H | [-> H]].
        + left. eauto.
        + right. right. exists p. auto.
      - intros r Hr Er. apply ex_conmids_In. destruct (H2 r Hr) as [H | [H H']].
        + right. left. eauto.
        + right. right. exists p. split; [exact Hin | split; [exact H' | congruence]].
      - intros p0 Hp0 E1 E2. apply ex_conmids_In. right. right. exists p0.
        split; [eapply ex_In_remove_nth; exact Hp0 | auto]. }
    destruct (ex_p_sty p =? 3) eqn:E3; cbn [fst snd].
    + apply Z.eqb_eq in E3.
      assert (CM' : forall a, In a (ex_conmids (Build_ex_sys (ex_y_c y)
                 (Build_ex_srv (ex_s_seen (ex_y_s y)) (ex_remove_nth j (ex_s_pend (ex_y_s y)))
                    (ex_s_con (ex_y_s y) ++ [Build_ex_conr (ex_p_mid p) (ex_p_tok p) 0]) (ex_s_mid (ex_y_s y)))
                 (ex_y_c2s y) (ex_y_s2c y ++ [ExConR (ex_p_mid p) (ex_p_tok p)]) (ex_y_app y))) ->
               In a (ex_conmids y)).
      { intros a Ha. unfold ex_conmids in Ha. cbn [ex_y_s ex_y_s2c ex_s_con ex_s_pend] in Ha.
        eapply CM; [| | exact Ha].
        - intros k Hk. apply ex_In_snoc in Hk. destruct Hk as [Hk | Hk]; [left; exact Hk | right].
          inversion Hk; subst. auto.
        - intros r Hr. apply ex_In_snoc in Hr. destruct Hr as [Hr | ->]; [left; exact Hr | right]. cbn. auto. }
      apply (ex_live_frame y m lost); auto; cbn [ex_y_c ex_y_s ex_y_c2s ex_y_s2c ex_s_mid ex_s_seen].
      * lia.
      * apply L.
      * intros a Ha. apply (lv_mids_le _ _ _ _ _ L). apply CM'. exact Ha.
      * intros a mc kc rest Ha Er. apply ex_In_snoc in Ha. destruct Ha as [Ha | Ha]; [| discriminate Ha].
        apply (lv_acke _ _ _ _ _ L a mc kc rest); assumption.
      * intros mc kc rest Er A [U1 [U2 [U3 [U4 [U5 [U6 U7]]]]]].
        split; [exact U2 |]. split; [intros a Ha; apply U4; apply CM'; exact Ha |]. split; [exact U6 |].
        intros _ _. right. left. cbn [ex_y_s ex_s_con]. apply ex_snoc_nonnil.
    + assert (CM' : forall a, In a (ex_conmids (Build_ex_sys (ex_y_c y)
                 (Build_ex_srv (ex_s_seen (ex_y_s y)) (ex_remove_nth j (ex_s_pend (ex_y_s y)))
                    (ex_s_con (ex_y_s y)) (ex_s_mid (ex_y_s y)))
                 (ex_y_c2s y) (ex_y_s2c y ++ [ExNonR (ex_p_mid p) (ex_p_tok p)]) (ex_y_app y))) ->
               In a (ex_conmids y)).
      { intros a Ha. unfold ex_conmids in Ha. cbn [ex_y_s ex_y_s2c ex_s_con ex_s_pend] in Ha.
        eapply CM; [| | exact Ha].
        - intros k Hk. apply ex_In_snoc in Hk. destruct Hk as [Hk | Hk]; [left; exact Hk | discriminate Hk].
        - intros r Hr. left. exact Hr. }
      apply (ex_live_frame y m lost); auto; cbn [ex_y_c ex_y_s ex_y_c2s ex_y_s2c ex_s_mid ex_s_seen].
      * lia.
      * apply L.
      * intros a Ha. apply (lv_mids_le _ _ _ _ _ L). apply CM'. exact Ha.
      * intros a mc kc rest Ha Er. apply ex_In_snoc in Ha. destruct Ha as [Ha | Ha]; [| discriminate Ha].
        apply (lv_acke _ _ _ _ _ L a mc kc rest); assumption.
      * intros mc kc rest Er A [U1 [U2 [U3 [U4 [U5 [U6 U7]]]]]].
        split; [exact U2 |]. split; [intros a Ha; apply U4; apply CM'; exact Ha |]. split; [exact U6 |].
        intros _ _. right. right. left. exists (ex_p_mid p), (ex_p_tok p).
        cbn [ex_y_s2c]. apply in_or_app. right. left. reflexivity.
  - cbn [fst snd]. rewrite app_nil_r.
    apply (ex_live_frame y m lost); auto; cbn [ex_y_c ex_y_s ex_y_c2s ex_y_s2c].
    + lia.
    + apply L.
    + intros a Ha. apply (lv_mids_le _ _ _ _ _ L). exact Ha.
    + apply L.
    + intros mc kc rest Er A [U1 [U2 [U3 [U4 [U5 [U6 U7]]]]]].
      split; [exact U2 |]. split; [exact U4 |]. split; [exact U6 |].
      intros H1 H2. eapply ex_alive_mono; [apply U7; assumption | | | |]; auto.
      intros k Hk. apply in_or_app. left. exact Hk.
Qed.

Lemma ex_live_srvtimer : forall cf y m lost sc n j,
  ex_ginv y m sc -> ex_live y m lost sc (n + 1) -> 0 <= n ->
  let r := ex_srv_timer (ex_cf_maxr cf) (ex_y_s y) j in
  ex_live (Build_ex_sys (ex_y_c y) (fst r) (ex_y_c2s y) (ex_y_s2c y ++ snd r) (ex_y_app y))
          m (lost ++ ex_lost_step cf y (ExASrvTimer j)) sc n.
Proof.
  intros cf y m lost sc n j G L Hn. cbn zeta. unfold ex_srv_timer. cbn [ex_lost_step].
  destruct (nth_error (ex_s_con (ex_y_s y)) j) as [r |] eqn:E.
  - pose proof (nth_error_In _ _ E) as Hin.
    assert (Hrm : In (ex_r_mid r) (ex_conmids y)).
    { unfold ex_conmids. apply ex_conmids_In. right. left. eauto. }
    destruct (ex_r_cnt r <? ex_cf_maxr cf) eqn:Ec; cbn [fst snd].
    + assert (CM' : forall a, In a (ex_conmids (Build_ex_sys (ex_y_c y)
                 (Build_ex_srv (ex_s_seen (ex_y_s y)) (ex_s_pend (ex_y_s y))
                    (ex_set_nth j (Build_ex_conr (ex_r_mid r) (ex_r_tok r) (ex_r_cnt r + 1)) (ex_s_con (ex_y_s y)))
                    (ex_s_mid (ex_y_s y)))
                 (ex_y_c2s y) (ex_y_s2c y ++ [ExConR (ex_r_mid r) (ex_r_tok r)]) (ex_y_app y))) ->
               In a (ex_conmids y)).
      { intros a Ha. unfold ex_conmids in Ha. cbn [ex_y_s ex_y_s2c ex_s_con ex_s_pend] in Ha.
        unfold ex_conmids. eapply ex_conmids_of_sub; [exact Ha | | |].
        - intros k Hk. apply ex_In_snoc in Hk. destruct Hk as [Hk | Hk].
          + apply ex_conmids_In. left. eauto.
          + inversion Hk; subst. exact Hrm.
        - intros r0 Hr0 E0. apply ex_In_set_nth in Hr0. destruct Hr0 as [-> | Hr0].
          + cbn in E0. subst a. exact Hrm.
          + apply ex_conmids_In. right. left. eauto.
        - intros p Hp E1 E2. apply ex_conmids_In. right. right. eauto. }
      apply (ex_live_frame y m lost); auto; cbn [ex_y_c ex_y_s ex_y_c2s ex_y_s2c ex_s_mid ex_s_seen].
      * lia.
      * apply L.
      * intros a Ha. apply (lv_mids_le _ _ _ _ _ L). apply CM'. exact Ha.
      * intros a mc kc rest Ha Er. apply ex_In_snoc in Ha. destruct Ha as [Ha | Ha]; [| discriminate Ha].
        apply (lv_acke _ _ _ _ _ L a mc kc rest); assumption.
      * intros mc kc rest Er A [U1 [U2 [U3 [U4 [U5 [U6 U7]]]]]].
        split; [exact U2 |]. split; [intros a Ha; apply U4; apply CM'; exact Ha |]. split; [exact U6 |].
        intros _ _. right. left. cbn [ex_y_s ex_s_con]. apply ex_set_nth_nonnil.
        intros Hnil. rewrite Hnil in Hin. destruct Hin.
    + assert (CM' : forall a, In a (ex_conmids (Build_ex_sys (ex_y_c y)
                 (Build_ex_srv (ex_s_seen (ex_y_s y)) (ex_s_pend (ex_y_s y))
                    (ex_remove_nth j (ex_s_con (ex_y_s y))) (ex_s_mid (ex_y_s y)))
                 (ex_y_c2s y) (ex_y_s2c y ++ []) (ex_y_app y))) ->
               In a (ex_conmids y)).
      { intros a Ha. unfold ex_conmids in Ha. cbn [ex_y_s ex_y_s2c ex_s_con ex_s_pend] in Ha.
        rewrite app_nil_r in Ha.
        unfold ex_conmids. eapply ex_conmids_of_sub; [exact Ha | | |].
        - intros k Hk. apply ex_conmids_In. left. eauto.
        - intros r0 Hr0 E0. apply ex_In_remove_nth in Hr0. apply ex_conmids_In. right. left. eauto.
        - intros p Hp E1 E2. apply ex_conmids_In. right. right. eauto. }
      apply (ex_live_frame y m lost); auto; cbn [ex_y_c ex_y_s ex_y_c2s ex_y_s2c ex_s_mid ex_s_seen].
      * lia.
      * apply L.
      * intros a Ha. apply (lv_mids_le _ _ _ _ _ L). apply CM'. exact Ha.
      * intros a mc kc rest Ha Er. rewrite app_nil_r in Ha.
        apply (lv_acke _ _ _ _ _ L a mc kc rest); assumption.
      * intros mc kc rest Er A [U1 [U2 [U3 [U4 [U5 [U6 U7]]]]]].
        split; [exact U2 |]. split; [intros a Ha; apply U4; apply CM'; exact Ha |]. split; [exact U6 |].
        intros _ _. right. right. right. apply in_or_app. right.
        destruct (ex_ginv_guard _ _ _ _ _ _ G Er) as [GC _].
        pose proof (g_con _ _ _ _ GC) as F. rewrite Forall_forall in F. destruct (F _ Hin) as [-> _].
        left. reflexivity.
  - cbn [fst snd]. rewrite !app_nil_r.
    apply (ex_live_frame y m lost); auto; cbn [ex_y_c ex_y_s ex_y_c2s ex_y_s2c].
    + lia.
    + apply L.
    + intros a Ha. apply (lv_mids_le _ _ _ _ _ L). exact Ha.
    + apply L.
    + intros mc kc rest Er A [U1 [U2 [U3 [U4 [U5 [U6 U7]]]]]].
      split; [exact U2 |]. split; [exact U4 |]. split; [exact U6 |]. exact U7.
Qed.

(* ---- the server receives a datagram *)
Lemma ex_next_mid_succ : forall m n, 0 <= m -> 0 <= n -> m + (n + 1) < 65536 -> ex_next_mid m = m + 1.
Proof. intros m n H1 H2 H3. unfold ex_next_mid. apply Z.mod_small. lia. Qed.

Lemma ex_live_srvrx : forall cf y m lost sc n i d,
  ex_cf_dedup cf = true ->
  ex_basic y m -> ex_ginv y m sc -> ex_live y m lost sc (n + 1) -> 0 <= n ->
  nth_error (ex_y_c2s y) i = Some d ->
  let r := ex_srv_rx cf (ex_y_s y) d in
  ex_live (Build_ex_sys (ex_y_c y) (fst r) (ex_remove_nth i (ex_y_c2s y)) (ex_y_s2c y ++ snd r)
                        (ex_y_app y)) m (lost ++ []) sc n.
Proof.
  intros cf y m lost sc n i d Hdd B G L Hn E. cbn zeta.
  pose proof (nth_error_In _ _ E) as Hin.
  assert (Sub : forall x, In x (ex_remove_nth i (ex_y_c2s y)) -> In x (ex_y_c2s y)).
  { intros x. apply ex_In_remove_nth. }
  assert (LostMono : forall k, In k lost -> In k (lost ++ [])).
  { intros k Hk. apply in_or_app. left. exact Hk. }
  (* a datagram that changes nothing but possibly removes entries of the retransmission list *)
  assert (Trivial : forall con',
            (forall r, In r con' -> In r (ex_s_con (ex_y_s y))) ->
            (ex_s_con (ex_y_s y) <> [] -> con' = [] -> ex_is_req d = false) ->
            ex_live (Build_ex_sys (ex_y_c y)
                       (Build_ex_srv (ex_s_seen (ex_y_s y)) (ex_s_pend (ex_y_s y)) con' (ex_s_mid (ex_y_s y)))
                       (ex_remove_nth i (ex_y_c2s y)) (ex_y_s2c y ++ []) (ex_y_app y)) m (lost ++ []) sc n).
  { intros con' Hc Hreq. rewrite app_nil_r.
    assert (CM' : forall a, In a (ex_conmids (Build_ex_sys (ex_y_c y)
                 (Build_ex_srv (ex_s_seen (ex_y_s y)) (ex_s_pend (ex_y_s y)) con' (ex_s_mid (ex_y_s y)))
                 (ex_remove_nth i (ex_y_c2s y)) (ex_y_s2c y) (ex_y_app y))) -> In a (ex_conmids y)).
    { intros a Ha. unfold ex_conmids in Ha. cbn [ex_y_s ex_y_s2c ex_s_con ex_s_pend] in Ha.
      unfold ex_conmids. eapply ex_conmids_of_sub; [exact Ha | | |].
      - intros k Hk. apply ex_conmids_In. left. eauto.
      - intros r0 Hr0 E0. apply ex_conmids_In. right. left. eauto.
      - intros p Hp E1 E2. apply ex_conmids_In. right. right. eauto. }
    apply (ex_live_frame y m lost); auto; cbn [ex_y_c ex_y_s ex_y_c2s ex_y_s2c ex_s_mid ex_s_seen].
    - lia.
    - apply L.
    - intros a Ha. apply (lv_mids_le _ _ _ _ _ L). apply CM'. exact Ha.
    - apply L.
    - intros mc kc rest Er A [U1 [U2 [U3 [U4 [U5 [U6 U7]]]]]].
      split; [eapply ex_Forall_sub; [exact Sub | exact U2] |].
      split; [intros a Ha; apply U4; apply CM'; exact Ha |]. split; [exact U6 |].
      intros H1 H2. eapply ex_alive_mono; [apply U7; assumption | | | | exact LostMono];
        cbn [ex_y_c ex_y_s ex_y_c2s ex_y_s2c ex_s_pend ex_s_con]; auto.
      intros Hne. destruct con' as [| r0 con0] eqn:Ec; [| right; left; discriminate].
      exfalso. rewrite Forall_forall in U2. specialize (U2 _ Hin).
      rewrite (Hreq Hne eq_refl) in U2. discriminate U2. }
  destruct d as [mr kr sty | mr | mr kr | mr kr | mr kr | mr]; unfold ex_srv_rx.
  - (* a request *)
    pose proof (bs_c2s _ _ B) as BC. rewrite Forall_forall in BC. specialize (BC _ Hin). cbn in BC.
    destruct (ex_m_reqs m) as [| [mc kc] rest] eqn:Er; [destruct BC |].
    destruct (ex_ginv_guard _ _ _ _ _ _ G Er) as [GC GD].
    pose proof (g_c2s _ _ _ _ GC) as F. rewrite Forall_forall in F. specialize (F _ Hin).
    cbn in F. destruct F as [-> [-> ->]].
    rewrite Hdd. cbn [andb].
    destruct (ex_mem2 mc kc (ex_s_seen (ex_y_s y))) eqn:Eseen.
    + (* acknowledged again *)
      apply ex_mem2_In in Eseen. cbn [fst snd].
      assert (CM' : forall x a, (forall k, x <> ExConR a k) ->
                 In a (ex_conmids (Build_ex_sys (ex_y_c y) (ex_y_s y)
                        (ex_remove_nth i (ex_y_c2s y)) (ex_y_s2c y ++ [x]) (ex_y_app y))) ->
                 In a (ex_conmids y)).
      { intros x a Hx Ha. unfold ex_conmids in Ha. cbn [ex_y_s ex_y_s2c] in Ha.
        unfold ex_conmids. eapply ex_conmids_of_sub; [exact Ha | | |].
        - intros k Hk. apply ex_In_snoc in Hk. destruct Hk as [Hk | Hk].
          + apply ex_conmids_In. left. eauto.
          + exfalso. apply (Hx k). symmetry. exact Hk.
        - intros r0 Hr0 E0. apply ex_conmids_In. right. left. eauto.
        - intros p Hp E1 E2. apply ex_conmids_In. right. right. eauto. }
      assert (Hx : forall a k, (if sc =? 0 then ExAckR mc kc else ExAckE mc) <> ExConR a k).
      { intros a k. destruct (sc =? 0); discriminate. }
      apply (ex_live_frame y m lost); auto; cbn [ex_y_c ex_y_s ex_y_c2s ex_y_s2c].
      * lia.
      * apply L.
      * intros a Ha. apply (lv_mids_le _ _ _ _ _ L). eapply CM'; [intros k; apply Hx | exact Ha].
      * intros a mc0 kc0 rest0 Ha Er0. rewrite Er in Er0; injection Er0 as Ea Eb Ec; subst mc0 kc0 rest0.
        apply ex_In_snoc in Ha. destruct Ha as [Ha | Ha].
        -- apply (lv_acke _ _ _ _ _ L a mc kc rest); [exact Ha | exact Er].
        -- split; [exact Eseen |]. destruct (sc =? 0) eqn:E0; [discriminate Ha |].
           apply Z.eqb_neq. exact E0.
      * intros mc0 kc0 rest0 Er0 A [U1 [U2 [U3 [U4 [U5 [U6 U7]]]]]]. rewrite Er in Er0; injection Er0 as Ea Eb Ec; subst mc0 kc0 rest0.
        split; [eapply ex_Forall_sub; [exact Sub | exact U2] |].
        split; [intros a Ha; apply U4; eapply CM'; [intros k; apply Hx | exact Ha] |].
        split; [exact U6 |].
        intros H1 H2. eapply ex_alive_mono; [apply U7; assumption | | | | exact LostMono];
          cbn [ex_y_c ex_y_s ex_y_c2s ex_y_s2c]; auto.
        intros [a [k Hk]]. right. right. left. exists a, k. apply in_or_app. left. exact Hk.
    + (* processed for the first time *)
      assert (Hns : ~ In (mc, kc) (ex_s_seen (ex_y_s y))).
      { intros H. apply ex_mem2_In in H. congruence. }
      destruct (g_unseen _ _ _ _ GC Hns) as [U1 [U2 U3]].
      rewrite U2. cbn [ex_pend_has existsb].
      pose proof (lv_smid _ _ _ _ _ L) as [Hs0 Hs1].
      pose proof (ex_next_mid_succ _ _ Hs0 Hn Hs1) as Hnext.
      assert (Hcm0 : forall a, In a (ex_conmids y) -> False).
      { intros a Ha. unfold ex_conmids in Ha. apply ex_conmids_In in Ha. rewrite U2, U3 in Ha.
        destruct Ha as [[k' Hk] | [[r [[] _]] | [p [[] _]]]].
        rewrite Forall_forall in U1. specialize (U1 _ Hk). discriminate U1. }
      assert (Core : forall s' ds,
                ex_s_seen s' = (mc, kc) :: ex_s_seen (ex_y_s y) ->
                ex_s_mid (ex_y_s y) <= ex_s_mid s' <= ex_s_mid (ex_y_s y) + 1 ->
                (forall a, In a (ex_conmids_of (ex_y_s2c y ++ ds) (ex_s_con s') (ex_s_pend s')) ->
                           a = ex_s_mid (ex_y_s y) + 1 /\ ex_s_mid s' = ex_s_mid (ex_y_s y) + 1) ->
                (forall a, In (ExAckE a) ds -> sc <> 0) ->
                (sc <> 0 -> ex_s_pend s' <> [] \/ ex_s_con s' <> [] \/ ex_has_nonr (ex_y_s2c y ++ ds)) ->
                ex_live (Build_ex_sys (ex_y_c y) s' (ex_remove_nth i (ex_y_c2s y)) (ex_y_s2c y ++ ds)
                                      (ex_y_app y)) m (lost ++ []) sc n).
      { intros s' ds H1 H2 H3 H4 H5.
        apply (ex_live_frame y m lost); auto; cbn [ex_y_c ex_y_s ex_y_c2s ex_y_s2c].
        - intros a k Hk. rewrite H1 in Hk. destruct Hk as [Hk | Hk].
          + inversion Hk; subst. unfold ex_toks. rewrite Er. left. reflexivity.
          + apply (lv_seen _ _ _ _ _ L a k Hk).
        - intros a Ha. unfold ex_conmids in Ha. cbn [ex_y_s ex_y_s2c] in Ha.
          destruct (H3 a Ha) as [-> ->]. lia.
        - intros a mc0 kc0 rest0 Ha Er0. rewrite Er in Er0; injection Er0 as Ea Eb Ec; subst mc0 kc0 rest0.
          rewrite H1. split; [left; reflexivity |].
          apply in_app_iff in Ha. destruct Ha as [Ha | Ha].
          + apply (lv_acke _ _ _ _ _ L a mc kc rest Ha Er).
          + eapply H4. exact Ha.
        - intros mc0 kc0 rest0 Er0 A [V1 [V2 [V3 [V4 [V5 [V6 V7]]]]]]. rewrite Er in Er0; injection Er0 as Ea Eb Ec; subst mc0 kc0 rest0.
          split; [eapply ex_Forall_sub; [exact Sub | exact V2] |].
          split.
          { intros a Ha. unfold ex_conmids in Ha. cbn [ex_y_s ex_y_s2c] in Ha.
            destruct (H3 a Ha) as [-> _]. pose proof (lv_lcon_le _ _ _ _ _ L). lia. }
          split; [intros Hx; exfalso; apply Hx; rewrite H1; left; reflexivity |].
          intros Hsc _. unfold ex_alive. cbn [ex_y_s ex_y_s2c].
          destruct (H5 Hsc) as [H | [H | H]]; auto. }
      destruct (sc =? 0) eqn:E0.
      { apply Z.eqb_eq in E0. cbn [fst snd]. apply Core; cbn [ex_s_seen ex_s_pend ex_s_con ex_s_mid].
        - reflexivity.
        - lia.
        - intros a Ha. exfalso. apply ex_conmids_In in Ha.
          destruct Ha as [[k Hk] | [[r [Hr _]] | [p [Hp _]]]].
          + apply in_app_iff in Hk. destruct Hk as [Hk | [Hk | []]]; [| discriminate Hk].
            rewrite Forall_forall in U1. specialize (U1 _ Hk). discriminate U1.
          + rewrite U3 in Hr. destruct Hr.
          + destruct Hp.
        - intros a [Ha | []]. discriminate Ha.
        - intros Hsc. contradiction. }
      apply Z.eqb_neq in E0. rewrite Hnext.
      destruct (sc =? 1) eqn:E1.
      { cbn [fst snd]. apply Core; cbn [ex_s_seen ex_s_pend ex_s_con ex_s_mid].
        - reflexivity.
        - lia.
        - intros a Ha. split; [| reflexivity]. apply ex_conmids_In in Ha.
          destruct Ha as [[k Hk] | [[r [Hr Hr2]] | [p [Hp _]]]].
          + apply in_app_iff in Hk. destruct Hk as [Hk | [Hk | [Hk | []]]]; try discriminate Hk.
            * exfalso. rewrite Forall_forall in U1. specialize (U1 _ Hk). discriminate U1.
            * inversion Hk. reflexivity.
          + rewrite U3 in Hr. cbn in Hr. destruct Hr as [<- | []]. cbn in Hr2. symmetry. exact Hr2.
          + destruct Hp.
        - intros a Ha. exact E0.
        - intros _. right. left. apply ex_snoc_nonnil. }
      destruct (sc =? 2) eqn:E2.
      { cbn [fst snd]. apply Core; cbn [ex_s_seen ex_s_pend ex_s_con ex_s_mid].
        - reflexivity.
        - lia.
        - intros a Ha. exfalso. apply ex_conmids_In in Ha.
          destruct Ha as [[k Hk] | [[r [Hr _]] | [p [Hp _]]]].
          + apply in_app_iff in Hk. destruct Hk as [Hk | [Hk | [Hk | []]]]; try discriminate Hk.
            rewrite Forall_forall in U1. specialize (U1 _ Hk). discriminate U1.
          + rewrite U3 in Hr. destruct Hr.
          + destruct Hp.
        - intros a Ha. exact E0.
        - intros _. right. right. exists (ex_s_mid (ex_y_s y) + 1), kc.
          apply in_or_app. right. left. reflexivity. }
      cbn [fst snd]. apply Core; cbn [ex_s_seen ex_s_pend ex_s_con ex_s_mid].
      * reflexivity.
      * lia.
      * intros a Ha. split; [| reflexivity]. apply ex_conmids_In in Ha.
        destruct Ha as [[k Hk] | [[r [Hr _]] | [p [Hp [Hp2 Hp3]]]]].
        -- apply in_app_iff in Hk. destruct Hk as [Hk | [Hk | []]]; [| discriminate Hk].
           exfalso. rewrite Forall_forall in U1. specialize (U1 _ Hk). discriminate U1.
        -- rewrite U3 in Hr. destruct Hr.
        -- cbn in Hp. destruct Hp as [<- | []]. cbn in Hp3. symmetry. exact Hp3.
      * intros a Ha. exact E0.
      * intros _. left. cbn. discriminate.
  - (* the client's ACK *)
    cbn [fst snd]. apply Trivial.
    + intros r Hr. apply filter_In in Hr. apply Hr.
    + intros _ _. reflexivity.
  - cbn [fst snd]. destruct (ex_y_s y) as [se pe co mi] eqn:Es. cbn [ex_s_seen ex_s_pend ex_s_con ex_s_mid] in *.
    apply Trivial; auto; intros _ _; reflexivity.
  - cbn [fst snd]. destruct (ex_y_s y) as [se pe co mi] eqn:Es. cbn [ex_s_seen ex_s_pend ex_s_con ex_s_mid] in *.
    apply Trivial; auto; intros _ _; reflexivity.
  - cbn [fst snd]. destruct (ex_y_s y) as [se pe co mi] eqn:Es. cbn [ex_s_seen ex_s_pend ex_s_con ex_s_mid] in *.
    apply Trivial; auto; intros _ _; reflexivity.
  - cbn [fst snd]. apply Trivial.
    + intros r Hr. apply filter_In in Hr. apply Hr.
    + intros _ _. reflexivity.
Qed.

(* ------------------------------------------------------------------ the client's steps *)
Lemma ex_app_after_cases : forall app outs,
  (ex_app_after app outs = app /\ forall k, app = Some k -> existsb (ex_out_ends k) outs = false) \/
  (exists k, app = Some k /\ existsb (ex_out_ends k) outs = true /\ ex_app_after app outs = None).
Proof.
  intros [k |] outs; cbn.
  - destruct (existsb (ex_out_ends k) outs) eqn:E.
    + right. exists k. auto.
    + left. split; [reflexivity |]. intros k0 E0. inversion E0; subst. exact E.
  - left. split; [reflexivity |]. intros k E. discriminate E.
Qed.

Lemma ex_conmids_client_sub : forall y c1 c2s' s2c' app' a,
  (forall d, In d s2c' -> In d (ex_y_s2c y)) ->
  In a (ex_conmids (Build_ex_sys c1 (ex_y_s y) c2s' s2c' app')) -> In a (ex_conmids y).
Proof. exact ex_conmids_sub_s2c. Qed.

(* a client step other than a send *)
Lemma ex_live_client_gen : forall y m m' lost sc n c1 outs s2c' i,
  ex_live y m lost sc (n + 1) -> 0 <= n ->
  ex_step_ok true m (i, outs) m' -> ex_m_reqs m' = ex_m_reqs m ->
  ex_c_mid c1 = ex_c_mid (ex_y_c y) ->
  ex_c_lcon c1 <= ex_s_mid (ex_y_s y) ->
  (forall d, In d s2c' -> In d (ex_y_s2c y)) ->
  (forall mc kc rest, ex_m_reqs m = (mc, kc) :: rest -> ex_y_app y = Some kc ->
     existsb (ex_out_ends kc) outs = false ->
     ex_c_lack c1 = ex_c_lack (ex_y_c y) /\ ex_c_lcon c1 = ex_c_lcon (ex_y_c y) /\
     Forall (fun d => ex_is_req d = true) (ex_txs outs) /\
     (ex_c_q c1 = None -> ex_c_q (ex_y_c y) = None \/ exists a, In (ExAckE a) (ex_y_s2c y)) /\
     (ex_has_nonr (ex_y_s2c y) -> ex_has_nonr s2c')) ->
  ex_live (Build_ex_sys c1 (ex_y_s y) (ex_y_c2s y ++ ex_txs outs) s2c' (ex_app_after (ex_y_app y) outs))
          m' lost sc n.
Proof.
  intros y m m' lost sc n c1 outs s2c' i L Hn Hs Er Hmid Hlc Sub Hun.
  assert (Toks : ex_toks m' = ex_toks m) by (unfold ex_toks; rewrite Er; reflexivity).
  assert (StopMono : forall k, In k (ex_m_stop m) -> In k (ex_m_stop m')).
  { intros k. eapply ex_step_stop_mono. exact Hs. }
  constructor; cbn [ex_y_c ex_y_s ex_y_c2s ex_y_s2c ex_y_app].
  - pose proof (lv_smid _ _ _ _ _ L). lia.
  - exact Hlc.
  - intros a Ha. apply (lv_mids_le _ _ _ _ _ L). eapply ex_conmids_client_sub; [exact Sub | exact Ha].
  - intros mc kc rest E. rewrite Er in E. rewrite Hmid. eapply (lv_head _ _ _ _ _ L). exact E.
  - intros k Hk Ha. rewrite Toks in Hk.
    destruct (ex_app_after_cases (ex_y_app y) outs) as [[E1 E2] | [ka [E1 [E2 E3]]]].
    + rewrite E1 in Ha. apply StopMono. apply (lv_old _ _ _ _ _ L); assumption.
    + destruct (Z.eq_dec k ka) as [-> | Hne].
      * eapply ex_step_stop_fwd; [exact Hs | exact E2].
      * apply StopMono. apply (lv_old _ _ _ _ _ L); [exact Hk |]. rewrite E1. congruence.
  - intros a mc kc rest Ha E. rewrite Er in E. apply (lv_acke _ _ _ _ _ L a mc kc rest); auto.
  - intros mc kc rest E A. rewrite Er in E.
    destruct (ex_app_after_cases (ex_y_app y) outs) as [[E1 E2] | [ka [E1 [E2 E3]]]];
      [| rewrite E3 in A; discriminate A].
    rewrite E1 in A. specialize (E2 _ A).
    destruct (lv_un _ _ _ _ _ L mc kc rest E A) as [U1 [U2 [U3 [U4 [U5 [U6 U7]]]]]].
    destruct (Hun mc kc rest E A E2) as [B1 [B2 [B3 [B4 B5]]]].
    assert (Q1 : ex_c_q c1 = None -> sc <> 0 /\ In (mc, kc) (ex_s_seen (ex_y_s y)) \/ ex_c_q (ex_y_c y) = None).
    { intros Q. destruct (B4 Q) as [H | [a Ha]]; [right; exact H | left].
      destruct (lv_acke _ _ _ _ _ L a mc kc rest Ha E) as [H1 H2]. auto. }
    unfold ex_unanswered. cbn [ex_y_c ex_y_s ex_y_c2s ex_y_s2c].
    split.
    { intros Hk. destruct (ex_step_stop_inv _ _ _ _ _ Hs Hk) as [H | H]; [contradiction |].
      cbn [snd] in H. congruence. }
    split; [apply Forall_app; split; assumption |].
    split; [rewrite B1; exact U3 |].
    split.
    { intros a Ha. rewrite B2. apply U4. eapply ex_conmids_client_sub; [exact Sub | exact Ha]. }
    split.
    { intros Hsc Q. destruct (Q1 Q) as [[H _] | H]; [contradiction | exact (U5 Hsc H)]. }
    split.
    { intros Hns Q. destruct (Q1 Q) as [[_ H] | H]; [contradiction | exact (U6 Hns H)]. }
    intros Hsc Hseen. destruct (U7 Hsc Hseen) as [H | [H | [H | H]]]; unfold ex_alive;
      cbn [ex_y_s ex_y_s2c]; auto.
  - intros k A.
    destruct (ex_app_after_cases (ex_y_app y) outs) as [[E1 E2] | [ka [E1 [E2 E3]]]];
      [| rewrite E3 in A; discriminate A].
    rewrite E1 in A. rewrite Er. apply (lv_app _ _ _ _ _ L). exact A.
  - intros a k Hk. rewrite Toks. apply (lv_seen _ _ _ _ _ L a k Hk).
Qed.

Lemma ex_live_weaken : forall y m lost lost' sc n,
  ex_live y m lost sc (n + 1) -> 0 <= n -> (forall k, In k lost -> In k lost') ->
  ex_live y m lost' sc n.
Proof.
  intros y m lost lost' sc n L Hn Hl. constructor; try apply L.
  - pose proof (lv_smid _ _ _ _ _ L). lia.
  - intros mc kc rest E A. destruct (lv_un _ _ _ _ _ L mc kc rest E A) as [U1 [U2 [U3 [U4 [U5 [U6 U7]]]]]].
    unfold ex_unanswered. repeat (split; [assumption |]).
    intros H1 H2. destruct (U7 H1 H2) as [H | [H | [H | H]]]; unfold ex_alive; auto.
Qed.

Lemma ex_live_same_sys : forall y m lost sc n c2s',
  ex_live y m lost sc n -> c2s' = ex_y_c2s y ->
  ex_live (Build_ex_sys (ex_y_c y) (ex_y_s y) c2s' (ex_y_s2c y) (ex_y_app y)) m lost sc n.
Proof. intros y m lost sc n c2s' L ->. destruct y. exact L. Qed.

Lemma ex_has_nonr_remove : forall l i d,
  nth_error l i = Some d -> (forall a k, d <> ExNonR a k) -> ex_has_nonr l ->
  ex_has_nonr (ex_remove_nth i l).
Proof.
  intros l i d E Hd [a [k Hk]]. destruct (ex_In_remove_nth_or _ i _ _ Hk) as [H | H].
  - exists a, k. exact H.
  - rewrite E in H. inversion H. exfalso. eapply Hd. eassumption.
Qed.

(* ---- delivery to the client *)
Lemma ex_live_rx : forall cf y m m' lost sc n i d ok,
  ex_basic y m -> ex_ginv y m sc -> ex_live y m lost sc (n + 1) -> 0 <= n ->
  nth_error (ex_y_s2c y) i = Some d ->
  let r := ex_sys_client cf y (ExRx d ok) (ex_remove_nth i (ex_y_s2c y)) in
  ex_mon_path true m (snd r) m' ->
  ex_live (fst r) m' lost sc n.
Proof.
  intros cf y m m' lost sc n i d ok B G L Hn E. cbn zeta. unfold ex_sys_client.
  pose proof (nth_error_In _ _ E) as Hin.
  pose proof (ex_Forall_nth _ _ _ _ _ (bs_s2c _ _ B) E) as Hok.
  assert (Sub : forall x, In x (ex_remove_nth i (ex_y_s2c y)) -> In x (ex_y_s2c y)).
  { intros x. apply ex_In_remove_nth. }
  destruct (ex_cli_step (ex_cf_maxr cf) (ex_y_c y) (ExRx d ok)) as [c1 outs] eqn:Ecs.
  cbn [fst snd]. intros P.
  apply ex_mon_path_cons_inv in P. destruct P as [m1 [Hs P]].
  apply ex_mon_path_nil_inv in P. subst m1.
  assert (Er : ex_m_reqs m' = ex_m_reqs m).
  { destruct (ex_step_reqs_inv _ _ _ _ Hs) as [H | [a [b [c [H _]]]]]; [exact H | discriminate H]. }
  (* facts about the current exchange, when there is one *)
  assert (Cur : forall mc kc rest, ex_m_reqs m = (mc, kc) :: rest ->
                ex_gcore y mc kc sc /\ mc = ex_c_mid (ex_y_c y)).
  { intros mc kc rest E0. destruct (ex_ginv_guard _ _ _ _ _ _ G E0) as [GC _].
    split; [exact GC | eapply (lv_head _ _ _ _ _ L); exact E0]. }
  unfold ex_cli_step in Ecs.
  destruct d as [mid tok sty | mid | mid tok | mid tok | mid tok | mid]; cbn in Hok; try contradiction.
  - (* empty ACK *)
    destruct (ex_remove_mid (ex_y_c y) mid) as [c0 sent] eqn:Erm.
    assert (R : ex_c_mid c1 = ex_c_mid (ex_y_c y) /\ ex_c_lack c1 = ex_c_lack (ex_y_c y) /\
                ex_c_lcon c1 = ex_c_lcon (ex_y_c y) /\ outs = [] /\
                (ex_c_q c1 = None -> ex_c_q (ex_y_c y) = None \/ exists a, In (ExAckE a) (ex_y_s2c y))).
    { unfold ex_remove_mid in Erm. destruct (ex_c_q (ex_y_c y)) as [q |] eqn:Q.
      - destruct (ex_q_mid q =? mid); inversion Erm; subst; inversion Ecs; subst; cbn;
          repeat split; auto; intros _; right; eauto.
      - inversion Erm; subst. inversion Ecs; subst. repeat split; auto. }
    destruct R as [R1 [R2 [R3 [R4 R5]]]]. subst outs.
    eapply ex_live_client_gen; eauto.
    + rewrite R3. apply L.
    + intros mc kc rest E0 A _. repeat split; auto. cbn. constructor.
      apply (ex_has_nonr_remove _ _ _ E). intros a k. discriminate.
  - (* piggybacked response *)
    destruct (ex_m_reqs m) as [| [mc kc] rest] eqn:E0; [destruct Hok |].
    destruct (Cur _ _ _ eq_refl) as [GC Hmc].
    assert (Er' : ex_m_reqs m' = ex_m_reqs m) by (rewrite E0; exact Er).
    pose proof (g_s2c _ _ _ _ GC) as F. rewrite Forall_forall in F. specialize (F _ Hin). cbn in F.
    destruct F as [-> [-> Hsc]].
    destruct (ex_remove_mid (ex_y_c y) mc) as [c0 sent] eqn:Erm.
    assert (R0 : ex_c_mid c0 = ex_c_mid (ex_y_c y) /\ ex_c_lack c0 = ex_c_lack (ex_y_c y) /\
                 ex_c_lcon c0 = ex_c_lcon (ex_y_c y)).
    { unfold ex_remove_mid in Erm. destruct (ex_c_q (ex_y_c y)) as [q |];
        [destruct (ex_q_mid q =? mc) |]; inversion Erm; subst; cbn; auto. }
    destruct R0 as [R1 [R2 R3]].
    destruct (mc =? ex_c_lack c0) eqn:Ef.
    + (* filtered: cannot happen while the exchange is unanswered *)
      apply Z.eqb_eq in Ef. inversion Ecs; subst c1 outs.
      eapply ex_live_client_gen; eauto.
      * rewrite R3. apply L.
      * intros mc0 kc0 rest0 E1 A _. rewrite E0 in E1; injection E1 as <- <- <-.
        destruct (lv_un _ _ _ _ _ L mc kc rest E0 A) as [_ [_ [U3 _]]]. exfalso. apply U3. congruence.
    + unfold ex_deliver in Ecs.
      replace (negb ok && negb (2 =? 2)) with false in Ecs by (destruct ok; reflexivity).
      replace (2 =? 0) with false in Ecs by reflexivity. inversion Ecs; subst c1 outs.
      eapply ex_live_client_gen; eauto; cbn [ex_c_mid ex_c_lack ex_c_lcon].
      * rewrite R3. apply L.
      * intros mc0 kc0 rest0 E1 A Hf. rewrite E0 in E1; injection E1 as <- <- <-.
        cbn in Hf. rewrite Z.eqb_refl in Hf. discriminate Hf.
  - (* separate Confirmable response *)
    destruct Hok as [Hok1 Hok2].
    destruct (ex_m_reqs m) as [| [mc kc] rest] eqn:E0; [destruct Hok1 |].
    destruct (Cur _ _ _ eq_refl) as [GC Hmc].
    assert (Er' : ex_m_reqs m' = ex_m_reqs m) by (rewrite E0; exact Er).
    pose proof (g_s2c _ _ _ _ GC) as F. rewrite Forall_forall in F. specialize (F _ Hin). cbn in F.
    destruct F as [-> Hsc].
    assert (Hmid : In mid (ex_conmids y)).
    { unfold ex_conmids. apply ex_conmids_In. left. exists kc. exact Hin. }
    assert (R0 : ex_c_mid (ex_cancel_tok (ex_y_c y) kc) = ex_c_mid (ex_y_c y) /\
                 ex_c_lack (ex_cancel_tok (ex_y_c y) kc) = ex_c_lack (ex_y_c y) /\
                 ex_c_lcon (ex_cancel_tok (ex_y_c y) kc) = ex_c_lcon (ex_y_c y)).
    { unfold ex_cancel_tok. destruct (ex_c_q (ex_y_c y)) as [q |];
        [destruct (ex_q_tok q =? kc) |]; cbn; auto. }
    destruct R0 as [R1 [R2 R3]].
    destruct (mid =? ex_c_lcon (ex_cancel_tok (ex_y_c y) kc)) eqn:Ef.
    + apply Z.eqb_eq in Ef. inversion Ecs; subst c1 outs.
      eapply ex_live_client_gen; eauto.
      * rewrite R3. apply L.
      * intros mc0 kc0 rest0 E1 A _. rewrite E0 in E1; injection E1 as <- <- <-.
        destruct (lv_un _ _ _ _ _ L mc kc rest E0 A) as [_ [_ [_ [U4 _]]]].
        specialize (U4 _ Hmid). rewrite E0 in *. lia.
    + unfold ex_deliver in Ecs.
      assert (Ends : forall st a, existsb (ex_out_ends kc) [ExResp 0 mid kc st; a] = true).
      { intros st a. cbn. rewrite Z.eqb_refl. reflexivity. }
      destruct ok; cbn in Ecs; inversion Ecs; subst c1 outs;
        (eapply ex_live_client_gen; eauto; cbn [ex_c_mid ex_c_lack ex_c_lcon];
         [ apply (lv_mids_le _ _ _ _ _ L); exact Hmid
         | intros mc0 kc0 rest0 E1 A Hf; rewrite E0 in E1; injection E1 as <- <- <-; rewrite Ends in Hf; discriminate Hf ]).
  - (* Non-confirmable response *)
    destruct Hok as [Hok1 Hok2].
    destruct (ex_m_reqs m) as [| [mc kc] rest] eqn:E0; [destruct Hok1 |].
    destruct (Cur _ _ _ eq_refl) as [GC Hmc].
    assert (Er' : ex_m_reqs m' = ex_m_reqs m) by (rewrite E0; exact Er).
    pose proof (g_s2c _ _ _ _ GC) as F. rewrite Forall_forall in F. specialize (F _ Hin). cbn in F.
    destruct F as [-> Hsc].
    assert (R0 : ex_c_mid (ex_cancel_tok (ex_y_c y) kc) = ex_c_mid (ex_y_c y) /\
                 ex_c_lack (ex_cancel_tok (ex_y_c y) kc) = ex_c_lack (ex_y_c y) /\
                 ex_c_lcon (ex_cancel_tok (ex_y_c y) kc) = ex_c_lcon (ex_y_c y)).
    { unfold ex_cancel_tok. destruct (ex_c_q (ex_y_c y)) as [q |];
        [destruct (ex_q_tok q =? kc) |]; cbn; auto. }
    destruct R0 as [R1 [R2 R3]].
    unfold ex_deliver in Ecs.
    assert (Ends : forall st l, existsb (ex_out_ends kc) (ExResp 1 mid kc st :: l) = true).
    { intros st l. cbn. rewrite Z.eqb_refl. reflexivity. }
    destruct ok; cbn in Ecs; inversion Ecs; subst c1 outs;
      (eapply ex_live_client_gen; eauto; cbn [ex_c_mid ex_c_lack ex_c_lcon];
       [ rewrite R3; apply L
       | intros mc0 kc0 rest0 E1 A Hf; rewrite E0 in E1; injection E1 as <- <- <-; rewrite Ends in Hf; discriminate Hf ]).
Qed.

(* ---- the client's retransmission timer *)
Lemma ex_live_timer : forall cf y m m' lost sc n,
  ex_basic y m -> ex_ginv y m sc -> ex_live y m lost sc (n + 1) -> 0 <= n ->
  let r := ex_sys_client cf y ExTimer (ex_y_s2c y) in
  ex_mon_path true m (snd r) m' ->
  ex_live (fst r) m' lost sc n.
Proof.
  intros cf y m m' lost sc n B G L Hn. cbn zeta. unfold ex_sys_client.
  destruct (ex_cli_step (ex_cf_maxr cf) (ex_y_c y) ExTimer) as [c1 outs] eqn:Ecs.
  cbn [fst snd]. intros P.
  apply ex_mon_path_cons_inv in P. destruct P as [m1 [Hs P]].
  apply ex_mon_path_nil_inv in P. subst m1.
  assert (Er : ex_m_reqs m' = ex_m_reqs m).
  { destruct (ex_step_reqs_inv _ _ _ _ Hs) as [H | [a [b [c [H _]]]]]; [exact H | discriminate H]. }
  unfold ex_cli_step in Ecs.
  destruct (ex_c_q (ex_y_c y)) as [q |] eqn:Q.
  - destruct (ex_q_cnt q <? ex_cf_maxr cf) eqn:Ec; inversion Ecs; subst c1 outs.
    + (* retransmission *)
      eapply ex_live_client_gen; eauto; cbn [ex_set_q ex_c_mid ex_c_lack ex_c_lcon ex_c_q].
      * apply L.
      * intros mc kc rest E0 A _. repeat split; auto.
        -- unfold ex_req_of. cbn. constructor; [reflexivity | constructor].
        -- intros H. discriminate H.
    + (* give-up *)
      eapply ex_live_client_gen; eauto; cbn [ex_set_q ex_c_mid ex_c_lack ex_c_lcon ex_c_q].
      * apply L.
      * intros mc kc rest E0 A Hf. exfalso.
        destruct (ex_ginv_guard _ _ _ _ _ _ G E0) as [GC _].
        destruct (g_q _ _ _ _ GC _ Q) as [_ [Hk _]].
        cbn in Hf. rewrite Hk, Z.eqb_refl in Hf. discriminate Hf.
  - inversion Ecs; subst c1 outs.
    eapply ex_live_client_gen; eauto.
    + apply L.
    + intros mc kc rest E0 A _. repeat split; auto. constructor.
Qed.

(* ---- the application sends (no exchange outstanding, the network is quiet) *)
Lemma ex_live_send : forall cf y m m' lost sc n sty,
  ex_basic y m -> ex_live y m lost sc (n + 1) -> 0 <= n ->
  ex_y_app y = None -> ex_quiet y = true ->
  let r := ex_sys_client cf y (ExSend sty) (ex_y_s2c y) in
  ex_mon_path true m (snd r) m' ->
  ex_live (fst r) m' lost (ex_sc_of_obs (snd r) sc) n.
Proof.
  intros cf y m m' lost sc n sty B L Hn Happ Hq. cbn zeta. unfold ex_sys_client.
  pose proof (ex_basic_cm _ _ B) as C.
  destruct (ex_cli_step (ex_cf_maxr cf) (ex_y_c y) (ExSend sty)) as [c1 outs] eqn:Ecs.
  cbn [fst snd]. intros P.
  apply ex_mon_path_cons_inv in P. destruct P as [m1 [Hs P]].
  apply ex_mon_path_nil_inv in P. subst m1.
  unfold ex_cli_step in Ecs.
  destruct (ex_c_q (ex_y_c y)) as [q |] eqn:Q.
  - (* skipped *)
    inversion Ecs; subst c1 outs. inversion Hs; subst m'. cbn [ex_sent_tok ex_txs ex_sc_of_obs ex_sc_after].
    rewrite app_nil_r. destruct y as [c s c2s s2c app]. cbn in *.
    eapply ex_live_weaken; [exact L | exact Hn | auto].
  - cbv zeta in Ecs. unfold ex_req_of in Ecs. cbn [ex_q_mid ex_q_tok ex_q_sty] in Ecs.
    inversion Ecs; subst c1 outs. clear Ecs.
    destruct (ex_quiet_inv _ Hq) as [Q1 [Q2 [Q3 Q4]]].
    assert (Hmid0 : 0 <= (ex_c_mid (ex_y_c y) + 1) mod 65536) by (apply Z.mod_pos_bound; lia).
    set (mid := (ex_c_mid (ex_y_c y) + 1) mod 65536) in *. set (tok := ex_c_tok (ex_y_c y) + 1) in *.
    inversion Hs; subst m'.
    assert (Hfresh : ~ In tok (ex_toks m)).
    { intros Hin. apply ex_toks_In in Hin. destruct Hin as [mm Hin].
      apply (cm_tok _ _ C) in Hin. subst tok. lia. }
    assert (CM0 : forall a c0 app0, In a (ex_conmids (Build_ex_sys c0
                     (ex_y_s y) (ex_y_c2s y ++ [ExReq mid tok sty]) (ex_y_s2c y) app0)) -> False).
    { intros a c0 app0 Ha. unfold ex_conmids in Ha. cbn [ex_y_s ex_y_s2c] in Ha.
      rewrite Q2, Q3, Q4 in Ha. destruct Ha. }
    cbn [ex_sent_tok ex_txs ex_sc_of_obs ex_sc_after].
    constructor; cbn [ex_y_c ex_y_s ex_y_c2s ex_y_s2c ex_y_app ex_c_mid ex_c_lack ex_c_lcon ex_c_q
                      ex_m_reqs ex_m_stop].
    + pose proof (lv_smid _ _ _ _ _ L). lia.
    + apply L.
    + intros a Ha. exfalso. eapply CM0. exact Ha.
    + intros mc kc rest E. inversion E; subst. reflexivity.
    + intros k Hk Ha. unfold ex_toks in Hk. cbn in Hk. destruct Hk as [<- | Hk]; [congruence |].
      apply (lv_old _ _ _ _ _ L); [exact Hk | rewrite Happ; discriminate].
    + intros a mc kc rest Ha. rewrite Q2 in Ha. destruct Ha.
    + intros mc kc rest E A. inversion E; subst mc kc rest. clear E.
      unfold ex_unanswered. cbn [ex_y_c ex_y_s ex_y_c2s ex_y_s2c ex_c_lack ex_c_lcon ex_c_q ex_m_stop].
      split; [intros Hk; apply Hfresh; apply (cm_stop _ _ C); exact Hk |].
      split; [rewrite Q1; cbn; constructor; [reflexivity | constructor] |].
      split.
      { destruct (mid =? ex_c_lack (ex_y_c y)) eqn:El; [lia |]. apply Z.eqb_neq in El. congruence. }
      split; [intros a Ha; exfalso; eapply CM0; exact Ha |].
      split; [intros _ Hx; discriminate Hx |].
      split; [intros _ Hx; discriminate Hx |].
      intros _ Hseen. exfalso. apply Hfresh. eapply (lv_seen _ _ _ _ _ L). exact Hseen.
    + intros k E. inversion E; subst. eauto.
    + intros a k Hk. unfold ex_toks. cbn. right. apply (lv_seen _ _ _ _ _ L a k Hk).
Qed.

(* ------------------------------------------------------------------ every action *)
Lemma ex_full_step : forall maxr y m sc lost n a,
  ex_basic y m -> ex_ginv y m sc -> ex_live y m lost sc (n + 1) -> 0 <= n ->
  let cf := ex_cfg_guarded maxr in
  let r := ex_sys_step cf y a in
  exists m', ex_mon_path true m (snd r) m' /\ ex_basic (fst r) m' /\
             ex_ginv (fst r) m' (ex_sc_of_obs (snd r) sc) /\
             ex_live (fst r) m' (lost ++ ex_lost_step cf y a) (ex_sc_of_obs (snd r) sc) n.
Proof.
  intros maxr y m sc lost n a B G L Hn. cbn zeta. set (cf := ex_cfg_guarded maxr).
  pose proof (ex_inv_step maxr y m sc a B G) as H. cbn zeta in H. fold cf in H.
  destruct H as [m' [P [B' G']]].
  exists m'. split; [exact P |]. split; [exact B' |]. split; [exact G' |].
  assert (Same : forall lost', (forall k, In k lost -> In k lost') ->
                 ex_sys_step cf y a = (y, []) -> ex_live (fst (ex_sys_step cf y a)) m' lost'
                                                   (ex_sc_of_obs (snd (ex_sys_step cf y a)) sc) n).
  { intros lost' Hl E. rewrite E in *. cbn [fst snd] in *. apply ex_mon_path_nil_inv in P. subst m'.
    eapply ex_live_weaken; eauto. }
  assert (Inl : forall x, forall k, In k lost -> In k (lost ++ x)).
  { intros x k Hk. apply in_or_app. left. exact Hk. }
  destruct a as [sty | | i ok | i | i | i | i | i | j | j]; cbn [ex_lost_step]; try rewrite app_nil_r.
  - (* send *)
    unfold ex_sys_step in *. destruct (ex_y_app y) eqn:A; [apply Same; auto |].
    cbn [ex_cf_quiet cf ex_cfg_guarded andb] in *.
    destruct (ex_quiet y) eqn:Q; cbn [negb] in *; [| apply Same; auto].
    eapply ex_live_send; eauto.
  - (* timer *)
    unfold ex_sys_step in *. cbn [ex_cf_patient cf ex_cfg_guarded andb] in *.
    destruct (ex_will_nack cf (ex_y_c y) && negb (ex_quiet y)); [apply Same; auto |].
    assert (Esc : forall r, ex_sc_of_obs (snd (ex_sys_client cf y ExTimer r)) sc = sc).
    { intros r. unfold ex_sys_client. destruct (ex_cli_step (ex_cf_maxr cf) (ex_y_c y) ExTimer). reflexivity. }
    rewrite Esc. eapply ex_live_timer; eauto.
  - (* delivery to the client *)
    unfold ex_sys_step in *. destruct (nth_error (ex_y_s2c y) i) as [d |] eqn:E; [| apply Same; auto].
    assert (Esc : forall r, ex_sc_of_obs (snd (ex_sys_client cf y (ExRx d ok) r)) sc = sc).
    { intros r. unfold ex_sys_client. destruct (ex_cli_step (ex_cf_maxr cf) (ex_y_c y) (ExRx d ok)). reflexivity. }
    rewrite Esc. eapply ex_live_rx; eauto.
  - unfold ex_sys_step in *. destruct (nth_error (ex_y_s2c y) i) as [d |] eqn:E; [| apply Same; auto].
    cbn [fst snd ex_sc_of_obs] in *. apply ex_mon_path_nil_inv in P. subst m'.
    rewrite <- (app_nil_r lost). apply ex_live_dupc; auto. eapply nth_error_In. exact E.
  - unfold ex_sys_step in *. cbn [fst snd ex_sc_of_obs] in *. apply ex_mon_path_nil_inv in P. subst m'.
    apply (ex_live_dropc cf); auto.
  - (* delivery to the server *)
    unfold ex_sys_step in *. destruct (nth_error (ex_y_c2s y) i) as [d |] eqn:E; [| apply Same; auto].
    pose proof (ex_live_srvrx cf y m lost sc n i d eq_refl B G L Hn E) as LS. cbn zeta in LS.
    destruct (ex_srv_rx cf (ex_y_s y) d) as [s1 ds]. cbn [fst snd ex_sc_of_obs] in *.
    apply ex_mon_path_nil_inv in P. subst m'. rewrite app_nil_r in LS. exact LS.
  - unfold ex_sys_step in *. destruct (nth_error (ex_y_c2s y) i) as [d |] eqn:E; [| apply Same; auto].
    cbn [fst snd ex_sc_of_obs] in *. apply ex_mon_path_nil_inv in P. subst m'.
    rewrite <- (app_nil_r lost). apply ex_live_net_s; auto.
    intros x Hx. apply ex_In_snoc in Hx. destruct Hx as [Hx | ->]; [exact Hx | eapply nth_error_In; exact E].
  - unfold ex_sys_step in *. cbn [fst snd ex_sc_of_obs] in *. apply ex_mon_path_nil_inv in P. subst m'.
    rewrite <- (app_nil_r lost). apply ex_live_net_s; auto. intros x. apply ex_In_remove_nth.
  - (* async delay over *)
    unfold ex_sys_step in *.
    pose proof (ex_live_fire y m lost sc n j L Hn) as LS. cbn zeta in LS.
    destruct (ex_srv_fire (ex_y_s y) j) as [s1 ds]. cbn [fst snd ex_sc_of_obs] in *.
    apply ex_mon_path_nil_inv in P. subst m'. rewrite app_nil_r in LS. exact LS.
  - (* the server's retransmission timer *)
    unfold ex_sys_step in *.
    pose proof (ex_live_srvtimer cf y m lost sc n j G L Hn) as LS. cbn zeta in LS.
    cbn [ex_lost_step] in LS.
    destruct (ex_srv_timer (ex_cf_maxr cf) (ex_y_s y) j) as [s1 ds]. cbn [fst snd ex_sc_of_obs] in *.
    apply ex_mon_path_nil_inv in P. subst m'. exact LS.
Qed.

Lemma ex_full_run : forall maxr acts y m sc lost,
  ex_basic y m -> ex_ginv y m sc -> ex_live y m lost sc (Z.of_nat (length acts)) ->
  let cf := ex_cfg_guarded maxr in
  let r := ex_sys_run cf y acts in
  exists m' sc', ex_mon_path true m (snd r) m' /\ ex_basic (fst r) m' /\
                 ex_live (fst r) m' (lost ++ ex_lost_run cf y acts) sc' 0.
Proof.
  intros maxr acts. induction acts as [| a acts IH]; intros y m sc lost B G L; cbn zeta.
  - exists m, sc. cbn. rewrite app_nil_r. split; [constructor | split; assumption].
  - cbn [ex_sys_run ex_lost_run].
    replace (Z.of_nat (length (a :: acts))) with (Z.of_nat (length acts) + 1) in L
      by (cbn [length]; lia).
    pose proof (ex_full_step maxr y m sc lost (Z.of_nat (length acts)) a B G L (Nat2Z.is_nonneg _)) as H.
    cbn zeta in H.
    destruct (ex_sys_step (ex_cfg_guarded maxr) y a) as [y1 o] eqn:Es. cbn [fst snd] in H.
    destruct H as [m1 [P1 [B1 [G1 L1]]]].
    pose proof (IH y1 m1 _ _ B1 G1 L1) as H2. cbn zeta in H2.
    destruct (ex_sys_run (ex_cfg_guarded maxr) y1 acts) as [y2 t]. cbn [fst snd] in *.
    destruct H2 as [m2 [sc2 [P2 [B2 L2]]]].
    exists m2, sc2. split; [eapply ex_mon_path_snoc; eassumption |]. split; [exact B2 |].
    rewrite app_assoc. exact L2.
Qed.

(* Liveness, for every schedule of the guarded system *)
Theorem ex_system_live : forall maxr cmid0 smid0 acts,
  0 <= smid0 -> smid0 + Z.of_nat (length acts) < 65536 ->
  let cf := ex_cfg_guarded maxr in
  let y0 := ex_sys_init cmid0 smid0 in
  let r := ex_sys_run cf y0 acts in
  ex_at_rest (fst r) = true ->
  forall mid k, ex_sent_req mid k (snd r) ->
    ex_answered k (snd r) \/ In k (ex_lost_run cf y0 acts).
Proof.
  intros maxr cmid0 smid0 acts H2 H4. cbn zeta. intros Hrest mid k Hsent.
  pose proof (ex_full_run maxr acts _ _ 0 [] (ex_basic_init cmid0 smid0) I
                          (ex_live_init cmid0 smid0 _ H2 H4)) as H. cbn zeta in H.
  destruct (ex_sys_run (ex_cfg_guarded maxr) (ex_sys_init cmid0 smid0) acts) as [y t] eqn:Er.
  cbn [fst snd app] in *. destruct H as [m' [sc' [P [B L]]]].
  pose proof (ex_path_reqs_sent _ _ _ _ _ _ P Hsent) as Hreq.
  pose proof (ex_tok_in_toks _ _ _ Hreq) as Htok.
  assert (Ans : In k (ex_m_stop m') -> ex_answered k t).
  { intros Hk. destruct (ex_path_stop_answered _ _ _ _ _ P Hk) as [H0 | H]; [cbn in H0; destruct H0 | exact H]. }
  unfold ex_at_rest in Hrest. apply andb_true_iff in Hrest. destruct Hrest as [Hq Hcq].
  destruct (ex_quiet_inv _ Hq) as [Q1 [Q2 [Q3 Q4]]].
  destruct (ex_y_app y) as [ka |] eqn:A.
  - destruct (Z.eq_dec k ka) as [-> | Hne].
    + right. destruct (lv_app _ _ _ _ _ L ka A) as [mc [rest E]].
      destruct (lv_un _ _ _ _ _ L mc ka rest E A) as [U1 [U2 [U3 [U4 [U5 [U6 U7]]]]]].
      assert (Qn : ex_c_q (ex_y_c y) = None).
      { destruct (ex_c_q (ex_y_c y)); [discriminate Hcq | reflexivity]. }
      destruct (Z.eq_dec sc' 0) as [E0 | E0]; [exfalso; apply (U5 E0 Qn) |].
      destruct (ex_seen_dec mc ka (ex_s_seen (ex_y_s y))) as [Hs | Hs]; [| exfalso; apply (U6 Hs Qn)].
      destruct (U7 E0 Hs) as [Hx | [Hx | [[a [k' Hx]] | Hx]]].
      * rewrite Q3 in Hx. contradiction.
      * rewrite Q4 in Hx. contradiction.
      * rewrite Q2 in Hx. destruct Hx.
      * exact Hx.
    + left. apply Ans. apply (lv_old _ _ _ _ _ L); [exact Htok | rewrite A; congruence].
  - left. apply Ans. apply (lv_old _ _ _ _ _ L); [exact Htok | rewrite A; discriminate].
Qed.

(* exactly once: with nothing irrecoverably lost *)
Theorem ex_system_exactly_once : forall maxr cmid0 smid0 acts,
  0 <= smid0 -> smid0 + Z.of_nat (length acts) < 65536 ->
  let cf := ex_cfg_guarded maxr in
  let y0 := ex_sys_init cmid0 smid0 in
  let r := ex_sys_run cf y0 acts in
  ex_at_rest (fst r) = true -> ex_lost_run cf y0 acts = [] ->
  forall mid k, ex_sent_req mid k (snd r) ->
    ex_answered k (snd r) /\ (ex_concl_count k (snd r) <= 1)%nat.
Proof.
  intros maxr cmid0 smid0 acts H2 H4. cbn zeta. intros Hr Hl mid k Hs. split.
  - destruct (ex_system_live maxr cmid0 smid0 acts H2 H4 Hr mid k Hs) as [H | H]; [exact H |].
    rewrite Hl in H. destruct H.
  - apply (ex_system_safe maxr cmid0 smid0 acts).
Qed.

(* the fairness hypothesis is needed *)
Lemma ex_live_needs_fairness :
  exists acts,
    let r := ex_sys_run (ex_cfg_guarded 4) (ex_sys_init 100 7000) acts in
    ex_at_rest (fst r) = true /\ ex_sent_req 101 1 (snd r) /\
    ex_lost_run (ex_cfg_guarded 4) (ex_sys_init 100 7000) acts = [1] /\
    forall o out, In o (snd r) -> In out (snd o) -> ex_out_ends 1 out = false.
Proof.
  exists [ExASend 2; ExADelS 0; ExADropC 0; ExADelC 0 true].
  vm_compute. split; [reflexivity |]. split; [exists 2; left; reflexivity |]. split; [reflexivity |].
  intros o out [<- | [<- | []]] Hin; cbn in Hin;
    repeat (destruct Hin as [<- | Hin]; [reflexivity |]); destruct Hin.
Qed.

(* C07 - the client side of a CoAP exchange over an unreliable transport.

   Transcribed from src/coap_net.c:
     coap_send_internal / coap_wait_ack      a Confirmable request enters the send queue; a mid
                                             that wrapped onto last_ack_mid invalidates it
     coap_retransmit                         retransmit_cnt < max_retransmit: send again, else
                                             remove + coap_handle_nack(TOO_MANY_RETRIES)
     coap_dispatch                           ACK: coap_remove_from_queue by mid, an empty ACK
                                             needs no further handling;
                                             RST: remove by mid, NACK(RST) (with sent = NULL
                                             when nothing matched);
                                             NON: the look-up by the received mid never matches
                                             a queued Confirmable (fix of C07-F4), then
                                             handle_response with sent = NULL;
                                             CON: handle_response with sent = NULL
     handle_response                         coap_cancel_all_messages by token unless ACK;
                                             duplicate filter on last_con_mid / last_ack_mid;
                                             handler; RST when the verdict is FAIL and the
                                             message is not an ACK, otherwise coap_send_ack
                                             (which sends only for a CON); the verdict is
                                             remembered in last_con_handler_res (also for ACK
                                             and NON messages)
     coap_send_ack_lkd / coap_send_rst_lkd   empty ACK only for CON; RST for any type
   and src/coap_session.c: coap_make_session (last_*_mid = COAP_INVALID_MID, result OK),
   coap_new_message_id (++tx_mid, 16 bit), coap_session_new_token (++tx_token).

   One request is in the send queue at a time ("one exchange outstanding per session"): a
   send while the queue is not empty is outside the model (the drivers skip it, [ExSkip]).
   Definitions only.  All global names carry the prefix ex_ / Ex. *)
From Coq Require Import ZArith List Bool.
Import ListNotations.
Local Open Scope Z_scope.

(* ------------------------------------------------------------------ datagrams *)
Inductive ex_dg :=
| ExReq (mid tok sty : Z)     (* Confirmable request; sty = response style asked of the server *)
| ExAckE (mid : Z)            (* empty Acknowledgement *)
| ExAckR (mid tok : Z)        (* piggybacked response *)
| ExConR (mid tok : Z)        (* separate Confirmable response *)
| ExNonR (mid tok : Z)        (* Non-confirmable response *)
| ExRst (mid : Z).            (* Reset *)

(* inputs of the client: the application sends, the retransmission timer of the queued
   request fires, a datagram arrives ([ok] = what the response handler returns if called) *)
Inductive ex_cin :=
| ExSend (sty : Z)
| ExTimer
| ExRx (d : ex_dg) (ok : bool).

(* what the client does in answer: datagrams handed to the socket and application callbacks.
   ExResp kind mid tok stok: response handler called for a message of type kind
   (0 CON, 1 NON, 2 ACK) with this mid and token; stok = token of the [sent] argument, -1 when
   it is NULL.  ExNack tok reason mid: nack handler for the queued request (reason as in
   coap_nack_reason_t: 0 TOO_MANY_RETRIES, 2 RST); ExNackNull: nack handler with sent = NULL. *)
Inductive ex_out :=
| ExTx (d : ex_dg)
| ExResp (kind mid tok stok : Z)
| ExNack (tok reason mid : Z)
| ExNackNull (reason mid : Z)
| ExSkip.

Record ex_qent := { ex_q_mid : Z; ex_q_tok : Z; ex_q_sty : Z; ex_q_cnt : Z }.

Record ex_cli := {
  ex_c_q : option ex_qent;   (* context->sendqueue restricted to the session *)
  ex_c_lcon : Z;             (* session->last_con_mid *)
  ex_c_lack : Z;             (* session->last_ack_mid *)
  ex_c_lres : bool;          (* session->last_con_handler_res == COAP_RESPONSE_OK *)
  ex_c_mid : Z;              (* session->tx_mid *)
  ex_c_tok : Z               (* session->tx_token *)
}.

Definition ex_cli_init (mid0 tok0 : Z) : ex_cli :=
  Build_ex_cli None (-1) (-1) true mid0 tok0.

Definition ex_set_q (c : ex_cli) (q : option ex_qent) : ex_cli :=
  Build_ex_cli q (ex_c_lcon c) (ex_c_lack c) (ex_c_lres c) (ex_c_mid c) (ex_c_tok c).

(* coap_remove_from_queue(&context->sendqueue, session, mid, &sent) *)
Definition ex_remove_mid (c : ex_cli) (mid : Z) : ex_cli * option ex_qent :=
  match ex_c_q c with
  | Some q => if ex_q_mid q =? mid then (ex_set_q c None, Some q) else (c, None)
  | None => (c, None)
  end.

(* coap_cancel_all_messages(context, session, token) *)
Definition ex_cancel_tok (c : ex_cli) (tok : Z) : ex_cli :=
  match ex_c_q c with
  | Some q => if ex_q_tok q =? tok then ex_set_q c None else c
  | None => c
  end.

Definition ex_stok (s : option ex_qent) : Z :=
  match s with Some q => ex_q_tok q | None => -1 end.

Definition ex_req_of (q : ex_qent) : ex_dg := ExReq (ex_q_mid q) (ex_q_tok q) (ex_q_sty q).

(* the handler call and what follows it (src/coap_net.c:3733-3752); ty = message type *)
Definition ex_deliver (c : ex_cli) (ty mid tok : Z) (sent : option ex_qent) (ok : bool)
  : ex_cli * list ex_out :=
  let r := ExResp ty mid tok (ex_stok sent) in
  if negb ok && negb (ty =? 2) then
    (Build_ex_cli (ex_c_q c) (ex_c_lcon c) (ex_c_lack c) false (ex_c_mid c) (ex_c_tok c),
     [r; ExTx (ExRst mid)])
  else
    (Build_ex_cli (ex_c_q c) (ex_c_lcon c) (ex_c_lack c) true (ex_c_mid c) (ex_c_tok c),
     if ty =? 0 then [r; ExTx (ExAckE mid)] else [r]).

Definition ex_cli_step (maxr : Z) (c : ex_cli) (i : ex_cin) : ex_cli * list ex_out :=
  match i with
  | ExSend sty =>
      match ex_c_q c with
      | Some _ => (c, [ExSkip])
      | None =>
          let m := (ex_c_mid c + 1) mod 65536 in
          let k := ex_c_tok c + 1 in
          let q := Build_ex_qent m k sty 0 in
          (* coap_wait_ack: a new Confirmable whose mid wrapped onto last_ack_mid invalidates
             that memory (fix of finding C07-F5) *)
          (Build_ex_cli (Some q) (ex_c_lcon c) (if m =? ex_c_lack c then -1 else ex_c_lack c)
                        (ex_c_lres c) m k,
           [ExTx (ex_req_of q)])
      end
  | ExTimer =>
      match ex_c_q c with
      | None => (c, [])
      | Some q =>
          if ex_q_cnt q <? maxr then
            (ex_set_q c (Some (Build_ex_qent (ex_q_mid q) (ex_q_tok q) (ex_q_sty q)
                                             (ex_q_cnt q + 1))),
             [ExTx (ex_req_of q)])
          else (ex_set_q c None, [ExNack (ex_q_tok q) 0 (ex_q_mid q)])
      end
  | ExRx (ExAckE mid) _ =>
      (* an empty ACK for the queued request: the request leaves the queue; coap_dispatch sets
         up a lg_crcv for the separate response, which draws a token number
         (coap_block_new_lg_crcv: ++session->tx_token) *)
      let (c1, sent) := ex_remove_mid c mid in
      match sent with
      | Some _ => (Build_ex_cli (ex_c_q c1) (ex_c_lcon c1) (ex_c_lack c1) (ex_c_lres c1)
                                (ex_c_mid c1) (ex_c_tok c1 + 1), [])
      | None => (c1, [])
      end
  | ExRx (ExAckR mid tok) ok =>
      let (c1, sent) := ex_remove_mid c mid in
      if mid =? ex_c_lack c1 then (c1, [])
      else
        let c2 := Build_ex_cli (ex_c_q c1) (ex_c_lcon c1) mid (ex_c_lres c1) (ex_c_mid c1)
                               (ex_c_tok c1) in
        ex_deliver c2 2 mid tok sent ok
  | ExRx (ExConR mid tok) ok =>
      let c1 := ex_cancel_tok c tok in
      if mid =? ex_c_lcon c1 then
        (c1, [ExTx (if ex_c_lres c1 then ExAckE mid else ExRst mid)])
      else
        let c2 := Build_ex_cli (ex_c_q c1) mid (ex_c_lack c1) (ex_c_lres c1) (ex_c_mid c1)
                               (ex_c_tok c1) in
        ex_deliver c2 0 mid tok None ok
  | ExRx (ExNonR mid tok) ok =>
      (* the NON branch looks the received mid up in the send queue but never matches a
         Confirmable (after the fix of finding C07-F4), so [sent] is NULL here *)
      ex_deliver (ex_cancel_tok c tok) 1 mid tok None ok
  | ExRx (ExRst mid) _ =>
      let (c1, sent) := ex_remove_mid c mid in
      match sent with
      | Some q => (c1, [ExNack (ex_q_tok q) 2 (ex_q_mid q)])
      | None => (c1, [ExNackNull 2 mid])
      end
  | ExRx (ExReq _ _ _) _ => (c, [ExSkip])   (* requests to the client: outside the model *)
  end.

(* an observed step: the input and what it caused, in order *)
Definition ex_obs : Type := (ex_cin * list ex_out)%type.

Fixpoint ex_cli_run (maxr : Z) (c : ex_cli) (ins : list ex_cin) : ex_cli * list ex_obs :=
  match ins with
  | [] => (c, [])
  | i :: tl =>
      let (c1, o) := ex_cli_step maxr c i in
      let (c2, t) := ex_cli_run maxr c1 tl in
      (c2, (i, o) :: t)
  end.

(* C16 - URI text and CoAP options convert both ways without loss, confusion or overread.
   Statements only; the proofs live in Uri/*Proofs.v.
   Model: Uri/Uri.v (path, query, optlist, reconstruction), Uri/Split.v (coap_split_uri), both
   with checked reads ([UOob] = a byte outside the length-delimited input was read).
   Spec:  Uri/Spec.v (RFC 3986 2.1 / 3 / 5.2.4, RFC 7252 6.4 / 6.5). *)
From LibcoapV Require Import Base.Tactics Base.Bytes Wire.OptCodec Uri.Uri Uri.Split Uri.Spec
  Uri.DotsProofs Uri.SegProofs Uri.PathProofs Uri.RebuildProofs Uri.SplitProofs Uri.Into
  Uri.IntoProofs Uri.BufProofs Uri.RfcProofs Wire.OptCodec.
Local Open Scope Z_scope.

(* ------------------------------------------------------------------ no overread, every input *)

(* coap_split_path, for every byte string and every output buffer size: never reads outside the
   input ([UOk]), writes [used] <= buflen bytes = the options returned, and every option is a
   well-formed raw segment of the input decoded once, of a length an option header can carry,
   that is neither "." nor ".." *)
Theorem C16_no_overread_split_path : forall s buflen,
  0 <= buflen -> uri_buf_safe true (uri_raw_path_segs s) buflen (uri_split_path s buflen).
Proof. exact uri_split_path_safe. Qed.
Print Assumptions C16_no_overread_split_path.

Theorem C16_no_overread_split_query : forall s buflen,
  0 <= buflen -> uri_buf_safe false (uri_raw_query_items s) buflen (uri_split_query s buflen).
Proof. exact uri_split_query_safe. Qed.
Print Assumptions C16_no_overread_split_query.

(* coap_path_into_optlist, every byte string (malformed escapes included) and every chain: no
   overread, the options that were in the chain stay where they were, and no value added is
   "." or ".." *)
Theorem C16_no_overread_path_optlist : forall s optnum pre,
  exists added, uri_path_into_optlist s optnum pre = UOk (pre ++ uri_tag optnum added) /\
                Forall (fun v => uri_kind v = 0) added.
Proof. exact uri_path_into_optlist_safe. Qed.
Print Assumptions C16_no_overread_path_optlist.

Theorem C16_no_overread_query_optlist : forall s optnum pre,
  exists added, uri_query_into_optlist s optnum pre = UOk (pre ++ uri_tag optnum added).
Proof. exact uri_query_into_optlist_safe. Qed.
Print Assumptions C16_no_overread_query_optlist.

(* coap_split_uri / coap_split_proxy_uri never read outside the input, and the parts returned
   lie inside it *)
Theorem C16_no_overread_split_uri : forall caps proxy s,
  uri_split caps proxy s <> UOob.
Proof. exact uri_split_no_oob. Qed.
Print Assumptions C16_no_overread_split_uri.

(* non-vacuity of the non-dot clause: dots() itself, on every byte string, is the table below *)
Theorem C16_dots_table : forall seg rest,
  uri_dots (seg ++ rest) (len seg) = UOk (uri_dotkind_raw seg).
Proof. exact uri_dots_table. Qed.
Print Assumptions C16_dots_table.

(* ------------------------------------------------------------------ path -> options *)

(* for every path whose escapes are well-formed and every buffer that is large enough: the
   options are exactly split-on-'/', decode ONCE, resolve dot segments - both APIs *)
Theorem C16_path_options : forall s buflen opts,
  uri_spec_path s = Some opts -> uri_path_need s <= buflen ->
  uri_split_path s buflen = UOk (uri_encs opts, uri_sumlen (uri_encs opts)).
Proof. exact uri_split_path_spec. Qed.
Print Assumptions C16_path_options.

Theorem C16_path_options_optlist : forall s optnum pre opts,
  uri_spec_path s = Some opts ->
  uri_path_into_optlist s optnum pre = UOk (pre ++ uri_tag optnum opts).
Proof. exact uri_path_into_optlist_spec. Qed.
Print Assumptions C16_path_options_optlist.

(* decoded exactly once: "%2541" is the segment "%41" (not "A"), "%252e" is "%2e" (not a dot
   segment) - the spec side computed, the code side by the theorem above *)
Theorem C16_decode_once :
  uri_spec_path [37;50;53;52;49] = Some [[37;52;49]] /\
  uri_spec_path [97;47;37;50;53;50;101;47;98] = Some [[97]; [37;50;101]; [98]] /\
  uri_split_path [37;50;53;52;49] 64 = UOk ([[3;37;52;49]], 4).
Proof. repeat split; reflexivity. Qed.
Print Assumptions C16_decode_once.

(* relation to RFC 3986 5.2.4 taken literally: identical unless the LAST segment is a dot
   segment; then the RFC has one more, empty, segment *)
Theorem C16_path_rfc_agrees : forall ds,
  uri_ends_in_dot ds = false -> uri_rfc_resolve ds [] = uri_resolve ds [].
Proof. exact uri_rfc_resolve_same. Qed.
Print Assumptions C16_path_rfc_agrees.

Theorem C16_path_rfc_trailing_dot : forall ds,
  uri_ends_in_dot ds = true -> uri_rfc_resolve ds [] = [] :: uri_resolve ds [].
Proof. exact uri_rfc_resolve_trailing. Qed.
Print Assumptions C16_path_rfc_trailing_dot.

(* [uri_rfc_resolve] is RFC 3986 5.2.4: the algorithm transcribed literally on strings (input
   buffer / output buffer, rules 2A-2E) run on "/" ++ path equals the rendering of the resolved
   raw segments, for every byte string *)
Theorem C16_rfc3986_remove_dot_segments : forall p,
  uri_rfc_remove_dot_segments (47 :: p) =
  uri_render (rev (uri_rfc_resolve (uri_split_on uri_path_sep p) [])).
Proof. exact uri_rfc_remove_dot_segments_path. Qed.
Print Assumptions C16_rfc3986_remove_dot_segments.

(* the two examples of RFC 3986 5.2.4: "/a/b/c/./../../g" -> "/a/g", "mid/content=5/../6" -> "mid/6" *)
Theorem C16_rfc3986_examples :
  uri_rfc_remove_dot_segments [47;97;47;98;47;99;47;46;47;46;46;47;46;46;47;103] = [47;97;47;103] /\
  uri_rfc_remove_dot_segments [109;105;100;47;99;111;110;116;101;110;116;61;53;47;46;46;47;54]
    = [109;105;100;47;54].
Proof. split; reflexivity. Qed.
Print Assumptions C16_rfc3986_examples.

(* full statement "forall s, uri_spec_path s = uri_rfc_path s" does not hold (known finding
   F16-6, pinned by the unit tests t_parse_uri29/30): *)
Theorem C16_path_rfc_trailing_dot_refuted :
  exists s, uri_spec_path s <> uri_rfc_path s /\
            uri_split_path s 64 = UOk ([[1; 97]], 2) /\ uri_rfc_path s = Some [[97]; []].
Proof. exists [97; 47; 46]. split; [vm_compute; discriminate|split; reflexivity]. Qed.
Print Assumptions C16_path_rfc_trailing_dot_refuted.

(* what is in the buffer reads back, with coap_opt_parse's model (Wire/OptCodec.v), as exactly the
   list of values: the buffer determines the options *)
Theorem C16_buffer_parses : forall l fuel,
  Forall (fun v => len v <= 65804) l -> (length l <= fuel)%nat ->
  opts_parse fuel 0 (concat (uri_encs l)) = Some (map (fun v => (0, v)) l, []).
Proof. exact uri_buffer_parses. Qed.
Print Assumptions C16_buffer_parses.

Theorem C16_buffer_injective : forall l1 l2,
  Forall (fun v => len v <= 65804) l1 -> Forall (fun v => len v <= 65804) l2 ->
  concat (uri_encs l1) = concat (uri_encs l2) -> l1 = l2.
Proof. exact uri_buffer_injective. Qed.
Print Assumptions C16_buffer_injective.

(* every result of coap_split_path / coap_split_query, for any input and any buffer size, is n
   options the parser reads back from exactly the [used] bytes written *)
Theorem C16_output_parses_path : forall s buflen,
  0 <= buflen ->
  exists vals used,
    uri_split_path s buflen = UOk (uri_encs vals, used) /\ 0 <= used <= buflen /\
    used = len (concat (uri_encs vals)) /\
    Forall (fun v => uri_kind v = 0) vals /\
    opts_parse (S (length vals)) 0 (concat (uri_encs vals)) = Some (map (fun v => (0, v)) vals, []).
Proof. exact uri_split_path_parses. Qed.
Print Assumptions C16_output_parses_path.

Theorem C16_output_parses_query : forall s buflen,
  0 <= buflen ->
  exists vals used,
    uri_split_query s buflen = UOk (uri_encs vals, used) /\ 0 <= used <= buflen /\
    used = len (concat (uri_encs vals)) /\
    opts_parse (S (length vals)) 0 (concat (uri_encs vals)) = Some (map (fun v => (0, v)) vals, []).
Proof. exact uri_split_query_parses. Qed.
Print Assumptions C16_output_parses_query.

(* the representability bound, explicitly: uri_OPT_MAX = 65804 = 269 + 65535.  A well-formed
   segment / item that decodes to more than 65804 bytes is refused by write_option
   (make_decoded_option returns -1, nothing is written, whatever the buffer size); one of at
   most 65804 bytes is written as exactly opt_enc 0 v when header + value fit.  65805 is the
   first length whose 16-bit extended field would wrap (to that of 269). *)
Theorem C16_option_length_bound : forall seg rest v st,
  uri_pct_decode seg = Some v ->
  (65804 < len v -> uri_write_opt uri_K (seg ++ rest) (len seg) st = UOk st) /\
  (len v <= 65804 -> len (opt_enc 0 v) <= uw_rem st ->
   uri_write_opt uri_K (seg ++ rest) (len seg) st =
   UOk {| uw_ropts := opt_enc 0 v :: uw_ropts st; uw_rem := uw_rem st - len (opt_enc 0 v) |}).
Proof. exact uri_write_opt_length_bound. Qed.
Print Assumptions C16_option_length_bound.

Theorem C16_option_length_bound_value :
  (uri_OPT_MAX = 269 + 65535 /\ uri_OPT_MAX = 65804) /\
  (opt_hdr 0 65805 = opt_hdr 0 269 /\ opt_hdr 0 65804 = [14; 255; 255]).
Proof. exact (conj uri_OPT_MAX_is uri_opt_hdr_wraps_above_max). Qed.
Print Assumptions C16_option_length_bound_value.

(* ------------------------------------------------------------------ query -> options *)
Theorem C16_query_options : forall s buflen opts,
  uri_spec_query s = Some opts -> uri_query_need s <= buflen ->
  uri_split_query s buflen = UOk (uri_encs opts, uri_sumlen (uri_encs opts)).
Proof. exact uri_split_query_spec. Qed.
Print Assumptions C16_query_options.

Theorem C16_query_options_optlist : forall s optnum pre opts,
  uri_spec_query s = Some opts ->
  uri_query_into_optlist s optnum pre = UOk (pre ++ uri_tag optnum opts).
Proof. exact uri_query_into_optlist_spec. Qed.
Print Assumptions C16_query_options_optlist.

(* ------------------------------------------------------------------ options -> string *)

(* different segment lists never give the same string, a single empty segment counting as none;
   over the full byte alphabet *)
Theorem C16_rebuild_injective_path : forall l1 l2,
  Forall wfb l1 -> Forall wfb l2 -> uri_get_path l1 = uri_get_path l2 -> uri_norm l1 = uri_norm l2.
Proof. exact uri_get_path_injective. Qed.
Print Assumptions C16_rebuild_injective_path.

Theorem C16_rebuild_injective_query : forall l1 l2,
  Forall wfb l1 -> Forall wfb l2 -> uri_get_query l1 = uri_get_query l2 -> uri_norm l1 = uri_norm l2.
Proof. exact uri_get_query_injective. Qed.
Print Assumptions C16_rebuild_injective_query.

(* the string feeds back to the same options (for lists without the "." / ".." values that
   RFC 7252 5.10.1 forbids in Uri-Path; uri_fits: values an option can carry at all, <= 65804) *)
Theorem C16_rebuild_feeds_back_path : forall l buflen,
  Forall wfb l -> uri_fits l = true -> uri_no_dots l -> uri_path_need (uri_get_path l) <= buflen ->
  uri_path_to_opts (uri_get_path l) buflen = UOk (uri_encs (uri_norm l)).
Proof. exact uri_get_path_feeds_back. Qed.
Print Assumptions C16_rebuild_feeds_back_path.

Theorem C16_rebuild_feeds_back_query : forall l buflen,
  Forall wfb l -> uri_fits l = true -> uri_query_need (uri_get_query l) <= buflen ->
  uri_query_to_opts (uri_get_query l) buflen = UOk (uri_encs (uri_norm l)).
Proof. exact uri_get_query_feeds_back. Qed.
Print Assumptions C16_rebuild_feeds_back_query.

(* the length computed in the first pass of coap_get_uri_path / coap_get_query is the number of
   bytes the second pass writes *)
Theorem C16_rebuild_length : forall l,
  uri_join_len uri_unesc_path l = len (uri_get_path l) /\
  uri_join_len uri_unesc_query l = len (uri_get_query l).
Proof. exact uri_rebuild_length. Qed.
Print Assumptions C16_rebuild_length.

(* non-vacuity: a list with '/', '%', '&', '?', '#', an empty and a 0xff segment *)
Theorem C16_rebuild_example :
  let l := [[47; 37]; []; [38; 63; 35]; [255]] in
  Forall wfb l /\ uri_no_dots l /\
  uri_path_to_opts (uri_get_path l) 64 = UOk (uri_encs l) /\
  uri_query_to_opts (uri_get_query l) 64 = UOk (uri_encs l).
Proof.
  cbv zeta. split; [|split; [|split; reflexivity]].
  - repeat constructor; unfold is_byte; lia.
  - intros d [<-|[<-|[<-|[<-|[]]]]]; split; reflexivity.
Qed.
Print Assumptions C16_rebuild_example.

(* ------------------------------------------------------------------ coap_split_uri *)

(* accepts exactly the strings of the grammar and returns their parts: scheme table and build
   capabilities, host incl. IPv6 literal and Unix-domain names, port incl. default ports and the
   65535 limit, path, query *)
Theorem C16_split_agrees : forall caps proxy s parts,
  uri_split caps proxy s = UOk (USplit parts) <-> uri_grammar caps proxy s parts.
Proof. exact uri_split_iff_grammar. Qed.
Print Assumptions C16_split_agrees.

(* non-vacuity / the cases of DESIGN.md section 7 #12 *)
Theorem C16_split_examples :
  let caps := {| ucap_dtls := true; ucap_tcp := true; ucap_tls := true; ucap_ws := true;
                 ucap_wss := true |} in
  (* coap://h?q *)
  uri_split caps false [99;111;97;112;58;47;47;104;63;113] =
    UOk (USplit {| up_scheme := 0; up_host := [104]; up_port := 5683; up_path := [];
                   up_query := [113] |}) /\
  (* coaps://[::1]:65535/a *)
  uri_split caps false [99;111;97;112;115;58;47;47;91;58;58;49;93;58;54;53;53;51;53;47;97] =
    UOk (USplit {| up_scheme := 1; up_host := [58;58;49]; up_port := 65535; up_path := [97];
                   up_query := [] |}) /\
  (* coap://h:65536 *)
  uri_split caps false [99;111;97;112;58;47;47;104;58;54;53;53;51;54] = UOk (UErr (-4)) /\
  (* http://h is for Proxy-Uri only *)
  uri_split caps false [104;116;116;112;58;47;47;104] = UOk (UErr (-1)) /\
  uri_split caps true [104;116;116;112;58;47;47;104] =
    UOk (USplit {| up_scheme := 4; up_host := [104]; up_port := 80; up_path := [];
                   up_query := [] |}).
Proof. cbv zeta. repeat split; reflexivity. Qed.
Print Assumptions C16_split_examples.

(* ------------------------------------------------------------------ URI -> options, end to end *)

(* coap_uri_into_optlist on a split URI (RFC 7252 6.4 steps 5-9): whatever was in the chain,
   then the Uri-Host / Uri-Port decision, then the specified Uri-Path and Uri-Query values *)
Theorem C16_uri_into_optlist : forall u dst create chain po qo,
  uri_spec_path_opts (up_path u) = Some po -> uri_spec_query_opts (up_query u) = Some qo ->
  uri_into_optlist u dst create chain =
  UOk (chain ++ uri_hostport_opts u dst create ++ uri_tag 11 po ++ uri_tag 15 qo).
Proof. exact uri_into_optlist_spec. Qed.
Print Assumptions C16_uri_into_optlist.

(* ... and for every split URI, malformed escapes included: no overread, chain and host/port
   decision untouched by ".." segments, no "." / ".." among the Uri-Path values *)
Theorem C16_uri_into_optlist_safe : forall u dst create chain,
  exists pa qa,
    uri_into_optlist u dst create chain =
    UOk (chain ++ uri_hostport_opts u dst create ++ uri_tag 11 pa ++ uri_tag 15 qa) /\
    Forall (fun v => uri_kind v = 0) pa.
Proof. exact uri_into_optlist_safe. Qed.
Print Assumptions C16_uri_into_optlist_safe.

(* the two steps composed: a string of the grammar yields exactly these options, a string
   outside the grammar yields none *)
Theorem C16_uri_to_options : forall caps s u dst create chain po qo,
  uri_grammar caps false s u ->
  uri_spec_path_opts (up_path u) = Some po -> uri_spec_query_opts (up_query u) = Some qo ->
  uri_to_options caps s dst create chain =
  UOk (Some (chain ++ uri_hostport_opts u dst create ++ uri_tag 11 po ++ uri_tag 15 qo)).
Proof. exact uri_to_options_spec. Qed.
Print Assumptions C16_uri_to_options.

Theorem C16_uri_to_options_reject : forall caps s dst create chain,
  (forall u, ~ uri_grammar caps false s u) -> uri_to_options caps s dst create chain = UOk None.
Proof. exact uri_to_options_reject. Qed.
Print Assumptions C16_uri_to_options_reject.

(* coap_host_is_unix_domain (called by coap_uri_into_optlist on the length-delimited host) reads
   only the host->length bytes of the host, for every host; with the guard "length >= 2" the
   host "%2" would be read one byte past its end *)
Theorem C16_host_is_unix_no_overread : forall h,
  uri_host_is_unix_chk uri_UNIX_K h = UOk (uri_host_is_unix h).
Proof. exact uri_host_is_unix_chk_ok. Qed.
Print Assumptions C16_host_is_unix_no_overread.

Theorem C16_host_is_unix_k2_overreads : uri_host_is_unix_chk 2 [37; 50] = UOob.
Proof. exact uri_host_is_unix_k2_overreads. Qed.
Print Assumptions C16_host_is_unix_k2_overreads.

(* coap_address_set_unix_domain (src/coap_address.c, reached with the host of a split URI): reads
   only the host_len bytes of the host, for every host, and sun_path is the host with exactly the
   complete "%2F"/"%2f" escapes turned into '/', cut at COAP_UNIX_PATH_MAX - 1 and at a NUL *)
Theorem C16_unix_path_no_overread : forall pmax host,
  uri_unix_path pmax host =
  UOk (uri_upto (fun c => c =? 0) (take (pmax - 1) (uri_unix_pure host))).
Proof. exact uri_unix_path_ok. Qed.
Print Assumptions C16_unix_path_no_overread.

(* a guard that lets two remaining bytes pass reads past a host ending in "%2" *)
Theorem C16_unix_path_k2_overreads : uri_unix_path_k 2 26 [37; 50; 70; 120; 37; 50] = UOob.
Proof. exact uri_unix_path_k2_overreads. Qed.
Print Assumptions C16_unix_path_k2_overreads.

(* the port coap_split_uri fills in when the URI has none is the one that needs no Uri-Port *)
Theorem C16_default_port_no_option : forall name dport ponly sch,
  In (name, dport, ponly, sch) uri_schemes -> uri_scheme_default_port sch = dport.
Proof. exact uri_default_port_no_option. Qed.
Print Assumptions C16_default_port_no_option.

(* ------------------------------------------------------------------ what was repaired *)
(* The faithful model of the code as it was violates the statements above; the witnesses were
   replayed on the implementation (corpus/C16/fixed.case) and the code was repaired. *)

(* #10: check_segment tested "length < 2": overread on a segment ending in "%X" *)
Theorem C16_check_segment_k2_overreads :
  uri_check_seg 2 [37; 97] 2 0 = UOob /\ uri_check_seg 2 [37; 97; 98; 120; 121] 2 0 = UOob.
Proof. split; [exact uri_check_seg_k2_overreads|exact uri_check_seg_k2_underflow]. Qed.
Print Assumptions C16_check_segment_k2_overreads.

(* #11: '&' left unescaped inside a query item: reconstruction not injective *)
Theorem C16_query_old_not_injective :
  uri_get_query_g uri_unesc_query_old [[97; 38; 98]] = uri_get_query_g uri_unesc_query_old [[97]; [98]]
  /\ uri_norm [[97; 38; 98]] <> uri_norm [[97]; [98]].
Proof. exact uri_get_query_old_not_injective. Qed.
Print Assumptions C16_query_old_not_injective.

(* ".." deleted options that were in the chain before the call (all but the first) *)
Theorem C16_optlist_old_loses_option :
  uri_path_into_optlist_g true (@uri_start_first_only opt) [46; 46; 47; 97] 11
                          [(3, [104]); (7, [112])] = UOk [(3, [104]); (11, [97])].
Proof. exact uri_optlist_old_start_loses_option. Qed.
Print Assumptions C16_optlist_old_loses_option.

(* coap_replace_percents without hex validation emitted "." for "%2." *)
Theorem C16_replace_percents_unchecked_emits_dot :
  uri_replace_pct_g false [37; 50; 46] = [46] /\ uri_dots_p [37; 50; 46] = 0.
Proof. exact uri_replace_pct_unchecked_dot. Qed.
Print Assumptions C16_replace_percents_unchecked_emits_dot.

(* C16 - URI text <-> options.  Statements only; proofs live in Uri/*Proofs.v. *)
From LibcoapV Require Import Base.Tactics Base.Bytes Uri.Uri Uri.Split Uri.Spec.
Local Open Scope Z_scope.

Theorem C16_norm_idem : forall l, uri_norm (uri_norm l) = uri_norm l.
Proof. intros [|[|? ?] [|? ?]]; reflexivity. Qed.
Print Assumptions C16_norm_idem.

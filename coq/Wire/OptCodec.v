(* Model of src/coap_option.c: coap_opt_setheader / coap_opt_encode_size / coap_opt_encode and
   coap_opt_parse, on byte lists.  Numbers are Z; the 16-bit width of coap_option_t.delta is made
   explicit by the range test in [rd_delta] (the C rejects a 2-byte delta whose value exceeds
   65535 instead of letting the uint16_t wrap). *)
From Coq Require Import ZArith List.
From LibcoapV Require Import Base.Bytes.
Import ListNotations.
Local Open Scope Z_scope.

(* ---- encoder: coap_opt_setheader ---- *)

Definition ext_nib (x : Z) : Z :=
  if x <? 13 then x else if x <? 269 then 13 else 14.

(* extension bytes; for x >= 269 the C writes ((x-269)>>8)&0xff, (x-269)&0xff *)
Definition ext_bytes (x : Z) : bytes :=
  if x <? 13 then [] else
  if x <? 269 then [x - 13] else [((x - 269) / 256) mod 256; (x - 269) mod 256].

Definition opt_hdr (delta vlen : Z) : bytes :=
  (16 * ext_nib delta + ext_nib vlen) :: ext_bytes delta ++ ext_bytes vlen.

(* coap_opt_encode_size *)
Definition ext_size (x : Z) : Z := if x <? 13 then 0 else if x <? 269 then 1 else 2.
Definition opt_encode_size (delta vlen : Z) : Z := 1 + ext_size delta + ext_size vlen + vlen.

(* coap_opt_encode (unbounded buffer) *)
Definition opt_enc (delta : Z) (v : bytes) : bytes := opt_hdr delta (len v) ++ v.

(* ---- decoder: coap_opt_parse ---- *)

(* read the extension of a delta nibble; [None] = return 0 *)
Definition rd_delta (nib : Z) (bs : bytes) : option (Z * bytes) :=
  if nib <? 13 then Some (nib, bs) else
  if nib =? 13 then
    match bs with b :: r => Some (b + 13, r) | [] => None end
  else if nib =? 14 then
    match bs with
    | b1 :: b2 :: r =>
        let d := b1 * 256 + 269 + b2 in
        if d <=? 65535 then Some (d, r) else None
    | _ => None
    end
  else None.

(* the length field is a size_t in C: no width limit *)
Definition rd_len (nib : Z) (bs : bytes) : option (Z * bytes) :=
  if nib <? 13 then Some (nib, bs) else
  if nib =? 13 then
    match bs with b :: r => Some (b + 13, r) | [] => None end
  else if nib =? 14 then
    match bs with
    | b1 :: b2 :: r => Some (b1 * 256 + 269 + b2, r)
    | _ => None
    end
  else None.

(* result: (delta, value, rest of input after the option) *)
Definition opt_parse (bs : bytes) : option (Z * bytes * bytes) :=
  match bs with
  | [] => None
  | b0 :: r0 =>
      let dn := b0 / 16 in
      let ln := b0 mod 16 in
      match rd_delta dn r0 with
      | None => None
      | Some (d, r1) =>
          match rd_len ln r1 with
          | None => None
          | Some (l, r2) =>
              if l <=? len r2 then Some (d, take l r2, drop l r2) else None
          end
      end
  end.

(* ---- sequences of options ---- *)

Definition opt := (Z * bytes)%type.       (* (number, value) *)

(* encoder for an ascending list, [prev] = number of the previous option *)
Fixpoint opts_enc (prev : Z) (l : list opt) : bytes :=
  match l with
  | [] => []
  | (n, v) :: tl => opt_enc (n - prev) v ++ opts_enc n tl
  end.

Definition PAYLOAD_START : Z := 255.
Definition MAX_OPT : Z := 65535.

(* The option walk of coap_pdu_parse_opt / the option iterator: parse options until the input is
   exhausted or a payload marker is found.  Result: the options and what is left (either [] or
   255 :: payload).  [None] = malformed.  Fuel: one unit per option, every option consumes at
   least one byte, so [length bs] always suffices. *)
Fixpoint opts_parse (fuel : nat) (prev : Z) (bs : bytes) : option (list opt * bytes) :=
  match bs with
  | [] => Some ([], [])
  | b :: _ =>
      if b =? PAYLOAD_START then Some ([], bs) else
      match fuel with
      | O => None
      | S fuel' =>
          match opt_parse bs with
          | None => None
          | Some (d, v, rest) =>
              if prev + d <=? MAX_OPT then
                match opts_parse fuel' (prev + d) rest with
                | None => None
                | Some (l, tail) => Some ((prev + d, v) :: l, tail)
                end
              else None
          end
      end
  end.

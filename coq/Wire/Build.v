(* Model of the PDU-building API as operations on the abstract message:
   coap_pdu_init, coap_add_token, coap_add_option (-> coap_add_option_internal /
   coap_insert_option), coap_add_data.  Space accounting follows coap_pdu_check_resize /
   coap_pdu_resize: an operation needing [size] bytes of token+option+payload area fails exactly
   when max_size <> 0 and size > max_size (allocation failure is C18's subject). *)
From Coq Require Import ZArith List Bool.
From LibcoapV Require Import Base.Bytes Wire.OptCodec Wire.Pdu.
Import ListNotations.
Local Open Scope Z_scope.

Record pdu := mkPdu { p_msg : msg; p_max : Z }.

Definition used (m : msg) : Z := len (token_area (m_token m)) + len (content_area m).

Definition fits (p : pdu) (size : Z) : bool := (p_max p =? 0) || (size <=? p_max p).

(* coap_option_check_repeatable *)
Definition non_repeatable : list Z :=
  [3; 5; 6; 7; 9; 12; 14; 16; 17; 23; 27; 28; 35; 39; 60; 252; 258].
Definition repeatable (n : Z) : bool := negb (existsb (Z.eqb n) non_repeatable).

Fixpoint prev_num (n prev : Z) (l : list opt) : Z :=
  match l with
  | [] => prev
  | (k, _) :: tl => if k <=? n then prev_num n k tl else prev
  end.

Definition has_opt (n : Z) (l : list opt) : bool := existsb (fun o => fst o =? n) l.

Definition set_opts (p : pdu) (os : list opt) : pdu :=
  let m := p_msg p in
  mkPdu (mkMsg (m_type m) (m_code m) (m_mid m) (m_token m) os (m_payload m)) (p_max p).

Inductive bop := OpToken (t : bytes) | OpOpt (n : Z) (v : bytes) | OpData (d : bytes).

(* coap_add_option_internal without the implicit Hop-Limit step *)
Definition add_opt_raw (p : pdu) (n : Z) (v : bytes) : bool * pdu :=
  let m := p_msg p in
  let mx := last_num (m_opts m) in
  if (n =? mx) && negb (repeatable n) then (false, p) else
  let prev := if n <? mx then prev_num n 0 (m_opts m) else mx in
  let sz := opt_encode_size (n - prev) (len v) in
  if fits p (used m + sz) then (true, set_opts p (insert_opt n v (m_opts m)))
  else (false, p).

Definition is_request (code : Z) : bool := (1 <=? code) && (code <? 32).

Definition apply_op (p : pdu) (o : bop) : bool * pdu :=
  let m := p_msg p in
  match o with
  | OpToken t =>
      if negb (used m =? 0) then (false, p) else
      if 65804 <? len t then (false, p) else
      if fits p (len (token_area t)) then
        (true, mkPdu (mkMsg (m_type m) (m_code m) (m_mid m) t (m_opts m) (m_payload m)) (p_max p))
      else (false, p)
  | OpOpt n v =>
      match m_payload m with
      | _ :: _ => (false, p)
      | [] =>
          let mx := last_num (m_opts m) in
          if (n =? mx) && negb (repeatable n) then (false, p) else
          let p1 :=
            if is_request (m_code m) && ((n =? 35) || (n =? 39)) && negb (has_opt 16 (m_opts m))
            then snd (add_opt_raw p 16 [16]) else p in
          add_opt_raw p1 n v
      end
  | OpData d =>
      match d with
      | [] => (true, p)
      | _ =>
          match m_payload m with
          | _ :: _ => (false, p)
          | [] =>
              if fits p (used m + len d + 1) then
                (true, mkPdu (mkMsg (m_type m) (m_code m) (m_mid m) (m_token m) (m_opts m) d) (p_max p))
              else (false, p)
          end
      end
  end.

Definition pdu_init (ty code mid max : Z) : pdu := mkPdu (mkMsg ty code mid [] [] []) max.

Fixpoint run_ops (p : pdu) (ops : list bop) : list bool * pdu :=
  match ops with
  | [] => ([], p)
  | o :: tl => let (r, p1) := apply_op p o in
               let (rs, p2) := run_ops p1 tl in (r :: rs, p2)
  end.

(* Byte-level model of coap_insert_option (src/coap_pdu.c): the in-place edit of the option area
   when an option is added out of order - locate the first option with a larger number, patch
   the delta field of that option's header (which may shrink by one or two bytes), move the tail
   and write the new option in front of it.  Transcribed branch by branch; InsertBytesProofs.v
   proves that on every well-formed option area the result is the canonical encoding of
   [insert_opt] - the abstract operation Build.v uses and the C01 theorems speak about.

   The area is the bytes from the first option to the end of the used part of the PDU: options,
   then nothing or 0xFF + payload (the memmove of the C moves the payload along). *)
From Coq Require Import ZArith List Bool.
From LibcoapV Require Import Base.Bytes Wire.OptCodec Wire.Pdu.
Import ListNotations.
Local Open Scope Z_scope.

(* option[i] = x *)
Definition bi_upd (i : nat) (x : Z) (o : bytes) : bytes := firstn i o ++ x :: skipn (S i) o.

(* (option[0] & 0x0f) *)
Definition bi_lo (o : bytes) : Z := Z.land (nth 0 o 0) 15.

(* the C computes the new first byte as (option[0] & 0x0f) + (coap_opt_t)(opt_delta << 4) and
   stores it into a uint8_t *)
Definition bi_first (o : bytes) (d_new : Z) : Z := (bi_lo o + (d_new * 16) mod 256) mod 256.

(* The six branches on (decode.delta, opt_delta); the result is what lies at &option[shrink]
   after the patch, i.e. the bytes memmove'd behind the new option. *)
Definition bi_patch (o : bytes) (d_old d_new : Z) : bytes :=
  if d_old <? 13 then
    bi_upd 0 (bi_first o d_new) o
  else if (d_old <? 269) && (d_new <? 13) then
    skipn 1 (bi_upd 1 (bi_first o d_new) o)                         (* shrink = 1 *)
  else if (d_old <? 269) && (d_new <? 269) then
    bi_upd 1 ((d_new - 13) mod 256) o
  else if d_new <? 13 then
    skipn 2 (bi_upd 2 (bi_first o d_new) o)                         (* shrink = 2 *)
  else if d_new <? 269 then
    skipn 1 (bi_upd 2 ((d_new - 13) mod 256) (bi_upd 1 ((bi_lo o + 208) mod 256) o))  (* shrink = 1 *)
  else
    bi_upd 2 ((d_new - 269) mod 256) (bi_upd 1 (((d_new - 269) / 256) mod 256) o).

(* the option iterator loop: walk until an option with a number > n is found.
   Result: (bytes in front of it, prev_number, its number, the bytes from it on) *)
Fixpoint bi_locate (fuel : nat) (n cur : Z) (pre bs : bytes) : option (bytes * Z * Z * bytes) :=
  match fuel with
  | O => None
  | S f =>
      match bs with
      | [] => None
      | b :: _ =>
          if b =? PAYLOAD_START then None else
          match opt_parse bs with
          | None => None
          | Some (d, _, rest) =>
              if MAX_OPT <? cur + d then None else
              if n <? cur + d then Some (pre, cur, cur + d, bs)
              else bi_locate f n (cur + d) (pre ++ take (len bs - len rest) bs) rest
          end
      end
  end.

(* coap_insert_option for number < max_opt (space permitting - Build.v accounts for space) *)
Definition bi_insert (area : bytes) (n : Z) (v : bytes) : option bytes :=
  match bi_locate (length area) n 0 [] area with
  | None => None
  | Some (pre, prev, nx, o) =>
      Some (pre ++ opt_enc (n - prev) v ++ bi_patch o (nx - prev) (nx - n))
  end.

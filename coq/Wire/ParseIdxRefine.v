(* C02/C03 - the index-level parser of Wire/ParseIdx.v (the safe one) computes exactly what the
   list-level parser of Wire/Pdu.v computes (the one proved sound and complete against the
   canonical encoder): same accept/reject, same message. *)
From LibcoapV Require Import Base.Tactics Base.Bytes Base.BytesProofs Wire.OptCodec Wire.Pdu
  Wire.ParseIdx Wire.ParseIdxProofs.
Local Open Scope Z_scope.

Lemma drop_0 {A} (l : list A) : drop 0 l = l.
Proof. reflexivity. Qed.

Lemma drop_cons_next {A} (l : list A) : forall o b r,
  0 <= o -> drop o l = b :: r -> drop (o + 1) l = r.
Proof.
  intros o b r Ho H. unfold drop in *.
  replace (Z.to_nat (o + 1)) with (S (Z.to_nat o)) by lia.
  revert H. generalize (Z.to_nat o) as n. clear Ho o. intros n. revert l.
  induction n as [|n IH]; intros l H.
  - cbn [skipn] in H. subst l. reflexivity.
  - destruct l as [|x l]; [discriminate|]. cbn [skipn] in *. apply IH. exact H.
Qed.

Lemma drop_len {A} (l : list A) o : 0 <= o <= len l -> len (drop o l) = len l - o.
Proof. apply len_drop. Qed.

Lemma drop_nth {A} (l : list A) d : forall o b r,
  0 <= o -> drop o l = b :: r -> nth (Z.to_nat o) l d = b /\ o < len l.
Proof.
  intros o b r Ho H. unfold drop, len in *. revert H.
  assert (E : o = Z.of_nat (Z.to_nat o)) by lia. rewrite E at 3. clear E.
  generalize (Z.to_nat o) as n. clear Ho o. intros n. revert l.
  induction n as [|n IH]; intros l H.
  - cbn [skipn] in H. subst l. cbn. split; [reflexivity | lia].
  - destruct l as [|x l]; [discriminate|]. cbn [skipn nth] in *.
    destruct (IH l H) as [E L]. split; [exact E|]. cbn [length]. lia.
Qed.

Lemma ix_rd_drop buf o b r :
  0 <= o -> drop o buf = b :: r ->
  ix_rd buf o = IxOk b /\ drop (o + 1) buf = r /\ len r = len buf - o - 1.
Proof.
  intros Ho H. destruct (drop_nth buf 0 o b r Ho H) as [E L].
  split; [|split].
  - unfold ix_rd. replace ((0 <=? o) && (o <? len buf)) with true by lia. rewrite E. reflexivity.
  - eapply drop_cons_next; eassumption.
  - pose proof (drop_len buf o ltac:(lia)) as D. rewrite H in D. rewrite len_cons in D. lia.
Qed.

Lemma drop_nil_len {A} (l : list A) o : 0 <= o -> drop o l = [] -> len l <= o.
Proof.
  intros Ho H. destruct (Z_le_gt_dec (len l) o) as [|G]; [assumption|].
  pose proof (drop_len l o ltac:(lia)) as D. rewrite H in D. cbn in D. lia.
Qed.

(* ---- the delta and length switches ---- *)

Ltac adv_chk_ok o e :=
  unfold ix_adv_chk at 1;
  replace (e <? 1) with false by lia; replace (e - 1 <? 1) with false by lia;
  cbn [ix_bind fst snd].
Ltac adv_chk_rej o e :=
  unfold ix_adv_chk at 1;
  replace (e <? 1) with false by lia; replace (e - 1 <? 1) with true by lia;
  cbn [ix_bind fst snd].

Lemma ix_delta_ref buf dn o e b0 r0 :
  wfb buf -> 0 <= o -> o + e = len buf -> drop o buf = b0 :: r0 -> 0 <= dn <= 15 ->
  match ix_delta buf dn o e with
  | IxOk (d, o1, e1) => exists x r1, rd_delta dn r0 = Some (d, r1) /\ drop o1 buf = x :: r1 /\
                                      o <= o1 /\ o1 + e1 = len buf
  | IxRej => rd_delta dn r0 = None
  | _ => False
  end.
Proof.
  intros W Ho He Hd Hdn.
  destruct (ix_rd_drop buf o b0 r0 Ho Hd) as (_ & Hd1 & Hl0).
  unfold ix_delta, rd_delta.
  destruct (dn =? 15) eqn:E15.
  { replace (dn <? 13) with false by lia. replace (dn =? 13) with false by lia.
    replace (dn =? 14) with false by lia. reflexivity. }
  destruct (dn =? 14) eqn:E14.
  { replace (dn <? 13) with false by lia. replace (dn =? 13) with false by lia.
    destruct r0 as [|b1 r0'].
    { cbn [len length Z.of_nat] in Hl0. adv_chk_rej o e. reflexivity. }
    rewrite len_cons in Hl0. pose proof (len_nonneg r0') as Hn1.
    adv_chk_ok o e.
    destruct (ix_rd_drop buf (o + 1) b1 r0' ltac:(lia) Hd1) as (Hr1 & Hd2 & Hl1).
    rewrite Hr1. cbn [ix_bind]. destruct (ix_rd_byte _ _ _ W Hr1) as [B1 _]. unfold is_byte in B1.
    destruct ((b1 * 256 + 269) mod 65536 <? 269) eqn:Ew.
    { destruct r0' as [|b2 r1]; [reflexivity|].
      assert (Hr2 : ix_rd buf (o + 1 + 1) = IxOk b2)
        by (apply (ix_rd_drop buf (o + 1 + 1) b2 r1 ltac:(lia) Hd2)).
      destruct (ix_rd_byte _ _ _ W Hr2) as [B2 _]. unfold is_byte in B2.
      replace (b1 * 256 + 269 + b2 <=? 65535) with false by lia. reflexivity. }
    destruct r0' as [|b2 r1].
    { cbn [len length Z.of_nat] in Hl1. adv_chk_rej (o + 1) (e - 1). reflexivity. }
    rewrite len_cons in Hl1. pose proof (len_nonneg r1) as Hn2.
    adv_chk_ok (o + 1) (e - 1).
    destruct (ix_rd_drop buf (o + 1 + 1) b2 r1 ltac:(lia) Hd2) as (Hr2 & Hd3 & Hl2).
    rewrite Hr2. cbn [ix_bind]. destruct (ix_rd_byte _ _ _ W Hr2) as [B2 _]. unfold is_byte in B2.
    assert (Em : (b1 * 256 + 269) mod 65536 = b1 * 256 + 269) by lia. rewrite Em.
    destruct (65535 <? b1 * 256 + 269 + b2) eqn:Eo.
    { replace (b1 * 256 + 269 + b2 <=? 65535) with false by lia. reflexivity. }
    replace (b1 * 256 + 269 + b2 <=? 65535) with true by lia.
    exists b2, r1. repeat split; try assumption; lia. }
  destruct (dn =? 13) eqn:E13.
  { replace (dn <? 13) with false by lia.
    destruct r0 as [|b1 r1].
    { cbn [len length Z.of_nat] in Hl0. adv_chk_rej o e. reflexivity. }
    rewrite len_cons in Hl0. pose proof (len_nonneg r1) as Hn1.
    adv_chk_ok o e.
    destruct (ix_rd_drop buf (o + 1) b1 r1 ltac:(lia) Hd1) as (Hr1 & Hd2 & Hl1).
    rewrite Hr1. cbn [ix_bind]. destruct (ix_rd_byte _ _ _ W Hr1) as [B1 _]. unfold is_byte in B1.
    replace (65535 <? 13 + b1) with false by lia.
    exists b1, r1. replace (13 + b1) with (b1 + 13) by lia. repeat split; try assumption; lia. }
  replace (dn <? 13) with true by lia.
  exists b0, r0. repeat split; try assumption; lia.
Qed.

Lemma ix_length_ref buf ln o e b0 r0 :
  wfb buf -> 0 <= o -> o + e = len buf -> drop o buf = b0 :: r0 -> 0 <= ln <= 15 ->
  match ix_length buf ln o e with
  | IxOk (l, o1, e1) => exists x r1, rd_len ln r0 = Some (l, r1) /\ drop o1 buf = x :: r1 /\
                                      o <= o1 /\ o1 + e1 = len buf
  | IxRej => rd_len ln r0 = None
  | _ => False
  end.
Proof.
  intros W Ho He Hd Hdn.
  destruct (ix_rd_drop buf o b0 r0 Ho Hd) as (_ & Hd1 & Hl0).
  unfold ix_length, rd_len.
  destruct (ln =? 15) eqn:E15.
  { replace (ln <? 13) with false by lia. replace (ln =? 13) with false by lia.
    replace (ln =? 14) with false by lia. reflexivity. }
  destruct (ln =? 14) eqn:E14.
  { replace (ln <? 13) with false by lia. replace (ln =? 13) with false by lia.
    destruct r0 as [|b1 r0'].
    { cbn [len length Z.of_nat] in Hl0. adv_chk_rej o e. reflexivity. }
    rewrite len_cons in Hl0. pose proof (len_nonneg r0') as Hn1.
    adv_chk_ok o e.
    destruct (ix_rd_drop buf (o + 1) b1 r0' ltac:(lia) Hd1) as (Hr1 & Hd2 & Hl1).
    rewrite Hr1. cbn [ix_bind].
    destruct r0' as [|b2 r1].
    { cbn [len length Z.of_nat] in Hl1. adv_chk_rej (o + 1) (e - 1). reflexivity. }
    rewrite len_cons in Hl1. pose proof (len_nonneg r1) as Hn2.
    adv_chk_ok (o + 1) (e - 1).
    destruct (ix_rd_drop buf (o + 1 + 1) b2 r1 ltac:(lia) Hd2) as (Hr2 & Hd3 & Hl2).
    rewrite Hr2. cbn [ix_bind].
    exists b2, r1. repeat split; try assumption; lia. }
  destruct (ln =? 13) eqn:E13.
  { replace (ln <? 13) with false by lia.
    destruct r0 as [|b1 r1].
    { cbn [len length Z.of_nat] in Hl0. adv_chk_rej o e. reflexivity. }
    rewrite len_cons in Hl0. pose proof (len_nonneg r1) as Hn1.
    adv_chk_ok o e.
    destruct (ix_rd_drop buf (o + 1) b1 r1 ltac:(lia) Hd1) as (Hr1 & Hd2 & Hl1).
    rewrite Hr1. cbn [ix_bind].
    exists b1, r1. replace (13 + b1) with (b1 + 13) by lia. repeat split; try assumption; lia. }
  replace (ln <? 13) with true by lia.
  exists b0, r0. repeat split; try assumption; lia.
Qed.

(* ---- coap_opt_parse ---- *)

Lemma drop_all {A} (l : list A) o : len l <= o -> drop o l = [].
Proof. intros H. unfold drop, len in *. apply skipn_all2. lia. Qed.

Lemma drop_drop {A} (l : list A) a b : 0 <= a -> 0 <= b -> drop (a + b) l = drop b (drop a l).
Proof.
  intros Ha Hb. unfold drop. replace (Z.to_nat (a + b)) with (Z.to_nat b + Z.to_nat a)%nat by lia.
  revert l. induction (Z.to_nat a) as [|n IH]; intros l.
  - rewrite Nat.add_0_r. reflexivity.
  - rewrite Nat.add_succ_r. destruct l as [|x l]; cbn [skipn].
    + destruct (Z.to_nat b); reflexivity.
    + apply IH.
Qed.

Lemma drop_nonempty {A} (l : list A) o : 0 <= o < len l -> exists b r, drop o l = b :: r.
Proof.
  intros H. destruct (drop o l) as [|b r] eqn:E; [|eauto].
  pose proof (drop_nil_len l o ltac:(lia) E). lia.
Qed.

Theorem ix_opt_parse_ref buf o e :
  wfb buf -> 0 <= o -> o + e = len buf ->
  match ix_opt_parse buf o e with
  | IxOk (d, l, h) => opt_parse (drop o buf) = Some (d, ix_slice buf (o + h) l, drop (o + h + l) buf)
                      /\ 0 <= l /\ 1 <= h /\ h + l <= e
  | IxRej => opt_parse (drop o buf) = None
  | _ => False
  end.
Proof.
  intros W Ho He.
  pose proof (ix_opt_parse_spec buf o e W Ho ltac:(lia)) as S.
  unfold ix_opt_parse in *.
  destruct (e <? 1) eqn:E1.
  { rewrite drop_all by lia. reflexivity. }
  destruct (drop_nonempty buf o ltac:(lia)) as (b0 & r0 & Hd).
  destruct (ix_rd_drop buf o b0 r0 Ho Hd) as (Hr0 & Hd1 & Hl0).
  rewrite Hr0 in *. cbn [ix_bind] in *.
  destruct (ix_rd_byte _ _ _ W Hr0) as [B0 _]. unfold is_byte in B0.
  rewrite Hd. unfold opt_parse.
  pose proof (ix_delta_ref buf (b0 / 16) o e b0 r0 W Ho He Hd ltac:(lia)) as D.
  destruct (ix_delta buf (b0 / 16) o e) as [[[d o1] e1]| | |]; try contradiction;
    [|rewrite D; reflexivity].
  destruct D as (x & r1 & Dd & Dr & Do & De). rewrite Dd. cbn [ix_bind] in *.
  pose proof (ix_length_ref buf (b0 mod 16) o1 e1 x r1 W ltac:(lia) De Dr ltac:(lia)) as L.
  destruct (ix_length buf (b0 mod 16) o1 e1) as [[[l o2] e2]| | |]; try contradiction;
    [|rewrite L; reflexivity].
  destruct L as (y & r2 & Ld & Lr & Lo & Le). rewrite Ld. cbn [ix_bind] in *.
  destruct (ix_rd_drop buf o2 y r2 ltac:(lia) Lr) as (_ & Hd3 & Hl2).
  pose proof (len_nonneg r2) as Hn2.
  assert (Ee2 : (e2 <? 1) = false) by lia.
  unfold ix_adv in *. rewrite Ee2 in *. cbn [ix_bind fst snd] in *.
  destruct (e2 - 1 <? l) eqn:E3.
  { replace (l <=? len r2) with false by lia. reflexivity. }
  replace (l <=? len r2) with true by lia.
  unfold ix_good in S. destruct S as (S1 & S2 & S3 & S4).
  split; [|repeat split; lia].
  unfold ix_slice. replace (o + (o2 + 1 - o)) with (o2 + 1) by lia. rewrite Hd3.
  replace (o2 + 1 + l) with ((o2 + 1) + l) by lia. rewrite drop_drop by lia. rewrite Hd3.
  reflexivity.
Qed.

(* ---- the option loop ---- *)

Lemma len_slice buf off n : 0 <= off -> 0 <= n -> off + n <= len buf -> len (ix_slice buf off n) = n.
Proof.
  intros. unfold ix_slice. apply len_take. rewrite drop_len by lia. lia.
Qed.

Theorem ix_opts_ref buf code : forall fuel o e mx good,
  wfb buf -> 0 <= o -> 0 <= e -> o + e = len buf -> e <= Z.of_nat fuel ->
  match ix_opts fuel buf code o e mx good with
  | IxOk (os, o', e', g) =>
      o' + e' = len buf /\ 0 <= e' /\ o <= o' /\
      match opts_parse fuel mx (drop o buf) with
      | Some (os', tail) => os' = os /\ tail = drop o' buf /\ g = good && limits_ok code os
      | None => g = false
      end
  | _ => False
  end.
Proof.
  induction fuel as [|f IH]; intros o e mx good W Ho He0 He Hf.
  - assert (e = 0) by lia. subst e. cbn [ix_opts]. cbn [Z.leb Z.compare].
    rewrite drop_all by lia. cbn [opts_parse limits_ok forallb]. rewrite andb_true_r.
    repeat split; lia.
  - cbn [ix_opts]. destruct (e <=? 0) eqn:E0.
    { assert (e = 0) by lia. subst e. rewrite drop_all by lia.
      cbn [opts_parse limits_ok forallb]. rewrite andb_true_r. repeat split; lia. }
    destruct (drop_nonempty buf o ltac:(lia)) as (b & r & Hd).
    destruct (ix_rd_drop buf o b r Ho Hd) as (Hr & _ & _). rewrite Hr. cbn [ix_bind].
    rewrite Hd. cbn [opts_parse].
    destruct (b =? PAYLOAD_START) eqn:Eb.
    { cbn [limits_ok forallb]. rewrite andb_true_r. rewrite <- Hd. repeat split; lia. }
    rewrite <- Hd.
    pose proof (ix_opt_parse_ref buf o e W Ho He) as P.
    destruct (ix_opt_parse buf o e) as [[[d l] h]| | |]; try contradiction.
    + destruct P as (P & Pl & Ph & Phl). rewrite P.
      destruct (MAX_OPT <? mx + d) eqn:Em.
      { replace (mx + d <=? MAX_OPT) with false by lia. repeat split; lia. }
      replace (mx + d <=? MAX_OPT) with true by lia.
      specialize (IH (o + h + l) (e - (h + l)) (mx + d) (good && limit_ok code (mx + d) l) W
                     ltac:(lia) ltac:(lia) ltac:(lia) ltac:(lia)).
      destruct (ix_opts f buf code (o + h + l) (e - (h + l)) (mx + d) _)
        as [[[[os o'] e'] g]| | |]; try contradiction.
      cbn [ix_bind]. destruct IH as (I1 & I2 & I3 & I4).
      split; [assumption|]. split; [assumption|]. split; [lia|].
      destruct (opts_parse f (mx + d) (drop (o + h + l) buf)) as [[os' tail]|].
      * destruct I4 as (-> & -> & ->). split; [reflexivity|]. split; [reflexivity|].
        cbn [limits_ok forallb fst snd]. rewrite len_slice by lia.
        rewrite andb_assoc. reflexivity.
      * exact I4.
    + rewrite P. repeat split; lia.
Qed.

(* ---- token, options and payload once the header is known ---- *)

Definition ix_opt {A} (r : ix_res A) : option A := match r with IxOk a => Some a | _ => None end.

Definition parse_tail (ty code mid : Z) (area tok rest : bytes) : option msg :=
  if code =? 0 then
    match area with [] => Some (mkMsg ty code mid [] [] []) | _ => None end
  else
    match opts_parse (length rest) 0 rest with
    | None => None
    | Some (os, tail) =>
        if limits_ok code os then
          match tail with
          | [] => Some (mkMsg ty code mid tok os [])
          | _ :: [] => None
          | _ :: pl => Some (mkMsg ty code mid tok os pl)
          end
        else None
    end.

Definition parse_body (ty code mid tkl : Z) (area : bytes) : option msg :=
  match parse_token tkl area with
  | None => None
  | Some (tok, rest) => parse_tail ty code mid area tok rest
  end.

Definition ix_tail (buf : bytes) (hs ty code mid etl ext : Z) : ix_res msg :=
  let used := len buf - hs in
  if (code =? 0) && (negb (used =? 0) || negb (etl =? 0)) then IxRej else
  if code =? 0 then IxOk (mkMsg ty code mid [] [] []) else
  r <- ix_opts (Z.to_nat (used - etl)) buf code (hs + etl) (used - etl) 0 true ;;
  let '(os, o, e, good) := r in
  if negb good then IxRej else
  let tok := ix_slice buf (hs + ext) (etl - ext) in
  if 0 <? e then
    if e - 1 =? 0 then IxRej else IxOk (mkMsg ty code mid tok os (ix_slice buf (o + 1) (e - 1)))
  else IxOk (mkMsg ty code mid tok os []).

Lemma take_all {A} (l : list A) : take (len l) l = l.
Proof. unfold take, len. rewrite Nat2Z.id. apply firstn_all. Qed.

Lemma length_len {A} (l : list A) : length l = Z.to_nat (len l).
Proof. unfold len. rewrite Nat2Z.id. reflexivity. Qed.

Lemma ix_tail_ref buf hs ty code mid etl ext :
  wfb buf -> 0 <= hs -> 0 <= etl -> hs + etl <= len buf ->
  ix_opt (ix_tail buf hs ty code mid etl ext) =
  parse_tail ty code mid (drop hs buf) (ix_slice buf (hs + ext) (etl - ext)) (drop (hs + etl) buf).
Proof.
  intros W Hhs He Hle. unfold ix_tail, parse_tail.
  pose proof (drop_len buf hs ltac:(lia)) as La.
  destruct (code =? 0) eqn:Ec.
  - cbn [andb]. destruct (drop hs buf) as [|a ar] eqn:Ea.
    + cbn [len length Z.of_nat] in La.
      replace (len buf - hs =? 0) with true by lia. replace (etl =? 0) with true by lia.
      reflexivity.
    + rewrite len_cons in La. pose proof (len_nonneg ar).
      replace (len buf - hs =? 0) with false by lia. reflexivity.
  - cbn [andb].
    pose proof (drop_len buf (hs + etl) ltac:(lia)) as Lr.
    rewrite length_len, Lr. replace (len buf - (hs + etl)) with (len buf - hs - etl) by lia.
    pose proof (ix_opts_ref buf code (Z.to_nat (len buf - hs - etl)) (hs + etl) (len buf - hs - etl)
                  0 true W ltac:(lia) ltac:(lia) ltac:(lia) ltac:(lia)) as O.
    destruct (ix_opts (Z.to_nat (len buf - hs - etl)) buf code (hs + etl) (len buf - hs - etl) 0 true)
      as [[[[os o] e] g]| | |]; try contradiction.
    cbn [ix_bind]. destruct O as (O1 & O2 & O3 & O4).
    destruct (opts_parse (Z.to_nat (len buf - hs - etl)) 0 (drop (hs + etl) buf)) as [[os' tail]|].
    + destruct O4 as (-> & -> & ->). cbn [andb].
      destruct (limits_ok code os); cbn [negb]; [|reflexivity].
      pose proof (drop_len buf o ltac:(lia)) as Lt.
      destruct (drop o buf) as [|t0 tl] eqn:Et.
      * cbn [len length Z.of_nat] in Lt. replace (0 <? e) with false by lia. reflexivity.
      * rewrite len_cons in Lt. pose proof (len_nonneg tl).
        replace (0 <? e) with true by lia.
        destruct tl as [|t1 tl'].
        -- cbn [len length Z.of_nat] in Lt. replace (e - 1 =? 0) with true by lia. reflexivity.
        -- rewrite len_cons in Lt. pose proof (len_nonneg tl').
           replace (e - 1 =? 0) with false by lia. cbn [ix_opt]. do 2 f_equal.
           unfold ix_slice. rewrite (drop_cons_next buf o t0 (t1 :: tl') ltac:(lia) Et).
           replace (e - 1) with (len (t1 :: tl')) by (rewrite len_cons; lia). apply take_all.
    + subst g. reflexivity.
Qed.

Lemma ix_body_ref buf hs ty code mid tkl :
  wfb buf -> 2 <= hs <= len buf -> 0 <= tkl <= 15 ->
  ix_opt (ix_body true buf hs ty code mid tkl) = parse_body ty code mid tkl (drop hs buf).
Proof.
  intros W Hhs Htkl.
  pose proof (drop_len buf hs ltac:(lia)) as La.
  assert (Hfold : forall etl ext,
    (if (len buf - hs <? etl) || (tkl =? 15) then IxRej
     else ix_tail buf hs ty code mid etl ext) =
    (let '(etl, ext) := (etl, ext) in
     if (len buf - hs <? etl) || (tkl =? 15) then IxRej else
     if (code =? 0) && (negb (len buf - hs =? 0) || negb (etl =? 0)) then IxRej else
     if code =? 0 then IxOk (mkMsg ty code mid [] [] []) else
     r <- ix_opts (Z.to_nat (len buf - hs - etl)) buf code (hs + etl) (len buf - hs - etl) 0 true ;;
     let '(os, o, e, good) := r in
     if negb good then IxRej else
     let tok := ix_slice buf (hs + ext) (etl - ext) in
     if 0 <? e then
       if e - 1 =? 0 then IxRej
       else IxOk (mkMsg ty code mid tok os (ix_slice buf (o + 1) (e - 1)))
     else IxOk (mkMsg ty code mid tok os []))) by reflexivity.
  unfold ix_body, parse_body, parse_token.
  destruct (tkl <? 13) eqn:E13.
  - cbn [ix_bind]. rewrite <- Hfold.
    replace (tkl =? 15) with false by lia. rewrite orb_false_r.
    destruct (len buf - hs <? tkl) eqn:El.
    + replace (tkl <=? len (drop hs buf)) with false by lia. reflexivity.
    + replace (tkl <=? len (drop hs buf)) with true by lia.
      rewrite (ix_tail_ref buf hs ty code mid tkl 0 W ltac:(lia) ltac:(lia) ltac:(lia)).
      unfold ix_slice. rewrite Z.add_0_r, Z.sub_0_r. rewrite drop_drop by lia. reflexivity.
  - destruct (tkl =? 13) eqn:E13'.
    + cbn [andb]. destruct (drop hs buf) as [|b r] eqn:Ea.
      * cbn [len length Z.of_nat] in La. replace (len buf - hs <? 1) with true by lia. reflexivity.
      * rewrite len_cons in La. pose proof (len_nonneg r).
        replace (len buf - hs <? 1) with false by lia.
        destruct (ix_rd_drop buf hs b r ltac:(lia) Ea) as (Hr & Hd1 & _).
        rewrite Hr. cbn [ix_bind]. rewrite <- Hfold.
        destruct (ix_rd_byte _ _ _ W Hr) as [Bb _]. unfold is_byte in Bb.
        replace (tkl =? 15) with false by lia. rewrite orb_false_r.
        destruct (len buf - hs <? b + 13 + 1) eqn:El.
        -- replace (b + 13 <=? len r) with false by lia. reflexivity.
        -- replace (b + 13 <=? len r) with true by lia.
           rewrite (ix_tail_ref buf hs ty code mid (b + 13 + 1) 1 W ltac:(lia) ltac:(lia) ltac:(lia)).
           rewrite Ea. unfold ix_slice. rewrite Hd1.
           replace (b + 13 + 1 - 1) with (b + 13) by lia.
           replace (hs + (b + 13 + 1)) with ((hs + 1) + (b + 13)) by lia.
           rewrite drop_drop by lia. rewrite Hd1. reflexivity.
    + destruct (tkl =? 14) eqn:E14.
      * cbn [andb]. destruct (drop hs buf) as [|b1 r] eqn:Ea.
        { cbn [len length Z.of_nat] in La. replace (len buf - hs <? 2) with true by lia.
          reflexivity. }
        rewrite len_cons in La.
        destruct r as [|b2 r'].
        { cbn [len length Z.of_nat] in La. replace (len buf - hs <? 2) with true by lia.
          reflexivity. }
        rewrite len_cons in La. pose proof (len_nonneg r').
        replace (len buf - hs <? 2) with false by lia.
        destruct (ix_rd_drop buf hs b1 (b2 :: r') ltac:(lia) Ea) as (Hr1 & Hd1 & _).
        destruct (ix_rd_drop buf (hs + 1) b2 r' ltac:(lia) Hd1) as (Hr2 & Hd2 & _).
        rewrite Hr1. cbn [ix_bind]. rewrite Hr2. cbn [ix_bind]. rewrite <- Hfold.
        destruct (ix_rd_byte _ _ _ W Hr1) as [Bb1 _]. destruct (ix_rd_byte _ _ _ W Hr2) as [Bb2 _].
        unfold is_byte in *.
        replace (tkl =? 15) with false by lia. rewrite orb_false_r.
        destruct (len buf - hs <? b1 * 256 + b2 + 269 + 2) eqn:El.
        -- replace (b1 * 256 + b2 + 269 <=? len r') with false by lia. reflexivity.
        -- replace (b1 * 256 + b2 + 269 <=? len r') with true by lia.
           rewrite (ix_tail_ref buf hs ty code mid (b1 * 256 + b2 + 269 + 2) 2 W
                      ltac:(lia) ltac:(lia) ltac:(lia)).
           rewrite Ea. unfold ix_slice.
           replace (hs + 2) with (hs + 1 + 1) by lia. rewrite Hd2.
           replace (b1 * 256 + b2 + 269 + 2 - 2) with (b1 * 256 + b2 + 269) by lia.
           replace (hs + (b1 * 256 + b2 + 269 + 2)) with ((hs + 1 + 1) + (b1 * 256 + b2 + 269)) by lia.
           rewrite drop_drop by lia. rewrite Hd2. reflexivity.
      * cbn [ix_bind]. replace (tkl =? 15) with true by lia. rewrite orb_true_r. reflexivity.
Qed.

(* ---- the whole parser ---- *)

Lemma parse_unfold_stream p b0 tl :
  p <> UDP ->
  parse p (b0 :: tl) =
  if len (b0 :: tl) <? header_size p b0 then None
  else parse_body 0 (last_byte (take (header_size p b0) (b0 :: tl))) 0 (b0 mod 16)
                  (drop (header_size p b0) (b0 :: tl)).
Proof.
  intros Hp. unfold parse, parse_body, parse_tail.
  destruct (len (b0 :: tl) <? header_size p b0); [reflexivity|].
  destruct p; [congruence| |];
    destruct (take _ (b0 :: tl)) as [|? [|? [|? [|? [|? ?]]]]]; reflexivity.
Qed.

Lemma parse_unfold_udp b0 h1 h2 h3 area :
  parse UDP (b0 :: h1 :: h2 :: h3 :: area) =
  if b0 / 64 =? 1 then parse_body ((b0 / 16) mod 4) h1 (h2 * 256 + h3) (b0 mod 16) area else None.
Proof.
  unfold parse, parse_body, parse_tail. cbn [header_size].
  replace (len (b0 :: h1 :: h2 :: h3 :: area) <? 4) with false
    by (rewrite !len_cons; pose proof (len_nonneg area); lia).
  change (take 4 (b0 :: h1 :: h2 :: h3 :: area)) with [b0; h1; h2; h3].
  change (drop 4 (b0 :: h1 :: h2 :: h3 :: area)) with area.
  cbv beta iota. destruct (b0 / 64 =? 1); reflexivity.
Qed.

Lemma last_firstn {A} (d : A) : forall n l, (n < length l)%nat -> last (firstn (S n) l) d = nth n l d.
Proof.
  induction n as [|n IH]; intros l H.
  - destruct l as [|x l]; [cbn in H; lia|]. reflexivity.
  - destruct l as [|x l]; [cbn in H; lia|]. cbn [length] in H.
    specialize (IH l ltac:(lia)). cbn [nth]. rewrite <- IH.
    destruct l as [|y l]; [cbn in H; lia|]. reflexivity.
Qed.

Lemma last_take buf hs : 1 <= hs <= len buf -> last_byte (take hs buf) = nth (Z.to_nat (hs - 1)) buf 0.
Proof.
  intros H. unfold last_byte, take. replace (Z.to_nat hs) with (S (Z.to_nat (hs - 1))) by lia.
  apply last_firstn. unfold len in H. lia.
Qed.

(* the index-level parser and the list-level parser are the same function *)
Theorem ix_parse_refines p buf : wfb buf -> ix_opt (ix_parse true p buf) = parse p buf.
Proof.
  intros W. destruct buf as [|b0 tl]; [reflexivity|].
  unfold ix_parse. pose proof (len_nonneg tl) as Hn.
  replace (len (b0 :: tl) =? 0) with false by (rewrite len_cons; lia).
  destruct (ix_rd_drop (b0 :: tl) 0 b0 tl ltac:(lia) eq_refl) as (Hr0 & _ & _).
  rewrite Hr0. cbn [ix_bind].
  destruct (ix_rd_byte _ _ _ W Hr0) as [B0 _]. unfold is_byte in B0.
  destruct p.
  - (* UDP *)
    cbn [header_size].
    destruct tl as [|h1 [|h2 [|h3 area]]];
      try (replace (len _ <? 4) with false by (rewrite !len_cons; cbn [len length Z.of_nat]; lia));
      try (cbn [len length Z.of_nat Z.ltb Z.compare Pos.compare Pos.compare_cont]; reflexivity).
    set (buf := b0 :: h1 :: h2 :: h3 :: area) in *.
    replace (len buf <? 4) with false
      by (unfold buf; rewrite !len_cons; pose proof (len_nonneg area); lia).
    destruct (ix_rd_drop buf 1 h1 (h2 :: h3 :: area) ltac:(lia) eq_refl) as (R1 & _ & _).
    destruct (ix_rd_drop buf 2 h2 (h3 :: area) ltac:(lia) eq_refl) as (R2 & _ & _).
    destruct (ix_rd_drop buf 3 h3 area ltac:(lia) eq_refl) as (R3 & _ & _).
    rewrite R1. cbn [ix_bind]. rewrite R2. cbn [ix_bind]. rewrite R3. cbn [ix_bind].
    unfold buf at 2. rewrite parse_unfold_udp.
    destruct (b0 / 64 =? 1); [|reflexivity]. cbn [ix_bind].
    rewrite ix_body_ref; [reflexivity | assumption | | lia].
    unfold buf. rewrite !len_cons. pose proof (len_nonneg area). lia.
  - (* TCP *)
    rewrite parse_unfold_stream by congruence.
    pose proof (header_size_range TCP b0) as Hhs.
    destruct (len (b0 :: tl) <? header_size TCP b0) eqn:El; [reflexivity|].
    set (hs := header_size TCP b0) in *.
    assert (Hc : ix_rd (b0 :: tl) (hs - 1) = IxOk (last_byte (take hs (b0 :: tl)))).
    { rewrite last_take by lia. unfold ix_rd.
      replace ((0 <=? hs - 1) && (hs - 1 <? len (b0 :: tl))) with true by lia. reflexivity. }
    rewrite Hc. cbn [ix_bind].
    apply ix_body_ref; [assumption | lia | lia].
  - (* WS *)
    rewrite parse_unfold_stream by congruence.
    pose proof (header_size_range WS b0) as Hhs.
    destruct (len (b0 :: tl) <? header_size WS b0) eqn:El; [reflexivity|].
    set (hs := header_size WS b0) in *.
    assert (Hc : ix_rd (b0 :: tl) (hs - 1) = IxOk (last_byte (take hs (b0 :: tl)))).
    { rewrite last_take by lia. unfold ix_rd.
      replace ((0 <=? hs - 1) && (hs - 1 <? len (b0 :: tl))) with true by lia. reflexivity. }
    rewrite Hc. cbn [ix_bind].
    apply ix_body_ref; [assumption | lia | lia].
Qed.

(* with safety: accept/reject and the message agree *)
Corollary ix_parse_iff p buf m :
  wfb buf -> (ix_parse true p buf = IxOk m <-> parse p buf = Some m).
Proof.
  intros W. rewrite <- ix_parse_refines by assumption.
  destruct (ix_parse true p buf); cbn [ix_opt]; split; intros H; inversion H; reflexivity.
Qed.

Corollary ix_parse_rej_iff p buf :
  wfb buf -> (ix_parse true p buf = IxRej <-> parse p buf = None).
Proof.
  intros W. rewrite <- ix_parse_refines by assumption.
  destruct (ix_parse_safe p buf W) as [S1 S2].
  destruct (ix_parse true p buf); cbn [ix_opt]; split; intros H; try reflexivity; try discriminate;
    congruence.
Qed.

(* the safe index-level parser inherits soundness and completeness against the canonical encoder
   (Wire/ParseSound.v, Wire/PduProofs.v) *)
From LibcoapV Require Import Wire.OptCodecProofs Wire.PduProofs Wire.ParseSound.

Corollary ix_parse_sound_udp bs m :
  wfb bs -> ix_parse true UDP bs = IxOk m -> msg_wf m /\ serialize UDP m = bs.
Proof. intros W H. apply parse_sound_udp; [assumption|]. apply ix_parse_iff; assumption. Qed.

Corollary ix_parse_complete p m :
  msg_wf m -> wfb (serialize p m) -> ix_parse true p (serialize p m) = IxOk (norm_fields p m).
Proof. intros Wm Wb. apply ix_parse_iff; [assumption|]. apply parse_serialize. assumption. Qed.

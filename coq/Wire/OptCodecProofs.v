From LibcoapV Require Import Base.Tactics Base.Bytes Base.BytesProofs Wire.OptCodec.
Local Open Scope Z_scope.

(* ---- single field ---- *)

Lemma ext_nib_range x : 0 <= x -> 0 <= ext_nib x <= 14.
Proof. unfold ext_nib. intros. repeat case_if; lia. Qed.

Lemma rd_len_ext x r :
  0 <= x <= 65804 -> rd_len (ext_nib x) (ext_bytes x ++ r) = Some (x, r).
Proof.
  intros Hx. unfold ext_nib, ext_bytes, rd_len.
  destruct (x <? 13) eqn:E1.
  - rewrite E1. reflexivity.
  - destruct (x <? 269) eqn:E2.
    + cbn [Z.ltb Z.eqb Z.compare Pos.compare Pos.compare_cont Pos.eqb app].
      do 2 f_equal. lia.
    + cbn [Z.ltb Z.eqb Z.compare Pos.compare Pos.compare_cont Pos.eqb app].
      do 2 f_equal. lia.
Qed.

Lemma rd_delta_ext x r :
  0 <= x <= 65535 -> rd_delta (ext_nib x) (ext_bytes x ++ r) = Some (x, r).
Proof.
  intros Hx. unfold ext_nib, ext_bytes, rd_delta.
  destruct (x <? 13) eqn:E1.
  - rewrite E1. reflexivity.
  - destruct (x <? 269) eqn:E2.
    + cbn [Z.ltb Z.eqb Z.compare Pos.compare Pos.compare_cont Pos.eqb app].
      do 2 f_equal. lia.
    + cbn [Z.ltb Z.eqb Z.compare Pos.compare Pos.compare_cont Pos.eqb app].
      replace ((x - 269) / 256 mod 256 * 256 + 269 + (x - 269) mod 256) with x by lia.
      replace (x <=? 65535) with true by lia. reflexivity.
Qed.

Lemma ext_bytes_wfb x : 0 <= x <= 65804 -> wfb (ext_bytes x).
Proof.
  intros Hx. unfold ext_bytes, wfb, is_byte. repeat case_if; repeat constructor; lia.
Qed.

Lemma ext_bytes_len x : len (ext_bytes x) = ext_size x.
Proof. unfold ext_bytes, ext_size. repeat case_if; reflexivity. Qed.

(* ---- one option ---- *)

Theorem opt_parse_enc d v rest :
  0 <= d <= 65535 -> len v <= 65804 ->
  opt_parse (opt_enc d v ++ rest) = Some (d, v, rest).
Proof.
  intros Hd Hv. unfold opt_enc, opt_hdr, opt_parse.
  pose proof (len_nonneg v) as Hv0.
  pose proof (ext_nib_range d ltac:(lia)) as Nd.
  pose proof (ext_nib_range (len v) Hv0) as Nl.
  cbn [app].
  replace ((16 * ext_nib d + ext_nib (len v)) / 16) with (ext_nib d) by lia.
  replace ((16 * ext_nib d + ext_nib (len v)) mod 16) with (ext_nib (len v)) by lia.
  rewrite <- !app_assoc.
  rewrite rd_delta_ext by lia.
  rewrite rd_len_ext by lia.
  rewrite len_app.
  pose proof (len_nonneg rest).
  replace (len v <=? len v + len rest) with true by lia.
  rewrite take_app_exact, drop_app_exact. reflexivity.
Qed.

Theorem opt_enc_len d v : len (opt_enc d v) = opt_encode_size d (len v).
Proof.
  unfold opt_enc, opt_hdr, opt_encode_size.
  rewrite len_app, len_cons, len_app, !ext_bytes_len. lia.
Qed.

Lemma opt_hdr_wfb d l : 0 <= d <= 65535 -> 0 <= l <= 65804 -> wfb (opt_hdr d l).
Proof.
  intros Hd Hl. unfold opt_hdr. apply wfb_cons. split.
  - pose proof (ext_nib_range d ltac:(lia)). pose proof (ext_nib_range l ltac:(lia)).
    unfold is_byte. lia.
  - apply wfb_app. split; apply ext_bytes_wfb; lia.
Qed.

(* the first byte of an encoded option is never the payload marker *)
Lemma opt_enc_first d v rest :
  0 <= d -> exists b tl, opt_enc d v ++ rest = b :: tl /\ b <> PAYLOAD_START.
Proof.
  intros Hd. unfold opt_enc, opt_hdr. cbn [app]. eexists; eexists; split; [reflexivity|].
  pose proof (ext_nib_range d Hd). pose proof (ext_nib_range (len v) (len_nonneg v)).
  unfold PAYLOAD_START. lia.
Qed.

(* ---- inverse direction: what opt_parse accepts is an encoding ---- *)

Lemma rd_len_inv nib bs x r :
  0 <= nib < 16 -> wfb bs -> rd_len nib bs = Some (x, r) ->
  nib = ext_nib x /\ bs = ext_bytes x ++ r /\ 0 <= x <= 65804.
Proof.
  intros Hn Hb. unfold rd_len.
  destruct (nib <? 13) eqn:E1.
  - intros H; inversion H; subst. unfold ext_nib, ext_bytes. rewrite E1. cbn [app]. repeat split; try reflexivity; lia.
  - destruct (nib =? 13) eqn:E2.
    + destruct bs as [|b tl]; [discriminate|]. intros H; inversion H; subst.
      apply wfb_cons in Hb. destruct Hb as [Hb _]. unfold is_byte in Hb.
      unfold ext_nib, ext_bytes.
      replace (b + 13 <? 13) with false by lia. replace (b + 13 <? 269) with true by lia.
      cbn [app]. replace (b + 13 - 13) with b by lia. repeat split; try reflexivity; lia.
    + destruct (nib =? 14) eqn:E3; [|discriminate].
      destruct bs as [|b1 [|b2 tl]]; try discriminate. intros H; inversion H; subst.
      apply wfb_cons in Hb. destruct Hb as [Hb1 Hb]. apply wfb_cons in Hb. destruct Hb as [Hb2 _].
      unfold is_byte in *. unfold ext_nib, ext_bytes.
      replace (b1 * 256 + 269 + b2 <? 13) with false by lia.
      replace (b1 * 256 + 269 + b2 <? 269) with false by lia.
      cbn [app].
      replace ((b1 * 256 + 269 + b2 - 269) / 256 mod 256) with b1 by lia.
      replace ((b1 * 256 + 269 + b2 - 269) mod 256) with b2 by lia. repeat split; try reflexivity; lia.
Qed.

Lemma rd_delta_inv nib bs x r :
  0 <= nib < 16 -> wfb bs -> rd_delta nib bs = Some (x, r) ->
  nib = ext_nib x /\ bs = ext_bytes x ++ r /\ 0 <= x <= 65535.
Proof.
  intros Hn Hb. unfold rd_delta.
  destruct (nib <? 13) eqn:E1.
  - intros H; inversion H; subst. unfold ext_nib, ext_bytes. rewrite E1. cbn [app]. repeat split; try reflexivity; lia.
  - destruct (nib =? 13) eqn:E2.
    + destruct bs as [|b tl]; [discriminate|]. intros H; inversion H; subst.
      apply wfb_cons in Hb. destruct Hb as [Hb _]. unfold is_byte in Hb.
      unfold ext_nib, ext_bytes.
      replace (b + 13 <? 13) with false by lia. replace (b + 13 <? 269) with true by lia.
      cbn [app]. replace (b + 13 - 13) with b by lia. repeat split; try reflexivity; lia.
    + destruct (nib =? 14) eqn:E3; [|discriminate].
      destruct bs as [|b1 [|b2 tl]]; try discriminate.
      destruct (b1 * 256 + 269 + b2 <=? 65535) eqn:E4; [|discriminate].
      intros H; inversion H; subst.
      apply wfb_cons in Hb. destruct Hb as [Hb1 Hb]. apply wfb_cons in Hb. destruct Hb as [Hb2 _].
      unfold is_byte in *. unfold ext_nib, ext_bytes.
      replace (b1 * 256 + 269 + b2 <? 13) with false by lia.
      replace (b1 * 256 + 269 + b2 <? 269) with false by lia.
      cbn [app].
      replace ((b1 * 256 + 269 + b2 - 269) / 256 mod 256) with b1 by lia.
      replace ((b1 * 256 + 269 + b2 - 269) mod 256) with b2 by lia. repeat split; try reflexivity; lia.
Qed.

Theorem opt_parse_inv bs d v rest :
  wfb bs -> opt_parse bs = Some (d, v, rest) ->
  bs = opt_enc d v ++ rest /\ 0 <= d <= 65535 /\ len v <= 65804 /\ wfb v /\ wfb rest.
Proof.
  intros Hb. unfold opt_parse. destruct bs as [|b0 r0]; [discriminate|].
  apply wfb_cons in Hb. destruct Hb as [Hb0 Hr0]. unfold is_byte in Hb0.
  destruct (rd_delta (b0 / 16) r0) as [[d' r1]|] eqn:ED; [|discriminate].
  destruct (rd_len (b0 mod 16) r1) as [[l r2]|] eqn:EL; [|discriminate].
  destruct (l <=? len r2) eqn:E; [|discriminate].
  intros H; inversion H; subst; clear H.
  apply rd_delta_inv in ED; [|lia|assumption]. destruct ED as (Nd & -> & Hd).
  assert (Hr1 : wfb r1) by (apply wfb_app in Hr0; tauto).
  apply rd_len_inv in EL; [|lia|assumption]. destruct EL as (Nl & -> & Hl).
  assert (Hr2 : wfb r2) by (apply wfb_app in Hr1; tauto).
  assert (Hlen : len (take l r2) = l) by (apply len_take; lia).
  split; [|repeat split; try lia; auto using wfb_take, wfb_drop].
  unfold opt_enc, opt_hdr. rewrite Hlen. cbn [app]. rewrite <- !app_assoc.
  f_equal; [lia|]. f_equal. f_equal. symmetry. apply take_drop.
Qed.

(* The limit tables of the parser (Pdu.base_limit / Pdu.csm_limit, transcribed from
   coap_pdu_parse_opt_base / coap_pdu_parse_opt_csm and tied to the C by the limit sweep) are
   the tables of the RFCs (RfcLimits.v), for every option number, every code and every length -
   and the table the pinned tree started with was not. *)
From LibcoapV Require Import Base.Tactics Base.Bytes Wire.OptCodec Wire.Pdu Wire.RfcLimits.
Local Open Scope Z_scope.

(* every positive number above 2^11 is outside both tables; below, both compute *)
Ltac by_bits p :=
  do 11 (try (destruct p as [p|p|]; try reflexivity)).

Theorem base_limit_is_rfc n : base_limit n = rfc_base_limit n.
Proof. destruct n as [|p|p]; [reflexivity| |reflexivity]. by_bits p. Qed.

Theorem csm_limit_is_rfc code n : csm_limit code n = rfc_csm_limit code n.
Proof.
  destruct code as [|c|c]; [reflexivity| |reflexivity].
  do 9 (try (destruct c as [c|c|]; try reflexivity));
  (destruct n as [|p|p]; [reflexivity| |reflexivity]; do 4 (try (destruct p as [p|p|]; try reflexivity))).
Qed.

Theorem limit_ok_is_rfc code n l : limit_ok code n l = rfc_limit_ok code n l.
Proof. unfold limit_ok, rfc_limit_ok. rewrite base_limit_is_rfc, csm_limit_is_rfc. reflexivity. Qed.

Theorem limits_ok_is_rfc code os :
  limits_ok code os = forallb (fun o => rfc_limit_ok code (fst o) (len (snd o))) os.
Proof.
  unfold limits_ok. induction os as [|o tl IH]; cbn [forallb]; [reflexivity|].
  rewrite limit_ok_is_rfc, IH. reflexivity.
Qed.

(* the as-found table agrees with the RFCs everywhere except at four option numbers ... *)
Theorem as_found_agrees_elsewhere n :
  n <> 15 -> n <> 19 -> n <> 31 -> n <> 252 -> base_limit_as_found n = rfc_base_limit n.
Proof.
  intros H1 H2 H3 H4. destruct n as [|p|p]; [reflexivity| |reflexivity].
  do 11 (try (destruct p as [p|p|]; try reflexivity; try (exfalso; lia))).
Qed.

(* ... and there it differs, in both directions: a legal empty Uri-Query was refused; an empty
   Echo and 4-byte Q-Block1 / Q-Block2 values were accepted *)
Theorem as_found_refuted :
  in_range (base_limit_as_found 15) 0 = false /\ in_range (rfc_base_limit 15) 0 = true /\
  in_range (base_limit_as_found 252) 0 = true /\ in_range (rfc_base_limit 252) 0 = false /\
  in_range (base_limit_as_found 19) 4 = true /\ in_range (rfc_base_limit 19) 4 = false /\
  in_range (base_limit_as_found 31) 4 = true /\ in_range (rfc_base_limit 31) 4 = false.
Proof. repeat split; reflexivity. Qed.

From LibcoapV Require Import Base.Tactics Base.Bytes Base.BytesProofs Wire.OptCodec
  Wire.OptCodecProofs Wire.Pdu.
Local Open Scope Z_scope.

(* ---- well-formed abstract messages ---- *)

Definition opt_wf (o : opt) : Prop :=
  0 <= fst o <= 65535 /\ len (snd o) <= 65804 /\ wfb (snd o).

Fixpoint ascending (prev : Z) (l : list opt) : Prop :=
  match l with
  | [] => True
  | o :: tl => prev <= fst o /\ ascending (fst o) tl
  end.

Definition norm_fields (p : proto) (m : msg) : msg :=
  match p with
  | UDP => m
  | _ => mkMsg 0 (m_code m) 0 (m_token m) (m_opts m) (m_payload m)
  end.

Record msg_wf (m : msg) : Prop := {
  wf_type : 0 <= m_type m <= 3;
  wf_code : 0 <= m_code m <= 255;
  wf_mid : 0 <= m_mid m <= 65535;
  wf_token : len (m_token m) <= 65804 /\ wfb (m_token m);
  wf_opts : Forall opt_wf (m_opts m) /\ ascending 0 (m_opts m);
  wf_limits : limits_ok (m_code m) (m_opts m) = true;
  wf_payload : wfb (m_payload m);
  wf_empty : m_code m = 0 -> m_token m = [] /\ m_opts m = [] /\ m_payload m = [] }.

(* ---- option lists ---- *)

Definition tail_ok (tail : bytes) : Prop := tail = [] \/ exists p, tail = PAYLOAD_START :: p.

Lemma opts_parse_unfold fuel prev b tl :
  b <> PAYLOAD_START ->
  opts_parse (S fuel) prev (b :: tl) =
  match opt_parse (b :: tl) with
  | None => None
  | Some (d, v, rest) =>
      if prev + d <=? MAX_OPT then
        match opts_parse fuel (prev + d) rest with
        | None => None
        | Some (l, tail) => Some ((prev + d, v) :: l, tail)
        end
      else None
  end.
Proof.
  intros Hb. cbn [opts_parse]. destruct (b =? PAYLOAD_START) eqn:E; [lia|reflexivity].
Qed.

Lemma opts_parse_tail fuel prev tail :
  tail_ok tail -> opts_parse fuel prev tail = Some ([], tail).
Proof.
  intros [->|[p ->]]; destruct fuel; cbn [opts_parse]; try reflexivity;
    unfold PAYLOAD_START; reflexivity.
Qed.

Theorem opts_parse_enc l : forall prev tail fuel,
  0 <= prev -> ascending prev l -> Forall opt_wf l -> tail_ok tail ->
  (length l <= fuel)%nat ->
  opts_parse fuel prev (opts_enc prev l ++ tail) = Some (l, tail).
Proof.
  induction l as [|[n v] tl IH]; intros prev tail fuel Hp Hasc Hwf Htail Hfuel.
  - cbn [opts_enc app]. apply opts_parse_tail; assumption.
  - cbn [opts_enc]. cbn [ascending fst] in Hasc. destruct Hasc as [Hpn Hasc].
    inversion Hwf as [|? ? Ho Hwf']; subst. destruct Ho as (Hn & Hv & Hvb). cbn [fst snd] in *.
    destruct fuel as [|fuel]; [cbn [length] in Hfuel; lia|].
    rewrite <- app_assoc.
    destruct (opt_enc_first (n - prev) v (opts_enc n tl ++ tail) ltac:(lia)) as (b & r & Heq & Hb).
    rewrite Heq. rewrite opts_parse_unfold by assumption. rewrite <- Heq.
    rewrite opt_parse_enc by lia.
    replace (prev + (n - prev)) with n by lia.
    unfold MAX_OPT. replace (n <=? 65535) with true by lia.
    rewrite IH; try assumption; try lia. reflexivity.
    cbn [length] in Hfuel. lia.
Qed.

Lemma opts_enc_length l : forall prev, (length l <= length (opts_enc prev l))%nat.
Proof.
  induction l as [|[n v] tl IH]; intros prev; cbn [opts_enc length]; [lia|].
  unfold opt_enc, opt_hdr. cbn [app length]. rewrite !app_length. specialize (IH n). lia.
Qed.

(* ---- token ---- *)

Lemma tkl_nib_range t : 0 <= tkl_nib t <= 14.
Proof. unfold tkl_nib. pose proof (len_nonneg t). repeat case_if; lia. Qed.

Lemma parse_token_area t rest :
  len t <= 65804 -> parse_token (tkl_nib t) (token_area t ++ rest) = Some (t, rest).
Proof.
  intros Ht. pose proof (len_nonneg t) as H0. pose proof (len_nonneg rest) as H1.
  unfold tkl_nib, token_area, parse_token.
  destruct (len t <? 13) eqn:E1.
  - rewrite E1. rewrite len_app. replace (len t <=? len t + len rest) with true by lia.
    rewrite take_app_exact, drop_app_exact. reflexivity.
  - destruct (len t <? 269) eqn:E2.
    + cbn [Z.ltb Z.eqb Z.compare Pos.compare Pos.compare_cont Pos.eqb app].
      replace (len t - 13 + 13) with (len t) by lia. rewrite len_app.
      replace (len t <=? len t + len rest) with true by lia.
      rewrite take_app_exact, drop_app_exact. reflexivity.
    + cbn [Z.ltb Z.eqb Z.compare Pos.compare Pos.compare_cont Pos.eqb app be16].
      replace ((len t - 269) / 256 mod 256 * 256 + (len t - 269) mod 256 + 269) with (len t) by lia.
      rewrite len_app. replace (len t <=? len t + len rest) with true by lia.
      rewrite take_app_exact, drop_app_exact. reflexivity.
Qed.

(* ---- header ---- *)

Lemma header_shape p m :
  msg_wf m ->
  exists b0 tl, header p m = b0 :: tl /\ header_size p b0 = len (header p m) /\
                b0 mod 16 = tkl_nib (m_token m).
Proof.
  intros W. pose proof (tkl_nib_range (m_token m)) as Ht.
  destruct W as [Hty _ _ _ _ _ _ _].
  destruct p; unfold header.
  - eexists; eexists; split; [reflexivity|]. split; [reflexivity|]. lia.
  - pose proof (len_nonneg (content_area m)) as Hl.
    destruct (len (content_area m) <=? 12) eqn:E1;
      [|destruct (len (content_area m) <=? 268) eqn:E2;
        [|destruct (len (content_area m) <=? 65804) eqn:E3]];
      (eexists; eexists; split; [reflexivity|]); unfold header_size;
      match goal with |- context [?x / 16] => set (q := x / 16) end.
    + assert (q = len (content_area m)) by (subst q; lia).
      replace (q <? 13) with true by lia. split; [reflexivity|lia].
    + assert (q = 13) by (subst q; lia).
      replace (q <? 13) with false by lia. replace (q =? 13) with true by lia.
      split; [reflexivity|lia].
    + assert (q = 14) by (subst q; lia).
      replace (q <? 13) with false by lia. replace (q =? 13) with false by lia.
      replace (q =? 14) with true by lia. split; [reflexivity|lia].
    + assert (q = 15) by (subst q; lia).
      replace (q <? 13) with false by lia. replace (q =? 13) with false by lia.
      replace (q =? 14) with false by lia. split; [reflexivity|lia].
  - eexists; eexists; split; [reflexivity|]. split; [reflexivity|]. lia.
Qed.

Lemma header_last p m : p <> UDP -> last_byte (header p m) = m_code m.
Proof.
  intros Hp. destruct p; [congruence| |reflexivity].
  unfold header, last_byte. repeat case_if; reflexivity.
Qed.

(* ---- the round trip ---- *)

Theorem parse_serialize p m : msg_wf m -> parse p (serialize p m) = Some (norm_fields p m).
Proof.
  intros W. destruct (header_shape p m W) as (b0 & htl & Hh & Hsz & Htk).
  pose proof W as W'. destruct W' as [Hty Hco Hmid [Htl Htb] [Hof Hasc] Hlim Hpl Hemp].
  unfold serialize, parse. rewrite Hh. cbn [app]. rewrite Hsz.
  change (b0 :: htl ++ token_area (m_token m) ++ content_area m)
    with ((b0 :: htl) ++ token_area (m_token m) ++ content_area m).
  rewrite <- Hh.
  rewrite len_app. pose proof (len_nonneg (token_area (m_token m) ++ content_area m)) as Hn.
  replace (len (header p m) + len (token_area (m_token m) ++ content_area m) <? len (header p m))
    with false by lia.
  rewrite take_app_exact, drop_app_exact. rewrite Htk.
  rewrite parse_token_area by assumption.
  assert (Hfields :
    match p, header p m with
    | UDP, [h0; h1; h2; h3] =>
        if h0 / 64 =? 1 then Some ((h0 / 16) mod 4, h1, h2 * 256 + h3) else None
    | UDP, _ => None
    | _, _ => Some (0, last_byte (header p m), 0)
    end = Some (m_type (norm_fields p m), m_code m, m_mid (norm_fields p m))).
  { destruct p.
    - unfold header, norm_fields. pose proof (tkl_nib_range (m_token m)) as Ht.
      replace ((64 + 16 * m_type m + tkl_nib (m_token m)) / 64 =? 1) with true by lia.
      do 2 f_equal; [f_equal|]; lia.
    - rewrite header_last by congruence.
      destruct (header TCP m) as [|? [|? [|? [|? [|? ?]]]]]; reflexivity.
    - rewrite header_last by congruence.
      destruct (header WS m) as [|? [|? [|? [|? [|? ?]]]]]; reflexivity. }
  rewrite Hfields. clear Hfields.
  destruct (m_code m =? 0) eqn:Ec.
  - assert (Hc0 : m_code m = 0) by lia. destruct (Hemp Hc0) as (Et & Eo & Ep).
    unfold content_area. rewrite Et, Eo, Ep. cbn [token_area opts_enc payload_area app len length].
    cbn [Z.of_nat Z.ltb Z.compare app].
    destruct p; unfold norm_fields; destruct m; cbn in *; subst; reflexivity.
  - unfold content_area.
    assert (Htail : tail_ok (payload_area (m_payload m))).
    { unfold tail_ok, payload_area. destruct (m_payload m); [left|right; eexists]; reflexivity. }
    rewrite opts_parse_enc; try assumption; try lia.
    2:{ rewrite app_length. pose proof (opts_enc_length (m_opts m) 0). lia. }
    rewrite Hlim.
    unfold payload_area. destruct (m_payload m) as [|x xs] eqn:Epl.
    + destruct p; unfold norm_fields; destruct m; cbn in *; subst; reflexivity.
    + destruct p; unfold norm_fields; destruct m; cbn in *; subst; reflexivity.
Qed.

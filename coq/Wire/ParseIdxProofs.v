(* C02 - the index-level parser of Wire/ParseIdx.v never reads outside the received bytes and
   never runs out of fuel, for every byte string and every framing. *)
From LibcoapV Require Import Base.Tactics Base.Bytes Base.BytesProofs Wire.OptCodec Wire.Pdu
  Wire.ParseIdx.
Local Open Scope Z_scope.

Lemma ix_rd_in buf i : 0 <= i < len buf -> exists b, ix_rd buf i = IxOk b.
Proof. intros H. unfold ix_rd. replace ((0 <=? i) && (i <? len buf)) with true by lia. eauto. Qed.

Lemma ix_rd_byte buf i b : wfb buf -> ix_rd buf i = IxOk b -> is_byte b /\ 0 <= i < len buf.
Proof.
  intros W. unfold ix_rd. destruct ((0 <=? i) && (i <? len buf)) eqn:E; [|discriminate].
  intros H. inversion H; subst. split; [|lia].
  unfold wfb in W. rewrite Forall_forall in W. apply W. apply nth_In. unfold len in E. lia.
Qed.

Ltac rd_ok buf i b Hb :=
  let H := fresh "H" in
  assert (H : exists b, ix_rd buf i = IxOk b) by (apply ix_rd_in; lia);
  destruct H as (b & Hb); rewrite Hb; cbn [ix_bind].

Definition ix_good {A} (r : ix_res A) (P : A -> Prop) : Prop :=
  match r with IxOk a => P a | IxRej => True | IxOob => False | IxFuel => False end.

Ltac ixg := unfold ix_good; cbv beta iota zeta; cbn [fst snd].
Ltac ixg_in H := unfold ix_good in H; cbv beta iota zeta in H; cbn [fst snd] in H.

Lemma ix_adv_chk_spec o e :
  ix_good (ix_adv_chk o e) (fun p => fst p = o + 1 /\ snd p = e - 1 /\ 1 <= snd p).
Proof. unfold ix_adv_chk. repeat case_if; ixg; auto. repeat split; lia. Qed.

Lemma ix_delta_spec buf dn o e :
  wfb buf -> 0 <= o -> 1 <= e -> o + e <= len buf -> 0 <= dn ->
  ix_good (ix_delta buf dn o e)
    (fun r => let '(d, o1, e1) := r in 0 <= d /\ o <= o1 <= o + 2 /\ o1 + e1 = o + e /\ 1 <= e1).
Proof.
  intros W Ho He Hb Hd. unfold ix_delta.
  destruct (dn =? 15); [exact I|].
  destruct (dn =? 14).
  - pose proof (ix_adv_chk_spec o e) as A1. destruct (ix_adv_chk o e) as [[o1 e1]| | |]; ixg_in A1;
      try contradiction; [|exact I]. destruct A1 as (-> & -> & A1). cbn [ix_bind fst snd].
    rd_ok buf (o + 1) b Hb1. destruct (ix_rd_byte _ _ _ W Hb1) as [Bb _].
    destruct ((b * 256 + 269) mod 65536 <? 269); [exact I|].
    pose proof (ix_adv_chk_spec (o + 1) (e - 1)) as A2.
    destruct (ix_adv_chk (o + 1) (e - 1)) as [[o2 e2]| | |]; ixg_in A2; try contradiction;
      [|exact I]. destruct A2 as (-> & -> & A2). cbn [ix_bind fst snd].
    rd_ok buf (o + 1 + 1) b2 Hb2. destruct (ix_rd_byte _ _ _ W Hb2) as [Bb2 _].
    destruct (65535 <? _); [exact I|]. ixg. unfold is_byte in *. repeat split; lia.
  - destruct (dn =? 13).
    + pose proof (ix_adv_chk_spec o e) as A1. destruct (ix_adv_chk o e) as [[o1 e1]| | |];
        ixg_in A1; try contradiction; [|exact I]. destruct A1 as (-> & -> & A1).
      cbn [ix_bind fst snd]. rd_ok buf (o + 1) b Hb1. destruct (ix_rd_byte _ _ _ W Hb1) as [Bb _].
      destruct (65535 <? _); [exact I|]. ixg. unfold is_byte in *. repeat split; lia.
    + ixg. repeat split; lia.
Qed.

Lemma ix_length_spec buf ln o e :
  wfb buf -> 0 <= o -> 1 <= e -> o + e <= len buf -> 0 <= ln ->
  ix_good (ix_length buf ln o e)
    (fun r => let '(l, o1, e1) := r in 0 <= l /\ o <= o1 <= o + 2 /\ o1 + e1 = o + e /\ 1 <= e1).
Proof.
  intros W Ho He Hb Hd. unfold ix_length.
  destruct (ln =? 15); [exact I|].
  destruct (ln =? 14).
  - pose proof (ix_adv_chk_spec o e) as A1. destruct (ix_adv_chk o e) as [[o1 e1]| | |]; ixg_in A1;
      try contradiction; [|exact I]. destruct A1 as (-> & -> & A1). cbn [ix_bind fst snd].
    rd_ok buf (o + 1) b Hb1. destruct (ix_rd_byte _ _ _ W Hb1) as [Bb _].
    pose proof (ix_adv_chk_spec (o + 1) (e - 1)) as A2.
    destruct (ix_adv_chk (o + 1) (e - 1)) as [[o2 e2]| | |]; ixg_in A2; try contradiction;
      [|exact I]. destruct A2 as (-> & -> & A2). cbn [ix_bind fst snd].
    rd_ok buf (o + 1 + 1) b2 Hb2. destruct (ix_rd_byte _ _ _ W Hb2) as [Bb2 _].
    ixg. unfold is_byte in *. repeat split; lia.
  - destruct (ln =? 13).
    + pose proof (ix_adv_chk_spec o e) as A1. destruct (ix_adv_chk o e) as [[o1 e1]| | |];
        ixg_in A1; try contradiction; [|exact I]. destruct A1 as (-> & -> & A1).
      cbn [ix_bind fst snd]. rd_ok buf (o + 1) b Hb1. destruct (ix_rd_byte _ _ _ W Hb1) as [Bb _].
      ixg. unfold is_byte in *. repeat split; lia.
    + ixg. repeat split; lia.
Qed.

(* coap_opt_parse on a window inside the received bytes: no read outside, and what it returns
   lies inside the window *)
Theorem ix_opt_parse_spec buf o e :
  wfb buf -> 0 <= o -> o + e <= len buf ->
  ix_good (ix_opt_parse buf o e)
    (fun r => let '(d, l, h) := r in 0 <= d /\ 0 <= l /\ 1 <= h <= 5 /\ h + l <= e).
Proof.
  intros W Ho Hb. unfold ix_opt_parse.
  destruct (e <? 1) eqn:E1; [exact I|].
  rd_ok buf o b0 Hb0. destruct (ix_rd_byte _ _ _ W Hb0) as [B0 _]. unfold is_byte in B0.
  pose proof (ix_delta_spec buf (b0 / 16) o e W Ho ltac:(lia) Hb ltac:(lia)) as D.
  destruct (ix_delta buf (b0 / 16) o e) as [[[d o1] e1]| | |]; ixg_in D; try contradiction;
    [|exact I]. cbn [ix_bind]. destruct D as (Hd & Ho1 & Hs1 & He1).
  pose proof (ix_length_spec buf (b0 mod 16) o1 e1 W ltac:(lia) He1 ltac:(lia) ltac:(lia)) as L.
  destruct (ix_length buf (b0 mod 16) o1 e1) as [[[l o2] e2]| | |]; ixg_in L; try contradiction;
    [|exact I]. cbn [ix_bind]. destruct L as (Hl & Ho2 & Hs2 & He2).
  unfold ix_adv. replace (e2 <? 1) with false by lia. cbn [ix_bind fst snd].
  destruct (e2 - 1 <? l) eqn:E3; [exact I|]. ixg. repeat split; lia.
Qed.

(* the option loop: no read outside, never out of fuel when fuel covers the window, and the
   window only shrinks *)
Theorem ix_opts_spec buf code : forall fuel o e maxopt good,
  wfb buf -> 0 <= o -> 0 <= e -> o + e <= len buf -> e <= Z.of_nat fuel ->
  ix_good (ix_opts fuel buf code o e maxopt good)
    (fun r => let '(os, o', e', g) := r in o <= o' /\ o' + e' = o + e /\ 0 <= e' /\
                                          (0 < e -> e' <= e)).
Proof.
  induction fuel as [|f IH]; intros o e maxopt good W Ho He0 Hb Hf.
  - cbn [ix_opts]. destruct (e <=? 0) eqn:E; [ixg; repeat split; lia | lia].
  - cbn [ix_opts]. destruct (e <=? 0) eqn:E; [ixg; repeat split; lia|].
    rd_ok buf o b Hbo. destruct (b =? PAYLOAD_START); [ixg; repeat split; lia|].
    pose proof (ix_opt_parse_spec buf o e W Ho Hb) as P.
    destruct (ix_opt_parse buf o e) as [[[d l] h]| | |]; ixg_in P; try contradiction.
    + destruct P as (Hd & Hl & Hh & Hhl).
      destruct (MAX_OPT <? maxopt + d); [ixg; repeat split; lia|].
      specialize (IH (o + h + l) (e - (h + l)) (maxopt + d)
                     (good && limit_ok code (maxopt + d) l) W ltac:(lia) ltac:(lia) ltac:(lia) ltac:(lia)).
      destruct (ix_opts f buf code (o + h + l) (e - (h + l)) (maxopt + d) _)
        as [[[[os o'] e'] g]| | |]; ixg_in IH; try contradiction; [|exact I].
      ixg. destruct IH as (I1 & I2 & I3 & I4). repeat split; lia.
    + ixg. repeat split; lia.
Qed.

Lemma header_size_range p b0 : 2 <= header_size p b0 <= 6.
Proof. unfold header_size. destruct p; repeat case_if; lia. Qed.

Lemma header_size_udp b0 : header_size UDP b0 = 4.
Proof. reflexivity. Qed.

Lemma ix_body_safe buf hs ty code mid tkl :
  wfb buf -> 2 <= hs <= len buf -> 0 <= tkl ->
  ix_good (ix_body true buf hs ty code mid tkl) (fun _ => True).
Proof.
  intros W Hhs Htkl. unfold ix_body.
  assert (T : ix_good
    (if tkl <? 13 then IxOk (tkl, 0)
     else if tkl =? 13
          then if true && (len buf - hs <? 1) then IxRej
               else t0 <- ix_rd buf hs;; IxOk (t0 + 13 + 1, 1)
          else if tkl =? 14
               then if true && (len buf - hs <? 2) then IxRej
                    else t0 <- ix_rd buf hs;; t1 <- ix_rd buf (hs + 1);;
                         IxOk (t0 * 256 + t1 + 269 + 2, 2)
               else IxOk (0, 0)) (fun r => 0 <= fst r)).
  { destruct (tkl <? 13); [ixg; lia|].
    destruct (tkl =? 13).
    - cbn [andb]. destruct (len buf - hs <? 1) eqn:E1; [exact I|].
      rd_ok buf hs t0 Ht0. destruct (ix_rd_byte _ _ _ W Ht0) as [Bt _]. unfold is_byte in Bt.
      ixg. lia.
    - destruct (tkl =? 14); [|ixg; lia].
      cbn [andb]. destruct (len buf - hs <? 2) eqn:E2; [exact I|].
      rd_ok buf hs t0 Ht0. rd_ok buf (hs + 1) t1 Ht1.
      destruct (ix_rd_byte _ _ _ W Ht0) as [Bt _]. destruct (ix_rd_byte _ _ _ W Ht1) as [Bt1 _].
      unfold is_byte in *. ixg. lia. }
  match goal with |- ix_good (ix_bind ?m _) _ => destruct m as [[etl ext]| | |] end;
    ixg_in T; try contradiction; [|exact I]. cbn [ix_bind].
  destruct ((len buf - hs <? etl) || (tkl =? 15)) eqn:Ee; [exact I|].
  destruct ((code =? 0) && _); [exact I|].
  destruct (code =? 0); [exact I|].
  pose proof (ix_opts_spec buf code (Z.to_nat (len buf - hs - etl)) (hs + etl) (len buf - hs - etl)
                0 true W ltac:(lia) ltac:(lia) ltac:(lia) ltac:(lia)) as O.
  destruct (ix_opts (Z.to_nat (len buf - hs - etl)) buf code (hs + etl) (len buf - hs - etl) 0 true)
    as [[[[os o] e] g]| | |]; ixg_in O; try contradiction; [|exact I].
  cbn [ix_bind]. destruct (negb g); [exact I|].
  destruct (0 <? e); [destruct (e - 1 =? 0)|]; exact I.
Qed.

(* C02, parser part: for every byte string and every framing, the repaired parser touches only
   the bytes it was given and terminates (with accept or reject) *)
Theorem ix_parse_safe p buf :
  wfb buf -> ix_parse true p buf <> IxOob /\ ix_parse true p buf <> IxFuel.
Proof.
  intros W.
  assert (G : ix_good (ix_parse true p buf) (fun _ => True));
    [|destruct (ix_parse true p buf); ixg_in G; try contradiction; split; discriminate].
  unfold ix_parse. pose proof (len_nonneg buf) as Hn.
  destruct (len buf =? 0) eqn:E0; [exact I|].
  rd_ok buf 0 b0 Hb0. destruct (ix_rd_byte _ _ _ W Hb0) as [B0 _]. unfold is_byte in B0.
  pose proof (header_size_range p b0) as Hhs.
  destruct (len buf <? header_size p b0) eqn:Eh; [exact I|].
  set (hs := header_size p b0) in *.
  assert (F : ix_good
    (match p with
     | UDP => h1 <- ix_rd buf 1;; h2 <- ix_rd buf 2;; h3 <- ix_rd buf 3;;
              (if b0 / 64 =? 1 then IxOk ((b0 / 16) mod 4, h1, h2 * 256 + h3) else IxRej)
     | _ => c <- ix_rd buf (hs - 1);; IxOk (0, c, 0)
     end) (fun _ => True)).
  { destruct p.
    - assert (hs = 4) by reflexivity.
      rd_ok buf 1 h1 H1. rd_ok buf 2 h2 H2. rd_ok buf 3 h3 H3. destruct (b0 / 64 =? 1); exact I.
    - rd_ok buf (hs - 1) c Hc. exact I.
    - rd_ok buf (hs - 1) c Hc. exact I. }
  match goal with |- ix_good (ix_bind ?m _) _ => destruct m as [[[ty code] mid]| | |] end;
    ixg_in F; try contradiction; [|exact I]. cbn [ix_bind]. clear F.
  apply ix_body_safe; [assumption | lia | lia].
Qed.

(* the code as found reads the extended-token length byte of a datagram that ends right after
   its 4-byte header (uninitialised heap bytes decide a branch in coap_pdu_parse_header) *)
Theorem ix_parse_as_found_reads_unreceived_byte :
  exists buf, wfb buf /\ ix_parse false UDP buf = IxOob.
Proof.
  exists [77; 1; 0; 0]. split; [|vm_compute; reflexivity].
  repeat constructor; unfold is_byte; lia.
Qed.

(* malformed input is never handed on: whatever is rejected yields no message *)
Theorem ix_parse_reject_no_message p buf :
  ix_parse true p buf = IxRej -> forall m, ix_parse true p buf <> IxOk m.
Proof. intros H m. rewrite H. discriminate. Qed.

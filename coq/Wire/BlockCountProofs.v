From LibcoapV Require Import Base.Tactics Wire.BlockCount.
Local Open Scope Z_scope.

(* for every size a peer can declare and every block size, the count is the ceiling of
   total / chunk: count blocks cover the body and count - 1 do not *)
Theorem bc_count_exact total chunk :
  0 <= total < U32 -> 16 <= chunk <= 1024 ->
  let n := bc_count total chunk in
  total <= n * chunk /\ (0 < total -> (n - 1) * chunk < total) /\ (total = 0 -> n = 0).
Proof.
  intros Ht Hc. unfold bc_count, U32 in *. cbv zeta.
  assert (H : 0 <= (total + chunk - 1) / chunk < 4294967296).
  { split; [apply Z.div_pos; lia|]. apply Z.div_lt_upper_bound; lia. }
  rewrite Z.mod_small by exact H.
  pose proof (Z.div_mod (total + chunk - 1) chunk ltac:(lia)) as E.
  pose proof (Z.mod_pos_bound (total + chunk - 1) chunk ltac:(lia)) as B.
  set (q := (total + chunk - 1) / chunk) in *. set (m := (total + chunk - 1) mod chunk) in *.
  clearbody q m. repeat split; intros; nia.
Qed.

(* the count of the pinned tree is wrong exactly at the top of the range: a declared size within
   chunk - 1 bytes of 2^32 gives a count near 0, so one received block "completes" the body *)
Theorem bc_count_as_found_refuted :
  bc_count_as_found 4294967295 64 = 0 /\ bc_count 4294967295 64 = 67108864 /\
  bc_count_as_found 4294967233 64 = 0 /\ bc_count_as_found 4294967232 64 = 67108863.
Proof. vm_compute. repeat split; reflexivity. Qed.

Theorem bc_count_as_found_agrees_below total chunk :
  0 <= total -> 16 <= chunk <= 1024 -> total + chunk - 1 < U32 ->
  bc_count_as_found total chunk = bc_count total chunk.
Proof.
  intros Ht Hc Hs. unfold bc_count, bc_count_as_found, U32 in *.
  rewrite (Z.mod_small (total + chunk - 1)) by lia.
  rewrite Z.mod_small; [reflexivity|].
  split; [apply Z.div_pos; lia|]. apply Z.div_lt_upper_bound; lia.
Qed.

(* Stream framing: coap_pdu_parse_size (src/coap_pdu.c), the function the TCP/TLS reader uses to
   cut the byte stream into messages: value of the Len field plus the size of the token area
   (token-length extension bytes + token), computed from the first header_size + extension
   bytes of a message.  For WebSocket the function yields 0 (the frame length delimits).
   [bs] must hold the header and the token-length extension bytes (the caller's contract). *)
From Coq Require Import ZArith List Bool.
From LibcoapV Require Import Base.Bytes Wire.OptCodec Wire.Pdu.
Import ListNotations.
Local Open Scope Z_scope.

(* value of the Len field and what follows the length bytes *)
Definition fr_len_field (bs : bytes) : option (Z * bytes) :=
  match bs with
  | [] => None
  | b0 :: r =>
      let l := b0 / 16 in
      if l <? 13 then Some (l, r)
      else if l =? 13 then
        match r with b1 :: r' => Some (b1 + 13, r') | _ => None end
      else if l =? 14 then
        match r with b1 :: b2 :: r' => Some (b1 * 256 + b2 + 269, r') | _ => None end
      else
        match r with
        | b1 :: b2 :: b3 :: b4 :: r' => Some (((b1 * 256 + b2) * 256 + b3) * 256 + b4 + 65805, r')
        | _ => None
        end
  end.

Definition fr_tok_area_size (tkl : Z) (area : bytes) : Z :=
  if tkl <? 13 then tkl
  else if tkl =? 13 then match area with t0 :: _ => t0 + 13 + 1 | _ => 0 end
  else if tkl =? 14 then match area with t0 :: t1 :: _ => t0 * 256 + t1 + 269 + 2 | _ => 0 end
  else 0.

Definition fr_parse_size (p : proto) (bs : bytes) : Z :=
  match p with
  | TCP =>
      match bs, fr_len_field bs with
      | b0 :: _, Some (l, _code :: area) => l + fr_tok_area_size (b0 mod 16) area
      | _, _ => 0
      end
  | _ => 0
  end.

(* C02 - index-level transcription of the datagram/stream message parser:
     src/coap_option.c  coap_opt_parse (ADVANCE_OPT / ADVANCE_OPT_CHECK)
     src/coap_pdu.c     coap_pdu_parse, coap_pdu_parse_header_size, coap_pdu_parse_header,
                        coap_pdu_parse_opt, next_option_safe
   The buffer is exactly the bytes that were received; every dereference of the C code is a
   checked read [ix_rd]: an index outside the received bytes yields [Oob] (for the real code
   that is a read of bytes that were never received: heap garbage or beyond the allocation).
   Slices ([ix_slice]) are pointer+length pairs in the C and read nothing.  The option loop
   carries fuel; [Fuel] is the distinguished out-of-fuel result.  "The parser never reads
   outside what it was given and terminates" is then a theorem about [ix_parse]
   (Wire/ParseIdxProofs.v), and [ix_parse] is tied to coap_pdu_parse on every run.

   [guard] = true is the code after the repair of coap_pdu_parse_header (the extended-token
   length bytes are read only when they were received); [guard] = false is the code as found.

   Not transcribed (their reads stay inside the bytes the walk above has already validated):
   the second walk of coap_pdu_parse_opt that dumps a malformed option list at debug level, and
   coap_opt_length() on the option just parsed.  Definitions only; global names carry ix_. *)
From Coq Require Import ZArith List Bool.
From LibcoapV Require Import Base.Bytes Wire.OptCodec Wire.Pdu.
Import ListNotations.
Local Open Scope Z_scope.

Inductive ix_res (A : Type) := IxOk (a : A) | IxRej | IxOob | IxFuel.
Arguments IxOk {A} a.
Arguments IxRej {A}.
Arguments IxOob {A}.
Arguments IxFuel {A}.

Definition ix_bind {A B} (r : ix_res A) (f : A -> ix_res B) : ix_res B :=
  match r with IxOk a => f a | IxRej => IxRej | IxOob => IxOob | IxFuel => IxFuel end.
Notation "x <- r ;; k" := (ix_bind r (fun x => k)) (at level 61, r at next level, right associativity).

Definition ix_rd (buf : bytes) (i : Z) : ix_res Z :=
  if (0 <=? i) && (i <? len buf) then IxOk (nth (Z.to_nat i) buf 0) else IxOob.

Definition ix_slice (buf : bytes) (off n : Z) : bytes := take n (drop off buf).

(* ADVANCE_OPT_CHECK(opt, length, 1) / ADVANCE_OPT(opt, length, 1) on (opt index, length) *)
Definition ix_adv_chk (o e : Z) : ix_res (Z * Z) :=
  if e <? 1 then IxRej else if e - 1 <? 1 then IxRej else IxOk (o + 1, e - 1).
Definition ix_adv (o e : Z) : ix_res (Z * Z) :=
  if e <? 1 then IxRej else IxOk (o + 1, e - 1).

(* the delta switch; result (delta, opt index, remaining length) *)
Definition ix_delta (buf : bytes) (dn o e : Z) : ix_res (Z * Z * Z) :=
  if dn =? 15 then IxRej
  else if dn =? 14 then
    p <- ix_adv_chk o e ;;
    b <- ix_rd buf (fst p) ;;
    let d := (b * 256 + 269) mod 65536 in          (* uint16_t result->delta *)
    if d <? 269 then IxRej else
    p2 <- ix_adv_chk (fst p) (snd p) ;;
    b2 <- ix_rd buf (fst p2) ;;
    if 65535 <? d + b2 then IxRej else IxOk (d + b2, fst p2, snd p2)
  else if dn =? 13 then
    p <- ix_adv_chk o e ;;
    b <- ix_rd buf (fst p) ;;
    if 65535 <? 13 + b then IxRej else IxOk (13 + b, fst p, snd p)
  else IxOk (dn, o, e).

(* the length switch (size_t: no width limit that matters) *)
Definition ix_length (buf : bytes) (ln o e : Z) : ix_res (Z * Z * Z) :=
  if ln =? 15 then IxRej
  else if ln =? 14 then
    p <- ix_adv_chk o e ;;
    b <- ix_rd buf (fst p) ;;
    p2 <- ix_adv_chk (fst p) (snd p) ;;
    b2 <- ix_rd buf (fst p2) ;;
    IxOk (b * 256 + 269 + b2, fst p2, snd p2)
  else if ln =? 13 then
    p <- ix_adv_chk o e ;;
    b <- ix_rd buf (fst p) ;;
    IxOk (13 + b, fst p, snd p)
  else IxOk (ln, o, e).

(* coap_opt_parse(opt = buf + o, length = e): (delta, value length, header length); the value
   starts at o + header length; the function returns header length + value length *)
Definition ix_opt_parse (buf : bytes) (o e : Z) : ix_res (Z * Z * Z) :=
  if e <? 1 then IxRej else
  b0 <- ix_rd buf o ;;
  r1 <- ix_delta buf (b0 / 16) o e ;;
  let '(d, o1, e1) := r1 in
  r2 <- ix_length buf (b0 mod 16) o1 e1 ;;
  let '(l, o2, e2) := r2 in
  p3 <- ix_adv o2 e2 ;;
  if snd p3 <? l then IxRej else IxOk (d, l, fst p3 - o).

(* the option loop of coap_pdu_parse_opt; result: options, opt index and remaining length at
   loop exit, and the [good] flag *)
Fixpoint ix_opts (fuel : nat) (buf : bytes) (code o e maxopt : Z) (good : bool)
  : ix_res (list opt * Z * Z * bool) :=
  if e <=? 0 then IxOk ([], o, e, good) else
  b <- ix_rd buf o ;;
  if b =? PAYLOAD_START then IxOk ([], o, e, good) else
  match fuel with
  | O => IxFuel
  | S f =>
      match ix_opt_parse buf o e with
      | IxOob => IxOob
      | IxFuel => IxFuel
      | IxRej => IxOk ([], o, e, false)                  (* optsize = 0: good = 0; break *)
      | IxOk (d, l, h) =>
          if MAX_OPT <? maxopt + d then IxOk ([], o, e, false)   (* next_option_safe: 0 *)
          else
            let n := maxopt + d in
            r <- ix_opts f buf code (o + h + l) (e - (h + l)) n (good && limit_ok code n l) ;;
            let '(os, o', e', g) := r in
            IxOk ((n, ix_slice buf (o + h) l) :: os, o', e', g)
      end
  end.

(* coap_pdu_parse_header (token part) + coap_pdu_parse_opt, once the header size [hs] and the
   header fields are known; used = bytes after the header *)
Definition ix_body (guard : bool) (buf : bytes) (hs ty code mid tkl : Z) : ix_res msg :=
  let used := len buf - hs in
  te <- (if tkl <? 13 then IxOk (tkl, 0)
         else if tkl =? 13 then
           if guard && (used <? 1) then IxRej else
           t0 <- ix_rd buf hs ;; IxOk (t0 + 13 + 1, 1)
         else if tkl =? 14 then
           if guard && (used <? 2) then IxRej else
           t0 <- ix_rd buf hs ;; t1 <- ix_rd buf (hs + 1) ;; IxOk (t0 * 256 + t1 + 269 + 2, 2)
         else IxOk (0, 0)) ;;
  let '(etl, ext) := te in
  if (used <? etl) || (tkl =? 15) then IxRej else
  if (code =? 0) && (negb (used =? 0) || negb (etl =? 0)) then IxRej else
  if code =? 0 then IxOk (mkMsg ty code mid [] [] []) else
  r <- ix_opts (Z.to_nat (used - etl)) buf code (hs + etl) (used - etl) 0 true ;;
  let '(os, o, e, good) := r in
  if negb good then IxRej else
  let tok := ix_slice buf (hs + ext) (etl - ext) in
  if 0 <? e then
    if e - 1 =? 0 then IxRej else IxOk (mkMsg ty code mid tok os (ix_slice buf (o + 1) (e - 1)))
  else IxOk (mkMsg ty code mid tok os []).

(* coap_pdu_parse for the three framings; [buf] = the received message, length = len buf *)
Definition ix_parse (guard : bool) (p : proto) (buf : bytes) : ix_res msg :=
  let n := len buf in
  if n =? 0 then IxRej else
  b0 <- ix_rd buf 0 ;;
  let hs := header_size p b0 in
  if n <? hs then IxRej else
  f <- match p with
       | UDP => h1 <- ix_rd buf 1 ;; h2 <- ix_rd buf 2 ;; h3 <- ix_rd buf 3 ;;
                if b0 / 64 =? 1 then IxOk ((b0 / 16) mod 4, h1, h2 * 256 + h3) else IxRej
       | _ => c <- ix_rd buf (hs - 1) ;; IxOk (0, c, 0)
       end ;;
  let '(ty, code, mid) := f in
  ix_body guard buf hs ty code mid (b0 mod 16).

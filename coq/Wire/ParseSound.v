(* Soundness of the parser model: whatever [parse] accepts is the canonical encoding of the
   message it returns, and that message is well-formed (C03). *)
From LibcoapV Require Import Base.Tactics Base.Bytes Base.BytesProofs Wire.OptCodec
  Wire.OptCodecProofs Wire.Pdu Wire.PduProofs.
Local Open Scope Z_scope.

Definition tail_wf (tail : bytes) : Prop :=
  tail = [] \/ exists p, tail = PAYLOAD_START :: p.

Definition opi_post (prev : Z) (bs : bytes) (l : list opt) (tail : bytes) : Prop :=
  bs = opts_enc prev l ++ tail /\ ascending prev l /\ Forall opt_wf l /\
  tail_wf tail /\ wfb tail /\ Forall (fun o => fst o <= MAX_OPT) l.

Lemma opi_nil prev : opi_post prev [] [] [].
Proof.
  unfold opi_post. split; [reflexivity|]. split; [exact I|]. split; [constructor|].
  split; [left; reflexivity|]. split; constructor.
Qed.

Lemma opi_marker prev b r :
  (b =? PAYLOAD_START) = true -> wfb (b :: r) -> opi_post prev (b :: r) [] (b :: r).
Proof.
  intros E Hb. unfold opi_post. split; [reflexivity|]. split; [exact I|]. split; [constructor|].
  split; [right; exists r; f_equal; lia|]. split; [assumption|constructor].
Qed.

Lemma opts_parse_inv fuel : forall prev bs l tail,
  0 <= prev -> wfb bs -> opts_parse fuel prev bs = Some (l, tail) -> opi_post prev bs l tail.
Proof.
  induction fuel as [|fuel IH]; intros prev bs l tail Hp Hb H.
  - destruct bs as [|b r]; cbn [opts_parse] in H.
    + inversion H; subst. apply opi_nil.
    + destruct (b =? PAYLOAD_START) eqn:E; [|discriminate].
      inversion H; subst. apply opi_marker; assumption.
  - destruct bs as [|b r].
    + cbn [opts_parse] in H. inversion H; subst. apply opi_nil.
    + destruct (b =? PAYLOAD_START) eqn:E.
      * cbn [opts_parse] in H. rewrite E in H. inversion H; subst. apply opi_marker; assumption.
      * rewrite opts_parse_unfold in H by lia.
        destruct (opt_parse (b :: r)) as [[[d v] rest]|] eqn:EP; [|discriminate].
        destruct (prev + d <=? MAX_OPT) eqn:EM; [|discriminate].
        destruct (opts_parse fuel (prev + d) rest) as [[l' tail']|] eqn:ER; [|discriminate].
        inversion H; subst; clear H.
        apply opt_parse_inv in EP; [|assumption].
        destruct EP as (Hbs & Hd & Hv & Hvb & Hrb).
        apply IH in ER; [|lia|assumption].
        destruct ER as (Hrest & Hasc & Hwf & Htw & Htb & Hmx).
        unfold opi_post. cbn [opts_enc ascending fst snd].
        replace (prev + d - prev) with d by lia.
        split; [rewrite Hbs, Hrest; rewrite <- app_assoc; reflexivity|].
        split; [split; [lia|assumption]|].
        split; [constructor; [|assumption]; unfold opt_wf; cbn [fst snd]; unfold MAX_OPT in EM;
                repeat split; auto; lia|].
        split; [assumption|]. split; [assumption|].
        constructor; [cbn [fst]; lia|assumption].
Qed.

Lemma parse_token_inv tkl area tok rest :
  0 <= tkl < 16 -> wfb area -> parse_token tkl area = Some (tok, rest) ->
  tkl = tkl_nib tok /\ area = token_area tok ++ rest /\ len tok <= 65804 /\ wfb tok /\ wfb rest.
Proof.
  intros Ht Hb. unfold parse_token.
  destruct (tkl <? 13) eqn:E1.
  - destruct (tkl <=? len area) eqn:E2; [|discriminate]. intros H; inversion H; subst; clear H.
    assert (Hl : len (take tkl area) = tkl) by (apply len_take; lia).
    unfold tkl_nib, token_area. rewrite Hl, E1.
    repeat split; auto using wfb_take, wfb_drop; try lia. symmetry; apply take_drop.
  - destruct (tkl =? 13) eqn:E2.
    + destruct area as [|b r]; [discriminate|].
      apply wfb_cons in Hb. destruct Hb as [Hb0 Hr]. unfold is_byte in Hb0.
      destruct (b + 13 <=? len r) eqn:E3; [|discriminate]. intros H; inversion H; subst; clear H.
      assert (Hl : len (take (b + 13) r) = b + 13) by (apply len_take; lia).
      unfold tkl_nib, token_area. rewrite Hl.
      replace (b + 13 <? 13) with false by lia. replace (b + 13 <? 269) with true by lia.
      repeat split; auto using wfb_take, wfb_drop; try lia.
      cbn [app]. f_equal; [lia|]. symmetry; apply take_drop.
    + destruct (tkl =? 14) eqn:E3; [|discriminate].
      destruct area as [|b1 [|b2 r]]; try discriminate.
      apply wfb_cons in Hb. destruct Hb as [Hb1 Hb]. apply wfb_cons in Hb. destruct Hb as [Hb2 Hr].
      unfold is_byte in *.
      destruct (b1 * 256 + b2 + 269 <=? len r) eqn:E4; [|discriminate].
      intros H; inversion H; subst; clear H.
      assert (Hl : len (take (b1 * 256 + b2 + 269) r) = b1 * 256 + b2 + 269) by (apply len_take; lia).
      unfold tkl_nib, token_area. rewrite Hl.
      replace (b1 * 256 + b2 + 269 <? 13) with false by lia.
      replace (b1 * 256 + b2 + 269 <? 269) with false by lia.
      repeat split; auto using wfb_take, wfb_drop; try lia.
      unfold be16. cbn [app]. f_equal; [lia|]. f_equal; [lia|]. symmetry; apply take_drop.
Qed.

(* everything after the framing header of an accepted message is the canonical encoding of the
   returned token, options and payload; the returned message is well-formed *)
Theorem parse_sound_body p bs m :
  wfb bs -> parse p bs = Some m ->
  exists b0 rest, bs = b0 :: rest /\
    drop (header_size p b0) bs = token_area (m_token m) ++ content_area m /\
    b0 mod 16 = tkl_nib (m_token m) /\
    len (m_token m) <= 65804 /\ wfb (m_token m) /\
    Forall opt_wf (m_opts m) /\ ascending 0 (m_opts m) /\
    limits_ok (m_code m) (m_opts m) = true /\ wfb (m_payload m) /\
    (m_code m = 0 -> m_token m = [] /\ m_opts m = [] /\ m_payload m = []).
Proof.
  intros Hb. unfold parse. destruct bs as [|b0 r]; [discriminate|].
  set (bs := b0 :: r) in *.
  destruct (len bs <? header_size p b0) eqn:Ehs; [discriminate|].
  match goal with |- match ?F with _ => _ end = _ -> _ => destruct F as [[[ty code] mid]|] end;
    [|discriminate].
  assert (Hb0 : is_byte b0) by (apply wfb_cons in Hb; tauto). unfold is_byte in Hb0.
  assert (Harea : wfb (drop (header_size p b0) bs)) by (apply wfb_drop; assumption).
  destruct (parse_token (b0 mod 16) (drop (header_size p b0) bs)) as [[tok rest]|] eqn:ET;
    [|discriminate].
  apply parse_token_inv in ET; [|lia|assumption].
  destruct ET as (Htk & Hdrop & Htl & Htb & Hrb).
  destruct (code =? 0) eqn:Ec.
  - destruct (drop (header_size p b0) bs) as [|x xs] eqn:Ed; [|discriminate].
    intros H; inversion H; subst; clear H. cbn [m_token m_opts m_payload m_code].
    exists b0, r. split; [reflexivity|]. rewrite Ed.
    destruct tok; [|unfold token_area in Hdrop; repeat case_if_in Hdrop; discriminate].
    repeat split; auto; try constructor; try reflexivity; cbn; lia.
  - destruct (opts_parse (length rest) 0 rest) as [[os tail]|] eqn:EO; [|discriminate].
    apply opts_parse_inv in EO; [|lia|assumption].
    unfold opi_post in EO. destruct EO as (Hrest & Hasc & Hwf & Htw & Htlb & _).
    destruct (limits_ok code os) eqn:EL; [|discriminate].
    assert (Hne : code = 0 -> False) by lia.
    destruct tail as [|t0 [|t1 tl]].
    + intros H; inversion H; subst m; clear H. cbn [m_token m_opts m_payload m_code].
      exists b0, r. split; [reflexivity|]. rewrite Hdrop, Hrest. unfold content_area.
      cbn [m_opts m_payload payload_area].
      repeat split; auto; try constructor; try tauto.
    + discriminate.
    + intros H; inversion H; subst m; clear H. cbn [m_token m_opts m_payload m_code].
      exists b0, r. split; [reflexivity|]. rewrite Hdrop, Hrest. unfold content_area.
      cbn [m_opts m_payload payload_area].
      destruct Htw as [Htw|[pp Htw]]; [discriminate|]. inversion Htw; subst.
      apply wfb_cons in Htlb. destruct Htlb as [_ Htlb].
      repeat split; auto; try tauto.
Qed.

(* on datagram transports the whole byte string is the canonical serialisation *)
Theorem parse_sound_udp bs m :
  wfb bs -> parse UDP bs = Some m -> msg_wf m /\ serialize UDP m = bs.
Proof.
  intros Hb H. pose proof (parse_sound_body UDP bs m Hb H) as
    (b0 & r & Hbs & Hdrop & Htk & Htl & Htb & Hwf & Hasc & Hlim & Hpl & Hemp).
  unfold parse in H. rewrite Hbs in H. rewrite <- Hbs in H.
  cbn [header_size] in *.
  destruct (len bs <? 4) eqn:E4; [discriminate|].
  assert (Hsplit : bs = take 4 bs ++ drop 4 bs) by (symmetry; apply take_drop).
  assert (Hl4 : len (take 4 bs) = 4) by (apply len_take; lia).
  destruct (take 4 bs) as [|h0 [|h1 [|h2 [|h3 [|h4 t]]]]] eqn:Etake;
    try (unfold len in Hl4; cbn [length] in Hl4; lia).
  assert (Hh : wfb [h0; h1; h2; h3]) by (rewrite <- Etake; apply wfb_take; assumption).
  destruct (h0 / 64 =? 1) eqn:Ev; [|discriminate].
  assert (Hb0 : h0 = b0).
  { rewrite Hbs in Etake. unfold take in Etake. cbn in Etake. inversion Etake; reflexivity. }
  subst h0.
  destruct (parse_token (b0 mod 16) (drop 4 bs)) as [[tok rest]|] eqn:ET; [|discriminate].
  repeat (apply wfb_cons in Hh; destruct Hh as [? Hh]). unfold is_byte in *.
  assert (Hfields : m_type m = (b0 / 16) mod 4 /\ m_code m = h1 /\ m_mid m = h2 * 256 + h3).
  { destruct (h1 =? 0).
    - destruct (drop 4 bs); [|discriminate]. inversion H; subst m. cbn. auto.
    - destruct (opts_parse (length rest) 0 rest) as [[os tail]|]; [|discriminate].
      destruct (limits_ok h1 os); [|discriminate].
      destruct tail as [|? [|? ?]]; try discriminate; inversion H; subst m; cbn; auto. }
  destruct Hfields as (Hty & Hco & Hmid).
  split.
  - constructor; auto; try lia.
  - unfold serialize. rewrite <- Hdrop. rewrite Hsplit at 2. f_equal.
    unfold header. rewrite <- Htk, Hty, Hco, Hmid. repeat f_equal; lia.
Qed.

(* ---- explicit rejections (corollaries used by C03) ---- *)

Lemma reject_reserved_delta b0 r : 0 <= b0 < 256 -> b0 / 16 = 15 -> opt_parse (b0 :: r) = None.
Proof.
  intros Hb H. unfold opt_parse. rewrite H. reflexivity.
Qed.

Lemma reject_reserved_length b0 r : 0 <= b0 < 256 -> b0 mod 16 = 15 -> opt_parse (b0 :: r) = None.
Proof.
  intros Hb H. unfold opt_parse. rewrite H.
  destruct (rd_delta (b0 / 16) r) as [[d r1]|]; reflexivity.
Qed.

Lemma reject_truncated_value d l v :
  0 <= d <= 65535 -> 0 <= l <= 65804 -> len v < l -> opt_parse (opt_hdr d l ++ v) = None.
Proof.
  intros Hd Hl Hv. unfold opt_hdr, opt_parse. cbn [app].
  pose proof (ext_nib_range d ltac:(lia)) as Nd. pose proof (ext_nib_range l ltac:(lia)) as Nl.
  replace ((16 * ext_nib d + ext_nib l) / 16) with (ext_nib d) by lia.
  replace ((16 * ext_nib d + ext_nib l) mod 16) with (ext_nib l) by lia.
  rewrite <- app_assoc. rewrite rd_delta_ext by lia. rewrite rd_len_ext by lia.
  replace (l <=? len v) with false by lia. reflexivity.
Qed.

Lemma reject_number_overflow fuel prev d v rest b tl :
  b <> PAYLOAD_START -> opt_parse (b :: tl) = Some (d, v, rest) -> MAX_OPT < prev + d ->
  opts_parse (S fuel) prev (b :: tl) = None.
Proof.
  intros Hb HP Hov. rewrite opts_parse_unfold by assumption. rewrite HP.
  replace (prev + d <=? MAX_OPT) with false by lia. reflexivity.
Qed.

(* a payload marker followed by nothing, and content in an Empty message, are rejected:
   both follow from soundness (the accepted bytes are a canonical encoding) *)
Lemma serialize_udp_unique m1 m2 :
  msg_wf m1 -> msg_wf m2 -> serialize UDP m1 = serialize UDP m2 -> m1 = m2.
Proof.
  intros W1 W2 E. pose proof (parse_serialize UDP m1 W1) as P1.
  pose proof (parse_serialize UDP m2 W2) as P2. rewrite E in P1. rewrite P1 in P2.
  cbn [norm_fields] in P2. inversion P2; reflexivity.
Qed.

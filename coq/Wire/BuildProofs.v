(* C01, builder part: what the PDU-building API (model Wire/Build.v, tied to coap_pdu_init /
   coap_add_token / coap_add_option / coap_add_data on every run) does to the abstract message,
   for every operation list:
     - where an accepted option lands (after the last option whose number is <= n: ascending
       order, insertion order kept among equal numbers);
     - a refused operation disturbs nothing that is already present (at most the implicit
       Hop-Limit of coap_add_option for Proxy-Uri / Proxy-Scheme has been added);
     - every message the builder can produce is well-formed, hence (Wire/PduProofs.v)
       serialises, on every framing, to bytes that parse back to exactly that message. *)
From LibcoapV Require Import Base.Tactics Base.Bytes Base.BytesProofs Wire.OptCodec
  Wire.OptCodecProofs Wire.Pdu Wire.PduProofs Wire.Build.
Local Open Scope Z_scope.

(* ---- insert_opt: position, order, stability ---- *)

(* the new option sits between a prefix whose numbers are all <= n and a suffix whose first
   number is > n; nothing else moves *)
Lemma insert_opt_split n v l :
  exists a b, l = a ++ b /\ insert_opt n v l = a ++ (n, v) :: b /\
              Forall (fun o => fst o <= n) a /\
              match b with [] => True | o :: _ => n < fst o end.
Proof.
  induction l as [|[k w] tl IH]; cbn [insert_opt].
  - exists [], []. repeat split; constructor.
  - destruct (k <=? n) eqn:E.
    + destruct IH as (a & b & Hl & Hi & Ha & Hb).
      exists ((k, w) :: a), b. cbn [app]. rewrite Hl at 1. rewrite Hi.
      repeat split; try assumption. constructor; [cbn; lia | assumption].
    + exists [], ((k, w) :: tl). cbn [app fst]. repeat split; try constructor. lia.
Qed.

Lemma ascending_weaken l : forall p q, q <= p -> ascending p l -> ascending q l.
Proof. destruct l as [|o tl]; cbn [ascending]; intros; [exact I | intuition lia]. Qed.

Lemma insert_opt_ascending n v l : forall prev,
  prev <= n -> ascending prev l -> ascending prev (insert_opt n v l).
Proof.
  induction l as [|[k w] tl IH]; intros prev Hp Ha; cbn [insert_opt].
  - cbn [ascending fst]. auto.
  - cbn [ascending fst] in Ha. destruct Ha as [Hk Ht].
    destruct (k <=? n) eqn:E.
    + cbn [ascending fst]. split; [assumption|]. apply IH; [lia | assumption].
    + cbn [ascending fst]. repeat split; try lia. assumption.
Qed.

Lemma insert_opt_wf n v l :
  opt_wf (n, v) -> Forall opt_wf l -> Forall opt_wf (insert_opt n v l).
Proof.
  intros Ho Hl. destruct (insert_opt_split n v l) as (a & b & E1 & E2 & _).
  rewrite E2. rewrite E1 in Hl. apply Forall_app in Hl. destruct Hl as [Ha Hb].
  apply Forall_app. split; [assumption | constructor; assumption].
Qed.

(* the options that were there before are still there, same values, same relative order *)
Inductive subseq {A} : list A -> list A -> Prop :=
| sub_nil : forall l, subseq [] l
| sub_keep : forall x a b, subseq a b -> subseq (x :: a) (x :: b)
| sub_skip : forall x a b, subseq a b -> subseq a (x :: b).

Lemma subseq_refl {A} (l : list A) : subseq l l.
Proof. induction l; constructor; assumption. Qed.

Lemma subseq_trans {A} (b c : list A) : subseq b c -> forall a, subseq a b -> subseq a c.
Proof.
  induction 1 as [l | x b c Hbc IH | x b c Hbc IH]; intros a Hab.
  - inversion Hab; subst. constructor.
  - inversion Hab; subst.
    + constructor.
    + apply sub_keep. apply IH. assumption.
    + apply sub_skip. apply IH. assumption.
  - apply sub_skip. apply IH. assumption.
Qed.

Lemma insert_opt_subseq n v l : subseq l (insert_opt n v l).
Proof.
  induction l as [|[k w] tl IH]; cbn [insert_opt].
  - constructor.
  - destruct (k <=? n); [apply sub_keep; assumption | apply sub_skip; apply subseq_refl].
Qed.

Lemma insert_opt_length n v l : length (insert_opt n v l) = S (length l).
Proof.
  induction l as [|[k w] tl IH]; cbn [insert_opt]; [reflexivity|].
  destruct (k <=? n); cbn [length]; [rewrite IH|]; reflexivity.
Qed.

(* ---- one operation ---- *)

Definition op_ok (o : bop) : Prop :=
  match o with
  | OpToken t => wfb t
  | OpOpt n v => opt_wf (n, v)
  | OpData d => wfb d
  end.

(* everything of msg_wf except the header fields, the per-option limits and the Empty rule *)
Record body_wf (m : msg) : Prop := {
  bw_token : len (m_token m) <= 65804 /\ wfb (m_token m);
  bw_opts : Forall opt_wf (m_opts m) /\ ascending 0 (m_opts m);
  bw_payload : wfb (m_payload m) }.

Definition same_header (m m' : msg) : Prop :=
  m_type m' = m_type m /\ m_code m' = m_code m /\ m_mid m' = m_mid m.

Lemma add_opt_raw_spec p n v :
  let '(r, p') := add_opt_raw p n v in
  p_max p' = p_max p /\
  (r = false -> p' = p) /\
  (r = true -> p' = set_opts p (insert_opt n v (m_opts (p_msg p)))).
Proof.
  unfold add_opt_raw.
  destruct ((n =? last_num (m_opts (p_msg p))) && negb (repeatable n)).
  - repeat split; congruence.
  - destruct (fits p _).
    + repeat split; try congruence.
    + repeat split; congruence.
Qed.

(* the result of any operation, accepted or refused, is described exactly *)
Definition hop_added (p : pdu) : pdu := set_opts p (insert_opt 16 [16] (m_opts (p_msg p))).

Theorem apply_op_spec p o :
  let '(r, p') := apply_op p o in
  p_max p' = p_max p /\
  match o with
  | OpToken t =>
      (r = false -> p' = p) /\
      (r = true -> p_msg p' = mkMsg (m_type (p_msg p)) (m_code (p_msg p)) (m_mid (p_msg p)) t
                                   (m_opts (p_msg p)) (m_payload (p_msg p)) /\
                   len t <= 65804)
  | OpOpt n v =>
      (r = false -> p' = p \/ p' = hop_added p) /\
      (r = true -> p' = set_opts p (insert_opt n v (m_opts (p_msg p))) \/
                   p' = set_opts p (insert_opt n v (insert_opt 16 [16] (m_opts (p_msg p)))))
  | OpData d =>
      (r = false -> p' = p) /\
      (r = true -> (d = [] /\ p' = p) \/
                   (m_payload (p_msg p) = [] /\
                    p_msg p' = mkMsg (m_type (p_msg p)) (m_code (p_msg p)) (m_mid (p_msg p))
                                     (m_token (p_msg p)) (m_opts (p_msg p)) d))
  end.
Proof.
  destruct o as [t | n v | d]; unfold apply_op.
  - destruct (negb (used (p_msg p) =? 0)); [repeat split; congruence|].
    destruct (65804 <? len t) eqn:E; [repeat split; congruence|].
    destruct (fits p _); [|repeat split; congruence].
    cbn [p_max p_msg]. repeat split; try congruence. lia.
  - destruct (m_payload (p_msg p)) as [|x xs] eqn:Epl; [|repeat split; try congruence; auto].
    destruct ((n =? last_num (m_opts (p_msg p))) && negb (repeatable n));
      [repeat split; try congruence; auto|].
    destruct (is_request (m_code (p_msg p)) && ((n =? 35) || (n =? 39)) &&
              negb (has_opt 16 (m_opts (p_msg p)))).
    + pose proof (add_opt_raw_spec p 16 [16]) as H1.
      destruct (add_opt_raw p 16 [16]) as [r1 p1]. cbn [snd].
      destruct H1 as (Hm1 & Hf1 & Ht1).
      pose proof (add_opt_raw_spec p1 n v) as H2.
      destruct (add_opt_raw p1 n v) as [r p']. destruct H2 as (Hm2 & Hf2 & Ht2).
      split; [congruence|].
      destruct r1.
      * specialize (Ht1 eq_refl). split; intros Hr.
        -- right. rewrite (Hf2 Hr). exact Ht1.
        -- right. rewrite (Ht2 Hr). rewrite Ht1. unfold set_opts. cbn [p_msg p_max m_opts
             m_type m_code m_mid m_token m_payload]. reflexivity.
      * specialize (Hf1 eq_refl). subst p1. split; intros Hr.
        -- left. exact (Hf2 Hr).
        -- left. exact (Ht2 Hr).
    + pose proof (add_opt_raw_spec p n v) as H2.
      destruct (add_opt_raw p n v) as [r p']. destruct H2 as (Hm2 & Hf2 & Ht2).
      split; [assumption|]. split; intros Hr; left; auto.
  - destruct d as [|x xs]; [repeat split; try congruence; auto|].
    destruct (m_payload (p_msg p)) as [|y ys] eqn:Epl; [|repeat split; try congruence].
    destruct (fits p _); [|repeat split; congruence].
    cbn [p_max p_msg]. repeat split; try congruence. intros _. right. split; reflexivity.
Qed.

(* A refused operation disturbs nothing that is already present: token and payload are the
   same, and the options present before are all still there with their values, in the same
   order (the only possible addition is the implicit Hop-Limit). *)
Theorem refused_is_noop p o :
  fst (apply_op p o) = false ->
  let m := p_msg p in let m' := p_msg (snd (apply_op p o)) in
  same_header m m' /\ m_token m' = m_token m /\ m_payload m' = m_payload m /\
  subseq (m_opts m) (m_opts m') /\
  (m_opts m' = m_opts m \/ m_opts m' = insert_opt 16 [16] (m_opts m)).
Proof.
  pose proof (apply_op_spec p o) as H. destruct (apply_op p o) as [r p']. cbn [fst snd].
  intros Hr. subst r. destruct H as (_ & H).
  assert (Hcase : p' = p \/ p' = hop_added p).
  { destruct o; destruct H as (Hf & _); auto. }
  destruct Hcase as [-> | ->].
  - unfold same_header. repeat split; try reflexivity. apply subseq_refl. left; reflexivity.
  - unfold hop_added, set_opts, same_header. cbn [p_msg m_type m_code m_mid m_token m_payload
      m_opts]. repeat split; try reflexivity. apply insert_opt_subseq. right; reflexivity.
Qed.

(* An accepted operation changes only what it names. *)
Theorem accepted_changes_only_named p o :
  fst (apply_op p o) = true ->
  let m := p_msg p in let m' := p_msg (snd (apply_op p o)) in
  same_header m m' /\
  match o with
  | OpToken t => m_token m' = t /\ m_opts m' = m_opts m /\ m_payload m' = m_payload m
  | OpOpt n v => m_token m' = m_token m /\ m_payload m' = m_payload m /\
                 subseq (m_opts m) (m_opts m') /\
                 (m_opts m' = insert_opt n v (m_opts m) \/
                  m_opts m' = insert_opt n v (insert_opt 16 [16] (m_opts m)))
  | OpData d => m_token m' = m_token m /\ m_opts m' = m_opts m /\
                (m_payload m' = d \/ (d = [] /\ m_payload m' = m_payload m))
  end.
Proof.
  pose proof (apply_op_spec p o) as H. destruct (apply_op p o) as [r p']. cbn [fst snd].
  intros Hr. subst r. destruct H as (_ & H). unfold same_header.
  destruct o as [t | n v | d]; destruct H as (_ & Ht); specialize (Ht eq_refl).
  - destruct Ht as (Ht & _). rewrite Ht. cbn. repeat split; reflexivity.
  - destruct Ht as [-> | ->]; unfold set_opts; cbn [p_msg m_type m_code m_mid m_token m_payload
      m_opts]; repeat split; try reflexivity.
    + apply insert_opt_subseq.
    + left; reflexivity.
    + eapply subseq_trans; [apply insert_opt_subseq | apply insert_opt_subseq].
    + right; reflexivity.
  - destruct Ht as [(-> & ->) | (Hpl & Ht)].
    + repeat split; try reflexivity. right. split; reflexivity.
    + rewrite Ht. cbn. repeat split; try reflexivity. left; reflexivity.
Qed.

Lemma hop_wf : opt_wf (16, [16]).
Proof. unfold opt_wf. cbn. repeat split; try lia. repeat constructor; unfold is_byte; lia. Qed.

Theorem apply_op_body_wf p o :
  op_ok o -> body_wf (p_msg p) -> body_wf (p_msg (snd (apply_op p o))).
Proof.
  intros Hok [Htok [Hof Hasc] Hpl].
  pose proof (apply_op_spec p o) as H. destruct (apply_op p o) as [r p']. cbn [snd].
  destruct H as (_ & H).
  assert (Hhop : body_wf (p_msg (hop_added p))).
  { unfold hop_added, set_opts. cbn [p_msg]. constructor; cbn [m_token m_opts m_payload];
      try assumption. split; [apply insert_opt_wf; [exact hop_wf | assumption]
                             | apply insert_opt_ascending; [lia | assumption]]. }
  assert (Hsame : body_wf (p_msg p)) by (constructor; try assumption; split; assumption).
  destruct o as [t | n v | d]; destruct H as (Hf & Ht); destruct r;
    try (specialize (Hf eq_refl)); try (specialize (Ht eq_refl)).
  - destruct Ht as (Ht & Hl). rewrite Ht. constructor; cbn [m_token m_opts m_payload];
      try assumption; split; assumption.
  - subst p'. assumption.
  - cbn [op_ok] in Hok. pose proof Hok as (Hn & _).
    cbn [fst] in Hn.
    destruct Ht as [-> | ->]; unfold set_opts; cbn [p_msg]; constructor;
      cbn [m_token m_opts m_payload]; try assumption; split.
    + apply insert_opt_wf; assumption.
    + apply insert_opt_ascending; [lia | assumption].
    + apply insert_opt_wf; [assumption|]. apply insert_opt_wf; [exact hop_wf | assumption].
    + apply insert_opt_ascending; [lia|]. apply insert_opt_ascending; [lia | assumption].
  - destruct Hf as [-> | ->]; assumption.
  - destruct Ht as [(_ & ->) | (_ & Ht)]; [assumption|].
    rewrite Ht. constructor; cbn [m_token m_opts m_payload]; try assumption. split; assumption.
  - subst p'. assumption.
Qed.

Theorem apply_op_header p o : same_header (p_msg p) (p_msg (snd (apply_op p o))).
Proof.
  destruct (fst (apply_op p o)) eqn:E.
  - apply (accepted_changes_only_named p o E).
  - apply (refused_is_noop p o E).
Qed.

(* ---- operation lists ---- *)

Lemma run_ops_cons p o tl :
  run_ops p (o :: tl) =
  (fst (apply_op p o) :: fst (run_ops (snd (apply_op p o)) tl),
   snd (run_ops (snd (apply_op p o)) tl)).
Proof.
  cbn [run_ops]. destruct (apply_op p o) as [r p1]. cbn [fst snd].
  destruct (run_ops p1 tl) as [rs p2]. reflexivity.
Qed.

Theorem run_ops_body_wf ops : forall p,
  Forall op_ok ops -> body_wf (p_msg p) ->
  body_wf (p_msg (snd (run_ops p ops))) /\ same_header (p_msg p) (p_msg (snd (run_ops p ops))).
Proof.
  induction ops as [|o tl IH]; intros p Hok Hw.
  - cbn. split; [assumption | unfold same_header; auto].
  - rewrite run_ops_cons. cbn [snd]. inversion Hok as [|? ? Ho Htl]; subst.
    destruct (IH (snd (apply_op p o)) Htl (apply_op_body_wf p o Ho Hw)) as [Hb Hh].
    split; [assumption|]. pose proof (apply_op_header p o) as Hh1.
    unfold same_header in *. intuition congruence.
Qed.

Lemma init_body_wf ty code mid max : body_wf (p_msg (pdu_init ty code mid max)).
Proof.
  unfold pdu_init. cbn [p_msg]. constructor; cbn [m_token m_opts m_payload len length Z.of_nat];
    repeat split; try constructor; lia.
Qed.

(* options already present stay, in order, whatever is done afterwards *)
Theorem run_ops_keeps_options ops : forall p,
  subseq (m_opts (p_msg p)) (m_opts (p_msg (snd (run_ops p ops)))).
Proof.
  induction ops as [|o tl IH]; intros p.
  - cbn. apply subseq_refl.
  - rewrite run_ops_cons. cbn [snd]. eapply subseq_trans; [apply IH|].
    destruct (fst (apply_op p o)) eqn:E.
    + pose proof (accepted_changes_only_named p o E) as H. cbn zeta in H.
      destruct H as (_ & H). destruct o.
      * destruct H as (_ & -> & _). apply subseq_refl.
      * destruct H as (_ & _ & H & _). exact H.
      * destruct H as (_ & -> & _). apply subseq_refl.
    + apply (refused_is_noop p o E).
Qed.

(* The wire round trip for everything the API can build: any header fields, any operation list
   with well-formed arguments (tokens of any accepted length, option numbers 0..65535 in any
   order, values up to 65804 bytes, any payload), any maximum size; provided the option values
   respect the per-option length limits and a code-0.00 message stays empty (the two conditions
   under which the decoder accepts at all, see C03). *)
Theorem built_message_roundtrips pr ty code mid max ops :
  0 <= ty <= 3 -> 0 <= code <= 255 -> 0 <= mid <= 65535 ->
  Forall op_ok ops ->
  let m := p_msg (snd (run_ops (pdu_init ty code mid max) ops)) in
  limits_ok code (m_opts m) = true ->
  (code = 0 -> m_token m = [] /\ m_opts m = [] /\ m_payload m = []) ->
  parse pr (serialize pr m) = Some (norm_fields pr m).
Proof.
  intros Hty Hco Hmid Hok m Hlim Hemp.
  destruct (run_ops_body_wf ops (pdu_init ty code mid max) Hok (init_body_wf ty code mid max))
    as [[Ht Ho Hp] (E1 & E2 & E3)].
  fold m in Ht, Ho, Hp, E1, E2, E3. cbn [pdu_init p_msg m_type m_code m_mid] in E1, E2, E3.
  apply parse_serialize. constructor; try assumption; try (rewrite ?E1, ?E2, ?E3; assumption).
Qed.

(* non-vacuity: an out-of-order build with an extended token, a Proxy-Scheme option that pulls
   in the implicit Hop-Limit, a refused repeat and a payload, on all three framings *)
Definition demo_ops : list bop :=
  [OpToken (List.repeat 7 13); OpOpt 11 [97]; OpOpt 39 [99]; OpOpt 11 [98]; OpOpt 60 [0];
   OpOpt 60 [1]; OpOpt 60000 [1]; OpOpt 12 [0]; OpData [1; 2; 3]].
Example demo_build :
  let (rs, p) := run_ops (pdu_init 0 1 4660 0) demo_ops in
  rs = [true; true; true; true; true; false; true; true; true] /\
  m_opts (p_msg p) =
    [(11, [97]); (11, [98]); (12, [0]); (16, [16]); (39, [99]); (60, [0]); (60000, [1])] /\
  parse UDP (serialize UDP (p_msg p)) = Some (p_msg p) /\
  parse TCP (serialize TCP (p_msg p)) = Some (norm_fields TCP (p_msg p)) /\
  parse WS (serialize WS (p_msg p)) = Some (norm_fields WS (p_msg p)).
Proof. vm_compute. repeat split; reflexivity. Qed.

(* ---- space accounting: for every maximum size, the built message never exceeds it ---- *)

Lemma ext_size_mono a b : a <= b -> ext_size a <= ext_size b.
Proof. unfold ext_size. intros. repeat case_if; lia. Qed.

Lemma opt_enc_len_mono a b w : a <= b -> len (opt_enc a w) <= len (opt_enc b w).
Proof.
  intros H. rewrite !opt_enc_len. unfold opt_encode_size.
  pose proof (ext_size_mono a b H). lia.
Qed.

(* inserting costs at most the size computed against the preceding option's number: the
   following option's delta can only shrink *)
Lemma enc_insert_len n v l : forall prev,
  prev <= n -> ascending prev l ->
  len (opts_enc prev (insert_opt n v l)) <=
  len (opts_enc prev l) + opt_encode_size (n - prev_num n prev l) (len v).
Proof.
  induction l as [|[k w] tl IH]; intros prev Hp Ha.
  - cbn [insert_opt opts_enc prev_num]. rewrite app_nil_r, opt_enc_len. cbn [len length Z.of_nat].
    lia.
  - cbn [ascending fst] in Ha. destruct Ha as [Hk Ht]. cbn [insert_opt prev_num].
    destruct (k <=? n) eqn:E.
    + cbn [opts_enc]. rewrite !len_app. specialize (IH k ltac:(lia) Ht). lia.
    + cbn [opts_enc]. rewrite !len_app, opt_enc_len.
      pose proof (opt_enc_len_mono (k - n) (k - prev) w ltac:(lia)). lia.
Qed.

Lemma last_default {A} (l : list A) x d1 d2 : last (x :: l) d1 = last (x :: l) d2.
Proof.
  revert x. induction l as [|y t IH]; intros x; [reflexivity|].
  change (last (x :: y :: t) d1) with (last (y :: t) d1).
  change (last (x :: y :: t) d2) with (last (y :: t) d2). apply IH.
Qed.

Lemma ascending_last_ge l : forall prev o,
  ascending prev l -> In o l -> fst o <= fst (last l (prev, [])).
Proof.
  induction l as [|x tl IH]; intros prev o Ha Hin; [contradiction|].
  cbn [ascending] in Ha. destruct Ha as [Hx Ht].
  destruct tl as [|y tl'].
  - destruct Hin as [-> | []]. cbn. lia.
  - change (last (x :: y :: tl') (prev, [])) with (last (y :: tl') (prev, [])).
    rewrite (last_default tl' y (prev, []) (fst x, [])).
    destruct Hin as [-> | Hin].
    + pose proof (IH (fst o) y Ht (or_introl eq_refl)) as H1.
      cbn [ascending] in Ht. lia.
    + apply (IH (fst x) o Ht Hin).
Qed.

Lemma prev_num_all_le n l : forall prev,
  (forall o, In o l -> fst o <= n) -> prev_num n prev l = fst (last l (prev, [])).
Proof.
  induction l as [|[k w] tl IH]; intros prev Hall; [reflexivity|].
  cbn [prev_num]. pose proof (Hall (k, w) (or_introl eq_refl)) as Hk. cbn [fst] in Hk.
  replace (k <=? n) with true by lia.
  rewrite IH by (intros o Ho; apply Hall; right; assumption).
  destruct tl as [|y tl']; [reflexivity|].
  change (last ((k, w) :: y :: tl') (prev, [])) with (last (y :: tl') (prev, [])).
  f_equal. apply last_default.
Qed.

Definition within_max (p : pdu) : Prop := p_max p <> 0 -> used (p_msg p) <= p_max p.

Lemma add_opt_raw_within p n v :
  0 <= n -> ascending 0 (m_opts (p_msg p)) -> within_max p -> within_max (snd (add_opt_raw p n v)).
Proof.
  intros Hn Ha Hw. unfold add_opt_raw.
  destruct ((n =? last_num (m_opts (p_msg p))) && negb (repeatable n)); [exact Hw|].
  set (prev := if n <? last_num (m_opts (p_msg p)) then prev_num n 0 (m_opts (p_msg p))
               else last_num (m_opts (p_msg p))).
  destruct (fits p _) eqn:Ef; [|exact Hw].
  cbn [snd]. unfold within_max, set_opts. cbn [p_max p_msg]. intros Hmax.
  unfold fits in Ef. assert (Hsz : used (p_msg p) + opt_encode_size (n - prev) (len v) <= p_max p)
    by lia.
  assert (Hprev : prev = prev_num n 0 (m_opts (p_msg p))).
  { unfold prev. destruct (n <? last_num (m_opts (p_msg p))) eqn:El; [reflexivity|].
    unfold last_num. symmetry. apply prev_num_all_le. intros o Ho.
    pose proof (ascending_last_ge _ 0 o Ha Ho). unfold last_num in El. lia. }
  pose proof (enc_insert_len n v (m_opts (p_msg p)) 0 Hn Ha) as Hl. rewrite <- Hprev in Hl.
  unfold used, content_area in *. cbn [m_token m_opts m_payload]. rewrite len_app in *. lia.
Qed.

Theorem apply_op_within p o :
  op_ok o -> body_wf (p_msg p) -> within_max p -> within_max (snd (apply_op p o)).
Proof.
  intros Hok [_ [Hof Hasc] _] Hw. destruct o as [t | n v | d]; unfold apply_op.
  - destruct (negb (used (p_msg p) =? 0)) eqn:Eu; [exact Hw|].
    destruct (65804 <? len t); [exact Hw|].
    destruct (fits p _) eqn:Ef; [|exact Hw].
    cbn [snd]. unfold within_max. cbn [p_max p_msg]. intros Hmax. unfold fits in Ef.
    unfold used in *. cbn [m_token]. unfold content_area in *. cbn [m_opts m_payload].
    pose proof (len_nonneg (token_area (m_token (p_msg p)))).
    pose proof (len_nonneg (opts_enc 0 (m_opts (p_msg p)) ++ payload_area (m_payload (p_msg p)))).
    lia.
  - destruct (m_payload (p_msg p)) eqn:Epl; [|exact Hw].
    destruct ((n =? last_num (m_opts (p_msg p))) && negb (repeatable n)); [exact Hw|].
    cbn [op_ok] in Hok. destruct Hok as ((Hn & _) & _). cbn [fst] in Hn.
    destruct (is_request (m_code (p_msg p)) && ((n =? 35) || (n =? 39)) &&
              negb (has_opt 16 (m_opts (p_msg p)))).
    + apply add_opt_raw_within; [assumption| |].
      * pose proof (add_opt_raw_spec p 16 [16]) as H1.
        destruct (add_opt_raw p 16 [16]) as [r1 p1]. cbn [snd]. destruct H1 as (_ & Hf1 & Ht1).
        destruct r1; [rewrite (Ht1 eq_refl) | rewrite (Hf1 eq_refl); assumption].
        unfold set_opts. cbn [p_msg m_opts]. apply insert_opt_ascending; [lia | assumption].
      * apply add_opt_raw_within; [lia | assumption | assumption].
    + apply add_opt_raw_within; assumption.
  - destruct d as [|x xs]; [exact Hw|].
    destruct (m_payload (p_msg p)) eqn:Epl; [|exact Hw].
    destruct (fits p _) eqn:Ef; [|exact Hw].
    cbn [snd]. unfold within_max. cbn [p_max p_msg]. intros Hmax. unfold fits in Ef.
    unfold used, content_area in *. cbn [m_token m_opts m_payload]. rewrite Epl in Ef.
    cbn [payload_area] in *. rewrite !len_app in *. rewrite len_cons.
    rewrite (@len_nil Z) in Ef. lia.
Qed.

Theorem run_ops_within ops : forall p,
  Forall op_ok ops -> body_wf (p_msg p) -> within_max p -> within_max (snd (run_ops p ops)).
Proof.
  induction ops as [|o tl IH]; intros p Hok Hb Hw; [exact Hw|].
  rewrite run_ops_cons. cbn [snd]. inversion Hok as [|? ? Ho Htl]; subst.
  apply IH; [assumption | apply apply_op_body_wf; assumption | apply apply_op_within; assumption].
Qed.

Lemma run_ops_max ops : forall p, p_max (snd (run_ops p ops)) = p_max p.
Proof.
  induction ops as [|o tl IH]; intros p; [reflexivity|].
  rewrite run_ops_cons. cbn [snd]. rewrite IH.
  pose proof (apply_op_spec p o) as H. destruct (apply_op p o). cbn [snd]. apply H.
Qed.

(* for every maximum PDU size: whatever is built stays within it *)
Theorem built_message_within_max ty code mid max ops :
  Forall op_ok ops -> 0 < max ->
  used (p_msg (snd (run_ops (pdu_init ty code mid max) ops))) <= max.
Proof.
  intros Hok Hmax.
  assert (Hw : within_max (pdu_init ty code mid max)).
  { unfold within_max, pdu_init, used, content_area. cbn. lia. }
  pose proof (run_ops_within ops _ Hok (init_body_wf ty code mid max) Hw) as H.
  unfold within_max in H. rewrite run_ops_max in H. cbn [pdu_init p_max] in H. apply H. lia.
Qed.

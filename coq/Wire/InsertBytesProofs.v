(* coap_insert_option's in-place byte edit (Wire/InsertBytes.v) refines the abstract insert_opt:
   on the canonical encoding of any ascending, well-formed option list that contains an option
   with a larger number, the patched bytes are the canonical encoding of the list with the new
   option inserted after the last option whose number is <= n - whatever follows the options
   (payload marker and payload) is carried along unchanged. *)
From LibcoapV Require Import Base.Tactics Base.Bytes Base.BytesProofs Wire.OptCodec
  Wire.OptCodecProofs Wire.Pdu Wire.PduProofs Wire.InsertBytes.
Local Open Scope Z_scope.

Lemma land15 a : 0 <= a -> Z.land a 15 = a mod 16.
Proof. intros H. change 15 with (Z.ones 4). rewrite Z.land_ones by lia. reflexivity. Qed.

Ltac cons_eq :=
  repeat (match goal with |- _ :: _ = _ :: _ => apply f_equal2 end);
  try reflexivity.

Lemma ext_small x : x < 13 -> ext_nib x = x /\ ext_bytes x = [].
Proof. intros H. unfold ext_nib, ext_bytes. replace (x <? 13) with true by lia. auto. Qed.
Lemma ext_mid x : 13 <= x < 269 -> ext_nib x = 13 /\ ext_bytes x = [x - 13].
Proof.
  intros H. unfold ext_nib, ext_bytes. replace (x <? 13) with false by lia.
  replace (x <? 269) with true by lia. auto.
Qed.
Lemma ext_big x : 269 <= x ->
  ext_nib x = 14 /\ ext_bytes x = [((x - 269) / 256) mod 256; (x - 269) mod 256].
Proof.
  intros H. unfold ext_nib, ext_bytes. replace (x <? 13) with false by lia.
  replace (x <? 269) with false by lia. auto.
Qed.

(* the header patch: the next option's delta field re-encoded in place *)
Lemma bi_patch_enc d_old d_new w rest :
  1 <= d_new -> d_new <= d_old -> d_old <= 65535 ->
  bi_patch (opt_enc d_old w ++ rest) d_old d_new = opt_enc d_new w ++ rest.
Proof.
  intros H1 H2 H3.
  pose proof (ext_nib_range (len w) (len_nonneg w)) as HL.
  unfold opt_enc, opt_hdr, bi_patch.
  set (L := ext_nib (len w)) in *. set (E := ext_bytes (len w)).
  assert (Ho : d_old < 13 \/ 13 <= d_old < 269 \/ 269 <= d_old) by lia.
  assert (Hn : d_new < 13 \/ 13 <= d_new < 269 \/ 269 <= d_new) by lia.
  destruct Ho as [Ho | [Ho | Ho]].
  - destruct (ext_small d_old Ho) as [-> ->]. destruct (ext_small d_new ltac:(lia)) as [-> ->].
    replace (d_old <? 13) with true by lia.
    cbn [app bi_upd firstn skipn]. cons_eq.
    unfold bi_first, bi_lo. cbn [app nth]. rewrite land15 by lia. lia.
  - destruct (ext_mid d_old Ho) as [-> ->].
    replace (d_old <? 13) with false by lia. replace (d_old <? 269) with true by lia.
    destruct Hn as [Hn | [Hn | Hn]]; [| |lia].
    + destruct (ext_small d_new Hn) as [-> ->]. replace (d_new <? 13) with true by lia.
      cbn [andb app bi_upd firstn skipn]. cons_eq.
      unfold bi_first, bi_lo. cbn [app nth]. rewrite land15 by lia. lia.
    + destruct (ext_mid d_new Hn) as [-> ->]. replace (d_new <? 13) with false by lia.
      replace (d_new <? 269) with true by lia.
      cbn [andb app bi_upd firstn skipn]. cons_eq. lia.
  - destruct (ext_big d_old Ho) as [-> ->].
    replace (d_old <? 13) with false by lia. replace (d_old <? 269) with false by lia.
    destruct Hn as [Hn | [Hn | Hn]].
    + destruct (ext_small d_new Hn) as [-> ->]. replace (d_new <? 13) with true by lia.
      cbn [andb app bi_upd firstn skipn]. cons_eq.
      unfold bi_first, bi_lo. cbn [app nth]. rewrite land15 by lia. lia.
    + destruct (ext_mid d_new Hn) as [-> ->]. replace (d_new <? 13) with false by lia.
      replace (d_new <? 269) with true by lia.
      cbn [andb app bi_upd firstn skipn]. cons_eq; [|lia].
      unfold bi_lo. cbn [app nth]. rewrite land15 by lia. lia.
    + destruct (ext_big d_new Hn) as [-> ->]. replace (d_new <? 13) with false by lia.
      replace (d_new <? 269) with false by lia.
      cbn [andb app bi_upd firstn skipn]. cons_eq; lia.
Qed.

(* ---- the locate loop + the edit ---- *)

Section Insert.
Variables (n : Z) (v : bytes).

Lemma bi_insert_aux l : forall cur pre fuel tail,
  (length l <= fuel)%nat -> ascending cur l -> Forall opt_wf l -> 0 <= cur <= n ->
  Exists (fun o => n < fst o) l ->
  exists pre' prev nx o,
    bi_locate fuel n cur pre (opts_enc cur l ++ tail) = Some (pre', prev, nx, o) /\
    pre' ++ opt_enc (n - prev) v ++ bi_patch o (nx - prev) (nx - n) =
    pre ++ opts_enc cur (insert_opt n v l) ++ tail.
Proof.
  induction l as [|[k w] tl IH]; intros cur pre fuel tail Hf Ha Hw Hc He.
  - inversion He.
  - cbn [ascending fst] in Ha. destruct Ha as [Hk Ht].
    inversion Hw as [|? ? [Hk2 [Hwl Hwb]] Hw']; subst. cbn [fst snd] in *.
    destruct fuel as [|fuel]; [cbn [length] in Hf; lia|]. cbn [length] in Hf.
    cbn [opts_enc]. rewrite <- app_assoc.
    destruct (opt_enc_first (k - cur) w (opts_enc k tl ++ tail) ltac:(lia)) as (b & r & Eb & Nb).
    cbn [bi_locate]. rewrite Eb. replace (b =? PAYLOAD_START) with false by lia.
    rewrite <- Eb. rewrite opt_parse_enc by lia.
    replace (cur + (k - cur)) with k by lia.
    replace (MAX_OPT <? k) with false by (unfold MAX_OPT; lia).
    cbn [insert_opt].
    destruct (n <? k) eqn:E.
    + replace (k <=? n) with false by lia.
      exists pre, cur, k, (opt_enc (k - cur) w ++ opts_enc k tl ++ tail).
      split; [reflexivity|].
      rewrite bi_patch_enc by lia.
      cbn [opts_enc]. rewrite <- !app_assoc. reflexivity.
    + replace (k <=? n) with true by lia.
      assert (He' : Exists (fun o => n < fst o) tl).
      { inversion He as [? ? Hh|? ? Hh]; subst; [cbn [fst] in Hh; lia | assumption]. }
      rewrite len_app.
      replace (len (opt_enc (k - cur) w) + len (opts_enc k tl ++ tail) - len (opts_enc k tl ++ tail))
        with (len (opt_enc (k - cur) w)) by lia.
      rewrite take_app_exact.
      destruct (IH k (pre ++ opt_enc (k - cur) w) fuel tail ltac:(lia) Ht Hw' ltac:(lia) He')
        as (pre' & prev & nx & o & H1 & H2).
      exists pre', prev, nx, o. split; [exact H1|].
      rewrite H2. cbn [opts_enc]. rewrite <- !app_assoc. reflexivity.
Qed.

Lemma opts_enc_length_le l : forall prev tail, (length l <= length (opts_enc prev l ++ tail))%nat.
Proof.
  intros prev tail. rewrite app_length. pose proof (opts_enc_length l prev). lia.
Qed.

(* coap_insert_option on the canonical encoding of an ascending, well-formed option list that
   contains an option with a number > n: the area afterwards is the canonical encoding of
   insert_opt n v l; what follows the options is unchanged *)
Theorem bi_insert_refines l tail :
  ascending 0 l -> Forall opt_wf l -> 0 <= n -> Exists (fun o => n < fst o) l ->
  bi_insert (opts_enc 0 l ++ tail) n v = Some (opts_enc 0 (insert_opt n v l) ++ tail).
Proof.
  intros Ha Hw Hn He. unfold bi_insert.
  destruct (bi_insert_aux l 0 [] (length (opts_enc 0 l ++ tail)) tail
              (opts_enc_length_le l 0 tail) Ha Hw ltac:(lia) He)
    as (pre' & prev & nx & o & H1 & H2).
  rewrite H1. rewrite H2. reflexivity.
Qed.

End Insert.

(* the hypothesis "an option with a larger number exists" is the C's branch condition
   number < pdu->max_opt *)
Lemma exists_larger_iff_last n l : l <> [] -> ascending 0 l ->
  (Exists (fun o => n < fst o) l <-> n < last_num l).
Proof.
  intros Hne Ha. unfold last_num. split.
  - intros He. revert Ha. generalize 0 at 1. induction l as [|o tl IH]; [contradiction|].
    intros p [Hp Ht]. destruct tl as [|o2 tl2].
    + cbn [last]. inversion He as [? ? Hh|? ? Hh]; subst; [exact Hh | inversion Hh].
    + change (last (o :: o2 :: tl2) (0, [])) with (last (o2 :: tl2) (0, [])).
      inversion He as [? ? Hh|? ? Hh]; subst.
      * assert (G : forall q t, ascending q t -> t <> [] -> q <= fst (last t (0, []))).
        { clear. intros q t. revert q. induction t as [|a t IHt]; intros q Hq Hn; [contradiction|].
          destruct Hq as [Hq1 Hq2]. destruct t as [|a2 t2]; [cbn [last]; lia|].
          change (last (a :: a2 :: t2) (0, [])) with (last (a2 :: t2) (0, [])).
          specialize (IHt (fst a) Hq2 ltac:(discriminate)). lia. }
        specialize (G (fst o) (o2 :: tl2) Ht ltac:(discriminate)). lia.
      * apply (IH ltac:(discriminate) Hh (fst o) Ht).
  - intros Hl. clear Ha. induction l as [|o tl IH]; [contradiction|].
    destruct tl as [|o2 tl2].
    + cbn [last] in Hl. left. exact Hl.
    + right. apply IH; [discriminate|exact Hl].
Qed.

(* non-vacuity + the three shrink cases on concrete bytes: Uri-Path inserted in front of an
   option 65000 (delta 2 bytes -> 2 bytes), in front of option 300 (2 bytes -> 1 byte -> ...),
   and a delta that drops below 13 (header shrinks by 2) *)
Example bi_insert_demo :
  bi_insert (opts_enc 0 [(3, [104]); (65000, [1; 2])] ++ [255; 9]) 11 [97] =
    Some (opts_enc 0 [(3, [104]); (11, [97]); (65000, [1; 2])] ++ [255; 9]) /\
  bi_insert (opts_enc 0 [(300, [7])]) 299 [] = Some (opts_enc 0 [(299, []); (300, [7])]) /\
  bi_insert (opts_enc 0 [(300, [7])]) 40 [5] = Some (opts_enc 0 [(40, [5]); (300, [7])]) /\
  bi_insert (opts_enc 0 [(20, [7])]) 12 [5] = Some (opts_enc 0 [(12, [5]); (20, [7])]).
Proof. vm_compute. repeat split; reflexivity. Qed.

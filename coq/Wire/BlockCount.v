(* The number of blocks of a body, as coap_handle_request_put_block computes it for
   check_all_blocks_in:  (uint32_t)((lg_srcv->total_len + chunk - 1) / chunk)  with total_len a
   size_t that starts as the peer's Size1 (at most 2^32 - 1, the option has at most 4 bytes) and
   chunk = 2^(szx+4).  The pinned tree narrowed before dividing:
   (uint32_t)(total_len + chunk - 1) / chunk. *)
From Coq Require Import ZArith.
Local Open Scope Z_scope.

Definition U32 : Z := 4294967296.
Definition bc_count (total chunk : Z) : Z := ((total + chunk - 1) / chunk) mod U32.
Definition bc_count_as_found (total chunk : Z) : Z := ((total + chunk - 1) mod U32) / chunk.

(* The stream framing function cuts exactly at message boundaries: for every well-formed message,
   coap_pdu_parse_size applied to its TCP encoding is the number of bytes that follow the
   header. *)
From LibcoapV Require Import Base.Tactics Base.Bytes Base.BytesProofs Wire.OptCodec
  Wire.OptCodecProofs Wire.Pdu Wire.PduProofs Wire.Frame.
Local Open Scope Z_scope.

Lemma fr_tok_area t rest :
  len t <= 65804 -> fr_tok_area_size (tkl_nib t) (token_area t ++ rest) = len (token_area t).
Proof.
  intros Ht. pose proof (len_nonneg t) as H0. unfold tkl_nib, token_area, fr_tok_area_size.
  destruct (len t <? 13) eqn:E1.
  - rewrite E1. reflexivity.
  - destruct (len t <? 269) eqn:E2.
    + cbn [Z.ltb Z.eqb Z.compare Pos.compare Pos.compare_cont Pos.eqb app].
      rewrite len_cons. lia.
    + cbn [Z.ltb Z.eqb Z.compare Pos.compare Pos.compare_cont Pos.eqb app be16].
      rewrite !len_cons. lia.
Qed.

Theorem fr_parse_size_serialize m :
  msg_wf m -> len (content_area m) <= 65805 + 4294967295 ->
  fr_parse_size TCP (serialize TCP m) = len (token_area (m_token m)) + len (content_area m).
Proof.
  intros W Hmax. destruct W as [_ _ _ [Htl _] _ _ _ _].
  pose proof (tkl_nib_range (m_token m)) as Ht.
  pose proof (len_nonneg (content_area m)) as Hl.
  pose proof (fr_tok_area (m_token m) (content_area m) Htl) as Hta.
  unfold fr_parse_size, serialize, header.
  set (tk := tkl_nib (m_token m)) in *. set (L := len (content_area m)) in *.
  set (rest := token_area (m_token m) ++ content_area m) in *.
  destruct (L <=? 12) eqn:E1.
  - cbn [app fr_len_field].
    replace ((16 * L + tk) / 16 <? 13) with true by lia.
    replace ((16 * L + tk) mod 16) with tk by lia. rewrite Hta. lia.
  - destruct (L <=? 268) eqn:E2.
    + cbn [app fr_len_field].
      replace ((208 + tk) / 16 <? 13) with false by lia.
      replace ((208 + tk) / 16 =? 13) with true by lia.
      replace ((208 + tk) mod 16) with tk by lia. rewrite Hta. lia.
    + destruct (L <=? 65804) eqn:E3.
      * cbn [app fr_len_field be16].
        replace ((224 + tk) / 16 <? 13) with false by lia.
        replace ((224 + tk) / 16 =? 13) with false by lia.
        replace ((224 + tk) / 16 =? 14) with true by lia.
        replace ((224 + tk) mod 16) with tk by lia. rewrite Hta. lia.
      * cbn [app fr_len_field be32].
        replace ((240 + tk) / 16 <? 13) with false by lia.
        replace ((240 + tk) / 16 =? 13) with false by lia.
        replace ((240 + tk) / 16 =? 14) with false by lia.
        replace ((240 + tk) mod 16) with tk by lia. rewrite Hta. lia.
Qed.

(* WebSocket: the function reports 0, the frame length delimits the message *)
Lemma fr_parse_size_ws bs : fr_parse_size WS bs = 0.
Proof. reflexivity. Qed.

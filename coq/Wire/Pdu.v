(* Model of src/coap_pdu.c: abstract message, serialisation for the three framings
   (coap_pdu_encode_header + token/option/payload area) and coap_pdu_parse
   (coap_pdu_parse_header_size, coap_pdu_parse_header, coap_pdu_parse_opt). *)
From Coq Require Import ZArith List Bool.
From LibcoapV Require Import Base.Bytes Wire.OptCodec.
Import ListNotations.
Local Open Scope Z_scope.

Inductive proto := UDP | TCP | WS.   (* DTLS frames like UDP, TLS like TCP, WSS like WS *)

Record msg := mkMsg {
  m_type : Z; m_code : Z; m_mid : Z;
  m_token : bytes; m_opts : list opt; m_payload : bytes }.

(* ---- per-option length limits: coap_pdu_parse_opt_base / coap_pdu_parse_opt_csm ---- *)

Definition base_limit (n : Z) : option (Z * Z) :=
  match n with
  | 1 => Some (0, 8) | 3 => Some (1, 255) | 4 => Some (1, 8) | 5 => Some (0, 0)
  | 6 => Some (0, 3) | 7 => Some (0, 2) | 8 => Some (0, 255) | 9 => Some (0, 255)
  | 11 => Some (0, 255) | 12 => Some (0, 2) | 14 => Some (0, 4) | 15 => Some (0, 255)
  | 16 => Some (1, 1) | 17 => Some (0, 2) | 19 => Some (0, 3) | 20 => Some (0, 255)
  | 23 => Some (0, 3) | 27 => Some (0, 3) | 28 => Some (0, 4) | 31 => Some (0, 3)
  | 35 => Some (1, 1034) | 39 => Some (1, 255)
  | 60 => Some (0, 4) | 252 => Some (1, 40) | 258 => Some (0, 1) | 292 => Some (0, 8)
  | _ => None
  end.

(* signalling codes 7.01 .. 7.05 = 225 .. 229; [None] in the inner table with an odd (critical)
   number is rejected *)
Definition csm_limit (code n : Z) : option (Z * Z) :=
  match code, n with
  | 225, 2 => Some (0, 4) | 225, 4 => Some (0, 0) | 225, 6 => Some (0, 3)
  | 226, 2 => Some (0, 0) | 227, 2 => Some (0, 0)
  | 228, 2 => Some (1, 255) | 228, 4 => Some (0, 3)
  | 229, 2 => Some (0, 2)
  | _, _ => None
  end.

Definition in_range (r : option (Z * Z)) (l : Z) : bool :=
  match r with Some (lo, hi) => (lo <=? l) && (l <=? hi) | None => true end.

Definition limit_ok (code n l : Z) : bool :=
  if 224 <=? code then
    match csm_limit code n with
    | Some r => in_range (Some r) l
    | None => if (225 <=? code) && (code <=? 229) then Z.even n else true
    end
  else in_range (base_limit n) l.

Definition limits_ok (code : Z) (l : list opt) : bool :=
  forallb (fun o => limit_ok code (fst o) (len (snd o))) l.

(* ---- serialisation ---- *)

(* coap_add_token: TKL nibble and the token area (extended length bytes + token) *)
Definition tkl_nib (t : bytes) : Z :=
  let n := len t in if n <? 13 then n else if n <? 269 then 13 else 14.
Definition token_area (t : bytes) : bytes :=
  let n := len t in
  if n <? 13 then t else if n <? 269 then (n - 13) :: t else be16 (n - 269) ++ t.

Definition payload_area (p : bytes) : bytes :=
  match p with [] => [] | _ => PAYLOAD_START :: p end.

(* options + payload marker + payload : what the TCP Len field counts *)
Definition content_area (m : msg) : bytes := opts_enc 0 (m_opts m) ++ payload_area (m_payload m).

(* coap_pdu_encode_header *)
Definition header (p : proto) (m : msg) : bytes :=
  let tkl := tkl_nib (m_token m) in
  match p with
  | UDP => [64 + 16 * m_type m + tkl; m_code m; (m_mid m / 256) mod 256; m_mid m mod 256]
  | WS => [tkl; m_code m]
  | TCP =>
      let l := len (content_area m) in
      if l <=? 12 then [16 * l + tkl; m_code m]
      else if l <=? 268 then [208 + tkl; l - 13; m_code m]
      else if l <=? 65804 then (224 + tkl) :: be16 (l - 269) ++ [m_code m]
      else (240 + tkl) :: be32 (l - 65805) ++ [m_code m]
  end.

Definition serialize (p : proto) (m : msg) : bytes :=
  header p m ++ token_area (m_token m) ++ content_area m.

(* ---- parsing ---- *)

(* coap_pdu_parse_header_size *)
Definition header_size (p : proto) (b0 : Z) : Z :=
  match p with
  | UDP => 4
  | WS => 2
  | TCP => let l := b0 / 16 in
           if l <? 13 then 2 else if l =? 13 then 3 else if l =? 14 then 4 else 6
  end.

(* token part of coap_pdu_parse_header; [area] = everything after the header.
   Result: (token, rest).  The C checks e_token_length against the received size. *)
Definition parse_token (tkl : Z) (area : bytes) : option (bytes * bytes) :=
  if tkl <? 13 then
    if tkl <=? len area then Some (take tkl area, drop tkl area) else None
  else if tkl =? 13 then
    match area with
    | b :: r => let n := b + 13 in
                if n <=? len r then Some (take n r, drop n r) else None
    | [] => None
    end
  else if tkl =? 14 then
    match area with
    | b1 :: b2 :: r => let n := b1 * 256 + b2 + 269 in
                       if n <=? len r then Some (take n r, drop n r) else None
    | _ => None
    end
  else None.

Definition last_byte (l : bytes) : Z := last l 0.

Definition parse (p : proto) (bs : bytes) : option msg :=
  match bs with
  | [] => None
  | b0 :: _ =>
      let hs := header_size p b0 in
      if len bs <? hs then None else
      let hdr := take hs bs in
      let area := drop hs bs in
      let fields :=
        match p, hdr with
        | UDP, [h0; h1; h2; h3] =>
            if h0 / 64 =? 1 then Some ((h0 / 16) mod 4, h1, h2 * 256 + h3) else None
        | UDP, _ => None
        | _, _ => Some (0, last_byte hdr, 0)
        end in
      match fields with
      | None => None
      | Some (ty, code, mid) =>
          match parse_token (b0 mod 16) area with
          | None => None
          | Some (tok, rest) =>
              if code =? 0 then
                match area with
                | [] => Some (mkMsg ty code mid [] [] [])
                | _ => None
                end
              else
                match opts_parse (length rest) 0 rest with
                | None => None
                | Some (os, tail) =>
                    if limits_ok code os then
                      match tail with
                      | [] => Some (mkMsg ty code mid tok os [])
                      | _ :: [] => None            (* marker without payload *)
                      | _ :: pl => Some (mkMsg ty code mid tok os pl)
                      end
                    else None
                end
          end
      end
  end.

(* ---- the abstract builder (what the API calls mean) ---- *)

(* coap_add_option / coap_insert_option: after the last option whose number is <= n *)
Fixpoint insert_opt (n : Z) (v : bytes) (l : list opt) : list opt :=
  match l with
  | [] => [(n, v)]
  | (k, w) :: tl => if k <=? n then (k, w) :: insert_opt n v tl else (n, v) :: l
  end.

Definition last_num (l : list opt) : Z := fst (last l (0, [])).

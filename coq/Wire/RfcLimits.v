(* The per-option length limits as the RFCs define them - written down from the RFC texts, one
   row per option, independently of the code.  [Pdu.base_limit] / [Pdu.csm_limit] are the tables
   transcribed from coap_pdu_parse_opt_base / coap_pdu_parse_opt_csm and tied to the C on every
   run (limit sweep of the C03 check); the theorems in RfcLimitsProofs.v compare the two for
   every option number and every length.

   Sources (option number, format, length in bytes):
     RFC 7252 section 5.10, table 4: If-Match 1 opaque 0-8; Uri-Host 3 string 1-255;
       ETag 4 opaque 1-8; If-None-Match 5 empty 0; Uri-Port 7 uint 0-2; Location-Path 8 string
       0-255; Uri-Path 11 string 0-255; Content-Format 12 uint 0-2; Max-Age 14 uint 0-4;
       Uri-Query 15 string 0-255; Accept 17 uint 0-2; Location-Query 20 string 0-255;
       Proxy-Uri 35 string 1-1034; Proxy-Scheme 39 string 1-255; Size1 60 uint 0-4.
     RFC 7641 section 2: Observe 6 uint 0-3.
     RFC 7959 sections 2.1, 4: Block2 23, Block1 27 uint 0-3; Size2 28 uint 0-4.
     RFC 7967 section 2: No-Response 258 uint 0-1.
     RFC 8613 section 2: OSCORE 9 (see below) 0-255.
     RFC 8768 section 3: Hop-Limit 16 uint 1.
     RFC 9175 sections 2.2.1, 3.2.1: Echo 252 opaque 1-40; Request-Tag 292 opaque 0-8.
     RFC 9177 section 4.1: Q-Block1 19, Q-Block2 31 uint 0-3.
     RFC 8323 section 5.3-5.6 and RFC 8974 section 2.2.1 (signalling options, per code):
       7.01 CSM: Max-Message-Size 2 uint 0-4; Block-Wise-Transfer 4 empty 0;
                 Extended-Token-Length 6 uint 0-3.
       7.02 Ping, 7.03 Pong: Custody 2 empty 0.
       7.04 Release: Alternative-Address 2 string 1-255; Hold-Off 4 uint 0-3.
       7.05 Abort: Bad-CSM-Option 2 uint 0-2. *)
From Coq Require Import ZArith List Bool.
From LibcoapV Require Import Base.Bytes Wire.OptCodec Wire.Pdu.
Import ListNotations.
Local Open Scope Z_scope.

(* (option number, (minimum length, maximum length)) *)
Definition rfc_base_table : list (Z * (Z * Z)) :=
  [ (1, (0, 8)); (3, (1, 255)); (4, (1, 8)); (5, (0, 0)); (6, (0, 3)); (7, (0, 2));
    (8, (0, 255)); (9, (0, 255)); (11, (0, 255)); (12, (0, 2)); (14, (0, 4)); (15, (0, 255));
    (16, (1, 1)); (17, (0, 2)); (19, (0, 3)); (20, (0, 255)); (23, (0, 3)); (27, (0, 3));
    (28, (0, 4)); (31, (0, 3)); (35, (1, 1034)); (39, (1, 255)); (60, (0, 4)); (252, (1, 40));
    (258, (0, 1)); (292, (0, 8)) ].

(* (code, option number, (minimum, maximum)) *)
Definition rfc_csm_table : list (Z * Z * (Z * Z)) :=
  [ (225, 2, (0, 4)); (225, 4, (0, 0)); (225, 6, (0, 3));
    (226, 2, (0, 0)); (227, 2, (0, 0));
    (228, 2, (1, 255)); (228, 4, (0, 3));
    (229, 2, (0, 2)) ].

Fixpoint rfc_lookup (n : Z) (t : list (Z * (Z * Z))) : option (Z * Z) :=
  match t with
  | [] => None
  | (k, r) :: tl => if k =? n then Some r else rfc_lookup n tl
  end.

Fixpoint rfc_lookup2 (c n : Z) (t : list (Z * Z * (Z * Z))) : option (Z * Z) :=
  match t with
  | [] => None
  | (k, j, r) :: tl => if (k =? c) && (j =? n) then Some r else rfc_lookup2 c n tl
  end.

Definition rfc_base_limit (n : Z) : option (Z * Z) := rfc_lookup n rfc_base_table.
Definition rfc_csm_limit (c n : Z) : option (Z * Z) := rfc_lookup2 c n rfc_csm_table.

(* a length is within the limit the RFCs give for option [n] in a message with code [code];
   options the RFCs do not define have no limit here; an unknown critical (odd) option in a
   signalling message 7.01-7.05 is an error of the message (RFC 8323 section 5.2) *)
Definition rfc_limit_ok (code n l : Z) : bool :=
  if 224 <=? code then
    match rfc_csm_limit code n with
    | Some r => in_range (Some r) l
    | None => if (225 <=? code) && (code <=? 229) then Z.even n else true
    end
  else in_range (rfc_base_limit n) l.

(* the table coap_pdu_parse_opt_base had when this work started (pinned commit): Uri-Query could
   not be empty, Echo could, Q-Block1 / Q-Block2 had no limit *)
Definition base_limit_as_found (n : Z) : option (Z * Z) :=
  match n with
  | 15 => Some (1, 255) | 252 => Some (0, 40) | 19 => None | 31 => None
  | _ => base_limit n
  end.

(* C19 - proofs about the gate model, part 1: on a DTLS session no cleartext leaves through the
   session layer, and application data moves (ODeliver, OTlsTx) only after a gnutls_handshake
   call returned success. *)
From LibcoapV Require Import Base.Tactics Base.Bytes Tls.Gate.
Local Open Scope Z_scope.

(* ------------------------------------------------------------------ the scanner
   tg_scan seen o = (ok, seen'): walking the outputs in order, seen becomes true at the first
   OHs 0; ok is false if a cleartext write occurs, or application data moves while seen is
   still false. *)
Definition tg_is_app (x : tg_out) : bool :=
  match x with ODeliver _ _ | OTlsTx _ _ => true | _ => false end.
Definition tg_is_clear (x : tg_out) : bool :=
  match x with OWireClear _ => true | _ => false end.
Definition tg_is_ok (x : tg_out) : bool :=
  match x with OHs c => c =? 0 | _ => false end.

Fixpoint tg_scan (seen : bool) (o : list tg_out) : bool * bool :=
  match o with
  | [] => (true, seen)
  | x :: r =>
      let here := negb (tg_is_clear x) && (negb (tg_is_app x) || seen) in
      let '(ok, s') := tg_scan (seen || tg_is_ok x) r in
      (here && ok, s')
  end.

Lemma tg_scan_app : forall a b seen,
  tg_scan seen (a ++ b) =
  (fst (tg_scan seen a) && fst (tg_scan (snd (tg_scan seen a)) b),
   snd (tg_scan (snd (tg_scan seen a)) b)).
Proof.
  induction a as [|x a IH]; intros b seen; simpl.
  - destruct (tg_scan seen b); reflexivity.
  - rewrite IH. destruct (tg_scan (seen || tg_is_ok x) a) as [ok1 s1]. simpl.
    destruct (tg_scan s1 b) as [ok2 s2]. simpl.
    rewrite andb_assoc. reflexivity.
Qed.

Lemma tg_scan_seen_mono : forall o seen, seen = true -> snd (tg_scan seen o) = true.
Proof.
  induction o as [|x o IH]; intros seen H; simpl; auto.
  specialize (IH (seen || tg_is_ok x)).
  destruct (tg_scan (seen || tg_is_ok x) o) as [ok s']. simpl in *.
  apply IH. rewrite H. reflexivity.
Qed.

(* what an accepted output list looks like *)
Lemma tg_scan_no_clear : forall o seen b,
  fst (tg_scan seen o) = true -> ~ In (OWireClear b) o.
Proof.
  induction o as [|x o IH]; intros seen b H HI; simpl in *; auto.
  destruct (tg_scan (seen || tg_is_ok x) o) as [ok s'] eqn:E. simpl in H.
  apply andb_true_iff in H. destruct H as [H1 H2].
  destruct HI as [HI|HI].
  - subst x. simpl in H1. discriminate.
  - apply (IH (seen || tg_is_ok x) b); auto. rewrite E. exact H2.
Qed.

Lemma tg_is_ok_inv : forall z, tg_is_ok z = true -> z = OHs 0.
Proof.
  intros z H. destruct z; simpl in H; try discriminate.
  apply Z.eqb_eq in H. subst. reflexivity.
Qed.

Lemma tg_scan_gate : forall o seen l1 x l2,
  fst (tg_scan seen o) = true -> o = l1 ++ x :: l2 -> tg_is_app x = true ->
  seen = true \/ In (OHs 0) l1.
Proof.
  induction o as [|y o IH]; intros seen l1 x l2 H E A.
  - destruct l1; discriminate.
  - simpl in H. destruct (tg_scan (seen || tg_is_ok y) o) as [ok s'] eqn:ES. simpl in H.
    apply andb_true_iff in H. destruct H as [H1 H2].
    destruct l1 as [|z l1]; simpl in E; injection E as E1 E2.
    + subst y. rewrite A in H1. simpl in H1. apply andb_true_iff in H1. destruct H1 as [_ H1].
      left. exact H1.
    + subst y. destruct (IH (seen || tg_is_ok z) l1 x l2) as [Hs|Hi]; auto.
      * rewrite ES. exact H2.
      * apply orb_true_iff in Hs. destruct Hs as [Hs|Hs]; [left; exact Hs|].
        right. left. apply tg_is_ok_inv in Hs. auto.
      * right. right. exact Hi.
Qed.

Lemma tg_scan_seen_witness : forall o seen,
  snd (tg_scan seen o) = true -> seen = true \/ In (OHs 0) o.
Proof.
  induction o as [|x o IH]; intros seen H; simpl in *; auto.
  specialize (IH (seen || tg_is_ok x)).
  destruct (tg_scan (seen || tg_is_ok x) o) as [ok s']. simpl in *.
  destruct (IH H) as [Hs|Hi].
  - apply orb_true_iff in Hs. destruct Hs as [Hs|Hs]; [left; exact Hs|].
    right. left. apply tg_is_ok_inv in Hs. auto.
  - right. right. exact Hi.
Qed.

(* do_gnutls_handshake reports "established" exactly for GNUTLS_E_SUCCESS *)
Lemma tg_do_handshake_ret : forall sa code,
  (fst (fst (tg_do_handshake sa code)) =? 1) = (code =? 0).
Proof.
  intros sa code. unfold tg_do_handshake, tg_E_SUCCESS.
  destruct (code =? 0) eqn:E; [reflexivity|].
  repeat match goal with
         | |- context [if ?b then _ else _] => destruct b
         end; reflexivity.
Qed.

Section Proofs.
Variable O : tg_oracle.

(* every handshake result in the outputs is a value of the oracle *)
Definition tg_hs_from (o : list tg_out) : Prop :=
  forall c, In (OHs c) o -> exists k, c = or_hs O k.

Lemma tg_hs_from_nil : tg_hs_from [].
Proof. intros c []. Qed.
Lemma tg_hs_from_app : forall a b, tg_hs_from a -> tg_hs_from b -> tg_hs_from (a ++ b).
Proof. intros a b Ha Hb c H. apply in_app_or in H. destruct H; auto. Qed.
Lemma tg_hs_from_cons : forall x a,
  (forall c, x <> OHs c) -> tg_hs_from a -> tg_hs_from (x :: a).
Proof. intros x a Hx Ha c [H|H]; [exfalso; eapply Hx; eauto | auto]. Qed.

(* ------------------------------------------------------------------ invariant and triples *)
Definition tg_I (s : tg_sess) : Prop :=
  (ts_tls_est s = true -> ts_tls s = true) /\
  (ts_state s = TgEstablished -> ts_tls_est s = true) /\
  (ts_type s = TgHello -> ts_state s <> TgEstablished).

Definition tg_pre (seen : bool) (s : tg_sess) : Prop :=
  ts_proto s = TgDtls /\ tg_I s /\ (ts_tls_est s = true -> seen = true).

Definition tg_post (seen : bool) (o : list tg_out) (s' : tg_sess) : Prop :=
  tg_pre (snd (tg_scan seen o)) s' /\ fst (tg_scan seen o) = true /\ tg_hs_from o.

Lemma tg_post_nil : forall seen s, tg_pre seen s -> tg_post seen [] s.
Proof. intros. repeat split; try apply H. apply tg_hs_from_nil. Qed.

Lemma tg_post_app : forall seen o1 s1 o2 s2,
  tg_post seen o1 s1 -> tg_post (snd (tg_scan seen o1)) o2 s2 -> tg_post seen (o1 ++ o2) s2.
Proof.
  intros seen o1 s1 o2 s2 [P1 [F1 H1]] [P2 [F2 H2]].
  unfold tg_post. rewrite tg_scan_app. simpl. rewrite F1, F2.
  repeat split; try apply P2. apply tg_hs_from_app; auto.
Qed.

Lemma tg_post_cons : forall seen x o s',
  negb (tg_is_clear x) && (negb (tg_is_app x) || seen) = true ->
  (forall c, x = OHs c -> exists k, c = or_hs O k) ->
  tg_post (seen || tg_is_ok x) o s' -> tg_post seen (x :: o) s'.
Proof.
  intros seen x o s' Hx Hh [P [F H]]. unfold tg_post. simpl.
  destruct (tg_scan (seen || tg_is_ok x) o) as [ok sn] eqn:E. simpl in *.
  rewrite Hx, F. repeat split; try apply P.
  intros c [HI|HI]; [apply Hh; auto | apply H; auto].
Qed.

(* outputs that neither move application data nor are handshake results nor cleartext *)
Definition tg_neutral (x : tg_out) : bool :=
  negb (tg_is_app x) && negb (tg_is_clear x) && match x with OHs _ => false | _ => true end.

Lemma tg_scan_neutral : forall o seen,
  forallb tg_neutral o = true -> tg_scan seen o = (true, seen).
Proof.
  induction o as [|x o IH]; intros seen H; simpl in *; auto.
  apply andb_true_iff in H. destruct H as [Hx Ho].
  unfold tg_neutral in Hx. apply andb_true_iff in Hx. destruct Hx as [Hx H3].
  apply andb_true_iff in Hx. destruct Hx as [H1 H2].
  assert (tg_is_ok x = false) by (destruct x; simpl in *; auto; discriminate).
  rewrite H, orb_false_r, IH; auto.
  apply negb_true_iff in H1. apply negb_true_iff in H2. rewrite H1, H2. reflexivity.
Qed.

Lemma tg_hs_from_neutral : forall o, forallb tg_neutral o = true -> tg_hs_from o.
Proof.
  intros o H c HI. rewrite forallb_forall in H. specialize (H _ HI).
  unfold tg_neutral in H. apply andb_true_iff in H. destruct H as [_ H]. discriminate.
Qed.

Lemma tg_post_neutral : forall seen o s',
  forallb tg_neutral o = true -> tg_pre seen s' -> tg_post seen o s'.
Proof.
  intros seen o s' H P. unfold tg_post. rewrite tg_scan_neutral; auto. simpl.
  repeat split; try apply P. apply tg_hs_from_neutral; auto.
Qed.

Lemma tg_neutral_app : forall a b,
  forallb tg_neutral a = true -> forallb tg_neutral b = true -> forallb tg_neutral (a ++ b) = true.
Proof. intros. rewrite forallb_app, H, H0. reflexivity. Qed.

Lemma tg_neutral_map_nack : forall r (q : list tg_msg),
  forallb tg_neutral (map (fun m => ONack (tm_id m) r) q) = true.
Proof. induction q; simpl; auto. Qed.

(* ------------------------------------------------------------------ leaves *)
Lemma tg_neutral_first : forall r (q : list tg_msg),
  forallb tg_neutral (match q with
                      | m :: _ => if tm_con m then [] else [ONack (tm_id m) r]
                      | [] => [] end) = true.
Proof. destruct q as [|m q]; [reflexivity|]. destruct (tm_con m); reflexivity. Qed.

Lemma tg_disconnected_outs_neutral : forall s r s' o,
  ts_proto s = TgDtls -> tg_disconnected s r = (s', o) -> forallb tg_neutral o = true.
Proof.
  intros s r s' o Hp H. unfold tg_disconnected, tg_tls_close in H. simpl in H. rewrite Hp in H.
  destruct (ts_tls s); inversion H; subst; clear H;
    repeat rewrite forallb_app; rewrite tg_neutral_first; repeat rewrite tg_neutral_map_nack;
    match goal with |- context [if ?b then _ else _] => destruct b end; reflexivity.
Qed.

Lemma tg_disconnected_post : forall seen s r s' o,
  tg_pre seen s -> tg_disconnected s r = (s', o) ->
  tg_post seen o s' /\ ts_state s' = TgNone /\ ts_tls_est s' = false /\ ts_tls s' = false /\
  ts_type s' = ts_type s.
Proof.
  intros seen s r s' o [Hp [[I0 [I1 I2]] G]] H.
  pose proof (tg_disconnected_outs_neutral _ _ _ _ Hp H) as N.
  unfold tg_disconnected, tg_tls_close in H. simpl in H. rewrite Hp in H.
  destruct (ts_tls s) eqn:T; inversion H; subst; clear H.
  - split; [|simpl; auto]. apply tg_post_neutral; auto.
    unfold tg_pre, tg_I; simpl. repeat split; auto; try discriminate.
  - assert (E : ts_tls_est s = false).
    { destruct (ts_tls_est s) eqn:E; auto. specialize (I0 eq_refl). congruence. }
    split; [|simpl; auto]. apply tg_post_neutral; auto.
    unfold tg_pre, tg_I; simpl. rewrite E. repeat split; auto; try discriminate.
Qed.

Lemma tg_hs_call_post : forall seen s s' o r,
  tg_pre seen s -> ts_tls s = true -> tg_hs_call O s = (s', o, r) ->
  tg_post seen o s' /\ ts_state s' = ts_state s /\ ts_type s' = ts_type s /\ ts_tls s' = true /\
  (r = 1 -> ts_tls_est s' = true).
Proof.
  intros seen s s' o r [Hp [[I0 [I1 I2]] G]] T H. unfold tg_hs_call in H.
  pose proof (tg_do_handshake_ret (ts_sent_alert s) (or_hs O (ts_khs s))) as R.
  destruct (tg_do_handshake (ts_sent_alert s) (or_hs O (ts_khs s))) as [[ret ev] sa].
  simpl in R. inversion H; subst; clear H. simpl.
  split; [|repeat split; auto; intros ->; reflexivity].
  unfold tg_post. simpl.
  split; [|split; [reflexivity|]].
  - unfold tg_pre, tg_I; simpl. rewrite <- R.
    destruct (r =? 1); simpl; repeat split; intros; auto;
      try (rewrite orb_true_r; reflexivity); try (rewrite orb_false_r; auto).
  - intros c [HI|[]]. inversion HI. eexists; reflexivity.
Qed.

(* the invariant only reads five fields *)
Definition tg_same (s s' : tg_sess) : Prop :=
  ts_proto s' = ts_proto s /\ ts_tls s' = ts_tls s /\ ts_tls_est s' = ts_tls_est s /\
  ts_state s' = ts_state s /\ ts_type s' = ts_type s.

Lemma tg_pre_same : forall seen s s', tg_same s s' -> tg_pre seen s -> tg_pre seen s'.
Proof.
  intros seen s s' [E1 [E2 [E3 [E4 E5]]]] [Hp [[I0 [I1 I2]] G]].
  unfold tg_pre, tg_I. rewrite E1, E2, E3, E4, E5. auto.
Qed.

Ltac same := unfold tg_same; simpl; repeat split; reflexivity.

Lemma tg_scan_tx_seen : forall i c, tg_scan true [OTlsTx i c] = (true, true).
Proof. reflexivity. Qed.

Lemma tg_dtls_send_post : forall seen s m s' o bw,
  tg_pre seen s -> tg_dtls_send O s m = (s', o, bw) ->
  tg_post seen o s' /\ ts_type s' = ts_type s /\
  (tg_same s s' \/ (ts_state s' = TgNone /\ bw = -1)).
Proof.
  intros seen s m s' o bw P H. unfold tg_dtls_send in H.
  destruct (ts_tls s && ts_tls_est s) eqn:TE; simpl in H.
  2:{ inversion H; subst. split; [apply tg_post_nil; auto|]. split; auto. left; same. }
  apply andb_true_iff in TE. destruct TE as [T E].
  assert (S : seen = true) by (apply P; auto). subst seen.
  set (s1 := tg_set_k (tg_set_dtls_event s None) _ _ _ _) in H.
  assert (P1 : tg_pre true s1) by (eapply tg_pre_same; [|exact P]; same).
  assert (HS : forall c, tg_post true [OTlsTx (tm_id m) c] s1).
  { intros c. unfold tg_post. simpl. repeat split; try apply P1.
    intros c' [HI|[]]. discriminate. }
  destruct (0 <? or_tx O (ts_ktx s)).
  { inversion H; subst. split; [apply HS|]. split; auto. left; same. }
  destruct (or_tx O (ts_ktx s) =? tg_E_AGAIN).
  { inversion H; subst. split; [apply HS|]. split; auto. left; same. }
  destruct (or_tx O (ts_ktx s) =? tg_E_FATAL_ALERT_RECEIVED).
  2:{ inversion H; subst. split; [apply HS|]. split; auto. left; same. }
  destruct (tg_disconnected _ tg_NACK_TLS_FAILED) as [s3 o3] eqn:D.
  inversion H; subst; clear H.
  assert (P2 : tg_pre true (tg_set_dtls_event (tg_set_tls s1 (ts_tls s1) (ts_tls_est s1) true)
                                             (Some tg_EV_DTLS_CLOSED)))
    by (eapply tg_pre_same; [|exact P1]; same).
  destruct (tg_disconnected_post _ _ _ _ _ P2 D) as [Q [Q1 [Q2 [Q3 Q4]]]].
  split; [|split; [rewrite Q4; reflexivity| right; auto]].
  apply tg_post_cons; [reflexivity | discriminate |].
  apply tg_post_cons; [reflexivity | discriminate |]. exact Q.
Qed.

Lemma tg_post_same : forall seen o s s', tg_same s s' -> tg_post seen o s -> tg_post seen o s'.
Proof. intros seen o s s' S [P Q]. split; auto. eapply tg_pre_same; eauto. Qed.

Lemma tg_same_trans : forall a b c, tg_same a b -> tg_same b c -> tg_same a c.
Proof.
  unfold tg_same. intros a b c [A1 [A2 [A3 [A4 A5]]]] [B1 [B2 [B3 [B4 B5]]]].
  repeat split; congruence.
Qed.

Lemma tg_session_send_dtls : forall s m,
  ts_proto s = TgDtls -> tg_session_send O s m = tg_dtls_send O s m.
Proof. intros s m H. unfold tg_session_send. rewrite H. reflexivity. Qed.

(* the state after a helper: unchanged in the fields the invariant reads, or disconnected *)
Definition tg_kept (s s' : tg_sess) : Prop :=
  ts_type s' = ts_type s /\ (ts_state s' = ts_state s \/ ts_state s' = TgNone).

Lemma tg_flush_post : forall q seen s s' o,
  tg_pre seen s -> tg_flush O q s = (s', o) -> tg_post seen o s' /\ tg_kept s s'.
Proof.
  induction q as [|m q IH]; intros seen s s' o P H; simpl in H.
  - inversion H; subst. split; [apply tg_post_nil; auto | split; auto].
  - destruct (negb (tg_state_eqb (ts_state s) TgEstablished)).
    { inversion H; subst. split; [apply tg_post_nil; auto | split; auto]. }
    destruct (tm_con m && (ts_nstart s <=? ts_con_active s)).
    { inversion H; subst. split; [apply tg_post_nil; auto | split; auto]. }
    set (s2 := tg_set_delayq (if tm_con m then tg_set_con_active s (ts_con_active s + 1) else s) q) in H.
    assert (S2 : tg_same s s2) by (unfold s2; destruct (tm_con m); same).
    assert (P2 : tg_pre seen s2) by (eapply tg_pre_same; eauto).
    rewrite tg_session_send_dtls in H by apply P2.
    destruct (tg_dtls_send O s2 m) as [[s3 o3] bw] eqn:DS.
    destruct (tg_dtls_send_post _ _ _ _ _ _ P2 DS) as [Q3 [T3 K3]].
    set (s4 := if tm_con m then tg_set_sendq s3 (ts_sendq s3 ++ [m]) else s3) in H.
    assert (S4 : tg_same s3 s4) by (unfold s4; destruct (tm_con m); same).
    assert (K4 : tg_kept s s4).
    { destruct S4 as [_ [_ [_ [E4 E5]]]]. destruct S2 as [_ [_ [_ [F4 F5]]]].
      split; [congruence|]. destruct K3 as [[_ [_ [_ [G4 _]]]]|[G _]]; [left|right]; congruence. }
    destruct (bw <? 0).
    { inversion H; subst. split; auto. eapply tg_post_same; eauto. }
    destruct (tg_flush O q s4) as [s5 o5] eqn:FL.
    inversion H; subst; clear H.
    assert (P4 : tg_pre (snd (tg_scan seen o3)) s4)
      by (eapply tg_pre_same; [exact S4 | apply Q3]).
    destruct (IH _ _ _ _ P4 FL) as [Q5 K5].
    split; [eapply tg_post_app; eauto; eapply tg_post_same; eauto|].
    destruct K4 as [A1 A2]. destruct K5 as [B1 B2]. split; [congruence|].
    destruct B2 as [B2|B2]; [|right; auto]. rewrite B2. exact A2.
Qed.

Lemma tg_state_eqb_eq : forall a b, tg_state_eqb a b = true <-> a = b.
Proof. destruct a, b; simpl; split; intros; try discriminate; auto. Qed.
Lemma tg_type_eqb_eq : forall a b, tg_type_eqb a b = true <-> a = b.
Proof. destruct a, b; simpl; split; intros; try discriminate; auto. Qed.

Lemma tg_connected_post : forall seen s s' o,
  tg_pre seen s -> ts_tls_est s = true -> ts_type s <> TgHello ->
  tg_connected O s = (s', o) -> tg_post seen o s' /\ ts_type s' = ts_type s.
Proof.
  intros seen s s' o [Hp [[I0 [I1 I2]] G]] E NH H. unfold tg_connected in H.
  destruct (tg_flush O (ts_delayq (tg_set_state s TgEstablished)) (tg_set_state s TgEstablished))
    as [s2 o2] eqn:FL.
  inversion H; subst; clear H.
  assert (P1 : tg_pre seen (tg_set_state s TgEstablished)).
  { unfold tg_pre, tg_I; simpl. repeat split; auto. }
  destruct (tg_flush_post _ _ _ _ _ P1 FL) as [Q [K1 K2]].
  split; [|exact K1].
  eapply tg_post_app with (s1 := tg_set_state s TgEstablished).
  - apply tg_post_neutral; auto. destruct (tg_state_eqb (ts_state s) TgCsm); reflexivity.
  - rewrite tg_scan_neutral by (destruct (tg_state_eqb (ts_state s) TgCsm); reflexivity).
    exact Q.
Qed.

Lemma tg_delay_new_post : forall seen s m s' o r,
  tg_pre seen s -> tg_delay_new s m = (s', o, r) -> tg_post seen o s' /\ tg_same s s'.
Proof.
  intros seen s m s' o r P H. unfold tg_delay_new in H.
  destruct (tg_in (tm_id m) (tg_ids (ts_delayq s))); inversion H; subst.
  - split; [apply tg_post_nil; auto | same].
  - split; [|same]. apply tg_post_neutral; auto.
Qed.

Lemma tg_send0_post : forall seen s m s' o,
  tg_pre seen s -> tg_send0 O s m = (s', o) -> tg_post seen o s' /\ tg_kept s s'.
Proof.
  intros seen s m s' o P H. unfold tg_send0 in H.
  destruct (tg_state_eqb (ts_state s) TgNone && negb (tg_type_eqb (ts_type s) TgClient)).
  { inversion H; subst. split; [apply tg_post_neutral; auto | split; auto]. }
  destruct (negb (tg_state_eqb (ts_state s) TgEstablished)
            || tm_con m && (ts_nstart s <=? ts_con_active s)).
  { destruct (tg_delay_new s m) as [[s1 o1] r] eqn:D.
    destruct (tg_delay_new_post _ _ _ _ _ _ P D) as [Q S].
    assert (K : tg_kept s s1) by (destruct S as [_ [_ [_ [E4 E5]]]]; split; auto).
    destruct (r =? -1); inversion H; subst; split; auto.
    eapply tg_post_app; eauto. apply tg_post_neutral; auto. apply Q. }
  rewrite tg_session_send_dtls in H by apply P.
  destruct (tg_dtls_send O s m) as [[s1 o1] bw] eqn:DS.
  destruct (tg_dtls_send_post _ _ _ _ _ _ P DS) as [Q [T K]].
  assert (K1 : tg_kept s s1).
  { split; auto. destruct K as [[_ [_ [_ [E4 _]]]]|[E _]]; auto. }
  destruct (bw <? 0).
  { inversion H; subst. split; auto. eapply tg_post_app; eauto.
    apply tg_post_neutral; auto. apply Q. }
  destruct (tm_con m); inversion H; subst; split; auto.
Qed.

Lemma tg_filter_not_drop_post : forall seen o s',
  tg_post seen o s' -> tg_post seen (filter tg_not_drop o) s'.
Proof.
  intros seen o. revert seen. induction o as [|x o IH]; intros seen s' H; simpl; auto.
  destruct H as [P [F Hh]]. simpl in P, F.
  destruct (tg_scan (seen || tg_is_ok x) o) as [ok sn] eqn:E. simpl in P, F.
  apply andb_true_iff in F. destruct F as [F1 F2].
  assert (Q : tg_post (seen || tg_is_ok x) o s').
  { unfold tg_post. rewrite E. simpl. repeat split; try apply P; auto.
    intros c HI. apply Hh. right. exact HI. }
  destruct (tg_not_drop x) eqn:ND.
  - apply tg_post_cons; auto. intros c ->. apply Hh. left. reflexivity.
  - destruct x; simpl in ND; try discriminate. simpl in Q. rewrite orb_false_r in Q.
    apply IH. exact Q.
Qed.

Lemma tg_send_post : forall seen s m app s' o,
  tg_pre seen s -> tg_send O s m app = (s', o) -> tg_post seen o s' /\ tg_kept s s'.
Proof.
  intros seen s m app s' o P H. unfold tg_send in H. destruct app.
  - destruct (tg_type_eqb (ts_type s) TgClient && negb (ts_sock s)).
    + inversion H; subst. split; [apply tg_post_neutral; auto | split; auto].
    + eapply tg_send0_post; eauto.
  - destruct (tg_send0 O s m) as [s1 o1] eqn:S0. inversion H; subst.
    destruct (tg_send0_post _ _ _ _ _ P S0) as [Q K]. split; auto.
    apply tg_filter_not_drop_post. exact Q.
Qed.

Lemma tg_pre_est_facts : forall seen s,
  tg_pre seen s -> ts_state s = TgEstablished -> ts_tls_est s = true /\ ts_type s <> TgHello.
Proof.
  intros seen s [Hp [[I0 [I1 I2]] G]] E. split; auto. intros T. apply (I2 T). exact E.
Qed.

Lemma tg_dispatch_post : forall seen s pty pmid s' o,
  tg_pre seen s -> tg_dispatch O s pty pmid = (s', o) ->
  tg_post seen o s' /\ ts_type s' = ts_type s.
Proof.
  intros seen s pty pmid s' o P H. unfold tg_dispatch in H.
  destruct ((pty =? 2) && tg_in pmid (tg_ids (ts_sendq s))).
  2:{ inversion H; subst. split; auto. apply tg_post_nil; auto. }
  simpl in H. destruct (0 <? ts_con_active s).
  2:{ inversion H; subst. split; auto. apply tg_post_nil; auto. }
  destruct (tg_state_eqb (ts_state s) TgEstablished) eqn:E.
  2:{ inversion H; subst. split; auto. apply tg_post_nil; auto. }
  apply tg_state_eqb_eq in E.
  destruct (tg_pre_est_facts _ _ P E) as [F1 F2].
  eapply tg_connected_post in H; eauto.
Qed.

Lemma tg_after_event_post : forall seen s ev s' o,
  tg_pre seen s -> tg_after_event s ev = (s', o) ->
  tg_post seen o s' /\ tg_kept s s'.
Proof.
  intros seen s ev s' o P H. unfold tg_after_event in H. destruct ev as [e|].
  2:{ inversion H; subst. split; [apply tg_post_nil; auto | split; auto]. }
  set (o1 := if e =? tg_EV_DTLS_CLOSED then [] else [OEvent e]) in H.
  assert (N1 : forallb tg_neutral o1 = true) by (unfold o1; destruct (e =? tg_EV_DTLS_CLOSED); reflexivity).
  destruct ((e =? tg_EV_DTLS_ERROR) || (e =? tg_EV_DTLS_CLOSED)).
  - destruct (tg_disconnected s tg_NACK_TLS_FAILED) as [s1 o2] eqn:D. inversion H; subst.
    destruct (tg_disconnected_post _ _ _ _ _ P D) as [Q [Q1 [Q2 [Q3 Q4]]]].
    split; [|split; auto].
    eapply tg_post_app with (s1 := s); [apply tg_post_neutral; auto|].
    rewrite tg_scan_neutral by auto. exact Q.
  - inversion H; subst. split; [apply tg_post_neutral; auto | split; auto].
Qed.

Lemma tg_kept_trans : forall a b c, tg_kept a b -> tg_kept b c -> tg_kept a c.
Proof.
  intros a b c [A1 A2] [B1 B2]. split; [congruence|].
  destruct B2 as [B2|B2]; [rewrite B2; exact A2 | right; exact B2].
Qed.
Lemma tg_kept_refl : forall a, tg_kept a a.
Proof. intros a. split; auto. Qed.
Lemma tg_same_kept : forall a b, tg_same a b -> tg_kept a b.
Proof. intros a b [_ [_ [_ [E4 E5]]]]. split; auto. Qed.

Ltac assoc1 :=
  match goal with
  | |- context [?a ++ ?x :: ?r] =>
      replace (a ++ x :: r) with ((a ++ [x]) ++ r) by (rewrite <- app_assoc; reflexivity)
  end.

Lemma tg_post_true_app : forall o1 s1 o2 s2,
  tg_post true o1 s1 -> tg_post true o2 s2 -> tg_post true (o1 ++ o2) s2.
Proof.
  intros. eapply tg_post_app; eauto. rewrite tg_scan_seen_mono; auto.
Qed.

Lemma tg_dtls_receive_post : forall seen s0 pty pmid s' o,
  tg_pre seen s0 -> ts_tls s0 = true -> ts_type s0 <> TgHello ->
  tg_dtls_receive O s0 pty pmid = (s', o) -> tg_post seen o s' /\ ts_type s' = ts_type s0.
Proof.
  intros seen s0 pty pmid s' o P0 T0 NH H. unfold tg_dtls_receive in H.
  set (s := tg_set_dtls_event s0 None) in H.
  assert (P : tg_pre seen s) by exact P0.
  assert (T : ts_tls s = true) by exact T0.
  assert (NHs : ts_type s <> TgHello) by exact NH.
  change (ts_type s0) with (ts_type s). clearbody s. clear P0 T0 NH s0.
  destruct (ts_tls_est s) eqn:E.
  - (* established g_env *)
    assert (S : seen = true) by (apply P; auto). subst seen.
    destruct (if tg_state_eqb (ts_state s) TgHandshake
              then let '(sx, ox) := tg_connected O s in (sx, OEvent tg_EV_DTLS_CONNECTED :: ox)
              else (s, [])) as [s1 o1] eqn:C1.
    assert (Q1 : tg_post true o1 s1 /\ ts_type s1 = ts_type s).
    { destruct (tg_state_eqb (ts_state s) TgHandshake).
      - destruct (tg_connected O s) as [sx ox] eqn:CC. inversion C1; subst.
        destruct (tg_connected_post _ _ _ _ P E NHs CC) as [Q K]. split; auto.
        apply tg_post_cons; [reflexivity | discriminate | exact Q].
      - inversion C1; subst. split; auto. apply tg_post_nil; auto. }
    destruct Q1 as [Q1 K1].
    destruct (negb (ts_tls s1)).
    { inversion H; subst. split; auto. }
    set (s2 := tg_set_k s1 (ts_khs s1) (ts_ktx s1) (ts_krx s1 + 1) (ts_kck s1)) in H.
    assert (Q2 : forall c, tg_post true (o1 ++ [OTlsRx c]) s2).
    { intros c. eapply tg_post_true_app; eauto. apply tg_post_neutral; auto.
      destruct Q1 as [Q1 _]. rewrite tg_scan_seen_mono in Q1 by auto. exact Q1. }
    destruct (0 <? or_rx O (ts_krx s1)).
    + destruct (tg_dispatch O s2 pty pmid) as [s3 o3] eqn:D. inversion H; subst.
      assert (P2 : tg_pre true s2).
      { destruct (Q2 0) as [Q _]. rewrite tg_scan_seen_mono in Q by auto. exact Q. }
      destruct (tg_dispatch_post _ _ _ _ _ _ P2 D) as [Q3 K3].
      split; [|simpl in K3; congruence].
      assoc1. eapply tg_post_true_app; [apply Q2|].
      apply tg_post_cons; [reflexivity | discriminate | exact Q3].
    + match type of H with context [tg_after_event ?a ?b] =>
        destruct (tg_after_event a b) as [s3 o3] eqn:AE end.
      inversion H; subst.
      assert (P2' : forall x, tg_same s2 x -> tg_pre true x).
      { intros x Sx. eapply tg_pre_same; eauto.
        destruct (Q2 0) as [Q _]. rewrite tg_scan_seen_mono in Q by auto. exact Q. }
      eapply tg_after_event_post in AE.
      2:{ apply P2'.
          destruct (or_rx O (ts_krx s1) =? 0); [same|].
          destruct (or_rx O (ts_krx s1) =? tg_E_FATAL_ALERT_RECEIVED); [same|].
          destruct (or_rx O (ts_krx s1) =? tg_E_WARNING_ALERT_RECEIVED); same. }
      destruct AE as [Q3 [K3 _]].
      split.
      * assoc1. eapply tg_post_true_app; [apply Q2 | exact Q3].
      * rewrite K3.
        destruct (or_rx O (ts_krx s1) =? 0); [exact K1|].
        destruct (or_rx O (ts_krx s1) =? tg_E_FATAL_ALERT_RECEIVED); [exact K1|].
        destruct (or_rx O (ts_krx s1) =? tg_E_WARNING_ALERT_RECEIVED); exact K1.
  - (* handshake in progress *)
    destruct (tg_hs_call O s) as [[s1 o1] ret1] eqn:H1.
    destruct (tg_hs_call_post _ _ _ _ _ P T H1) as [Q1 [St1 [Ty1 [T1 R1]]]].
    destruct (ret1 =? 1) eqn:RE.
    + apply Z.eqb_eq in RE. specialize (R1 RE).
      destruct (tg_connected O s1) as [s2 o2] eqn:C.
      destruct (tg_after_event s2 (ts_dtls_event s2)) as [s3 o3] eqn:AE.
      inversion H; subst.
      assert (NH1 : ts_type s1 <> TgHello) by congruence.
      destruct Q1 as [P1 [F1 Hh1]].
      destruct (tg_connected_post _ _ _ _ P1 R1 NH1 C) as [Q2 K2].
      destruct (tg_after_event_post _ _ _ _ _ (proj1 Q2) AE) as [Q3 [K3 _]].
      split; [|congruence].
      eapply tg_post_app; [split; [exact P1 | split; [exact F1 | exact Hh1]]|].
      eapply tg_post_app; eauto.
    + destruct (or_more O (ts_khs s) && negb (ts_sent_alert s1)).
      * destruct (tg_hs_call O s1) as [[s2 o2] ret2] eqn:H2.
        destruct Q1 as [P1 [F1 Hh1]].
        destruct (tg_hs_call_post _ _ _ _ _ P1 T1 H2) as [Q2 [St2 [Ty2 [T2 R2]]]].
        destruct (if ret2 =? 1 then tg_connected O s2 else (s2, [])) as [s3 o3] eqn:C.
        destruct (tg_after_event s3 (ts_dtls_event s3)) as [s4 o4] eqn:AE.
        inversion H; subst.
        assert (Q3 : tg_post (snd (tg_scan (snd (tg_scan seen o1)) o2)) o3 s3 /\ ts_type s3 = ts_type s2).
        { destruct (ret2 =? 1) eqn:RE2.
          - apply Z.eqb_eq in RE2. eapply tg_connected_post; eauto; [apply Q2 | congruence].
          - inversion C; subst. split; auto. apply tg_post_nil. apply Q2. }
        destruct Q3 as [Q3 K3].
        destruct (tg_after_event_post _ _ _ _ _ (proj1 Q3) AE) as [Q4 [K4 _]].
        split; [|congruence].
        eapply tg_post_app; [split; [exact P1 | split; [exact F1 | exact Hh1]]|].
        eapply tg_post_app; eauto. eapply tg_post_app; eauto.
      * destruct (tg_after_event s1 (ts_dtls_event s1)) as [s2 o2] eqn:AE.
        inversion H; subst.
        destruct (tg_after_event_post _ _ _ _ _ (proj1 Q1) AE) as [Q2 [K2 _]].
        split; [|congruence]. eapply tg_post_app; eauto.
Qed.

Lemma tg_pre_intro : forall seen s,
  ts_proto s = TgDtls -> (ts_tls_est s = true -> ts_tls s = true) ->
  (ts_state s = TgEstablished -> ts_tls_est s = true) ->
  (ts_type s = TgHello -> ts_state s <> TgEstablished) ->
  (ts_tls_est s = true -> seen = true) -> tg_pre seen s.
Proof. intros. unfold tg_pre, tg_I. auto. Qed.

Lemma tg_dtls_hello_post : forall seen s s' o,
  tg_pre seen s -> ts_type s = TgHello -> tg_dtls_hello O s = (s', o) -> tg_post seen o s'.
Proof.
  intros seen s s' o P TH H. unfold tg_dtls_hello in H.
  set (s0 := if ts_tls s then s else tg_set_tls s true false false) in H.
  assert (NE : ts_state s <> TgEstablished) by (apply P; auto).
  assert (P0 : tg_pre seen s0 /\ ts_tls s0 = true /\ ts_type s0 = TgHello /\ ts_state s0 = ts_state s).
  { unfold s0. destruct (ts_tls s) eqn:T; [auto|]. split; [|simpl; auto].
    apply tg_pre_intro; simpl; auto; try discriminate; try apply P. }
  destruct P0 as [P0 [T0 [TY0 ST0]]]. clearbody s0.
  set (s1 := tg_set_k s0 (ts_khs s0) (ts_ktx s0) (ts_krx s0) (ts_kck s0 + 1)) in H.
  assert (P1 : tg_pre seen s1) by exact P0.
  destruct (or_ck O (ts_kck s0) <? 0).
  { inversion H; subst. apply tg_post_neutral; auto. }
  destruct (tg_hs_call O s1) as [[s2 o2] ret] eqn:HC.
  destruct (tg_hs_call_post _ _ _ _ _ P1 T0 HC) as [Q2 [St2 [Ty2 [T2 R2]]]].
  assert (NE2 : ts_state s2 <> TgEstablished) by (rewrite St2; simpl; congruence).
  destruct Q2 as [P2 [F2 H2]].
  destruct (ret <? 0); inversion H; subst;
    (apply tg_post_cons; [reflexivity | discriminate |]); simpl; rewrite orb_false_r;
    (split; [|split; auto]);
    apply tg_pre_intro; simpl; auto; try discriminate; try apply P2;
    try (intros; contradiction).
Qed.

Lemma tg_recv_post : forall seen s pty pmid s' o,
  tg_pre seen s -> tg_recv O s pty pmid = (s', o) -> tg_post seen o s'.
Proof.
  intros seen s pty pmid s' o P H. unfold tg_recv in H.
  assert (Hp : ts_proto s = TgDtls) by apply P. rewrite Hp in H.
  destruct (tg_type_eqb (ts_type s) TgHello) eqn:TH.
  - apply tg_type_eqb_eq in TH. eapply tg_dtls_hello_post; eauto.
  - destruct (ts_tls s) eqn:T.
    + eapply tg_dtls_receive_post in H; eauto; [apply H|].
      intros E. rewrite E in TH. discriminate.
    + inversion H; subst. apply tg_post_nil; auto.
Qed.

Lemma tg_connect_post : forall seen s s' o,
  tg_pre seen s -> tg_connect O s = (s', o) -> tg_post seen o s'.
Proof.
  intros seen s s' o P H. unfold tg_connect in H.
  destruct (tg_type_eqb (ts_type s) TgClient) eqn:TC.
  2:{ inversion H; subst. apply tg_post_nil; auto. }
  apply tg_type_eqb_eq in TC. simpl in H.
  assert (Hp : ts_proto s = TgDtls) by apply P. rewrite Hp in H.
  set (s1 := tg_set_tls (tg_set_state s TgHandshake) true false false) in H.
  assert (P1 : tg_pre seen s1).
  { apply tg_pre_intro; simpl; auto; try discriminate. }
  destruct (tg_hs_call O s1) as [[s2 o2] ret] eqn:HC.
  destruct (tg_hs_call_post _ _ _ _ _ P1 eq_refl HC) as [Q2 [St2 [Ty2 [T2 R2]]]].
  destruct (ret =? -1).
  - destruct (tg_disconnected (tg_set_tls s2 false false false) tg_NACK_TLS_LAYER_FAILED)
      as [s4 o4] eqn:D.
    inversion H; subst.
    assert (P3 : tg_pre (snd (tg_scan seen o2)) (tg_set_tls s2 false false false)).
    { destruct Q2 as [P2 _]. apply tg_pre_intro; simpl; auto; try discriminate; try apply P2.
      rewrite St2. simpl. discriminate. }
    destruct (tg_disconnected_post _ _ _ _ _ P3 D) as [Q4 _].
    eapply tg_post_app; [|exact Q4]. destruct Q2 as [_ [F2 H2]]. split; [exact P3 | split; assumption].
  - inversion H; subst. exact Q2.
Qed.

Lemma tg_timeout_post : forall seen s s' o,
  tg_pre seen s -> tg_timeout O s = (s', o) -> tg_post seen o s'.
Proof.
  intros seen s s' o P H. unfold tg_timeout in H.
  destruct (tg_state_eqb (ts_state s) TgHandshake && tg_proto_eqb (ts_proto s) TgDtls && ts_tls s) eqn:G.
  2:{ inversion H; subst. apply tg_post_nil; auto. }
  apply andb_true_iff in G. destruct G as [_ T]. simpl in H.
  set (s1 := tg_set_to_count s (ts_to_count s + 1)) in H.
  assert (P1 : tg_pre seen s1) by exact P.
  destruct (ts_max_retransmit s <? ts_to_count s + 1).
  { eapply tg_disconnected_post in H; eauto. apply H. }
  destruct (tg_hs_call O s1) as [[s2 o2] ret] eqn:HC.
  destruct (tg_hs_call_post _ _ _ _ _ P1 T HC) as [Q2 _].
  destruct (ret <? 0).
  - destruct (tg_disconnected s2 tg_NACK_TLS_FAILED) as [s3 o3] eqn:D. inversion H; subst.
    destruct (tg_disconnected_post _ _ _ _ _ (proj1 Q2) D) as [Q3 _].
    eapply tg_post_app; eauto.
  - inversion H; subst. exact Q2.
Qed.

Lemma tg_retransmit_post : forall seen s id g s' o,
  tg_pre seen s -> tg_retransmit O s id g = (s', o) -> tg_post seen o s'.
Proof.
  intros seen s id g s' o P H. unfold tg_retransmit in H.
  destruct (tg_find_id id (ts_sendq s)) as [m|].
  2:{ inversion H; subst. apply tg_post_nil; auto. }
  set (s1 := if 0 <? ts_con_active s then tg_set_con_active s (ts_con_active s - 1) else s) in H.
  assert (S1 : tg_same s s1) by (unfold s1; destruct (0 <? ts_con_active s); same).
  assert (P1 : tg_pre seen s1) by (eapply tg_pre_same; eauto).
  destruct S1 as [_ [_ [_ [ST1 TY1]]]].
  destruct g.
  - destruct (if (0 <? ts_con_active s) && tg_state_eqb (ts_state s1) TgEstablished
              then tg_connected O s1 else (s1, [])) as [s2 o2] eqn:C.
    inversion H; subst.
    assert (Q2 : tg_post seen o2 s2).
    { destruct ((0 <? ts_con_active s) && tg_state_eqb (ts_state s1) TgEstablished) eqn:G.
      - apply andb_true_iff in G. destruct G as [_ G]. apply tg_state_eqb_eq in G.
        destruct (tg_pre_est_facts _ _ P1 G) as [F1 F2].
        eapply tg_connected_post in C; eauto. apply C.
      - inversion C; subst. apply tg_post_nil; auto. }
    eapply tg_post_app with (s1 := s2); eauto. apply tg_post_neutral; auto. apply Q2.
  - destruct (negb (tg_state_eqb (ts_state s1) TgEstablished)
              || tm_con m && (ts_nstart s1 <=? ts_con_active s1)).
    { inversion H; subst. apply tg_post_neutral; auto. }
    rewrite tg_session_send_dtls in H by apply P1.
    destruct (tg_dtls_send O s1 m) as [[s2 o2] bw] eqn:DS.
    destruct (tg_dtls_send_post _ _ _ _ _ _ P1 DS) as [Q2 _].
    destruct ((0 <=? bw) && tm_con m); [inversion H; subst; exact Q2|].
    destruct ((bw <? 0) && (0 <? ts_con_active s) && tg_in id (tg_ids (ts_sendq s2)));
      inversion H; subst; exact Q2.
Qed.

(* a session that has been freed takes no further steps; before that the invariant holds *)
Definition tg_W (seen : bool) (s : tg_sess) : Prop := ts_state s = TgEstablished -> seen = true.
Definition tg_rinv (seen : bool) (s : tg_sess) : Prop :=
  (ts_freed s = true \/ tg_pre seen s) /\ tg_W seen s.

Definition tg_post' (seen : bool) (o : list tg_out) (s' : tg_sess) : Prop :=
  tg_rinv (snd (tg_scan seen o)) s' /\ fst (tg_scan seen o) = true /\ tg_hs_from o.

Lemma tg_pre_W : forall seen s, tg_pre seen s -> tg_W seen s.
Proof. intros seen s [Hp [[I0 [I1 I2]] G]] E. auto. Qed.

Lemma tg_post_weaken : forall seen o s', tg_post seen o s' -> tg_post' seen o s'.
Proof. intros seen o s' [P Q]. split; auto. split; auto. apply tg_pre_W; auto. Qed.

Lemma tg_mfree_post : forall (seen : bool) s s' o,
  ts_proto s = TgDtls -> tg_mfree s = (s', o) ->
  forallb tg_neutral o = true /\ ts_freed s' = true /\ ts_state s' = ts_state s.
Proof.
  intros seen s s' o Hp H. unfold tg_mfree, tg_tls_close in H. rewrite Hp in H.
  destruct (ts_tls s); inversion H; subst; simpl; split; auto;
    try rewrite tg_neutral_map_nack; reflexivity.
Qed.

Lemma tg_post'_app : forall seen o1 s1 o2 s2,
  tg_post seen o1 s1 -> tg_post' (snd (tg_scan seen o1)) o2 s2 -> tg_post' seen (o1 ++ o2) s2.
Proof.
  intros seen o1 s1 o2 s2 [P1 [F1 H1]] [P2 [F2 H2]].
  unfold tg_post'. rewrite tg_scan_app. simpl. rewrite F1, F2.
  split; [exact P2|]. split; [reflexivity|]. apply tg_hs_from_app; auto.
Qed.

Lemma tg_maybe_free_post : forall seen s s' o,
  tg_pre seen s -> tg_maybe_free s = (s', o) -> tg_post' seen o s'.
Proof.
  intros seen s s' o P H. unfold tg_maybe_free in H.
  destruct (negb (ts_app_ref s) && tg_type_eqb (ts_type s) TgClient
            && match ts_sendq s with [] => true | _ => false end && negb (ts_freed s)).
  - destruct (tg_mfree_post seen _ _ _ (proj1 P) H) as [N [F St]].
    unfold tg_post', tg_rinv. rewrite tg_scan_neutral by auto. simpl.
    split; [split; auto|split; auto].
    + unfold tg_W. rewrite St. apply tg_pre_W; auto.
    + apply tg_hs_from_neutral; auto.
  - inversion H; subst. apply tg_post_weaken. apply tg_post_nil; auto.
Qed.

Lemma tg_step_post : forall seen s e s' o,
  tg_pre seen s -> tg_step O s e = (s', o) -> tg_post' seen o s'.
Proof.
  intros seen s e s' o P H. unfold tg_step in H.
  destruct (ts_freed s).
  { inversion H; subst. apply tg_post_weaken. apply tg_post_nil; auto. }
  destruct (tg_step0 O s e) as [s1 o1] eqn:S0.
  destruct e; simpl in S0.
  - (* EConnect *)
    pose proof (tg_connect_post _ _ _ _ P S0) as Q1.
    destruct (tg_maybe_free s1) as [s2 o2] eqn:MF. inversion H; subst.
    eapply tg_post'_app; eauto. eapply tg_maybe_free_post; eauto. apply Q1.
  - destruct (tg_send_post _ _ _ _ _ _ P S0) as [Q1 _].
    destruct (tg_maybe_free s1) as [s2 o2] eqn:MF. inversion H; subst.
    eapply tg_post'_app; eauto. eapply tg_maybe_free_post; eauto. apply Q1.
  - pose proof (tg_recv_post _ _ _ _ _ _ P S0) as Q1.
    destruct (tg_maybe_free s1) as [s2 o2] eqn:MF. inversion H; subst.
    eapply tg_post'_app; eauto. eapply tg_maybe_free_post; eauto. apply Q1.
  - pose proof (tg_timeout_post _ _ _ _ P S0) as Q1.
    destruct (tg_maybe_free s1) as [s2 o2] eqn:MF. inversion H; subst.
    eapply tg_post'_app; eauto. eapply tg_maybe_free_post; eauto. apply Q1.
  - pose proof (tg_retransmit_post _ _ _ _ _ _ P S0) as Q1.
    destruct (tg_maybe_free s1) as [s2 o2] eqn:MF. inversion H; subst.
    eapply tg_post'_app; eauto. eapply tg_maybe_free_post; eauto. apply Q1.
  - inversion S0; subst. simpl in H.
    destruct (tg_maybe_free (tg_set_app_ref s false)) as [s2 o2] eqn:MF. inversion H; subst.
    simpl. eapply tg_maybe_free_post; [|exact MF]. exact P.
  - destruct (tg_mfree_post seen (tg_set_sendq s []) _ _ (proj1 P) S0) as [N [F St]].
    unfold tg_maybe_free in H. rewrite F in H. rewrite andb_false_r in H.
    inversion H; subst. rewrite app_nil_r.
    unfold tg_post', tg_rinv. rewrite tg_scan_neutral by auto. simpl.
    split; [split; auto|split; auto].
    + unfold tg_W. rewrite St. simpl. apply tg_pre_W; auto.
    + apply tg_hs_from_neutral; auto.
Qed.

Lemma tg_step_freed : forall s e, ts_freed s = true -> tg_step O s e = (s, []).
Proof. intros s e F. unfold tg_step. rewrite F. reflexivity. Qed.

Lemma tg_step_rinv : forall seen s e s' o,
  tg_rinv seen s -> tg_step O s e = (s', o) -> tg_post' seen o s'.
Proof.
  intros seen s e s' o [[F|P] W] H.
  - rewrite tg_step_freed in H by auto. inversion H; subst.
    unfold tg_post', tg_rinv. simpl. repeat split; auto. apply tg_hs_from_nil.
  - eapply tg_step_post; eauto.
Qed.

Lemma tg_steps_rinv : forall evs seen s s' tr,
  tg_rinv seen s -> tg_steps O s evs = (s', tr) -> tg_post' seen (tg_outs tr) s'.
Proof.
  induction evs as [|e evs IH]; intros seen s s' tr R H; simpl in H.
  - inversion H; subst. unfold tg_post', tg_outs. simpl. repeat split; try apply R.
    apply tg_hs_from_nil.
  - destruct (tg_step O s e) as [s1 o] eqn:S1.
    destruct (tg_steps O s1 evs) as [s2 tr2] eqn:S2. inversion H; subst.
    destruct (tg_step_rinv _ _ _ _ _ R S1) as [R1 [F1 H1]].
    destruct (IH _ _ _ _ R1 S2) as [R2 [F2 H2]].
    unfold tg_outs. simpl. fold (tg_outs tr2).
    unfold tg_post'. rewrite tg_scan_app. simpl. rewrite F1, F2.
    split; [exact R2|]. split; [reflexivity|]. apply tg_hs_from_app; auto.
Qed.

Lemma tg_new_rinv : forall t n, tg_rinv false (tg_new_session TgDtls t n).
Proof.
  intros t n. split.
  - right. apply tg_pre_intro; simpl; auto; try discriminate; destruct t; discriminate.
  - unfold tg_W; simpl. destruct t; discriminate.
Qed.

(* ------------------------------------------------------------------ theorems, part 1 *)

(* on a DTLS session the session layer never writes cleartext to the socket *)
Theorem tg_no_clear : forall t n evs s' tr b,
  tg_steps O (tg_new_session TgDtls t n) evs = (s', tr) -> ~ In (OWireClear b) (tg_outs tr).
Proof.
  intros t n evs s' tr b H.
  destruct (tg_steps_rinv _ _ _ _ _ (tg_new_rinv t n) H) as [_ [F _]].
  eapply tg_scan_no_clear; eauto.
Qed.

(* application data moves in either direction only after gnutls_handshake returned success *)
Theorem tg_gate : forall t n evs s' tr l1 x l2,
  tg_steps O (tg_new_session TgDtls t n) evs = (s', tr) ->
  tg_outs tr = l1 ++ x :: l2 -> tg_is_app x = true -> In (OHs 0) l1.
Proof.
  intros t n evs s' tr l1 x l2 H E A.
  destruct (tg_steps_rinv _ _ _ _ _ (tg_new_rinv t n) H) as [_ [F _]].
  destruct (tg_scan_gate _ _ _ _ _ F E A) as [D|I]; [discriminate | exact I].
Qed.

(* ESTABLISHED is entered only after such a success *)
Theorem tg_established_after_success : forall t n evs s' tr,
  tg_steps O (tg_new_session TgDtls t n) evs = (s', tr) ->
  ts_state s' = TgEstablished -> In (OHs 0) (tg_outs tr).
Proof.
  intros t n evs s' tr H E.
  destruct (tg_steps_rinv _ _ _ _ _ (tg_new_rinv t n) H) as [[_ W] _].
  specialize (W E). destruct (tg_scan_seen_witness _ _ W) as [D|I]; [discriminate | exact I].
Qed.

(* ... and every reported handshake result is a value the TLS library returned *)
Theorem tg_hs_outputs_from_oracle : forall t n evs s' tr c,
  tg_steps O (tg_new_session TgDtls t n) evs = (s', tr) ->
  In (OHs c) (tg_outs tr) -> exists k, c = or_hs O k.
Proof.
  intros t n evs s' tr c H HI.
  destruct (tg_steps_rinv _ _ _ _ _ (tg_new_rinv t n) H) as [_ [_ Hh]]. apply Hh. exact HI.
Qed.

(* with the contract of the TLS library (success only for matching credentials) *)
Section Contract.
Variable cc : tg_ccfg.
Variable sc : tg_scfg.
Hypothesis hs_sound : forall k, or_hs O k = 0 -> tg_creds_match cc sc = true.

Theorem tg_gate_creds : forall t n evs s' tr x,
  tg_steps O (tg_new_session TgDtls t n) evs = (s', tr) ->
  In x (tg_outs tr) -> tg_is_app x = true -> tg_creds_match cc sc = true.
Proof.
  intros t n evs s' tr x H HI A.
  apply in_split in HI. destruct HI as [l1 [l2 E]].
  pose proof (tg_gate _ _ _ _ _ _ _ _ H E A) as I0.
  assert (I1 : In (OHs 0) (tg_outs tr)) by (rewrite E; apply in_or_app; left; exact I0).
  destruct (tg_hs_outputs_from_oracle _ _ _ _ _ _ H I1) as [k Hk].
  apply (hs_sound k). symmetry. exact Hk.
Qed.

Theorem tg_mismatch_never_established : forall t n evs s' tr,
  tg_creds_match cc sc = false ->
  tg_steps O (tg_new_session TgDtls t n) evs = (s', tr) ->
  ts_state s' <> TgEstablished /\
  (forall x, In x (tg_outs tr) -> tg_is_app x = false).
Proof.
  intros t n evs s' tr M H. split.
  - intros E. pose proof (tg_established_after_success _ _ _ _ _ H E) as I1.
    destruct (tg_hs_outputs_from_oracle _ _ _ _ _ _ H I1) as [k Hk].
    rewrite (hs_sound k) in M; [discriminate | auto].
  - intros x HI. destruct (tg_is_app x) eqn:A; auto.
    rewrite (tg_gate_creds _ _ _ _ _ _ H HI A) in M. discriminate.
Qed.
End Contract.

End Proofs.

(* C19 - proofs about the gate model, part 3: the delay queue is a FIFO.  As long as the session
   is not disconnected (no NACK is reported), what was held in the delay queue is handed to the
   TLS record layer in submission order, each message once. *)
From LibcoapV Require Import Base.Tactics Base.Bytes Tls.Gate Tls.GateProofs.
Local Open Scope Z_scope.

Fixpoint tg_tx_ids (o : list tg_out) : list Z :=
  match o with
  | [] => []
  | OTlsTx i _ :: r => i :: tg_tx_ids r
  | _ :: r => tg_tx_ids r
  end.
Fixpoint tg_dl_ids (o : list tg_out) : list Z :=
  match o with
  | [] => []
  | ODelayed i _ :: r => i :: tg_dl_ids r
  | _ :: r => tg_dl_ids r
  end.
Definition tg_is_nack (x : tg_out) : bool :=
  match x with ONack _ _ | ONackAnon _ => true | _ => false end.
Definition tg_nonack (o : list tg_out) : bool := forallb (fun x => negb (tg_is_nack x)) o.

Lemma tg_tx_ids_app : forall a b, tg_tx_ids (a ++ b) = tg_tx_ids a ++ tg_tx_ids b.
Proof. induction a as [|x a IH]; intros b; simpl; auto. destruct x; simpl; rewrite ?IH; auto. Qed.
Lemma tg_dl_ids_app : forall a b, tg_dl_ids (a ++ b) = tg_dl_ids a ++ tg_dl_ids b.
Proof. induction a as [|x a IH]; intros b; simpl; auto. destruct x; simpl; rewrite ?IH; auto. Qed.
Lemma tg_nonack_app : forall a b, tg_nonack (a ++ b) = tg_nonack a && tg_nonack b.
Proof. intros. unfold tg_nonack. apply forallb_app. Qed.

(* outputs that neither hand a message to the record layer nor queue one *)
Definition tg_still (x : tg_out) : bool :=
  match x with OTlsTx _ _ | ODelayed _ _ => false | _ => true end.
Lemma tg_still_ids : forall o, forallb tg_still o = true -> tg_tx_ids o = [] /\ tg_dl_ids o = [].
Proof.
  induction o as [|x o IH]; intros H; simpl in *; auto.
  apply andb_true_iff in H. destruct H as [Hx Ho]. destruct (IH Ho).
  destruct x; simpl in Hx; try discriminate; auto.
Qed.

Section Fifo.
Variable O : tg_oracle.

(* a step that only takes from the head of the queue *)
Definition tg_fifoB (s : tg_sess) (o : list tg_out) (s' : tg_sess) : Prop :=
  tg_ids (ts_delayq s) = tg_tx_ids o ++ tg_ids (ts_delayq s') /\ tg_dl_ids o = [].

Lemma tg_fifoB_still : forall s o s',
  ts_delayq s' = ts_delayq s -> forallb tg_still o = true -> tg_fifoB s o s'.
Proof. intros s o s' D H. destruct (tg_still_ids _ H) as [A B]. split; auto. rewrite A, D. auto. Qed.

Lemma tg_fifoB_app : forall s o1 s1 o2 s2,
  tg_fifoB s o1 s1 -> tg_fifoB s1 o2 s2 -> tg_fifoB s (o1 ++ o2) s2.
Proof.
  intros s o1 s1 o2 s2 [A1 B1] [A2 B2]. split.
  - rewrite tg_tx_ids_app, A1, A2, app_assoc. reflexivity.
  - rewrite tg_dl_ids_app, B1, B2. reflexivity.
Qed.

(* a disconnect never goes unreported *)
Lemma tg_disconnected_nacks : forall s r s' o,
  tg_disconnected s r = (s', o) -> tg_nonack o = false.
Proof.
  intros s r s' o H. unfold tg_disconnected in H.
  destruct (tg_tls_close _) as [s3 o3]. inversion H; subst; clear H.
  destruct (ts_sendq s) as [|m q] eqn:SQ.
  - simpl. destruct (tg_cons (ts_delayq s)) as [|x l]; reflexivity.
  - destruct (tm_con m) eqn:C.
    + unfold tg_cons at 2. simpl. rewrite C. simpl.
      rewrite tg_nonack_app. unfold tg_nonack at 2. simpl. apply andb_false_r.
    + reflexivity.
Qed.

Lemma tg_dtls_send_fifo : forall seen s m s' o bw,
  tg_pre seen s -> tg_dtls_send O s m = (s', o, bw) -> tg_nonack o = true ->
  ts_delayq s' = ts_delayq s /\ tg_dl_ids o = [] /\
  tg_tx_ids o = (if ts_tls s && ts_tls_est s then [tm_id m] else []).
Proof.
  intros seen s m s' o bw P H N. unfold tg_dtls_send in H.
  destruct (ts_tls s && ts_tls_est s); simpl in H.
  2:{ inversion H; subst. auto. }
  destruct (0 <? or_tx O (ts_ktx s)). { inversion H; subst. auto. }
  destruct (or_tx O (ts_ktx s) =? tg_E_AGAIN). { inversion H; subst. auto. }
  destruct (or_tx O (ts_ktx s) =? tg_E_FATAL_ALERT_RECEIVED). 2:{ inversion H; subst. auto. }
  destruct (tg_disconnected _ tg_NACK_TLS_FAILED) as [s3 o3] eqn:D.
  inversion H; subst. apply tg_disconnected_nacks in D.
  change (tg_nonack ([OTlsTx (tm_id m) (or_tx O (ts_ktx s)); OEvent tg_EV_DTLS_CLOSED] ++ o3) = true) in N.
  rewrite tg_nonack_app, D, andb_false_r in N. discriminate.
Qed.

Lemma tg_flush_fifo : forall q seen s s' o,
  tg_pre seen s -> ts_delayq s = q -> tg_flush O q s = (s', o) -> tg_nonack o = true ->
  tg_fifoB s o s'.
Proof.
  induction q as [|m q IH]; intros seen s s' o P Q H N; simpl in H.
  - inversion H; subst. apply tg_fifoB_still; auto.
  - destruct (negb (tg_state_eqb (ts_state s) TgEstablished)) eqn:E.
    { inversion H; subst. apply tg_fifoB_still; auto. }
    destruct (tm_con m && (ts_nstart s <=? ts_con_active s)).
    { inversion H; subst. apply tg_fifoB_still; auto. }
    apply negb_false_iff in E. apply tg_state_eqb_eq in E.
    set (s2 := tg_set_delayq (if tm_con m then tg_set_con_active s (ts_con_active s + 1) else s) q) in H.
    assert (S2 : tg_same s s2) by (unfold s2; destruct (tm_con m); unfold tg_same; simpl; auto).
    assert (P2 : tg_pre seen s2) by (eapply tg_pre_same; eauto).
    assert (TE : ts_tls s2 && ts_tls_est s2 = true).
    { destruct P2 as [_ [[I0 [I1 _]] _]]. destruct S2 as [_ [_ [_ [E4 _]]]].
      rewrite E4 in I1. specialize (I1 E). rewrite I1, (I0 I1). reflexivity. }
    rewrite tg_session_send_dtls in H by apply P2.
    destruct (tg_dtls_send O s2 m) as [[s3 o3] bw] eqn:DS.
    destruct (tg_dtls_send_post O _ _ _ _ _ _ P2 DS) as [Q3 _].
    set (s4 := if tm_con m then tg_set_sendq s3 (ts_sendq s3 ++ [m]) else s3) in H.
    assert (D4 : ts_delayq s4 = ts_delayq s3) by (unfold s4; destruct (tm_con m); reflexivity).
    assert (S4 : tg_same s3 s4) by (unfold s4; destruct (tm_con m); unfold tg_same; simpl; auto).
    destruct (bw <? 0).
    + inversion H; subst.
      destruct (tg_dtls_send_fifo _ _ _ _ _ _ P2 DS N) as [D3 [L3 T3]].
      rewrite TE in T3. split; auto. rewrite T3, D4, D3. unfold s2. simpl. rewrite Q. reflexivity.
    + destruct (tg_flush O q s4) as [s5 o5] eqn:FL. inversion H; subst.
      rewrite tg_nonack_app in N. apply andb_true_iff in N. destruct N as [N3 N5].
      destruct (tg_dtls_send_fifo _ _ _ _ _ _ P2 DS N3) as [D3 [L3 T3]].
      rewrite TE in T3.
      assert (P4 : tg_pre (snd (tg_scan seen o3)) s4) by (eapply tg_pre_same; [exact S4 | apply Q3]).
      assert (Q4 : ts_delayq s4 = q) by (rewrite D4, D3; reflexivity).
      pose proof (IH _ _ _ _ P4 Q4 FL N5) as [A5 B5].
      split.
      * rewrite tg_tx_ids_app, T3, Q. simpl. rewrite <- A5, Q4. reflexivity.
      * rewrite tg_dl_ids_app, L3, B5. reflexivity.
Qed.

Lemma tg_connected_fifo : forall seen s s' o,
  tg_pre seen s -> ts_tls_est s = true -> ts_type s <> TgHello ->
  tg_connected O s = (s', o) -> tg_nonack o = true -> tg_fifoB s o s'.
Proof.
  intros seen s s' o P E NH H N. pose proof P as [Hp [[I0 [I1 I2]] G]].
  unfold tg_connected in H.
  destruct (tg_flush O (ts_delayq (tg_set_state s TgEstablished)) (tg_set_state s TgEstablished))
    as [s2 o2] eqn:FL.
  inversion H; subst; clear H.
  rewrite tg_nonack_app in N. apply andb_true_iff in N. destruct N as [_ N2].
  assert (P1 : tg_pre seen (tg_set_state s TgEstablished)).
  { apply tg_pre_intro; simpl; auto. }
  pose proof (tg_flush_fifo _ _ _ _ _ P1 eq_refl FL N2) as F2.
  eapply tg_fifoB_app with (s1 := tg_set_state s TgEstablished); eauto.
  apply tg_fifoB_still; auto. destruct (tg_state_eqb (ts_state s) TgCsm); reflexivity.
Qed.

Lemma tg_dispatch_fifo : forall seen s pty pmid s' o,
  tg_pre seen s -> tg_dispatch O s pty pmid = (s', o) -> tg_nonack o = true -> tg_fifoB s o s'.
Proof.
  intros seen s pty pmid s' o P H N. unfold tg_dispatch in H.
  destruct ((pty =? 2) && tg_in pmid (tg_ids (ts_sendq s))).
  2:{ inversion H; subst. apply tg_fifoB_still; auto. }
  simpl in H. destruct (0 <? ts_con_active s).
  2:{ inversion H; subst. apply tg_fifoB_still; auto. }
  destruct (tg_state_eqb (ts_state s) TgEstablished) eqn:E.
  2:{ inversion H; subst. apply tg_fifoB_still; auto. }
  apply tg_state_eqb_eq in E. destruct (tg_pre_est_facts _ _ P E) as [F1 F2].
  eapply tg_connected_fifo in H; eauto.
Qed.

Lemma tg_after_event_fifo : forall s ev s' o,
  tg_after_event s ev = (s', o) -> tg_nonack o = true -> s' = s /\ forallb tg_still o = true.
Proof.
  intros s ev s' o H N. unfold tg_after_event in H. destruct ev as [e|].
  2:{ inversion H; subst. auto. }
  destruct ((e =? tg_EV_DTLS_ERROR) || (e =? tg_EV_DTLS_CLOSED)).
  - destruct (tg_disconnected s tg_NACK_TLS_FAILED) as [s1 o2] eqn:D. inversion H; subst.
    apply tg_disconnected_nacks in D. rewrite tg_nonack_app, D, andb_false_r in N. discriminate.
  - inversion H; subst. split; auto. destruct (e =? tg_EV_DTLS_CLOSED); reflexivity.
Qed.

Lemma tg_hs_call_fifo : forall s s' o r,
  tg_hs_call O s = (s', o, r) -> ts_delayq s' = ts_delayq s /\ forallb tg_still o = true /\
  tg_nonack o = true.
Proof.
  intros s s' o r H. unfold tg_hs_call in H.
  destruct (tg_do_handshake (ts_sent_alert s) (or_hs O (ts_khs s))) as [[ret ev] sa].
  inversion H; subst. auto.
Qed.

Lemma tg_dtls_receive_fifo : forall seen s0 pty pmid s' o,
  tg_pre seen s0 -> ts_tls s0 = true -> ts_type s0 <> TgHello ->
  tg_dtls_receive O s0 pty pmid = (s', o) -> tg_nonack o = true -> tg_fifoB s0 o s'.
Proof.
  intros seen s0 pty pmid s' o P0 T0 NH H N. unfold tg_dtls_receive in H.
  set (s := tg_set_dtls_event s0 None) in H.
  assert (P : tg_pre seen s) by exact P0.
  assert (T : ts_tls s = true) by exact T0.
  assert (NHs : ts_type s <> TgHello) by exact NH.
  assert (EQ : forall o s', tg_fifoB s o s' -> tg_fifoB s0 o s') by (intros; assumption).
  apply EQ. clear EQ. clearbody s. clear P0 T0 NH s0.
  destruct (ts_tls_est s) eqn:E.
  - assert (S : seen = true) by (apply P; auto). subst seen.
    destruct (if tg_state_eqb (ts_state s) TgHandshake
              then let '(sx, ox) := tg_connected O s in (sx, OEvent tg_EV_DTLS_CONNECTED :: ox)
              else (s, [])) as [s1 o1] eqn:C1.
    assert (F1 : tg_nonack o1 = true -> tg_fifoB s o1 s1 /\ tg_post O true o1 s1).
    { intros N1. destruct (tg_state_eqb (ts_state s) TgHandshake).
      - destruct (tg_connected O s) as [sx ox] eqn:CC. inversion C1; subst.
        destruct (tg_connected_post O _ _ _ _ P E NHs CC) as [Q K]. split.
        + change (OEvent tg_EV_DTLS_CONNECTED :: ox) with ([OEvent tg_EV_DTLS_CONNECTED] ++ ox).
          eapply tg_fifoB_app with (s1 := s); [apply tg_fifoB_still; auto|].
          eapply tg_connected_fifo; eauto.
        + apply tg_post_cons; [reflexivity | discriminate | exact Q].
      - inversion C1; subst. split; [apply tg_fifoB_still; auto | apply tg_post_nil; auto]. }
    destruct (negb (ts_tls s1)).
    { inversion H; subst. apply F1; auto. }
    set (s2 := tg_set_k s1 (ts_khs s1) (ts_ktx s1) (ts_krx s1 + 1) (ts_kck s1)) in H.
    destruct (0 <? or_rx O (ts_krx s1)).
    + destruct (tg_dispatch O s2 pty pmid) as [s3 o3] eqn:D. inversion H; subst.
      rewrite tg_nonack_app in N. apply andb_true_iff in N. destruct N as [N1 N3].
      simpl in N3.
      destruct (F1 N1) as [FB1 Q1].
      assert (P2 : tg_pre true s2).
      { destruct Q1 as [Q1 _]. rewrite tg_scan_seen_mono in Q1 by auto. exact Q1. }
      pose proof (tg_dispatch_fifo _ _ _ _ _ _ P2 D N3) as FB3.
      eapply tg_fifoB_app; [exact FB1|].
      change (OTlsRx (or_rx O (ts_krx s1)) :: ODeliver pty pmid :: o3)
        with ([OTlsRx (or_rx O (ts_krx s1)); ODeliver pty pmid] ++ o3).
      eapply tg_fifoB_app with (s1 := s2); [apply tg_fifoB_still; auto | exact FB3].
    + match type of H with context [tg_after_event ?a ?b] =>
        destruct (tg_after_event a b) as [s3 o3] eqn:AE end.
      inversion H; subst.
      rewrite tg_nonack_app in N. apply andb_true_iff in N. destruct N as [N1 N3].
      simpl in N3.
      destruct (F1 N1) as [FB1 _].
      destruct (tg_after_event_fifo _ _ _ _ AE N3) as [E3 S3]. subst.
      eapply tg_fifoB_app; [exact FB1|].
      change (OTlsRx (or_rx O (ts_krx s1)) :: o3) with ([OTlsRx (or_rx O (ts_krx s1))] ++ o3).
      eapply tg_fifoB_app with (s1 := s2); [apply tg_fifoB_still; auto|].
      apply tg_fifoB_still; auto.
      destruct (or_rx O (ts_krx s1) =? 0); [reflexivity|].
      destruct (or_rx O (ts_krx s1) =? tg_E_FATAL_ALERT_RECEIVED); [reflexivity|].
      destruct (or_rx O (ts_krx s1) =? tg_E_WARNING_ALERT_RECEIVED); reflexivity.
  - destruct (tg_hs_call O s) as [[s1 o1] ret1] eqn:H1.
    destruct (tg_hs_call_post O _ _ _ _ _ P T H1) as [Q1 [St1 [Ty1 [T1 R1]]]].
    destruct (tg_hs_call_fifo _ _ _ _ H1) as [D1 [S1 _]].
    destruct (ret1 =? 1) eqn:RE.
    + apply Z.eqb_eq in RE. specialize (R1 RE).
      destruct (tg_connected O s1) as [s2 o2] eqn:C.
      destruct (tg_after_event s2 (ts_dtls_event s2)) as [s3 o3] eqn:AE.
      inversion H; subst.
      rewrite !tg_nonack_app in N. apply andb_true_iff in N. destruct N as [_ N].
      apply andb_true_iff in N. destruct N as [N2 N3].
      destruct (tg_after_event_fifo _ _ _ _ AE N3) as [E3 S3]. subst.
      assert (NH1 : ts_type s1 <> TgHello) by congruence.
      eapply tg_fifoB_app with (s1 := s1); [apply tg_fifoB_still; auto|].
      eapply tg_fifoB_app with (s1 := s2); [|apply tg_fifoB_still; auto].
      eapply tg_connected_fifo; eauto. apply Q1.
    + destruct (or_more O (ts_khs s) && negb (ts_sent_alert s1)).
      * destruct (tg_hs_call O s1) as [[s2 o2] ret2] eqn:H2.
        destruct (tg_hs_call_post O _ _ _ _ _ (proj1 Q1) T1 H2) as [Q2 [St2 [Ty2 [T2 R2]]]].
        destruct (tg_hs_call_fifo _ _ _ _ H2) as [D2 [S2 _]].
        destruct (if ret2 =? 1 then tg_connected O s2 else (s2, [])) as [s3 o3] eqn:C.
        destruct (tg_after_event s3 (ts_dtls_event s3)) as [s4 o4] eqn:AE.
        inversion H; subst.
        rewrite !tg_nonack_app in N. apply andb_true_iff in N. destruct N as [_ N].
        apply andb_true_iff in N. destruct N as [_ N].
        apply andb_true_iff in N. destruct N as [N3 N4].
        destruct (tg_after_event_fifo _ _ _ _ AE N4) as [E4 S4]. subst.
        eapply tg_fifoB_app with (s1 := s1); [apply tg_fifoB_still; auto|].
        eapply tg_fifoB_app with (s1 := s2); [apply tg_fifoB_still; auto|].
        eapply tg_fifoB_app with (s1 := s3); [|apply tg_fifoB_still; auto].
        destruct (ret2 =? 1) eqn:RE2.
        -- apply Z.eqb_eq in RE2. eapply tg_connected_fifo; eauto; [apply Q2 | congruence].
        -- inversion C; subst. apply tg_fifoB_still; auto.
      * destruct (tg_after_event s1 (ts_dtls_event s1)) as [s2 o2] eqn:AE.
        inversion H; subst.
        rewrite tg_nonack_app in N. apply andb_true_iff in N. destruct N as [_ N2].
        destruct (tg_after_event_fifo _ _ _ _ AE N2) as [E2 S2]. subst.
        eapply tg_fifoB_app with (s1 := s1); apply tg_fifoB_still; auto.
Qed.

Lemma tg_dtls_hello_fifo : forall s s' o,
  tg_dtls_hello O s = (s', o) -> ts_delayq s' = ts_delayq s /\ forallb tg_still o = true.
Proof.
  intros s s' o H. unfold tg_dtls_hello in H.
  set (s0 := if ts_tls s then s else tg_set_tls s true false false) in H.
  assert (D0 : ts_delayq s0 = ts_delayq s) by (unfold s0; destruct (ts_tls s); reflexivity).
  clearbody s0.
  destruct (or_ck O (ts_kck s0) <? 0). { inversion H; subst. auto. }
  destruct (tg_hs_call O _) as [[s2 o2] ret] eqn:HC.
  destruct (tg_hs_call_fifo _ _ _ _ HC) as [D2 [S2 _]]. simpl in D2.
  destruct (ret <? 0); inversion H; subst; simpl; rewrite S2, D2; auto.
Qed.

Lemma tg_recv_fifo : forall seen s pty pmid s' o,
  tg_pre seen s -> tg_recv O s pty pmid = (s', o) -> tg_nonack o = true -> tg_fifoB s o s'.
Proof.
  intros seen s pty pmid s' o P H N. unfold tg_recv in H.
  assert (Hp : ts_proto s = TgDtls) by apply P. rewrite Hp in H.
  destruct (tg_type_eqb (ts_type s) TgHello) eqn:TH.
  - destruct (tg_dtls_hello_fifo _ _ _ H). apply tg_fifoB_still; auto.
  - destruct (ts_tls s) eqn:T.
    + eapply tg_dtls_receive_fifo; eauto. intros E. rewrite E in TH. discriminate.
    + inversion H; subst. apply tg_fifoB_still; auto.
Qed.

Lemma tg_connect_fifo : forall s s' o,
  ts_proto s = TgDtls -> tg_connect O s = (s', o) -> tg_nonack o = true -> tg_fifoB s o s'.
Proof.
  intros s s' o Hp H N. unfold tg_connect in H.
  destruct (negb (tg_type_eqb (ts_type s) TgClient)).
  { inversion H; subst. apply tg_fifoB_still; auto. }
  rewrite Hp in H.
  destruct (tg_hs_call O _) as [[s2 o2] ret] eqn:HC.
  destruct (tg_hs_call_fifo _ _ _ _ HC) as [D2 [S2 N2]]. simpl in D2.
  destruct (ret =? -1).
  - destruct (tg_disconnected _ tg_NACK_TLS_LAYER_FAILED) as [s4 o4] eqn:D. inversion H; subst.
    apply tg_disconnected_nacks in D. rewrite tg_nonack_app, D, andb_false_r in N. discriminate.
  - inversion H; subst. apply tg_fifoB_still; auto.
Qed.

Lemma tg_timeout_fifo : forall s s' o,
  tg_timeout O s = (s', o) -> tg_nonack o = true -> tg_fifoB s o s'.
Proof.
  intros s s' o H N. unfold tg_timeout in H.
  destruct (negb (tg_state_eqb (ts_state s) TgHandshake && tg_proto_eqb (ts_proto s) TgDtls && ts_tls s)).
  { inversion H; subst. apply tg_fifoB_still; auto. }
  destruct (ts_max_retransmit _ <? ts_to_count _).
  { apply tg_disconnected_nacks in H. rewrite H in N. discriminate. }
  destruct (tg_hs_call O _) as [[s2 o2] ret] eqn:HC.
  destruct (tg_hs_call_fifo _ _ _ _ HC) as [D2 [S2 N2]]. simpl in D2.
  destruct (ret <? 0).
  - destruct (tg_disconnected s2 tg_NACK_TLS_FAILED) as [s3 o3] eqn:D. inversion H; subst.
    apply tg_disconnected_nacks in D. rewrite tg_nonack_app, D, andb_false_r in N. discriminate.
  - inversion H; subst. apply tg_fifoB_still; auto.
Qed.

(* coap_send: appends at the tail (or transmits directly, or refuses) *)
Lemma tg_send_fifo : forall seen s m s' o,
  tg_pre seen s -> tg_send O s m true = (s', o) -> tg_nonack o = true ->
  tg_ids (ts_delayq s') = tg_ids (ts_delayq s) ++ tg_dl_ids o.
Proof.
  intros seen s m s' o P H N. unfold tg_send in H.
  destruct (tg_type_eqb (ts_type s) TgClient && negb (ts_sock s)).
  { inversion H; subst. simpl. rewrite app_nil_r. reflexivity. }
  unfold tg_send0 in H.
  destruct (tg_state_eqb (ts_state s) TgNone && negb (tg_type_eqb (ts_type s) TgClient)).
  { inversion H; subst. simpl. rewrite app_nil_r. reflexivity. }
  destruct (negb (tg_state_eqb (ts_state s) TgEstablished)
            || tm_con m && (ts_nstart s <=? ts_con_active s)).
  { unfold tg_delay_new in H. destruct (tg_in (tm_id m) (tg_ids (ts_delayq s))); simpl in H;
      inversion H; subst; simpl.
    - rewrite app_nil_r. reflexivity.
    - unfold tg_ids. rewrite map_app. reflexivity. }
  rewrite tg_session_send_dtls in H by apply P.
  destruct (tg_dtls_send O s m) as [[s1 o1] bw] eqn:DS.
  assert (N1 : tg_nonack o1 = true).
  { destruct (bw <? 0); [|destruct (tm_con m)]; inversion H; subst; auto.
    rewrite tg_nonack_app in N. apply andb_true_iff in N. apply N. }
  destruct (tg_dtls_send_fifo _ _ _ _ _ _ P DS N1) as [D1 [L1 _]].
  destruct (bw <? 0); [|destruct (tm_con m)]; inversion H; subst; simpl;
    rewrite ?tg_dl_ids_app, L1, D1; simpl; rewrite app_nil_r; reflexivity.
Qed.

Lemma tg_find_id_id : forall id q m, tg_find_id id q = Some m -> tm_id m = id.
Proof.
  induction q as [|x q IH]; intros m H; simpl in H; [discriminate|].
  destruct (tm_id x =? id) eqn:E; [inversion H; subst; apply Z.eqb_eq; exact E | auto].
Qed.

(* a CoAP retransmission either goes straight to the record layer or, if the gate is closed,
   back to the tail of the delay queue *)
Lemma tg_retransmit_fifo : forall seen s id s' o,
  tg_pre seen s -> tg_retransmit O s id false = (s', o) -> tg_nonack o = true ->
  tg_ids (ts_delayq s') = tg_ids (ts_delayq s) ++ tg_dl_ids o.
Proof.
  intros seen s id s' o P H N. unfold tg_retransmit in H.
  destruct (tg_find_id id (ts_sendq s)) as [m|] eqn:FI.
  2:{ inversion H; subst. simpl. rewrite app_nil_r. reflexivity. }
  apply tg_find_id_id in FI.
  set (s1 := if 0 <? ts_con_active s then tg_set_con_active s (ts_con_active s - 1) else s) in H.
  assert (D1 : ts_delayq s1 = ts_delayq s) by (unfold s1; destruct (0 <? ts_con_active s); reflexivity).
  assert (S1 : tg_same s s1) by (unfold s1; destruct (0 <? ts_con_active s); unfold tg_same; simpl; auto).
  assert (P1 : tg_pre seen s1) by (eapply tg_pre_same; eauto).
  destruct (negb (tg_state_eqb (ts_state s1) TgEstablished)
            || tm_con m && (ts_nstart s1 <=? ts_con_active s1)).
  { inversion H; subst. simpl. rewrite D1. unfold tg_ids. rewrite map_app. reflexivity. }
  rewrite tg_session_send_dtls in H by apply P1.
  destruct (tg_dtls_send O s1 m) as [[s2 o2] bw] eqn:DS.
  assert (N2 : tg_nonack o2 = true).
  { destruct ((0 <=? bw) && tm_con m); [inversion H; subst; auto|].
    destruct (_ && _); inversion H; subst; auto. }
  destruct (tg_dtls_send_fifo _ _ _ _ _ _ P1 DS N2) as [D2 [L2 _]].
  destruct ((0 <=? bw) && tm_con m); [|destruct (_ && _)]; inversion H; subst; simpl;
    rewrite L2, D2, D1, app_nil_r; reflexivity.
Qed.

(* ------------------------------------------------------------------ runs *)
Definition tg_fifo_ev (e : tg_ev) : Prop :=
  match e with
  | EConnect | ESend _ true | ERecv _ _ | ETimeout | ERetransmit _ false => True
  | _ => False
  end.

(* ids handed to the record layer out of the delay queue: the OTlsTx of every step that is not
   itself a coap_send or a retransmission (those transmit directly); ids accepted into the queue
   (by coap_send, or again by a retransmission that found the gate closed) *)
Fixpoint tg_flushed (tr : list (tg_ev * list tg_out)) : list Z :=
  match tr with
  | [] => []
  | (ESend _ _, _) :: r => tg_flushed r
  | (ERetransmit _ _, _) :: r => tg_flushed r
  | (_, o) :: r => tg_tx_ids o ++ tg_flushed r
  end.
Definition tg_delayed (tr : list (tg_ev * list tg_out)) : list Z := tg_dl_ids (tg_outs tr).

Lemma tg_maybe_free_not_freed : forall s s' o,
  tg_maybe_free s = (s', o) -> ts_freed s' = false -> s' = s /\ o = [].
Proof.
  intros s s' o H F. unfold tg_maybe_free in H.
  destruct (negb (ts_app_ref s) && tg_type_eqb (ts_type s) TgClient
            && match ts_sendq s with [] => true | _ => false end && negb (ts_freed s)).
  - unfold tg_mfree in H. destruct (tg_tls_close s). inversion H; subst. simpl in F. discriminate.
  - inversion H; subst. auto.
Qed.

Lemma tg_steps_freed_sticky : forall evs s s' tr,
  ts_freed s = true -> tg_steps O s evs = (s', tr) -> ts_freed s' = true.
Proof.
  induction evs as [|e evs IH]; intros s s' tr F H; simpl in H.
  - inversion H; subst. exact F.
  - rewrite (tg_step_freed O s e F) in H.
    destruct (tg_steps O s evs) as [s2 tr2] eqn:S2. inversion H; subst. eapply IH; eauto.
Qed.

Lemma tg_steps_fifo : forall evs seen s s' tr,
  tg_pre seen s -> ts_freed s = false -> Forall tg_fifo_ev evs ->
  tg_steps O s evs = (s', tr) -> ts_freed s' = false -> tg_nonack (tg_outs tr) = true ->
  tg_ids (ts_delayq s) ++ tg_delayed tr = tg_flushed tr ++ tg_ids (ts_delayq s').
Proof.
  induction evs as [|e evs IH]; intros seen s s' tr P F A H F' N; simpl in H.
  - inversion H; subst. unfold tg_delayed, tg_outs. simpl. rewrite app_nil_r. reflexivity.
  - destruct (tg_step O s e) as [s1 o] eqn:S1.
    destruct (tg_steps O s1 evs) as [s2 tr2] eqn:S2. inversion H; subst; clear H.
    pose proof (Forall_inv A) as H2. pose proof (Forall_inv_tail A) as H3.
    assert (F1 : ts_freed s1 = false).
    { destruct (ts_freed s1) eqn:X; auto.
      rewrite (tg_steps_freed_sticky _ _ _ _ X S2) in F'. discriminate. }
    unfold tg_outs in N. simpl in N. fold (tg_outs tr2) in N.
    rewrite tg_nonack_app in N. apply andb_true_iff in N. destruct N as [N1 N2].
    (* the step itself *)
    pose proof (tg_step_post O _ _ _ _ _ P S1) as [[[X|P1] _] _]; [congruence|].
    pose proof (IH _ _ _ _ P1 F1 H3 S2 F' N2) as L2.
    unfold tg_step in S1. rewrite F in S1.
    destruct (tg_step0 O s e) as [s0 o0] eqn:S0.
    destruct (tg_maybe_free s0) as [sf of] eqn:MF.
    assert (E0 : sf = s1 /\ o = o0 ++ of) by (inversion S1; auto).
    destruct E0 as [E0 E0']. subst sf o. clear S1.
    destruct (tg_maybe_free_not_freed _ _ _ MF F1) as [E1 E2]. subst s0 of.
    rewrite app_nil_r in *.
    unfold tg_delayed, tg_outs. simpl. fold (tg_outs tr2). rewrite tg_dl_ids_app.
    fold (tg_delayed tr2).
    destruct e; simpl in H2; try contradiction; simpl in S0.
    + (* EConnect *)
      pose proof (tg_connect_fifo _ _ _ (proj1 P) S0 N1) as [A1 B1].
      simpl. rewrite B1. simpl. rewrite A1, <- !app_assoc, L2. reflexivity.
    + destruct app; [|contradiction].
      pose proof (tg_send_fifo _ _ _ _ _ P S0 N1) as A1.
      simpl. rewrite app_assoc, <- A1. exact L2.
    + pose proof (tg_recv_fifo _ _ _ _ _ _ P S0 N1) as [A1 B1].
      simpl. rewrite B1. simpl. rewrite A1, <- !app_assoc, L2. reflexivity.
    + pose proof (tg_timeout_fifo _ _ _ S0 N1) as [A1 B1].
      simpl. rewrite B1. simpl. rewrite A1, <- !app_assoc, L2. reflexivity.
    + destruct giveup; [contradiction|].
      pose proof (tg_retransmit_fifo _ _ _ _ _ P S0 N1) as A1.
      simpl. rewrite app_assoc, <- A1. exact L2.
Qed.

(* ------------------------------------------------------------------ theorem, part 3 *)

(* While the session is not disconnected (no NACK is reported) and not freed: the messages
   handed to the record layer out of the delay queue, followed by those still queued, are
   exactly the messages that were accepted into the queue, in submission order. *)
Theorem tg_success_flush : forall t n evs s' tr,
  Forall tg_fifo_ev evs ->
  tg_steps O (tg_new_session TgDtls t n) evs = (s', tr) ->
  ts_freed s' = false -> tg_nonack (tg_outs tr) = true ->
  tg_flushed tr ++ tg_ids (ts_delayq s') = tg_delayed tr.
Proof.
  intros t n evs s' tr A H F N.
  assert (P : tg_pre false (tg_new_session TgDtls t n)).
  { destruct (tg_new_rinv t n) as [[X|P] _]; [discriminate | exact P]. }
  pose proof (tg_steps_fifo _ _ _ _ _ P eq_refl A H F N) as L. simpl in L. symmetry. exact L.
Qed.

End Fifo.

(* ------------------------------------------------------------------ progress
   If the record layer accepts every message (gnutls_record_send > 0), coap_session_connected -
   the call made when the handshake completes and whenever an acknowledgement frees an NSTART
   slot - leaves nothing in the delay queue unless NSTART holds it back: the queue is empty, or
   its head is a Confirmable and con_active has reached NSTART. *)
Section Progress.
Variable O : tg_oracle.
Hypothesis tx_ok : forall k, 0 < or_tx O k.

Definition tg_head_blocked (s : tg_sess) : Prop :=
  match ts_delayq s with
  | [] => True
  | m :: _ => tm_con m = true /\ ts_nstart s <= ts_con_active s
  end.

Lemma tg_dtls_send_ok : forall s m,
  ts_tls s && ts_tls_est s = true ->
  exists s' c, tg_dtls_send O s m = (s', [OTlsTx (tm_id m) c], c) /\ 0 < c /\
    ts_state s' = ts_state s /\ ts_delayq s' = ts_delayq s /\
    ts_con_active s' = ts_con_active s /\ ts_nstart s' = ts_nstart s.
Proof.
  intros s m TE. unfold tg_dtls_send. rewrite TE. simpl.
  pose proof (tx_ok (ts_ktx s)) as K. apply Z.ltb_lt in K. rewrite K.
  eexists. eexists. split; [reflexivity|]. apply Z.ltb_lt in K. simpl. auto.
Qed.

Lemma tg_flush_prog : forall q seen s s' o,
  tg_pre seen s -> ts_delayq s = q -> tg_flush O q s = (s', o) ->
  ts_state s' = ts_state s /\ (ts_state s' = TgEstablished -> tg_head_blocked s').
Proof.
  induction q as [|m q IH]; intros seen s s' o P Q H; simpl in H.
  - inversion H; subst. split; auto. intros _. unfold tg_head_blocked. rewrite Q. exact I.
  - destruct (negb (tg_state_eqb (ts_state s) TgEstablished)) eqn:E.
    { inversion H; subst. split; auto. intros X. apply negb_true_iff in E.
      rewrite X in E. discriminate. }
    destruct (tm_con m && (ts_nstart s <=? ts_con_active s)) eqn:B.
    { inversion H; subst. split; auto. intros _. unfold tg_head_blocked. rewrite Q.
      apply andb_true_iff in B. destruct B as [B1 B2]. split; auto. apply Z.leb_le. exact B2. }
    apply negb_false_iff in E. apply tg_state_eqb_eq in E.
    set (s2 := tg_set_delayq (if tm_con m then tg_set_con_active s (ts_con_active s + 1) else s) q) in H.
    assert (S2 : tg_same s s2) by (unfold s2; destruct (tm_con m); unfold tg_same; simpl; auto).
    assert (P2 : tg_pre seen s2) by (eapply tg_pre_same; eauto).
    assert (TE : ts_tls s2 && ts_tls_est s2 = true).
    { destruct P2 as [_ [[I0 [I1 _]] _]]. destruct S2 as [_ [_ [_ [E4 _]]]].
      rewrite E4 in I1. specialize (I1 E). rewrite I1, (I0 I1). reflexivity. }
    rewrite tg_session_send_dtls in H by apply P2.
    destruct (tg_dtls_send_ok s2 m TE) as [s3 [c [DS [C0 [K1 [K2 [K3 K4]]]]]]].
    rewrite DS in H.
    destruct (tg_dtls_send_post O _ _ _ _ _ _ P2 DS) as [Q3 _].
    set (s4 := if tm_con m then tg_set_sendq s3 (ts_sendq s3 ++ [m]) else s3) in H.
    assert (S4 : tg_same s3 s4) by (unfold s4; destruct (tm_con m); unfold tg_same; simpl; auto).
    assert (BW : (c <? 0) = false) by (apply Z.ltb_ge; lia). rewrite BW in H.
    destruct (tg_flush O q s4) as [s5 o5] eqn:FL. inversion H; subst.
    assert (P4 : tg_pre (snd (tg_scan seen [OTlsTx (tm_id m) c])) s4)
      by (eapply tg_pre_same; [exact S4 | apply Q3]).
    assert (Q4 : ts_delayq s4 = q) by (unfold s4; destruct (tm_con m); simpl; rewrite K2; reflexivity).
    destruct (IH _ _ _ _ P4 Q4 FL) as [A1 A2]. split; [|exact A2].
    rewrite A1. unfold s4. destruct (tm_con m); simpl; rewrite K1; unfold s2;
      destruct (tm_con m); reflexivity.
Qed.

Theorem tg_connected_progress : forall seen s s' o,
  tg_pre seen s -> ts_tls_est s = true -> ts_type s <> TgHello ->
  tg_connected O s = (s', o) ->
  ts_state s' = TgEstablished /\ tg_head_blocked s'.
Proof.
  intros seen s s' o P E NH H. pose proof P as [Hp [[I0 [I1 I2]] G]].
  unfold tg_connected in H.
  destruct (tg_flush O (ts_delayq (tg_set_state s TgEstablished)) (tg_set_state s TgEstablished))
    as [s2 o2] eqn:FL.
  inversion H; subst; clear H.
  assert (P1 : tg_pre seen (tg_set_state s TgEstablished)) by (apply tg_pre_intro; simpl; auto).
  destruct (tg_flush_prog _ _ _ _ _ P1 eq_refl FL) as [A1 A2]. simpl in A1.
  split; auto.
Qed.

(* the same without the internal invariant in the statement *)
Theorem tg_connected_progress' : forall s s' o,
  ts_proto s = TgDtls -> ts_tls s = true -> ts_tls_est s = true -> ts_type s <> TgHello ->
  tg_connected O s = (s', o) ->
  ts_state s' = TgEstablished /\ tg_head_blocked s'.
Proof.
  intros s s' o Hp T E NH H.
  eapply (tg_connected_progress true); eauto.
  apply tg_pre_intro; auto.
Qed.

End Progress.

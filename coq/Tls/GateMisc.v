(* C19 - proofs about the gate model, part 4: the acceptor is sound, the ClientHello pre-filter,
   the credential predicate, and concrete runs (non-vacuity). *)
From LibcoapV Require Import Base.Tactics Base.Bytes Tls.Gate Tls.GateProofs Tls.GateNack Tls.GateFifo.
Local Open Scope Z_scope.

(* ------------------------------------------------------------------ acceptor *)
Lemma tg_list_eqb_eq : forall (a b : list Z),
  (len a =? len b) && forallb (fun p => fst p =? snd p) (combine a b) = true -> a = b.
Proof.
  induction a as [|x a IH]; intros b H; destruct b as [|y b]; auto;
    apply andb_true_iff in H; destruct H as [L F].
  - unfold len in L. cbn [length] in L. rewrite Nat2Z.inj_succ in L. apply Z.eqb_eq in L. simpl in L. lia.
  - unfold len in L. cbn [length] in L. rewrite Nat2Z.inj_succ in L. apply Z.eqb_eq in L. simpl in L. lia.
  - simpl in F. apply andb_true_iff in F. destruct F as [E F]. simpl in E.
    apply Z.eqb_eq in E. subst y. f_equal. apply IH. apply andb_true_iff. split; auto.
    unfold len in *. cbn [length] in L. rewrite !Nat2Z.inj_succ in L.
    apply Z.eqb_eq in L. apply Z.eqb_eq. lia.
Qed.

Lemma tg_out_eqb_eq : forall a b, tg_out_eqb a b = true -> a = b.
Proof.
  intros a b H. destruct a, b; simpl in H; try discriminate;
    try (f_equal; apply tg_list_eqb_eq; exact H);
    repeat match goal with
           | H : _ && _ = true |- _ => apply andb_true_iff in H; destruct H
           | H : (_ =? _) = true |- _ => apply Z.eqb_eq in H; subst
           | H : Bool.eqb _ _ = true |- _ => apply Bool.eqb_prop in H; subst
           end; auto.
Qed.

Lemma tg_outs_eqb_eq : forall a b, tg_outs_eqb a b = true -> a = b.
Proof.
  unfold tg_outs_eqb. induction a as [|x a IH]; intros b H; destruct b as [|y b]; auto;
    apply andb_true_iff in H; destruct H as [L F].
  - unfold len in L. cbn [length] in L. rewrite Nat2Z.inj_succ in L. apply Z.eqb_eq in L. simpl in L. lia.
  - unfold len in L. cbn [length] in L. rewrite Nat2Z.inj_succ in L. apply Z.eqb_eq in L. simpl in L. lia.
  - simpl in F. apply andb_true_iff in F. destruct F as [E F]. simpl in E.
    apply tg_out_eqb_eq in E. subst y. f_equal. apply IH. apply andb_true_iff. split; auto.
    unfold len in *. cbn [length] in L. rewrite !Nat2Z.inj_succ in L.
    apply Z.eqb_eq in L. apply Z.eqb_eq. lia.
Qed.

(* an accepted trace IS the model's trace for its events and the oracle it was replayed with *)
Theorem tg_accepts_sound : forall O tr s,
  tg_accepts O s tr = true -> snd (tg_steps O s (map fst tr)) = tr.
Proof.
  intros O. induction tr as [|[e o] tr IH]; intros s H; simpl in *; auto.
  destruct (tg_step O s e) as [s1 o1] eqn:S1.
  apply andb_true_iff in H. destruct H as [E A].
  apply tg_outs_eqb_eq in E. subst o1.
  specialize (IH _ A). destruct (tg_steps O s1 (map fst tr)) as [s2 tr2]. simpl in *.
  subst tr2. reflexivity.
Qed.

(* the acceptor with snapshots only adds conditions *)
Theorem tg_accepts_snap_accepts : forall O tr s,
  tg_accepts_snap O s tr = true -> tg_accepts O s (map fst tr) = true.
Proof.
  intros O. induction tr as [|[[e o] n] tr IH]; intros s H; simpl in *; auto.
  destruct (tg_step O s e) as [s1 o1].
  apply andb_true_iff in H. destruct H as [H A]. apply andb_true_iff in H. destruct H as [E _].
  rewrite E. simpl. apply IH. exact A.
Qed.

(* ------------------------------------------------------------------ pre-filter *)
Theorem tg_prefilter_spec : forall d,
  tg_prefilter d = PreNewHello <-> (14 <= len d /\ nth 0 d 0 = 22 /\ nth 13 d 0 = 1).
Proof.
  intros d. unfold tg_prefilter. destruct (len d <? 14) eqn:L.
  - split; [discriminate | intros [H _]; lia].
  - destruct ((Z.land (nth 0 d 0) 48 =? 48) || (nth 0 d 0 =? 25)) eqn:C.
    + split; [discriminate|]. intros [_ [H _]]. rewrite H in C. discriminate.
    + destruct (nth 0 d 0 =? 22) eqn:A; destruct (nth 13 d 0 =? 1) eqn:B; simpl;
        split; try discriminate; try (intros [_ [H1 H2]]; lia); intros _; repeat split; lia.
Qed.

(* a datagram that starts like a CoAP message (version 1: first byte 0x40..0x7f) never makes
   a DTLS endpoint allocate a session *)
Theorem tg_prefilter_drops_coap : forall d,
  64 <= nth 0 d 0 < 128 -> tg_prefilter d = PreDrop.
Proof.
  intros d H. destruct (tg_prefilter d) eqn:E; auto.
  apply tg_prefilter_spec in E. lia.
Qed.

(* ------------------------------------------------------------------ credentials *)
Lemma tg_beqb_eq : forall a b, tg_beqb a b = true <-> a = b.
Proof.
  induction a as [|x a IH]; intros b; destruct b as [|y b]; simpl; split; intros H;
    try discriminate; auto.
  - apply andb_true_iff in H. destruct H as [E H]. apply Z.eqb_eq in E.
    apply (proj1 (IH b)) in H. rewrite E, H. reflexivity.
  - inversion H; subst. rewrite Z.eqb_refl. simpl. apply (proj2 (IH b)). reflexivity.
Qed.

(* the match predicate unfolded: the server has credentials for the SNI, the client accepts the
   hint and picks (identity, key), the server knows that identity, and the two keys are equal *)
Theorem tg_creds_match_spec : forall c s,
  tg_creds_match c s = true <->
  exists h sk i ck,
    tg_server_sni s (tg_sni_sent (cc_sni c)) = Some (h, sk) /\
    tg_client_choice c (tg_hint_seen h) = Some (i, ck) /\
    tg_server_key s sk i = Some ck.
Proof.
  intros c s. unfold tg_creds_match. split.
  - destruct (tg_server_sni s (tg_sni_sent (cc_sni c))) as [[h sk]|] eqn:A; [|discriminate].
    destruct (tg_client_choice c (tg_hint_seen h)) as [[i ck]|] eqn:B; [|discriminate].
    destruct (tg_server_key s sk i) as [k|] eqn:K; [|discriminate].
    intros E. apply tg_beqb_eq in E. subst k. exists h, sk, i, ck. repeat split; auto.
  - intros [h [sk [i [ck [A [B C]]]]]]. rewrite A, B, C. apply tg_beqb_eq. reflexivity.
Qed.

(* without callbacks: the keys must be equal byte strings and not empty - so a key of another
   length, a proper prefix, or an empty key never matches *)
Theorem tg_creds_default : forall c s,
  cc_ih c = None -> sc_ids s = None -> sc_snis s = None ->
  (tg_creds_match c s = true <-> cc_key c = sc_key s /\ sc_key s <> []).
Proof.
  intros c s A B C. unfold tg_creds_match, tg_server_sni, tg_client_choice, tg_server_key.
  rewrite A, B, C. destruct (sc_key s) as [|x k] eqn:K.
  - split; [discriminate | intros [_ H]; congruence].
  - rewrite tg_beqb_eq. split; [intros H; split; [auto | discriminate] | intros [H _]; auto].
Qed.

(* an identity the server's table does not know never matches *)
Theorem tg_creds_unknown_identity : forall c s t,
  sc_ids s = Some t -> sc_snis s = None -> cc_ih c = None ->
  tg_lookup (tg_cstr (cc_id c)) t = None -> tg_creds_match c s = false.
Proof.
  intros c s t A B C D. unfold tg_creds_match, tg_server_sni, tg_client_choice, tg_server_key.
  rewrite A, B, C, D. reflexivity.
Qed.

(* a hint the client's callback rejects never matches *)
Theorem tg_creds_hint_rejected : forall c s t,
  sc_snis s = None -> cc_ih c = Some t -> tg_lookup (tg_hint_seen (sc_hint s)) t = None ->
  tg_creds_match c s = false.
Proof.
  intros c s t A B C. unfold tg_creds_match, tg_server_sni, tg_client_choice.
  rewrite A, B, C. reflexivity.
Qed.

(* ---- SNI: the credentials in force are those configured for exactly the name the client sent
   (up to ASCII case), whatever was cached by earlier handshakes on the same context *)
Lemma tg_ci_eqb_refl : forall a, tg_ci_eqb a a = true.
Proof. induction a; simpl; auto. rewrite Z.eqb_refl. exact IHa. Qed.
Lemma tg_ci_eqb_sym : forall a b, tg_ci_eqb a b = tg_ci_eqb b a.
Proof.
  induction a as [|x a IH]; destruct b as [|y b]; simpl; auto.
  rewrite Z.eqb_sym, IH. reflexivity.
Qed.
Lemma tg_ci_eqb_trans : forall a b c, tg_ci_eqb a b = true -> tg_ci_eqb b c = true -> tg_ci_eqb a c = true.
Proof.
  induction a as [|x a IH]; destruct b as [|y b]; destruct c as [|z c]; simpl; intros H1 H2;
    try discriminate; auto.
  apply andb_true_iff in H1. destruct H1 as [A1 B1]. apply andb_true_iff in H2. destruct H2 as [A2 B2].
  apply Z.eqb_eq in A1. apply Z.eqb_eq in A2. rewrite A1, A2, Z.eqb_refl. simpl. eapply IH; eauto.
Qed.

Lemma tg_lookup_ci_congr : forall {A} (t : list (list Z * A)) a b,
  tg_ci_eqb a b = true -> tg_lookup_ci a t = tg_lookup_ci b t.
Proof.
  induction t as [|[k v] t IH]; intros a b E; simpl; auto.
  destruct (tg_ci_eqb a k) eqn:X; destruct (tg_ci_eqb b k) eqn:Y; auto.
  - rewrite tg_ci_eqb_sym in E. rewrite (tg_ci_eqb_trans _ _ _ E X) in Y. discriminate.
  - rewrite (tg_ci_eqb_trans _ _ _ E Y) in X. discriminate.
Qed.

(* a cache whose entries all came from the table *)
Definition tg_cache_ok {A} (cache table : list (list Z * A)) : Prop :=
  forall n v, tg_lookup_ci n cache = Some v -> tg_lookup_ci n table = Some v.

Lemma tg_lookup_ci_app : forall {A} (a b : list (list Z * A)) n,
  tg_lookup_ci n (a ++ b) = match tg_lookup_ci n a with Some v => Some v | None => tg_lookup_ci n b end.
Proof.
  induction a as [|[k v] a IH]; intros b n; simpl; auto. destruct (tg_ci_eqb n k); auto.
Qed.

(* for every history of handshakes the cached lookup answers what the table says, and the cache
   stays made of table entries: names that are prefixes / extensions / case variants of cached
   names are not confused *)
Theorem tg_sni_cache_transparent : forall {A} (cache table : list (list Z * A)) name,
  tg_cache_ok cache table ->
  fst (tg_sni_cached cache table name) = tg_lookup_ci name table /\
  tg_cache_ok (snd (tg_sni_cached cache table name)) table.
Proof.
  intros A cache table name OK. unfold tg_sni_cached.
  destruct (tg_lookup_ci name cache) as [v|] eqn:C.
  - simpl. split; [symmetry; apply OK; exact C | exact OK].
  - destruct (tg_lookup_ci name table) as [v|] eqn:T; simpl; split; auto.
    intros n w H. rewrite tg_lookup_ci_app in H.
    destruct (tg_lookup_ci n cache) as [u|] eqn:Cn.
    + inversion H; subst. apply OK. exact Cn.
    + simpl in H. destruct (tg_ci_eqb n name) eqn:E; [|discriminate].
      inversion H; subst. rewrite (tg_lookup_ci_congr table n name E). exact T.
Qed.

(* with an SNI table (and no identity / hint callbacks): a match means the client's key is the key
   configured for exactly the name it sent *)
Theorem tg_creds_sni_exact : forall c s t,
  sc_snis s = Some t -> sc_ids s = None -> cc_ih c = None ->
  tg_creds_match c s = true ->
  exists h k, tg_lookup_ci (match tg_sni_sent (cc_sni c) with Some n => n | None => [] end) t = Some (h, k) /\
              cc_key c = k.
Proof.
  intros c s t A B C M. unfold tg_creds_match, tg_server_sni, tg_client_choice, tg_server_key in M.
  rewrite A, B, C in M.
  destruct (tg_lookup_ci _ t) as [[h k]|] eqn:L; [|discriminate].
  apply tg_beqb_eq in M. exists h, k. auto.
Qed.

(* ------------------------------------------------------------------ concrete runs *)
(* handshake calls: AGAIN, AGAIN, SUCCESS; everything else succeeds *)
Definition tg_ex_oracle_ok : tg_oracle :=
  Build_tg_oracle (fun k => if k <? 2 then tg_E_AGAIN else 0) (fun _ => false)
                  (fun _ => 40) (fun _ => 30) (fun _ => 0).
(* handshake calls: AGAIN, then a fatal alert *)
Definition tg_ex_oracle_bad : tg_oracle :=
  Build_tg_oracle (fun k => if k <? 1 then tg_E_AGAIN else tg_E_FATAL_ALERT_RECEIVED)
                  (fun _ => false) (fun _ => 40) (fun _ => 30) (fun _ => 0).
Definition tg_m (i : Z) (c : bool) : tg_msg := Build_tg_msg i c [64; 2; 0; i].
Definition tg_ex_events : list tg_ev :=
  [EConnect; ESend (tg_m 1 true) true; ESend (tg_m 2 false) true; ESend (tg_m 3 true) true;
   ERecv 0 0; ERecv 0 0; ERecv 2 1; ERecv 2 3].

(* success: 1 and 2 leave the queue when the handshake completes (NSTART = 1 holds 3 back),
   3 follows when 1 is acknowledged; both responses are delivered *)
Example tg_ex_success :
  let '(s', tr) := tg_steps tg_ex_oracle_ok (tg_new_session TgDtls TgClient 1) tg_ex_events in
  ts_state s' = TgEstablished /\ tg_flushed tr = [1; 2; 3] /\ tg_delayed tr = [1; 2; 3] /\
  ts_delayq s' = [] /\ tg_nonack (tg_outs tr) = true /\
  In (ODeliver 2 1) (tg_outs tr) /\ In (ODeliver 2 3) (tg_outs tr).
Proof. vm_compute. repeat split; auto 20. Qed.

(* failure: the two Confirmables are NACKed once each, nothing reaches the record layer *)
Example tg_ex_failure :
  let '(s', tr) := tg_steps tg_ex_oracle_bad (tg_new_session TgDtls TgClient 1) tg_ex_events in
  ts_state s' = TgNone /\ tg_nack_ids (tg_outs tr) = [1; 3] /\ tg_dcon_ids (tg_outs tr) = [1; 3] /\
  tg_tx_ids (tg_outs tr) = [] /\ ts_delayq s' = [] /\ ts_sock s' = false.
Proof. vm_compute. repeat split; auto. Qed.

(* the hypotheses of the part-2 theorems are satisfiable: this oracle never succeeds *)
Example tg_ex_bad_never_ok : forall k, or_hs tg_ex_oracle_bad k <> 0.
Proof.
  intros k. simpl. unfold tg_E_AGAIN, tg_E_FATAL_ALERT_RECEIVED. destruct (k <? 1); lia.
Qed.

(* on UDP the same events do write cleartext: the no-cleartext theorem is about DTLS *)
Example tg_ex_udp_clear :
  let '(_, tr) := tg_steps tg_ex_oracle_ok (tg_new_session TgUdp TgClient 1)
                           [EConnect; ESend (tg_m 1 true) true] in
  In (OWireClear [64; 2; 0; 1]) (tg_outs tr).
Proof. vm_compute. auto. Qed.

(* concrete credentials *)
Definition tg_ex_c (k : list Z) : tg_ccfg := Build_tg_ccfg [105; 100] k None None.
Definition tg_ex_s (k : list Z) : tg_scfg := Build_tg_scfg [104] k None None.
Example tg_ex_creds :
  tg_creds_match (tg_ex_c [1; 2; 3]) (tg_ex_s [1; 2; 3]) = true /\
  tg_creds_match (tg_ex_c [1; 2]) (tg_ex_s [1; 2; 3]) = false /\
  tg_creds_match (tg_ex_c [1; 2; 3; 4]) (tg_ex_s [1; 2; 3]) = false /\
  tg_creds_match (tg_ex_c []) (tg_ex_s []) = false.
Proof. vm_compute. auto. Qed.
